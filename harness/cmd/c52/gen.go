package main

// Generators for C52: boundary tables first, then structured random (mostly well-formed
// markdown using every gnoweb extension, with hostile payloads in every slot), then a
// malformed stream.  Every random choice comes from the one *kit.Rand.

import (
	"fmt"
	"strings"

	"gnoverif/kit"
)

// ------------------------------------------------------------------ payload tables

var schemeURLs = []string{
	"javascript:alert(1)", "JaVaScRiPt:alert(1)", "javascript://%0aalert(1)", "vbscript:msgbox(1)", "VBScript:x",
	"data:text/html,<script>alert(1)</script>", "data:text/html;base64,PHNjcmlwdD5hbGVydCgxKTwvc2NyaXB0Pg==",
	"DATA:text/html,x", "data:image/svg+xml;base64,PHN2Zy8+", "data:image/png;base64,iVBORw0KGgo=",
	"data:image/svg+xml,<svg onload=alert(1)>", "data:image/gif;base64,R0lGOD", "data:image/jpeg;x", "data:image/webp;x",
	"data:image/bmp;base64,Qk0=", "data:,x", "data:image/", "data:image/svg+xml", "file:///etc/passwd", "FILE:x",
	"https://example.com/?a=1&b=2#f", "http://gno.land/r/demo/foo", "/r/demo/foo:bar?help&x=1", "/r/other/pkg", "/u/alice",
	"mailto:a@b.c", "#frag", "//evil.example/x", "x:y", "javascript", "javascript;alert(1)", "java script:alert(1)",
	"jav\tascript:alert(1)", "\tjavascript:alert(1)", " javascript:alert(1)", "\x01javascript:alert(1)",
	"javascript\t:alert(1)", "feed:javascript:alert(1)", "livescript:x", "a.b+c-d:e", "1javascript:x", "",
}

var htmlPayloads = []string{
	`<script>alert(1)</script>`, `<SCRIPT SRC=//evil.example/x.js></SCRIPT>`, `<img src=x onerror=alert(1)>`,
	`<svg/onload=alert(1)>`, `<iframe src="javascript:alert(1)"></iframe>`, `<a href="javascript:alert(1)">x</a>`,
	`<b onclick="alert(1)">bold</b>`, `<div style="background:url(javascript:alert(1))">`, `<object data="data:text/html,x"></object>`,
	`<embed src=x>`, `<form action="javascript:alert(1)"><button formaction="javascript:alert(2)">go</button></form>`,
	`<base href="//evil.example/">`, `<meta http-equiv="refresh" content="0;url=javascript:alert(1)">`,
	`<link rel=stylesheet href=//evil.example/x.css>`, `<style>*{color:red}</style>`, `<x-cnry data-cnry="1">t</x-cnry>`,
	`<p data-cnry="2" onmouseover=alert(1)>`, `<!-- comment --><script>alert(1)</script>`, `<!--><script>alert(1)</script>-->`,
	`<!--!><script>alert(1)</script>`, `<![CDATA[<script>alert(1)</script>]]>`, `<?php echo 1 ?>`, `<!DOCTYPE html>`,
	`<textarea><script>alert(1)</script></textarea>`, `</textarea><script>alert(1)</script>`, `<math><mi xlink:href="javascript:alert(1)">x</mi></math>`,
	`<details open ontoggle=alert(1)>`, `<input autofocus onfocus=alert(1)>`, `<marquee onstart=alert(1)>`, `<a href=javascript&colon;alert(1)>x</a>`,
	`<a href="&#106;avascript:alert(1)">x</a>`, `<gno-columns onclick=alert(1)>`, `<br/><hr><script`, `<scr<script>ipt>`,
}

var attrBreakers = []string{
	`"><script>alert(1)</script>`, `" onmouseover="alert(1)`, `' onfocus='alert(1)`, `"onclick=alert(1) x="`, `x" autofocus onfocus="alert(1)`,
	`--><script>alert(1)</script><!--`, `--!><img src=x onerror=alert(1)>`, `</textarea><script>alert(1)</script>`, `</option></select><script>alert(1)</script>`,
	`</form><form action=javascript:alert(1)>`, "`onerror=alert(1)", `&quot;&gt;&lt;script&gt;`, `&#34;&#62;&#60;script&#62;`, `&amp;quot;`, "\x00\"><b>", "a\nb\"c", `%22%3E%3Cscript%3E`,
	`{{.}}`, `{{template "x"}}`, `${alert(1)}`, `\"><script>`, `\\"onx=y`,
}

var plainWords = []string{"hello", "world", "gno", "realm", "render", "the", "a", "of", "x", "Lorem", "ipsum", "42", "3.14", "don't", "R&D", "a<b", "c>d", `say "hi"`, "naïve", "日本語", "émoji 🙂"}

var userNames = []string{"alice", "bob_123", "moul", "x_y_z", "ab", "averyveryveryveryverylongusername", "al<b>", "a-b"}
var addrs = []string{"g1jg8mtutu9khhfwc4nxmuhcpftf0pajdhfvsqf5", "g1us8428u2a5satrlxzagqqa5m6vmuze025anjlj", "g1invalidaddressinvalidaddressinvalidaddr", "g1" + strings.Repeat("q", 38)}

// ------------------------------------------------------------------ small helpers

type g struct {
	r *kit.Rand
}

func (x g) pick(xs []string) string { return kit.Pick(x.r, xs) }

func hexs(s string) string { return kit.Hex([]byte(s)) }

// numeric / named character reference spellings of one byte
func (x g) ref(c byte) string {
	switch x.r.Intn(9) {
	case 0:
		return fmt.Sprintf("&#%d;", c)
	case 1:
		return fmt.Sprintf("&#x%x;", c)
	case 2:
		return fmt.Sprintf("&#X%X;", c)
	case 3:
		return fmt.Sprintf("&#%06d;", c) // leading zeros: goldmark reads base 0 (octal!), browsers decimal
	case 4:
		return fmt.Sprintf("&#0%o;", c) // octal spelling goldmark resolves to c
	case 5:
		return fmt.Sprintf("&#x%08x;", c)
	case 6:
		return fmt.Sprintf("&#%d", c) // no semicolon
	case 7:
		switch c {
		case ':':
			return "&colon;"
		case '\t':
			return "&Tab;"
		case '\n':
			return "&NewLine;"
		case '<':
			return "&lt;"
		case '>':
			return "&gt;"
		case '"':
			return "&quot;"
		case '&':
			return "&amp;"
		case '\'':
			return "&apos;"
		}
		return fmt.Sprintf("&#%d;", c)
	default:
		return "\\" + string(c) // backslash escape (punctuation only is unescaped)
	}
}

// obfuscate rewrites a URL the way filter evasions do.
func (x g) obfuscate(u string) string {
	if u == "" {
		return u
	}
	b := []byte(u)
	switch x.r.Intn(14) {
	case 0, 1:
		return u
	case 2: // one scheme byte as a reference
		i := x.r.Intn(minInt(len(b), 12))
		return string(b[:i]) + x.ref(b[i]) + string(b[i+1:])
	case 3: // every byte of the scheme part as references
		var sb strings.Builder
		for i, c := range b {
			if i < 12 && x.r.Chance(70) {
				sb.WriteString(x.ref(c))
			} else {
				sb.WriteByte(c)
			}
		}
		return sb.String()
	case 4: // the colon
		if i := strings.IndexByte(u, ':'); i >= 0 {
			return u[:i] + x.pick([]string{"&colon;", "&#58;", "&#x3a;", "&#x3A;", "\\:", "%3a", "&#058;", "&COLON;", "&colon"}) + u[i+1:]
		}
		return u
	case 5: // whitespace / control inside the scheme
		i := x.r.Intn(minInt(len(b), 11) + 1)
		return string(b[:i]) + x.pick([]string{"\t", "&Tab;", "&#9;", "&#x9;", "&NewLine;", "&#10;", "&#13;", "%09", "%0a", " ", "&#32;", "&nbsp;", "\x0b", "&#0;", "&#1;", "\x7f"}) + string(b[i:])
	case 6: // leading junk
		return x.pick([]string{" ", "\t", "&#1;", "&#x1f;", "&#32;", "&Tab;", "\x01", "\x1f", "%20", "&nbsp;", "&#0;", "\\", "&#xa0;"}) + u
	case 7: // mixed case
		for i := range b {
			if x.r.Bool() && b[i] >= 'a' && b[i] <= 'z' {
				b[i] -= 32
			}
		}
		return string(b)
	case 8: // percent games, including the kept-third-byte quirk of URLEscape
		i := x.r.Intn(len(b) + 1)
		return string(b[:i]) + x.pick([]string{"%", "%4", "%4\t", "%a\n", "%zz", "%25", "%6a", "%f\"", "%1<", "%00", "%e2%80%8b"}) + string(b[i:])
	case 9: // invalid / truncated UTF-8
		i := x.r.Intn(len(b) + 1)
		return string(b[:i]) + x.pick([]string{"\xc3", "\xe2\x80", "\xf0\x9f", "\x80", "\xff", "\xc3(", "\xed\xa0\x80", "é", "​", " "}) + string(b[i:])
	case 10: // out-of-range / odd numeric references
		return x.pick([]string{"&#0;", "&#x110000;", "&#xD800;", "&#99999999;", "&#1234567;", "&#12345678;", "&#x;", "&#;", "&#xffffffffff;", "&#08;", "&#00;", "&#x0;", "&#x41", "&unknown;", "&;", "&amp;colon;"}) + u
	case 11: // double encoding
		return strings.ReplaceAll(u, ":", "&amp;colon;")
	case 12: // a reference at the very start
		return x.ref(b[0]) + string(b[1:])
	default: // trailing junk
		return u + x.pick([]string{" ", "\t", "\"", "'", ">", "<", "&", "&#", "&#x", "%", "\\", "\\\\", "\xc3"})
	}
}

func minInt(a, b int) int {
	if a < b {
		return a
	}
	return b
}

func (x g) url() string {
	u := x.pick(schemeURLs)
	if x.r.Chance(60) {
		u = x.obfuscate(u)
		if x.r.Chance(25) {
			u = x.obfuscate(u)
		}
	}
	return u
}

// bytesWeighted draws a byte string from an alphabet heavy in HTML/markdown specials.
func (x g) bytesWeighted(n int) []byte {
	special := []byte("<>\"'&;#:/\\%=-! \t\n\r\x00`[]()*_~|@{}x")
	out := make([]byte, n)
	for i := range out {
		switch x.r.Intn(10) {
		case 0, 1, 2, 3:
			out[i] = special[x.r.Intn(len(special))]
		case 4, 5, 6:
			out[i] = byte('a' + x.r.Intn(26))
		case 7:
			out[i] = byte('0' + x.r.Intn(10))
		default:
			out[i] = byte(x.r.U64())
		}
	}
	return out
}

// ------------------------------------------------------------------ markdown documents

func (x g) words(n int) string {
	ws := make([]string, n)
	for i := range ws {
		ws[i] = x.pick(plainWords)
	}
	return strings.Join(ws, " ")
}

func (x g) title() string {
	switch x.r.Intn(4) {
	case 0:
		return ""
	case 1:
		return ` "` + strings.ReplaceAll(x.pick(plainWords), `"`, `\"`) + `"`
	case 2:
		return ` '` + strings.ReplaceAll(x.pick(attrBreakers), `'`, `\'`) + `'`
	default:
		return ` "` + strings.ReplaceAll(strings.ReplaceAll(x.pick(attrBreakers), "\n", " "), `"`, `\"`) + `"`
	}
}

func (x g) dest() string {
	u := x.url()
	if x.r.Chance(40) || strings.ContainsAny(u, " \t\n()") {
		u = strings.NewReplacer("<", "%3C", ">", "%3E", "\n", "", "\r", "").Replace(u)
		return "<" + u + ">"
	}
	return u
}

func (x g) inline() string {
	switch x.r.Intn(22) {
	case 0, 1, 2:
		return x.words(1 + x.r.Intn(4))
	case 3, 4, 5:
		return "[" + x.words(1) + "](" + x.dest() + x.title() + ")"
	case 6, 7:
		return "![" + x.pick(append(plainWords, attrBreakers...)) + "](" + x.dest() + x.title() + ")"
	case 8:
		return "<" + strings.NewReplacer(" ", "", "<", "", ">", "", "\n", "", "\t", "").Replace(x.url()) + ">"
	case 9:
		return "`" + x.pick(htmlPayloads) + "`"
	case 10:
		return "**" + x.words(1) + "** _" + x.words(1) + "_ ~~" + x.words(1) + "~~"
	case 11:
		return " @" + x.pick(userNames)
	case 12:
		return " " + x.pick(addrs)
	case 13, 14:
		return x.pick(htmlPayloads)
	case 15:
		return x.pick(attrBreakers)
	case 16:
		return "[" + x.words(1) + "][r" + fmt.Sprint(x.r.Intn(3)) + "]"
	case 17:
		return strings.NewReplacer("<", "&lt;", ">", "&gt;").Replace(x.pick(htmlPayloads))
	case 18:
		return x.url() // bare URL text (GFM linkify is not enabled, must stay text)
	case 19:
		return "[^" + fmt.Sprint(1+x.r.Intn(2)) + "]"
	case 20:
		return "[" + x.pick(htmlPayloads) + "](" + x.dest() + ")"
	default:
		return "[![" + x.words(1) + "](" + x.dest() + ")](" + x.dest() + x.title() + ")"
	}
}

func (x g) para() string {
	n := 1 + x.r.Intn(4)
	parts := make([]string, n)
	for i := range parts {
		parts[i] = x.inline()
	}
	return strings.Join(parts, x.pick([]string{" ", " ", "\n", ", "}))
}

// attribute value spelled inside a gno-* tag so that the HTML tokenizer decodes it to `v`
func (x g) tagAttr(name, v string) string {
	if x.r.Chance(50) && !strings.Contains(v, "'") {
		return " " + name + "='" + strings.ReplaceAll(v, "\n", "&#10;") + "'"
	}
	enc := strings.NewReplacer("&", "&amp;", `"`, "&quot;", "\n", "&#10;").Replace(v)
	if x.r.Chance(30) {
		enc = strings.NewReplacer("<", "&lt;", ">", "&gt;").Replace(enc)
	}
	return " " + name + `="` + enc + `"`
}

func (x g) hostileOr(plain []string) string {
	if x.r.Chance(45) {
		return x.pick(append(append([]string{}, attrBreakers...), htmlPayloads...))
	}
	return x.pick(plain)
}

func (x g) form() string {
	var sb strings.Builder
	sb.WriteString("<gno-form")
	if x.r.Chance(60) {
		sb.WriteString(x.tagAttr("path", x.hostileOr([]string{"foo/bar", "p?x=1", ""})))
	}
	if x.r.Chance(50) {
		sb.WriteString(x.tagAttr("exec", x.hostileOr([]string{"CreatePost", "do_it", "X"})))
	}
	if x.r.Chance(10) {
		sb.WriteString(` onsubmit="alert(1)"`)
	}
	sb.WriteString(">\n")
	for i, n := 0, x.r.Intn(5); i < n; i++ {
		name := x.hostileOr([]string{"title", "body", "choice", "n" + fmt.Sprint(i), "a_b"})
		switch x.r.Intn(4) {
		case 0, 1:
			sb.WriteString("<gno-input" + x.tagAttr("name", name))
			if x.r.Chance(70) {
				sb.WriteString(x.tagAttr("type", x.hostileOr([]string{"text", "number", "email", "tel", "password", "radio", "checkbox", "file", "hidden", "submit"})))
			}
			for _, a := range []string{"placeholder", "value", "description"} {
				if x.r.Chance(50) {
					sb.WriteString(x.tagAttr(a, x.hostileOr(plainWords)))
				}
			}
			for _, a := range []string{"checked", "readonly", "required"} {
				if x.r.Chance(25) {
					sb.WriteString(x.tagAttr(a, x.pick([]string{"true", "false", "x"})))
				}
			}
			sb.WriteString(x.pick([]string{" />", "/>", " />", ">"}) + "\n")
		case 2:
			sb.WriteString("<gno-textarea" + x.tagAttr("name", name))
			for _, a := range []string{"placeholder", "value", "description"} {
				if x.r.Chance(50) {
					sb.WriteString(x.tagAttr(a, x.hostileOr(plainWords)))
				}
			}
			if x.r.Chance(40) {
				sb.WriteString(x.tagAttr("rows", x.pick([]string{"3", "0", "99", "-1", "x", `4" onfocus="alert(1)`})))
			}
			if x.r.Chance(25) {
				sb.WriteString(x.tagAttr("required", "true"))
			}
			sb.WriteString(" />\n")
		default:
			for j, m := 0, 1+x.r.Intn(3); j < m; j++ {
				sb.WriteString("<gno-select" + x.tagAttr("name", name) + x.tagAttr("value", x.hostileOr(plainWords)))
				if x.r.Chance(30) {
					sb.WriteString(x.tagAttr("selected", "true"))
				}
				if x.r.Chance(30) {
					sb.WriteString(x.tagAttr("description", x.hostileOr(plainWords)))
				}
				sb.WriteString(" />\n")
			}
		}
		if x.r.Chance(10) {
			sb.WriteString(x.pick(htmlPayloads) + "\n")
		}
	}
	if x.r.Chance(90) {
		sb.WriteString("</gno-form>")
	}
	return sb.String()
}

func (x g) block(depth int) string {
	switch x.r.Intn(20) {
	case 0, 1, 2, 3:
		return x.para()
	case 4:
		return strings.Repeat("#", 1+x.r.Intn(6)) + " " + x.inline() + x.pick([]string{"", "", " {#my-id}", ` {onclick="alert(1)" .c}`, ` {#a data-cnry="h"}`})
	case 5:
		info := x.pick([]string{"", "go", "js", "html", `"><script>alert(1)</script>`, "go onclick=alert(1)", "markdown", "unknownlang"})
		return "```" + info + "\n" + x.pick(htmlPayloads) + "\n" + x.words(3) + "\n```"
	case 6:
		return "    " + x.pick(htmlPayloads) + "\n    " + x.words(2)
	case 7:
		return "> " + x.para() + "\n> " + x.inline()
	case 8, 9:
		kind := x.pick([]string{"NOTE", "TIP", "CAUTION", "WARNING", "SUCCESS", "INFO", "note", "Bogus", "x_1", "script"})
		closed := x.pick([]string{"", "-"})
		title := x.pick([]string{"", " " + x.inline(), " " + x.pick(attrBreakers), " " + x.pick(htmlPayloads)})
		return "> [!" + kind + "]" + closed + title + "\n> " + x.para() + "\n>\n> " + x.inline()
	case 10, 11:
		if depth > 2 {
			return x.para()
		}
		open := x.pick([]string{"<gno-columns>", "<gno-columns>", "<GNO-COLUMNS>", `<gno-columns class="x" onclick="alert(1)">`, "<gno-columns/>"})
		sep := x.pick([]string{"<gno-columns-sep>", "<gno-columns-sep/>", "<gno-columns-sep />", `<gno-columns-sep onclick=alert(1)>`})
		var sb strings.Builder
		sb.WriteString(open + "\n")
		for i, n := 0, 1+x.r.Intn(3); i < n; i++ {
			if i > 0 {
				sb.WriteString("\n" + sep + "\n")
			}
			sb.WriteString("\n" + x.block(depth+1) + "\n")
		}
		if x.r.Chance(85) {
			sb.WriteString("\n</gno-columns>")
		}
		return sb.String()
	case 12, 13:
		return x.form()
	case 14, 15:
		if depth > 2 {
			return x.para()
		}
		open := "<gno-foreign>"
		if x.r.Chance(60) {
			open = "<gno-foreign" + x.tagAttr("label", x.hostileOr([]string{"external content", "from r/other", ""})) + ">"
		}
		if x.r.Chance(8) {
			open = `<gno-foreign label="a" onclick="alert(1)">`
		}
		var sb strings.Builder
		sb.WriteString(open + "\n")
		for i, n := 0, 1+x.r.Intn(3); i < n; i++ {
			sb.WriteString(x.block(depth+1) + "\n\n")
		}
		if x.r.Chance(85) {
			sb.WriteString("</gno-foreign>")
		}
		return sb.String()
	case 16:
		return "| a | " + x.inline() + " |\n|---|:-:|\n| " + x.inline() + " | " + x.pick(htmlPayloads) + " |"
	case 17:
		return "- [x] " + x.inline() + "\n- [ ] " + x.inline() + "\n  1. " + x.inline() + "\n* " + x.pick(htmlPayloads)
	case 18:
		return x.pick(htmlPayloads) + "\n" + x.words(2) + "\n" + x.pick([]string{"</div>", "</script>", "", "-->"})
	default:
		return x.pick([]string{"---", "***", "<!-- c -->", "<!--", "<![CDATA[", "<?", "<!X", "</", "<"}) + x.pick([]string{"", "\n" + x.para()})
	}
}

func (x g) document() string {
	var sb strings.Builder
	for i, n := 0, 1+x.r.Intn(6); i < n; i++ {
		sb.WriteString(x.block(0))
		sb.WriteString(x.pick([]string{"\n\n", "\n\n", "\n\n", "\n"}))
	}
	// reference definitions and footnotes used by the inlines
	for i := 0; i < 3; i++ {
		if x.r.Chance(50) {
			sb.WriteString(fmt.Sprintf("\n[r%d]: %s%s\n", i, x.dest(), x.title()))
		}
	}
	for i := 1; i <= 2; i++ {
		if x.r.Chance(40) {
			sb.WriteString(fmt.Sprintf("\n[^%d]: %s\n", i, x.inline()))
		}
	}
	return sb.String()
}

// mutate damages a well-formed document (malformed stream).
func (x g) mutate(s string) string {
	b := []byte(s)
	for k, n := 0, 1+x.r.Intn(6); k < n && len(b) > 0; k++ {
		i := x.r.Intn(len(b))
		switch x.r.Intn(5) {
		case 0:
			b = append(b[:i], b[minInt(len(b), i+1+x.r.Intn(8)):]...)
		case 1:
			const sp = "<>\"'&\n\x00`[]()\\ "
			b[i] = sp[x.r.Intn(len(sp))]
		case 2:
			ins := x.bytesWeighted(1 + x.r.Intn(6))
			b = append(b[:i], append(ins, b[i:]...)...)
		case 3:
			b = b[:i]
		default:
			j := x.r.Intn(len(b))
			b[i], b[j] = b[j], b[i]
		}
	}
	return string(b)
}

// ------------------------------------------------------------------ gen

func gen(w *kit.Out, r *kit.Rand, tier string) {
	x := g{r}
	scale := 1
	if tier == "thorough" {
		scale = 6
	}

	// ---- escapers: boundary table
	w.Case("esc-boundary")
	for _, op := range []string{"tesc", "hesc", "gesc"} {
		w.Op("%s e", op)
		for c := 0; c < 256; c++ {
			w.Op("%s %02x", op, c)
		}
		for _, s := range append(append([]string{}, attrBreakers...), htmlPayloads...) {
			w.Op("%s %s", op, hexs(s))
		}
		for _, s := range []string{"&amp;", "&lt;script&gt;", "&#34;", "&#39;", "&", "&&", "&;", "a&b<c>d\"e'f\x00g", "\x00\x00", "<<<>>>", `""''`, strings.Repeat("<", 150), strings.Repeat("a", 101), strings.Repeat("&", 100)} {
			w.Op("%s %s", op, hexs(s))
		}
	}
	w.Case("esc-random")
	for i := 0; i < 700*scale; i++ {
		op := kit.Pick(r, []string{"tesc", "hesc", "gesc"})
		w.Op("%s %s", op, kit.Hex(x.bytesWeighted(1+r.Intn(40))))
	}

	// ---- URL functions: boundary table
	w.Case("url-boundary")
	urlOps := []string{"unp", "rnum", "rent", "uesc0", "uesc", "dang", "url", "dec"}
	for _, op := range urlOps {
		if op == "dec" {
			continue
		}
		w.Op("%s e", op)
		for c := 0; c < 256; c++ {
			w.Op("%s %02x", op, c)
		}
		for c := 0; c < 256; c++ { // two bytes: a lead byte / % / & / \ followed by c
			for _, p := range []byte{'%', '&', '\\', 0xc3, 0xe2, 0xf0} {
				w.Op("%s %02x%02x", op, p, c)
			}
		}
		for _, u := range schemeURLs {
			w.Op("%s %s", op, kit.Hex([]byte(u)))
		}
	}
	for _, s := range []string{"&#106;", "&#x6a;", "&#X6A;", "&#0152;", "&#0;", "&#00;", "&#08;", "&#09;", "&#1234567;", "&#12345678;", "&#x110000;", "&#xd800;", "&#xdfff;", "&#xe000;",
		"&#xffffffff;", "&#x100000000;", "&#xfffffffffffffffff;", "&#x;", "&#;", "&#x", "&#", "&", "&#1", "&#x1", "&#x1g;", "&#1a;", "&#x80;", "&#128;", "&#x7ff;", "&#x800;", "&#xffff;", "&#x10000;", "&#x10ffff;",
		"&colon;", "&Tab;", "&NewLine;", "&amp;", "&AMP;", "&amp", "&ampx;", "&nosuch;", "&;", "&a;", "&lt;&gt;&quot;&apos;", "&#38;#106;", "&amp;#106;", "&&#106;", "&#106;&#97;", "&x&#106;;", "&nbsp;", "&ThickSpace;", "&fjlig;",
		"\\:", "\\a", "\\\\", "\\", "a\\", "\\&#106;", "&\\#106;", "\\&colon;", "%", "%4", "%41", "%4\t", "%4\tx", "%zz", "a%", "a%4", "%%41", "%g1", "%1g", "%\xc3\xa9", "\xc3\xa9", "\xc3", "a\xc3", "\xe2\x82", "a\xe2\x82", "\xf0\x9f\x99", "\xf0", "ab\xf0", "\xe2", "\xed\xa0\x80", " ", "a b", "+", "a+b c"} {
		for _, op := range []string{"unp", "rnum", "rent", "uesc0", "uesc", "dang", "url"} {
			w.Op("%s %s", op, hexs(s))
		}
	}
	for _, s := range []string{"&#106;", "&#x6a;", "&#106", "&#x6ax", "&amp;", "&lt;&gt;&quot;&#39;&#34;", "&colon;", "&Tab;", "&nosuch;", "a&b", "&", "&#", "&#x", "&#0;", "&#x110000;", "&#xd800;", "x&#65;&#x42;y", "&amp;lt;"} {
		w.Op("dec %s", hexs(s))
	}
	w.Case("url-random")
	for i := 0; i < 1500*scale; i++ {
		op := kit.Pick(r, []string{"unp", "rnum", "rent", "uesc0", "uesc", "uesc", "dang", "dang", "url", "url"})
		var s string
		if r.Chance(75) {
			s = x.url()
		} else {
			s = string(x.bytesWeighted(1 + r.Intn(24)))
		}
		w.Op("%s %s", op, hexs(s))
	}
	for i := 0; i < 200*scale; i++ {
		// escaped output only (what gnoweb writes): references with semicolons, no legacy forms
		s := string(x.bytesWeighted(1 + r.Intn(20)))
		s = strings.ReplaceAll(s, "&", "")
		s = strings.ReplaceAll(s, "\r", "")
		s = strings.ReplaceAll(s, "\x00", "")
		switch r.Intn(3) {
		case 0:
			s = strings.NewReplacer("<", "&lt;", ">", "&gt;", `"`, "&quot;", "'", "&#39;").Replace(s)
		case 1:
			s = strings.NewReplacer("<", "&#60;", ">", "&#x3e;", `"`, "&#34;", ":", "&colon;", "a", "&#97;").Replace(s)
		}
		w.Op("dec %s", hexs(s))
	}

	// ---- links through the real renderGnoLink
	w.Case("link-boundary")
	for ty := 0; ty <= 4; ty++ {
		for _, un := range []int{0, 1} {
			for _, help := range []int{0, 1} {
				w.Op("link %d %d %d %s -", ty, un, help, hexs("/r/demo/foo"))
				w.Op("link %d %d %d %s %s", ty, un, help, hexs("javascript:alert(1)"), hexs(`"><script>alert(1)</script>`))
			}
		}
	}
	for _, u := range schemeURLs {
		w.Op("link 1 0 0 %s -", kit.Hex([]byte(u)))
		w.Op("link 3 0 1 %s e", kit.Hex([]byte(u)))
	}
	for _, t := range attrBreakers {
		w.Op("link 2 0 0 %s %s", hexs("/x"), hexs(t))
		w.Op("link 1 1 0 %s %s", hexs(t), hexs(t))
	}
	w.Case("link-random")
	for i := 0; i < 1200*scale; i++ {
		title := "-"
		if r.Chance(50) {
			title = hexs(x.hostileOr(plainWords))
		}
		var d string
		if r.Chance(85) {
			d = x.url()
		} else {
			d = string(x.bytesWeighted(1 + r.Intn(24)))
		}
		w.Op("link %d %d %d %s %s", r.Intn(5), r.Intn(2), r.Intn(2), kit.Hex([]byte(d)), title)
	}

	// ---- images through the real default renderer
	w.Case("img")
	imgOK := func(s string) bool { return !imgStructural([]byte(s)) }
	for _, u := range schemeURLs {
		if imgOK(u) {
			w.Op("img %s", kit.Hex([]byte(u)))
		}
	}
	for i := 0; i < 500*scale; i++ {
		var d string
		if r.Chance(85) {
			d = x.url()
		} else {
			d = string(x.bytesWeighted(1 + r.Intn(24)))
		}
		if imgOK(d) {
			w.Op("img %s", kit.Hex([]byte(d)))
		}
	}

	// ---- whole documents: boundary table (one construct each, each payload in each slot)
	w.Case("md-boundary")
	emit := func(op, src string) {
		var out []byte
		if op == "md" {
			out = renderRealm([]byte(src))
		} else {
			out = renderDoc([]byte(src))
		}
		w.Op("%s %s %s", op, hexs(src), kit.Hex(out))
	}
	for _, p := range htmlPayloads {
		emit("md", p)
		emit("md", "text "+p+" text")
		emit("md", "<gno-columns>\n"+p+"\n</gno-columns>")
		emit("md", "\n<gno-foreign>\n"+p+"\n</gno-foreign>\n")
		emit("md", "> [!NOTE] "+p+"\n> "+p)
		emit("doc", p+"\n\n```\n"+p+"\n```")
	}
	for _, u := range schemeURLs {
		if strings.ContainsAny(u, "\n<>") {
			continue
		}
		emit("md", "[x](<"+u+">)")
		emit("md", "![x](<"+u+">)")
		emit("md", "[x][r]\n\n[r]: <"+u+">")
		if !strings.ContainsAny(u, " \t") && u != "" {
			emit("md", "<"+u+">")
		}
		emit("md", "\n<gno-foreign>\n[x](<"+u+">) ![y](<"+u+">)\n</gno-foreign>\n")
		emit("md", `<gno-form path="`+u+`">`+"\n"+`<gno-input name="a" value="`+u+`" />`+"\n</gno-form>")
	}
	for _, b := range attrBreakers {
		b1 := strings.ReplaceAll(b, "\n", " ")
		emit("md", `[x](/y "`+strings.ReplaceAll(b1, `"`, `\"`)+`")`)
		emit("md", `![`+b1+`](/y)`)
		emit("md", "<gno-form exec='"+strings.ReplaceAll(b1, "'", "")+"'>\n<gno-input name='"+strings.ReplaceAll(b1, "'", "")+"' />\n</gno-form>")
		emit("md", "<gno-form>\n<gno-textarea name=\"t\" value=\""+strings.NewReplacer("&", "&amp;", `"`, "&quot;").Replace(b1)+"\" />\n<gno-select name=\"s\" value=\""+strings.NewReplacer("&", "&amp;", `"`, "&quot;").Replace(b1)+"\" />\n</gno-form>")
		emit("md", "\n<gno-foreign label=\""+strings.NewReplacer("&", "&amp;", `"`, "&quot;").Replace(b1)+"\">\nx\n</gno-foreign>\n")
		emit("md", "```"+b1+"\ncode\n```")
		emit("doc", "```"+b1+"\ncode\n```\n\n# h {#"+b1+"}")
	}
	emit("md", "")
	emit("doc", "")

	// ---- whole documents: structured random
	w.Case("md-random")
	for i := 0; i < 700*scale; i++ {
		emit("md", x.document())
	}
	w.Case("doc-random")
	for i := 0; i < 120*scale; i++ {
		emit("doc", x.document())
	}
	// ---- malformed stream
	w.Case("md-malformed")
	for i := 0; i < 250*scale; i++ {
		if r.Chance(70) {
			emit("md", x.mutate(x.document()))
		} else {
			emit("md", string(x.bytesWeighted(1+r.Intn(200))))
		}
	}
	// ---- the served page (layout + TOC + rendered realm) through the real HTTP handler
	w.Case("page")
	for _, p := range htmlPayloads {
		w.Op("page %s", hexs("# "+p+"\n\n"+p+"\n\n## h2 "+p))
	}
	for _, u := range []string{"javascript:alert(1)", "java&#115;cript:alert(1)", "data:text/html,x", "javascript&colon;alert(1)"} {
		w.Op("page %s", hexs("## [x]("+u+") ![y]("+u+")\n\n[x]("+u+")"))
	}
	for i := 0; i < 60*scale; i++ {
		w.Op("page %s", hexs(x.document()))
	}
	w.Case("badop")
	w.Op("md zz -")
	w.Op("nosuch 00")
	w.Op("link 9 0 0 00 -")
	w.Op("tesc")
}
