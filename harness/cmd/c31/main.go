// Harness for C31: honest nodes never commit conflicting blocks.
//
// ONE real consensus.ConsensusState (real kvstore ABCI app, memdb block/state
// stores, the real file-backed privval.PrivValidator with a deterministic
// key) is driven message by message through the `verif` hooks of
// tm2/pkg/bft/consensus/verif_export.go (deterministic ticker + synchronous
// handleMsg/handleTimeout).  The environment — every other validator, any of
// them possibly faulty — is scripted: real ed25519 keys, really signed
// proposals, block parts and votes.
//
// op lines (one case = `init` followed by events):
//
//	init <me> <p0,p1,..> <table>      n validators (index = address order) with these powers; the real
//	                                  node is validator <me>; <table> = proposer index per height
//	                                  (';'-separated, first = height 1) and round (one digit each),
//	                                  computed with the real ValidatorSet code by the generator
//	start                             OnStart: schedule round 0
//	timeout                           the pending timeout fires
//	internal                          the node handles the oldest message of its internal queue
//	proposal <h> <r> <pol> <blk> <signer> <ok|badsig>
//	block <h> <r> <blk>               the (single) part of block <blk>
//	vote <val> <h> <r> <pv|pc> <blk|nil> <peer> <ok|badsig>
//	maj23 <peer> <h> <r> <pv|pc> <blk|nil>   VoteSetMaj23Message (a peer claims +2/3)
//
// block names: b<k> valid scripted block, x<k> scripted block failing
// ValidateBlock (wrong AppHash), o<h> the node's own proposal of height h.
// Real blocks exist only for the height the node is at; references to other
// heights use placeholder BlockIDs (the node ignores those messages).  o<h>
// embeds the node's LastCommit, which may still grow while the node waits in
// NewHeight: the generator names o<h> only after the node has left NewHeight
// at height h (a script that names it earlier may see two different blocks
// under one name — a limitation of the naming, not of the node).
//
// output after EVERY op: the whole observable round state (see observe()).
//
// oracle (independent of the model; plain maps and int64 sums): the abstract
// protocol's per-validator rules evaluated on the log of all really signed
// votes — the real node never double-signs, never precommits a block without
// +2/3 prevotes for it in that round, never prevotes against an earlier
// precommit without a later polka for something else, never votes in an
// older round; every block it commits has +2/3 precommits in the log; and
// when the validators that broke one of these rules hold at most 1/3 of the
// power, all commit quorums of a height (what an honest majority would
// commit) agree with what the node committed.
package main

import (
	"bytes"
	"crypto/sha256"
	"encoding/hex"
	"fmt"
	"hash/fnv"
	"os"
	"path/filepath"
	"sort"
	"strconv"
	"strings"
	"sync"
	"time"

	abcicli "github.com/gnolang/gno/tm2/pkg/bft/abci/client"
	"github.com/gnolang/gno/tm2/pkg/bft/abci/example/kvstore"
	"github.com/gnolang/gno/tm2/pkg/bft/consensus"
	cnscfg "github.com/gnolang/gno/tm2/pkg/bft/consensus/config"
	cstypes "github.com/gnolang/gno/tm2/pkg/bft/consensus/types"
	"github.com/gnolang/gno/tm2/pkg/bft/mempool/mock"
	"github.com/gnolang/gno/tm2/pkg/bft/privval"
	sm "github.com/gnolang/gno/tm2/pkg/bft/state"
	"github.com/gnolang/gno/tm2/pkg/bft/store"
	"github.com/gnolang/gno/tm2/pkg/bft/types"
	tmtime "github.com/gnolang/gno/tm2/pkg/bft/types/time"
	"github.com/gnolang/gno/tm2/pkg/crypto"
	"github.com/gnolang/gno/tm2/pkg/crypto/ed25519"
	"github.com/gnolang/gno/tm2/pkg/db/memdb"
	"github.com/gnolang/gno/tm2/pkg/events"
	"github.com/gnolang/gno/tm2/pkg/log"
	p2pTypes "github.com/gnolang/gno/tm2/pkg/p2p/types"
	"gnoverif/kit"
)

const (
	chainID  = "c31-chain"
	poolSize = 9
	maxRound = 48 // rounds scanned when printing the vote sets
	tabH     = 8  // heights in the proposer table
	tabR     = 10 // rounds per height in the proposer table
)

// ---------------------------------------------------------------- keys

type detSigner struct{ k crypto.PrivKey }

func (s detSigner) PubKey() crypto.PubKey         { return s.k.PubKey() }
func (s detSigner) Sign(b []byte) ([]byte, error) { return s.k.Sign(b) }
func (s detSigner) Close() error                  { return nil }

var pool []crypto.PrivKey

func init() {
	for i := 0; i < poolSize; i++ {
		pool = append(pool, ed25519.GenPrivKeyFromSecret([]byte(fmt.Sprintf("c31-validator-%d", i))))
	}
}

// keysFor returns the first n pool keys in validator-set (address) order.
func keysFor(n int) []crypto.PrivKey {
	ks := append([]crypto.PrivKey{}, pool[:n]...)
	sort.Slice(ks, func(i, j int) bool {
		a, b := ks[i].PubKey().Address(), ks[j].PubKey().Address()
		return bytes.Compare(a[:], b[:]) < 0
	})
	return ks
}

func valSetFor(keys []crypto.PrivKey, powers []int64) *types.ValidatorSet {
	vals := make([]*types.Validator, len(keys))
	for i, k := range keys {
		vals[i] = types.NewValidator(k.PubKey(), powers[i])
	}
	return types.NewValidatorSet(vals)
}

// proposerTable computes, with the real ValidatorSet code and exactly as the
// state machine does (state.Validators of height h+1 = NextValidators of h =
// CopyIncrementProposerPriority(1); round r = one more increment per round),
// the proposer index per height and round.  ok=false when a direct jump
// (IncrementProposerPriority(k) at once, as round skipping does) would pick
// someone else than k single steps: such power vectors are not used.
func proposerTable(keys []crypto.PrivKey, powers []int64) (tab [][]int, ok bool) {
	cur := valSetFor(keys, powers) // genesis state.Validators
	ok = true
	for h := 0; h < tabH; h++ {
		row := make([]int, tabR)
		step := cur.Copy()
		for r := 0; r < tabR; r++ {
			if r > 0 {
				step = step.CopyIncrementProposerPriority(1)
			}
			idx, _ := cur.GetByAddress(step.GetProposer().Address)
			row[r] = idx
			if r > 1 {
				jump := cur.CopyIncrementProposerPriority(r)
				if jump.GetProposer().Address != step.GetProposer().Address {
					ok = false
				}
			}
		}
		tab = append(tab, row)
		cur = cur.CopyIncrementProposerPriority(1)
	}
	return tab, ok
}

func tableString(tab [][]int) string {
	rows := make([]string, len(tab))
	for i, row := range tab {
		var sb strings.Builder
		for _, p := range row {
			sb.WriteByte(byte('0' + p))
		}
		rows[i] = sb.String()
	}
	return strings.Join(rows, ";")
}

func parseTable(s string) ([][]int, bool) {
	var tab [][]int
	for _, row := range strings.Split(s, ";") {
		var r []int
		for _, c := range row {
			if c < '0' || c > '9' {
				return nil, false
			}
			r = append(r, int(c-'0'))
		}
		tab = append(tab, r)
	}
	return tab, true
}

// ---------------------------------------------------------------- world

type blk struct {
	block *types.Block
	parts *types.PartSet
	id    types.BlockID
}

type ovote struct {
	val int
	h   int64
	r   int
	typ types.SignedMsgType
	blk string // block name or "nil"
}

type world struct {
	n      int
	powers []int64
	total  int64
	me     int
	keys   []crypto.PrivKey
	addrs  []crypto.Address
	tab    [][]int
	dir    string

	cs         *consensus.ConsensusState
	tick       *consensus.VerifTicker
	blockExec  *sm.BlockExecutor
	blockStore *store.BlockStore

	names   map[string]string // hex(block hash) -> name
	phNames map[string]string // hex(parts header hash) -> name
	blocks  map[string]*blk   // "<height>/<name>"
	seen    map[*types.Vote]bool
	own     []*types.Vote // every vote the node has signed
	sent    int
	halted  bool

	// oracle
	olog     []ovote
	voters   map[string]uint32 // "<h>/<r>/<typ>/<blk>" -> bitmask of validators
	faulty   uint32            // scripted validators that broke a rule
	lastHR   map[int][2]int64  // validator -> (height, round) of its latest vote
	decidedN int64             // heights of the node already checked
	viol     string            // first violation found (sticky for the case)
}

var w *world
var shmRoot string
var caseN int

func tmpRoot() string {
	if shmRoot == "" {
		base := os.TempDir()
		if st, err := os.Stat("/dev/shm"); err == nil && st.IsDir() {
			base = "/dev/shm"
		}
		d, err := os.MkdirTemp(base, "c31-")
		if err != nil {
			panic(err)
		}
		shmRoot = d
	}
	return shmRoot
}

func (x *world) close() {
	if x != nil && x.dir != "" {
		os.RemoveAll(x.dir)
	}
}

func newWorld(me int, powers []int64, tab [][]int) *world {
	n := len(powers)
	x := &world{n: n, powers: powers, me: me, tab: tab,
		names: map[string]string{}, phNames: map[string]string{}, blocks: map[string]*blk{},
		seen: map[*types.Vote]bool{}, voters: map[string]uint32{}, lastHR: map[int][2]int64{}}
	for _, p := range powers {
		x.total += p
	}
	x.keys = keysFor(n)
	for _, k := range x.keys {
		x.addrs = append(x.addrs, k.PubKey().Address())
	}
	gvals := make([]types.GenesisValidator, n)
	for i, k := range x.keys {
		gvals[i] = types.GenesisValidator{Address: k.PubKey().Address(), PubKey: k.PubKey(), Power: powers[i], Name: fmt.Sprintf("v%d", i)}
	}
	genDoc := &types.GenesisDoc{GenesisTime: tmtime.Now(), ChainID: chainID, Validators: gvals}
	state, err := sm.MakeGenesisState(genDoc)
	if err != nil {
		panic(err)
	}
	caseN++
	x.dir = filepath.Join(tmpRoot(), strconv.Itoa(caseN))
	if err := os.MkdirAll(x.dir, 0o700); err != nil {
		panic(err)
	}
	pv, err := privval.NewPrivValidator(detSigner{x.keys[me]}, filepath.Join(x.dir, "priv_validator_state.json"))
	if err != nil {
		panic(err)
	}
	db := memdb.NewMemDB()
	x.blockStore = store.NewBlockStore(db)
	app := kvstore.NewKVStoreApplication()
	mtx := new(sync.Mutex)
	conn := abcicli.NewLocalClient(mtx, app)
	sm.SaveState(db, state)
	x.blockExec = sm.NewBlockExecutor(db, log.NewNoopLogger(), conn, mock.Mempool{})
	x.tick = consensus.NewVerifTicker()
	cfg := cnscfg.DefaultConsensusConfig() // CreateEmptyBlocks, no interval, SkipTimeoutCommit=false
	cs := consensus.NewConsensusState(cfg, state, x.blockExec, x.blockStore, mock.Mempool{}, consensus.NoOpEvidencePool{})
	cs.SetTimeoutTicker(x.tick)
	cs.SetLogger(log.NewNoopLogger())
	cs.SetPrivValidator(pv)
	evsw := events.NewEventSwitch()
	evsw.SetLogger(log.NewNoopLogger())
	evsw.Start()
	cs.SetEventSwitch(evsw)
	x.cs = cs
	return x
}

// ---------------------------------------------------------------- block names

func placeholder(h int64, name string) types.BlockID {
	a := sha256.Sum256([]byte(fmt.Sprintf("c31-ph-hash/%d/%s", h, name)))
	b := sha256.Sum256([]byte(fmt.Sprintf("c31-ph-parts/%d/%s", h, name)))
	return types.BlockID{Hash: a[:], PartsHeader: types.PartSetHeader{Total: 1, Hash: b[:]}}
}

func (x *world) register(h int64, name string, b *types.Block, ps *types.PartSet) *blk {
	e := &blk{block: b, parts: ps, id: types.BlockID{Hash: b.Hash(), PartsHeader: ps.Header()}}
	x.blocks[fmt.Sprintf("%d/%s", h, name)] = e
	x.names[hex.EncodeToString(e.id.Hash)] = name
	x.phNames[hex.EncodeToString(e.id.PartsHeader.Hash)] = name
	return e
}

func (x *world) lastCommitFor(h int64, st sm.State) *types.Commit {
	if h == st.InitialHeight {
		return types.NewCommit(types.BlockID{}, nil)
	}
	return x.cs.GetRoundState().LastCommit.MakeCommit()
}

// resolve returns the real block registered under (h, name), creating it when
// the node is at height h; nil when only a placeholder id can be used.
func (x *world) resolve(h int64, name string) *blk {
	if e, ok := x.blocks[fmt.Sprintf("%d/%s", h, name)]; ok {
		return e
	}
	rs := x.cs.GetRoundState()
	if rs.Height != h {
		return nil
	}
	st := x.cs.GetState()
	switch name[0] {
	case 'o':
		if name != fmt.Sprintf("o%d", h) {
			return nil
		}
		b, ps := x.blockExec.CreateProposalBlock(h, st, x.lastCommitFor(h, st), x.addrs[x.me])
		return x.register(h, name, b, ps)
	case 'b':
		b, ps := st.MakeBlock(h, []types.Tx{types.Tx(name + "=1")}, x.lastCommitFor(h, st), x.addrs[0])
		return x.register(h, name, b, ps)
	case 'x':
		bad := st
		bad.AppHash = []byte("c31-wrong-app-hash")
		b, ps := bad.MakeBlock(h, []types.Tx{types.Tx(name + "=1")}, x.lastCommitFor(h, st), x.addrs[0])
		if st.ValidateBlock(b) == nil {
			panic("c31: x-block unexpectedly valid")
		}
		return x.register(h, name, b, ps)
	}
	return nil
}

func (x *world) blockID(h int64, name string) (types.BlockID, *blk) {
	if name == "nil" {
		return types.BlockID{}, nil
	}
	if e := x.resolve(h, name); e != nil {
		return e.id, e
	}
	return placeholder(h, name), nil
}

func (x *world) nameOfHash(hash []byte, h int64) string {
	if len(hash) == 0 {
		return "nil"
	}
	k := hex.EncodeToString(hash)
	if nm, ok := x.names[k]; ok {
		return nm
	}
	// an unknown hash produced by the node itself: its own proposal of this height
	nm := fmt.Sprintf("o%d", h)
	if _, taken := x.blocks[fmt.Sprintf("%d/%s", h, nm)]; taken {
		return "?" + k[:8]
	}
	return "?" + k[:8]
}

func validName(s string) bool {
	if len(s) < 2 || (s[0] != 'b' && s[0] != 'x' && s[0] != 'o') {
		return false
	}
	k, err := strconv.Atoi(s[1:])
	return err == nil && strconv.Itoa(k) == s[1:] && k >= 1 && k < 500000
}

// ---------------------------------------------------------------- observation

func (x *world) noteOwn() {
	// register the node's own proposal block and count its freshly signed votes
	for _, m := range x.cs.VerifPeekInternal() {
		switch m := m.(type) {
		case *consensus.ProposalMessage:
			k := hex.EncodeToString(m.Proposal.BlockID.Hash)
			if _, ok := x.names[k]; !ok {
				nm := fmt.Sprintf("o%d", m.Proposal.Height)
				x.names[k] = nm
				x.phNames[hex.EncodeToString(m.Proposal.BlockID.PartsHeader.Hash)] = nm
				// keep the real block too, so that peers can echo it
				st := x.cs.GetState()
				b, ps := x.blockExec.CreateProposalBlock(m.Proposal.Height, st, x.lastCommitFor(m.Proposal.Height, st), x.addrs[x.me])
				if bytes.Equal(b.Hash(), m.Proposal.BlockID.Hash) {
					x.register(m.Proposal.Height, nm, b, ps)
				}
			}
		case *consensus.VoteMessage:
			if !x.seen[m.Vote] {
				x.seen[m.Vote] = true
				x.own = append(x.own, m.Vote)
				x.sent++
				x.oracleVote(ovote{x.me, m.Vote.Height, m.Vote.Round, m.Vote.Type, x.nameOfHash(m.Vote.BlockID.Hash, m.Vote.Height)})
			}
		}
	}
}

func typStr(t types.SignedMsgType) string {
	if t == types.PrevoteType {
		return "pv"
	}
	return "pc"
}

func (x *world) vsStr(vs *types.VoteSet, h int64) string {
	maj := "-"
	if id, ok := vs.TwoThirdsMajority(); ok {
		maj = x.nameOfHash(id.Hash, h)
	}
	var sb strings.Builder
	for i := 0; i < x.n; i++ {
		if vs.GetByIndex(i) != nil {
			sb.WriteByte('1')
		} else {
			sb.WriteByte('_')
		}
	}
	return maj + "|" + sb.String()
}

func (x *world) observe() string {
	x.noteOwn()
	rs := x.cs.GetRoundState()
	h := rs.Height
	nb := func(b *types.Block) string {
		if b == nil {
			return "-"
		}
		return x.nameOfHash(b.Hash(), h)
	}
	prop := "-"
	if rs.Proposal != nil {
		prop = fmt.Sprintf("%d:%s", rs.Proposal.POLRound, x.nameOfHash(rs.Proposal.BlockID.Hash, h))
	}
	pbp := "-"
	if rs.ProposalBlockParts != nil {
		k := hex.EncodeToString(rs.ProposalBlockParts.Header().Hash)
		if nm, ok := x.phNames[k]; ok {
			pbp = nm
		} else {
			pbp = "?" + k[:8]
		}
	}
	ti, armed := x.tick.Pending()
	arm := "-"
	if armed {
		arm = "+"
	}
	var q []string
	for _, m := range x.cs.VerifPeekInternal() {
		switch m := m.(type) {
		case *consensus.ProposalMessage:
			q = append(q, fmt.Sprintf("prop(%d/%d/%d/%s)", m.Proposal.Height, m.Proposal.Round, m.Proposal.POLRound, x.nameOfHash(m.Proposal.BlockID.Hash, m.Proposal.Height)))
		case *consensus.BlockPartMessage:
			nm := "?"
			if len(m.Part.Proof.Aunts) == 0 { // single part: the leaf hash is the parts-header hash
				for name, e := range x.blocks {
					if e.parts.Total() == 1 && bytes.Equal(e.parts.GetPart(0).Bytes, m.Part.Bytes) && strings.HasPrefix(name, fmt.Sprintf("%d/", m.Height)) {
						nm = name[strings.Index(name, "/")+1:]
					}
				}
			}
			q = append(q, fmt.Sprintf("part(%d/%d/%s)", m.Height, m.Round, nm))
		case *consensus.VoteMessage:
			q = append(q, fmt.Sprintf("%s(%d/%d/%s)", typStr(m.Vote.Type), m.Vote.Height, m.Vote.Round, x.nameOfHash(m.Vote.BlockID.Hash, m.Vote.Height)))
		}
	}
	var dec []string
	for hh := int64(1); hh <= x.blockStore.Height(); hh++ {
		meta := x.blockStore.LoadBlockMeta(hh)
		dec = append(dec, fmt.Sprintf("%d:%s", hh, x.nameOfHash(meta.BlockID.Hash, hh)))
	}
	var vs []string
	for r := 0; r <= maxRound; r++ {
		pv, pc := rs.Votes.Prevotes(r), rs.Votes.Precommits(r)
		if pv == nil || pc == nil {
			continue
		}
		vs = append(vs, fmt.Sprintf("%d:%s,%s", r, x.vsStr(pv, h), x.vsStr(pc, h)))
	}
	ttp := 0
	if rs.TriggeredTimeoutPrecommit {
		ttp = 1
	}
	out := fmt.Sprintf("%d/%d/%d lr=%d lb=%s vr=%d vb=%s p=%s pb=%s pbp=%s cr=%d ttp=%d tick=%d/%d/%d%s q=[%s] dec=[%s] sent=%d v=",
		h, rs.Round, rs.Step, rs.LockedRound, nb(rs.LockedBlock), rs.ValidRound, nb(rs.ValidBlock), prop,
		nb(rs.ProposalBlock), pbp, rs.CommitRound, ttp, ti.Height, ti.Round, ti.Step, arm,
		strings.Join(q, ","), strings.Join(dec, ","), x.sent)
	vstr := fmt.Sprintf("R%d[%s]", rs.Votes.Round(), strings.Join(vs, " "))
	// the kit cuts outputs at 300 characters: longer lines carry a digest (FNV-1a 32) of the vote sets
	if len(out)+len(vstr) <= 290 {
		out += vstr
	} else {
		hsh := fnv.New32a()
		hsh.Write([]byte(vstr))
		out += fmt.Sprintf("#%d:%d", hsh.Sum32(), len(vstr))
	}
	// the proposer table the model was given must be what the node computes
	if int(h) <= len(x.tab) && rs.Round < len(x.tab[h-1]) && rs.Validators != nil {
		idx, _ := rs.Validators.GetByAddress(rs.Validators.GetProposer().Address)
		if idx != x.tab[h-1][rs.Round] {
			out += fmt.Sprintf(" !proposer=%d", idx)
		}
	}
	return out
}

// ---------------------------------------------------------------- oracle

func vkey(h int64, r int, typ types.SignedMsgType, b string) string {
	return fmt.Sprintf("%d/%d/%d/%s", h, r, typ, b)
}

func (x *world) power(mask uint32) int64 {
	var s int64
	for i := 0; i < x.n; i++ {
		if mask&(1<<uint(i)) != 0 {
			s += x.powers[i]
		}
	}
	return s
}

func (x *world) hasQuorum(h int64, r int, typ types.SignedMsgType, b string) bool {
	return 3*x.power(x.voters[vkey(h, r, typ, b)]) > 2*x.total
}

// polkaForOther: +2/3 prevotes, at a round in (r0, r1], for something else than b.
func (x *world) polkaForOther(h int64, r0, r1 int, b string) bool {
	for k, mask := range x.voters {
		var kh int64
		var kr, kt int
		var kb string
		parts := strings.SplitN(k, "/", 4)
		kh, _ = strconv.ParseInt(parts[0], 10, 64)
		kr, _ = strconv.Atoi(parts[1])
		kt, _ = strconv.Atoi(parts[2])
		kb = parts[3]
		if kh == h && types.SignedMsgType(kt) == types.PrevoteType && kr > r0 && kr <= r1 && kb != b &&
			3*x.power(mask) > 2*x.total {
			return true
		}
	}
	return false
}

func (x *world) flag(val int, class, detail string) {
	if val == x.me {
		if x.viol == "" {
			x.viol = "VIOL:" + class + " " + detail
		}
		return
	}
	x.faulty |= 1 << uint(val)
}

// oracleVote records a really signed vote and checks the signer against the
// protocol rules, using only the votes signed before it.
func (x *world) oracleVote(v ovote) {
	d := fmt.Sprintf("val=%d %d/%d/%s %s", v.val, v.h, v.r, typStr(v.typ), v.blk)
	// never vote in an older height/round than one already voted in
	if last, ok := x.lastHR[v.val]; ok {
		if v.h < last[0] || (v.h == last[0] && int64(v.r) < last[1]) {
			x.flag(v.val, "round-regression", d)
		}
	}
	if last, ok := x.lastHR[v.val]; !ok || v.h > last[0] || (v.h == last[0] && int64(v.r) > last[1]) {
		x.lastHR[v.val] = [2]int64{v.h, int64(v.r)}
	}
	for _, o := range x.olog {
		if o.val != v.val || o.h != v.h {
			continue
		}
		// one prevote and one precommit per height and round
		if o.r == v.r && o.typ == v.typ && o.blk != v.blk {
			x.flag(v.val, "double-sign", d)
		}
		// a prevote for something else than an earlier precommit needs a later polka for something else
		if v.typ == types.PrevoteType && o.typ == types.PrecommitType && o.blk != "nil" && o.r < v.r && v.blk != o.blk {
			if !x.polkaForOther(v.h, o.r, v.r, o.blk) {
				x.flag(v.val, "prevote-against-lock", d+fmt.Sprintf(" after pc %d/%s", o.r, o.blk))
			}
		}
	}
	// a precommit for a block needs +2/3 prevotes for it in the same round
	if v.typ == types.PrecommitType && v.blk != "nil" && !x.hasQuorum(v.h, v.r, types.PrevoteType, v.blk) {
		x.flag(v.val, "precommit-no-polka", d)
	}
	x.olog = append(x.olog, v)
	x.voters[vkey(v.h, v.r, v.typ, v.blk)] |= 1 << uint(v.val)
}

// oracleCommits checks the blocks the node has committed against the vote log.
func (x *world) oracleCommits() {
	for h := x.decidedN + 1; h <= x.blockStore.Height(); h++ {
		meta := x.blockStore.LoadBlockMeta(h)
		name := x.nameOfHash(meta.BlockID.Hash, h)
		found := false
		for k, mask := range x.voters {
			parts := strings.SplitN(k, "/", 4)
			kh, _ := strconv.ParseInt(parts[0], 10, 64)
			kt, _ := strconv.Atoi(parts[2])
			if kh != h || types.SignedMsgType(kt) != types.PrecommitType || parts[3] == "nil" || 3*x.power(mask) <= 2*x.total {
				continue
			}
			if parts[3] == name {
				found = true
			} else if 3*x.power(x.faulty) <= x.total && x.viol == "" {
				// a different block has a commit quorum although the rule-breakers hold at most 1/3
				x.viol = fmt.Sprintf("VIOL:conflicting-commit h=%d node=%s quorum=%s@%s", h, name, parts[3], parts[1])
			}
		}
		if !found && x.viol == "" {
			x.viol = fmt.Sprintf("VIOL:commit-no-quorum h=%d block=%s", h, name)
		}
		x.decidedN = h
	}
}

func (x *world) verdict() string {
	x.oracleCommits()
	if x.viol != "" {
		return x.viol
	}
	return "ok"
}

// ---------------------------------------------------------------- ops

func (x *world) signVote(val int, h int64, r int, typ types.SignedMsgType, id types.BlockID, e *blk, ok bool) *types.Vote {
	ts := tmtime.Now()
	if e != nil {
		if min := e.block.Time.Add(time.Duration(types.BlockTimeIotaMS) * time.Millisecond); min.After(ts) {
			ts = min
		}
	}
	v := &types.Vote{ValidatorAddress: x.addrs[val], ValidatorIndex: val, Height: h, Round: r, Timestamp: ts, Type: typ, BlockID: id}
	sig, err := x.keys[val].Sign(v.SignBytes(chainID))
	if err != nil {
		panic(err)
	}
	if !ok {
		sig = append([]byte{}, sig...)
		sig[7] ^= 0x40
	}
	v.Signature = sig
	return v
}

func peerID(p int) p2pTypes.ID { return p2pTypes.ID(fmt.Sprintf("peer%d", p)) }

func pInt(s string, max int) (int, bool) {
	if len(s) == 0 || len(s) > 7 {
		return 0, false
	}
	n, err := strconv.Atoi(s)
	if err != nil || strconv.Itoa(n) != s || n < 0 || n > max {
		return 0, false
	}
	return n, true
}

func pType(s string) (types.SignedMsgType, bool) {
	switch s {
	case "pv":
		return types.PrevoteType, true
	case "pc":
		return types.PrecommitType, true
	}
	return 0, false
}

func pOk(s string) (bool, bool) {
	switch s {
	case "ok":
		return true, true
	case "badsig":
		return false, true
	}
	return false, false
}

func execInit(t []string) (string, string) {
	if len(t) != 4 {
		return "err:badop", "-"
	}
	me, ok1 := pInt(t[1], 8)
	var powers []int64
	for _, s := range strings.Split(t[2], ",") {
		p, ok := pInt(s, 9999999)
		if !ok || p == 0 {
			return "err:badop", "-"
		}
		powers = append(powers, int64(p))
	}
	tab, ok3 := parseTable(t[3])
	if !ok1 || !ok3 || len(powers) == 0 || len(powers) > 9 || me >= len(powers) {
		return "err:badop", "-"
	}
	w.close()
	w = newWorld(me, powers, tab)
	return w.observe(), "ok"
}

func exec(t []string) (string, string) {
	if len(t) == 0 {
		return "err:badop", "-"
	}
	if t[0] == "init" && len(t) == 4 {
		return execInit(t)
	}
	if w == nil {
		return "err:noinit", "-"
	}
	x := w
	bad := func() (string, string) { return "err:badop", "-" }
	run := func(f func()) (string, string) {
		if x.halted {
			return "halted", "-"
		}
		f()
		return x.observe(), x.verdict()
	}
	switch t[0] {
	case "start":
		if len(t) != 1 {
			return bad()
		}
		return run(func() { x.cs.VerifStart() })
	case "timeout":
		if len(t) != 1 {
			return bad()
		}
		return run(func() { x.cs.VerifFireTimeout(x.tick) })
	case "internal":
		if len(t) != 1 {
			return bad()
		}
		return run(func() { x.cs.VerifHandleInternal() })
	case "proposal":
		if len(t) != 7 {
			return bad()
		}
		h, ok1 := pInt(t[1], 9999999)
		r, ok2 := pInt(t[2], 9999999)
		pol, err := strconv.Atoi(t[3])
		signer, ok5 := pInt(t[5], 9999999)
		sigok, ok6 := pOk(t[6])
		if !ok1 || !ok2 || err != nil || strconv.Itoa(pol) != t[3] || len(t[3]) > 8 || !validName(t[4]) || !ok5 || !ok6 {
			return bad()
		}
		return run(func() {
			id, _ := x.blockID(int64(h), t[4])
			p := types.NewProposal(int64(h), r, pol, id)
			if signer < x.n {
				sig, e := x.keys[signer].Sign(p.SignBytes(chainID))
				if e != nil {
					panic(e)
				}
				if !sigok {
					sig = append([]byte{}, sig...)
					sig[9] ^= 0x10
				}
				p.Signature = sig
			} else {
				p.Signature = bytes.Repeat([]byte{7}, 64) // not a validator: no key
			}
			x.cs.VerifHandlePeerMsg(&consensus.ProposalMessage{Proposal: p}, peerID(1))
		})
	case "block":
		if len(t) != 4 {
			return bad()
		}
		h, ok1 := pInt(t[1], 9999999)
		r, ok2 := pInt(t[2], 9999999)
		if !ok1 || !ok2 || !validName(t[3]) {
			return bad()
		}
		return run(func() {
			_, e := x.blockID(int64(h), t[3])
			if e == nil {
				return // a block of another height: the node drops its parts unseen
			}
			x.cs.VerifHandlePeerMsg(&consensus.BlockPartMessage{Height: int64(h), Round: r, Part: e.parts.GetPart(0)}, peerID(1))
		})
	case "vote":
		if len(t) != 8 {
			return bad()
		}
		val, ok1 := pInt(t[1], 9999999)
		h, ok2 := pInt(t[2], 9999999)
		r, ok3 := pInt(t[3], 9999999)
		typ, ok4 := pType(t[4])
		peer, ok6 := pInt(t[6], 9999999)
		sigok, ok7 := pOk(t[7])
		if !ok1 || !ok2 || !ok3 || !ok4 || !(t[5] == "nil" || validName(t[5])) || !ok6 || peer == 0 || !ok7 {
			return bad()
		}
		return run(func() {
			if val >= x.n {
				// no such validator: a vote with an out-of-range index, signed by nobody
				v := &types.Vote{ValidatorAddress: x.addrs[0], ValidatorIndex: val, Height: int64(h), Round: r,
					Timestamp: tmtime.Now(), Type: typ, Signature: bytes.Repeat([]byte{7}, 64)}
				v.BlockID, _ = x.blockID(int64(h), t[5])
				x.cs.VerifHandlePeerMsg(&consensus.VoteMessage{Vote: v}, peerID(peer))
				return
			}
			id, e := x.blockID(int64(h), t[5])
			if val == x.me {
				// nobody else holds the node's key: a peer can only echo a vote the node really
				// signed; anything else carries a signature that cannot verify
				var v *types.Vote
				for _, o := range x.own {
					if sigok && o.Height == int64(h) && o.Round == r && o.Type == typ && o.BlockID.Equals(id) {
						c := *o
						v = &c
					}
				}
				if v == nil {
					v = x.signVote(val, int64(h), r, typ, id, e, false)
				}
				x.cs.VerifHandlePeerMsg(&consensus.VoteMessage{Vote: v}, peerID(peer))
				return
			}
			v := x.signVote(val, int64(h), r, typ, id, e, sigok)
			if sigok {
				x.oracleVote(ovote{val, int64(h), r, typ, t[5]})
			}
			x.cs.VerifHandlePeerMsg(&consensus.VoteMessage{Vote: v}, peerID(peer))
		})
	case "maj23":
		if len(t) != 6 {
			return bad()
		}
		peer, ok1 := pInt(t[1], 9999999)
		h, ok2 := pInt(t[2], 9999999)
		r, ok3 := pInt(t[3], 9999999)
		typ, ok4 := pType(t[4])
		if !ok1 || peer == 0 || !ok2 || !ok3 || !ok4 || !(t[5] == "nil" || validName(t[5])) {
			return bad()
		}
		return run(func() {
			rs := x.cs.GetRoundState()
			if rs.Height != int64(h) {
				return // the reactor drops the claim
			}
			id, _ := x.blockID(int64(h), t[5])
			_ = rs.Votes.SetPeerMaj23(r, typ, peerID(peer), id)
		})
	}
	return bad()
}

func panicOracle(toks []string, v any) (string, string) {
	msg := fmt.Sprint(v)
	if w != nil && (strings.Contains(msg, "prevoted for an invalid block") || strings.Contains(msg, "committed an invalid block")) {
		// only reachable when more than 1/3 of the power voted for an invalid block
		w.halted = true
		return "panic:invalid-block", "-"
	}
	if w != nil && strings.Contains(msg, "AddVote() on nil VoteSet") {
		// a single peer message stopped the consensus routine: the node will never commit again
		// (fixed in /repo: addVote ignores a previous-height precommit when there is no last commit)
		w.halted = true
		return "panic:lastcommit-nil", "VIOL:crash-lastcommit-nil " + strings.Join(toks, " ")
	}
	if os.Getenv("VERIF_TRACE") != "" {
		fmt.Fprintf(os.Stderr, "panic: %v\n", v)
	}
	if w != nil {
		w.halted = true
	}
	return "panic:" + msg, "VIOL:crash-unknown " + strings.Join(toks, " ")
}

func main() {
	defer func() {
		if shmRoot != "" {
			os.RemoveAll(shmRoot)
		}
	}()
	kit.Main(&kit.Harness{
		Gen:         gen,
		Reset:       func() { w.close(); w = nil },
		Exec:        exec,
		PanicOracle: panicOracle,
	})
	w.close()
}

// keep the imports of types used only in some builds
var _ = cstypes.RoundStepNewHeight
