package main

// Generator for C31.  Every script is produced against a LIVE real node (the
// generator executes each op it emits on a private world), so that the
// structured-random part can stay "mostly valid": it knows the node's height,
// round, step, queue and pending timeout and mostly sends what a real network
// would send next — with equivocation, stale / future rounds, bad signatures,
// wrong proposers, invalid blocks, +2/3 claims, losses (messages never sent)
// and reorderings mixed in.  Only canonical (hash-free) state is consulted, so
// the output is a function of the seed.

import (
	"fmt"
	"strings"

	cstypes "github.com/gnolang/gno/tm2/pkg/bft/consensus/types"
	"gnoverif/kit"
)

// power vectors whose proposer schedule does not depend on how rounds are
// skipped (checked by proposerTable; see there)
var powerVectors = [][]int64{
	{1, 1, 1, 1}, {1, 1, 1, 1}, {1, 1, 1, 1}, {10, 10, 10, 10},
	{1, 1, 1, 1, 1}, {1, 1, 1, 1, 1, 1, 1}, {2, 1, 1, 1}, {3, 2, 2, 1}, {1, 2, 3, 4},
	{5}, {1, 1}, {1, 1, 1}, {4, 3, 3}, {1, 1, 1, 1, 1, 1},
}

type sc struct {
	o      *kit.Out
	n      int
	me     int
	powers []int64
	tab    [][]int
	nextB  int
}

func newCase(o *kit.Out, id string, me int, powers []int64) *sc {
	keys := keysFor(len(powers))
	tab, ok := proposerTable(keys, powers)
	if !ok {
		panic(fmt.Sprintf("c31 gen: proposer schedule of %v depends on the skipping path", powers))
	}
	s := &sc{o: o, n: len(powers), me: me, powers: powers, tab: tab}
	o.Case(id)
	if w != nil {
		w.close()
		w = nil
	}
	ps := make([]string, len(powers))
	for i, p := range powers {
		ps[i] = fmt.Sprint(p)
	}
	s.op("init %d %s %s", me, strings.Join(ps, ","), tableString(tab))
	return s
}

func (s *sc) op(format string, a ...any) {
	line := fmt.Sprintf(format, a...)
	s.o.Op("%s", line)
	func() {
		defer func() {
			if v := recover(); v != nil {
				panicOracle(nil, v)
			}
		}()
		exec(strings.Fields(line))
	}()
}

func (s *sc) hrs() (int, int, cstypes.RoundStepType) {
	rs := w.cs.GetRoundState()
	return int(rs.Height), rs.Round, rs.Step
}

func (s *sc) qlen() int { return w.cs.VerifInternalLen() }

func (s *sc) drain() {
	for i := 0; i < 12 && w != nil && !w.halted && s.qlen() > 0; i++ {
		s.op("internal")
	}
}

func (s *sc) proposer(h, r int) int {
	if h >= 1 && h <= len(s.tab) && r < len(s.tab[h-1]) {
		return s.tab[h-1][r]
	}
	return 0
}

func (s *sc) others() []int {
	var out []int
	for i := 0; i < s.n; i++ {
		if i != s.me {
			out = append(out, i)
		}
	}
	return out
}

func (s *sc) fresh(h int) string {
	s.nextB++
	return fmt.Sprintf("b%d", h*1000+s.nextB)
}

func (s *sc) votes(typ string, h, r int, blk string, vals ...int) {
	for _, v := range vals {
		if w != nil && w.halted {
			return
		}
		s.op("vote %d %d %d %s %s %d ok", v, h, r, typ, blk, v+1)
		s.drain()
	}
}

// propose makes the right proposer of (h, r) propose blk (or lets the node do it).
func (s *sc) propose(h, r, pol int, blk string) {
	p := s.proposer(h, r)
	if p == s.me {
		s.drain()
		return
	}
	s.op("proposal %d %d %d %s %d ok", h, r, pol, blk, p)
	s.op("block %d %d %s", h, r, blk)
	s.drain()
}

// blockOf: what gets proposed at (h, r) when everything goes well
func (s *sc) blockOf(h, r int) string {
	if s.proposer(h, r) == s.me {
		return fmt.Sprintf("o%d", h)
	}
	return s.fresh(h)
}

// happy runs one height to commit in round r (the node must be in NewHeight or at round r).
func (s *sc) happy(h, r int) {
	if _, _, st := s.hrs(); st == cstypes.RoundStepNewHeight {
		s.op("timeout")
	}
	blk := s.blockOf(h, r)
	s.propose(h, r, -1, blk)
	s.votes("pv", h, r, blk, s.others()...)
	s.votes("pc", h, r, blk, s.others()...)
}

// nilRound moves the node from round r to round r+1 with nil votes.
func (s *sc) nilRound(h, r int) {
	if _, _, st := s.hrs(); st == cstypes.RoundStepNewHeight {
		s.op("timeout")
	}
	s.drain()
	if _, _, st := s.hrs(); st == cstypes.RoundStepPropose {
		s.op("timeout") // propose timeout: prevote nil (or the locked block)
	}
	s.drain()
	s.votes("pv", h, r, "nil", s.others()...)
	s.votes("pc", h, r, "nil", s.others()...)
	s.op("timeout") // precommit-wait timeout
	s.drain()
}

func table(o *kit.Out) {
	four := []int64{1, 1, 1, 1}
	tab4, _ := proposerTable(keysFor(4), four)
	isProp := tab4[0][0] // proposer of (1,0)
	notProp := (isProp + 1) % 4

	// T1: three heights without a hitch, as proposer of height 1 and as a bystander
	for i, me := range []int{isProp, notProp} {
		s := newCase(o, fmt.Sprintf("t1-%d", i), me, four)
		s.op("start")
		for h := 1; h <= 3; h++ {
			s.happy(h, 0)
			// the last precommit of the previous height arrives late
		}
		s.op("vote %d 3 0 pc nil %d ok", s.others()[0], s.others()[0]+1)
	}
	// T2: a nil round, then commit in round 1
	{
		s := newCase(o, "t2", notProp, four)
		s.op("start")
		s.nilRound(1, 0)
		s.happy(1, 1)
		s.happy(2, 0)
	}
	// T3: lock in round 0, no commit; polka for another block in round 1 unlocks and relocks
	{
		s := newCase(o, "t3", notProp, four)
		s.op("start")
		s.op("timeout")
		b1 := s.blockOf(1, 0)
		s.propose(1, 0, -1, b1)
		s.votes("pv", 1, 0, b1, s.others()...) // node precommits b1: locked
		s.votes("pc", 1, 0, "nil", s.others()...)
		s.op("timeout") // precommit wait -> round 1
		s.drain()
		b2 := "b77"
		if s.proposer(1, 1) != s.me {
			s.op("proposal 1 1 -1 %s %d ok", b2, s.proposer(1, 1))
			s.op("block 1 1 %s", b2)
		}
		s.drain() // prevotes the locked block
		s.votes("pv", 1, 1, b2, s.others()...)
		s.votes("pc", 1, 1, b2, s.others()...)
	}
	// T4: lock in round 0; +2/3 nil in round 1 unlocks; T5: +2/3 for the same block relocks
	for i, second := range []string{"nil", "same"} {
		s := newCase(o, fmt.Sprintf("t4-%d", i), notProp, four)
		s.op("start")
		s.op("timeout")
		b1 := s.blockOf(1, 0)
		s.propose(1, 0, -1, b1)
		s.votes("pv", 1, 0, b1, s.others()...)
		s.votes("pc", 1, 0, "nil", s.others()...)
		s.op("timeout")
		s.drain()
		s.op("timeout") // propose timeout of round 1: prevote the locked block
		s.drain()
		if second == "nil" {
			s.votes("pv", 1, 1, "nil", s.others()...)
		} else {
			s.votes("pv", 1, 1, b1, s.others()...)
		}
		s.votes("pc", 1, 1, "nil", s.others()...)
		s.op("timeout")
		s.drain()
		s.happy(1, 2)
	}
	// T6: polka and commit for a block the node has never seen; the block arrives last
	{
		s := newCase(o, "t6", notProp, four)
		s.op("start")
		s.op("timeout")
		s.op("timeout") // propose timeout: prevote nil
		s.drain()
		s.votes("pv", 1, 0, "b5", s.others()...)
		s.votes("pc", 1, 0, "b5", s.others()...)
		s.op("block 1 0 b6") // wrong block for the parts header
		s.op("block 1 0 b5")
		s.drain()
	}
	// T7: commit quorum seen while still in NewHeight / for a later round; node in Commit step
	// then dragged to a further round by +2/3 nil precommits (the Commit -> PrecommitWait fall-back)
	{
		s := newCase(o, "t7", notProp, four)
		s.op("start")
		s.votes("pc", 1, 2, "b9", s.others()...)
		s.votes("pc", 1, 3, "nil", s.others()...)
		s.op("block 1 2 b9")
		s.op("timeout")
		s.drain()
		s.votes("pc", 1, 2, "b9", s.others()[0])
		s.op("block 1 2 b9")
		s.drain()
	}
	// T8: equivocation, without and with a +2/3 claim
	{
		s := newCase(o, "t8", notProp, four)
		s.op("start")
		s.op("timeout")
		ot := s.others()
		s.op("vote %d 1 0 pv b1 %d ok", ot[0], ot[0]+1)
		s.op("vote %d 1 0 pv b2 %d ok", ot[0], ot[0]+1) // conflicting: dropped
		s.op("maj23 3 1 0 pv b2")
		s.op("vote %d 1 0 pv b2 %d ok", ot[0], ot[0]+1) // now tracked
		s.op("maj23 3 1 0 pv b3")                       // a peer may claim only once
		s.op("maj23 4 2 0 pv b3")                       // other height: dropped
		s.op("vote %d 1 0 pv b2 %d ok", ot[1], ot[1]+1)
		s.op("vote %d 1 0 pv b2 %d ok", ot[2], ot[2]+1)
		s.drain()
		s.op("vote %d 1 0 pv b1 %d badsig", ot[1], ot[1]+1)
		s.op("vote 9 1 0 pv b1 2 ok")
	}
	// T9: invalid block: prevote nil; a polka for it stops the node
	{
		s := newCase(o, "t9", notProp, four)
		s.op("start")
		s.op("timeout")
		p := s.proposer(1, 0)
		s.op("proposal 1 0 -1 x1 %d ok", p)
		s.op("block 1 0 x1")
		s.drain()
		s.votes("pv", 1, 0, "x1", s.others()...)
		s.op("timeout")
		s.op("internal")
	}
	// T10: commit of an invalid block stops the node
	{
		s := newCase(o, "t10", notProp, four)
		s.op("start")
		s.votes("pc", 1, 0, "x2", s.others()...)
		s.op("block 1 0 x2")
		s.op("start")
	}
	// T11: proposal with a POL round: complete only when the POL prevotes are there
	{
		s := newCase(o, "t11", notProp, four)
		s.op("start")
		s.nilRound(1, 0)
		if p := s.proposer(1, 1); p != s.me {
			s.op("proposal 1 1 0 b4 %d ok", p)
			s.op("block 1 1 b4")
			s.op("proposal 1 1 -1 b5 %d ok", p) // second proposal: ignored
		}
		s.drain()
		s.votes("pv", 1, 1, "b4", s.others()...)
		s.votes("pc", 1, 1, "b4", s.others()...)
		// and one whose POL round is not known yet
		s.op("timeout")
		s.nilRound(2, 0)
	}
	// T12: wrong proposer, bad signature, bad POL rounds, wrong round/height
	{
		s := newCase(o, "t12", notProp, four)
		s.op("start")
		s.op("timeout")
		p := s.proposer(1, 0)
		s.op("proposal 1 0 -1 b1 %d ok", (p+1)%4)
		s.op("proposal 1 0 -1 b1 %d badsig", p)
		s.op("proposal 1 0 -2 b1 %d ok", p)
		s.op("proposal 1 0 0 b1 %d ok", p)
		s.op("proposal 1 1 -1 b1 %d ok", s.proposer(1, 1))
		s.op("proposal 2 0 -1 b1 %d ok", s.proposer(2, 0))
		s.op("proposal 1 0 -1 b1 7 ok")
		s.op("block 1 0 b1") // no proposal yet: not expecting parts
		s.op("proposal 1 0 -1 b1 %d ok", p)
		s.op("block 2 0 b1")
		s.op("block 1 0 b1")
		s.op("block 1 0 b1")
		s.drain()
	}
	// T13: round skipping and the two catch-up rounds per peer
	{
		s := newCase(o, "t13", notProp, four)
		s.op("start")
		s.op("timeout")
		ot := s.others()
		s.op("vote %d 1 5 pv nil 1 ok", ot[0])
		s.op("vote %d 1 6 pv nil 1 ok", ot[0])
		s.op("vote %d 1 7 pv nil 1 ok", ot[0]) // third unknown round from peer 1: refused
		s.op("vote %d 1 5 pv nil 2 ok", ot[1])
		s.op("vote %d 1 5 pv nil 2 ok", ot[2]) // +2/3 any at round 5: skip to it
		s.drain()
		s.op("vote %d 1 7 pc nil 3 ok", ot[0])
		s.op("vote %d 1 7 pc nil 3 ok", ot[1])
		s.op("vote %d 1 7 pc nil 3 ok", ot[2])
		s.drain()
		s.op("timeout")
		s.drain()
	}
	// T14: a single validator decides alone; two validators need each other
	{
		s := newCase(o, "t14-1", 0, []int64{5})
		s.op("start")
		for i := 0; i < 14; i++ {
			if s.qlen() > 0 {
				s.op("internal")
			} else {
				s.op("timeout")
			}
		}
		s = newCase(o, "t14-2", 1, []int64{1, 1})
		s.op("start")
		s.happy(1, 0)
		s.happy(2, 0)
	}
	// T15: unequal powers: one heavy validator (4 of 10) plus any other is not enough, three are
	{
		s := newCase(o, "t15", 0, []int64{1, 2, 3, 4})
		s.op("start")
		s.op("timeout")
		blk := s.blockOf(1, 0)
		s.propose(1, 0, -1, blk)
		s.votes("pv", 1, 0, blk, 3, 2, 1)
		s.votes("pc", 1, 0, blk, 3, 2, 1)
	}
}

// ---------------------------------------------------------------- structured random

type style struct {
	coop   int // % of steps that push the protocol forward
	equiv  int // % of votes that equivocate / target odd blocks
	jump   int // % of votes for other rounds
	garble int // % bad signatures, wrong signers, bad heights
}

func (s *sc) randomRun(r *kit.Rand, nOps int, st style) {
	s.op("start")
	blocksAt := map[int][]string{} // height -> names used
	// The node's own proposal block o<h> embeds its LastCommit, which still grows while the node
	// waits in NewHeight (late precommits of height h-1, its own included): the name is used only
	// once the node has left NewHeight at height h, when the block is determined.
	okOwn := func(h int) bool {
		hh, _, st := s.hrs()
		return hh == h && st > cstypes.RoundStepNewHeight
	}
	pick := func(h int) string {
		names := blocksAt[h]
		if len(names) > 0 && !r.Chance(25) {
			if nm := kit.Pick(r, names); nm[0] != 'o' || okOwn(h) {
				return nm
			}
		}
		var nm string
		switch {
		case r.Chance(8):
			nm = fmt.Sprintf("x%d", h*10+r.Intn(3)+1)
		case r.Chance(30) && okOwn(h):
			nm = fmt.Sprintf("o%d", h)
		default:
			nm = fmt.Sprintf("b%d", h*10+r.Intn(4)+1)
		}
		blocksAt[h] = append(blocksAt[h], nm)
		return nm
	}
	focus := map[[2]int]string{} // (height, round) -> the block this round is about
	for i := 0; i < nOps && w != nil && !w.halted; i++ {
		h, rd, step := s.hrs()
		if h > tabH-1 || rd > tabR-2 {
			return // stay inside the proposer table
		}
		_, armed := w.tick.Pending()
		key := [2]int{h, rd}
		if _, ok := focus[key]; !ok {
			rs := w.cs.GetRoundState()
			switch {
			case rs.LockedBlock != nil && r.Chance(70):
				focus[key] = w.nameOfHash(rs.LockedBlock.Hash(), int64(h))
			case rs.ValidBlock != nil && r.Chance(60):
				focus[key] = w.nameOfHash(rs.ValidBlock.Hash(), int64(h))
			case s.proposer(h, rd) == s.me && okOwn(h):
				focus[key] = fmt.Sprintf("o%d", h)
			case s.proposer(h, rd) == s.me:
				// not determined yet: decide again once the node has left NewHeight
			default:
				focus[key] = pick(h)
			}
			if strings.HasPrefix(focus[key], "?") {
				focus[key] = pick(h)
			}
		}
		fb, haveFocus := focus[key]
		if !haveFocus {
			fb = pick(h)
		}
		if fb[0] == 'o' && !okOwn(h) {
			fb = fmt.Sprintf("b%d", h*10+1)
		}
		if s.qlen() > 0 && r.Chance(75) {
			s.op("internal")
			continue
		}
		if len(s.others()) == 0 {
			// a single validator: only its own messages and timeouts exist
			if s.qlen() > 0 || !armed {
				s.op("internal")
			} else {
				s.op("timeout")
			}
			continue
		}
		if r.Chance(st.coop) {
			// what a healthy network would deliver next
			switch {
			case step == cstypes.RoundStepNewHeight:
				if r.Chance(20) && h > 1 {
					v := kit.Pick(r, s.others())
					s.op("vote %d %d %d pc %s %d ok", v, h-1, r.Intn(2), kit.Pick(r, append(blocksAt[h-1], "nil")), v+1)
				} else if armed {
					s.op("timeout")
				} else {
					s.op("start")
				}
			case step <= cstypes.RoundStepPropose && s.proposer(h, rd) != s.me && w.cs.GetRoundState().Proposal == nil && r.Chance(70):
				pol := -1
				if rs := w.cs.GetRoundState(); rs.ValidRound >= 0 && r.Chance(50) {
					pol = rs.ValidRound
				} else if rd > 0 && r.Chance(15) {
					pol = r.Intn(rd)
				}
				s.op("proposal %d %d %d %s %d ok", h, rd, pol, fb, s.proposer(h, rd))
			case step <= cstypes.RoundStepPropose && w.cs.GetRoundState().ProposalBlock == nil && w.cs.GetRoundState().Proposal != nil && r.Chance(80):
				s.op("block %d %d %s", h, rd, fb)
			case step <= cstypes.RoundStepPropose && armed && r.Chance(25):
				s.op("timeout")
			default:
				typ := "pv"
				if step >= cstypes.RoundStepPrecommit || (step >= cstypes.RoundStepPrevote && r.Chance(25)) {
					typ = "pc"
				}
				blk := fb
				if r.Chance(15) {
					blk = "nil"
				}
				v := kit.Pick(r, s.others())
				if len(s.others()) == 0 {
					s.op("timeout")
					continue
				}
				s.op("vote %d %d %d %s %s %d ok", v, h, rd, typ, blk, v+1)
				if step == cstypes.RoundStepCommit && r.Chance(50) {
					s.op("block %d %d %s", h, rd, fb)
				}
			}
			continue
		}
		// disturbances
		if len(s.others()) == 0 {
			s.op("timeout")
			continue
		}
		v := kit.Pick(r, s.others())
		typ := kit.Pick(r, []string{"pv", "pc"})
		switch c := r.Intn(100); {
		case c < st.equiv:
			s.op("vote %d %d %d %s %s %d ok", v, h, rd, typ, kit.Pick(r, []string{pick(h), "nil", fb}), kit.Pick(r, []int{v + 1, 1, 2}))
		case c < st.equiv+st.jump:
			rr := kit.Pick(r, []int{rd + 1, rd + 1, rd + 2, rd + 3, rd - 1, 0, rd + 1 + r.Intn(3)})
			if rr < 0 {
				rr = 0
			}
			if rr > tabR-2 {
				rr = tabR - 2
			}
			s.op("vote %d %d %d %s %s %d ok", v, h, rr, typ, kit.Pick(r, []string{fb, "nil", "nil", pick(h)}), kit.Pick(r, []int{v + 1, v + 1, 1, 2, 3}))
		case c < st.equiv+st.jump+st.garble:
			switch r.Intn(7) {
			case 0:
				s.op("vote %d %d %d %s %s %d badsig", v, h, rd, typ, fb, v+1)
			case 1:
				s.op("vote %d %d %d %s %s %d ok", v, h+kit.Pick(r, []int{-1, 1, 2}), rd, typ, fb, v+1)
			case 2:
				s.op("proposal %d %d %d %s %d %s", h, rd, kit.Pick(r, []int{-1, -1, rd, rd + 1, -2, 0}), pick(h), kit.Pick(r, []int{s.proposer(h, rd), v, 8}), kit.Pick(r, []string{"ok", "ok", "badsig"}))
			case 3:
				s.op("block %d %d %s", kit.Pick(r, []int{h, h, h + 1}), kit.Pick(r, []int{rd, rd + 1, 0}), pick(h))
			case 4:
				s.op("vote %d %d %d %s %s %d ok", s.n+r.Intn(3), h, rd, typ, fb, v+1)
			case 5:
				s.op("maj23 %d %d %d %s %s", r.Intn(4)+1, kit.Pick(r, []int{h, h, h, h + 1}), kit.Pick(r, []int{rd, rd, rd + 1, 0}), typ, kit.Pick(r, []string{fb, pick(h), "nil"}))
			default:
				s.op("vote %d %d %d %s %s %d ok", s.me, h, rd, typ, fb, v+1) // the node's own key used by the script: a replayed / forged self vote
			}
		default:
			if armed {
				s.op("timeout")
			} else {
				s.op("internal")
			}
		}
	}
}

func malformed(o *kit.Out, r *kit.Rand, n int) {
	o.Case("malformed")
	if w != nil {
		w.close()
		w = nil
	}
	emit := func(line string) {
		o.Op("%s", line)
		func() {
			defer func() {
				if v := recover(); v != nil {
					panicOracle(nil, v)
				}
			}()
			exec(strings.Fields(line))
		}()
	}
	emit("start")
	emit("init 4 1,1,1,1 0123")
	emit("init 0 1,0,1 012")
	emit("init 0 1,1,1,1 01a3")
	emit("init 0 1,1,1,1")
	tab, _ := proposerTable(keysFor(4), []int64{1, 1, 1, 1})
	emit("init 2 1,1,1,1 " + tableString(tab))
	toks := []string{"start", "timeout", "internal", "vote", "proposal", "block", "maj23", "init", "0", "1", "2", "3", "-1", "pv", "pc",
		"nil", "b1", "b2", "x1", "o1", "b0", "b500000", "q7", "ok", "badsig", "99999999", "1,1", "", "commit"}
	for i := 0; i < n; i++ {
		switch r.Intn(6) {
		case 0:
			emit(fmt.Sprintf("vote %s %s %s %s %s %s %s", kit.Pick(r, toks), kit.Pick(r, toks), kit.Pick(r, toks), kit.Pick(r, toks), kit.Pick(r, toks), kit.Pick(r, toks), kit.Pick(r, toks)))
		case 1:
			emit(fmt.Sprintf("vote %d 1 %d %s %s %d %s", r.Intn(5), r.Intn(3), kit.Pick(r, []string{"pv", "pc", "px"}), kit.Pick(r, []string{"nil", "b1", "b01", "B1", "x2", "o1", "o2"}), r.Intn(4), kit.Pick(r, []string{"ok", "badsig", "OK"})))
		case 2:
			emit(fmt.Sprintf("proposal 1 %d %s %s %d %s", r.Intn(2), kit.Pick(r, []string{"-1", "0", "-01", "+1", "1e3"}), kit.Pick(r, []string{"b1", "nil", "x1"}), r.Intn(5), kit.Pick(r, []string{"ok", "badsig"})))
		case 3:
			var parts []string
			for j := r.Intn(9); j >= 0; j-- {
				parts = append(parts, kit.Pick(r, toks))
			}
			emit(strings.Join(parts, " "))
		case 4:
			emit(kit.Pick(r, []string{"timeout", "internal", "start", "timeout 1", "internal x", "block 1 0 nil", "block 1 0 b1", "maj23 0 1 0 pv b1", "maj23 1 1 0 pw b1"}))
		default:
			emit(fmt.Sprintf("maj23 %d 1 %d %s %s", r.Intn(3), r.Intn(3), kit.Pick(r, []string{"pv", "pc"}), kit.Pick(r, []string{"nil", "b1", "b2", "x1"})))
		}
	}
}

func gen(o *kit.Out, r *kit.Rand, tier string) {
	defer func() {
		if w != nil {
			w.close()
			w = nil
		}
	}()
	table(o)
	nCases, nOps, nMal := 120, 90, 150
	if tier == "thorough" {
		nCases, nOps, nMal = 900, 140, 600
	}
	styles := []style{
		{coop: 90, equiv: 30, jump: 30, garble: 20}, // healthy network, several heights
		{coop: 75, equiv: 35, jump: 35, garble: 20},
		{coop: 55, equiv: 45, jump: 35, garble: 15}, // a lot of equivocation and round jumps
		{coop: 60, equiv: 15, jump: 60, garble: 15},
		{coop: 70, equiv: 10, jump: 10, garble: 20}, // lossy: the rest is timeouts
	}
	for i := 0; i < nCases; i++ {
		rr := r.Fork()
		powers := kit.Pick(rr, powerVectors)
		me := rr.Intn(len(powers))
		s := newCase(o, fmt.Sprintf("r%d", i), me, powers)
		s.randomRun(rr, nOps/2+rr.Intn(nOps), styles[i%len(styles)])
	}
	malformed(o, r.Fork(), nMal)
}
