// Harness for C04: Gno programs compute what the same Go program computes.
//
// op line:  prog <S-expression tokens of a MiniGo program>     (harness/minigo)
// output:   <status>[ <escaped output>]      status ∈ ok | panic:<class> | panic:user … | limit:… | crash:… | err:…
//           = what the GnoVM did with the rendered program (the implementation
//           under verification); the Lean model prints the same line.
// oracle:   the NATIVE GO toolchain: the same text is compiled (all programs of
//           the stream in one binary) and run; ok ⇔ same output and same way of
//           ending.  A Go-level panic escaping the VM is VIOL:internal-fault (C11).
//           A program the Go compiler rejects is outside the quantifier (`-`).
package main

import (
	"bufio"
	"fmt"
	"os"
	"strings"
	"sync"

	"gnoverif/kit"
	"gnoverif/minigo"
)

const chunk = 400

func execAll() {
	in := bufio.NewScanner(os.Stdin)
	in.Buffer(make([]byte, 1<<20), 1<<28)
	var lines []string
	for in.Scan() {
		lines = append(lines, in.Text())
	}
	type item struct {
		line int
		unit minigo.Unit
	}
	impl := make([]string, len(lines))
	orc := make([]string, len(lines))
	ext := make([]bool, len(lines))
	var items []item
	for i, l := range lines {
		orc[i] = "-"
		if strings.HasPrefix(l, "#") {
			impl[i] = "#"
			continue
		}
		toks := strings.Fields(l)
		if len(toks) == 2 && toks[0] == "xprog" {
			// extended program (source text, no model): the GnoVM against native Go only
			src, err := kit.UnHex(toks[1])
			if err != nil || len(src) == 0 {
				impl[i] = "err:badop"
				continue
			}
			ext[i] = true
			items = append(items, item{line: i, unit: minigo.ExtUnit(string(src), len(items))})
			continue
		}
		if len(toks) > 2 && toks[0] == "kf" && toks[2] == "prog" {
			toks = toks[2:] // pinned known-finding witness: executed like any program
		}
		if len(toks) == 0 || toks[0] != "prog" {
			impl[i] = "err:badop"
			continue
		}
		p, err := minigo.ParseProgram(toks[1:])
		if err != nil {
			impl[i] = "err:parse"
			if os.Getenv("VERIF_TRACE") != "" {
				fmt.Fprintf(os.Stderr, "c04: line %d: %v\n", i, err)
			}
			continue
		}
		u, rerr := minigo.SafeUnit(p, len(items))
		if rerr != nil {
			impl[i] = "err:parse"
			continue
		}
		items = append(items, item{line: i, unit: u})
	}
	units := make([]minigo.Unit, len(items))
	for k, it := range items {
		units[k] = it.unit
	}
	// native Go (oracle) in the background, chunk by chunk
	goRes := make([]minigo.Outcome, len(units))
	var wg sync.WaitGroup
	wg.Add(1)
	go func() {
		defer wg.Done()
		if len(units) == 0 {
			return
		}
		nv, err := minigo.NewNative()
		if err != nil {
			for k := range goRes {
				goRes[k] = minigo.Outcome{Status: "err:toolchain"}
			}
			return
		}
		defer nv.Close()
		for lo := 0; lo < len(units); lo += chunk {
			hi := min(lo+chunk, len(units))
			copy(goRes[lo:hi], nv.RunBatch(units[lo:hi]))
		}
	}()
	// the GnoVM, in-process
	vm := minigo.NewGnoVM(minigo.RepoDir())
	gnoRes := make([]minigo.Outcome, len(units))
	gnoDetail := make([]string, len(units))
	for k, u := range units {
		gnoRes[k], gnoDetail[k] = vm.Run(u)
	}
	wg.Wait()
	nCompile, nOther := 0, 0
	for k, it := range items {
		g, n := gnoRes[k], goRes[k]
		impl[it.line] = g.Line()
		if ext[it.line] {
			impl[it.line] = "ext"
			if os.Getenv("VERIF_TRACE") != "" && !(g.Status == n.Status && string(g.Output) == string(n.Output)) {
				fmt.Fprintf(os.Stderr, "c04: line %d: ext gno=%s\n", it.line, g.Line())
			}
		}
		switch {
		case strings.HasPrefix(g.Status, "crash:"):
			orc[it.line] = "VIOL:internal-fault " + gnoDetail[k]
		case strings.HasPrefix(n.Status, "err:compile"):
			nCompile++
			if os.Getenv("C04_STRICT") != "" {
				orc[it.line] = "VIOL:gen-illtyped " + n.Status
			}
			if os.Getenv("VERIF_TRACE") != "" {
				fmt.Fprintf(os.Stderr, "c04: line %d: %s\n", it.line, n.Status)
			}
		case strings.HasPrefix(n.Status, "err:") || strings.HasPrefix(n.Status, "limit:") || strings.HasPrefix(n.Status, "crash:"):
			nOther++
			if os.Getenv("C04_STRICT") != "" {
				orc[it.line] = "VIOL:gen-native " + n.Status
			}
			if os.Getenv("VERIF_TRACE") != "" {
				fmt.Fprintf(os.Stderr, "c04: line %d: native %s\n", it.line, n.Status)
			}
		case g.Status == n.Status && string(g.Output) == string(n.Output):
			orc[it.line] = "ok"
		case strings.HasPrefix(g.Status, "err:"):
			// the Go compiler accepted the program and ran it; the GnoVM refused it
			orc[it.line] = "VIOL:gno-rejects go=" + n.Line() + " gno-detail=" + gnoDetail[k]
		default:
			orc[it.line] = "VIOL:go-mismatch go=" + n.Line()
			if strings.HasPrefix(g.Status, "limit:") {
				orc[it.line] += " gno-detail=" + gnoDetail[k]
			}
		}
	}
	if nCompile+nOther > 0 {
		fmt.Fprintf(os.Stderr, "c04: %d programs, %d rejected by the Go compiler, %d without a native result\n", len(units), nCompile, nOther)
	}
	w := bufio.NewWriterSize(os.Stdout, 1<<16)
	defer w.Flush()
	for i := range lines {
		w.WriteString(strings.ReplaceAll(impl[i], "\t", " "))
		w.WriteByte('\t')
		w.WriteString(strings.ReplaceAll(strings.ReplaceAll(orc[i], "\n", "\\n"), "\t", " "))
		w.WriteByte('\n')
	}
}

func main() {
	if len(os.Args) > 1 && os.Args[1] == "exec" {
		execAll()
		return
	}
	if len(os.Args) > 1 && os.Args[1] == "kf" {
		// print the op lines of the pinned known-finding witnesses (corpus/C04/kf-*.ops)
		for _, k := range minigo.KnownFindings() {
			fmt.Printf("kf-%s\tkf %s prog %s\n", k.Key, k.Key, k.Prog.SExp())
		}
		for _, k := range minigo.BoundaryCorpus() {
			fmt.Printf("b-%s\tprog %s\n", k.Key, k.Prog.SExp())
		}
		return
	}
	if len(os.Args) > 1 && os.Args[1] == "render" {
		// debugging aid: print the Go text of every program on stdin
		in := bufio.NewScanner(os.Stdin)
		in.Buffer(make([]byte, 1<<20), 1<<28)
		k := 0
		for in.Scan() {
			toks := strings.Fields(in.Text())
			if len(toks) > 2 && toks[0] == "kf" {
				toks = toks[2:]
			}
			if len(toks) == 0 || toks[0] != "prog" {
				continue
			}
			p, err := minigo.ParseProgram(toks[1:])
			if err != nil {
				fmt.Println("// parse error:", err)
				continue
			}
			u, _ := minigo.SafeUnit(p, k)
			k++
			fmt.Println("package main\n\n" + u.Text)
		}
		return
	}
	kit.Main(&kit.Harness{
		Gen: func(w *kit.Out, r *kit.Rand, tier string) { minigo.Generate(w, r, tier) },
	})
}
