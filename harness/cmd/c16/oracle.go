package main

// Independent oracle for C16: the property statement evaluated on what the
// implementation shows (real balances before/after each session-signed tx and
// the stored session records).  Nothing here is shared with the Lean model;
// sums are math/big, bookkeeping is plain maps.

import (
	"fmt"
	"math/big"
	"strings"

	"github.com/gnolang/gno/tm2/pkg/std"
)

type grant struct {
	alive   bool
	limit   map[string]*big.Int
	period  int64
	expires int64
	paths   []string
	epoch   int64 // the stored SpendReset value identifying the current spend period
	spent   map[string]*big.Int
}

type oracle struct {
	g map[[2]int]*grant
}

func newOracle() oracle { return oracle{g: map[[2]int]*grant{}} }

func kindOf(m msgOp) (string, string) {
	switch m.kind {
	case "send":
		return "bank/send", ""
	case "exec":
		return "vm/exec", realmPaths[m.realm]
	case "run":
		return "vm/run", ""
	case "addpkg":
		return "vm/add_package", ""
	case "create":
		return "auth/create_session", ""
	case "revoke":
		return "auth/revoke_session", ""
	default:
		return "auth/revoke_all_sessions", ""
	}
}

// granted: the oracle's own reading of "a session can only submit the message
// kinds and package paths it was granted".
func granted(paths []string, m msgOp) bool {
	kind, pkg := kindOf(m)
	for _, e := range paths {
		if e == "*" || e == kind {
			return true
		}
		if kind == "vm/exec" && strings.HasPrefix(e, "vm/exec:") {
			p := e[len("vm/exec:"):]
			if p != "" && (pkg == p || strings.HasPrefix(pkg, p+"/")) {
				return true
			}
		}
	}
	return false
}

func coinsEq(a, b std.Coins) bool {
	if len(a) != len(b) {
		return false
	}
	for i := range a {
		if a[i] != b[i] {
			return false
		}
	}
	return true
}

func changed(before, after snapshot) bool {
	for k, v := range before.bal {
		if !coinsEq(v, after.bal[k]) {
			return true
		}
	}
	if len(before.sess) != len(after.sess) || before.sinks != after.sinks {
		return true
	}
	for i, s := range before.sess {
		t := after.sess[i]
		if s.m != t.m || s.k != t.k || s.reset != t.reset || s.seq != t.seq || s.num != t.num || !coinsEq(s.used, t.used) {
			return true
		}
	}
	return false
}

func (o *oracle) judge(op *txOp, signers []int, ok bool, before, after snapshot, now int64) string {
	effect := ok || changed(before, after)
	verdict := "ok"
	viol := func(class, detail string) {
		if verdict == "ok" {
			verdict = "VIOL:" + class + " " + detail
		}
	}
	// sessions authorising this tx
	for _, m := range signers {
		k, viaSession := op.auth[m]
		if !viaSession {
			continue
		}
		g := o.g[[2]int{m, k}]
		dead := g == nil || !g.alive || (g.expires > 0 && now >= g.expires)
		if dead {
			if effect {
				viol("dead-session", fmt.Sprintf("m%d:k%d now=%d", m, k, now))
			}
			continue
		}
		if !effect {
			continue
		}
		// allowed actions
		for _, msg := range op.msgs {
			for _, s := range msg.msgSigners() {
				if s == m && !granted(g.paths, msg) {
					kind, pkg := kindOf(msg)
					viol("kind-not-granted", fmt.Sprintf("m%d:k%d %s %s", m, k, kind, pkg))
				}
			}
		}
		// spend period and limit
		if v, found := after.findSess(m, k); found && v.reset != g.epoch {
			if !(g.period > 0 && now >= g.epoch+g.period && v.reset == now) {
				viol("reset-early", fmt.Sprintf("m%d:k%d reset %d -> %d at %d period %d", m, k, g.epoch, v.reset, now, g.period))
			}
			g.epoch = v.reset
			g.spent = map[string]*big.Int{}
		}
		name := fmt.Sprintf("m%d", m)
		for _, c := range before.bal[name] {
			drop := new(big.Int).Sub(big.NewInt(c.Amount), big.NewInt(after.bal[name].AmountOf(c.Denom)))
			if drop.Sign() <= 0 {
				continue
			}
			if g.spent[c.Denom] == nil {
				g.spent[c.Denom] = new(big.Int)
			}
			g.spent[c.Denom].Add(g.spent[c.Denom], drop)
			lim := g.limit[c.Denom]
			if lim == nil {
				lim = new(big.Int)
			}
			if g.spent[c.Denom].Cmp(lim) > 0 {
				viol("over-limit", fmt.Sprintf("m%d:k%d %s spent %s > limit %s in period %d", m, k, c.Denom, g.spent[c.Denom], lim, g.epoch))
			}
		}
	}
	// grants given / withdrawn by master-signed messages
	if ok {
		for _, msg := range op.msgs {
			if _, viaSession := op.auth[msg.from]; viaSession {
				continue
			}
			switch msg.kind {
			case "create":
				g := &grant{alive: true, limit: map[string]*big.Int{}, period: msg.period, expires: msg.expires,
					paths: msg.paths, epoch: now, spent: map[string]*big.Int{}}
				for _, c := range msg.coins {
					g.limit[c.Denom] = big.NewInt(c.Amount)
				}
				o.g[[2]int{msg.from, msg.key}] = g
			case "revoke":
				if g := o.g[[2]int{msg.from, msg.key}]; g != nil {
					g.alive = false
				}
			case "revokeall":
				for key, g := range o.g {
					if key[0] == msg.from {
						g.alive = false
					}
				}
			}
		}
	}
	return verdict
}
