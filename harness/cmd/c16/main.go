// Harness for C16: session keys cannot exceed their spend limit or allowed actions.
//
// The REAL gno.land application (gnoland.NewAppWithOptions over memdb: the
// production ante chain auth.NewAnteHandler + checkSessionRestrictions, the bank
// and auth handlers, the VM keeper, baseapp.runTx with its checkpoint/rollback)
// is driven through DeliverTx with really signed transactions; state is read
// back through the ABCI queries after every block.  One op = one block.
//
// op lines (see parse.go for the exact grammar; anything else answers err:badop):
//
//	realms                                prints the sink realm paths (model/harness table check)
//	time <t>                              next blocks carry block time t (unix seconds)
//	fund <acct> <coins>                   the faucet sends coins (creates the account)
//	tx <auth> <fee> <msg> [<msg> ...]     one transaction; signers are derived from the msgs;
//	                                      auth = `-` | m<i>:k<j>,...  (master i signs through session key j)
//	  msgs:  send;m<i>;<acct>;<coins>
//	         exec;m<i>;r<j>;noop|fail|grow<n>;<coins>          MsgCall to sink realm j with Send
//	         run;m<i>;noop|fail|pay@<acct>@<coins>;<coins>     MsgRun; pay = banker.SendCoins from the caller
//	         addpkg;m<i>;<coins>                               MsgAddPackage (only for session-authorised m<i>)
//	         create;m<i>;k<j>;<expires>;<period>;<limit>;<paths>   MsgCreateSession (paths: `-` | hex,hex,..)
//	         revoke;m<i>;k<j>      revokeall;m<i>
//
// output:  <result> | <dump>      result = ok | err:<abci error type>
//
//	dump = balances of m0..m2, a0..a1, every existing session of m0..m2
//	       (used, reset, sequence), and the data length of the four sink realms.
//
// oracle (independent of the model; evaluates the property statement on real
// balance deltas and the real stored session records):
//
//	over-limit          per session incarnation and spend period (the stored SpendReset value),
//	                    the sum over its session-signed txs of the master's balance decrease
//	                    exceeds the granted limit in some denom (absent denom = 0)
//	reset-early         the stored SpendReset changed although the period had not elapsed
//	                    (or to a value other than the block time)
//	dead-session        a tx authorised by an expired / revoked / never created session had an effect
//	kind-not-granted    a session-signed tx took effect although one of its session-signed
//	                    msgs is outside the granted kinds / package paths
package main

import (
	"fmt"
	"os"
	"reflect"
	"sort"
	"strconv"
	"strings"
	"time"

	"github.com/gnolang/gno/gno.land/pkg/gnoland"
	"github.com/gnolang/gno/gno.land/pkg/sdk/vm"
	"github.com/gnolang/gno/gnovm/pkg/gnolang"
	"github.com/gnolang/gno/tm2/pkg/amino"
	abci "github.com/gnolang/gno/tm2/pkg/bft/abci/types"
	bft "github.com/gnolang/gno/tm2/pkg/bft/types"
	"github.com/gnolang/gno/tm2/pkg/crypto"
	"github.com/gnolang/gno/tm2/pkg/crypto/secp256k1"
	"github.com/gnolang/gno/tm2/pkg/db/memdb"
	"github.com/gnolang/gno/tm2/pkg/sdk"
	"github.com/gnolang/gno/tm2/pkg/sdk/auth"
	"github.com/gnolang/gno/tm2/pkg/sdk/bank"
	"github.com/gnolang/gno/tm2/pkg/std"
	stypes "github.com/gnolang/gno/tm2/pkg/store/types"
	"gnoverif/kit"
)

const (
	chainID   = "verif"
	t0        = int64(1_000_000) // block time at the start of every case
	gasWanted = int64(300_000_000)
	sinkBase  = 200 // data length every sink realm is reset to
	nMasters  = 3
	nRcpts    = 2
	nKeys     = 18
	nRealms   = 4
)

var realmPaths = [nRealms]string{
	"gno.land/r/verif/sink",
	"gno.land/r/verif/sink/sub",
	"gno.land/r/verif/sinkx",
	"gno.land/r/other/box",
}

func realmSrc(name string) string {
	return "package " + name + `

import "strings"

var data string

func Noop(cur realm) {}

func Fail(cur realm) { panic("fail") }

func Grow(cur realm, n int) { data = strings.Repeat("x", n) }
`
}

// ---------------------------------------------------------------- the app

type env struct {
	app       *sdk.BaseApp
	height    int64
	faucet    crypto.PrivKey
	faucetSeq uint64
	faucetNum uint64
}

var E *env

func (e *env) query(path string, data []byte) ([]byte, bool) {
	r := e.app.Query(abci.RequestQuery{Path: path, Data: data})
	if r.Error != nil {
		return nil, false
	}
	return r.Data, true
}

type accInfo struct {
	exists bool
	num    uint64
	seq    uint64
}

func (e *env) account(addr crypto.Address) accInfo {
	bz, ok := e.query("auth/accounts/"+addr.String(), nil)
	if !ok || string(bz) == "null" {
		return accInfo{}
	}
	var acc gnoland.GnoAccount
	amino.MustUnmarshalJSON(bz, &acc)
	return accInfo{true, acc.GetAccountNumber(), acc.GetSequence()}
}

func (e *env) balances(addr crypto.Address) std.Coins {
	bz, ok := e.query("bank/balances/"+addr.String(), nil)
	if !ok {
		panic("balance query failed")
	}
	var s string
	amino.MustUnmarshalJSON(bz, &s)
	coins, err := std.ParseCoins(s)
	if err != nil {
		panic(err)
	}
	return coins
}

func (e *env) sessions(master crypto.Address) []std.Account {
	bz, ok := e.query("auth/accounts/"+master.String()+"/sessions", nil)
	if !ok {
		panic("sessions query failed")
	}
	if os.Getenv("C16_RAW") != "" {
		fmt.Fprintln(os.Stderr, string(bz))
	}
	var accs []std.Account
	amino.MustUnmarshalJSON(bz, &accs)
	return accs
}

func (e *env) session(master, sess crypto.Address) std.Account {
	bz, ok := e.query("auth/accounts/"+master.String()+"/session/"+sess.String(), nil)
	if !ok {
		return nil
	}
	var acc gnoland.GnoSessionAccount
	amino.MustUnmarshalJSON(bz, &acc)
	return &acc
}

func (e *env) sinkLen(j int) int64 {
	bz, ok := e.query("vm/qstorage", []byte(realmPaths[j]))
	if !ok {
		panic("qstorage failed")
	}
	// "storage: N, deposit: D"
	f := strings.FieldsFunc(string(bz), func(r rune) bool { return r == ' ' || r == ',' || r == ':' })
	n, err := strconv.ParseInt(f[1], 10, 64)
	if err != nil {
		panic("qstorage: " + string(bz))
	}
	return n
}

// deliver runs one block holding one tx at block time tm.
func (e *env) deliver(tx std.Tx, tm int64) abci.ResponseDeliverTx {
	e.app.BeginBlock(abci.RequestBeginBlock{Header: &bft.Header{ChainID: chainID, Height: e.height, Time: time.Unix(tm, 0)}})
	r := e.app.DeliverTx(abci.RequestDeliverTx{Tx: amino.MustMarshal(tx)})
	e.app.EndBlock(abci.RequestEndBlock{Height: e.height})
	e.app.Commit()
	e.height++
	return r
}

type signer struct {
	priv crypto.PrivKey
	num  uint64
	seq  uint64
	sess crypto.Address // zero = master-signed
}

func signTx(msgs []std.Msg, fee std.Fee, ss []signer) std.Tx {
	sigs := make([]std.Signature, len(ss))
	for i, s := range ss {
		sb, err := std.GetSignaturePayload(std.SignDoc{ChainID: chainID, AccountNumber: s.num, Sequence: s.seq, Fee: fee, Msgs: msgs})
		if err != nil {
			panic(err)
		}
		sig, err := s.priv.Sign(sb)
		if err != nil {
			panic(err)
		}
		sigs[i] = std.Signature{Signature: sig, SessionAddr: s.sess}
		if s.sess.IsZero() {
			sigs[i].PubKey = s.priv.PubKey()
		}
	}
	return std.NewTx(msgs, fee, sigs, "")
}

func (e *env) faucetTx(msgs []std.Msg, tm int64) {
	fee := std.Fee{GasWanted: gasWanted, GasFee: std.Coin{Denom: "ugnot", Amount: 1}}
	tx := signTx(msgs, fee, []signer{{priv: e.faucet, num: e.faucetNum, seq: e.faucetSeq}})
	r := e.deliver(tx, tm)
	if r.Error != nil {
		panic(fmt.Sprintf("faucet tx failed: %v %s", r.Error, r.Log))
	}
	e.faucetSeq++
}

func sortedFiles(fs ...*std.MemFile) []*std.MemFile {
	sort.Slice(fs, func(i, j int) bool { return fs[i].Name < fs[j].Name })
	return fs
}

func newEnv() *env {
	opts := gnoland.TestAppOptions(memdb.NewMemDB())
	opts.PruneStrategy = stypes.PruneEverythingStrategy
	app, err := gnoland.NewAppWithOptions(opts)
	if err != nil {
		panic(err)
	}
	e := &env{app: app.(*sdk.BaseApp), height: 1}
	e.faucet = secp256k1.GenPrivKeySecp256k1([]byte("c16-faucet"))
	faucet := e.faucet.PubKey().Address()
	gs := gnoland.DefaultGenState()
	gs.Balances = []gnoland.Balance{{Address: faucet, Amount: std.Coins{
		{Denom: "atom", Amount: 1 << 61}, {Denom: "ugnot", Amount: 1 << 61}, {Denom: "zed", Amount: 1 << 61}}}}
	if p := gs.VM.Params.StoragePrice; p != "100ugnot" {
		panic("c16 harness: vm storage price is " + p + ", the model assumes 100ugnot (Facts C16)")
	}
	for _, p := range realmPaths {
		name := p[strings.LastIndexByte(p, '/')+1:]
		gs.Txs = append(gs.Txs, gnoland.TxWithMetadata{Tx: std.Tx{
			Msgs: []std.Msg{vm.NewMsgAddPackage(faucet, p, sortedFiles(
				&std.MemFile{Name: "gnomod.toml", Body: gnolang.GenGnoModLatest(p)},
				&std.MemFile{Name: name + ".gno", Body: realmSrc(name)},
			))},
			Fee:        std.Fee{GasWanted: 1e9, GasFee: std.Coin{Amount: 1, Denom: "ugnot"}},
			Signatures: []std.Signature{{}},
		}})
	}
	resp := e.app.InitChain(abci.RequestInitChain{
		Time: time.Unix(t0, 0), ChainID: chainID,
		ConsensusParams: &abci.ConsensusParams{Block: &abci.BlockParams{MaxTxBytes: 1e6, MaxDataBytes: 2e6, MaxGas: 3e10, TimeIotaMS: 100}},
		AppState:        gs,
	})
	if resp.Error != nil {
		panic(resp.Error)
	}
	e.app.Commit()
	fi := e.account(faucet)
	e.faucetNum, e.faucetSeq = fi.num, fi.seq
	// bring every sink realm to its base length and check that the storage
	// deposit is exactly 100ugnot per byte of data (what the model assumes).
	for j := range realmPaths {
		e.faucetTx([]std.Msg{vm.NewMsgCall(faucet, nil, realmPaths[j], "Grow", []string{strconv.Itoa(sinkBase)})}, t0)
	}
	before, b0 := e.sinkLen(0), e.balances(faucet).AmountOf("ugnot")
	e.faucetTx([]std.Msg{vm.NewMsgCall(faucet, nil, realmPaths[0], "Grow", []string{strconv.Itoa(sinkBase + 1000)})}, t0)
	if d, b := e.sinkLen(0)-before, b0-e.balances(faucet).AmountOf("ugnot"); d != 1000 || b != 100*1000+1 {
		panic(fmt.Sprintf("c16 harness: growing the sink by 1000 bytes changed storage by %d and cost %d", d, b))
	}
	e.faucetTx([]std.Msg{vm.NewMsgCall(faucet, nil, realmPaths[0], "Grow", []string{strconv.Itoa(sinkBase)})}, t0)
	return e
}

// ---------------------------------------------------------------- per-case state

type caseState struct {
	no      int
	now     int64
	masters [nMasters]crypto.PrivKey
	rcpts   [nRcpts]crypto.Address
	keys    [nKeys]crypto.PrivKey
	sinkN   [nRealms]int64 // data length the harness believes each sink has
	base    [nRealms]int64 // storage size at data length sinkBase (measured at reset)
	orc     oracle
	last    snapshot
	nobs    int
}

// touch: the observation set of the n-th observed op of the case.
func (c *caseState) touch(op *txOp) touched {
	c.nobs++
	if c.nobs%8 == 1 {
		return allTouched()
	}
	return opTouched(op)
}

var C *caseState
var caseCounter int

func (c *caseState) master(i int) crypto.PrivKey {
	if c.masters[i] == nil {
		c.masters[i] = secp256k1.GenPrivKeySecp256k1([]byte(fmt.Sprintf("c16-%d-m%d", c.no, i)))
	}
	return c.masters[i]
}

func (c *caseState) key(j int) crypto.PrivKey {
	if c.keys[j] == nil {
		c.keys[j] = secp256k1.GenPrivKeySecp256k1([]byte(fmt.Sprintf("c16-%d-k%d", c.no, j)))
	}
	return c.keys[j]
}

func (c *caseState) addr(a acct) crypto.Address {
	switch a.kind {
	case 'm':
		return c.master(a.idx).PubKey().Address()
	case 'a':
		return c.rcpts[a.idx]
	default:
		return c.key(a.idx).PubKey().Address()
	}
}

var dirtySink [nRealms]bool

func reset() {
	if E == nil {
		E = newEnv()
	}
	caseCounter++
	c := &caseState{no: caseCounter, now: t0}
	for i := range c.rcpts {
		c.rcpts[i] = crypto.AddressFromPreimage([]byte(fmt.Sprintf("c16-%d-a%d", c.no, i)))
	}
	faucet := E.faucet.PubKey().Address()
	for j := range realmPaths {
		if dirtySink[j] {
			E.faucetTx([]std.Msg{vm.NewMsgCall(faucet, nil, realmPaths[j], "Grow", []string{strconv.Itoa(sinkBase)})}, t0)
			dirtySink[j] = false
		}
		c.sinkN[j] = sinkBase
		c.base[j] = E.sinkLen(j)
	}
	c.orc = newOracle()
	C = c
	C.last = takeSnapshot(nil, allTouched())
}

// ---------------------------------------------------------------- observation

type sessView struct {
	m, k   int
	used   std.Coins
	reset  int64
	seq    uint64
	num    uint64
	exists bool
}

type snapshot struct {
	bal   map[string]std.Coins // "m0", "a1", ...
	sess  []sessView
	sinks [nRealms]int64
}

// touched: what an op can have changed according to its own text.  Everything
// is re-read on every 8th op of a case (and on the first), so a change outside
// this set still shows up in the dump, a few ops later.
type touched struct {
	all     bool
	accts   map[string]bool
	masters map[int]bool
	sinks   map[int]bool
}

func allTouched() touched { return touched{all: true} }

func opTouched(op *txOp) touched {
	t := touched{accts: map[string]bool{}, masters: map[int]bool{}, sinks: map[int]bool{}}
	name := func(a acct) string { return string(a.kind) + strconv.Itoa(a.idx) }
	if op.kind == "fund" {
		t.accts[name(op.acct)] = true
		return t
	}
	for _, m := range op.msgs {
		t.accts["m"+strconv.Itoa(m.from)] = true
		t.masters[m.from] = true
		switch m.kind {
		case "send":
			t.accts[name(m.to)] = true
		case "run":
			if m.fn == "pay" {
				t.accts[name(m.to)] = true
			}
		case "exec":
			t.sinks[m.realm] = true
		}
	}
	return t
}

func takeSnapshot(prev *snapshot, t touched) snapshot {
	s := snapshot{bal: map[string]std.Coins{}}
	if prev == nil {
		t.all = true
	}
	for i := 0; i < nMasters; i++ {
		n := "m" + strconv.Itoa(i)
		if t.all || t.accts[n] {
			s.bal[n] = E.balances(C.addr(acct{'m', i}))
		} else {
			s.bal[n] = prev.bal[n]
		}
	}
	for i := 0; i < nRcpts; i++ {
		n := "a" + strconv.Itoa(i)
		if t.all || t.accts[n] {
			s.bal[n] = E.balances(C.addr(acct{'a', i}))
		} else {
			s.bal[n] = prev.bal[n]
		}
	}
	for i := 0; i < nMasters; i++ {
		if C.masters[i] == nil {
			continue
		}
		if !t.all && !t.masters[i] {
			for _, v := range prev.sess {
				if v.m == i {
					s.sess = append(s.sess, v)
				}
			}
			continue
		}
		for _, acc := range E.sessions(C.addr(acct{'m', i})) {
			da := acc.(std.DelegatedAccount)
			k := -1
			for j := 0; j < nKeys; j++ {
				if C.keys[j] != nil && C.keys[j].PubKey().Address() == acc.GetAddress() {
					k = j
				}
			}
			s.sess = append(s.sess, sessView{m: i, k: k, used: da.GetSpendUsed(), reset: da.GetSpendReset(),
				seq: acc.GetSequence(), num: acc.GetAccountNumber(), exists: true})
		}
	}
	sort.Slice(s.sess, func(a, b int) bool {
		if s.sess[a].m != s.sess[b].m {
			return s.sess[a].m < s.sess[b].m
		}
		return s.sess[a].k < s.sess[b].k
	})
	for j := range realmPaths {
		if t.all || t.sinks[j] {
			s.sinks[j] = E.sinkLen(j) - C.base[j] + sinkBase
		} else {
			s.sinks[j] = prev.sinks[j]
		}
	}
	return s
}

func coinsStr(cs std.Coins) string {
	if len(cs) == 0 {
		return "-"
	}
	parts := make([]string, len(cs))
	for i, c := range cs {
		parts[i] = c.Denom + "=" + strconv.FormatInt(c.Amount, 10)
	}
	return strings.Join(parts, "+")
}

func (s snapshot) String() string {
	var b strings.Builder
	for i := 0; i < nMasters; i++ {
		fmt.Fprintf(&b, "m%d[%s]", i, coinsStr(s.bal["m"+strconv.Itoa(i)]))
	}
	for i := 0; i < nRcpts; i++ {
		fmt.Fprintf(&b, "a%d[%s]", i, coinsStr(s.bal["a"+strconv.Itoa(i)]))
	}
	b.WriteString("|")
	for i, v := range s.sess {
		if i > 0 {
			b.WriteString(" ")
		}
		// resets are printed relative to t0; an untouched session is abbreviated
		if len(v.used) == 0 && v.seq == 0 {
			fmt.Fprintf(&b, "s%d.%d@%d", v.m, v.k, v.reset-t0)
		} else {
			fmt.Fprintf(&b, "s%d.%d[u=%s r=%d q=%d]", v.m, v.k, coinsStr(v.used), v.reset-t0, v.seq)
		}
	}
	fmt.Fprintf(&b, "|n=%d,%d,%d,%d", s.sinks[0], s.sinks[1], s.sinks[2], s.sinks[3])
	return b.String()
}

func (s snapshot) findSess(m, k int) (sessView, bool) {
	for _, v := range s.sess {
		if v.m == m && v.k == k {
			return v, true
		}
	}
	return sessView{}, false
}

// ---------------------------------------------------------------- exec

var profN int
var profT [3]time.Duration

func prof(a, b, c time.Duration) {
	if os.Getenv("C16_PROF") == "" {
		return
	}
	profT[0] += a
	profT[1] += b
	profT[2] += c
	profN++
	if profN%200 == 0 {
		fmt.Fprintf(os.Stderr, "prof n=%d build+sign=%v deliver=%v snapshot=%v\n", profN, profT[0], profT[1], profT[2])
	}
}

func errClass(e abci.Error) string {
	if e == nil {
		return "ok"
	}
	t := reflect.TypeOf(e)
	name := t.String()
	if i := strings.LastIndexByte(name, '.'); i >= 0 {
		name = name[i+1:]
	}
	return "err:" + name
}

func exec(toks []string) (string, string) {
	if C == nil {
		reset()
	}
	if len(toks) == 1 && toks[0] == "realms" {
		return strings.Join(realmPaths[:], ","), "-"
	}
	op, ok := parseOp(toks)
	if !ok {
		return "err:badop", "-"
	}
	switch op.kind {
	case "time":
		C.now = op.t
		return "ok", "-"
	case "fund":
		faucet := E.faucet.PubKey().Address()
		E.faucetTx([]std.Msg{bank.NewMsgSend(faucet, C.addr(op.acct), op.coins)}, C.now)
		C.last = takeSnapshot(&C.last, C.touch(op))
		return "ok | " + C.last.String(), "-"
	}
	// tx
	tStart := time.Now()
	msgs, signers := buildMsgs(op)
	fee := std.Fee{GasWanted: gasWanted, GasFee: op.fee}
	ss := make([]signer, len(signers))
	for i, m := range signers {
		priv := C.master(m)
		maddr := priv.PubKey().Address()
		if k, viaSession := op.auth[m]; viaSession {
			kp := C.key(k)
			saddr := kp.PubKey().Address()
			s := signer{priv: kp, sess: saddr}
			if acc := E.session(maddr, saddr); acc != nil {
				s.num, s.seq = acc.GetAccountNumber(), acc.GetSequence()
			}
			ss[i] = s
		} else {
			ai := E.account(maddr)
			ss[i] = signer{priv: priv, num: ai.num, seq: ai.seq}
		}
	}
	// Sign what the chain will verify: the messages as they come out of the amino
	// round trip (ParseCoins re-sorts coin sets and drops a lone zero coin).  A tx
	// that does not decode is delivered as it is.
	var tx std.Tx
	if err := amino.Unmarshal(amino.MustMarshal(std.NewTx(msgs, fee, make([]std.Signature, len(ss)), "")), &tx); err != nil {
		tx = signTx(msgs, fee, ss)
	} else {
		tx = signTx(tx.Msgs, tx.Fee, ss)
	}
	for _, m := range op.msgs {
		if m.kind == "exec" {
			dirtySink[m.realm] = true
		}
	}
	tA := time.Now()
	res := E.deliver(tx, C.now)
	tB := time.Now()
	after := takeSnapshot(&C.last, C.touch(op))
	prof(tA.Sub(tStart), tB.Sub(tA), time.Since(tB))
	verdict := C.orc.judge(op, signers, res.Error == nil, C.last, after, C.now)
	C.last = after
	if os.Getenv("C16_LOG") != "" && res.Error != nil {
		fmt.Fprintln(os.Stderr, strings.Join(toks, " "), "=>", res.Log)
	}
	return errClass(res.Error) + " | " + after.String(), verdict
}

// buildMsgs turns the parsed msgs into real messages and derives the signer
// order exactly as std.Tx.GetSigners does (first appearance).
func buildMsgs(op *txOp) ([]std.Msg, []int) {
	var msgs []std.Msg
	for _, m := range op.msgs {
		switch m.kind {
		case "send":
			msgs = append(msgs, bank.NewMsgSend(C.addr(acct{'m', m.from}), C.addr(m.to), m.coins))
		case "exec":
			fn, args := "Noop", []string(nil)
			switch {
			case m.fn == "fail":
				fn = "Fail"
			case m.fn == "grow":
				fn, args = "Grow", []string{strconv.FormatInt(m.n, 10)}
			}
			msgs = append(msgs, vm.NewMsgCall(C.addr(acct{'m', m.from}), m.coins, realmPaths[m.realm], fn, args))
		case "run":
			body := "package main\n\nfunc main() {}\n"
			switch m.fn {
			case "fail":
				body = "package main\n\nfunc main() { panic(\"fail\") }\n"
			case "pay":
				var lits []string
				for _, c := range m.pay {
					lits = append(lits, fmt.Sprintf("chain.Coin{Denom: %q, Amount: %d}", c.Denom, c.Amount))
				}
				body = fmt.Sprintf(`package main

import (
	"chain"
	"chain/banker"
)

func main(cur realm) {
	b := banker.NewBanker(banker.BankerTypeRealmSend, cur)
	b.SendCoins(cur.Address(), address(%q), chain.Coins{%s})
}
`, C.addr(m.to).String(), strings.Join(lits, ", "))
			}
			msgs = append(msgs, vm.NewMsgRun(C.addr(acct{'m', m.from}), m.coins, []*std.MemFile{{Name: "main.gno", Body: body}}))
		case "addpkg":
			p := fmt.Sprintf("gno.land/r/verif/c%dx%d", C.no, E.height)
			am := vm.NewMsgAddPackage(C.addr(acct{'m', m.from}), p, []*std.MemFile{
				{Name: "gnomod.toml", Body: gnolang.GenGnoModLatest(p)},
				{Name: "p.gno", Body: "package c" + strconv.Itoa(C.no) + "x" + strconv.FormatInt(E.height, 10) + "\n"},
			})
			am.Send = m.coins
			msgs = append(msgs, am)
		case "create":
			msgs = append(msgs, auth.MsgCreateSession{Creator: C.addr(acct{'m', m.from}), SessionKey: C.key(m.key).PubKey(),
				ExpiresAt: m.expires, AllowPaths: m.paths, SpendLimit: m.coins, SpendPeriod: m.period})
		case "revoke":
			msgs = append(msgs, auth.MsgRevokeSession{Creator: C.addr(acct{'m', m.from}), SessionKey: C.key(m.key).PubKey()})
		case "revokeall":
			msgs = append(msgs, auth.MsgRevokeAllSessions{Creator: C.addr(acct{'m', m.from})})
		}
	}
	return msgs, op.signers()
}

func main() {
	kit.Main(&kit.Harness{Gen: gen, Reset: func() {
		if len(os.Args) > 1 && os.Args[1] == "exec" {
			reset()
		}
	}, Exec: exec})
}
