package main

// Strict parser of the C16 op lines.  The Lean driver (Drive/C16.lean) parses
// the same grammar; everything outside it is `err:badop` on both sides.
//
//	int     := -?[0-9]{1,19}, |v| <= 2^63-1
//	denom   := [A-Za-z/][A-Za-z0-9_.:/-]{0,19}
//	coins   := `-` | denom=int(+denom=int)*            (at most 4 coins)
//	acct    := m[0-2] | a[0-1] | k[0-17]
//	auth    := `-` | m<i>:k<j>(,m<i>:k<j>)*            (each master at most once)
//	fee     := denom=int
//	paths   := `-` | hex(,hex)*   (hex = lowercase hex of the entry, `e` = empty entry; at most 10 entries of at most 64 bytes)
//	time    : 0 <= t < 2^40       fund: valid positive amounts <= 2^50
//	grow<n> : 200 <= n <= 5000    tx: 0..6 msgs

import (
	"strconv"
	"strings"

	"github.com/gnolang/gno/tm2/pkg/std"
	"gnoverif/kit"
)

type acct struct {
	kind byte // 'm', 'a', 'k'
	idx  int
}

type msgOp struct {
	kind    string
	from    int // master index
	to      acct
	coins   std.Coins
	realm   int
	fn      string // noop | fail | grow | pay
	n       int64
	pay     std.Coins
	key     int
	expires int64
	period  int64
	paths   []string
}

type txOp struct {
	kind  string // time | fund | tx
	t     int64
	acct  acct
	coins std.Coins
	auth  map[int]int
	fee   std.Coin
	msgs  []msgOp
}

func pInt(s string) (int64, bool) {
	ds := s
	if strings.HasPrefix(ds, "-") {
		ds = ds[1:]
	}
	if len(ds) == 0 || len(ds) > 19 {
		return 0, false
	}
	for _, c := range ds {
		if c < '0' || c > '9' {
			return 0, false
		}
	}
	v, err := strconv.ParseInt(s, 10, 64)
	if err != nil || v == -1<<63 {
		return 0, false
	}
	return v, true
}

func pIdx(s string, n int) (int, bool) {
	if len(s) == 0 || len(s) > 2 || (len(s) == 2 && s[0] == '0') {
		return 0, false
	}
	v := 0
	for _, c := range s {
		if c < '0' || c > '9' {
			return 0, false
		}
		v = v*10 + int(c-'0')
	}
	return v, v < n
}

func pAcct(s string) (acct, bool) {
	if len(s) < 2 {
		return acct{}, false
	}
	var n int
	switch s[0] {
	case 'm':
		n = nMasters
	case 'a':
		n = nRcpts
	case 'k':
		n = nKeys
	default:
		return acct{}, false
	}
	i, ok := pIdx(s[1:], n)
	return acct{s[0], i}, ok
}

func pMaster(s string) (int, bool) {
	a, ok := pAcct(s)
	return a.idx, ok && a.kind == 'm'
}

func pKey(s string) (int, bool) {
	a, ok := pAcct(s)
	return a.idx, ok && a.kind == 'k'
}

func denomOK(s string) bool {
	if len(s) == 0 || len(s) > 20 {
		return false
	}
	if c := s[0]; !(c >= 'a' && c <= 'z' || c >= 'A' && c <= 'Z' || c == '/') {
		return false
	}
	for _, c := range s {
		switch {
		case c >= 'a' && c <= 'z', c >= 'A' && c <= 'Z', c >= '0' && c <= '9':
		case c == '_', c == '.', c == ':', c == '/', c == '-':
		default:
			return false
		}
	}
	return true
}

func pCoin(s string) (std.Coin, bool) {
	i := strings.IndexByte(s, '=')
	if i < 0 {
		return std.Coin{}, false
	}
	d, a := s[:i], s[i+1:]
	v, ok := pInt(a)
	if !ok || !denomOK(d) {
		return std.Coin{}, false
	}
	return std.Coin{Denom: d, Amount: v}, true
}

func pCoins(s string) (std.Coins, bool) {
	if s == "-" {
		return nil, true
	}
	parts := strings.Split(s, "+")
	if len(parts) > 4 {
		return nil, false
	}
	var cs std.Coins
	for _, p := range parts {
		c, ok := pCoin(p)
		if !ok {
			return nil, false
		}
		cs = append(cs, c)
	}
	return cs, true
}

func pPaths(s string) ([]string, bool) {
	if s == "-" {
		return nil, true
	}
	items := strings.Split(s, ",")
	if len(items) > 10 {
		return nil, false
	}
	var out []string
	for _, it := range items {
		if it == "-" || it == "" {
			return nil, false
		}
		for _, c := range it {
			if c >= 'A' && c <= 'F' {
				return nil, false
			}
		}
		b, err := kit.UnHex(it)
		if err != nil || len(b) > 64 {
			return nil, false
		}
		for _, c := range b {
			if c < 0x20 || c > 0x7e {
				return nil, false
			}
		}
		out = append(out, string(b))
	}
	return out, true
}

func pMsg(s string, auth map[int]int) (msgOp, bool) {
	f := strings.Split(s, ";")
	bad := msgOp{}
	switch f[0] {
	case "send":
		if len(f) != 4 {
			return bad, false
		}
		from, ok1 := pMaster(f[1])
		to, ok2 := pAcct(f[2])
		cs, ok3 := pCoins(f[3])
		return msgOp{kind: "send", from: from, to: to, coins: cs}, ok1 && ok2 && ok3
	case "exec":
		if len(f) != 5 || len(f[2]) != 2 || f[2][0] != 'r' {
			return bad, false
		}
		from, ok1 := pMaster(f[1])
		r, ok2 := pIdx(f[2][1:], nRealms)
		cs, ok3 := pCoins(f[4])
		m := msgOp{kind: "exec", from: from, realm: r, coins: cs, fn: f[3]}
		if strings.HasPrefix(f[3], "grow") {
			n, ok := pInt(f[3][4:])
			if !ok || n < 200 || n > 5000 {
				return bad, false
			}
			m.fn, m.n = "grow", n
		} else if f[3] != "noop" && f[3] != "fail" {
			return bad, false
		}
		return m, ok1 && ok2 && ok3
	case "run":
		if len(f) != 4 {
			return bad, false
		}
		from, ok1 := pMaster(f[1])
		cs, ok3 := pCoins(f[3])
		m := msgOp{kind: "run", from: from, coins: cs, fn: f[2]}
		if strings.HasPrefix(f[2], "pay@") {
			g := strings.Split(f[2], "@")
			if len(g) != 3 {
				return bad, false
			}
			to, ok := pAcct(g[1])
			pay, ok2 := pCoins(g[2])
			if !ok || !ok2 {
				return bad, false
			}
			m.fn, m.to, m.pay = "pay", to, pay
		} else if f[2] != "noop" && f[2] != "fail" {
			return bad, false
		}
		return m, ok1 && ok3
	case "addpkg":
		if len(f) != 3 {
			return bad, false
		}
		from, ok1 := pMaster(f[1])
		cs, ok3 := pCoins(f[2])
		if _, viaSession := auth[from]; !viaSession {
			return bad, false
		}
		return msgOp{kind: "addpkg", from: from, coins: cs}, ok1 && ok3
	case "create":
		if len(f) != 7 {
			return bad, false
		}
		from, ok1 := pMaster(f[1])
		k, ok2 := pKey(f[2])
		ex, ok3 := pInt(f[3])
		pe, ok4 := pInt(f[4])
		cs, ok5 := pCoins(f[5])
		ps, ok6 := pPaths(f[6])
		return msgOp{kind: "create", from: from, key: k, expires: ex, period: pe, coins: cs, paths: ps}, ok1 && ok2 && ok3 && ok4 && ok5 && ok6
	case "revoke":
		if len(f) != 3 {
			return bad, false
		}
		from, ok1 := pMaster(f[1])
		k, ok2 := pKey(f[2])
		return msgOp{kind: "revoke", from: from, key: k}, ok1 && ok2
	case "revokeall":
		if len(f) != 2 {
			return bad, false
		}
		from, ok1 := pMaster(f[1])
		return msgOp{kind: "revokeall", from: from}, ok1
	}
	return bad, false
}

func parseOp(t []string) (*txOp, bool) {
	if len(t) == 0 {
		return nil, false
	}
	switch t[0] {
	case "time":
		if len(t) != 2 {
			return nil, false
		}
		v, ok := pInt(t[1])
		if !ok || v < 0 || v >= 1<<40 {
			return nil, false
		}
		return &txOp{kind: "time", t: v}, true
	case "fund":
		if len(t) != 3 {
			return nil, false
		}
		a, ok1 := pAcct(t[1])
		cs, ok2 := pCoins(t[2])
		if !ok1 || !ok2 || len(cs) == 0 || !cs.IsValid() {
			return nil, false
		}
		for _, c := range cs {
			if c.Amount > 1<<50 {
				return nil, false
			}
		}
		return &txOp{kind: "fund", acct: a, coins: cs}, true
	case "tx":
		if len(t) < 3 || len(t) > 9 {
			return nil, false
		}
		op := &txOp{kind: "tx", auth: map[int]int{}}
		if t[1] != "-" {
			for _, it := range strings.Split(t[1], ",") {
				i := strings.IndexByte(it, ':')
				if i < 0 {
					return nil, false
				}
				m, ok1 := pMaster(it[:i])
				k, ok2 := pKey(it[i+1:])
				if !ok1 || !ok2 {
					return nil, false
				}
				if _, dup := op.auth[m]; dup {
					return nil, false
				}
				op.auth[m] = k
			}
		}
		fee, ok := pCoin(t[2])
		if !ok {
			return nil, false
		}
		op.fee = fee
		for _, ms := range t[3:] {
			m, ok := pMsg(ms, op.auth)
			if !ok {
				return nil, false
			}
			op.msgs = append(op.msgs, m)
		}
		return op, true
	}
	return nil, false
}

// msgSigners mirrors Msg.GetSigners for the message kinds used here.
func (m msgOp) msgSigners() []int {
	return []int{m.from}
}

// signers mirrors std.Tx.GetSigners (first appearance, duplicates dropped).
func (op *txOp) signers() []int {
	seen := map[int]bool{}
	var out []int
	for _, m := range op.msgs {
		for _, s := range m.msgSigners() {
			if !seen[s] {
				seen[s] = true
				out = append(out, s)
			}
		}
	}
	return out
}
