package main

import "gnoverif/kit"

func gen(w *kit.Out, r *kit.Rand, tier string) {
	w.Case("stub")
	w.Op("time 1000000")
}
