package main

// Generator for C16: boundary table first, then structured random histories
// (mostly valid), then a malformed stream.  Every random choice comes from the
// one *kit.Rand.  The generator never touches the application.

import (
	"encoding/hex"
	"fmt"
	"strings"

	"gnoverif/kit"
)

func hx(s string) string {
	if s == "" {
		return "e"
	}
	return hex.EncodeToString([]byte(s))
}

func paths(ps ...string) string {
	if len(ps) == 0 {
		return "-"
	}
	out := make([]string, len(ps))
	for i, p := range ps {
		out[i] = hx(p)
	}
	return strings.Join(out, ",")
}

const (
	maxI64  = "9223372036854775807"
	rSink   = "gno.land/r/verif/sink"
	rVerif  = "gno.land/r/verif"
	maxDur  = 126144000
	maxPer  = 2592000
	wildAll = "*"
)

func create(m, k int, expires, period int64, limit string, ps string) string {
	return fmt.Sprintf("tx - ugnot=1 create;m%d;k%d;%d;%d;%s;%s", m, k, expires, period, limit, ps)
}

// boundary cases: each is a list of op lines.
func boundary() map[string][]string {
	all := paths(wildAll)
	b := map[string][]string{}
	b["00-limit-exact-and-period-edges"] = []string{
		"realms",
		"fund m0 ugnot=100000",
		create(0, 0, 0, 100, "ugnot=1000", all),
		"tx m0:k0 ugnot=1 send;m0;a0;ugnot=499",
		"tx m0:k0 ugnot=1 send;m0;a0;ugnot=499",
		"tx m0:k0 ugnot=1 send;m0;a0;ugnot=1",
		"time 1000099",
		"tx m0:k0 ugnot=1 send;m0;a0;ugnot=1",
		"time 1000100",
		"tx m0:k0 ugnot=1 send;m0;a0;ugnot=998",
		"tx m0:k0 ugnot=1 send;m0;a0;ugnot=1",
		"tx m0:k0 ugnot=1 exec;m0;r0;noop;-",
		"time 1000199",
		"tx m0:k0 ugnot=1 exec;m0;r0;noop;-",
		"time 1000200",
		"tx m0:k0 ugnot=1 exec;m0;r0;noop;-",
		"time 1000500",
		"tx m0:k0 ugnot=1000 exec;m0;r0;noop;-",
		"time 1000599",
		"tx m0:k0 ugnot=1 exec;m0;r0;noop;-",
		"time 1000600",
		"tx m0:k0 ugnot=1001 exec;m0;r0;noop;-",
		"tx m0:k0 ugnot=999 exec;m0;r0;noop;ugnot=1",
	}
	b["01-lifetime-cap"] = []string{
		"fund m0 ugnot=100000",
		create(0, 0, 0, 0, "ugnot=100", all),
		"tx m0:k0 ugnot=1 send;m0;a0;ugnot=49",
		"time 5000000",
		"tx m0:k0 ugnot=1 send;m0;a0;ugnot=49",
		"time 900000000",
		"tx m0:k0 ugnot=1 send;m0;a0;ugnot=1",
		"tx m0:k0 ugnot=1 exec;m0;r3;noop;-",
	}
	b["02-expiry"] = []string{
		"fund m0 ugnot=100000",
		create(0, 0, 1000050, 10, "ugnot=100", all),
		"time 1000049",
		"tx m0:k0 ugnot=1 send;m0;a0;ugnot=5",
		"time 1000050",
		"tx m0:k0 ugnot=1 send;m0;a0;ugnot=5",
		"time 1000051",
		"tx m0:k0 ugnot=1 send;m0;a0;ugnot=5",
		"time 1000049",
		"tx m0:k0 ugnot=1 send;m0;a0;ugnot=5",
		"tx - ugnot=1 revoke;m0;k0",
		"tx m0:k0 ugnot=1 send;m0;a0;ugnot=5",
	}
	b["03-create-validation"] = []string{
		"fund m0 ugnot=100000",
		create(0, 0, 1000000, 0, "ugnot=5", all),
		create(0, 0, 999999, 0, "ugnot=5", all),
		create(0, 0, -1, 0, "ugnot=5", all),
		create(0, 0, 1000001, 0, "ugnot=5", all),
		create(0, 1, 1000000+maxDur, 0, "ugnot=5", all),
		create(0, 2, 1000000+maxDur+1, 0, "ugnot=5", all),
		create(0, 2, 0, maxPer, "ugnot=5", all),
		create(0, 3, 0, maxPer+1, "ugnot=5", all),
		create(0, 3, 0, -1, "ugnot=5", all),
		create(0, 3, 0, 0, "ugnot=5", "-"),
		create(0, 3, 0, 0, "ugnot=5", paths("*", "*", "*", "*", "*", "*", "*", "*", "*")),
		create(0, 3, 0, 0, "ugnot=5", paths("*", "bank/send", "vm/run", "vm/exec", "bank/multisend", "vm/exec:"+rSink, "*", "*")),
		create(0, 4, 0, 0, "ugnot=5", paths("")),
		create(0, 4, 0, 0, "ugnot=5", paths("bank/send", "")),
		create(0, 4, 0, 0, "ugnot=5", paths("vm/exec:"+rSink+"/")),
		create(0, 4, 0, 0, "ugnot=5", paths("vm/exec/")),
		create(0, 4, 0, 0, "ugnot=5", paths("bank")),
		create(0, 4, 0, 0, "ugnot=5", paths("auth/create_session")),
		create(0, 4, 0, 0, "ugnot=5", paths("vm/add_package")),
		create(0, 4, 0, 0, "ugnot=5", paths("*:"+rSink)),
		create(0, 4, 0, 0, "ugnot=5", paths("bank/send:"+rSink)),
		create(0, 4, 0, 0, "ugnot=5", paths("vm/run:"+rSink)),
		create(0, 4, 0, 0, "ugnot=5", paths("vm/exec:")),
		create(0, 4, 0, 0, "ugnot=5", paths("vm/exec:a:b")),
		create(0, 5, 0, 0, "ugnot=5", paths(" *")),
		create(0, 5, 0, 0, "ugnot=5", paths("VM/exec")),
		create(0, 0, 0, 0, "ugnot=5", all),
		"fund k6 ugnot=1",
		create(0, 6, 0, 0, "ugnot=5", all),
		create(0, 7, 0, 0, "-", all),
		create(0, 8, 0, 0, "ugnot=0", all),
		create(0, 9, 0, 0, "ugnot=5+atom=6", all),
		create(0, 10, 0, 0, "ugnot=5+ugnot=6", all),
		create(0, 10, 0, 0, "ugnot=-5", all),
		create(0, 10, 0, 0, "Ugnot=5", all),
		create(0, 10, 0, 0, "ug=5", all),
		create(0, 10, 0, 0, "ugnot="+maxI64, all),
		"tx m0:k9 atom=1 send;m0;a0;ugnot=1",
		"tx m0:k9 ugnot=6 send;m0;a0;ugnot=1",
		"tx m0:k9 ugnot=5 exec;m0;r0;noop;-",
	}
	var lim []string
	lim = append(lim, "fund m0 ugnot=100000")
	for k := 0; k < 17; k++ {
		lim = append(lim, create(0, k, 0, 0, "ugnot=5", all))
	}
	lim = append(lim, "tx - ugnot=1 revoke;m0;k3", create(0, 16, 0, 0, "ugnot=5", all), create(0, 3, 0, 0, "ugnot=5", all),
		"fund m1 ugnot=1000", create(1, 0, 0, 0, "ugnot=5", all),
		"tx - ugnot=1 revokeall;m0", "tx m0:k5 ugnot=1 send;m0;a0;ugnot=1", "tx m1:k0 ugnot=1 send;m1;a0;ugnot=1",
		create(0, 3, 0, 0, "ugnot=5", all), "tx - ugnot=1 revoke;m0;k4", "tx - ugnot=1 revokeall;m0", "tx - ugnot=1 revokeall;m0")
	b["04-session-count-limit"] = lim
	b["05-denoms"] = []string{
		"fund m0 atom=500+ugnot=100000+zed=500",
		"fund m1 ugnot=100000",
		create(0, 0, 0, 50, "ugnot=100", all),
		"tx m0:k0 ugnot=1 send;m0;a0;atom=5",
		"tx m0:k0 atom=1 send;m0;a0;ugnot=5",
		"tx m0:k0 ugnot=1 send;m0;a0;ugnot=5+zed=1",
		create(0, 1, 0, 50, "atom=10+ugnot=100", all),
		"tx m0:k1 atom=1 send;m0;a0;ugnot=5",
		"tx m0:k1 atom=1 send;m0;a0;atom=9",
		"tx m0:k1 atom=1 send;m0;a0;atom=8",
		"tx m0:k1 ugnot=1 send;m0;a0;atom=8+ugnot=3",
		"tx m0:k1 ugnot=1 send;m0;a0;ugnot=3+atom=8",
		"tx m0:k1 ugnot=1 send;m0;a0;zed=1",
		"tx m0:k1 zed=1 send;m0;a0;ugnot=1",
		"tx m0:k1 foo=1 send;m0;a0;ugnot=1",
		create(0, 2, 0, 0, "-", all),
		"tx m0:k2 ugnot=1 exec;m0;r0;noop;-",
		"tx m0:k2 ugnot=1",
		"tx - ugnot=1",
		"tx m0:k2 ugnot=0 exec;m0;r0;noop;-",
		"tx m0:k2 ugnot=-1 exec;m0;r0;noop;-",
		"tx m0:k2 ugnot=1 send;m1;a0;ugnot=1 exec;m0;r0;noop;-",
		"tx m0:k2 ugnot=1 send;m1;a0;ugnot=1 exec;m0;r0;noop;ugnot=1",
		"tx m0:k2 ugnot=1 send;m1;a0;ugnot=1 exec;m0;r0;grow201;-",
		"tx m0:k2 ugnot=1 send;m1;a0;ugnot=1 run;m0;noop;-",
		"tx m0:k2 ugnot=1 send;m1;a0;ugnot=1 run;m0;pay@a1@-;-",
		"tx m0:k2 ugnot=1 send;m1;a0;ugnot=1 run;m0;pay@a1@ugnot=0;-",
		"tx m0:k2 ugnot=1 send;m1;a0;ugnot=1 run;m0;pay@a1@ugnot=1;-",
	}
	b["06-rollback-of-failed-messages"] = []string{
		"fund m0 ugnot=1000",
		create(0, 0, 0, 0, "ugnot=100000", all),
		"tx m0:k0 ugnot=2 send;m0;a0;ugnot=10 send;m0;a0;ugnot=5000",
		"tx m0:k0 ugnot=2 send;m0;a0;ugnot=10 exec;m0;r0;fail;ugnot=3",
		"tx m0:k0 ugnot=2 send;m0;a0;ugnot=10 run;m0;fail;ugnot=3",
		"tx m0:k0 ugnot=2 exec;m0;r0;grow300;ugnot=3 exec;m0;r0;fail;-",
		"tx m0:k0 ugnot=2 send;m0;a0;ugnot=10 send;m0;a1;ugnot=20 exec;m0;r1;noop;ugnot=4",
		"tx m0:k0 ugnot=2000 send;m0;a0;ugnot=1",
		"tx m0:k0 ugnot=936 send;m0;a0;ugnot=1",
		"tx m0:k0 ugnot=935 send;m0;a0;ugnot=1",
		"tx m0:k0 ugnot=1 send;m0;a0;ugnot=1",
		"fund m0 ugnot=10",
		"tx m0:k0 ugnot=1 send;m0;a0;ugnot=10",
		"tx m0:k0 ugnot=1 send;m0;m0;ugnot=9",
		"tx m0:k0 ugnot=1 send;m0;k5;ugnot=1",
	}
	b["07-storage-deposit"] = []string{
		"fund m0 ugnot=1000000",
		create(0, 0, 0, 100, "ugnot=1000", all),
		"tx m0:k0 ugnot=1 exec;m0;r0;grow209;-",
		"tx m0:k0 ugnot=1 exec;m0;r0;grow210;-",
		"tx m0:k0 ugnot=1 exec;m0;r0;grow209;-",
		"tx m0:k0 ugnot=1 exec;m0;r0;grow200;-",
		"tx m0:k0 ugnot=1 exec;m0;r0;grow200;-",
		"time 1000100",
		"tx m0:k0 ugnot=1 exec;m0;r1;grow209;ugnot=99",
		"tx m0:k0 ugnot=1 exec;m0;r1;grow210;-",
		"tx m0:k0 ugnot=1 exec;m0;r1;grow5000;-",
		"tx m0:k0 ugnot=1 exec;m0;r2;grow201;- exec;m0;r3;grow201;- exec;m0;r2;grow200;-",
		create(0, 1, 0, 0, "ugnot=100000000", all),
		"tx m0:k1 ugnot=1 exec;m0;r0;grow5000;-",
		"tx m0:k1 ugnot=1 exec;m0;r0;grow200;-",
		"tx - ugnot=1 exec;m0;r0;grow5000;-",
		"tx m0:k1 ugnot=1 exec;m0;r0;grow200;-",
		"fund m1 ugnot=100",
		create(1, 0, 0, 0, "ugnot=100000000", all),
		"tx m1:k0 ugnot=1 exec;m1;r0;grow201;-",
	}
	b["08-run-scripts"] = []string{
		"fund m0 atom=50+ugnot=100000",
		create(0, 0, 0, 0, "atom=20+ugnot=1000", all),
		"tx m0:k0 ugnot=1 run;m0;noop;-",
		"tx m0:k0 ugnot=1 run;m0;noop;ugnot=100",
		"tx m0:k0 ugnot=1 run;m0;pay@a0@ugnot=100;-",
		"tx m0:k0 ugnot=1 run;m0;pay@a0@atom=5+ugnot=100;ugnot=5",
		"tx m0:k0 ugnot=1 run;m0;pay@a0@ugnot=100+atom=5;-",
		"tx m0:k0 ugnot=1 run;m0;pay@a0@ugnot=5+ugnot=5;-",
		"tx m0:k0 ugnot=1 run;m0;pay@a0@ugnot=-5;-",
		"tx m0:k0 ugnot=1 run;m0;pay@a0@atom=-5+ugnot=5;-",
		"tx m0:k0 ugnot=1 run;m0;pay@a0@ugnot=0;-",
		"tx m0:k0 ugnot=1 run;m0;pay@a0@atom=0+ugnot=5;-",
		"tx m0:k0 ugnot=1 run;m0;pay@a0@UG=5;-",
		"tx m0:k0 ugnot=1 run;m0;pay@a0@zed=5;-",
		"tx m0:k0 ugnot=1 run;m0;pay@m0@ugnot=5;-",
		"tx m0:k0 ugnot=1 run;m0;pay@a0@ugnot=1000;-",
		"tx m0:k0 ugnot=1 run;m0;pay@a0@ugnot=" + maxI64 + ";-",
		"tx - ugnot=1 run;m0;pay@a0@ugnot=-5;-",
		"tx - ugnot=1 run;m0;pay@a0@ugnot=7;-",
		"tx - ugnot=1 run;m0;pay@a0@ugnot=99999999;-",
	}
	b["09-allow-paths"] = []string{
		"fund m0 ugnot=100000",
		create(0, 0, 0, 0, "ugnot=1000", paths("vm/exec:"+rSink)),
		"tx m0:k0 ugnot=1 exec;m0;r0;noop;-",
		"tx m0:k0 ugnot=1 exec;m0;r1;noop;-",
		"tx m0:k0 ugnot=1 exec;m0;r2;noop;-",
		"tx m0:k0 ugnot=1 exec;m0;r3;noop;-",
		"tx m0:k0 ugnot=1 send;m0;a0;ugnot=1",
		"tx m0:k0 ugnot=1 run;m0;noop;-",
		"tx m0:k0 ugnot=1 exec;m0;r0;noop;- exec;m0;r2;noop;-",
		create(0, 1, 0, 0, "ugnot=1000", paths("vm/exec:"+rVerif)),
		"tx m0:k1 ugnot=1 exec;m0;r0;noop;- exec;m0;r1;noop;- exec;m0;r2;noop;-",
		"tx m0:k1 ugnot=1 exec;m0;r3;noop;-",
		create(0, 2, 0, 0, "ugnot=1000", paths("vm/exec:gno.land/r/verif/sin", "vm/exec:gno.land/r/verif/sink/su", "vm/exec:gno.land")),
		"tx m0:k2 ugnot=1 exec;m0;r0;noop;-",
		"tx m0:k2 ugnot=1 exec;m0;r3;noop;-",
		create(0, 3, 0, 0, "ugnot=1000", paths("bank/send")),
		"tx m0:k3 ugnot=1 send;m0;a0;ugnot=1",
		"tx m0:k3 ugnot=1 exec;m0;r0;noop;-",
		"tx m0:k3 ugnot=1 run;m0;noop;-",
		create(0, 4, 0, 0, "ugnot=1000", paths("vm/run", "vm/exec:gno.land/r/other/box")),
		"tx m0:k4 ugnot=1 run;m0;pay@a0@ugnot=3;-",
		"tx m0:k4 ugnot=1 exec;m0;r3;noop;-",
		"tx m0:k4 ugnot=1 exec;m0;r0;noop;-",
		"tx m0:k4 ugnot=1 send;m0;a0;ugnot=1",
		create(0, 5, 0, 0, "ugnot=1000", paths("vm/exec")),
		"tx m0:k5 ugnot=1 exec;m0;r2;noop;- exec;m0;r3;noop;-",
		create(0, 6, 0, 0, "ugnot=1000", paths("bank/multisend", "*")),
		"tx m0:k6 ugnot=1 send;m0;a0;ugnot=1 exec;m0;r3;noop;- run;m0;noop;-",
		"tx m0:k6 ugnot=1 addpkg;m0;-",
		"tx m0:k6 ugnot=1 addpkg;m0;ugnot=5",
		"tx m0:k6 ugnot=1 revoke;m0;k0",
		"tx m0:k6 ugnot=1 revokeall;m0",
		"tx m0:k6 ugnot=1 " + strings.TrimPrefix(create(0, 9, 0, 0, "ugnot=1000000", all), "tx - ugnot=1 "),
		"tx m0:k6 ugnot=1 send;m0;a0;ugnot=1 revokeall;m0",
	}
	b["10-multi-signer"] = []string{
		"fund m0 ugnot=1000",
		"fund m1 ugnot=1000",
		"fund m2 ugnot=1000",
		create(0, 0, 0, 0, "ugnot=50", all),
		create(1, 1, 0, 0, "ugnot=50", paths("bank/send")),
		"tx m0:k0,m1:k1 ugnot=1 send;m0;a0;ugnot=5 send;m1;a0;ugnot=6",
		"tx m0:k0,m1:k1 ugnot=1 send;m1;a0;ugnot=5 send;m0;a0;ugnot=6",
		"tx m0:k0,m1:k1 ugnot=1 send;m2;a0;ugnot=5 send;m0;a0;ugnot=6 send;m1;a1;ugnot=7",
		"tx m0:k0,m1:k1 ugnot=1 send;m2;a0;ugnot=5 send;m0;a0;ugnot=60",
		"tx m0:k0,m1:k1 ugnot=1 send;m0;a0;ugnot=5 send;m1;a0;ugnot=60",
		"tx m0:k0,m1:k1 ugnot=40 send;m1;a0;ugnot=1 send;m0;a0;ugnot=1",
		"tx m0:k0,m1:k1 ugnot=1 send;m0;a0;ugnot=1 exec;m1;r0;noop;-",
		"tx m0:k0,m1:k5 ugnot=1 send;m0;a0;ugnot=1 send;m1;a0;ugnot=1",
		"tx m0:k0 ugnot=1 send;m0;a0;ugnot=1 send;m1;m0;ugnot=100 send;m0;a0;ugnot=20",
		"tx m0:k0,m2:k0 ugnot=1 send;m0;a0;ugnot=1 send;m2;a0;ugnot=1",
	}
	b["11-overflow"] = []string{
		"fund m0 ugnot=100000",
		create(0, 0, 0, 0, "ugnot="+maxI64, all),
		"tx m0:k0 ugnot=1 send;m0;a0;ugnot=" + maxI64 + " send;m0;a0;ugnot=" + maxI64,
		"tx m0:k0 ugnot=1 send;m0;a0;ugnot=" + maxI64,
		"tx m0:k0 ugnot=1 send;m0;a0;ugnot=9223372036854775806",
		"tx m0:k0 ugnot=1 send;m0;a0;ugnot=5",
		"tx m0:k0 ugnot=1 send;m0;a0;ugnot=9223372036854775800",
		"tx m0:k0 ugnot=1 send;m0;a0;ugnot=9223372036854775799",
		"tx m0:k0 ugnot=1 run;m0;pay@a0@ugnot=9223372036854775800;-",
		"tx m0:k0 ugnot=" + maxI64 + " send;m0;a0;ugnot=1",
		"tx - ugnot=1 send;m0;a0;ugnot=" + maxI64,
	}
	b["12-dead-and-recreated-sessions"] = []string{
		"fund m0 ugnot=100000",
		"tx m0:k0 ugnot=1 send;m0;a0;ugnot=1",
		create(0, 0, 0, 1000, "ugnot=100", all),
		"tx m0:k0 ugnot=1 send;m0;a0;ugnot=98",
		"tx m0:k1 ugnot=1 send;m0;a0;ugnot=1",
		"tx m1:k0 ugnot=1 send;m1;a0;ugnot=1",
		"tx - ugnot=1 revoke;m0;k0",
		"tx m0:k0 ugnot=1 send;m0;a0;ugnot=1",
		create(0, 0, 0, 1000, "ugnot=100", all),
		"tx m0:k0 ugnot=1 send;m0;a0;ugnot=98",
		"tx m0:k0 ugnot=1 send;m0;a0;ugnot=1",
		"tx - ugnot=1 revokeall;m0",
		"tx m0:k0 ugnot=1 send;m0;a0;ugnot=1",
		"time 999000",
		create(0, 0, 1000000, 10, "ugnot=100", all),
		"tx m0:k0 ugnot=1 send;m0;a0;ugnot=50",
		"time 998000",
		"tx m0:k0 ugnot=1 send;m0;a0;ugnot=50",
		"time 999009",
		"tx m0:k0 ugnot=1 send;m0;a0;ugnot=48",
		"time 999010",
		"tx m0:k0 ugnot=1 send;m0;a0;ugnot=48",
		"time 0",
		"tx m0:k0 ugnot=1 send;m0;a0;ugnot=48",
	}
	return b
}

// ---------------------------------------------------------------- structured random

type gSess struct {
	m, k    int
	limit   int64
	period  int64
	created int64
}

func rndCoins(r *kit.Rand, maxAmt int64) string {
	switch r.Intn(12) {
	case 0:
		return fmt.Sprintf("atom=%d", 1+r.Intn(9))
	case 1:
		return fmt.Sprintf("atom=%d+ugnot=%d", 1+r.Intn(5), 1+int64(r.Intn(int(maxAmt))))
	case 2:
		return fmt.Sprintf("zed=%d", 1+r.Intn(5))
	}
	return fmt.Sprintf("ugnot=%d", 1+int64(r.Intn(int(maxAmt))))
}

var pathSets = [][]string{
	{"*"}, {"*"}, {"*"},
	{"bank/send", "vm/exec"},
	{"vm/exec:" + rSink, "bank/send"},
	{"vm/exec:" + rVerif, "vm/run"},
	{"vm/run", "bank/send", "vm/exec:gno.land/r/other/box"},
	{"bank/send"},
}

func rndMsg(r *kit.Rand, m int, amt int64) string {
	if amt < 1 {
		amt = 1
	}
	tgt := []string{"a0", "a1", "a0", "m1", "m0", "k2"}
	switch x := r.Intn(100); {
	case x < 40:
		return fmt.Sprintf("send;m%d;%s;%s", m, kit.Pick(r, tgt), rndCoins(r, amt))
	case x < 55:
		s := "-"
		if r.Chance(70) {
			s = rndCoins(r, amt)
		}
		return fmt.Sprintf("exec;m%d;r%d;noop;%s", m, r.Intn(4), s)
	case x < 67:
		n := 200 + r.Intn(12)
		if r.Chance(10) {
			n = 200 + r.Intn(4800)
		}
		return fmt.Sprintf("exec;m%d;r%d;grow%d;-", m, r.Intn(4), n)
	case x < 71:
		return fmt.Sprintf("exec;m%d;r%d;fail;%s", m, r.Intn(4), rndCoins(r, amt))
	case x < 76:
		s := "-"
		if r.Chance(40) {
			s = rndCoins(r, amt)
		}
		return fmt.Sprintf("run;m%d;noop;%s", m, s)
	case x < 88:
		return fmt.Sprintf("run;m%d;pay@%s@%s;-", m, kit.Pick(r, tgt), rndCoins(r, amt))
	case x < 91:
		return fmt.Sprintf("run;m%d;fail;-", m)
	case x < 94:
		return fmt.Sprintf("addpkg;m%d;-", m)
	case x < 96:
		return fmt.Sprintf("revokeall;m%d", m)
	default:
		return fmt.Sprintf("revoke;m%d;k%d", m, r.Intn(4))
	}
}

func randomCase(w *kit.Out, r *kit.Rand, steps int) {
	now := int64(1000000)
	nm := 1 + r.Intn(2)
	for m := 0; m < nm; m++ {
		switch r.Intn(4) {
		case 0:
			w.Op("fund m%d ugnot=%d", m, 20+r.Intn(300))
		case 1:
			w.Op("fund m%d atom=%d+ugnot=%d+zed=%d", m, 5+r.Intn(40), 500+r.Intn(100000), 1+r.Intn(9))
		default:
			w.Op("fund m%d atom=%d+ugnot=%d", m, 5+r.Intn(40), 500+r.Intn(100000))
		}
	}
	var ss []gSess
	mk := func() {
		s := gSess{m: r.Intn(nm), k: r.Intn(4), created: now}
		s.limit = int64(kit.Pick(r, []int{10, 50, 100, 300, 1000, 1000, 3000, 50000}))
		s.period = int64(kit.Pick(r, []int{0, 5, 10, 10, 50, 100}))
		exp := int64(0)
		switch r.Intn(5) {
		case 0:
			exp = now + int64(1+r.Intn(40))
		case 1:
			exp = now + 1000
		}
		lim := fmt.Sprintf("ugnot=%d", s.limit)
		switch r.Intn(8) {
		case 0:
			lim = fmt.Sprintf("atom=%d+ugnot=%d", 1+r.Intn(20), s.limit)
		case 1:
			lim = fmt.Sprintf("atom=%d+ugnot=%d+zed=%d", 1+r.Intn(20), s.limit, 1+r.Intn(5))
		case 2:
			if r.Chance(30) {
				lim = "-"
			}
		}
		w.Op("tx - ugnot=%d create;m%d;k%d;%d;%d;%s;%s", 1+r.Intn(2), s.m, s.k, exp, s.period, lim, paths(kit.Pick(r, pathSets)...))
		ss = append(ss, s)
	}
	for i := 0; i < 1+r.Intn(3); i++ {
		mk()
	}
	for i := 0; i < steps; i++ {
		switch x := r.Intn(100); {
		case x < 14: // time
			s := kit.Pick(r, ss)
			switch r.Intn(6) {
			case 0:
				now += 1
			case 1:
				now += int64(1 + r.Intn(7))
			case 2:
				if s.period > 0 { // next period boundary of this session's creation grid, minus one
					now = s.created + ((now-s.created)/s.period+1)*s.period - 1
				} else {
					now += 3
				}
			case 3:
				if s.period > 0 {
					now = s.created + ((now-s.created)/s.period+1)*s.period
				} else {
					now += 50
				}
			case 4:
				now += s.period
			default:
				if r.Chance(15) && now > 5 {
					now -= int64(1 + r.Intn(5))
				} else {
					now += s.period + 1
				}
			}
			w.Op("time %d", now)
		case x < 20: // master-signed
			switch r.Intn(5) {
			case 0:
				s := kit.Pick(r, ss)
				w.Op("tx - ugnot=1 revoke;m%d;k%d", s.m, s.k)
			case 1:
				w.Op("tx - ugnot=1 revokeall;m%d", r.Intn(nm))
			case 2, 3:
				mk()
			default:
				w.Op("tx - ugnot=1 %s", rndMsg(r, r.Intn(nm), 50))
			}
		case x < 24:
			w.Op("fund m%d ugnot=%d", r.Intn(nm), 1+r.Intn(500))
		case x < 32 && nm == 2: // two signers
			s := kit.Pick(r, ss)
			o := 1 - s.m
			auth := fmt.Sprintf("m%d:k%d", s.m, s.k)
			if r.Chance(40) {
				auth += fmt.Sprintf(",m%d:k%d", o, r.Intn(4))
			}
			a, b := rndMsg(r, s.m, s.limit/4+1), rndMsg(r, o, 20)
			if r.Bool() {
				a, b = b, a
			}
			w.Op("tx %s ugnot=%d %s %s", auth, 1+r.Intn(3), a, b)
		default: // session-signed
			s := kit.Pick(r, ss)
			k := s.k
			if r.Chance(4) {
				k = r.Intn(5)
			}
			n := 1
			if r.Chance(35) {
				n = 2 + r.Intn(2)
			}
			amt := s.limit / int64(2+r.Intn(6))
			if r.Chance(10) {
				amt = s.limit
			}
			var ms []string
			for j := 0; j < n; j++ {
				ms = append(ms, rndMsg(r, s.m, amt))
			}
			fee := fmt.Sprintf("ugnot=%d", 1+r.Intn(3))
			switch r.Intn(25) {
			case 0:
				fee = "atom=1"
			case 1:
				fee = fmt.Sprintf("ugnot=%d", s.limit)
			}
			w.Op("tx m%d:k%d %s %s", s.m, k, fee, strings.Join(ms, " "))
		}
	}
}

// ---------------------------------------------------------------- malformed stream

func malformedCase(w *kit.Out, r *kit.Rand, n int) {
	w.Op("fund m0 atom=50+ugnot=100000")
	w.Op("%s", create(0, 0, 0, 10, "atom=10+ugnot=1000", paths("*")))
	badCoins := []string{"ugnot=0", "ugnot=-1", "ugnot=1+ugnot=2", "zed=1+atom=1", "UGNOT=1", "ug=1", "ugnot=1+atom=0", "atom=0+ugnot=0",
		"ugnot", "=5", "ugnot=", "ugnot=1+", "-", "ugnot=99999999999999999999", "ugnot=9223372036854775808", "a/b=1", "/x:y=3", "ugnot=+1",
		"ugnot=01", "ugnot=1+atom=2+zed=3+foo=4+bar=5", "ugnot=1.5", "9gnot=5"}
	junk := []string{"", "x", "tx", "tx -", "tx - ugnot=1", "tx - ugnot", "time", "time x", "time -1", "time 1099511627776", "fund", "fund m0", "fund m9 ugnot=1",
		"fund m0 ugnot=0", "fund m0 zed=1+atom=1", "fund m0 ugnot=1125899906842625", "fund a2 ugnot=1", "fund k18 ugnot=1", "fund m00 ugnot=1",
		"realms x", "tx m0:k0,m0:k1 ugnot=1 send;m0;a0;ugnot=1", "tx m0 ugnot=1 send;m0;a0;ugnot=1", "tx m0:k0: ugnot=1 send;m0;a0;ugnot=1",
		"tx - ugnot=1 send;a0;m0;ugnot=1", "tx - ugnot=1 send;m0;a0", "tx - ugnot=1 exec;m0;r4;noop;-", "tx - ugnot=1 exec;m0;r0;grow199;-",
		"tx - ugnot=1 exec;m0;r0;grow5001;-", "tx - ugnot=1 exec;m0;r0;grow;-", "tx - ugnot=1 exec;m0;r0;burn;-", "tx - ugnot=1 run;m0;pay@a0;-",
		"tx - ugnot=1 run;m0;pay;-", "tx - ugnot=1 addpkg;m0;-", "tx - ugnot=1 create;m0;k0;0;0;ugnot=1", "tx - ugnot=1 create;m0;k0;0;0;ugnot=1;zz",
		"tx - ugnot=1 create;m0;k0;0;0;ugnot=1;2A", "tx - ugnot=1 create;m0;k0;0;0;ugnot=1;0a", "tx - ugnot=1 create;m0;k0;0;0;ugnot=1;2a,",
		"tx - ugnot=1 create;m0;k0;x;0;ugnot=1;2a", "tx - ugnot=1 revoke;m0", "tx - ugnot=1 revokeall;m0;k0", "tx - ugnot=1 msend;m0~ugnot=1;a0~ugnot=1",
		"tx - ugnot=1 send;m0;a0;ugnot=1 send;m0;a0;ugnot=1 send;m0;a0;ugnot=1 send;m0;a0;ugnot=1 send;m0;a0;ugnot=1 send;m0;a0;ugnot=1 send;m0;a0;ugnot=1"}
	for i := 0; i < n; i++ {
		switch r.Intn(7) {
		case 0:
			w.Op("%s", kit.Pick(r, junk))
		case 1:
			w.Op("tx m0:k0 %s send;m0;a0;ugnot=1", kit.Pick(r, badCoins))
		case 2:
			w.Op("tx m0:k0 ugnot=1 send;m0;a0;%s", kit.Pick(r, badCoins))
		case 3:
			w.Op("tx m0:k0 ugnot=1 run;m0;pay@a0@%s;%s", kit.Pick(r, badCoins), kit.Pick(r, []string{"-", "-", kit.Pick(r, badCoins)}))
		case 4:
			w.Op("tx m0:k0 ugnot=1 exec;m0;r%d;noop;%s", r.Intn(4), kit.Pick(r, badCoins))
		case 5:
			// random printable path entries
			var ps []string
			for j := 0; j < 1+r.Intn(3); j++ {
				alphabet := []string{"*", "vm", "bank", "/", ":", "exec", "send", "run", "auth", "gno.land/r/verif/sink", "x", " ", "", "multisend", "add_package"}
				var sb strings.Builder
				for q := 0; q < 1+r.Intn(5); q++ {
					sb.WriteString(kit.Pick(r, alphabet))
				}
				ps = append(ps, sb.String())
			}
			w.Op("tx - ugnot=1 create;m0;k%d;0;0;%s;%s", 1+r.Intn(3), kit.Pick(r, append(badCoins, "ugnot=5", "ugnot=5")), paths(ps...))
		default:
			w.Op("tx m0:k%d ugnot=1 %s", 1+r.Intn(3), rndMsg(r, 0, 5))
		}
	}
}

func gen(w *kit.Out, r *kit.Rand, tier string) {
	b := boundary()
	names := make([]string, 0, len(b))
	for n := range b {
		names = append(names, n)
	}
	sortStrings(names)
	for _, n := range names {
		w.Case("b-" + n)
		for _, l := range b[n] {
			w.Op("%s", l)
		}
	}
	cases, steps, mal := 40, 18, 3
	if tier == "thorough" {
		cases, steps, mal = 260, 24, 12
	}
	for i := 0; i < cases; i++ {
		w.Case(fmt.Sprintf("r-%d", i))
		randomCase(w, r.Fork(), steps/2+r.Intn(steps))
	}
	for i := 0; i < mal; i++ {
		w.Case(fmt.Sprintf("x-%d", i))
		malformedCase(w, r.Fork(), 40)
	}
}

func sortStrings(s []string) {
	for i := 1; i < len(s); i++ {
		for j := i; j > 0 && s[j] < s[j-1]; j-- {
			s[j], s[j-1] = s[j-1], s[j]
		}
	}
}
