// Harness for C25: Merkle proofs are sound and complete.
//
// STAGE 1 (model + theorems in Lean): tm2/pkg/crypto/merkle simple trees,
// simple proofs and simple maps — see stage1 ops below.
// STAGE 2 (correspondence-only, NO Lean model/theorem): tm2/pkg/bptree
// membership / non-membership proofs verified through ics23 with BptreeSpec —
// see bptree.go (ops prefixed `bp`).  The Lean driver answers those ops with the
// constant `bp`; the harness prints the same constant and puts the whole
// judgement into the oracle column.
//
// stage-1 ops (state = current item list + current map, reset at `#case`):
//
//	sha <hex>                                      tmhash.Sum
//	items <n> <item>…                              SimpleHashFromByteSlices / …Iterative  (sets items)
//	prove <i>                                      SimpleProofsFromByteSlices()[i] + ValidateBasic + Verify
//	verify <total> <index> <leafhash> <root> <leaf> <n> <aunt>…      SimpleProof.Verify
//	crh <total> <index> <leafhash> <n> <aunt>…     SimpleProof.ComputeRootHash
//	vb  <total> <index> <leafhash> <n> <aunt>…     SimpleProof.ValidateBasic
//	txp <datahash> <roothash> <tx> <total> <index> <leafhash> <n> <aunt>…   types.TxProof.Validate
//	map <n> <key> <value>…                         SimpleHashFromMap + SimpleProofsFromMap (sets map)
//	mprove <key>                                   proof of a map entry, verified via SimpleValueOp.Run
//	mverify <key> <value> <root> <total> <index> <leafhash> <n> <aunt>…     SimpleValueOp.Run + root compare
//
// The oracle is independent code: its own SHA-256 Merkle tree (crypto/sha256,
// loop-computed split points, an iterative path walk) and the property
// statement evaluated on the REAL implementation's answers:
//   - a generated proof verifies (VIOL:incomplete otherwise);
//   - a proof that verifies against the root of the current items must be for
//     items[index] (VIOL:unsound) with total = len(items) (VIOL:total-malleable);
//   - nothing verifies against an empty root (VIOL:nil-root — fixed in /repo 96b4d2262f for Verify and
//     TxProof.Validate, a regression if it returns; VIOL:nil-root-valueop for the
//     SimpleValueOp + ProofOperators.Verify path, fixed in /repo 4d9045b816 — both are regressions if they return);
//   - Verify accepts exactly when the oracle's strict reference check accepts
//     (VIOL:verify-accepts / VIOL:verify-rejects).
package main

import (
	"bytes"
	"crypto/sha256"
	"encoding/binary"
	"fmt"
	"sort"
	"strconv"
	"strings"

	"github.com/gnolang/gno/tm2/pkg/bft/types"
	"github.com/gnolang/gno/tm2/pkg/crypto/merkle"
	"github.com/gnolang/gno/tm2/pkg/crypto/tmhash"
	"gnoverif/kit"
)

// ------------------------------------------------------------------ oracle: from-scratch Merkle

func oSum(b []byte) []byte { h := sha256.Sum256(b); return h[:] }

func oLeaf(x []byte) []byte { return oSum(append([]byte{0}, x...)) }

func oInner(l, r []byte) []byte {
	b := make([]byte, 0, 1+len(l)+len(r))
	b = append(b, 1)
	b = append(b, l...)
	b = append(b, r...)
	return oSum(b)
}

// largest power of two strictly below n (n >= 2), by doubling.
func oSplit(n int64) int64 {
	k := int64(1)
	for k <= (n-1)/2 {
		k *= 2
	}
	return k
}

func oRoot(items [][]byte) []byte {
	switch len(items) {
	case 0:
		return nil
	case 1:
		return oLeaf(items[0])
	}
	k := oSplit(int64(len(items)))
	return oInner(oRoot(items[:k]), oRoot(items[k:]))
}

// aunts for item i, leaf-to-root.
func oAunts(items [][]byte, i int) [][]byte {
	if len(items) <= 1 {
		return nil
	}
	k := int(oSplit(int64(len(items))))
	if i < k {
		return append(oAunts(items[:k], i), oRoot(items[k:]))
	}
	return append(oAunts(items[k:], i-k), oRoot(items[:k]))
}

// oDirs: root-first turn sequence of leaf `index` in a tree of `total` leaves
// (true = the leaf is in the right subtree); ok=false if (index,total) is not
// a position.
func oDirs(index, total int64) (dirs []bool, ok bool) {
	if total <= 0 || index < 0 || index >= total {
		return nil, false
	}
	for total > 1 {
		k := oSplit(total)
		if index < k {
			dirs = append(dirs, false)
			total = k
		} else {
			dirs = append(dirs, true)
			index -= k
			total -= k
		}
	}
	return dirs, true
}

// oChain: the strict reference computation of the root a proof commits to.
func oChain(index, total int64, leafHash []byte, aunts [][]byte) ([]byte, bool) {
	dirs, ok := oDirs(index, total)
	if !ok || len(dirs) != len(aunts) {
		return nil, false
	}
	h := leafHash
	for j := 0; j < len(aunts); j++ {
		if dirs[len(dirs)-1-j] {
			h = oInner(aunts[j], h)
		} else {
			h = oInner(h, aunts[j])
		}
	}
	return h, true
}

func oUvarint(n int) []byte {
	var b [binary.MaxVarintLen64]byte
	return append([]byte(nil), b[:binary.PutUvarint(b[:], uint64(n))]...)
}

func oMapLeaf(key, value []byte) []byte {
	vh := oSum(value)
	var b []byte
	b = append(b, oUvarint(len(key))...)
	b = append(b, key...)
	b = append(b, oUvarint(len(vh))...)
	b = append(b, vh...)
	return b
}

// sorted keys + leaves of a map
func oMapLeaves(m map[string][]byte) (keys []string, leaves [][]byte) {
	for k := range m {
		keys = append(keys, k)
	}
	sort.Strings(keys)
	for _, k := range keys {
		leaves = append(leaves, oMapLeaf([]byte(k), m[k]))
	}
	return
}

// ------------------------------------------------------------------ state

type state struct {
	items  [][]byte
	root   []byte
	proofs []*merkle.SimpleProof
	oroot  []byte

	m      map[string][]byte
	mroot  []byte
	mkeys  []string
	mprf   map[string]*merkle.SimpleProof
	omroot []byte
}

var st state

func reset() { st = state{}; bp = nil }

// ------------------------------------------------------------------ parsing / printing

type pargs struct {
	total, index int64
	leafHash     []byte
	aunts        [][]byte
}

func hexAny(s string) ([]byte, bool) {
	b, err := kit.UnHex(s)
	return b, err == nil
}

func takeN(t []string) ([][]byte, []string, bool) {
	if len(t) == 0 {
		return nil, nil, false
	}
	n, err := strconv.ParseUint(t[0], 10, 32)
	if err != nil || int(n) > len(t)-1 {
		return nil, nil, false
	}
	out := make([][]byte, n)
	for i := range out {
		b, ok := hexAny(t[1+i])
		if !ok {
			return nil, nil, false
		}
		out[i] = b
	}
	return out, t[1+n:], true
}

func parseProof(t []string) (p pargs, rest []string, ok bool) {
	if len(t) < 4 {
		return p, nil, false
	}
	var e1, e2 error
	p.total, e1 = strconv.ParseInt(t[0], 10, 64)
	p.index, e2 = strconv.ParseInt(t[1], 10, 64)
	lh, ok3 := hexAny(t[2])
	if e1 != nil || e2 != nil || !ok3 {
		return p, nil, false
	}
	p.leafHash = lh
	p.aunts, rest, ok = takeN(t[3:])
	return
}

func (p pargs) sp() *merkle.SimpleProof {
	// every slice freshly allocated with cap == len (no aliasing between aunts)
	sp := &merkle.SimpleProof{Total: int(p.total), Index: int(p.index)}
	if p.leafHash != nil {
		sp.LeafHash = append(make([]byte, 0, len(p.leafHash)), p.leafHash...)
	}
	for _, a := range p.aunts {
		sp.Aunts = append(sp.Aunts, append(make([]byte, 0, len(a)), a...))
	}
	return sp
}

func proofsFromByteSlices(items [][]byte) (root []byte, proofs []*merkle.SimpleProof, panicked bool) {
	defer func() {
		if recover() != nil {
			root, proofs, panicked = nil, nil, true
		}
	}()
	root, proofs = merkle.SimpleProofsFromByteSlices(items)
	return
}

func proofsFromMap(m map[string][]byte) (root []byte, proofs map[string]*merkle.SimpleProof, keys []string, panicked bool) {
	defer func() {
		if recover() != nil {
			root, proofs, keys, panicked = nil, nil, nil, true
		}
	}()
	root, proofs, keys = merkle.SimpleProofsFromMap(m)
	return
}

// showProof: total index leafhash naunts sha256(aunt_1‖…‖aunt_n) [tail] aunt…
// (kit truncates an output line at 300 bytes; the digest in front keeps the
// comparison complete, the aunts behind it are for the reader)
func showProof(sp *merkle.SimpleProof, tail string) string {
	var sb strings.Builder
	var cat []byte
	for _, a := range sp.Aunts {
		cat = append(cat, a...)
	}
	fmt.Fprintf(&sb, "%d %d %s %d %s %s", sp.Total, sp.Index, kit.Hex(sp.LeafHash), len(sp.Aunts), kit.Hex(oSum(cat)), tail)
	for _, a := range sp.Aunts {
		sb.WriteByte(' ')
		sb.WriteString(kit.Hex(a))
	}
	return sb.String()
}

func hexOrDash(b []byte) string {
	if len(b) == 0 && b != nil {
		return "e"
	}
	return kit.Hex(b)
}

func classVerify(err error) string {
	if err == nil {
		return "ok"
	}
	m := err.Error()
	switch {
	case strings.Contains(m, "Proof total must be positive"):
		return "err:total"
	case strings.Contains(m, "Proof index cannot be negative"):
		return "err:index"
	case strings.Contains(m, "invalid leaf hash"):
		return "err:leafhash"
	case strings.Contains(m, "invalid root hash"):
		return "err:root"
	}
	return "err:other"
}

func classBasic(err error) string {
	if err == nil {
		return "ok"
	}
	m := err.Error()
	switch {
	case strings.Contains(m, "negative Total"):
		return "err:total"
	case strings.Contains(m, "negative Index"):
		return "err:index"
	case strings.Contains(m, "expected LeafHash size"):
		return "err:leafsize"
	case strings.Contains(m, "expected no more than"):
		return "err:naunts"
	case strings.Contains(m, "expected Aunts#"):
		return "err:auntsize"
	}
	return "err:other"
}

func classTxp(err error) string {
	if err == nil {
		return "ok"
	}
	m := err.Error()
	switch {
	case strings.Contains(m, "Proof matches different data hash"):
		return "err:datahash"
	case strings.Contains(m, "Proof index cannot be negative"):
		return "err:index"
	case strings.Contains(m, "Proof total must be positive"):
		return "err:total"
	case strings.Contains(m, "Proof is not internally consistent"):
		return "err:inconsistent"
	}
	return "err:other"
}

// ------------------------------------------------------------------ oracle predicates

// judgeVerify evaluates the property statement on the answer `accepted` the
// implementation gave for (proof p, root, leaf), knowing the current items.
func judgeVerify(accepted bool, p pargs, root, leaf []byte, leafHashOK bool) string {
	// strict reference: the root this proof commits to, if it is a position at all
	want, shapeOK := oChain(p.index, p.total, p.leafHash, p.aunts)
	refAccept := shapeOK && leafHashOK && len(root) > 0 && bytes.Equal(want, root)
	if accepted {
		if len(root) == 0 {
			return fmt.Sprintf("VIOL:nil-root proof(total=%d,index=%d,%d aunts) accepted against an empty root for leaf %s", p.total, p.index, len(p.aunts), kit.Hex(leaf))
		}
		if !refAccept {
			return fmt.Sprintf("VIOL:verify-accepts total=%d index=%d: accepted but the reference recomputation rejects", p.total, p.index)
		}
		if len(st.items) > 0 && bytes.Equal(root, st.oroot) {
			n := int64(len(st.items))
			if p.total == n {
				if p.index >= n || !bytes.Equal(st.items[p.index], leaf) {
					return fmt.Sprintf("VIOL:unsound leaf %s accepted at index %d of %d items but is not the item there", kit.Hex(leaf), p.index, n)
				}
				return "ok"
			}
			// total differs from the real size: the leaf must at least be the item at the
			// position the proof's turn sequence leads to; then only (index,total) are forged.
			want, _ := oDirs(p.index, p.total)
			for j := int64(0); j < n; j++ {
				if d, _ := oDirs(j, n); sameDirs(d, want) && bytes.Equal(st.items[j], leaf) {
					return fmt.Sprintf("VIOL:total-malleable proof with total=%d index=%d accepted against the root of %d items (the leaf is item %d)", p.total, p.index, n, j)
				}
			}
			return fmt.Sprintf("VIOL:unsound leaf %s accepted with total=%d index=%d against the root of %d items but is not the item on that path", kit.Hex(leaf), p.total, p.index, n)
		}
		return "ok"
	}
	if refAccept {
		return fmt.Sprintf("VIOL:verify-rejects total=%d index=%d: a well-formed proof whose chain equals the root was rejected", p.total, p.index)
	}
	return "ok"
}

func sameDirs(a, b []bool) bool {
	if len(a) != len(b) {
		return false
	}
	for i := range a {
		if a[i] != b[i] {
			return false
		}
	}
	return true
}

// ------------------------------------------------------------------ exec

func exec(t []string) (string, string) {
	if len(t) == 0 {
		return "err:badop", "-"
	}
	if strings.HasPrefix(t[0], "bp") {
		return execBP(t)
	}
	switch t[0] {
	case "sha":
		if len(t) != 2 {
			break
		}
		b, ok := hexAny(t[1])
		if !ok {
			break
		}
		got := tmhash.Sum(b)
		o := "ok"
		if !bytes.Equal(got, oSum(b)) || len(got) != 32 {
			o = "VIOL:sha tmhash.Sum differs from crypto/sha256"
		}
		return kit.Hex(got), o

	case "items":
		items, rest, ok := takeN(t[1:])
		if !ok || len(rest) != 0 {
			break
		}
		st.items = items
		root, proofs, panicked := proofsFromByteSlices(items)
		st.root, st.proofs = root, proofs
		st.oroot = oRoot(items)
		r1 := merkle.SimpleHashFromByteSlices(items)
		r2 := merkle.SimpleHashFromByteSlicesIterative(items)
		o := "ok"
		switch {
		case !bytes.Equal(r1, st.oroot) || (r1 == nil) != (len(items) == 0):
			o = "VIOL:root-mismatch SimpleHashFromByteSlices differs from the reference tree"
		case !bytes.Equal(r2, r1) || (r2 == nil) != (r1 == nil):
			o = "VIOL:iter-mismatch iterative root differs from recursive root"
		case panicked:
			// SimpleProofsFromByteSlices(nil) dereferences the nil root trail; no proof
			// exists for an empty list, so the statement says nothing about it (crash-freedom is C11)
		case !bytes.Equal(root, r1):
			o = "VIOL:root-mismatch SimpleProofsFromByteSlices root differs from SimpleHashFromByteSlices"
		case len(proofs) != len(items):
			o = "VIOL:bad-proof wrong number of proofs"
		}
		np := strconv.Itoa(len(proofs))
		if panicked {
			np = "panic:nilderef"
		}
		return hexOrDash(r1) + " " + hexOrDash(r2) + " " + np, o

	case "prove":
		if len(t) != 2 {
			break
		}
		i, err := strconv.ParseUint(t[1], 10, 62)
		if err != nil {
			break
		}
		if int(i) >= len(st.proofs) {
			return "err:range", "-"
		}
		sp := st.proofs[i]
		item := st.items[i]
		vb := sp.ValidateBasic()
		v := sp.Verify(st.root, item)
		o := "ok"
		want, shapeOK := oChain(int64(sp.Index), int64(sp.Total), sp.LeafHash, sp.Aunts)
		switch {
		case v != nil:
			o = fmt.Sprintf("VIOL:incomplete generated proof %d/%d does not verify", i, len(st.items))
		case sp.Total != len(st.items) || sp.Index != int(i) || !bytes.Equal(sp.LeafHash, oLeaf(item)):
			o = "VIOL:bad-proof total/index/leafhash of the generated proof are wrong"
		case !shapeOK || !bytes.Equal(want, st.oroot):
			o = "VIOL:bad-proof generated aunts do not chain to the reference root"
		case vb != nil:
			o = "VIOL:bad-proof generated proof fails ValidateBasic"
		}
		return showProof(sp, classBasic(vb)+" "+classVerify(v)), o

	case "verify":
		if len(t) < 7 {
			break
		}
		root, ok1 := hexAny(t[4])
		leaf, ok2 := hexAny(t[5])
		p, rest, ok3 := parseProof(append([]string{t[1], t[2], t[3]}, t[6:]...))
		if !ok1 || !ok2 || !ok3 || len(rest) != 0 {
			break
		}
		err := p.sp().Verify(root, leaf)
		return classVerify(err), judgeVerify(err == nil, p, root, leaf, bytes.Equal(p.leafHash, oLeaf(leaf)))

	case "crh":
		p, rest, ok := parseProof(t[1:])
		if !ok || len(rest) != 0 {
			break
		}
		got := p.sp().ComputeRootHash()
		o := "-"
		if len(p.leafHash) > 0 {
			want, shapeOK := oChain(p.index, p.total, p.leafHash, p.aunts)
			o = "ok"
			if shapeOK != (got != nil) || (shapeOK && !bytes.Equal(got, want)) {
				o = "VIOL:crh-mismatch ComputeRootHash differs from the reference chain"
			}
		}
		return hexOrDash(got), o

	case "vb":
		p, rest, ok := parseProof(t[1:])
		if !ok || len(rest) != 0 {
			break
		}
		return classBasic(p.sp().ValidateBasic()), "-"

	case "txp":
		if len(t) < 8 {
			break
		}
		dh, ok1 := hexAny(t[1])
		rh, ok2 := hexAny(t[2])
		tx, ok3 := hexAny(t[3])
		p, rest, ok4 := parseProof(t[4:])
		if !ok1 || !ok2 || !ok3 || !ok4 || len(rest) != 0 {
			break
		}
		tp := types.TxProof{RootHash: rh, Data: types.Tx(tx), Proof: *p.sp()}
		err := tp.Validate(dh)
		o := "ok"
		if err == nil {
			txh := oSum(tx)
			want, shapeOK := oChain(p.index, p.total, p.leafHash, p.aunts)
			switch {
			case len(dh) == 0:
				o = fmt.Sprintf("VIOL:nil-root TxProof(total=%d,index=%d) for tx %s validates against an empty DataHash", p.total, p.index, kit.Hex(tx))
			case !shapeOK || !bytes.Equal(want, dh) || !bytes.Equal(p.leafHash, oLeaf(txh)):
				o = "VIOL:verify-accepts TxProof accepted but the reference recomputation rejects"
			}
		}
		return classTxp(err), o

	case "map":
		if len(t) < 2 {
			break
		}
		n, err := strconv.ParseUint(t[1], 10, 32)
		if err != nil || len(t) != 2+2*int(n) {
			break
		}
		m := map[string][]byte{}
		bad, dup := false, false
		for i := 0; i < int(n); i++ {
			k, ok1 := hexAny(t[2+2*i])
			v, ok2 := hexAny(t[3+2*i])
			if !ok1 || !ok2 {
				bad = true
				break
			}
			if _, has := m[string(k)]; has {
				dup = true
			}
			m[string(k)] = v
		}
		if bad {
			break
		}
		if dup {
			return "err:dupkey", "-"
		}
		st.m = m
		root, proofs, keys, panicked := proofsFromMap(m)
		st.mroot, st.mprf, st.mkeys = root, proofs, keys
		okeys, oleaves := oMapLeaves(m)
		st.omroot = oRoot(oleaves)
		o := "ok"
		// insertion-order independence: Go's map iteration order differs between calls
		r2 := merkle.SimpleHashFromMap(m)
		for i := 0; i < 4 && o == "ok" && !panicked; i++ {
			r3 := merkle.SimpleHashFromMap(m)
			rr, _, kk, _ := proofsFromMap(m)
			if !bytes.Equal(r3, r2) || !bytes.Equal(rr, r2) || strings.Join(kk, "\x00") != strings.Join(keys, "\x00") {
				o = "VIOL:map-order map hash / proofs depend on map iteration order"
			}
		}
		switch {
		case o != "ok":
		case !bytes.Equal(r2, st.omroot) || (r2 == nil) != (len(m) == 0):
			o = "VIOL:root-mismatch map root differs from the reference tree over sorted length-prefixed (key, sha256(value)) leaves"
		case panicked: // SimpleProofsFromMap(empty) dereferences nil, as above
		case !bytes.Equal(root, st.omroot):
			o = "VIOL:root-mismatch map root differs from the reference tree over sorted length-prefixed (key, sha256(value)) leaves"
		case strings.Join(keys, "\x00") != strings.Join(okeys, "\x00") || len(keys) != len(okeys):
			o = "VIOL:map-order returned keys are not the sorted key set"
		}
		if panicked {
			return hexOrDash(r2) + " panic:nilderef", o
		}
		// <root from SimpleHashFromMap> <root from SimpleProofsFromMap> <nkeys> sha256(len-prefixed sorted keys) key…
		var sb strings.Builder
		var cat []byte
		for _, k := range keys {
			cat = append(cat, oUvarint(len(k))...)
			cat = append(cat, k...)
		}
		fmt.Fprintf(&sb, "%s %s %d %s", hexOrDash(r2), hexOrDash(root), len(keys), kit.Hex(oSum(cat)))
		for _, k := range keys {
			sb.WriteByte(' ')
			sb.WriteString(kit.Hex([]byte(k)))
		}
		return sb.String(), o

	case "mprove":
		if len(t) != 2 {
			break
		}
		key, ok := hexAny(t[1])
		if !ok {
			break
		}
		sp := st.mprf[string(key)]
		if sp == nil {
			return "err:nokey", "-"
		}
		value := st.m[string(key)]
		vb := sp.ValidateBasic()
		res := runValueOp(key, value, st.mroot, sp)
		o := "ok"
		want, shapeOK := oChain(int64(sp.Index), int64(sp.Total), sp.LeafHash, sp.Aunts)
		switch {
		case res != "ok":
			o = fmt.Sprintf("VIOL:incomplete generated map proof for key %s does not verify", kit.Hex(key))
		case sp.Total != len(st.m) || !bytes.Equal(sp.LeafHash, oLeaf(oMapLeaf(key, value))):
			o = "VIOL:bad-proof total/leafhash of the generated map proof are wrong"
		case !shapeOK || !bytes.Equal(want, st.omroot):
			o = "VIOL:bad-proof generated map aunts do not chain to the reference root"
		case sp.Index >= len(st.mkeys) || st.mkeys[sp.Index] != string(key):
			o = "VIOL:bad-proof generated map proof index is not the key's sorted position"
		case vb != nil:
			o = "VIOL:bad-proof generated map proof fails ValidateBasic"
		}
		return showProof(sp, classBasic(vb)+" "+res), o

	case "mverify":
		if len(t) < 8 {
			break
		}
		key, ok1 := hexAny(t[1])
		value, ok2 := hexAny(t[2])
		root, ok3 := hexAny(t[3])
		p, rest, ok4 := parseProof(t[4:])
		if !ok1 || !ok2 || !ok3 || !ok4 || len(rest) != 0 {
			break
		}
		res := runValueOp(key, value, root, p.sp())
		o := "ok"
		want, shapeOK := oChain(p.index, p.total, p.leafHash, p.aunts)
		refAccept := shapeOK && len(root) > 0 && bytes.Equal(want, root) && bytes.Equal(p.leafHash, oLeaf(oMapLeaf(key, value)))
		if res == "ok" {
			switch {
			case len(root) == 0:
				o = fmt.Sprintf("VIOL:nil-root-valueop SimpleValueOp proof(total=%d,index=%d) for key %s accepted by ProofOperators.Verify against an empty root", p.total, p.index, kit.Hex(key))
			case !refAccept:
				o = "VIOL:verify-accepts map proof accepted but the reference recomputation rejects"
			case len(st.m) > 0 && bytes.Equal(root, st.omroot):
				v, has := st.m[string(key)]
				if !has || !bytes.Equal(v, value) {
					o = fmt.Sprintf("VIOL:unsound (key %s, value %s) accepted against the map root but is not an entry", kit.Hex(key), kit.Hex(value))
				} else if p.total != int64(len(st.m)) {
					o = fmt.Sprintf("VIOL:total-malleable map proof with total=%d accepted against the root of %d entries", p.total, len(st.m))
				}
			}
		} else if refAccept {
			o = "VIOL:verify-rejects well-formed map proof rejected"
		}
		return res, o
	}
	return "err:badop", "-"
}

// runValueOp: the code path a verifier of a simple-map entry uses —
// merkle.ProofOperators{SimpleValueOp}.Verify(root, "/x:<KEY>", [value]), i.e.
// SimpleValueOp.Run([value]) followed by bytes.Equal(root, computedRoot).
// (An empty key cannot be expressed in a key path — "Keypath not consumed all" —
// so for it the same two steps are done by hand.)
func runValueOp(key, value, root []byte, sp *merkle.SimpleProof) string {
	op := merkle.NewSimpleValueOp(key, sp)
	if len(key) > 0 {
		var kp merkle.KeyPath
		kp = kp.AppendKey(key, merkle.KeyEncodingHex)
		err := merkle.ProofOperators{op}.Verify(root, kp.String(), [][]byte{value})
		switch {
		case err == nil:
			return "ok"
		case strings.Contains(err.Error(), "leaf hash mismatch"):
			return "err:leafhash"
		case strings.Contains(err.Error(), "invalid proof"):
			return "err:invalid"
		case strings.Contains(err.Error(), "Calculated root hash is invalid"):
			return "err:root"
		}
		return "err:other"
	}
	out, err := op.Run([][]byte{value})
	if err != nil {
		if strings.Contains(err.Error(), "leaf hash mismatch") {
			return "err:leafhash"
		}
		if strings.Contains(err.Error(), "invalid proof") {
			return "err:invalid"
		}
		return "err:other"
	}
	if len(out) != 1 || !bytes.Equal(root, out[0]) {
		return "err:root"
	}
	return "ok"
}

func main() {
	kit.Main(&kit.Harness{Gen: gen, Exec: exec, Reset: reset})
}
