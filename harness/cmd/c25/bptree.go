package main

// STAGE 2 of C25 — B+tree / ICS23 membership and non-membership proofs.
//
// CORRESPONDENCE-WITH-ORACLE ONLY: there is NO Lean model and NO theorem for
// this half (the ICS23 verifier is a third-party library).  The Lean driver
// answers every `bp…` op with the constant `bp`; so does this file; the whole
// judgement is in the oracle column.
//
// The real code path is used end to end:
//   rootmulti.NewMultiStore + two mounted store/bptree stores  (state)
//   multiStore.Query{Path:/<store>/key, Prove:true}           (proof generation:
//        bptree.GetMembershipProof / GetNonMembershipProof → CommitmentOp,
//        plus the simple-map op of the commit info from types.ProofOpFromMap)
//   rootmulti.DefaultProofRuntime().VerifyValue / VerifyAbsence against the
//   multistore commit hash                                    (verification:
//        CommitmentOp.Run → ics23.Verify(Non)Membership with bptree.BptreeSpec)
//
// ops:  bpnew | bpset <k> <v> | bpdel <k> | bpcommit | bpprove <k> [<proof bits to sample per operator>]
//       bpidx   (GetByIndex / GetWithIndex of the committed tree = rank in the sorted committed keys;
//                the non-membership proof generator finds the gap neighbours through them)      bp-index
//       bpsweep (every present key's proof and, for every key k, the absence proof of k‖00 verify) bp-incomplete
//
// oracle (a plain map of the committed state; sorted keys for neighbours):
//   present key:  the proof verifies with (key, committed value)        bp-incomplete
//                 and with no other key, no other value, no other root,
//                 and no semantically different proof bytes              bp-unsound
//   absent key:   the absence proof verifies for that key               bp-incomplete
//                 never for a present key, never for a key outside the
//                 gap between its neighbours, no other root, no
//                 semantically different proof bytes                     bp-unsound
//                 literally "only for that key" is false by construction:
//                 it verifies for every key of the same gap, and the key
//                 embedded in the proof is never compared             bp-absence-key-unbound
//   a present key (or a neighbour) with an EMPTY value cannot be proved  bp-empty-value

import (
	"bytes"
	"fmt"
	"sort"
	"strconv"
	"strings"

	abci "github.com/gnolang/gno/tm2/pkg/bft/abci/types"
	"github.com/gnolang/gno/tm2/pkg/crypto/merkle"
	"github.com/gnolang/gno/tm2/pkg/bptree"
	dbm "github.com/gnolang/gno/tm2/pkg/db"
	"github.com/gnolang/gno/tm2/pkg/db/memdb"
	ics23 "github.com/cosmos/ics23/go"
	storebptree "github.com/gnolang/gno/tm2/pkg/store/bptree"
	"github.com/gnolang/gno/tm2/pkg/store/rootmulti"
	"github.com/gnolang/gno/tm2/pkg/store/types"
	"gnoverif/kit"
)

type bpState struct {
	ms interface {
		GetStore(types.StoreKey) types.Store
		Commit() types.CommitID
		Query(abci.RequestQuery) abci.ResponseQuery
	}
	key       types.StoreKey
	aux       types.StoreKey
	mtree     *bptree.MutableTree
	working   map[string][]byte // uncommitted view
	committed map[string][]byte
	cid       types.CommitID
	ncommit   int
}

var bp *bpState

const bpStoreName = "main"

func bpNew() {
	db := memdb.NewMemDB()
	ms := rootmulti.NewMultiStore(db)
	ms.SetStoreOptions(types.StoreOptions{PruningOptions: types.PruneNothing})
	k := types.NewStoreKey(bpStoreName)
	aux := types.NewStoreKey("aux")
	// the same construction as storebptree.StoreConstructor, keeping a handle on the tree so that
	// `bpidx` can probe GetByIndex / GetWithIndex (which the non-membership proof generator relies on)
	var mtree *bptree.MutableTree
	cons := func(db dbm.DB, opts types.StoreOptions) types.CommitStore {
		mtree = bptree.NewMutableTreeWithDB(db, 10000, bptree.NewNopLogger())
		return storebptree.UnsafeNewStore(mtree, opts)
	}
	ms.MountStoreWithDB(k, cons, nil)
	ms.MountStoreWithDB(aux, storebptree.StoreConstructor, nil)
	if err := ms.LoadLatestVersion(); err != nil {
		panic(err)
	}
	bp = &bpState{ms: ms, key: k, aux: aux, mtree: mtree, working: map[string][]byte{}, committed: map[string][]byte{}}
}

func bpKeyPath(key []byte) string {
	var kp merkle.KeyPath
	kp = kp.AppendKey([]byte(bpStoreName), merkle.KeyEncodingURL)
	kp = kp.AppendKey(key, merkle.KeyEncodingHex)
	return kp.String()
}

func cloneProof(p *merkle.Proof) *merkle.Proof {
	q := &merkle.Proof{Ops: make([]merkle.ProofOp, len(p.Ops))}
	for i, op := range p.Ops {
		q.Ops[i] = merkle.ProofOp{Type: op.Type, Key: append([]byte{}, op.Key...), Data: append([]byte{}, op.Data...)}
	}
	return q
}

// verify through the runtime the node/clients use; panics inside count as rejection
func bpVerify(proof *merkle.Proof, root []byte, key []byte, value []byte, absence bool) (ok bool) {
	defer func() {
		if recover() != nil {
			ok = false
		}
	}()
	prt := rootmulti.DefaultProofRuntime()
	if absence {
		return prt.VerifyAbsence(proof, root, bpKeyPath(key)) == nil
	}
	return prt.VerifyValue(proof, root, bpKeyPath(key), value) == nil
}

// withKey returns the proof re-targeted at another key (the key travels in ProofOp.Key)
func withKey(p *merkle.Proof, key []byte) *merkle.Proof {
	q := cloneProof(p)
	q.Ops[0].Key = append([]byte{}, key...)
	return q
}

// sameMeaning: the mutated bytes decode to an operator that re-encodes to the
// original bytes' decoding (protobuf admits several encodings of one message;
// such a mutation does not alter the proof).
func sameMeaning(orig, mut merkle.ProofOp) bool {
	prt := rootmulti.DefaultProofRuntime()
	a, err1 := prt.Decode(orig)
	b, err2 := prt.Decode(mut)
	if err1 != nil || err2 != nil {
		return false
	}
	pa, pb := a.ProofOp(), b.ProofOp()
	return pa.Type == pb.Type && bytes.Equal(pa.Key, pb.Key) && bytes.Equal(pa.Data, pb.Data)
}

func sortedKeys(m map[string][]byte) []string {
	ks := make([]string, 0, len(m))
	for k := range m {
		ks = append(ks, k)
	}
	sort.Strings(ks)
	return ks
}

func flipBit(b []byte, i int) []byte {
	c := append([]byte{}, b...)
	c[i/8] ^= 1 << uint(i%8)
	return c
}

// deterministic pseudo-random sample positions derived from the key
func samplePositions(n, want int, seed []byte) []int {
	if n <= want {
		out := make([]int, n)
		for i := range out {
			out[i] = i
		}
		return out
	}
	h := oSum(seed)
	r := kit.NewRand(uint64(h[0]) | uint64(h[1])<<8 | uint64(h[2])<<16 | uint64(h[3])<<24)
	out := make([]int, want)
	for i := range out {
		out[i] = r.Intn(n)
	}
	return out
}

// onlyNonexistKeyDiffers: both decode as ics23 proofs and differ in nothing but
// the `key` field embedded in the NonExistenceProof.
func onlyNonexistKeyDiffers(orig, mut []byte) bool {
	var a, b ics23.CommitmentProof
	if a.Unmarshal(orig) != nil || b.Unmarshal(mut) != nil {
		return false
	}
	na, nb := a.GetNonexist(), b.GetNonexist()
	if na == nil || nb == nil || bytes.Equal(na.Key, nb.Key) {
		return false
	}
	nb.Key = na.Key
	x, err1 := a.Marshal()
	y, err2 := b.Marshal()
	return err1 == nil && err2 == nil && bytes.Equal(x, y)
}

func bpProve(key []byte, nbits int) string {
	if bp == nil || bp.ncommit == 0 || len(key) == 0 {
		return "-"
	}
	pending := "" // the (benign) absence-key finding; reported only if nothing worse turns up
	res := bp.ms.Query(abci.RequestQuery{Path: "/" + bpStoreName + "/key", Data: key, Height: bp.cid.Version, Prove: true})
	want, present := bp.committed[string(key)]
	keys := sortedKeys(bp.committed)
	pos := sort.SearchStrings(keys, string(key))
	root := bp.cid.Hash

	emptyNear := func() bool { // an empty value on the key itself or on a gap neighbour
		if present {
			return len(want) == 0
		}
		if pos > 0 && len(bp.committed[keys[pos-1]]) == 0 {
			return true
		}
		if pos < len(keys) && len(bp.committed[keys[pos]]) == 0 {
			return true
		}
		return false
	}()

	if res.Error != nil || res.Proof == nil || len(res.Proof.Ops) != 2 {
		if len(keys) == 0 {
			return "-" // no proof exists for an empty tree (ErrEmptyTree); nothing to judge
		}
		return fmt.Sprintf("VIOL:bp-incomplete no proof produced for key %s (present=%v): err=%v log=%q", kit.Hex(key), present, res.Error, res.Log)
	}
	proof := res.Proof
	nmut := 0

	if present {
		if !bytes.Equal(res.Value, want) {
			return fmt.Sprintf("VIOL:bp-incomplete query returned value %s for key %s, committed value is %s", kit.Hex(res.Value), kit.Hex(key), kit.Hex(want))
		}
		if !bpVerify(proof, root, key, want, false) {
			if emptyNear {
				return fmt.Sprintf("VIOL:bp-empty-value membership proof for present key %s with EMPTY value does not verify", kit.Hex(key))
			}
			return fmt.Sprintf("VIOL:bp-incomplete membership proof for present key %s does not verify", kit.Hex(key))
		}
		// other values
		others := [][]byte{append(append([]byte{}, want...), 0), {}, flipBit(append([]byte{0}, want...), 0)}
		if len(want) > 0 {
			others = append(others, flipBit(want, 0), flipBit(want, 8*len(want)-1), want[:len(want)-1])
		}
		for _, k := range keys {
			if v := bp.committed[k]; !bytes.Equal(v, want) {
				others = append(others, v)
				break
			}
		}
		for _, v := range others {
			nmut++
			if bpVerify(proof, root, key, v, false) {
				return fmt.Sprintf("VIOL:bp-unsound membership proof for key %s verifies with value %s (committed %s)", kit.Hex(key), kit.Hex(v), kit.Hex(want))
			}
		}
		// other keys (both with the op's key left alone and re-targeted)
		var okeys [][]byte
		okeys = append(okeys, append(append([]byte{}, key...), 0), flipBit(key, 0), flipBit(key, 8*len(key)-1))
		if len(key) > 1 {
			okeys = append(okeys, key[:len(key)-1])
		}
		if pos > 0 {
			okeys = append(okeys, []byte(keys[pos-1]))
		}
		if pos+1 < len(keys) {
			okeys = append(okeys, []byte(keys[pos+1]))
		}
		for _, k2 := range okeys {
			if bytes.Equal(k2, key) || len(k2) == 0 {
				continue
			}
			nmut += 2
			if bpVerify(proof, root, k2, want, false) || bpVerify(withKey(proof, k2), root, k2, want, false) {
				return fmt.Sprintf("VIOL:bp-unsound membership proof for key %s verifies for key %s", kit.Hex(key), kit.Hex(k2))
			}
		}
		// a membership proof must not prove absence
		nmut++
		if bpVerify(proof, root, key, nil, true) {
			return fmt.Sprintf("VIOL:bp-unsound membership proof for key %s verifies as an absence proof", kit.Hex(key))
		}
	} else {
		if len(res.Value) != 0 {
			return fmt.Sprintf("VIOL:bp-incomplete query returned a value for absent key %s", kit.Hex(key))
		}
		if !bpVerify(proof, root, key, nil, true) {
			if emptyNear {
				return fmt.Sprintf("VIOL:bp-empty-value non-membership proof for absent key %s next to an EMPTY-valued neighbour does not verify", kit.Hex(key))
			}
			return fmt.Sprintf("VIOL:bp-incomplete non-membership proof for absent key %s does not verify (%s)", kit.Hex(key), describeNeighbours(proof, keys, pos))
		}
		// present keys (neighbours first) must never be proved absent
		var pk [][]byte
		if pos > 0 {
			pk = append(pk, []byte(keys[pos-1]))
		}
		if pos < len(keys) {
			pk = append(pk, []byte(keys[pos]))
		}
		if len(keys) > 0 {
			pk = append(pk, []byte(keys[0]), []byte(keys[len(keys)-1]))
		}
		for _, k2 := range pk {
			nmut++
			if bpVerify(withKey(proof, k2), root, k2, nil, true) {
				return fmt.Sprintf("VIOL:bp-unsound absence proof for %s proves the PRESENT key %s absent", kit.Hex(key), kit.Hex(k2))
			}
		}
		// keys outside the gap (beyond either neighbour) must be rejected
		var outside [][]byte
		if pos > 0 {
			l := []byte(keys[pos-1])
			if len(l) > 1 {
				outside = append(outside, l[:len(l)-1]) // a proper prefix sorts before l
			}
			if pos > 1 {
				outside = append(outside, append([]byte(keys[pos-2]), 0))
			}
		}
		if pos < len(keys) {
			outside = append(outside, append([]byte(keys[pos]), 0))
		}
		for _, k2 := range outside {
			if _, has := bp.committed[string(k2)]; has || len(k2) == 0 {
				continue
			}
			p2 := sort.SearchStrings(keys, string(k2))
			if p2 == pos {
				continue // same gap after all
			}
			nmut++
			if bpVerify(withKey(proof, k2), root, k2, nil, true) {
				return fmt.Sprintf("VIOL:bp-unsound absence proof for %s (gap %d) verifies for key %s of gap %d", kit.Hex(key), pos, kit.Hex(k2), p2)
			}
		}
		// the absence proof verified as a value proof?
		nmut++
		if bpVerify(proof, root, key, []byte{1}, false) {
			return fmt.Sprintf("VIOL:bp-unsound absence proof for key %s verifies as a membership proof", kit.Hex(key))
		}
	}

	// mutated roots: every single bit (a sample of nbits of them when nbits < 256)
	for _, i := range samplePositions(8*len(root), nbits, append([]byte{0xfe}, key...)) {
		nmut++
		if bpVerify(proof, flipBit(root, i), key, want, !present) {
			return fmt.Sprintf("VIOL:bp-unsound proof for key %s verifies against a root with bit %d flipped", kit.Hex(key), i)
		}
	}
	nmut += 2
	if bpVerify(proof, nil, key, want, !present) || bpVerify(proof, []byte{}, key, want, !present) {
		return fmt.Sprintf("VIOL:bp-unsound proof for key %s verifies against an empty root", kit.Hex(key))
	}
	// mutated proof bytes of both operators (all bits when short, a sample otherwise)
	for oi := range proof.Ops {
		data := proof.Ops[oi].Data
		for _, b := range samplePositions(8*len(data), nbits, append([]byte{byte(oi)}, key...)) {
			q := cloneProof(proof)
			q.Ops[oi].Data = flipBit(data, b)
			nmut++
			if bpVerify(q, root, key, want, !present) {
				if sameMeaning(proof.Ops[oi], q.Ops[oi]) {
					continue // another encoding of the same message
				}
				if !present && oi == 0 && onlyNonexistKeyDiffers(data, q.Ops[oi].Data) {
					if pending == "" {
						pending = fmt.Sprintf("VIOL:bp-absence-key-unbound the absence proof for key %s still verifies after bit %d of its embedded NonExistenceProof.key is flipped (ics23 never compares that field)", kit.Hex(key), b)
					}
					continue
				}
				return fmt.Sprintf("VIOL:bp-proof-malleable proof for key %s (present=%v) still verifies with bit %d of op %d (%s) flipped: %s", kit.Hex(key), present, b, oi, proof.Ops[oi].Type, describeDiff(proof.Ops[oi], q.Ops[oi]))
			}
		}
		// truncated / extended
		for _, d := range [][]byte{data[:len(data)-1], append(append([]byte{}, data...), 0), {}} {
			q := cloneProof(proof)
			q.Ops[oi].Data = d
			nmut++
			if bpVerify(q, root, key, want, !present) && !sameMeaning(proof.Ops[oi], q.Ops[oi]) {
				return fmt.Sprintf("VIOL:bp-proof-malleable proof for key %s still verifies with op %d data resized to %d bytes", kit.Hex(key), oi, len(d))
			}
		}
	}
	// dropped / swapped operators
	for _, q := range []*merkle.Proof{{Ops: proof.Ops[:1]}, {Ops: proof.Ops[1:]}, {Ops: []merkle.ProofOp{proof.Ops[1], proof.Ops[0]}}} {
		nmut++
		if bpVerify(q, root, key, want, !present) {
			return fmt.Sprintf("VIOL:bp-unsound proof for key %s verifies with operators dropped or swapped", kit.Hex(key))
		}
	}

	// the literal clause "verifies only for that key": other absent keys of the same gap
	if !present {
		var inside [][]byte
		inside = append(inside, append(append([]byte{}, key...), 0), append(append([]byte{}, key...), 0xff))
		if len(key) > 1 {
			inside = append(inside, key[:len(key)-1])
		}
		inside = append(inside, flipBit(key, 8*len(key)-1))
		for _, k2 := range inside {
			if _, has := bp.committed[string(k2)]; has || len(k2) == 0 || bytes.Equal(k2, key) {
				continue
			}
			if sort.SearchStrings(keys, string(k2)) != pos {
				continue
			}
			if bpVerify(withKey(proof, k2), root, k2, nil, true) {
				return fmt.Sprintf("VIOL:bp-absence-key-unbound the absence proof generated for key %s also verifies for the different absent key %s of the same gap (%d other mutations rejected)", kit.Hex(key), kit.Hex(k2), nmut)
			}
		}
	}
	if pending != "" {
		return pending
	}
	return "ok"
}

// describeNeighbours: which neighbours the absence proof embeds vs. the true adjacent keys
func describeNeighbours(proof *merkle.Proof, keys []string, pos int) string {
	var cp ics23.CommitmentProof
	if cp.Unmarshal(proof.Ops[0].Data) != nil || cp.GetNonexist() == nil {
		return "proof is not a non-existence proof"
	}
	ne := cp.GetNonexist()
	show := func(e *ics23.ExistenceProof) string {
		if e == nil {
			return "none"
		}
		return kit.Hex(e.Key)
	}
	wl, wr := "none", "none"
	if pos > 0 {
		wl = kit.Hex([]byte(keys[pos-1]))
	}
	if pos < len(keys) {
		wr = kit.Hex([]byte(keys[pos]))
	}
	return fmt.Sprintf("embedded neighbours left=%s right=%s; true neighbours left=%s right=%s", show(ne.Left), show(ne.Right), wl, wr)
}

// bpIndex: GetByIndex / GetWithIndex of the committed tree against the sorted committed keys.
func bpIndex() string {
	if bp == nil || bp.ncommit == 0 || bp.mtree == nil {
		return "-"
	}
	imm, err := bp.mtree.GetImmutable(bp.cid.Version)
	if err != nil {
		return fmt.Sprintf("VIOL:bp-index cannot open committed version %d: %v", bp.cid.Version, err)
	}
	defer imm.Close()
	keys := sortedKeys(bp.committed)
	if imm.Size() != int64(len(keys)) {
		return fmt.Sprintf("VIOL:bp-index Size()=%d but %d keys are committed", imm.Size(), len(keys))
	}
	for i, k := range keys {
		gk, gv, err := imm.GetByIndex(int64(i))
		if err != nil || string(gk) != k || !bytes.Equal(gv, bp.committed[k]) {
			return fmt.Sprintf("VIOL:bp-index GetByIndex(%d) = (%s, err=%v), the %d-th committed key is %s", i, kit.Hex(gk), err, i, kit.Hex([]byte(k)))
		}
		idx, v, err := imm.GetWithIndex([]byte(k))
		if err != nil || idx != int64(i) || !bytes.Equal(v, bp.committed[k]) {
			return fmt.Sprintf("VIOL:bp-index GetWithIndex(%s) = (%d, err=%v), its rank is %d", kit.Hex([]byte(k)), idx, err, i)
		}
		// an absent key right after k has rank i+1
		ak := append([]byte(k), 0)
		if _, has := bp.committed[string(ak)]; !has {
			idx, v, err := imm.GetWithIndex(ak)
			if err != nil || idx != int64(i+1) || v != nil {
				return fmt.Sprintf("VIOL:bp-index GetWithIndex(absent %s) = (%d, value %s, err=%v), its insertion rank is %d", kit.Hex(ak), idx, kit.Hex(v), err, i+1)
			}
		}
	}
	return "ok"
}

// bpSweep: completeness over the WHOLE committed tree, one verification per proof (no mutations):
// every present key's membership proof verifies; for every present key k the absent key k‖0x00,
// plus one key before the first and one after the last, has a non-membership proof that verifies
// and embeds the true adjacent keys.
func bpSweep() string {
	if bp == nil || bp.ncommit == 0 {
		return "-"
	}
	keys := sortedKeys(bp.committed)
	if len(keys) == 0 {
		return "-"
	}
	root := bp.cid.Hash
	query := func(key []byte) abci.ResponseQuery {
		return bp.ms.Query(abci.RequestQuery{Path: "/" + bpStoreName + "/key", Data: key, Height: bp.cid.Version, Prove: true})
	}
	absent := func(key []byte) string {
		if _, has := bp.committed[string(key)]; has || len(key) == 0 {
			return ""
		}
		pos := sort.SearchStrings(keys, string(key))
		if (pos > 0 && len(bp.committed[keys[pos-1]]) == 0) || (pos < len(keys) && len(bp.committed[keys[pos]]) == 0) {
			return "" // documented: unprovable next to an empty value (bp-empty-value)
		}
		res := query(key)
		if res.Error != nil || res.Proof == nil || len(res.Proof.Ops) != 2 {
			return fmt.Sprintf("VIOL:bp-incomplete no non-membership proof produced for absent key %s: err=%v log=%q", kit.Hex(key), res.Error, res.Log)
		}
		if !bpVerify(res.Proof, root, key, nil, true) {
			return fmt.Sprintf("VIOL:bp-incomplete non-membership proof for absent key %s does not verify (%s)", kit.Hex(key), describeNeighbours(res.Proof, keys, pos))
		}
		return ""
	}
	for _, k := range keys {
		want := bp.committed[k]
		if len(want) > 0 {
			res := query([]byte(k))
			if res.Error != nil || res.Proof == nil || len(res.Proof.Ops) != 2 || !bytes.Equal(res.Value, want) || !bpVerify(res.Proof, root, []byte(k), want, false) {
				return fmt.Sprintf("VIOL:bp-incomplete membership proof for present key %s does not verify (err=%v log=%q)", kit.Hex([]byte(k)), res.Error, res.Log)
			}
		}
		if v := absent(append([]byte(k), 0)); v != "" {
			return v
		}
	}
	first := []byte(keys[0])
	before := first[:len(first)-1]
	if len(before) == 0 && first[0] > 0 {
		before = []byte{first[0] - 1}
	}
	if v := absent(before); v != "" {
		return v
	}
	if v := absent(append([]byte(keys[len(keys)-1]), 0xff)); v != "" {
		return v
	}
	return "ok"
}

func describeDiff(a, b merkle.ProofOp) string {
	prt := rootmulti.DefaultProofRuntime()
	x, _ := prt.Decode(a)
	y, _ := prt.Decode(b)
	s1, s2 := fmt.Sprintf("%+v", x), fmt.Sprintf("%+v", y)
	i := 0
	for i < len(s1) && i < len(s2) && s1[i] == s2[i] {
		i++
	}
	lo := i - 60
	if lo < 0 {
		lo = 0
	}
	hi1, hi2 := i+40, i+40
	if hi1 > len(s1) {
		hi1 = len(s1)
	}
	if hi2 > len(s2) {
		hi2 = len(s2)
	}
	return strings.ReplaceAll(fmt.Sprintf("decoded differs at %d: …%s… vs …%s…", i, s1[lo:hi1], s2[lo:hi2]), "\n", " ")
}

func execBP(t []string) (impl string, oracle string) {
	// a panic on the proof / index path (e.g. "index out of range in treeGetByIndex") is a verdict, not a crash
	defer func() {
		if v := recover(); v != nil {
			impl, oracle = "bp", fmt.Sprintf("VIOL:bp-panic %s panicked: %v", strings.Join(t, " "), v)
		}
	}()
	switch t[0] {
	case "bpnew":
		bpNew()
		return "bp", "-"
	case "bpset":
		if bp == nil || len(t) != 3 {
			return "bp", "-"
		}
		k, ok1 := hexAny(t[1])
		v, ok2 := hexAny(t[2])
		if !ok1 || !ok2 || len(k) == 0 {
			return "bp", "-"
		}
		if v == nil {
			v = []byte{}
		}
		bp.ms.GetStore(bp.key).Set(nil, k, v)
		bp.working[string(k)] = append([]byte{}, v...)
		return "bp", "-"
	case "bpdel":
		if bp == nil || len(t) != 2 {
			return "bp", "-"
		}
		k, ok := hexAny(t[1])
		if !ok || len(k) == 0 {
			return "bp", "-"
		}
		bp.ms.GetStore(bp.key).Delete(nil, k)
		delete(bp.working, string(k))
		return "bp", "-"
	case "bpcommit":
		if bp == nil {
			return "bp", "-"
		}
		// the aux store changes too, so the commit-info map has two moving leaves
		bp.ms.GetStore(bp.aux).Set(nil, []byte("n"), []byte{byte(bp.ncommit)})
		bp.cid = bp.ms.Commit()
		bp.ncommit++
		bp.committed = map[string][]byte{}
		for k, v := range bp.working {
			bp.committed[k] = v
		}
		return "bp", "-"
	case "bpidx":
		return "bp", bpIndex()
	case "bpsweep":
		return "bp", bpSweep()
	case "bpprove":
		if len(t) != 2 && len(t) != 3 {
			return "bp", "-"
		}
		k, ok := hexAny(t[1])
		if !ok {
			return "bp", "-"
		}
		nbits := 200
		if len(t) == 3 {
			n, err := strconv.Atoi(t[2])
			if err != nil || n < 0 || n > 100000 {
				return "bp", "-"
			}
			nbits = n
		}
		return "bp", bpProve(k, nbits)
	}
	return "bp", "-"
}
