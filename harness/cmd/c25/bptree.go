// STAGE 2 placeholder (filled in after stage 1 is green and proved).
package main

func execBP(t []string) (string, string) { return "bp", "-" }
