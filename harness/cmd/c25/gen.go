package main

// Generators for C25 (stage 1).  Proofs that the generator mutates are built
// with the ORACLE's from-scratch Merkle code, never with the package under
// test, so a generated "valid" line is valid by the reference definition.

import (
	"fmt"
	"sort"
	"strings"

	"gnoverif/kit"
)

type vargs struct {
	total, index int64
	lh, root     []byte
	leaf         []byte
	aunts        [][]byte
}

func (v vargs) clone() vargs {
	c := v
	c.lh = append([]byte(nil), v.lh...)
	if v.lh == nil {
		c.lh = nil
	}
	c.root = append([]byte(nil), v.root...)
	if v.root == nil {
		c.root = nil
	}
	c.leaf = append([]byte{}, v.leaf...)
	c.aunts = make([][]byte, len(v.aunts))
	for i, a := range v.aunts {
		c.aunts[i] = append([]byte{}, a...)
	}
	return c
}

func proofToks(total, index int64, lh []byte, aunts [][]byte) string {
	var sb strings.Builder
	fmt.Fprintf(&sb, "%d %d %s %d", total, index, kit.Hex(lh), len(aunts))
	for _, a := range aunts {
		sb.WriteByte(' ')
		sb.WriteString(kit.Hex(a))
	}
	return sb.String()
}

func emitVerify(o *kit.Out, v vargs) {
	var sb strings.Builder
	fmt.Fprintf(&sb, "verify %d %d %s %s %s %d", v.total, v.index, kit.Hex(v.lh), kit.Hex(v.root), kit.Hex(v.leaf), len(v.aunts))
	for _, a := range v.aunts {
		sb.WriteByte(' ')
		sb.WriteString(kit.Hex(a))
	}
	o.Op("%s", sb.String())
}

func emitItems(o *kit.Out, items [][]byte) {
	var sb strings.Builder
	fmt.Fprintf(&sb, "items %d", len(items))
	for _, it := range items {
		sb.WriteByte(' ')
		sb.WriteString(kit.Hex(it))
	}
	o.Op("%s", sb.String())
}

func baseProof(items [][]byte, i int) vargs {
	return vargs{
		total: int64(len(items)), index: int64(i),
		lh: oLeaf(items[i]), root: oRoot(items), leaf: append([]byte{}, items[i]...),
		aunts: oAunts(items, i),
	}
}

func flip(b []byte, bit int) []byte {
	c := append([]byte{}, b...)
	c[bit/8] ^= 1 << uint(bit%8)
	return c
}

// structural (non-bit) mutations of a proof
func structural(r *kit.Rand, v vargs) []vargs {
	var out []vargs
	add := func(f func(c *vargs)) {
		c := v.clone()
		f(&c)
		out = append(out, c)
	}
	add(func(c *vargs) { c.index++ })
	add(func(c *vargs) { c.index-- })
	add(func(c *vargs) { c.total++ })
	add(func(c *vargs) { c.total-- })
	add(func(c *vargs) { c.total++; c.index++ })
	add(func(c *vargs) { c.total = 0 })
	add(func(c *vargs) { c.total = 0; c.index = 0 })
	add(func(c *vargs) { c.total = -c.total })
	add(func(c *vargs) { c.index = -c.index - 1 })
	add(func(c *vargs) { c.index = c.total })
	add(func(c *vargs) { c.total *= 2 })
	add(func(c *vargs) { c.root = nil })
	add(func(c *vargs) { c.root = []byte{} })
	add(func(c *vargs) { c.lh = nil })
	add(func(c *vargs) { c.lh = []byte{} })
	add(func(c *vargs) { c.lh = c.lh[:31] })
	add(func(c *vargs) { c.lh = append(c.lh, 0) })
	add(func(c *vargs) { c.root = c.root[:31] })
	add(func(c *vargs) { c.root = append(c.root, 0) })
	add(func(c *vargs) { c.leaf = append(c.leaf, 0) })
	add(func(c *vargs) { c.leaf = append([]byte{0}, c.leaf...) })
	add(func(c *vargs) { c.aunts = append(c.aunts, r.Bytes(32)) })
	add(func(c *vargs) { c.aunts = append([][]byte{r.Bytes(32)}, c.aunts...) })
	add(func(c *vargs) { c.aunts = append(c.aunts, []byte{}) })
	add(func(c *vargs) { c.lh, c.root = c.root, c.lh })
	// an inner node presented as a leaf: leaf := 0x01-less preimage of the root's children
	if len(v.leaf) > 0 {
		add(func(c *vargs) { c.leaf = c.leaf[:len(c.leaf)-1] })
	}
	if len(v.aunts) > 0 {
		add(func(c *vargs) { c.aunts = c.aunts[1:] })
		add(func(c *vargs) { c.aunts = c.aunts[:len(c.aunts)-1] })
		add(func(c *vargs) { c.aunts = append(c.aunts, c.aunts[len(c.aunts)-1]) })
		add(func(c *vargs) { c.aunts[0] = c.aunts[0][:31] })
		add(func(c *vargs) { c.aunts[len(c.aunts)-1] = append(c.aunts[len(c.aunts)-1], 0) })
		add(func(c *vargs) { c.aunts[0] = []byte{} })
	}
	if len(v.aunts) > 1 {
		add(func(c *vargs) { c.aunts[0], c.aunts[1] = c.aunts[1], c.aunts[0] })
		add(func(c *vargs) {
			n := len(c.aunts)
			c.aunts[0], c.aunts[n-1] = c.aunts[n-1], c.aunts[0]
		})
	}
	return out
}

// every single-bit mutation of every field
func allBitMutations(v vargs) []vargs {
	var out []vargs
	for b := 0; b < 8*len(v.leaf); b++ {
		c := v.clone()
		c.leaf = flip(v.leaf, b)
		out = append(out, c)
	}
	for b := 0; b < 8*len(v.lh); b++ {
		c := v.clone()
		c.lh = flip(v.lh, b)
		out = append(out, c)
	}
	for b := 0; b < 8*len(v.root); b++ {
		c := v.clone()
		c.root = flip(v.root, b)
		out = append(out, c)
	}
	for j := range v.aunts {
		for b := 0; b < 8*len(v.aunts[j]); b++ {
			c := v.clone()
			c.aunts[j] = flip(v.aunts[j], b)
			out = append(out, c)
		}
	}
	for b := 0; b < 64; b++ {
		c := v.clone()
		c.index = int64(uint64(v.index) ^ (1 << uint(b)))
		out = append(out, c)
		c = v.clone()
		c.total = int64(uint64(v.total) ^ (1 << uint(b)))
		out = append(out, c)
	}
	return out
}

// one random single-bit mutation
func randBitMutation(r *kit.Rand, v vargs) vargs {
	c := v.clone()
	for {
		switch r.Intn(6) {
		case 0:
			if len(v.leaf) == 0 {
				continue
			}
			c.leaf = flip(v.leaf, r.Intn(8*len(v.leaf)))
		case 1:
			if len(v.lh) == 0 {
				continue
			}
			c.lh = flip(v.lh, r.Intn(8*len(v.lh)))
		case 2:
			if len(v.root) == 0 {
				continue
			}
			c.root = flip(v.root, r.Intn(8*len(v.root)))
		case 3:
			if len(v.aunts) == 0 {
				continue
			}
			j := r.Intn(len(v.aunts))
			if len(v.aunts[j]) == 0 {
				continue
			}
			c.aunts[j] = flip(v.aunts[j], r.Intn(8*len(v.aunts[j])))
		case 4:
			// low bits are the interesting ones (stay near valid indices) — and the sign bit
			b := r.Intn(8)
			if r.Chance(15) {
				b = r.Intn(64)
			}
			c.index = int64(uint64(v.index) ^ (1 << uint(b)))
		case 5:
			b := r.Intn(8)
			if r.Chance(15) {
				b = r.Intn(64)
			}
			c.total = int64(uint64(v.total) ^ (1 << uint(b)))
		}
		return c
	}
}

func randItem(r *kit.Rand) []byte {
	switch r.Intn(12) {
	case 0:
		return []byte{}
	case 1:
		return []byte{byte(r.Intn(3))} // 0x00/0x01/0x02: the domain-separation bytes as content
	case 2:
		return r.Bytes(32) // hash-sized item
	case 3:
		return append([]byte{1}, r.Bytes(64)...) // looks like an inner-node preimage
	case 4:
		return r.Bytes(40)
	}
	return r.Bytes(r.Intn(41))
}

func randItems(r *kit.Rand, n int, dupPct int) [][]byte {
	items := make([][]byte, n)
	for i := range items {
		if i > 0 && r.Chance(dupPct) {
			items[i] = append([]byte{}, items[r.Intn(i)]...)
		} else {
			items[i] = randItem(r)
		}
	}
	return items
}

// indices worth proving in a tree of n items
func interestingIndices(r *kit.Rand, n, extra int) []int {
	if n == 0 {
		return nil
	}
	set := map[int]bool{}
	var out []int
	add := func(i int) {
		if i >= 0 && i < n && !set[i] {
			set[i] = true
			out = append(out, i)
		}
	}
	if n <= 16 {
		for i := 0; i < n; i++ {
			add(i)
		}
		return out
	}
	k := int(oSplit(int64(n)))
	for _, i := range []int{0, 1, k - 1, k, k + 1, n - 2, n - 1} {
		add(i)
	}
	for j := 0; j < extra; j++ {
		add(r.Intn(n))
	}
	return out
}

func treeCase(o *kit.Out, r *kit.Rand, id string, items [][]byte, idx []int, fullBits bool, nRandMut int) {
	o.Case(id)
	emitItems(o, items)
	o.Op("prove %d", len(items)) // out of range
	for _, i := range idx {
		o.Op("prove %d", i)
		v := baseProof(items, i)
		emitVerify(o, v)
		o.Op("crh %s", proofToks(v.total, v.index, v.lh, v.aunts))
		o.Op("vb %s", proofToks(v.total, v.index, v.lh, v.aunts))
		if fullBits {
			for _, m := range allBitMutations(v) {
				emitVerify(o, m)
			}
		}
		if fullBits || nRandMut > 0 {
			for _, m := range structural(r, v) {
				emitVerify(o, m)
			}
		}
		for j := 0; j < nRandMut; j++ {
			emitVerify(o, randBitMutation(r, v))
		}
		// the proof of another index presented for this leaf, and vice versa
		if len(items) > 1 {
			j := (i + 1 + r.Intn(len(items)-1)) % len(items)
			w := baseProof(items, j)
			m := w.clone()
			m.leaf = v.leaf
			emitVerify(o, m)
			m = w.clone()
			m.leaf, m.lh = v.leaf, v.lh
			emitVerify(o, m)
			m = v.clone()
			m.index = int64(j)
			emitVerify(o, m)
		}
	}
}

var shaLens = []int{0, 1, 2, 3, 31, 32, 33, 54, 55, 56, 57, 62, 63, 64, 65, 66, 118, 119, 120, 121, 126, 127, 128, 129, 183, 184, 191, 192, 193, 247, 248, 255, 256, 257}

func genSha(o *kit.Out, r *kit.Rand, nRand int) {
	o.Case("sha")
	o.Op("sha e")
	o.Op("sha 616263")
	for _, n := range shaLens {
		b := make([]byte, n)
		for i := range b {
			b[i] = byte(i*7 + n)
		}
		o.Op("sha %s", kit.Hex(b))
		o.Op("sha %s", kit.Hex(r.Bytes(n)))
		o.Op("sha %s", kit.Hex(make([]byte, n)))
		ff := make([]byte, n)
		for i := range ff {
			ff[i] = 0xff
		}
		o.Op("sha %s", kit.Hex(ff))
	}
	for i := 0; i < nRand; i++ {
		o.Op("sha %s", kit.Hex(r.Bytes(r.Intn(400))))
	}
}

// the behaviours that contradict(ed) the statement: nil-root (fixed in /repo 96b4d2262f, now a regression check) and total-malleable
func genFindingWitnesses(o *kit.Out) {
	o.Case("regression-nil-root")
	o.Op("items 0")
	leaf := []byte("anything")
	o.Op("verify 0 0 %s - %s 0", kit.Hex(oLeaf(leaf)), kit.Hex(leaf))
	o.Op("verify 1 1 %s e %s 0", kit.Hex(oLeaf(leaf)), kit.Hex(leaf))
	tx := []byte("forged tx")
	o.Op("txp - - %s 1 1 %s 0", kit.Hex(tx), kit.Hex(oLeaf(oSum(tx))))
	o.Case("finding-total-malleable")
	items := [][]byte{{1}, {2}, {3}, {4}, {5}}
	emitItems(o, items)
	v := baseProof(items, 0)
	emitVerify(o, v)
	v.total = 7
	emitVerify(o, v)
	v.total = 8
	emitVerify(o, v)
}

func genTxp(o *kit.Out, r *kit.Rand, cases int) {
	for c := 0; c < cases; c++ {
		n := r.Range(1, 9)
		o.Case(fmt.Sprintf("txp-%d", c))
		txs := make([][]byte, n)
		leaves := make([][]byte, n)
		for i := range txs {
			txs[i] = r.Bytes(r.Range(1, 30))
			leaves[i] = oSum(txs[i])
		}
		root := oRoot(leaves)
		for i := 0; i < n; i++ {
			a := oAunts(leaves, i)
			lh := oLeaf(leaves[i])
			pt := proofToks(int64(n), int64(i), lh, a)
			o.Op("txp %s %s %s %s", kit.Hex(root), kit.Hex(root), kit.Hex(txs[i]), pt)
			o.Op("txp %s %s %s %s", kit.Hex(flip(root, r.Intn(256))), kit.Hex(root), kit.Hex(txs[i]), pt)
			o.Op("txp %s %s %s %s", kit.Hex(root), kit.Hex(root), kit.Hex(flip(txs[i], r.Intn(8*len(txs[i])))), pt)
			o.Op("txp %s %s %s %s", kit.Hex(root), kit.Hex(root), kit.Hex(txs[i]), proofToks(0, int64(i), lh, a))
			o.Op("txp %s %s %s %s", kit.Hex(root), kit.Hex(root), kit.Hex(txs[i]), proofToks(int64(n), -1, lh, a))
			o.Op("txp %s %s %s %s", kit.Hex(root), kit.Hex(root), kit.Hex(txs[i]), proofToks(int64(n), int64((i+1)%n), lh, a))
			if len(a) > 0 {
				b := append([][]byte{}, a...)
				b[r.Intn(len(b))] = r.Bytes(32)
				o.Op("txp %s %s %s %s", kit.Hex(root), kit.Hex(root), kit.Hex(txs[i]), proofToks(int64(n), int64(i), lh, b))
			}
		}
		// forged inclusion in an empty block (DataHash = nil)
		tx := r.Bytes(r.Range(1, 20))
		lh := oLeaf(oSum(tx))
		o.Op("txp - - %s 1 0 %s 0", kit.Hex(tx), kit.Hex(lh))
		o.Op("txp - - %s %d %d %s 0", kit.Hex(tx), r.Range(1, 5), r.Range(5, 9), kit.Hex(lh))
		o.Op("txp e - %s 2 0 %s 0", kit.Hex(tx), kit.Hex(lh))
	}
}

// ------------------------------------------------------------------ maps

type kv struct{ k, v []byte }

func randKey(r *kit.Rand) []byte {
	switch r.Intn(14) {
	case 0:
		return []byte{}
	case 1:
		return r.Bytes(127)
	case 2:
		return r.Bytes(128)
	case 3:
		return r.Bytes(129)
	case 4:
		return r.Bytes(300)
	case 5:
		return []byte{byte(r.Intn(4))}
	}
	// store-name-like
	n := r.Range(1, 12)
	b := make([]byte, n)
	for i := range b {
		b[i] = "abcdefgh_/0123"[r.Intn(14)]
	}
	return b
}

func randEntries(r *kit.Rand, n int) []kv {
	seen := map[string]bool{}
	var es []kv
	for len(es) < n {
		k := randKey(r)
		if len(es) > 0 && r.Chance(20) {
			// a key sharing a prefix with an existing key (sort-order and encoding boundaries)
			k = append(append([]byte{}, es[r.Intn(len(es))].k...), r.Bytes(r.Intn(3))...)
		}
		if seen[string(k)] {
			continue
		}
		seen[string(k)] = true
		v := r.Bytes(r.Intn(41))
		if r.Chance(10) && len(es) > 0 {
			v = append([]byte{}, es[r.Intn(len(es))].v...) // duplicate values
		}
		es = append(es, kv{k, v})
	}
	return es
}

func emitMap(o *kit.Out, es []kv) {
	var sb strings.Builder
	fmt.Fprintf(&sb, "map %d", len(es))
	for _, e := range es {
		sb.WriteByte(' ')
		sb.WriteString(kit.Hex(e.k))
		sb.WriteByte(' ')
		sb.WriteString(kit.Hex(e.v))
	}
	o.Op("%s", sb.String())
}

func emitMverify(o *kit.Out, key, value, root []byte, total, index int64, lh []byte, aunts [][]byte) {
	o.Op("mverify %s %s %s %s", kit.Hex(key), kit.Hex(value), kit.Hex(root), proofToks(total, index, lh, aunts))
}

func mapCase(o *kit.Out, r *kit.Rand, id string, es []kv, nMut int) {
	o.Case(id)
	emitMap(o, es)
	// the same map inserted in other orders
	for p := 0; p < 2 && len(es) > 1; p++ {
		q := append([]kv{}, es...)
		for i := len(q) - 1; i > 0; i-- {
			j := r.Intn(i + 1)
			q[i], q[j] = q[j], q[i]
		}
		emitMap(o, q)
	}
	m := map[string][]byte{}
	for _, e := range es {
		m[string(e.k)] = e.v
	}
	keys, leaves := oMapLeaves(m)
	root := oRoot(leaves)
	o.Op("mprove %s", kit.Hex(r.Bytes(5))) // absent key
	for i, k := range keys {
		if len(keys) > 8 && !r.Chance(40) {
			continue
		}
		key, value := []byte(k), m[k]
		o.Op("mprove %s", kit.Hex(key))
		lh := oLeaf(leaves[i])
		a := oAunts(leaves, i)
		n := int64(len(keys))
		emitMverify(o, key, value, root, n, int64(i), lh, a)
		// other value / other key / moved key-value boundary
		emitMverify(o, key, append(append([]byte{}, value...), 0), root, n, int64(i), lh, a)
		emitMverify(o, append(append([]byte{}, key...), 0), value, root, n, int64(i), lh, a)
		if len(key) > 0 {
			emitMverify(o, key[:len(key)-1], append([]byte{key[len(key)-1]}, value...), root, n, int64(i), lh, a)
			emitMverify(o, flip(key, r.Intn(8*len(key))), value, root, n, int64(i), lh, a)
		}
		if len(value) > 0 {
			emitMverify(o, key, flip(value, r.Intn(8*len(value))), root, n, int64(i), lh, a)
		}
		if len(keys) > 1 {
			j := (i + 1 + r.Intn(len(keys)-1)) % len(keys)
			emitMverify(o, []byte(keys[j]), value, root, n, int64(i), lh, a)
			emitMverify(o, key, m[keys[j]], root, n, int64(i), lh, a)
			emitMverify(o, []byte(keys[j]), m[keys[j]], root, n, int64(i), lh, a) // right entry, wrong proof
		}
		emitMverify(o, key, value, nil, n, int64(i), lh, a)
		emitMverify(o, key, value, nil, 0, 0, lh, nil)
		emitMverify(o, key, value, []byte{}, n, n, lh, a)
		for j := 0; j < nMut; j++ {
			v := randBitMutation(r, vargs{total: n, index: int64(i), lh: lh, root: root, leaf: []byte{1}, aunts: a})
			if len(v.leaf) != 1 || v.leaf[0] != 1 {
				continue // leaf is not an argument of mverify
			}
			emitMverify(o, key, value, v.root, v.total, v.index, v.lh, v.aunts)
		}
	}
}

// ------------------------------------------------------------------ malformed stream

func randInt(r *kit.Rand) int64 {
	switch r.Intn(10) {
	case 0:
		return 0
	case 1:
		return -1
	case 2:
		return int64(-r.Intn(1000))
	case 3:
		return 1<<63 - 1
	case 4:
		return -1 << 63
	case 5:
		return int64(1)<<uint(r.Range(1, 62)) + int64(r.Intn(3)) - 1
	case 6:
		return r.I64()
	}
	return int64(r.Intn(40))
}

func randHashish(r *kit.Rand) []byte {
	switch r.Intn(10) {
	case 0:
		return nil
	case 1:
		return []byte{}
	case 2:
		return r.Bytes(31)
	case 3:
		return r.Bytes(33)
	}
	return r.Bytes(32)
}

func genMalformed(o *kit.Out, r *kit.Rand, n int) {
	o.Case("malformed")
	emitItems(o, randItems(r, 5, 0))
	for i := 0; i < n; i++ {
		total, index := randInt(r), randInt(r)
		if r.Chance(60) {
			total = int64(r.Range(1, 40))
			index = int64(r.Intn(int(total) + 1))
			if r.Chance(10) {
				index = -index
			}
		}
		leaf := randItem(r)
		lh := randHashish(r)
		if r.Chance(70) {
			lh = oLeaf(leaf)
		}
		na := r.Intn(7)
		if dirs, ok := oDirs(index, total); ok && r.Chance(75) {
			na = len(dirs)
		}
		if r.Chance(3) {
			na = r.Range(98, 103) // around maxAunts
		}
		aunts := make([][]byte, na)
		for j := range aunts {
			aunts[j] = r.Bytes(32)
			if r.Chance(4) {
				aunts[j] = randHashish(r)
			}
		}
		root := randHashish(r)
		if want, ok := oChain(index, total, lh, aunts); ok && r.Chance(70) {
			root = want // a self-consistent proof for some other tree
		}
		switch r.Intn(4) {
		case 0, 1:
			emitVerify(o, vargs{total: total, index: index, lh: lh, root: root, leaf: leaf, aunts: aunts})
		case 2:
			o.Op("crh %s", proofToks(total, index, lh, aunts))
		case 3:
			o.Op("vb %s", proofToks(total, index, lh, aunts))
		}
	}
	// unparsable lines
	o.Op("verify 1 0")
	o.Op("verify x 0 - - e 0")
	o.Op("verify 9223372036854775808 0 - - e 0")
	o.Op("verify 1 0 zz - e 0")
	o.Op("verify 1 0 - - e 2 00")
	o.Op("items 3 00 01")
	o.Op("items 1 00 01")
	o.Op("prove -1")
	o.Op("map 1 00")
	o.Op("map 2 00 01 00 02")
	o.Op("frobnicate")
}

// ------------------------------------------------------------------ main generator

func gen(o *kit.Out, r *kit.Rand, tier string) {
	thorough := tier == "thorough"
	genFindingWitnesses(o)
	genSha(o, r.Fork(), map[bool]int{false: 60, true: 400}[thorough])

	// boundary table 1: every size 0..70, deterministic small items, interesting indices
	rb := r.Fork()
	maxN := 70
	for n := 0; n <= maxN; n++ {
		items := make([][]byte, n)
		for i := range items {
			l := (i*7 + n) % 41
			items[i] = make([]byte, l)
			for j := range items[i] {
				items[i][j] = byte(i + j*3 + n)
			}
		}
		treeCase(o, rb, fmt.Sprintf("size-%d", n), items, interestingIndices(rb, n, 2), false, 3)
	}
	// boundary table 2: ALL single-bit mutations of every proof of the small trees
	rs := r.Fork()
	small := 5
	if thorough {
		small = 8
	}
	for n := 1; n <= small; n++ {
		items := randItems(rs, n, 0)
		for i := range items {
			if len(items[i]) > 6 {
				items[i] = items[i][:6] // keep the leaf-bit enumeration small
			}
		}
		all := make([]int, n)
		for i := range all {
			all[i] = i
		}
		if !thorough && n == 5 {
			all = []int{0, 4} // the deepest and the shallowest leaf
		}
		treeCase(o, rs, fmt.Sprintf("allbits-%d", n), items, all, true, 0)
	}
	// boundary table 3: duplicates (an index mutation may legitimately verify)
	rd := r.Fork()
	for n := 2; n <= 9; n++ {
		same := make([][]byte, n)
		for i := range same {
			same[i] = []byte{0xab}
		}
		treeCase(o, rd, fmt.Sprintf("allsame-%d", n), same, interestingIndices(rd, n, 0), false, 6)
		treeCase(o, rd, fmt.Sprintf("dups-%d", n), randItems(rd, n, 50), interestingIndices(rd, n, 0), false, 6)
	}
	// around the powers of two (split-point boundaries) with larger trees
	rp := r.Fork()
	sizes := []int{127, 128, 129, 255, 256, 257}
	if thorough {
		sizes = append(sizes, 511, 512, 513, 999, 1000, 1023, 1024, 1025)
	}
	for _, n := range sizes {
		treeCase(o, rp, fmt.Sprintf("pow2-%d", n), randItems(rp, n, 5), interestingIndices(rp, n, 1), false, 4)
	}

	// maps
	rm := r.Fork()
	for n := 0; n <= 12; n++ {
		mapCase(o, rm, fmt.Sprintf("map-%d", n), randEntries(rm, n), 6)
	}
	if thorough {
		for _, n := range []int{31, 32, 33, 64, 100} {
			mapCase(o, rm, fmt.Sprintf("map-%d", n), randEntries(rm, n), 3)
		}
	}
	genTxp(o, r.Fork(), map[bool]int{false: 8, true: 40}[thorough])

	// structured random
	rr := r.Fork()
	cases := 150
	if thorough {
		cases = 500
	}
	for c := 0; c < cases; c++ {
		n := rr.Intn(71)
		if rr.Chance(10) {
			n = rr.Intn(8)
		}
		if thorough && rr.Chance(4) {
			n = rr.Range(71, 1000)
		}
		items := randItems(rr, n, 10)
		var idx []int
		for j := 0; j < 3 && n > 0; j++ {
			idx = append(idx, rr.Intn(n))
		}
		treeCase(o, rr, fmt.Sprintf("rand-%d", c), items, idx, false, 8)
		if rr.Chance(25) {
			mapCase(o, rr, fmt.Sprintf("randmap-%d", c), randEntries(rr, rr.Intn(16)), 4)
		}
	}
	genMalformed(o, r.Fork(), map[bool]int{false: 3000, true: 12000}[thorough])
	genBP(o, r.Fork(), thorough)
}

// ------------------------------------------------------------------ stage 2: bptree / ics23 (oracle only)

func bpRandKey(r *kit.Rand, existing [][]byte) []byte {
	switch {
	case len(existing) > 0 && r.Chance(25):
		// neighbour-ish: an existing key with a byte appended / its last byte nudged / a prefix
		k := append([]byte{}, existing[r.Intn(len(existing))]...)
		switch r.Intn(4) {
		case 0:
			return append(k, byte(r.Intn(3)))
		case 1:
			k[len(k)-1]++
			return k
		case 2:
			k[len(k)-1]--
			return k
		default:
			if len(k) > 1 {
				return k[:len(k)-1]
			}
			return append(k, 0xff)
		}
	case r.Chance(10):
		return []byte{byte(r.Intn(256))}
	case r.Chance(5):
		return r.Bytes(r.Range(60, 200))
	}
	return r.Bytes(r.Range(1, 12))
}

func bpCase(o *kit.Out, r *kit.Rand, id string, n int, rounds int, emptyVals bool, nprove int, nbits int) {
	o.Case(id)
	o.Op("bpnew")
	var keys [][]byte
	live := map[string]bool{}
	for round := 0; round < rounds; round++ {
		m := n
		if round > 0 {
			m = n/4 + 1
		}
		for i := 0; i < m; i++ {
			k := bpRandKey(r, keys)
			v := r.Bytes(r.Range(1, 40))
			if emptyVals && i%3 == 1 {
				v = []byte{}
			}
			o.Op("bpset %s %s", kit.Hex(k), kit.Hex(v))
			if !live[string(k)] {
				live[string(k)] = true
				keys = append(keys, k)
			}
		}
		if round > 0 {
			// delete some, overwrite some
			for i := 0; i < n/6+1 && len(keys) > 1; i++ {
				j := r.Intn(len(keys))
				o.Op("bpdel %s", kit.Hex(keys[j]))
				delete(live, string(keys[j]))
				keys = append(keys[:j], keys[j+1:]...)
			}
		}
		o.Op("bpcommit")
		// present keys
		if emptyVals {
			for _, k := range keys {
				o.Op("bpprove %s %d", kit.Hex(k), nbits)
				o.Op("bpprove %s %d", kit.Hex(append(append([]byte{}, k...), 0)), nbits) // absent, right after k
			}
		}
		for i := 0; i < nprove && len(keys) > 0; i++ {
			o.Op("bpprove %s %d", kit.Hex(keys[r.Intn(len(keys))]), nbits)
		}
		// smallest and largest present keys and keys just outside / between
		if len(keys) > 0 {
			mn, mx := keys[0], keys[0]
			for _, k := range keys {
				if string(k) < string(mn) {
					mn = k
				}
				if string(k) > string(mx) {
					mx = k
				}
			}
			o.Op("bpprove %s %d", kit.Hex(mn), nbits)
			o.Op("bpprove %s %d", kit.Hex(mx), nbits)
			o.Op("bpprove %s %d", kit.Hex(append(append([]byte{}, mx...), 0)), nbits) // after-last
			o.Op("bpprove ffffffffffffffffffffffffffffffffffffffffffffffffffffffffffffffffffffffffffffffffffffffffffffffffffffffffffffffffffffffffffffffff")
			if len(mn) > 1 {
				o.Op("bpprove %s %d", kit.Hex(mn[:len(mn)-1]), nbits) // before-first
			} else if mn[0] > 0 {
				o.Op("bpprove %s %d", kit.Hex([]byte{mn[0] - 1}), nbits)
			}
			o.Op("bpprove 00")
		}
		// absent keys: between neighbours and random
		for i := 0; i < nprove; i++ {
			o.Op("bpprove %s %d", kit.Hex(bpRandKey(r, keys)), nbits)
		}
	}
}

// bpInnerRedistribute: the deterministic large-tree boundary case.  2000 sequential keys give a
// three-level tree with uniformly filled leaves; thinning every other 31-key block by a varying
// number of keys makes adjacent leaves (hence the first two children of every inner node) differ
// in size; draining from the front then makes the first inner node underflow repeatedly and
// borrow child subtrees from its RIGHT inner sibling (redistributeLeft, inner branch) before it
// finally merges.  After every stage: index consistency, membership proofs, and non-membership
// proofs for removed keys / between neighbours / before-first / after-last across the whole range.
func bpInnerRedistribute(o *kit.Out, n, step, stages, sweepEvery int) {
	keyOf := func(i int) []byte { return []byte(fmt.Sprintf("k%05d", i)) }
	o.Case(fmt.Sprintf("bp-inner-redistribute-%d", n))
	o.Op("bpnew")
	present := make([]bool, n)
	for i := 0; i < n; i++ {
		o.Op("bpset %s %s", kit.Hex(keyOf(i)), kit.Hex([]byte(fmt.Sprintf("val%05d", i))))
		present[i] = true
	}
	o.Op("bpcommit")
	for b := 1; b*31+10 < n; b += 2 {
		for j := 0; j < 2+b%5; j++ {
			i := b*31 + 3 + j
			o.Op("bpdel %s", kit.Hex(keyOf(i)))
			present[i] = false
		}
	}
	stage := 0
	probe := func() {
		o.Op("bpcommit")
		o.Op("bpidx")
		if stage%sweepEvery == 0 {
			o.Op("bpsweep")
		}
		stage++
		first := 0
		for first < n && !present[first] {
			first++
		}
		if first >= n {
			return
		}
		o.Op("bpprove %s 4", kit.Hex(keyOf(first)))
		o.Op("bpprove %s 4", kit.Hex(keyOf(n-1)))
		o.Op("bpprove 61 4") // before-first
		o.Op("bpprove 7a 4") // after-last
		if first > 0 {
			o.Op("bpprove %s 4", kit.Hex(keyOf(first-1))) // removed, just before the first key
		}
		for _, f := range []int{1, 2, 3, 4, 5, 6, 7} {
			i := first + (n-1-first)*f/8
			if present[i] {
				o.Op("bpprove %s 4", kit.Hex(keyOf(i)))
				o.Op("bpprove %s 4", kit.Hex(append(keyOf(i), '!'))) // between neighbours
			} else {
				o.Op("bpprove %s 4", kit.Hex(keyOf(i))) // a removed key
			}
		}
	}
	probe()
	next := 0
	for st := 0; st < stages && next+step < n-64; st++ {
		for j := 0; j < step; j++ {
			if present[next] {
				o.Op("bpdel %s", kit.Hex(keyOf(next)))
				present[next] = false
			}
			next++
		}
		probe()
	}
}

// bpHistory (thorough): a large random tree, then drains of contiguous key ranges at the front,
// in the middle and at the back that force inner-node redistributeLeft / redistributeRight and
// merges; after each chunk: index consistency and proofs around every touched boundary.
func bpHistory(o *kit.Out, r *kit.Rand, id string, n int) {
	o.Case(id)
	o.Op("bpnew")
	seen := map[string]bool{}
	var keys []string
	sequential := r.Chance(35)
	for len(keys) < n {
		var k []byte
		if sequential {
			k = []byte(fmt.Sprintf("s%06d", len(keys)*3))
		} else {
			k = r.Bytes(r.Range(2, 9))
		}
		if seen[string(k)] {
			continue
		}
		seen[string(k)] = true
		keys = append(keys, string(k))
		o.Op("bpset %s %s", kit.Hex(k), kit.Hex(r.Bytes(r.Range(1, 12))))
	}
	sortStrings(keys)
	o.Op("bpcommit")
	o.Op("bpidx")
	if sequential {
		// non-uniform leaves
		for i := 40; i+40 < len(keys); i += r.Range(20, 70) {
			m := r.Range(1, 9)
			for j := 0; j < m && i < len(keys); j++ {
				o.Op("bpdel %s", kit.Hex([]byte(keys[i])))
				keys = append(keys[:i], keys[i+1:]...)
			}
		}
	}
	probeAround := func(i int) {
		for _, j := range []int{i - 1, i, i + 1} {
			if j < 0 || j >= len(keys) {
				continue
			}
			k := []byte(keys[j])
			o.Op("bpprove %s 4", kit.Hex(k))
			o.Op("bpprove %s 4", kit.Hex(append(append([]byte{}, k...), 0)))
			if len(k) > 1 {
				o.Op("bpprove %s 4", kit.Hex(k[:len(k)-1]))
			}
		}
	}
	drains := r.Range(2, 4)
	nchunk := 0
	for d := 0; d < drains && len(keys) > 200; d++ {
		var lo int
		switch r.Intn(3) {
		case 0:
			lo = 0
		case 1:
			lo = r.Intn(len(keys) / 2)
		default:
			lo = len(keys) - 1
		}
		total := r.Range(len(keys)/6, len(keys)/2)
		back := lo == len(keys)-1
		for done := 0; done < total && len(keys) > 100; {
			chunk := r.Range(30, 140)
			var removed []string
			for j := 0; j < chunk && len(keys) > 100; j++ {
				at := lo
				if back {
					at = len(keys) - 1
				}
				if at >= len(keys) {
					at = len(keys) - 1
				}
				o.Op("bpdel %s", kit.Hex([]byte(keys[at])))
				removed = append(removed, keys[at])
				keys = append(keys[:at], keys[at+1:]...)
				done++
			}
			o.Op("bpcommit")
			o.Op("bpidx")
			if nchunk%4 == 0 {
				o.Op("bpsweep")
			}
			nchunk++
			at := lo
			if back || at >= len(keys) {
				at = len(keys) - 1
			}
			probeAround(at)
			o.Op("bpprove %s 4", kit.Hex([]byte(removed[0])))
			o.Op("bpprove %s 4", kit.Hex([]byte(removed[len(removed)-1])))
			// far away from the drain: the per-child counts of every inner node are summed on the way
			for _, f := range []int{1, 2, 3} {
				probeAround(len(keys) * f / 4)
			}
			o.Op("bpprove 00 4")
			o.Op("bpprove ffffffffffffffffffffffff 4")
		}
		// some re-insertions between drains
		for j := 0; j < r.Range(0, 120); j++ {
			k := r.Bytes(r.Range(2, 9))
			if seen[string(k)] {
				continue
			}
			seen[string(k)] = true
			o.Op("bpset %s %s", kit.Hex(k), kit.Hex(r.Bytes(r.Range(1, 12))))
			keys = append(keys, string(k))
		}
		sortStrings(keys)
	}
}

func sortStrings(a []string) {
	sort.Strings(a)
}

func genBP(o *kit.Out, r *kit.Rand, thorough bool) {
	bpInnerRedistribute(o, 2000, 40, 30, map[bool]int{false: 3, true: 1}[thorough])
	if thorough {
		for c := 0; c < 3; c++ {
			bpHistory(o, r, fmt.Sprintf("bp-history-%d", c), r.Range(1000, 5000))
		}
	}
	o.Case("bp-empty-tree")
	o.Op("bpnew")
	o.Op("bpcommit")
	o.Op("bpprove 6b")
	sizes := []int{1, 2, 3, 5, 31, 32, 33, 64, 65, 200}
	nbits := 64
	if thorough {
		sizes = append(sizes, 1023, 1024, 1025, 1100, 3000)
		nbits = 1000
		// small trees with EVERY proof bit of both operators flipped (quick: the corpus does this)
		bpCase(o, r, "bp-allbits-3", 3, 1, false, 2, 100000)
		bpCase(o, r, "bp-allbits-40", 40, 2, false, 2, 100000)
	}
	for _, n := range sizes {
		np := 4
		if n > 500 {
			np = 6
		}
		bpCase(o, r, fmt.Sprintf("bp-%d", n), n, 2, false, np, nbits)
	}
	// empty values (documented as unprovable)
	bpCase(o, r, "bp-emptyvals", 12, 1, true, 6, nbits)
	cases := 6
	if thorough {
		cases = 25
	}
	for c := 0; c < cases; c++ {
		bpCase(o, r, fmt.Sprintf("bp-rand-%d", c), r.Range(1, 120), r.Range(1, 3), false, 3, nbits)
	}
}
