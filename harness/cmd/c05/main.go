// Harness for C05: gnovm's software floating point is bit-exact IEEE-754.
//
// Three-way: (1) the REAL softfloat code — the two source files of
// gnovm/pkg/gnolang/internal/softfloat are re-copied from /repo into ./sfcopy by
// `gvx copysrc` on every run (the package is `internal`, so it cannot be
// imported from here) — (2) the Lean model regenerated from the same two files
// by `gvx tint2` (the compiled driver answers the same op lines), and (3) the
// ORACLE: hardware IEEE-754 arithmetic of the host (amd64 SSE2 = binary32/64,
// round-to-nearest-even), math/big for integer→float rounding and fpack,
// math/bits for the 128-bit helpers.  `vm …` lines additionally run the same
// operation as a Gno program inside the GnoVM (op_binary.go,
// values_conversions.go → softfloat).
//
// op line:   <GoFuncName> <hex>…        arguments = bit patterns, fixed width
//                                        (16 hex digits: uint64/int64/int, 8: uint32/int32)
//            vm <GoFuncName> <hex>…      same operation through the GnoVM
//            sweep <fn> <start> <count> <stride>     checksum of a unary 32-bit fn over a range
//            exh32 <fn> <shard> <nshards> <stride>   impl+model: checksum over the strided subsample
//                                                    of the shard; oracle: EVERY input of the shard
// output:    hex bit patterns / true|false, tuple parts joined by ':'
// oracle:    NaN results are compared by classification (any NaN payload is a NaN),
//            everything else bit for bit.  float→int: verdict only when in range.
package main

import (
	"fmt"
	"math"
	"math/big"
	"math/bits"
	"os"
	"runtime"
	"strconv"
	"strings"
	"sync"

	sf "gnoverif/cmd/c05/sfcopy"
	"gnoverif/gnorun"
	"gnoverif/kit"
)

// ---------------------------------------------------------------- helpers

func parseHexW(s string, w int) (uint64, bool) {
	if len(s) != w/4 {
		return 0, false
	}
	var v uint64
	for _, c := range []byte(s) {
		var d byte
		switch {
		case c >= '0' && c <= '9':
			d = c - '0'
		case c >= 'a' && c <= 'f':
			d = c - 'a' + 10
		case c >= 'A' && c <= 'F':
			d = c - 'A' + 10
		default:
			return 0, false
		}
		v = v<<4 | uint64(d)
	}
	return v, true
}

func h64(x uint64) string { return fmt.Sprintf("%016x", x) }
func h32(x uint32) string { return fmt.Sprintf("%08x", x) }
func bs(b bool) string {
	if b {
		return "true"
	}
	return "false"
}

func f64(b uint64) float64 { return math.Float64frombits(b) }
func f32(b uint32) float32 { return math.Float32frombits(b) }

func isNaN64(b uint64) bool { return b&0x7ff0000000000000 == 0x7ff0000000000000 && b&0x000fffffffffffff != 0 }
func isNaN32(b uint32) bool { return b&0x7f800000 == 0x7f800000 && b&0x007fffff != 0 }

// want64: the oracle verdict for a float64 result.
func want64(cls string, got uint64, want float64, ctx string) string {
	wb := math.Float64bits(want)
	if isNaN64(wb) {
		if isNaN64(got) {
			return "ok"
		}
		return fmt.Sprintf("VIOL:%s %s: got %016x, IEEE-754 gives NaN", cls, ctx, got)
	}
	if got == wb {
		return "ok"
	}
	return fmt.Sprintf("VIOL:%s %s: got %016x, IEEE-754 gives %016x", cls, ctx, got, wb)
}

func want32(cls string, got uint32, want float32, ctx string) string {
	wb := math.Float32bits(want)
	if isNaN32(wb) {
		if isNaN32(got) {
			return "ok"
		}
		return fmt.Sprintf("VIOL:%s %s: got %08x, IEEE-754 gives NaN", cls, ctx, got)
	}
	if got == wb {
		return "ok"
	}
	return fmt.Sprintf("VIOL:%s %s: got %08x, IEEE-754 gives %08x", cls, ctx, got, wb)
}

func wantBool(cls string, got, want bool, ctx string) string {
	if got == want {
		return "ok"
	}
	return fmt.Sprintf("VIOL:%s %s: got %v, IEEE-754 gives %v", cls, ctx, got, want)
}

// noinline barriers: keep the compiler from folding or fusing the oracle arithmetic.
//
//go:noinline
func hwAdd64(a, b float64) float64 { return a + b }

//go:noinline
func hwSub64(a, b float64) float64 { return a - b }

//go:noinline
func hwMul64(a, b float64) float64 { return a * b }

//go:noinline
func hwDiv64(a, b float64) float64 { return a / b }

//go:noinline
func hwAdd32(a, b float32) float32 { return a + b }

//go:noinline
func hwSub32(a, b float32) float32 { return a - b }

//go:noinline
func hwMul32(a, b float32) float32 { return a * b }

//go:noinline
func hwDiv32(a, b float32) float32 { return a / b }

// big-number oracles -------------------------------------------------

// roundBig rounds the exact real ±m·2^e (m ≥ 0 arbitrary precision) to binary64 / binary32, RNE.
func roundBig64(neg bool, m *big.Int, e int) uint64 {
	x := new(big.Float).SetPrec(uint(m.BitLen()) + 8).SetInt(m)
	x.SetMantExp(x, e)
	v, _ := x.Float64() // nearest-even, gradual underflow, overflow to Inf
	b := math.Float64bits(v)
	if neg {
		b |= 1 << 63
	}
	return b
}

func roundBig32(neg bool, m *big.Int, e int) uint32 {
	x := new(big.Float).SetPrec(uint(m.BitLen()) + 8).SetInt(m)
	x.SetMantExp(x, e)
	v, _ := x.Float32()
	b := math.Float32bits(v)
	if neg {
		b |= 1 << 31
	}
	return b
}

func absInt64(v int64) (neg bool, m *big.Int) {
	m = big.NewInt(v)
	if v < 0 {
		return true, m.Neg(m)
	}
	return false, m
}

// truncation oracles: exact integer part of a finite float as a big.Int (nil for NaN/Inf)
func truncBig64(b uint64) *big.Int {
	v := f64(b)
	if math.IsNaN(v) || math.IsInf(v, 0) {
		return nil
	}
	z, _ := new(big.Float).SetFloat64(v).Int(nil) // truncates toward zero
	return z
}

func truncBig32(b uint32) *big.Int {
	v := float64(f32(b)) // exact
	if math.IsNaN(v) || math.IsInf(v, 0) {
		return nil
	}
	z, _ := new(big.Float).SetFloat64(v).Int(nil)
	return z
}

var (
	minI64  = new(big.Int).Lsh(big.NewInt(-1), 63)
	maxI64  = new(big.Int).Sub(new(big.Int).Lsh(big.NewInt(1), 63), big.NewInt(1))
	maxU64  = new(big.Int).Sub(new(big.Int).Lsh(big.NewInt(1), 64), big.NewInt(1))
	minI32  = big.NewInt(math.MinInt32)
	maxI32  = big.NewInt(math.MaxInt32)
	bigZero = big.NewInt(0)
)

func inRange(z, lo, hi *big.Int) bool { return z != nil && z.Cmp(lo) >= 0 && z.Cmp(hi) <= 0 }

// toIntVerdict: in-range ⇒ the result must be the truncated value (as w-bit two's complement).
func toIntVerdict(cls, ctx string, z, lo, hi *big.Int, got uint64, w uint) string {
	if !inRange(z, lo, hi) {
		return "-" // out of range / NaN: Go leaves the result implementation-defined; the statement is about in-range only
	}
	want := new(big.Int).Set(z)
	if want.Sign() < 0 {
		want.Add(want, new(big.Int).Lsh(big.NewInt(1), w))
	}
	if want.Uint64() == got {
		return "ok"
	}
	return fmt.Sprintf("VIOL:%s %s: got %x, truncation gives %x", cls, ctx, got, want.Uint64())
}

// ---------------------------------------------------------------- op table

type op struct {
	w []int // argument widths
	f func(a []uint64) (impl, oracle string)
}

func arith64(name string, real func(a, b uint64) uint64, hw func(a, b float64) float64) op {
	return op{[]int{64, 64}, func(a []uint64) (string, string) {
		r := real(a[0], a[1])
		return h64(r), want64("arith64", r, hw(f64(a[0]), f64(a[1])), name)
	}}
}

func arith32(name string, real func(a, b uint32) uint32, hw func(a, b float32) float32) op {
	return op{[]int{32, 32}, func(a []uint64) (string, string) {
		x, y := uint32(a[0]), uint32(a[1])
		r := real(x, y)
		return h32(r), want32("arith32", r, hw(f32(x), f32(y)), name)
	}}
}

func cmp64(name string, real func(a, b uint64) bool, hw func(a, b float64) bool) op {
	return op{[]int{64, 64}, func(a []uint64) (string, string) {
		r := real(a[0], a[1])
		return bs(r), wantBool("cmp64", r, hw(f64(a[0]), f64(a[1])), name)
	}}
}

func cmp32(name string, real func(a, b uint32) bool, hw func(a, b float32) bool) op {
	return op{[]int{32, 32}, func(a []uint64) (string, string) {
		x, y := uint32(a[0]), uint32(a[1])
		r := real(x, y)
		return bs(r), wantBool("cmp32", r, hw(f32(x), f32(y)), name)
	}}
}

var ops = map[string]op{}

func init() {
	ops["Fadd64"] = arith64("Fadd64", sf.Fadd64, hwAdd64)
	ops["Fsub64"] = arith64("Fsub64", sf.Fsub64, hwSub64)
	ops["Fmul64"] = arith64("Fmul64", sf.Fmul64, hwMul64)
	ops["Fdiv64"] = arith64("Fdiv64", sf.Fdiv64, hwDiv64)
	ops["Fadd32"] = arith32("Fadd32", sf.Fadd32, hwAdd32)
	ops["Fsub32"] = arith32("Fsub32", sf.Fsub32, hwSub32)
	ops["Fmul32"] = arith32("Fmul32", sf.Fmul32, hwMul32)
	ops["Fdiv32"] = arith32("Fdiv32", sf.Fdiv32, hwDiv32)
	ops["Feq64"] = cmp64("Feq64", sf.Feq64, func(a, b float64) bool { return a == b })
	ops["Fgt64"] = cmp64("Fgt64", sf.Fgt64, func(a, b float64) bool { return a > b })
	ops["Fge64"] = cmp64("Fge64", sf.Fge64, func(a, b float64) bool { return a >= b })
	ops["Flt64"] = cmp64("Flt64", sf.Flt64, func(a, b float64) bool { return a < b })
	ops["Fle64"] = cmp64("Fle64", sf.Fle64, func(a, b float64) bool { return a <= b })
	ops["Feq32"] = cmp32("Feq32", sf.Feq32, func(a, b float32) bool { return a == b })
	ops["Fgt32"] = cmp32("Fgt32", sf.Fgt32, func(a, b float32) bool { return a > b })
	ops["Fge32"] = cmp32("Fge32", sf.Fge32, func(a, b float32) bool { return a >= b })
	ops["Flt32"] = cmp32("Flt32", sf.Flt32, func(a, b float32) bool { return a < b })
	ops["Fle32"] = cmp32("Fle32", sf.Fle32, func(a, b float32) bool { return a <= b })
	ops["Fcmp64"] = op{[]int{64, 64}, func(a []uint64) (string, string) {
		c, n := sf.Fcmp64(a[0], a[1])
		x, y := f64(a[0]), f64(a[1])
		wn := x != x || y != y
		wc := int32(0)
		if !wn {
			if x < y {
				wc = -1
			} else if x > y {
				wc = 1
			}
		}
		o := "ok"
		if n != wn || (!wn && c != wc) {
			o = fmt.Sprintf("VIOL:cmp64 Fcmp64: got (%d,%v), IEEE-754 order gives (%d,%v)", c, n, wc, wn)
		}
		return h32(uint32(c)) + ":" + bs(n), o
	}}
	ops["Fneg64"] = op{[]int{64}, func(a []uint64) (string, string) {
		r := sf.Fneg64(a[0])
		return h64(r), want64("neg", r, -f64(a[0]), "Fneg64")
	}}
	ops["Fneg32"] = op{[]int{32}, func(a []uint64) (string, string) {
		r := sf.Fneg32(uint32(a[0]))
		return h32(r), want32("neg", r, -f32(uint32(a[0])), "Fneg32")
	}}
	// width conversions
	ops["F64to32"] = op{[]int{64}, func(a []uint64) (string, string) {
		r := sf.F64to32(a[0])
		return h32(r), want32("conv", r, float32(f64(a[0])), "F64to32")
	}}
	ops["F32to64"] = op{[]int{32}, func(a []uint64) (string, string) {
		r := sf.F32to64(uint32(a[0]))
		return h64(r), want64("conv", r, float64(f32(uint32(a[0]))), "F32to64")
	}}
	// integer → float (oracle: math/big correctly rounded, cross-checked with the hardware conversion)
	fromI64to64 := func(name string, real func(int64) uint64) op {
		return op{[]int{64}, func(a []uint64) (string, string) {
			v := int64(a[0])
			r := real(v)
			neg, m := absInt64(v)
			wb := roundBig64(neg, m, 0)
			if hb := math.Float64bits(float64(v)); hb != wb {
				return h64(r), fmt.Sprintf("VIOL:oracle-self %s: big %016x hardware %016x", name, wb, hb)
			}
			if r == wb {
				return h64(r), "ok"
			}
			return h64(r), fmt.Sprintf("VIOL:fromint %s(%d): got %016x, IEEE-754 gives %016x", name, v, r, wb)
		}}
	}
	fromI64to32 := func(name string, real func(int64) uint32) op {
		return op{[]int{64}, func(a []uint64) (string, string) {
			v := int64(a[0])
			r := real(v)
			neg, m := absInt64(v)
			wb := roundBig32(neg, m, 0)
			if hb := math.Float32bits(float32(v)); hb != wb {
				return h32(r), fmt.Sprintf("VIOL:oracle-self %s: big %08x hardware %08x", name, wb, hb)
			}
			if r == wb {
				return h32(r), "ok"
			}
			return h32(r), fmt.Sprintf("VIOL:fromint %s(%d): got %08x, IEEE-754 gives %08x", name, v, r, wb)
		}}
	}
	ops["Fintto64"] = fromI64to64("Fintto64", sf.Fintto64)
	ops["Fint64to64"] = fromI64to64("Fint64to64", sf.Fint64to64)
	ops["Fintto32"] = fromI64to32("Fintto32", sf.Fintto32)
	ops["Fint64to32"] = fromI64to32("Fint64to32", sf.Fint64to32)
	ops["Fint32to64"] = op{[]int{32}, func(a []uint64) (string, string) {
		v := int32(uint32(a[0]))
		r := sf.Fint32to64(v)
		return h64(r), want64("fromint", r, float64(v), "Fint32to64")
	}}
	ops["Fint32to32"] = op{[]int{32}, func(a []uint64) (string, string) {
		v := int32(uint32(a[0]))
		r := sf.Fint32to32(v)
		neg, m := absInt64(int64(v))
		wb := roundBig32(neg, m, 0)
		o := "ok"
		if r != wb || math.Float32bits(float32(v)) != wb {
			o = fmt.Sprintf("VIOL:fromint Fint32to32(%d): got %08x, IEEE-754 gives %08x", v, r, wb)
		}
		return h32(r), o
	}}
	ops["Fuint64to64"] = op{[]int{64}, func(a []uint64) (string, string) {
		r := sf.Fuint64to64(a[0])
		wb := roundBig64(false, new(big.Int).SetUint64(a[0]), 0)
		o := "ok"
		if r != wb {
			o = fmt.Sprintf("VIOL:fromint Fuint64to64(%d): got %016x, IEEE-754 gives %016x", a[0], r, wb)
		}
		return h64(r), o
	}}
	ops["Fuint64to32"] = op{[]int{64}, func(a []uint64) (string, string) {
		r := sf.Fuint64to32(a[0])
		wb := roundBig32(false, new(big.Int).SetUint64(a[0]), 0)
		o := "ok"
		if r != wb {
			o = fmt.Sprintf("VIOL:fromint Fuint64to32(%d): got %08x, IEEE-754 gives %08x", a[0], r, wb)
		}
		return h32(r), o
	}}
	// float → integer
	ops["F64toint"] = op{[]int{64}, func(a []uint64) (string, string) {
		v, ok := sf.F64toint(a[0])
		// The statement is about the VALUE of in-range conversions; the `ok` flag is not part of it
		// (the VM ignores it).  Observed: ok=false for |f| < 0.5 (value 0 is still right) and
		// ok=true with a wrapped value for 2^63 ≤ |f| < 2^64 — both out of the statement's scope.
		o := toIntVerdict("toint", "F64toint", truncBig64(a[0]), minI64, maxI64, uint64(v), 64)
		return h64(uint64(v)) + ":" + bs(ok), o
	}}
	ops["F64toint64"] = op{[]int{64}, func(a []uint64) (string, string) {
		r := uint64(sf.F64toint64(a[0]))
		return h64(r), toIntVerdict("toint", "F64toint64", truncBig64(a[0]), minI64, maxI64, r, 64)
	}}
	ops["F64toint32"] = op{[]int{64}, func(a []uint64) (string, string) {
		r := uint32(sf.F64toint32(a[0]))
		return h32(r), toIntVerdict("toint", "F64toint32", truncBig64(a[0]), minI32, maxI32, uint64(r), 32)
	}}
	ops["F64touint64"] = op{[]int{64}, func(a []uint64) (string, string) {
		r := sf.F64touint64(a[0])
		return h64(r), toIntVerdict("toint", "F64touint64", truncBig64(a[0]), bigZero, maxU64, r, 64)
	}}
	ops["F32toint64"] = op{[]int{32}, func(a []uint64) (string, string) {
		r := uint64(sf.F32toint64(uint32(a[0])))
		return h64(r), toIntVerdict("toint", "F32toint64", truncBig32(uint32(a[0])), minI64, maxI64, r, 64)
	}}
	ops["F32toint32"] = op{[]int{32}, func(a []uint64) (string, string) {
		r := uint32(sf.F32toint32(uint32(a[0])))
		return h32(r), toIntVerdict("toint", "F32toint32", truncBig32(uint32(a[0])), minI32, maxI32, uint64(r), 32)
	}}
	ops["F32touint64"] = op{[]int{32}, func(a []uint64) (string, string) {
		r := sf.F32touint64(uint32(a[0]))
		return h64(r), toIntVerdict("toint", "F32touint64", truncBig32(uint32(a[0])), bigZero, maxU64, r, 64)
	}}
	// unpack: the pieces must denote the same real number / class
	ops["Funpack64"] = op{[]int{64}, func(a []uint64) (string, string) {
		s, m, e, inf, nan := sf.Funpack64(a[0])
		out := fmt.Sprintf("%s:%s:%s:%s:%s", h64(s), h64(m), h64(uint64(int64(e))), bs(inf), bs(nan))
		v := f64(a[0])
		o := "ok"
		switch {
		case s != a[0]&(1<<63):
			o = "VIOL:unpack Funpack64: sign"
		case nan != math.IsNaN(v) || inf != math.IsInf(v, 0):
			o = "VIOL:unpack Funpack64: class"
		case nan || inf:
		case v == 0:
			if m != 0 {
				o = "VIOL:unpack Funpack64: zero with mantissa"
			}
		default:
			if m < 1<<52 || m >= 1<<53 || e < -1074 || e > 1023 || math.Ldexp(float64(m), e-52) != math.Abs(v) {
				o = fmt.Sprintf("VIOL:unpack Funpack64(%016x): mant %x exp %d does not denote the value", a[0], m, e)
			}
		}
		return out, o
	}}
	ops["Funpack32"] = op{[]int{32}, func(a []uint64) (string, string) {
		x := uint32(a[0])
		s, m, e, inf, nan := sf.Funpack32(x)
		out := fmt.Sprintf("%s:%s:%s:%s:%s", h32(s), h32(m), h64(uint64(int64(e))), bs(inf), bs(nan))
		v := float64(f32(x))
		o := "ok"
		switch {
		case s != x&(1<<31):
			o = "VIOL:unpack Funpack32: sign"
		case nan != math.IsNaN(v) || inf != math.IsInf(v, 0):
			o = "VIOL:unpack Funpack32: class"
		case nan || inf:
		case v == 0:
			if m != 0 {
				o = "VIOL:unpack Funpack32: zero with mantissa"
			}
		default:
			if m < 1<<23 || m >= 1<<24 || e < -149 || e > 127 || math.Ldexp(float64(m), e-23) != math.Abs(v) {
				o = fmt.Sprintf("VIOL:unpack Funpack32(%08x): mant %x exp %d does not denote the value", x, m, e)
			}
		}
		return out, o
	}}
	// unexported helpers (through the committed shim)
	ops["fpack64"] = op{[]int{64, 64, 64, 64}, func(a []uint64) (string, string) {
		s, m, e, t := a[0], a[1], int(int64(a[2])), a[3]
		r := sf.Xfpack64(s, m, e, t)
		// spec: round-to-nearest-even of ±(m + ε)·2^(e-52), ε∈(0,1) iff trunc≠0.  Unambiguous
		// only if no rounding boundary lies strictly inside (m, m+1): trunc = 0 or m ≥ 2^53;
		// sign must be a pure sign bit and |e| small enough for math/big.
		if (s != 0 && s != 1<<63) || e < -5000 || e > 5000 || (t != 0 && m < 1<<53) {
			return h64(r), "-"
		}
		mm := new(big.Int).SetUint64(m)
		mm.Lsh(mm, 1)
		if t != 0 {
			mm.Add(mm, big.NewInt(1))
		}
		wb := roundBig64(s != 0, mm, e-53)
		if m == 0 {
			wb = s
		}
		if r == wb {
			return h64(r), "ok"
		}
		return h64(r), fmt.Sprintf("VIOL:pack fpack64(%x,%x,%d,%x): got %016x, RNE gives %016x", s, m, e, t, r, wb)
	}}
	ops["fpack32"] = op{[]int{32, 32, 64, 32}, func(a []uint64) (string, string) {
		s, m, e, t := uint32(a[0]), uint32(a[1]), int(int64(a[2])), uint32(a[3])
		r := sf.Xfpack32(s, m, e, t)
		if (s != 0 && s != 1<<31) || e < -5000 || e > 5000 || (t != 0 && m < 1<<24) {
			return h32(r), "-"
		}
		mm := new(big.Int).SetUint64(uint64(m))
		mm.Lsh(mm, 1)
		if t != 0 {
			mm.Add(mm, big.NewInt(1))
		}
		wb := roundBig32(s != 0, mm, e-24)
		if m == 0 {
			wb = s
		}
		if r == wb {
			return h32(r), "ok"
		}
		return h32(r), fmt.Sprintf("VIOL:pack fpack32(%x,%x,%d,%x): got %08x, RNE gives %08x", s, m, e, t, r, wb)
	}}
	ops["mullu"] = op{[]int{64, 64}, func(a []uint64) (string, string) {
		lo, hi := sf.Xmullu(a[0], a[1])
		whi, wlo := bits.Mul64(a[0], a[1])
		o := "ok"
		if lo != wlo || hi != whi {
			o = fmt.Sprintf("VIOL:mullu got %x:%x want %x:%x", lo, hi, wlo, whi)
		}
		return h64(lo) + ":" + h64(hi), o
	}}
	ops["divlu"] = op{[]int{64, 64, 64}, func(a []uint64) (string, string) {
		q, r := sf.Xdivlu(a[0], a[1], a[2])
		o := "ok"
		if a[0] >= a[2] {
			if q != math.MaxUint64 || r != math.MaxUint64 {
				o = "VIOL:divlu overflow case must return (max,max)"
			}
		} else {
			wq, wr := bits.Div64(a[0], a[1], a[2])
			if q != wq || r != wr {
				o = fmt.Sprintf("VIOL:divlu got %x rem %x want %x rem %x", q, r, wq, wr)
			}
		}
		return h64(q) + ":" + h64(r), o
	}}
}

// ---------------------------------------------------------------- unary 32-bit sweeps

type un32 struct {
	real func(x uint32) uint64
	// oracle: "" = fine, "-" = no verdict for this input, else the violation text
	orc func(x uint32, got uint64) string
}

var unary32 = map[string]un32{}

func toIntOrc32(name string, lo, hi *big.Int, w uint) func(x uint32, got uint64) string {
	// fast path without big: float64(float32) is exact; compare against hardware truncation when in range
	flo, _ := new(big.Float).SetInt(lo).Float64()
	fhi, _ := new(big.Float).SetInt(hi).Float64() // 2^63-1 and 2^64-1 round UP to 2^63 / 2^64: use strict <
	strict := hi.BitLen() > 53
	return func(x uint32, got uint64) string {
		v := float64(f32(x))
		if v != v {
			return "-"
		}
		t := math.Trunc(v)
		inr := t >= flo && (t < fhi || (!strict && t == fhi))
		if !inr {
			return "-"
		}
		var want uint64
		if t < 0 {
			want = uint64(int64(t))
		} else {
			want = uint64(t)
		}
		if w < 64 {
			want &= 1<<w - 1
		}
		if want != got {
			return fmt.Sprintf("%s(%08x): got %x, truncation gives %x", name, x, got, want)
		}
		return ""
	}
}

func init() {
	unary32["Fneg32"] = un32{func(x uint32) uint64 { return uint64(sf.Fneg32(x)) }, func(x uint32, got uint64) string {
		if got != uint64(x^0x80000000) { // IEEE negate: sign bit only, NaNs included
			return fmt.Sprintf("Fneg32(%08x): got %08x", x, got)
		}
		if w := math.Float32bits(-f32(x)); !isNaN32(x) && uint64(w) != got {
			return fmt.Sprintf("Fneg32(%08x): got %08x, hardware %08x", x, got, w)
		}
		return ""
	}}
	unary32["F32to64"] = un32{func(x uint32) uint64 { return sf.F32to64(x) }, func(x uint32, got uint64) string {
		if o := want64("conv", got, float64(f32(x)), "F32to64"); o != "ok" {
			return fmt.Sprintf("F32to64(%08x): %s", x, o)
		}
		return ""
	}}
	unary32["F32to64to32"] = un32{func(x uint32) uint64 { return uint64(sf.F64to32(sf.F32to64(x))) }, func(x uint32, got uint64) string {
		if isNaN32(x) {
			if !isNaN32(uint32(got)) {
				return fmt.Sprintf("F64to32(F32to64(%08x)) = %08x is not NaN", x, got)
			}
			return ""
		}
		if uint64(x) != got { // widening is exact, so narrowing must give the value back
			return fmt.Sprintf("F64to32(F32to64(%08x)) = %08x", x, got)
		}
		return ""
	}}
	unary32["F32toint32"] = un32{func(x uint32) uint64 { return uint64(uint32(sf.F32toint32(x))) }, toIntOrc32("F32toint32", minI32, maxI32, 32)}
	unary32["F32toint64"] = un32{func(x uint32) uint64 { return uint64(sf.F32toint64(x)) }, toIntOrc32("F32toint64", minI64, maxI64, 64)}
	unary32["F32touint64"] = un32{func(x uint32) uint64 { return sf.F32touint64(x) }, toIntOrc32("F32touint64", bigZero, maxU64, 64)}
	unary32["Fint32to32"] = un32{func(x uint32) uint64 { return uint64(sf.Fint32to32(int32(x))) }, func(x uint32, got uint64) string {
		if w := math.Float32bits(float32(int32(x))); uint64(w) != got {
			return fmt.Sprintf("Fint32to32(%d): got %08x, IEEE-754 gives %08x", int32(x), got, w)
		}
		return ""
	}}
	unary32["Fint32to64"] = un32{func(x uint32) uint64 { return sf.Fint32to64(int32(x)) }, func(x uint32, got uint64) string {
		if w := math.Float64bits(float64(int32(x))); w != got {
			return fmt.Sprintf("Fint32to64(%d): got %016x, IEEE-754 gives %016x", int32(x), got, w)
		}
		return ""
	}}
}

const maxSweep = 1 << 24

func fnvStep(h, v uint64) uint64 { return (h ^ v) * 1099511628211 }

// sweep: checksum over start + i*stride (mod 2^32), with the oracle on every evaluated input.
func sweep(u un32, start uint32, count, stride uint64) (sum uint64, viol string, verdicts uint64) {
	h := uint64(14695981039346656037)
	x := start
	for i := uint64(0); i < count; i++ {
		r := u.real(x)
		h = fnvStep(h, r)
		switch o := u.orc(x, r); o {
		case "":
			verdicts++
		case "-":
		default:
			if viol == "" {
				viol = o
			}
		}
		x += uint32(stride)
	}
	return h, viol, verdicts
}

// exhaustive oracle pass over [lo, lo+size), in parallel.
func exhaust(u un32, lo uint64, size uint64) (viol string, verdicts uint64) {
	nw := runtime.GOMAXPROCS(0)
	if nw > 16 {
		nw = 16
	}
	var mu sync.Mutex
	var wg sync.WaitGroup
	chunk := (size + uint64(nw) - 1) / uint64(nw)
	firstAt := uint64(math.MaxUint64)
	for w := 0; w < nw; w++ {
		a := lo + uint64(w)*chunk
		b := a + chunk
		if b > lo+size {
			b = lo + size
		}
		if a >= b {
			continue
		}
		wg.Add(1)
		go func(a, b uint64) {
			defer wg.Done()
			var n uint64
			v, at := "", uint64(0)
			for x := a; x < b; x++ {
				r := u.real(uint32(x))
				switch o := u.orc(uint32(x), r); o {
				case "":
					n++
				case "-":
				default:
					if v == "" {
						v, at = o, x
					}
				}
			}
			mu.Lock()
			verdicts += n
			if v != "" && at < firstAt { // deterministic: report the smallest failing input
				viol, firstAt = v, at
			}
			mu.Unlock()
		}(a, b)
	}
	wg.Wait()
	return
}

// ---------------------------------------------------------------- GnoVM route

const gnoSrc = `package main

import "math"

func f(a int64) float64 { return math.Float64frombits(uint64(a)) }
func g(a int64) float32 { return math.Float32frombits(uint32(a)) }
func b64(x float64) int64 { return int64(math.Float64bits(x)) }
func b32(x float32) int64 { return int64(math.Float32bits(x)) }
func tf(b bool) int64 { if b { return 1 }; return 0 }

func Fadd64(a, b int64) int64 { return b64(f(a) + f(b)) }
func Fsub64(a, b int64) int64 { return b64(f(a) - f(b)) }
func Fmul64(a, b int64) int64 { return b64(f(a) * f(b)) }
func Fdiv64(a, b int64) int64 { return b64(f(a) / f(b)) }
func Fneg64(a int64) int64 { return b64(-f(a)) }
func Feq64(a, b int64) int64 { return tf(f(a) == f(b)) }
func Fgt64(a, b int64) int64 { return tf(f(a) > f(b)) }
func Fge64(a, b int64) int64 { return tf(f(a) >= f(b)) }
func Flt64(a, b int64) int64 { return tf(f(a) < f(b)) }
func Fle64(a, b int64) int64 { return tf(f(a) <= f(b)) }
func Fadd32(a, b int64) int64 { return b32(g(a) + g(b)) }
func Fsub32(a, b int64) int64 { return b32(g(a) - g(b)) }
func Fmul32(a, b int64) int64 { return b32(g(a) * g(b)) }
func Fdiv32(a, b int64) int64 { return b32(g(a) / g(b)) }
func Fneg32(a int64) int64 { return b32(-g(a)) }
func Feq32(a, b int64) int64 { return tf(g(a) == g(b)) }
func Fgt32(a, b int64) int64 { return tf(g(a) > g(b)) }
func Fge32(a, b int64) int64 { return tf(g(a) >= g(b)) }
func Flt32(a, b int64) int64 { return tf(g(a) < g(b)) }
func Fle32(a, b int64) int64 { return tf(g(a) <= g(b)) }
func F64to32(a int64) int64 { return b32(float32(f(a))) }
func F32to64(a int64) int64 { return b64(float64(g(a))) }
func Fint64to64(a int64) int64 { return b64(float64(a)) }
func Fintto64(a int64) int64 { return b64(float64(int(a))) }
func Fintto32(a int64) int64 { return b32(float32(int(a))) }
func Fint64to32(a int64) int64 { return b32(float32(a)) }
func Fint32to64(a int64) int64 { return b64(float64(int32(a))) }
func Fint32to32(a int64) int64 { return b32(float32(int32(a))) }
func Fuint64to64(a int64) int64 { return b64(float64(uint64(a))) }
func Fuint64to32(a int64) int64 { return b32(float32(uint64(a))) }
func F64toint64(a int64) int64 { return int64(f(a)) }
func F64toint32(a int64) int64 { return int64(uint32(int32(f(a)))) }
func F64touint64(a int64) int64 { return int64(uint64(f(a))) }
func F32toint64(a int64) int64 { return int64(g(a)) }
func F32toint32(a int64) int64 { return int64(uint32(int32(g(a)))) }
func F32touint64(a int64) int64 { return int64(uint64(g(a))) }
`

var (
	vmOnce sync.Once
	vmPkg  *gnorun.Pkg
	vmErr  string
)

func vmInit() {
	vmOnce.Do(func() {
		defer func() {
			if v := recover(); v != nil {
				vmErr = fmt.Sprint(v)
			}
		}()
		r := gnorun.New(repoRoot())
		p, perr := r.Load("main", "main", map[string]string{"main.gno": gnoSrc})
		if perr != nil {
			vmErr = perr.String()
			return
		}
		vmPkg = p
	})
}

func repoRoot() string {
	if v := os.Getenv("VERIF_REPO"); v != "" {
		return v
	}
	return "/repo"
}

// vmOps: which op names can go through the VM, and the width of their result
var vmOps = map[string]int{
	"Fadd64": 64, "Fsub64": 64, "Fmul64": 64, "Fdiv64": 64, "Fneg64": 64,
	"Feq64": 1, "Fgt64": 1, "Fge64": 1, "Flt64": 1, "Fle64": 1,
	"Fadd32": 32, "Fsub32": 32, "Fmul32": 32, "Fdiv32": 32, "Fneg32": 32,
	"Feq32": 1, "Fgt32": 1, "Fge32": 1, "Flt32": 1, "Fle32": 1,
	"F64to32": 32, "F32to64": 64,
	"Fintto64": 64, "Fintto32": 32, "Fint64to64": 64, "Fint64to32": 32, "Fint32to64": 64, "Fint32to32": 32, "Fuint64to64": 64, "Fuint64to32": 32,
	"F64toint64": 64, "F64toint32": 32, "F64touint64": 64, "F32toint64": 64, "F32toint32": 32, "F32touint64": 64,
}

// floatResult: vm operations whose result is a float bit pattern (NaN payload may differ)
var floatResult = map[string]bool{
	"Fadd64": true, "Fsub64": true, "Fmul64": true, "Fdiv64": true, "Fneg64": true,
	"Fadd32": true, "Fsub32": true, "Fmul32": true, "Fdiv32": true, "Fneg32": true,
	"F64to32": true, "F32to64": true,
}

func execVM(name string, o op, a []uint64) (string, string) {
	rw, ok := vmOps[name]
	if !ok {
		return "err:badop", "-"
	}
	vmInit()
	if vmPkg == nil {
		return "panic:vm-load", "VIOL:vm-load " + vmErr
	}
	args := make([]any, len(a))
	for i, x := range a {
		if o.w[i] == 32 {
			// 32-bit patterns travel as non-negative int64 (the Gno side truncates with uint32()/int32())
			args[i] = int64(uint32(x))
		} else {
			args[i] = int64(x)
		}
	}
	res := vmPkg.Call(name, args...)
	// the direct route gives the expected canonical output and the oracle verdict
	direct, verdict := o.f(a)
	if res.Panic != nil {
		// a float→int conversion of an out-of-range value may be rejected by the VM; anything else is a finding
		return "panic:vm", "VIOL:vm-panic " + name + ": " + res.Panic.String()
	}
	v := uint64(res.Int(0))
	var out string
	switch rw {
	case 64:
		out = h64(v)
	case 32:
		out = h32(uint32(v))
	default:
		out = bs(v != 0)
	}
	if out != direct {
		// NaN payloads are not preserved across the Go<->Gno boundary for float32 (gonative.go marshals
		// float32 through F64to32/F32to64, which canonicalise NaNs: math.Float32frombits(0x7f800001) is
		// 0x7fc00000 in Gno).  The statement asks for NaN CLASSIFICATION, so two NaNs agree.
		if floatResult[name] {
			var dn, vn bool
			if rw == 64 {
				d, _ := parseHexW(direct, 64)
				dn, vn = isNaN64(d), isNaN64(v)
			} else {
				d, _ := parseHexW(direct, 32)
				dn, vn = isNaN32(uint32(d)), isNaN32(uint32(v))
			}
			if dn && vn {
				return direct, verdict
			}
		}
		return out, fmt.Sprintf("VIOL:vm-differs %s: the GnoVM gives %s, the softfloat function %s", name, out, direct)
	}
	return out, verdict
}

// ---------------------------------------------------------------- exec

func exec(t []string) (string, string) {
	if len(t) == 0 {
		return "err:badop", "-"
	}
	name, args := t[0], t[1:]
	viaVM := false
	if name == "vm" {
		if len(args) == 0 {
			return "err:badop", "-"
		}
		viaVM, name, args = true, args[0], args[1:]
	}
	switch name {
	case "sweep":
		if viaVM || len(args) != 4 {
			return "err:badop", "-"
		}
		u, ok := unary32[args[0]]
		st, ok2 := parseHexW(args[1], 32)
		n, e1 := strconv.ParseUint(args[2], 10, 64)
		sd, e2 := strconv.ParseUint(args[3], 10, 64)
		if !ok || !ok2 || e1 != nil || e2 != nil || !canonNat(args[2]) || !canonNat(args[3]) || n > maxSweep {
			return "err:badop", "-"
		}
		sum, viol, _ := sweep(u, uint32(st), n, sd)
		if viol != "" {
			return h64(sum), "VIOL:sweep " + viol
		}
		return h64(sum), "ok"
	case "exh32":
		if viaVM || len(args) != 4 {
			return "err:badop", "-"
		}
		u, ok := unary32[args[0]]
		sh, e1 := strconv.ParseUint(args[1], 10, 64)
		nsh, e2 := strconv.ParseUint(args[2], 10, 64)
		sd, e3 := strconv.ParseUint(args[3], 10, 64)
		if !ok || e1 != nil || e2 != nil || e3 != nil || !canonNat(args[1]) || !canonNat(args[2]) || !canonNat(args[3]) ||
			nsh == 0 || sh >= nsh || sd == 0 || (1<<32)%nsh != 0 {
			return "err:badop", "-"
		}
		size := uint64(1<<32) / nsh
		n := (size + sd - 1) / sd
		if n > maxSweep {
			return "err:badop", "-"
		}
		sum, _, _ := sweep(u, uint32(sh*size), n, sd)
		viol, _ := exhaust(u, sh*size, size)
		if viol != "" {
			return h64(sum), "VIOL:exhaustive " + viol
		}
		return h64(sum), "ok"
	}
	o, ok := ops[name]
	if !ok || len(args) != len(o.w) {
		return "err:badop", "-"
	}
	a := make([]uint64, len(args))
	for i, s := range args {
		v, ok := parseHexW(s, o.w[i])
		if !ok {
			return "err:badop", "-"
		}
		a[i] = v
	}
	if viaVM {
		return execVM(name, o, a)
	}
	return o.f(a)
}

// canonNat: what Lean's String.toNat? accepts (digits only, non-empty); '_' separators are not generated.
func canonNat(s string) bool {
	if s == "" {
		return false
	}
	for _, c := range []byte(s) {
		if c < '0' || c > '9' {
			return false
		}
	}
	return true
}

func panicOracle(t []string, v any) (string, string) {
	msg := fmt.Sprint(v)
	if strings.Contains(msg, "divide by zero") {
		return "panic:divzero", "VIOL:panic " + strings.Join(t, " ") + ": integer divide by zero inside softfloat"
	}
	return "panic:other", "VIOL:panic " + strings.Join(t, " ") + ": " + msg
}

func main() {
	kit.Main(&kit.Harness{Gen: gen, Exec: exec, Reset: func() {}, PanicOracle: panicOracle})
}
