package main

// Seeded structured generators for C05 (DESIGN.md §7 C05, App. A):
// boundary table first, then structured random (operands built from
// sign / exponent / mantissa with nearby exponents and rounding-tie mantissas),
// then uniformly random bit patterns, then a malformed stream.

import (
	"fmt"
	"math"

	"gnoverif/kit"
)

// ---------------------------------------------------------------- special values

var special64 = []uint64{
	0x0000000000000000, // +0
	0x0000000000000001, // min subnormal
	0x0000000000000002,
	0x0008000000000000, // subnormal, top mantissa bit
	0x000fffffffffffff, // max subnormal
	0x0010000000000000, // min normal
	0x0010000000000001,
	0x001fffffffffffff,
	0x3fe0000000000000, // 0.5
	0x3fefffffffffffff, // 1 - ulp/2
	0x3ff0000000000000, // 1
	0x3ff0000000000001, // 1 + ulp
	0x3ff8000000000000, // 1.5
	0x4000000000000000, // 2
	0x4008000000000000, // 3
	0x41dfffffffc00000, // 2^31 - 1
	0x41e0000000000000, // 2^31
	0x41efffffffe00000, // 2^32 - 1
	0x41f0000000000000, // 2^32
	0x4330000000000000, // 2^52
	0x433fffffffffffff, // 2^53 - 1
	0x4340000000000000, // 2^53
	0x4340000000000001, // 2^53 + 2
	0x43dfffffffffffff, // largest below 2^63
	0x43e0000000000000, // 2^63
	0x43e0000000000001,
	0x43efffffffffffff, // largest below 2^64
	0x43f0000000000000, // 2^64
	0x47efffffe0000000, // MaxFloat32
	0x47efffffefffffff, // just below the float32 overflow tie
	0x47effffff0000000, // float32 overflow tie
	0x47f0000000000000, // 2^128
	0x36a0000000000000, // 2^-149 (min float32 subnormal)
	0x3690000000000000, // 2^-150 (tie to zero in float32)
	0x3690000000000001,
	0x3810000000000000, // 2^-126 (min normal float32)
	0x380fffffffffffff,
	0x7fe0000000000000, // 2^1023
	0x7fefffffffffffff, // max finite
	0x7ff0000000000000, // +Inf
	0x7ff0000000000001, // signalling NaN
	0x7ff8000000000000, // quiet NaN
	0x7ff8dead0000beef, // quiet NaN with payload
	0x7fffffffffffffff, // NaN, all ones
}

var special32 = []uint32{
	0x00000000, 0x00000001, 0x00000002, 0x00400000, 0x007fffff, 0x00800000, 0x00800001, 0x00ffffff,
	0x3f000000, 0x3f7fffff, 0x3f800000, 0x3f800001, 0x3fc00000, 0x40000000, 0x40400000,
	0x4b000000, // 2^23
	0x4b7fffff, // 2^24 - 1
	0x4b800000, // 2^24
	0x4b800001, // 2^24 + 2
	0x4effffff, // largest below 2^31
	0x4f000000, // 2^31
	0x4f7fffff, // largest below 2^32
	0x4f800000, // 2^32
	0x5effffff, // largest below 2^63
	0x5f000000, // 2^63
	0x5f7fffff, // largest below 2^64
	0x5f800000, // 2^64
	0x7f000000, 0x7f7fffff, // max finite
	0x7f800000, // +Inf
	0x7f800001, // sNaN
	0x7fc00000, // qNaN
	0x7fc0beef, 0x7fffffff,
}

// rounding-tie / carry mantissas (52 bit)
var tieMant64 = []uint64{
	0, 1, 2, 3, 1 << 51, 1<<51 | 1, 1<<52 - 1, 1<<52 - 2, 1<<52 - 3, 1 << 50, 3 << 50, 0xaaaaaaaaaaaaa, 0x5555555555555,
	1 << 28, 1<<28 | 1, 1<<29 - 1, 1 << 29, 3 << 28, 1<<28 - 1, // float32 boundary bits
	0xfffffe0000000, 0xfffffefffffff, 0xffffff0000000, 0xffffff0000001,
}

var tieMant32 = []uint32{0, 1, 2, 3, 1 << 22, 1<<22 | 1, 1<<23 - 1, 1<<23 - 2, 0x2aaaaa, 0x555555, 1 << 11, 1<<12 - 1}

func mk64(neg bool, e int, m uint64) uint64 { // e = biased exponent 0..2047
	b := uint64(e&0x7ff)<<52 | m&(1<<52-1)
	if neg {
		b |= 1 << 63
	}
	return b
}

func mk32(neg bool, e int, m uint32) uint32 {
	b := uint32(e&0xff)<<23 | m&(1<<23-1)
	if neg {
		b |= 1 << 31
	}
	return b
}

// ---------------------------------------------------------------- random building blocks

// sparse mantissa: a few set bits — products / sums of such numbers hit exact ties often
func sparse(r *kit.Rand, bitsN, k int) uint64 {
	var m uint64
	for i := 0; i < k; i++ {
		m |= 1 << uint(r.Intn(bitsN))
	}
	return m
}

func mant64(r *kit.Rand) uint64 {
	switch r.Intn(6) {
	case 0:
		return kit.Pick(r, tieMant64)
	case 1:
		return sparse(r, 52, 1+r.Intn(3))
	case 2:
		return (1<<52 - 1) &^ sparse(r, 52, 1+r.Intn(3)) // almost all ones
	case 3:
		return (1<<52 - 1) >> uint(r.Intn(52)) // low ones
	case 4:
		return (1<<52 - 1) << uint(r.Intn(52)) & (1<<52 - 1) // high ones
	}
	return r.U64() & (1<<52 - 1)
}

func mant32(r *kit.Rand) uint32 {
	switch r.Intn(6) {
	case 0:
		return kit.Pick(r, tieMant32)
	case 1:
		return uint32(sparse(r, 23, 1+r.Intn(3)))
	case 2:
		return (1<<23 - 1) &^ uint32(sparse(r, 23, 1+r.Intn(3)))
	case 3:
		return (1<<23 - 1) >> uint(r.Intn(23))
	case 4:
		return (1<<23 - 1) << uint(r.Intn(23)) & (1<<23 - 1)
	}
	return uint32(r.U64()) & (1<<23 - 1)
}

func exp64(r *kit.Rand) int {
	switch r.Intn(8) {
	case 0:
		return r.Intn(4) // subnormal / tiny
	case 1:
		return 2046 - r.Intn(4)
	case 2:
		return 1023 + r.Range(-2, 2)
	case 3:
		return 1023 + r.Range(-70, 70)
	case 4:
		return 1023 - 126 + r.Range(-30, 4) // float32 subnormal range
	case 5:
		return 1023 + 127 + r.Range(-3, 3) // float32 overflow range
	}
	return r.Intn(2047)
}

func exp32(r *kit.Rand) int {
	switch r.Intn(5) {
	case 0:
		return r.Intn(4)
	case 1:
		return 254 - r.Intn(4)
	case 2:
		return 127 + r.Range(-2, 2)
	case 3:
		return 127 + r.Range(-40, 70)
	}
	return r.Intn(255)
}

func any64(r *kit.Rand) uint64 {
	switch r.Intn(10) {
	case 0:
		x := kit.Pick(r, special64)
		if r.Bool() {
			x |= 1 << 63
		}
		return x
	case 1:
		return r.U64()
	}
	return mk64(r.Bool(), exp64(r), mant64(r))
}

func any32(r *kit.Rand) uint32 {
	switch r.Intn(10) {
	case 0:
		x := kit.Pick(r, special32)
		if r.Bool() {
			x |= 1 << 31
		}
		return x
	case 1:
		return uint32(r.U64())
	}
	return mk32(r.Bool(), exp32(r), mant32(r))
}

func clampE(e, hi int) int {
	if e < 0 {
		return 0
	}
	if e > hi {
		return hi
	}
	return e
}

// pair64 builds an operand pair suited to `fn` (nearby exponents for add/sub, exponent sums near the range ends for mul/div)
func pair64(r *kit.Rand, fn string) (uint64, uint64) {
	a := any64(r)
	ea := int(a >> 52 & 0x7ff)
	var eb int
	switch {
	case r.Chance(15):
		return a, any64(r)
	case fn == "Fadd64" || fn == "Fsub64" || fn[1] == 'e' || fn[1] == 'g' || fn[1] == 'l' || fn[1] == 'c':
		eb = ea - r.Range(-66, 66)
		if r.Chance(40) {
			eb = ea - r.Range(-3, 3)
		}
	case fn == "Fmul64":
		switch r.Intn(4) {
		case 0: // product near the subnormal boundary: ea+eb-1023 ≈ -52..2
			eb = 1023 - ea + r.Range(-56, 3)
		case 1: // near overflow
			eb = 1023 + 2046 - ea + r.Range(-3, 2)
		default:
			eb = exp64(r)
		}
	default: // div
		switch r.Intn(4) {
		case 0: // quotient near the subnormal boundary: ea-eb+1023 ≈ -52..2
			eb = ea + 1023 - r.Range(-56, 3)
		case 1:
			eb = ea + 1023 - 2046 + r.Range(-3, 2)
		default:
			eb = exp64(r)
		}
	}
	b := mk64(r.Bool(), clampE(eb, 2046), mant64(r))
	if r.Chance(5) {
		b = a ^ uint64(r.Intn(4)) // nearly equal magnitudes: massive cancellation
		if r.Bool() {
			b ^= 1 << 63
		}
	}
	return a, b
}

func pair32(r *kit.Rand, fn string) (uint32, uint32) {
	a := any32(r)
	ea := int(a >> 23 & 0xff)
	var eb int
	switch {
	case r.Chance(15):
		return a, any32(r)
	case fn == "Fadd32" || fn == "Fsub32" || fn[1] == 'e' || fn[1] == 'g' || fn[1] == 'l':
		eb = ea - r.Range(-30, 30)
		if r.Chance(40) {
			eb = ea - r.Range(-3, 3)
		}
	case fn == "Fmul32":
		switch r.Intn(4) {
		case 0:
			eb = 127 - ea + r.Range(-27, 3)
		case 1:
			eb = 127 + 254 - ea + r.Range(-3, 2)
		default:
			eb = exp32(r)
		}
	default:
		switch r.Intn(4) {
		case 0:
			eb = ea + 127 - r.Range(-27, 3)
		case 1:
			eb = ea + 127 - 254 + r.Range(-3, 2)
		default:
			eb = exp32(r)
		}
	}
	b := mk32(r.Bool(), clampE(eb, 254), mant32(r))
	if r.Chance(5) {
		b = a ^ uint32(r.Intn(4))
		if r.Bool() {
			b ^= 1 << 31
		}
	}
	return a, b
}

// integers with a random bit length and structured low bits
func int64v(r *kit.Rand) uint64 {
	switch r.Intn(8) {
	case 0:
		return kit.Pick(r, []uint64{0, 1, 2, math.MaxUint64, 1 << 63, 1<<63 - 1, 1<<63 + 1, 1 << 53, 1<<53 + 1, 1<<53 - 1, 1<<54 + 2, 1<<54 + 6,
			1 << 24, 1<<24 + 1, 1<<24 - 1, 1<<25 + 2, 1<<25 + 6, 1<<64 - 1<<10, 1<<64 - 1<<10 - 1, 1<<63 + 1<<10, 1<<63 + 1<<10 + 1, 1<<63 - 1<<9, 1<<63 - 1<<38, 1<<63 - 1<<39,
			0xffffff8000000000, 0xffffff7fffffffff, 0xfffffffffffffc00, 0xfffffffffffffbff, 0x7fffffffffffffff, 0x8000000000000001})
	case 1:
		return r.U64()
	}
	n := uint(1 + r.Intn(64))
	var v uint64
	switch r.Intn(4) {
	case 0: // 2^n ± small
		v = 1<<(n-1) + uint64(r.Intn(7)) - 3
	case 1: // top 24/53 bits + tie pattern below
		v = r.U64() >> (64 - n)
		v |= 1 << (n - 1)
		for _, cut := range []uint{24, 53} {
			if n > cut+1 && r.Bool() {
				low := n - cut // number of bits that get rounded away
				v = v>>low<<low | 1<<(low-1) // exact tie
				if r.Bool() {
					v |= uint64(r.Intn(2))
				}
				if r.Chance(30) {
					v -= 1
				}
				break
			}
		}
	default:
		v = r.U64() >> (64 - n)
	}
	if r.Chance(40) {
		v = -v
	}
	return v
}

// floats around the integer-conversion boundaries
func toInt64v(r *kit.Rand) uint64 {
	switch r.Intn(6) {
	case 0:
		return any64(r)
	case 1: // |x| in [2^-3, 2^66]
		return mk64(r.Bool(), 1023+r.Range(-3, 66), mant64(r))
	case 2: // just around 2^31, 2^32, 2^63, 2^64
		e := kit.Pick(r, []int{30, 31, 32, 62, 63, 64})
		return mk64(r.Bool(), 1023+e, kit.Pick(r, []uint64{0, 1, 1<<52 - 1, 1 << 21, 1<<21 - 1, 1 << 20, 1<<22 - 1, 1 << 51}))
	case 3: // small integers + fractions
		return math.Float64bits(float64(r.Range(-70000, 70000)) + float64(r.Intn(8))/8)
	}
	x := kit.Pick(r, special64)
	if r.Bool() {
		x |= 1 << 63
	}
	return x
}

func toInt32v(r *kit.Rand) uint32 {
	switch r.Intn(5) {
	case 0:
		return any32(r)
	case 1:
		return mk32(r.Bool(), 127+r.Range(-3, 66), mant32(r))
	case 2:
		e := kit.Pick(r, []int{30, 31, 32, 62, 63, 64})
		return mk32(r.Bool(), 127+e, kit.Pick(r, []uint32{0, 1, 1<<23 - 1, 1 << 22}))
	case 3:
		return math.Float32bits(float32(r.Range(-70000, 70000)) + float32(r.Intn(8))/8)
	}
	x := kit.Pick(r, special32)
	if r.Bool() {
		x |= 1 << 31
	}
	return x
}

// ---------------------------------------------------------------- the generator

var bin64 = []string{"Fadd64", "Fsub64", "Fmul64", "Fdiv64"}
var bin32 = []string{"Fadd32", "Fsub32", "Fmul32", "Fdiv32"}
var cmps64 = []string{"Feq64", "Fgt64", "Fge64", "Flt64", "Fle64", "Fcmp64"}
var cmps32 = []string{"Feq32", "Fgt32", "Fge32", "Flt32", "Fle32"}
var fromInt64 = []string{"Fintto64", "Fintto32", "Fint64to64", "Fint64to32", "Fuint64to64", "Fuint64to32"}
var toInt64 = []string{"F64toint64", "F64toint32", "F64touint64"}
var toInt32 = []string{"F32toint64", "F32toint32", "F32touint64"}
var sweepFns = []string{"Fneg32", "F32to64", "F32to64to32", "F32toint32", "F32toint64", "F32touint64", "Fint32to32", "Fint32to64"}

func withNeg64(xs []uint64) []uint64 {
	out := make([]uint64, 0, 2*len(xs))
	for _, x := range xs {
		out = append(out, x, x|1<<63)
	}
	return out
}

func withNeg32(xs []uint32) []uint32 {
	out := make([]uint32, 0, 2*len(xs))
	for _, x := range xs {
		out = append(out, x, x|1<<31)
	}
	return out
}

func gen(w *kit.Out, r *kit.Rand, tier string) {
	thorough := tier == "thorough"
	scale := 1
	if thorough {
		scale = 12
	}
	s64, s32 := withNeg64(special64), withNeg32(special32)

	// ---- 1. boundary table: every special × special for every binary op (quick: a fixed sub-grid for 32 bit / comparisons)
	w.Case("special-pairs-64")
	for _, fn := range bin64 {
		for _, a := range s64 {
			for _, b := range s64 {
				w.Op("%s %016x %016x", fn, a, b)
			}
		}
	}
	w.Case("special-pairs-cmp64")
	for i, a := range s64 {
		for j, b := range s64 {
			if thorough {
				for _, fn := range cmps64 {
					w.Op("%s %016x %016x", fn, a, b)
				}
			} else {
				w.Op("%s %016x %016x", cmps64[(i+j)%len(cmps64)], a, b)
			}
		}
	}
	w.Case("special-pairs-32")
	for _, fn := range bin32 {
		for _, a := range s32 {
			for _, b := range s32 {
				w.Op("%s %08x %08x", fn, a, b)
			}
		}
	}
	for i, a := range s32 {
		for j, b := range s32 {
			if thorough {
				for _, fn := range cmps32 {
					w.Op("%s %08x %08x", fn, a, b)
				}
			} else {
				w.Op("%s %08x %08x", cmps32[(i+j)%len(cmps32)], a, b)
			}
		}
	}
	w.Case("special-unary")
	for _, a := range s64 {
		for _, fn := range []string{"Fneg64", "F64to32", "Funpack64", "F64toint", "F64toint64", "F64toint32", "F64touint64"} {
			w.Op("%s %016x", fn, a)
		}
	}
	for _, a := range s32 {
		for _, fn := range []string{"Fneg32", "F32to64", "Funpack32", "F32toint64", "F32toint32", "F32touint64"} {
			w.Op("%s %08x", fn, a)
		}
	}
	w.Case("special-ints")
	for k := uint(0); k < 64; k++ {
		for _, d := range []int64{-3, -2, -1, 0, 1, 2, 3} {
			v := uint64(1)<<k + uint64(d)
			for _, fn := range fromInt64 {
				w.Op("%s %016x", fn, v)
				w.Op("%s %016x", fn, -v)
			}
		}
		if k < 32 {
			for _, d := range []int64{-1, 0, 1} {
				v := uint32(1)<<k + uint32(d)
				w.Op("Fint32to32 %08x", v)
				w.Op("Fint32to64 %08x", v)
				w.Op("Fint32to32 %08x", -v)
				w.Op("Fint32to64 %08x", -v)
			}
		}
	}

	// ---- 2. exponent differences 0…70 × rounding-tie mantissas (add/sub), both signs
	w.Case("expdiff-ties")
	bases := []int{1023, 1, 60, 2046, 1075}
	for _, fn := range []string{"Fadd64", "Fsub64"} {
		for d := 0; d <= 70; d++ {
			for i := 0; i < 6*scale; i++ {
				e := kit.Pick(r, bases)
				eb := clampE(e-d, 2046)
				if eb == 0 && r.Bool() {
					e, eb = e+d+1, e+1
				}
				w.Op("%s %016x %016x", fn, mk64(r.Bool(), clampE(e, 2046), kit.Pick(r, tieMant64)), mk64(r.Bool(), eb, kit.Pick(r, tieMant64)))
			}
		}
	}
	for _, fn := range []string{"Fadd32", "Fsub32"} {
		for d := 0; d <= 40; d++ {
			for i := 0; i < 4*scale; i++ {
				e := kit.Pick(r, []int{127, 1, 30, 254, 150})
				w.Op("%s %08x %08x", fn, mk32(r.Bool(), clampE(e, 254), kit.Pick(r, tieMant32)), mk32(r.Bool(), clampE(e-d, 254), kit.Pick(r, tieMant32)))
			}
		}
	}

	// ---- 3. structured random
	w.Case("random-structured")
	n := 5000
	if thorough {
		n = 400000
	}
	for i := 0; i < n; i++ {
		switch k := r.Intn(100); {
		case k < 30:
			fn := kit.Pick(r, bin64)
			a, b := pair64(r, fn)
			w.Op("%s %016x %016x", fn, a, b)
		case k < 50:
			fn := kit.Pick(r, bin32)
			a, b := pair32(r, fn)
			w.Op("%s %08x %08x", fn, a, b)
		case k < 56:
			fn := kit.Pick(r, cmps64)
			a, b := pair64(r, fn)
			if r.Chance(20) {
				b = a
			}
			w.Op("%s %016x %016x", fn, a, b)
		case k < 60:
			fn := kit.Pick(r, cmps32)
			a, b := pair32(r, fn)
			if r.Chance(20) {
				b = a
			}
			w.Op("%s %08x %08x", fn, a, b)
		case k < 66:
			// narrowing: float32 values widened, then perturbed around the rounding boundary
			x := uint64(sfF32to64(any32(r)))
			switch r.Intn(5) {
			case 0:
				x += 1 << 28 // exact tie (unless it carries)
			case 1:
				x += 1<<28 - 1
			case 2:
				x += 1<<28 + 1
			case 3:
				x ^= r.U64() & (1<<29 - 1)
			}
			w.Op("F64to32 %016x", x)
		case k < 69:
			w.Op("F64to32 %016x", any64(r))
		case k < 72:
			w.Op("F32to64 %08x", any32(r))
		case k < 80:
			w.Op("%s %016x", kit.Pick(r, fromInt64), int64v(r))
		case k < 82:
			w.Op("%s %08x", kit.Pick(r, []string{"Fint32to32", "Fint32to64"}), uint32(int64v(r)))
		case k < 88:
			w.Op("%s %016x", kit.Pick(r, toInt64), toInt64v(r))
		case k < 92:
			w.Op("%s %08x", kit.Pick(r, toInt32), toInt32v(r))
		case k < 94:
			if r.Bool() {
				w.Op("Funpack64 %016x", any64(r))
			} else {
				w.Op("Funpack32 %08x", any32(r))
			}
		case k < 96:
			if r.Bool() {
				w.Op("Fneg64 %016x", any64(r))
			} else {
				w.Op("Fneg32 %08x", any32(r))
			}
		case k < 98:
			// fpack directly: mantissa of random length, exponent across the whole range
			m := r.U64() >> uint(r.Intn(64))
			if r.Chance(30) {
				m = 1<<uint(r.Intn(64)) + uint64(r.Intn(3))
			}
			t := uint64(0)
			if r.Chance(40) {
				t = 1 + uint64(r.Intn(3))
			}
			s := uint64(0)
			if r.Bool() {
				s = 1 << 63
			}
			if r.Bool() {
				e := int64(r.Range(-1200, 1100))
				if r.Chance(30) {
					e = int64(kit.Pick(r, []int{-1075, -1074, -1023, -1022, 1023, 1024}) - r.Intn(14) + 2)
				}
				w.Op("fpack64 %016x %016x %016x %016x", s, m, uint64(e), t)
			} else {
				e := int64(r.Range(-200, 180))
				if r.Chance(30) {
					e = int64(kit.Pick(r, []int{-150, -149, -127, -126, 127, 128}) - r.Intn(12) + 2)
				}
				w.Op("fpack32 %08x %08x %016x %08x", uint32(s>>32), uint32(m>>uint(r.Intn(33))), uint64(e), uint32(t))
			}
		default:
			if r.Bool() {
				a, b := r.U64()>>uint(r.Intn(64)), r.U64()>>uint(r.Intn(64))
				w.Op("mullu %016x %016x", a, b)
			} else {
				v := r.U64() >> uint(r.Intn(63))
				if r.Chance(30) {
					v |= 1 << 63
				}
				if r.Chance(20) {
					v = kit.Pick(r, []uint64{1, 2, 3, 1 << 32, 1<<32 - 1, 1<<32 + 1, 1 << 63, 1<<63 + 1, math.MaxUint64, 0x8000000000000001, 0xffffffff00000000, 0x80000000ffffffff})
				}
				u1 := r.U64()
				if v != 0 && r.Chance(85) {
					u1 %= v
					if r.Chance(20) {
						u1 = v - 1
					}
				}
				u0 := r.U64()
				if r.Chance(15) {
					u0 = kit.Pick(r, []uint64{0, math.MaxUint64, 1 << 63, 1<<32 - 1})
				}
				w.Op("divlu %016x %016x %016x", u1, u0, v)
			}
		}
	}

	// ---- 4. uniformly random bit patterns (exponents far apart: exercises the absorb / overflow / underflow paths)
	w.Case("random-uniform")
	for i := 0; i < n/8; i++ {
		w.Op("%s %016x %016x", kit.Pick(r, bin64), r.U64(), r.U64())
		w.Op("%s %08x %08x", kit.Pick(r, bin32), uint32(r.U64()), uint32(r.U64()))
	}

	// ---- 5. unary float32 functions over ranges
	w.Case("sweeps")
	for _, fn := range sweepFns {
		// a window around every special value and strided samples of the whole space
		cnt := 256
		if thorough {
			cnt = 4096
		}
		for i := 0; i < 3*scale; i++ {
			c := kit.Pick(r, s32)
			w.Op("sweep %s %08x %d 1", fn, c-uint32(cnt/2), cnt)
		}
		w.Op("sweep %s %08x %d %d", fn, uint32(r.U64()), cnt*8, 1+2*r.Intn(1<<18))
	}
	if thorough {
		// exhaustive: every float32 / int32 bit pattern for every unary function (real code vs oracle);
		// the model follows on every 2039th input of each shard
		w.Case("exhaustive-32")
		for _, fn := range sweepFns {
			for sh := 0; sh < 8; sh++ {
				w.Op("exh32 %s %d 8 2039", fn, sh)
			}
		}
	}

	// ---- 6. the same operations through the GnoVM
	w.Case("gnovm")
	nvm := 150
	if thorough {
		nvm = 6000
	}
	vmNames := make([]string, 0, len(vmOps))
	for _, grp := range [][]string{bin64, bin32, cmps64[:5], cmps32, {"Fneg64", "Fneg32", "F64to32", "F32to64"},
		{"Fintto64", "Fintto32", "Fint64to64", "Fint64to32", "Fint32to64", "Fint32to32", "Fuint64to64", "Fuint64to32"},
		{"F64toint", "F64toint64", "F64toint32", "F64touint64", "F32toint64", "F32toint32", "F32touint64"}} {
		vmNames = append(vmNames, grp...)
	}
	// integer→float boundary table through the VM's conversion glue (values_conversions.go): exact ties at the
	// float32 / float64 cut with and without a tail that the other format cannot hold (a conversion routed through
	// the wrong width rounds twice and is off by one ulp exactly here), both parities of the kept LSB, both signs
	for _, v := range vmIntBoundary() {
		for _, fn := range []string{"Fintto32", "Fint64to32", "Fuint64to32", "Fintto64", "Fint64to64", "Fuint64to64"} {
			w.Op("vm %s %016x", fn, v)
		}
	}
	for i := 0; i < nvm; i++ {
		fn := vmNames[i%len(vmNames)]
		o := ops[fn]
		line := "vm " + fn
		switch {
		case len(o.w) == 2 && o.w[0] == 64:
			a, b := pair64(r, fn)
			line += fmt.Sprintf(" %016x %016x", a, b)
		case len(o.w) == 2:
			a, b := pair32(r, fn)
			line += fmt.Sprintf(" %08x %08x", a, b)
		case fn[1] == 'i' || fn[1] == 'u': // from integer
			if o.w[0] == 64 {
				line += fmt.Sprintf(" %016x", int64v(r))
			} else {
				line += fmt.Sprintf(" %08x", uint32(int64v(r)))
			}
		case len(fn) > 6 && (fn[3:6] == "toi" || fn[3:6] == "tou"): // to integer: keep it in range (the VM may reject others)
			if o.w[0] == 64 {
				x := toInt64v(r)
				for tries := 0; tries < 50 && !vmInRange64(fn, x); tries++ {
					x = toInt64v(r)
				}
				if !vmInRange64(fn, x) {
					x = 0x4045000000000000
				}
				line += fmt.Sprintf(" %016x", x)
			} else {
				x := toInt32v(r)
				for tries := 0; tries < 50 && !vmInRange32(fn, x); tries++ {
					x = toInt32v(r)
				}
				if !vmInRange32(fn, x) {
					x = 0x42280000
				}
				line += fmt.Sprintf(" %08x", x)
			}
		case o.w[0] == 64:
			line += fmt.Sprintf(" %016x", any64(r))
		default:
			line += fmt.Sprintf(" %08x", any32(r))
		}
		w.Op("%s", line)
	}

	// ---- 7. malformed stream
	w.Case("malformed")
	bad := []string{
		"Fadd64", "Fadd64 3ff0000000000000", "Fadd64 3ff0000000000000 3ff0000000000000 3ff0000000000000",
		"Fadd64 3ff00000 3ff00000", "Fadd32 3ff0000000000000 3ff0000000000000", "Fadd64 3ff000000000000g 3ff0000000000000",
		"Fadd64 0x3ff00000000000 3ff0000000000000", "fadd64 3ff0000000000000 3ff0000000000000", "Fsqrt64 3ff0000000000000",
		"Fneg64 -ff0000000000000", "Fneg32 3f80000", "Fneg32 3f8000000", "sweep Fneg32 00000000 99999999999 1", "sweep Fnope 00000000 10 1",
		"sweep Fneg32 00000000 10", "sweep Fneg32 0000 10 1", "sweep Fneg32 00000000 -1 1", "exh32 Fneg32 8 8 1021", "exh32 Fneg32 0 3 1021",
		"exh32 Fneg32 0 8 0", "exh32 Fneg32 0 8 1", "vm", "vm Fnope 00", "vm Funpack64 0000000000000000", "vm sweep Fneg32 00000000 10 1",
		"divlu 0000000000000001 0000000000000000", "fpack64 0000000000000000 0000000000000001 0000000000000000",
		"FADD64 3FF0000000000000 3FF0000000000000", "Fadd64 3FF0000000000000 3FF0000000000000",
	}
	for _, l := range bad {
		w.Op("%s", l)
	}
	for i := 0; i < 40*scale; i++ {
		l := []byte(fmt.Sprintf("%s %016x %016x", kit.Pick(r, bin64), any64(r), any64(r)))
		switch r.Intn(4) {
		case 0:
			l = l[:r.Intn(len(l))]
		case 1:
			l[r.Intn(len(l))] = "ghxyz_-+.:"[r.Intn(10)]
		case 2:
			l = append(l, []byte(" "+fmt.Sprintf("%x", r.Intn(256)))...)
		case 3:
			p := 7 + r.Intn(len(l)-7)
			l = append(l[:p], l[p+1:]...)
		}
		if len(l) > 0 && l[0] != '#' {
			w.Op("%s", string(l))
		}
	}
}

// the widening used to build narrowing test points (exact; through the code under test is fine for GENERATION only)
func sfF32to64(x uint32) uint64 { return math.Float64bits(float64(math.Float32frombits(x))) }

func vmInRange64(fn string, x uint64) bool {
	z := truncBig64(x)
	switch fn {
	case "F64toint64":
		return inRange(z, minI64, maxI64)
	case "F64toint32":
		return inRange(z, minI32, maxI32)
	}
	return inRange(z, bigZero, maxU64) && x>>63 == 0
}

func vmInRange32(fn string, x uint32) bool {
	z := truncBig32(x)
	switch fn {
	case "F32toint64":
		return inRange(z, minI64, maxI64)
	case "F32toint32":
		return inRange(z, minI32, maxI32)
	}
	return inRange(z, bigZero, maxU64) && x>>31 == 0
}

// vmIntBoundary: 64-bit patterns around the rounding ties of integer→float32/float64 conversion.
func vmIntBoundary() []uint64 {
	var out []uint64
	for _, n := range []uint{26, 40, 55, 58, 61, 63, 64} {
		for _, cut := range []uint{24, 53} {
			if n <= cut+1 {
				continue
			}
			low := n - cut
			for _, odd := range []uint64{0, 1} {
				top := (uint64(1)<<(cut-1) | 0x2aaaaa&(uint64(1)<<(cut-1)-1) | odd) &^ (1 - odd) // kept mantissa, chosen LSB parity
				base := top<<low | 1<<(low-1)                                                      // exact tie
				out = append(out, base, base+1, base-1)
				if low > 30 {
					out = append(out, base+1<<(low-30), base-1<<(low-30)) // tail above bit 0 but below the wider format's cut
				}
				if n < 64 {
					out = append(out, -base, -(base + 1), -(base - 1)) // negative (two's complement) for the signed sources
				}
			}
		}
	}
	return out
}
