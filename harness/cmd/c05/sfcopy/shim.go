// Package sfcopy is the CURRENT source of
// /repo/gnovm/pkg/gnolang/internal/softfloat (an `internal` package that a
// harness outside gnovm/pkg/gnolang cannot import), re-copied by `gvx copysrc`
// on every `./check C05` run with only the package clause rewritten
// (runtime_softfloat64.go and softfloat.go in this directory are generated and
// git-ignored).  This committed file only re-exports the unexported helpers the
// harness drives directly; if the source renames them the harness build breaks,
// which the runner reports as a broken tie.
package sfcopy

func Xfpack64(sign, mant uint64, exp int, trunc uint64) uint64 { return fpack64(sign, mant, exp, trunc) }
func Xfpack32(sign, mant uint32, exp int, trunc uint32) uint32 { return fpack32(sign, mant, exp, trunc) }
func Xmullu(u, v uint64) (lo, hi uint64)                        { return mullu(u, v) }
func Xdivlu(u1, u0, v uint64) (q, r uint64)                     { return divlu(u1, u0, v) }
