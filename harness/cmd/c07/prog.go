package main

import (
	"fmt"
	"strings"
)

// An attacker program:  atk <entry> <chain> <act>
//
//	entry  run  = MsgRun script (package main at gno.land/e/<caller>/run)
//	       call = fresh attacker realm gno.land/r/c07/a<N>, MsgCall Entry
//	chain  "-" or links separated by '.', each link = <hop><cb>:
//	       hop  d direct call            p victim.ApplyPlain(cb)     x victim.Apply(cross(cur), cb)
//	            m victim.GetPt().Do(cb)  b victim.GetPBx().Do(cb)    l lib.Apply(cb)
//	            u (&lib.Box{}).Do(cb)    o other.ApplyPlain(cb)      y other.Apply(cross(cur), cb)
//	       cb   f func literal   n named top-level function   w lib.Wrap(func literal)
//	            t method value of an attacker-declared struct type
//	       x / y need the live `cur`, so they are valid at the first link only.
//	act    <who>:<what>, see acts below; it is the body of the innermost callback.
type link struct{ hop, cb byte }

type prog struct {
	entry string
	chain []link
	act   string
}

// label of an action = what the PROPERTY STATEMENT demands (oracle side only).
//
//	A  mutation statement in attacker-chosen code aimed at victim-owned state:
//	   the tx must abort and victim state must stay unchanged
//	N  touches nothing of the victim: victim state must stay unchanged
//	K  construction of a victim-declared type outside the victim: must abort
//	R  persisting a realm value: must abort, no realm value may reach the store
//	V  the mutation is performed by victim code / code the spec gives victim
//	   authority: no constraint
//	H  attacker stores a reference to a victim object: logical content unchanged
type actInfo struct {
	label    byte
	needCur  bool // uses cross(cur) / cur: only valid with an empty chain
	callOnly bool // needs the attacker realm's own persistent variable
	code     string
}

var acts = map[string]actInfo{
	// --- attacker statement through an alias handed out by a getter
	"s:px": {'A', false, false, `p := victim.GetPX(); *p = 42`},
	"s:pn": {'A', false, false, `victim.GetPt().N = 42`},
	"s:pa": {'A', false, false, `victim.GetPt().N += 5`},
	"s:pi": {'A', false, false, `victim.GetPt().N++`},
	"s:pq": {'A', false, false, `q := &victim.GetPt().N; *q = 42`},
	"s:s0": {'A', false, false, `victim.GetSl()[0] = 42`},
	"s:si": {'A', false, false, `victim.GetSl()[0]++`},
	"s:ap": {'A', false, false, `_ = append(victim.GetSl(), 42)`},
	"s:cp": {'A', false, false, `copy(victim.GetSl(), []int{9})`},
	"s:mk": {'A', false, false, `victim.GetMp()["a"] = 42`},
	"s:mn": {'A', false, false, `victim.GetMp()["zz"] = 42`},
	"s:md": {'A', false, false, `delete(victim.GetMp(), "a")`},
	"s:bn": {'A', false, false, `victim.GetPBx().N = 42`},
	"s:ia": {'A', false, false, `var i any = victim.GetPt(); i.(*victim.T).N = 42`},
	"s:df": {'A', false, false, `defer func() { victim.GetPt().N = 42 }()`},
	// --- attacker statement on the victim's exported variables
	"s:vx": {'A', false, false, `victim.X = 42`},
	"s:vi": {'A', false, false, `victim.X++`},
	"s:vs": {'A', false, false, `victim.St.N = 42`},
	"s:vl": {'A', false, false, `victim.Sl[0] = 42`},
	"s:vm": {'A', false, false, `victim.Mp["a"] = 42`},
	"s:vp": {'A', false, false, `victim.Pt.N = 42`},
	"s:va": {'A', false, false, `victim.Ar[0] = 42`},
	"s:vr": {'A', false, false, `p := &victim.X; *p = 42`},
	"s:vf": {'A', false, false, `victim.Fn = nil`},
	// --- attacker statement on values that are not victim state
	"s:cs": {'N', false, false, `t := victim.GetSt(); t.N = 42`},
	"s:nt": {'N', false, false, `t := victim.NewT(); t.N = 42`},
	"s:ow": {'N', false, false, `o := &Own{}; o.N = 5`},
	// --- construction of victim-declared types outside the victim
	"s:kl": {'K', false, false, `t := victim.T{N: 1}; _ = t`},
	"s:kp": {'K', false, false, `t := &victim.T{N: 1}; _ = t`},
	"s:kn": {'K', false, false, `t := new(victim.T); _ = t`},
	"s:km": {'K', false, false, `t := make([]victim.T, 2); _ = t`},
	"s:kz": {'K', false, false, `var t victim.T; _ = t`},
	"s:ka": {'K', false, false, `t := [2]victim.T{}; _ = t`},
	"s:kc": {'A', false, false, `p := (*My)(victim.GetPt()); p.N = 42`},
	// --- composite literals / make / conversions of every victim-declared composite kind
	"s:ku": {'K', false, false, `t := victim.T{1, nil}; _ = t`},
	"s:ke": {'K', false, false, `t := victim.T{}; _ = t`},
	"s:qm": {'K', false, false, `v := victim.Voucher{"mallory": 1000000}; _ = v`},
	"s:qn": {'K', false, false, `v := victim.Voucher{}; _ = v`},
	"s:qk": {'K', false, false, `v := make(victim.Voucher); _ = v`},
	"s:ql": {'K', false, false, `v := victim.Ints{1, 2}; _ = v`},
	"s:qe": {'K', false, false, `v := victim.Ints{}; _ = v`},
	"s:qi": {'K', false, false, `v := victim.Ints{2: 5}; _ = v`},
	"s:qs": {'K', false, false, `v := make(victim.Ints, 2); _ = v`},
	"s:qa": {'K', false, false, `v := victim.Tri{1, 2, 3}; _ = v`},
	"s:qb": {'K', false, false, `v := victim.Tri{}; _ = v`},
	"s:qj": {'K', false, false, `v := victim.Tri{1: 5}; _ = v`},
	"s:qp": {'K', false, false, `v := &victim.Voucher{"m": 1}; _ = v`},
	"s:qo": {'K', false, false, `v := new(victim.Voucher); _ = v`},
	// nested inside a literal of an attacker type / of an anonymous composite
	"s:qw": {'K', false, false, `w := Wrap{V: victim.Voucher{"m": 1}}; _ = w`},
	"s:qx": {'K', false, false, `w := Wrap{T: victim.T{N: 1}}; _ = w`},
	"s:qt": {'K', false, false, `w := []victim.T{{N: 1}}; _ = w`},
	"s:qu": {'K', false, false, `w := map[string]victim.T{"a": {N: 1}}; _ = w`},
	"s:qv": {'K', false, false, `w := []victim.Voucher{{"m": 1}}; _ = w`},
	"s:qg": {'K', false, false, `w := [1]victim.Ints{{1}}; _ = w`},
	// passed straight into a victim function that trusts its own type
	"s:qr": {'K', false, false, `_ = victim.Redeem(victim.Voucher{"mallory": 1000000})`},
	"s:qy": {'K', false, false, `_ = victim.TakeT(victim.T{N: 5})`},
	"s:qz": {'K', false, false, `_ = victim.SumInts(victim.Ints{1, 2})`},
	"s:qf": {'K', false, false, `_ = victim.SumTri(victim.Tri{1, 2, 3})`},
	// conversion of an attacker-built value to the victim's type
	"s:qc": {'K', false, false, `v := victim.Voucher(map[string]int{"m": 1}); _ = v`},
	"s:qd": {'K', false, false, `v := victim.Ints([]int{1}); _ = v`},
	"s:qh": {'K', false, false, `_ = victim.Redeem(map[string]int{"mallory": 1})`},
	// zero values of the declared composite types
	"s:zv": {'K', false, false, `var v victim.Voucher; _ = victim.Redeem(v)`},
	"s:zt": {'K', false, false, `var v victim.Tri; _ = victim.SumTri(v)`},
	"s:zi": {'K', false, false, `var v victim.Ints; _ = victim.SumInts(v)`},
	"s:zw": {'K', false, false, `w := Wrap{}; _ = victim.TakeT(w.T)`},
	// --- library (/p/) top-level functions chosen by the attacker do the write
	"k:px": {'A', false, false, `lib.PokeInt(victim.GetPX())`},
	"k:bn": {'A', false, false, `lib.Poke(victim.GetPBx())`},
	"k:s0": {'A', false, false, `lib.PokeSl(victim.GetSl())`},
	"k:mk": {'A', false, false, `lib.PokeMp(victim.GetMp())`},
	"k:bx": {'A', false, false, `f := (*lib.Box).Set; f(victim.GetPBx(), 42)`},
	// --- victim code (or code the spec gives victim authority) does the write
	"v:sx": {'V', true, false, `victim.SetX(cross(cur), 42)`},
	"v:sp": {'V', false, false, `victim.SetXPlain(42)`},
	"v:me": {'V', false, false, `victim.GetPt().SetN(42)`},
	"v:mv": {'V', false, false, `f := victim.GetPt().SetN; f(42)`},
	"v:mx": {'V', false, false, `f := (*victim.T).SetN; f(victim.GetPt(), 42)`},
	"v:bs": {'V', false, false, `victim.GetPBx().Set(42)`},
	"v:bv": {'V', false, false, `f := victim.GetPBx().Set; f(42)`},
	"v:fs": {'V', false, false, `victim.GetSetter()(42)`},
	"v:ls": {'V', false, false, `victim.GetLibSetter()(42)`},
	"v:fn": {'V', false, false, `victim.Fn(42)`},
	"v:wt": {'V', true, false, `victim.WriteThrough(cross(cur), victim.GetPX(), 42)`},
	"v:db": {'V', false, false, `victim.GetPBx().DoBox(lib.Poke)`},
	"v:vl": {'V', true, false, `victim.VisitInt(cross(cur), lib.PokeInt)`},
	// --- the victim hands its pointer to an attacker-declared callback
	"a:vf": {'A', true, false, `victim.VisitInt(cross(cur), func(p *int) { *p = 42 })`},
	"a:vn": {'A', true, false, `victim.VisitInt(cross(cur), poke)`},
	// --- realm values must never be persisted
	"r:kc": {'R', true, false, `victim.Keep(cross(cur), cur)`},
	"r:kp": {'R', true, false, `victim.Keep(cross(cur), cur.Previous())`},
	"r:ic": {'R', true, false, `victim.KeepCur(cross(cur))`},
	"r:ip": {'R', true, false, `victim.KeepPrev(cross(cur))`},
	"r:sc": {'R', true, true, `Stash = cur`},
	"r:sp": {'R', true, true, `Stash = cur.Previous()`},
	"r:sf": {'R', true, true, `Stash = &Hold{R: cur}`},
	"r:sm": {'R', true, true, `Stash = map[string]realm{"k": cur}`},
	"r:ss": {'R', true, true, `Stash = []realm{cur}`},
	"r:cl": {'R', true, true, `Stash = func() string { return cur.PkgPath() }`},
	// --- attacker realm keeps references to victim objects
	"h:pt": {'H', true, true, `Stash = victim.GetPt()`},
	"h:nt": {'H', true, true, `Stash = victim.NewT()`},
	"h:mz": {'H', true, true, `Stash = make([]victim.T, 2)`},
	"h:sl": {'H', true, true, `Stash = victim.GetSl()`},
}

const (
	hops = "dpxmbluoy"
	cbs  = "fnwt"
)

func parseProg(t []string) (p prog, ok bool) {
	if len(t) != 4 || t[0] != "atk" {
		return p, false
	}
	p.entry = t[1]
	if p.entry != "run" && p.entry != "call" {
		return p, false
	}
	if t[2] != "-" {
		for i, l := range strings.Split(t[2], ".") {
			if len(l) != 2 || !strings.ContainsRune(hops, rune(l[0])) || !strings.ContainsRune(cbs, rune(l[1])) {
				return p, false
			}
			if (l[0] == 'x' || l[0] == 'y') && i != 0 {
				return p, false
			}
			p.chain = append(p.chain, link{l[0], l[1]})
		}
		if len(p.chain) > 6 {
			return p, false
		}
	}
	a, known := acts[t[3]]
	if !known {
		return p, false
	}
	if a.needCur && len(p.chain) != 0 {
		return p, false
	}
	if a.callOnly && p.entry != "call" {
		return p, false
	}
	p.act = t[3]
	return p, true
}

// render produces the attacker package source.
func render(p prog, pkgName string) string {
	var decls []string
	// bodies[i] is the body of callback i (bodies[len] = the action)
	n := len(p.chain)
	body := acts[p.act].code
	for i := n - 1; i >= 0; i-- {
		l := p.chain[i]
		var cbExpr string
		switch l.cb {
		case 'f':
			cbExpr = "func() { " + body + " }"
		case 'n':
			decls = append(decls, fmt.Sprintf("func n%d() { %s }", i+1, body))
			cbExpr = fmt.Sprintf("n%d", i+1)
		case 'w':
			cbExpr = "lib.Wrap(func() { " + body + " })"
		case 't':
			decls = append(decls, fmt.Sprintf("type H%d struct{ Z int }\n\nfunc (H%d) Go() { %s }", i+1, i+1, body))
			cbExpr = fmt.Sprintf("H%d{}.Go", i+1)
		}
		switch l.hop {
		case 'd':
			if l.cb == 'f' {
				body = "(" + cbExpr + ")()"
			} else {
				body = cbExpr + "()"
			}
		case 'p':
			body = "victim.ApplyPlain(" + cbExpr + ")"
		case 'x':
			body = "victim.Apply(cross(cur), " + cbExpr + ")"
		case 'm':
			body = "victim.GetPt().Do(" + cbExpr + ")"
		case 'b':
			body = "victim.GetPBx().Do(" + cbExpr + ")"
		case 'l':
			body = "lib.Apply(" + cbExpr + ")"
		case 'u':
			body = "(&lib.Box{}).Do(" + cbExpr + ")"
		case 'o':
			body = "other.ApplyPlain(" + cbExpr + ")"
		case 'y':
			body = "other.Apply(cross(cur), " + cbExpr + ")"
		}
	}
	var entry string
	if p.entry == "run" {
		entry = "func main(cur realm) { " + body + " }"
	} else {
		entry = "func Entry(cur realm) { " + body + " }"
	}
	all := strings.Join(decls, "\n\n") + "\n\n" + entry
	var sb strings.Builder
	sb.WriteString("package " + pkgName + "\n\n")
	for _, im := range [][2]string{{"victim.", victimPath}, {"lib.", libPath}, {"other.", otherPath}} {
		if strings.Contains(all, im[0]) {
			sb.WriteString("import \"" + im[1] + "\"\n")
		}
	}
	sb.WriteString("\n")
	if strings.Contains(all, "Own{") {
		sb.WriteString("type Own struct{ N int }\n\n")
	}
	if strings.Contains(all, "(*My)") {
		sb.WriteString("type My victim.T\n\n")
	}
	if strings.Contains(all, "Wrap{") {
		sb.WriteString("type Wrap struct {\n\tV victim.Voucher\n\tT victim.T\n\tI victim.Ints\n}\n\n")
	}
	if strings.Contains(all, "Hold{") {
		sb.WriteString("type Hold struct{ R realm }\n\n")
	}
	if strings.Contains(all, "Stash") {
		sb.WriteString("var Stash any\n\n")
	}
	if strings.Contains(all, "poke)") {
		sb.WriteString("func poke(p *int) { *p = 42 }\n\n")
	}
	sb.WriteString(all)
	sb.WriteString("\n")
	return sb.String()
}
