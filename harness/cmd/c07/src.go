package main

// Gno sources of the fixed cast: a pure library, the VICTIM realm (its own
// code performs no write on the attacked paths except through the functions
// labelled as victim-code mutators), and a third-party realm.

const (
	libPath    = "gno.land/p/c07/lib"
	victimPath = "gno.land/r/c07/victim"
	otherPath  = "gno.land/r/c07/other"
	atkPrefix  = "gno.land/r/c07/a" // + counter: fresh attacker realm per `call` program
)

const libSrc = `package lib

type Box struct {
	N int
}

func (b *Box) Set(v int)           { b.N = v }
func (b *Box) Do(f func())         { f() }
func (b *Box) DoBox(f func(*Box))  { f(b) }

func Apply(f func())               { f() }
func Wrap(f func()) func()         { return func() { f() } }
func MakeSetter(p *int) func(int)  { return func(v int) { *p = v } }

func Poke(b *Box)                  { b.N = 77 }
func PokeInt(p *int)               { *p = 77 }
func PokeSl(s []int)               { s[0] = 77 }
func PokeMp(m map[string]int)      { m["a"] = 77 }
`

const victimSrc = `package victim

import (
	"strconv"

	"gno.land/p/c07/lib"
)

type T struct {
	N int
	P *T
}

// declared composite types of every kind: only victim code may construct them
type Voucher map[string]int
type Ints []int
type Tri [3]int

func Redeem(v Voucher) int  { return v["mallory"] }
func SumInts(v Ints) int    { return len(v) }
func SumTri(v Tri) int      { return v[0] + v[1] + v[2] }
func TakeT(t T) int         { return t.N }

var (
	X   int = 1
	St  T   = T{N: 2}
	Pt  *T  = &T{N: 3}
	Sl  []int
	Mp  map[string]int = map[string]int{"a": 1}
	Ar  [3]int
	PBx *lib.Box = &lib.Box{N: 5}
	Fn  func(int)
	Any any
)

func init() {
	Sl = make([]int, 3, 8)
	Fn = func(v int) { X = v }
}

// ---- read-only getters (hand out aliases of victim-owned objects)
func GetPt() *T             { return Pt }
func GetSl() []int          { return Sl }
func GetMp() map[string]int { return Mp }
func GetSt() T              { return St }
func GetPX() *int           { return &X }
func GetPBx() *lib.Box      { return PBx }
func NewT() *T              { return &T{N: 9} }

// ---- callback runners: they perform NO write themselves
func Apply(cur realm, f func()) { f() }
func ApplyPlain(f func())       { f() }
func (t *T) Do(f func())        { f() }
func VisitInt(cur realm, f func(*int)) { f(&X) }

// ---- victim-code mutators (the only sanctioned ways to change victim state)
func SetX(cur realm, v int)                 { X = v }
func SetXPlain(v int)                       { X = v }
func (t *T) SetN(v int)                     { t.N = v }
func GetSetter() func(int)                  { return func(v int) { X = v } }
func GetLibSetter() func(int)               { return lib.MakeSetter(&X) }
func WriteThrough(cur realm, p *int, v int) { *p = v }
func Keep(cur realm, v any)                 { Any = v }
func KeepCur(cur realm)                     { Any = cur }
func KeepPrev(cur realm)                    { Any = cur.Previous() }

func Dump() string {
	s := "X=" + strconv.Itoa(X) + " St.N=" + strconv.Itoa(St.N) + " Pt.N=" + strconv.Itoa(Pt.N)
	s += " Sl=" + strconv.Itoa(len(Sl)) + ":" + strconv.Itoa(Sl[0])
	s += " Mp=" + strconv.Itoa(len(Mp)) + ":" + strconv.Itoa(Mp["a"])
	s += " Ar0=" + strconv.Itoa(Ar[0]) + " PBx.N=" + strconv.Itoa(PBx.N)
	return s
}
`

const otherSrc = `package other

func Apply(cur realm, f func()) { f() }
func ApplyPlain(f func())       { f() }
`
