// Harness for C07 — a realm's persisted state changes only under that realm's
// authority.
//
// Every op line is a small ATTACKER PROGRAM (see prog.go) that is compiled to
// Gno source and executed through the REAL vm.VMKeeper on a memdb multistore
// (MsgRun, or MsgAddPackage of a fresh attacker realm + MsgCall), against the
// fixed victim realm of src.go.
//
// impl column :  <res> chg=<0|1> meta=<0|1> new=<0|1> rv=<0|1>
//
//	res   ok | panic:static | panic:readonly | panic:alloc | panic:persist |
//	      panic:conv | panic:immutable | panic:other | err:badop
//	chg   the DECODED logical content (values + child object ids, ownership
//	      bookkeeping stripped) of some pre-existing victim object changed
//	meta  no logical change, but raw bytes of a pre-existing victim object did
//	      (ref-count / escape bookkeeping)
//	new   objects appeared under the victim's PkgID prefix
//	rv    a realm value (.uverse..grealm) reached the store
//
// oracle column: the property statement evaluated on the raw `oid:` keys of the
// victim realm before/after the tx and on the generator's label of the
// program (who performs the mutation: attacker-chosen code or victim code) —
// it never looks at the Lean model.
package main

import (
	"fmt"
	"os"
	"strings"

	"gnoverif/c07kit"
	"gnoverif/kit"
)

var (
	E      *c07kit.Env
	atkCtr int
)

func env() *c07kit.Env {
	if E != nil {
		return E
	}
	E = c07kit.NewEnv("c07caller")
	for _, d := range []struct{ path, name, src string }{
		{libPath, "lib.gno", libSrc}, {victimPath, "victim.gno", victimSrc}, {otherPath, "other.gno", otherSrc},
	} {
		if err := E.DeployBase(d.path, []c07kit.File{{Name: d.name, Body: d.src}}); err != nil {
			panic("deploy " + d.path + ": " + c07kit.ErrMsg(err))
		}
	}
	E.NewCase()
	return E
}

func classify(msg string) string {
	switch {
	case strings.Contains(msg, "cannot directly mutate"):
		return "panic:static"
	case strings.Contains(msg, "readonly tainted"):
		return "panic:readonly"
	case strings.Contains(msg, "cannot allocate"):
		return "panic:alloc"
	case strings.Contains(msg, "cannot persist realm value"):
		return "panic:persist"
	case strings.Contains(msg, "illegal conversion"):
		return "panic:conv"
	case strings.Contains(msg, "immutable post-init"):
		return "panic:immutable"
	case strings.Contains(msg, "invariant violation: DidUpdate"):
		return "panic:invariant"
	}
	if c07kit.Trace() {
		fmt.Fprintf(os.Stderr, "unclassified: %.600s\n", msg)
	}
	return "panic:other"
}

func b01(b bool) string {
	if b {
		return "1"
	}
	return "0"
}

const realmValueMark = ".uverse..grealm"

func countMarks(m map[string]string) int {
	n := 0
	for _, v := range m {
		n += strings.Count(v, realmValueMark)
	}
	return n
}

type outcome struct {
	res  string
	vd   c07kit.ObjDiff
	rv   bool
	dump string
}

func runProg(p prog) outcome {
	e := env()
	vp := c07kit.OidPrefix(victimPath)
	op := c07kit.OidPrefix(otherPath)
	var ap string
	var src, path string
	if p.entry == "run" {
		src = render(p, "main")
	} else {
		atkCtr++
		name := fmt.Sprintf("a%d", atkCtr)
		path = atkPrefix[:len(atkPrefix)-1] + name
		src = render(p, name)
		ap = c07kit.OidPrefix(path)
	}
	if c07kit.Trace() {
		fmt.Fprintf(os.Stderr, "---- %v\n%s\n", p, src)
	}
	snap := func() (v map[string]string, marks int) {
		v = e.Objects(vp)
		marks = countMarks(v) + countMarks(e.Objects(op))
		if ap != "" {
			marks += countMarks(e.Objects(ap))
		}
		return
	}
	var err error
	var before map[string]string
	var m0 int
	if p.entry == "run" {
		before, m0 = snap()
		_, err = e.Run(src)
	} else {
		err = e.Deploy(path, []c07kit.File{{Name: "a.gno", Body: src}})
		before, m0 = snap() // after the deploy: deploying must itself not touch the victim (checked below)
		if err == nil {
			_, err = e.Call(path, "Entry")
		}
	}
	after, m1 := snap()
	o := outcome{res: "ok"}
	if err != nil {
		o.res = classify(c07kit.ErrMsg(err))
		if c07kit.Trace() {
			fmt.Fprintf(os.Stderr, "err: %.300s\n", c07kit.ErrMsg(err))
		}
	}
	o.vd = c07kit.DiffObjects(before, after)
	o.rv = m1 > m0
	return o
}

func hasNamed(p prog) bool {
	if p.act == "a:vn" {
		return true
	}
	for _, l := range p.chain {
		if l.cb == 'n' {
			return true
		}
	}
	return false
}

// oracle: the property statement on (label, tx result, victim object diff).
func oracle(p prog, o outcome) string {
	lab := acts[p.act].label
	ok := o.res == "ok"
	chg := len(o.vd.Logical) > 0
	detail := p.entry + "/" + chainStr(p) + "/" + p.act
	if o.vd.Err != "" {
		return "VIOL:undecodable " + detail
	}
	cls := func(dflt string) string {
		if p.entry == "run" && hasNamed(p) {
			return "eph-named-callback"
		}
		return dflt
	}
	switch lab {
	case 'A':
		if chg {
			return "VIOL:" + cls("foreign-write") + " " + detail
		}
		if ok {
			return "VIOL:" + cls("foreign-write-no-abort") + " " + detail
		}
	case 'N', 'H':
		if chg {
			return "VIOL:" + cls("foreign-write") + " " + detail
		}
	case 'K':
		if chg {
			return "VIOL:" + cls("foreign-write") + " " + detail
		}
		if ok {
			switch p.act {
			case "s:km", "s:kz", "s:ka", "s:zv", "s:zt", "s:zi", "s:zw":
				return "VIOL:" + cls("zero-construct-outside") + " " + detail
			}
			return "VIOL:" + cls("construct-outside") + " " + detail
		}
	case 'R':
		if ok || o.rv {
			switch p.act {
			case "r:kp", "r:sp":
				return "VIOL:persist-origin-realm " + detail
			}
			return "VIOL:persist-realm " + detail
		}
	case 'V':
		// victim authority: any outcome is within the statement
	}
	if !ok && (chg || len(o.vd.Meta) > 0 || len(o.vd.New) > 0) {
		return "VIOL:aborted-tx-wrote " + detail
	}
	return "ok"
}

func chainStr(p prog) string {
	if len(p.chain) == 0 {
		return "-"
	}
	var s []string
	for _, l := range p.chain {
		s = append(s, string([]byte{l.hop, l.cb}))
	}
	return strings.Join(s, ".")
}

func exec(t []string) (string, string) {
	p, ok := parseProg(t)
	if !ok {
		return "err:badop", "-"
	}
	env().NewCase() // every program runs against the pristine victim
	o := runProg(p)
	impl := fmt.Sprintf("%s chg=%s meta=%s new=%s rv=%s", o.res,
		b01(len(o.vd.Logical) > 0), b01(len(o.vd.Logical) == 0 && len(o.vd.Meta) > 0), b01(len(o.vd.New) > 0), b01(o.rv))
	return impl, oracle(p, o)
}

func reset() {
	if E != nil {
		E.NewCase()
	}
}

func main() {
	kit.Main(&kit.Harness{Gen: gen, Reset: reset, Exec: exec})
}
