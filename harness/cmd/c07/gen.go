package main

import (
	"sort"
	"strings"

	"gnoverif/kit"
)

func actKeys() []string {
	var ks []string
	for k := range acts {
		ks = append(ks, k)
	}
	sort.Strings(ks)
	return ks
}

func validAct(entry string, chainLen int, k string) bool {
	a := acts[k]
	if a.needCur && chainLen != 0 {
		return false
	}
	if a.callOnly && entry != "call" {
		return false
	}
	return true
}

func randChain(r *kit.Rand, n int) string {
	var ls []string
	for i := 0; i < n; i++ {
		for {
			h := hops[r.Intn(len(hops))]
			if (h == 'x' || h == 'y') && i != 0 {
				continue
			}
			c := cbs[r.Intn(len(cbs))]
			ls = append(ls, string([]byte{h, c}))
			break
		}
	}
	return strings.Join(ls, ".")
}

func gen(w *kit.Out, r *kit.Rand, tier string) {
	keys := actKeys()
	var chainActs []string // acts usable inside callbacks
	for _, k := range keys {
		if !acts[k].needCur {
			chainActs = append(chainActs, k)
		}
	}
	per := 0
	caseNo := 0
	emit := func(tag, line string) {
		if per == 0 {
			caseNo++
			w.Case(tag + "-" + itoa(caseNo))
		}
		w.Op("%s", line)
		per = (per + 1) % 40
	}
	// 1. boundary table: every action from both entry kinds, no indirection
	for _, en := range []string{"run", "call"} {
		for _, k := range keys {
			if validAct(en, 0, k) {
				emit("table", "atk "+en+" - "+k)
			}
		}
	}
	// 2. every single link with representative actions
	rep := []string{"s:pn", "v:sp", "s:kl"}
	repCall := []string{"s:pn"}
	if tier == "thorough" {
		rep = []string{"s:pn", "s:px", "s:mk", "s:ap", "k:px", "v:sp", "v:me", "s:ow", "s:kl", "s:km", "s:cs", "s:qm", "s:qr"}
		repCall = []string{"s:pn", "s:mk", "k:px", "v:me", "s:kl", "s:ow"}
	}
	per = 0
	for _, h := range hops {
		for _, c := range cbs {
			l := string([]rune{h, c})
			for _, a := range rep {
				emit("link", "atk run "+l+" "+a)
			}
			for _, a := range repCall {
				emit("link", "atk call "+l+" "+a)
			}
		}
	}
	// 3. structured random: chains of 2..4 links, any callback-compatible action
	n := 120
	if tier == "thorough" {
		n = 2500
	}
	per = 0
	for i := 0; i < n; i++ {
		en := "run"
		if r.Chance(35) {
			en = "call"
		}
		ln := 2 + r.Intn(3)
		var a string
		for {
			a = kit.Pick(r, chainActs)
			if validAct(en, ln, a) {
				break
			}
		}
		emit("rand", "atk "+en+" "+randChain(r, ln)+" "+a)
	}
	// 4. malformed stream
	per = 0
	bad := []string{
		"atk", "atk run", "atk run - zz:zz", "atk walk - s:pn", "atk run pf.xf s:pn", "atk run qq s:pn",
		"atk run pf v:sx", "atk run - r:sc", "atk run - h:pt", "atk run pz s:pn", "foo bar", "atk run - s:pn extra",
		"atk call df.yf s:pn", "atk run p s:pn", "atk run pf. s:pn",
	}
	for _, b := range bad {
		emit("malformed", b)
	}
	for i := 0; i < 10; i++ {
		toks := []string{"atk", kit.Pick(r, []string{"run", "call", "x"}), randChain(r, 1+r.Intn(2)) + kit.Pick(r, []string{"", ".", ".zz", "q"}), kit.Pick(r, keys) + kit.Pick(r, []string{"", "x"})}
		emit("malformed", strings.Join(toks, " "))
	}
}

func itoa(n int) string {
	if n == 0 {
		return "0"
	}
	s := ""
	for n > 0 {
		s = string(rune('0'+n%10)) + s
		n /= 10
	}
	return s
}
