// Harness for C40: the mempool (tm2/pkg/bft/mempool.CListMempool) never
// duplicates, loses order, or over-reaps.
//
// A REAL CListMempool is driven through a local ABCI client whose application
// answers CheckTx from the op line (scripted), so every op is one atomic step:
// with the local client CheckTxAsync runs the app and both callbacks
// synchronously, and Update is called the way consensus calls it
// (Lock; FlushAppConn; Update; Unlock).
//
// op lines (ints decimal, |v| <= 2^62; tx = lowercase hex, `e` = empty tx):
//
//	cfg <size> <maxPendingTxsBytes> <cacheSize> <maxTxBytes> <recheck 0|1>   new mempool
//	check <tx> <o|x> <gas>            CheckTx; app answers ok/err with GasWanted=gas (0 <= gas < 2^60)
//	update <height> <commits> <rc>    commits: `-` or tx:o,tx:x,...  (o = DeliverTx ok, x = error)
//	                                  rc: `-` or a string over {o,x}: the app's answers to the recheck
//	                                  CheckTx calls in order (missing answers = o)
//	reapbg <maxBytes> <maxGas>        ReapMaxBytesMaxGas
//	reapn <n>                         ReapMaxTxs
//	flush                             Flush
//	stress <seed> <rounds>            (thorough) concurrent CheckTx/Update/Reap; oracle invariants only
//
// output:  <result> | <tx>@<height>,...|-  b=<TxsBytes()> n=<Size()>
//
//	result: ok | added | present | rejected | err:full | err:toolarge | err:incache |
//	        reap=<tx,...|-> | panic:maxbytes0 | panic:maxtxbytes | err:badop | stress
//
// The pool content is read by walking TxsFront()/Next() and reading the
// element's fields by reflection (not through Reap*), so the reap functions are
// judged against an independent observation.
//
// oracle (plain slices/maps; evaluates the property statement on what the
// implementation shows, nothing is taken from the Lean model):
//
//	dup-tx                 the pool holds two elements with the same tx bytes
//	order                  elements are not in strictly increasing arrival order / unknown element
//	committed-remains      a tx committed by this Update is still in the pool
//	committed-remains-dup  same, but the surviving element is, or once was, one of several
//	                       elements holding the same tx (consequence of an earlier dup-tx)
//	size-over, bytes-over  more than config.Size txs / more than MaxPendingTxsBytes bytes held
//	size-mismatch, bytes-mismatch  Size()/TxsBytes() disagree with the elements held
//	reap-not-prefix        a reap result is not a prefix of the pool
//	reap-bytes-over, reap-gas-over  ReapMaxBytesMaxGas result exceeds a (non-negative) limit
//	reap-short             the reap stopped although the next tx still fits / fewer than min(n,len)
//	reap-over              ReapMaxTxs(n) returned more than n txs
package main

import (
	"bytes"
	"fmt"
	"reflect"
	"strings"
	"sync"
	"sync/atomic"

	abci "github.com/gnolang/gno/tm2/pkg/bft/abci/types"
	"github.com/gnolang/gno/tm2/pkg/bft/mempool"
	cfg "github.com/gnolang/gno/tm2/pkg/bft/mempool/config"
	"github.com/gnolang/gno/tm2/pkg/bft/proxy"
	"github.com/gnolang/gno/tm2/pkg/bft/types"
	"github.com/gnolang/gno/tm2/pkg/clist"
	"github.com/gnolang/gno/tm2/pkg/log"
	"gnoverif/kit"
)

// ---------------------------------------------------------------- scripted ABCI app

type scriptApp struct {
	abci.BaseApplication
	newOK   bool
	newGas  int64
	recheck []bool
	rcPos   int
	// stress mode
	stress bool
	height *int64
}

func (a *scriptApp) CheckTx(req abci.RequestCheckTx) abci.ResponseCheckTx {
	ok := true
	var gas int64
	if a.stress {
		h := atomic.LoadInt64(a.height)
		if req.Type == abci.CheckTxTypeRecheck {
			ok = (int64(req.Tx[0])+h)%7 != 0
		} else {
			ok = req.Tx[0]%5 != 0
			gas = int64(req.Tx[0] % 4)
		}
	} else if req.Type == abci.CheckTxTypeRecheck {
		if a.rcPos < len(a.recheck) {
			ok = a.recheck[a.rcPos]
		}
		a.rcPos++
	} else {
		ok, gas = a.newOK, a.newGas
	}
	res := abci.ResponseCheckTx{GasWanted: gas}
	if !ok {
		res.Error = abci.StringError("scripted reject")
	}
	return res
}

// ---------------------------------------------------------------- state

type conf struct {
	size       int64
	maxPending int64
	cacheSize  int64
	maxTxBytes int64
	recheck    bool
}

var defaultConf = conf{size: 4, maxPending: 12, cacheSize: 3, maxTxBytes: 5, recheck: true}

type arrival struct {
	tx  []byte
	gas int64
}

type world struct {
	c   conf
	app *scriptApp
	mem *mempool.CListMempool
	// oracle bookkeeping
	arrivals []arrival
	idx      map[*clist.CElement]int // element identity -> arrival index
	// elements that have, at some observation, shared the pool with another
	// element carrying the same tx bytes (a later committed-remains on such an
	// element is a consequence of that duplicate, classified separately)
	wasDup map[*clist.CElement]bool
}

var w *world

func newMempool(c conf, app *scriptApp) *mempool.CListMempool {
	cc := proxy.NewLocalClientCreator(app)
	cli, _ := cc.NewABCIClient()
	cli.SetLogger(log.NewNoopLogger())
	if err := cli.Start(); err != nil {
		panic(err)
	}
	mc := cfg.DefaultMempoolConfig()
	mc.Size = int(c.size)
	mc.MaxPendingTxsBytes = c.maxPending
	mc.CacheSize = int(c.cacheSize)
	mc.Recheck = c.recheck
	m := mempool.NewCListMempool(mc, cli, 0, c.maxTxBytes)
	m.SetLogger(log.NewNoopLogger())
	return m
}

func newWorld(c conf) *world {
	app := &scriptApp{}
	return &world{c: c, app: app, mem: newMempool(c, app), idx: map[*clist.CElement]int{}, wasDup: map[*clist.CElement]bool{}}
}

func reset() { w = newWorld(defaultConf) }

// ---------------------------------------------------------------- observation

type held struct {
	e      *clist.CElement
	tx     []byte
	height int64
}

func walk(m *mempool.CListMempool) []held {
	var out []held
	for e := m.TxsFront(); e != nil; e = e.Next() {
		v := reflect.ValueOf(e.Value).Elem()
		out = append(out, held{e: e, tx: append([]byte{}, v.FieldByName("tx").Bytes()...), height: v.FieldByName("height").Int()})
	}
	return out
}

func dump(hs []held, m *mempool.CListMempool) string {
	var sb strings.Builder
	if len(hs) == 0 {
		sb.WriteString("-")
	}
	for i, h := range hs {
		if i > 0 {
			sb.WriteByte(',')
		}
		fmt.Fprintf(&sb, "%s@%d", kit.Hex(h.tx), h.height)
	}
	fmt.Fprintf(&sb, " b=%d n=%d", m.TxsBytes(), m.Size())
	return sb.String()
}

func txsStr(txs types.Txs) string {
	if len(txs) == 0 {
		return "-"
	}
	p := make([]string, len(txs))
	for i, t := range txs {
		p[i] = kit.Hex(t)
	}
	return strings.Join(p, ",")
}

// ---------------------------------------------------------------- parsing (strict; mirrored by the Lean driver)

const lim = int64(1) << 62

func pInt(s string) (int64, bool) {
	t := s
	if strings.HasPrefix(t, "-") {
		t = t[1:]
	}
	if len(t) == 0 || len(t) > 19 {
		return 0, false
	}
	for _, c := range t {
		if c < '0' || c > '9' {
			return 0, false
		}
	}
	var v int64
	for _, c := range t {
		d := int64(c - '0')
		if v > (lim-d)/10 {
			return 0, false
		}
		v = v*10 + d
	}
	if s[0] == '-' {
		v = -v
	}
	return v, true
}

func pTx(s string) ([]byte, bool) {
	if s == "e" {
		return []byte{}, true
	}
	if len(s) == 0 || len(s)%2 != 0 {
		return nil, false
	}
	out := make([]byte, len(s)/2)
	for i := 0; i < len(s); i++ {
		c := s[i]
		var d byte
		switch {
		case c >= '0' && c <= '9':
			d = c - '0'
		case c >= 'a' && c <= 'f':
			d = c - 'a' + 10
		default:
			return nil, false
		}
		if i%2 == 0 {
			out[i/2] = d << 4
		} else {
			out[i/2] |= d
		}
	}
	return out, true
}

func pFlag(s string) (bool, bool) {
	switch s {
	case "o":
		return true, true
	case "x":
		return false, true
	}
	return false, false
}

// ---------------------------------------------------------------- oracle

// invariants judges the pool as observed; it also returns the first violation only.
func (w *world) invariants(hs []held) string {
	for i := range hs {
		for j := i + 1; j < len(hs); j++ {
			if bytes.Equal(hs[i].tx, hs[j].tx) {
				w.wasDup[hs[i].e], w.wasDup[hs[j].e] = true, true
			}
		}
	}
	last := -1
	for i, h := range hs {
		k, known := w.idx[h.e]
		if !known || !bytes.Equal(w.arrivals[k].tx, h.tx) {
			return fmt.Sprintf("VIOL:order element %d (%s) is not a recorded arrival", i, kit.Hex(h.tx))
		}
		if k <= last {
			return fmt.Sprintf("VIOL:order element %d (%s) arrived before its predecessor", i, kit.Hex(h.tx))
		}
		last = k
	}
	for i := range hs {
		for j := i + 1; j < len(hs); j++ {
			if bytes.Equal(hs[i].tx, hs[j].tx) {
				return fmt.Sprintf("VIOL:dup-tx tx %s held at positions %d and %d", kit.Hex(hs[i].tx), i, j)
			}
		}
	}
	var sum int64
	for _, h := range hs {
		sum += int64(len(h.tx))
	}
	if int64(len(hs)) > max(w.c.size, 0) {
		return fmt.Sprintf("VIOL:size-over holds %d txs, config.Size=%d", len(hs), w.c.size)
	}
	if sum > max(w.c.maxPending, 0) {
		return fmt.Sprintf("VIOL:bytes-over holds %d bytes, MaxPendingTxsBytes=%d", sum, w.c.maxPending)
	}
	if w.mem.Size() != len(hs) {
		return fmt.Sprintf("VIOL:size-mismatch Size()=%d but %d elements", w.mem.Size(), len(hs))
	}
	if w.mem.TxsBytes() != sum {
		return fmt.Sprintf("VIOL:bytes-mismatch TxsBytes()=%d but elements sum to %d", w.mem.TxsBytes(), sum)
	}
	return "ok"
}

func (w *world) gasOf(h held) int64 { return w.arrivals[w.idx[h.e]].gas }

func isPrefix(r types.Txs, hs []held) bool {
	if len(r) > len(hs) {
		return false
	}
	for i := range r {
		if !bytes.Equal(r[i], hs[i].tx) {
			return false
		}
	}
	return true
}

func (w *world) judgeReapBG(r types.Txs, hs []held, maxBytes, maxGas int64) string {
	if !isPrefix(r, hs) {
		return "VIOL:reap-not-prefix " + txsStr(r)
	}
	var b, g int64
	for i := range r {
		b += int64(len(r[i]))
		g += w.gasOf(hs[i])
	}
	if maxBytes >= 0 && b > maxBytes {
		return fmt.Sprintf("VIOL:reap-bytes-over %d bytes > %d", b, maxBytes)
	}
	if maxGas >= 0 && g > maxGas {
		return fmt.Sprintf("VIOL:reap-gas-over gas %d > %d", g, maxGas)
	}
	if len(r) < len(hs) {
		nx := hs[len(r)]
		fitsB := maxBytes < 0 || b+int64(len(nx.tx)) <= maxBytes
		fitsG := maxGas < 0 || g+w.gasOf(nx) <= maxGas
		if fitsB && fitsG {
			return fmt.Sprintf("VIOL:reap-short stopped after %d txs although %s fits", len(r), kit.Hex(nx.tx))
		}
	}
	return ""
}

func judgeReapN(r types.Txs, hs []held, n int64) string {
	if n >= 0 && int64(len(r)) > n {
		return fmt.Sprintf("VIOL:reap-over ReapMaxTxs(%d) returned %d txs", n, len(r))
	}
	if !isPrefix(r, hs) {
		return "VIOL:reap-not-prefix " + txsStr(r)
	}
	want := int64(len(hs))
	if n >= 0 && n < want {
		want = n
	}
	if int64(len(r)) < want {
		return fmt.Sprintf("VIOL:reap-short ReapMaxTxs(%d) returned %d of %d", n, len(r), len(hs))
	}
	return ""
}

// ---------------------------------------------------------------- exec

func finish(res string, extra string) (string, string) {
	hs := walk(w.mem)
	o := extra
	if o == "" {
		o = w.invariants(hs)
	}
	return res + " | " + dump(hs, w.mem), o
}

func exec(t []string) (string, string) {
	if len(t) == 0 {
		return "err:badop", "-"
	}
	switch t[0] {
	case "cfg":
		if len(t) != 6 {
			break
		}
		a, ok1 := pInt(t[1])
		b, ok2 := pInt(t[2])
		c, ok3 := pInt(t[3])
		d, ok4 := pInt(t[4])
		if !(ok1 && ok2 && ok3 && ok4) || (t[5] != "0" && t[5] != "1") || a > 1<<31 || a < -(1<<31) || c > 1<<31 || c < -(1<<31) {
			break
		}
		if d <= 0 {
			// NewCListMempool panics("maxTxBytes must be positive"); the previous mempool stays in use
			return finish("panic:maxtxbytes", "")
		}
		w = newWorld(conf{size: a, maxPending: b, cacheSize: c, maxTxBytes: d, recheck: t[5] == "1"})
		return finish("ok", "")
	case "check":
		if len(t) != 4 {
			break
		}
		tx, ok1 := pTx(t[1])
		appOK, ok2 := pFlag(t[2])
		gas, ok3 := pInt(t[3])
		if !(ok1 && ok2 && ok3) || gas < 0 || gas >= 1<<60 {
			break
		}
		w.app.newOK, w.app.newGas = appOK, gas
		var resp abci.Response
		err := w.mem.CheckTx(types.Tx(tx), func(r abci.Response) { resp = r })
		res := ""
		switch err.(type) {
		case nil:
			if resp == nil {
				return "panic:nocallback", "-"
			}
			if resp.(abci.ResponseCheckTx).Error == nil {
				// accepted by the app: either a new element was appended, or the tx
				// was already pooled and only its sender was recorded
				res = "present"
				if hs := walk(w.mem); len(hs) > 0 {
					if _, seen := w.idx[hs[len(hs)-1].e]; !seen {
						res = "added"
					}
				}
			} else {
				res = "rejected"
			}
		case mempool.MempoolIsFullError:
			res = "err:full"
		case mempool.TxTooLargeError:
			res = "err:toolarge"
		default:
			if err == mempool.ErrTxInCache {
				res = "err:incache"
			} else {
				res = "err:other"
			}
		}
		if res == "added" {
			// the statement's "arrival": the app accepted the tx; its element is the new back of the list
			hs := walk(w.mem)
			if len(hs) > 0 {
				back := hs[len(hs)-1]
				if _, seen := w.idx[back.e]; !seen && bytes.Equal(back.tx, tx) {
					w.idx[back.e] = len(w.arrivals)
				}
			}
			w.arrivals = append(w.arrivals, arrival{tx: tx, gas: gas})
		}
		return finish(res, "")
	case "update":
		if len(t) != 4 {
			break
		}
		h, ok1 := pInt(t[1])
		if !ok1 {
			break
		}
		var txs types.Txs
		var resps []abci.ResponseDeliverTx
		bad := false
		if t[2] != "-" {
			for _, part := range strings.Split(t[2], ",") {
				kv := strings.Split(part, ":")
				if len(kv) != 2 {
					bad = true
					break
				}
				tx, okA := pTx(kv[0])
				fl, okB := pFlag(kv[1])
				if !okA || !okB {
					bad = true
					break
				}
				txs = append(txs, types.Tx(tx))
				r := abci.ResponseDeliverTx{}
				if !fl {
					r.Error = abci.StringError("scripted deliver error")
				}
				resps = append(resps, r)
			}
		}
		var rc []bool
		if t[3] != "-" {
			for _, c := range t[3] {
				fl, okc := pFlag(string(c))
				if !okc {
					bad = true
					break
				}
				rc = append(rc, fl)
			}
		}
		if bad {
			break
		}
		before := walk(w.mem)
		w.app.recheck, w.app.rcPos = rc, 0
		func() {
			w.mem.Lock()
			defer w.mem.Unlock()
			_ = w.mem.FlushAppConn()
			_ = w.mem.Update(h, txs, resps, nil, 0)
		}()
		after := walk(w.mem)
		verdict := ""
		for _, ctx := range txs {
			for _, a := range after {
				if bytes.Equal(a.tx, ctx) {
					copies := 0
					for _, b := range before {
						if bytes.Equal(b.tx, ctx) {
							copies++
						}
					}
					cls := "committed-remains"
					if copies > 1 || w.wasDup[a.e] {
						cls = "committed-remains-dup"
					}
					verdict = fmt.Sprintf("VIOL:%s committed tx %s still held (%d copies before the update, element was duplicated earlier: %v)", cls, kit.Hex(ctx), copies, w.wasDup[a.e])
					break
				}
			}
			if verdict != "" {
				break
			}
		}
		return finish("ok", verdict)
	case "reapbg":
		if len(t) != 3 {
			break
		}
		mb, ok1 := pInt(t[1])
		mg, ok2 := pInt(t[2])
		if !ok1 || !ok2 {
			break
		}
		hs := walk(w.mem)
		var r types.Txs
		panicked := false
		func() {
			defer func() {
				if v := recover(); v != nil {
					panicked = true
				}
			}()
			r = w.mem.ReapMaxBytesMaxGas(mb, mg)
		}()
		if panicked {
			// documented precondition (maxDataBytes != 0); nothing was reaped
			return finish("panic:maxbytes0", "")
		}
		return finish("reap="+txsStr(r), w.judgeReapBG(r, hs, mb, mg))
	case "reapn":
		if len(t) != 2 {
			break
		}
		n, ok1 := pInt(t[1])
		if !ok1 || n > 1<<31 || n < -(1<<31) {
			break
		}
		hs := walk(w.mem)
		r := w.mem.ReapMaxTxs(int(n))
		return finish("reap="+txsStr(r), judgeReapN(r, hs, n))
	case "flush":
		if len(t) != 1 {
			break
		}
		w.mem.Flush()
		return finish("ok", "")
	case "stress":
		if len(t) != 3 {
			break
		}
		seed, ok1 := pInt(t[1])
		rounds, ok2 := pInt(t[2])
		if !ok1 || !ok2 || seed < 0 || rounds < 0 || rounds > 100000 {
			break
		}
		return "stress", stress(uint64(seed), int(rounds))
	}
	return "err:badop", "-"
}

// ---------------------------------------------------------------- concurrent stress (search support; oracle invariants only)

// Real goroutines: 3 submitters, 1 reaper and 1 block-committer run against one
// mempool whose cache is large enough never to evict (so the statement's
// clauses are all expected to hold).  Nothing here is compared with the model.
func stress(seed uint64, rounds int) string {
	c := conf{size: 6, maxPending: 40, cacheSize: 4096, maxTxBytes: 8, recheck: true}
	var height int64
	app := &scriptApp{stress: true, height: &height}
	mem := newMempool(c, app)
	var violMu sync.Mutex
	viol := ""
	report := func(s string) {
		violMu.Lock()
		if viol == "" {
			viol = s
		}
		violMu.Unlock()
	}
	universe := make([][]byte, 48)
	for i := range universe {
		universe[i] = append([]byte{byte(i + 1), byte(i * 7)}, bytes.Repeat([]byte{0xee}, i%5)...)
	}
	// pool invariants, evaluated while holding the mempool lock
	checkPool := func(where string, committed types.Txs) {
		hs := walk(mem)
		var sum int64
		for i := range hs {
			sum += int64(len(hs[i].tx))
			for j := i + 1; j < len(hs); j++ {
				if bytes.Equal(hs[i].tx, hs[j].tx) {
					report(fmt.Sprintf("VIOL:dup-tx (%s) tx %s held twice", where, kit.Hex(hs[i].tx)))
				}
			}
			for _, ctx := range committed {
				if bytes.Equal(ctx, hs[i].tx) {
					report(fmt.Sprintf("VIOL:committed-remains (%s) %s", where, kit.Hex(ctx)))
				}
			}
		}
		if int64(len(hs)) > c.size {
			report(fmt.Sprintf("VIOL:size-over (%s) %d > %d", where, len(hs), c.size))
		}
		if sum > c.maxPending {
			report(fmt.Sprintf("VIOL:bytes-over (%s) %d > %d", where, sum, c.maxPending))
		}
		if mem.TxsBytes() != sum || mem.Size() != len(hs) {
			report(fmt.Sprintf("VIOL:bytes-mismatch (%s) TxsBytes=%d sum=%d Size=%d len=%d", where, mem.TxsBytes(), sum, mem.Size(), len(hs)))
		}
	}
	var wg sync.WaitGroup
	for g := 0; g < 3; g++ {
		wg.Add(1)
		go func(g int) {
			defer wg.Done()
			r := kit.NewRand(seed*31 + uint64(g))
			for i := 0; i < rounds*4; i++ {
				_ = mem.CheckTx(types.Tx(kit.Pick(r, universe)), nil)
			}
		}(g)
	}
	wg.Add(1)
	go func() { // reaper
		defer wg.Done()
		r := kit.NewRand(seed*31 + 7)
		for i := 0; i < rounds*2; i++ {
			var got types.Txs
			n := int64(r.Range(-1, 7))
			if r.Bool() {
				got = mem.ReapMaxTxs(int(n))
				if n >= 0 && int64(len(got)) > n {
					report(fmt.Sprintf("VIOL:reap-over ReapMaxTxs(%d) returned %d", n, len(got)))
				}
			} else {
				mb := int64(r.Range(1, 30))
				got = mem.ReapMaxBytesMaxGas(mb, -1)
				var b int64
				for _, t := range got {
					b += int64(len(t))
				}
				if b > mb {
					report(fmt.Sprintf("VIOL:reap-bytes-over %d > %d", b, mb))
				}
			}
			for a := range got {
				for b := a + 1; b < len(got); b++ {
					if bytes.Equal(got[a], got[b]) {
						report("VIOL:dup-tx (reap) " + kit.Hex(got[a]))
					}
				}
			}
			if int64(len(got)) > c.size {
				report(fmt.Sprintf("VIOL:size-over (reap) %d", len(got)))
			}
		}
	}()
	wg.Add(1)
	go func() { // block committer, as consensus does it
		defer wg.Done()
		r := kit.NewRand(seed*31 + 11)
		for i := 0; i < rounds; i++ {
			block := mem.ReapMaxTxs(r.Range(0, 4))
			if r.Chance(20) {
				block = append(block, types.Tx(kit.Pick(r, universe))) // a tx we may not hold
			}
			resps := make([]abci.ResponseDeliverTx, len(block))
			for k := range resps {
				if r.Chance(15) {
					resps[k].Error = abci.StringError("deliver error")
				}
			}
			func() {
				mem.Lock()
				defer mem.Unlock()
				_ = mem.FlushAppConn()
				h := atomic.AddInt64(&height, 1)
				_ = mem.Update(h, block, resps, nil, 0)
				checkPool("after-update", block)
			}()
		}
	}()
	wg.Wait()
	mem.Lock()
	checkPool("final", nil)
	mem.Unlock()
	if viol != "" {
		return viol
	}
	return "ok"
}

// ---------------------------------------------------------------- generator

type gen struct {
	o *kit.Out
	r *kit.Rand
}

func hx(b []byte) string { return kit.Hex(b) }

// universe: distinct txs, sizes 1..6 (first byte distinct)
func universe(r *kit.Rand, n int) [][]byte {
	u := make([][]byte, n)
	for i := range u {
		sz := 1 + (i % 6)
		if r.Chance(30) {
			sz = r.Range(1, 6)
		}
		b := make([]byte, sz)
		b[0] = byte(0xa0 + i)
		for k := 1; k < sz; k++ {
			b[k] = byte(r.Intn(256))
		}
		u[i] = b
	}
	return u
}

func boundary(o *kit.Out) {
	A, B, C, D, E, F := "a1", "b2b2", "c3c3c3", "d4d4d4d4", "e5", "f6f6f6f6f6f6"
	// --- count limit, byte limit at equality and +1, tx size at equality and +1, cache duplicate, rejected then good
	o.Case("b/limits")
	o.Op("cfg 3 9 8 4 1")
	o.Op("check %s o 1", A)      // 1 byte
	o.Op("check %s o 2", A)      // incache
	o.Op("check %s o 0", "d4d4d4d4d4") // 5 > maxTxBytes 4
	o.Op("check %s o 3", D)      // 4 bytes -> 5 total
	o.Op("check %s x 3", C)      // rejected, removed from the cache
	o.Op("check %s o 3", C)      // now good: 8 total
	o.Op("check %s o 3", E)      // full by count (3 >= 3)
	o.Case("b/bytes-eq")
	o.Op("cfg 5 6 8 6 1")
	o.Op("check %s o 1", C) // 3
	o.Op("check %s o 1", D) // 3+4 > 6 full
	o.Op("check %s o 1", "c4c4c4") // 3+3 = 6 ok (equality)
	o.Op("check e o 1")            // empty tx: 0 bytes, fits
	o.Op("check %s o 1", A)        // 6+1 > 6 full
	o.Op("check %s o 1", F)        // full check precedes too-large check
	o.Case("b/size0")
	o.Op("cfg 0 100 4 4 1")
	o.Op("check %s o 1", A)
	o.Op("cfg -1 100 4 4 1")
	o.Op("check %s o 1", A)
	o.Op("cfg 3 -1 4 4 1")
	o.Op("check e o 1")
	o.Op("cfg 3 0 4 4 1")
	o.Op("check e o 1")
	o.Op("check %s o 1", A)
	o.Op("cfg 3 10 4 0 1")
	o.Op("cfg 3 10 4 -5 1")
	o.Op("check %s o 1", A)
	// --- ReapMaxTxs at every n around the length, pool sizes 0..4
	for n := 0; n <= 4; n++ {
		o.Case(fmt.Sprintf("b/reapn/%d", n))
		o.Op("cfg 5 100 16 6 1")
		for i, tx := range []string{A, B, C, D}[:n] {
			o.Op("check %s o %d", tx, i+1)
		}
		for k := -3; k <= n+2; k++ {
			o.Op("reapn %d", k)
		}
		o.Op("reapn 2147483647")
	}
	// --- ReapMaxBytesMaxGas around every cumulative sum
	o.Case("b/reapbg")
	o.Op("cfg 5 100 16 6 1")
	o.Op("check %s o 5", A) // bytes 1  gas 5
	o.Op("check %s o 0", B) // bytes 3  gas 5
	o.Op("check %s o 7", C) // bytes 6  gas 12
	o.Op("check %s o 3", D) // bytes 10 gas 15
	for mb := -3; mb <= 12; mb++ {
		o.Op("reapbg %d -1", mb)
	}
	for mg := -3; mg <= 17; mg++ {
		o.Op("reapbg -1 %d", mg)
	}
	for mb := 1; mb <= 11; mb++ {
		for _, mg := range []int{0, 4, 5, 6, 11, 12, 13, 14, 15, 16} {
			o.Op("reapbg %d %d", mb, mg)
		}
	}
	o.Op("reapbg 4611686018427387904 4611686018427387904")
	o.Op("reapbg -4611686018427387904 -4611686018427387904")
	o.Case("b/reapbg-empty")
	o.Op("cfg 5 100 16 6 1")
	o.Op("reapbg 0 0")
	o.Op("reapbg 1 0")
	o.Op("reapbg -1 -1")
	o.Op("check e o 0")
	o.Op("reapbg 1 0")
	o.Op("reapbg 0 5")
	// --- updates
	o.Case("b/update")
	o.Op("cfg 5 100 16 6 1")
	for i, tx := range []string{A, B, C, D, E} {
		o.Op("check %s o %d", tx, i)
	}
	o.Op("update 1 %s:o -", A)           // first
	o.Op("update 2 %s:o -", C)           // middle
	o.Op("update 3 %s:x -", E)           // last, invalid result: removed from pool and from cache
	o.Op("check %s o 1", E)              // resubmission allowed
	o.Op("check %s o 1", A)              // committed valid: still cached
	o.Op("update 4 %s:o,%s:x -", F, "0707") // not in the pool
	o.Op("check %s o 1", F)              // cached by the update
	o.Op("check 0707 o 1")
	o.Op("update 5 - oxo")               // recheck invalidates the middle
	o.Op("check %s o 9", D)              // invalidated tx may come back
	o.Op("update 6 %s:o,%s:o xxxx", B, B) // same tx twice in a block
	o.Op("update 7 - -")
	o.Op("flush")
	o.Op("check %s o 1", A)
	o.Op("update 9 %s:o,%s:o,%s:o -", A, B, C)
	o.Case("b/update-norecheck")
	o.Op("cfg 5 100 16 6 0")
	o.Op("check %s o 1", A)
	o.Op("check %s o 1", B)
	o.Op("update 1 %s:o xx", A)
	o.Op("update -5 - xx")
	// --- heights
	o.Case("b/heights")
	o.Op("cfg 5 100 16 6 1")
	o.Op("check %s o 1", A)
	o.Op("update 7 - -")
	o.Op("check %s o 1", B)
	o.Op("update 4611686018427387904 - -")
	o.Op("check %s o 1", C)
	// --- cache eviction (LRU order, MoveToBack on hit)
	o.Case("b/lru")
	o.Op("cfg 5 100 2 6 1")
	o.Op("check %s x 1", A) // rejected: not cached
	o.Op("check %s x 1", A)
	o.Op("update 1 %s:o,%s:o -", A, B) // cache [A,B]
	o.Op("check %s o 1", A)            // hit: cache [B,A]
	o.Op("update 2 %s:o -", C)         // evicts B: cache [A,C]
	o.Op("check %s o 1", A)            // still cached
	o.Op("check %s o 1", B)            // evicted: accepted
}

func (g *gen) randomCase(id string, nOpsMax int) {
	r, o := g.r, g.o
	o.Case(id)
	size := r.Range(3, 5)
	maxTx := r.Range(4, 6)
	maxPending := r.Range(6, 20)
	cache := r.Range(2, 4)
	if r.Chance(55) {
		cache = r.Range(12, 20) // no-eviction regime
	}
	if r.Chance(3) {
		cache = 0
	}
	rc := 1
	if r.Chance(15) {
		rc = 0
	}
	o.Op("cfg %d %d %d %d %d", size, maxPending, cache, maxTx, rc)
	u := universe(r, r.Range(6, 10))
	// generator-side approximations (only to bias choices)
	var pool, gone [][]byte
	height := int64(r.Range(0, 3))
	n := r.Range(1, nOpsMax)
	for i := 0; i < n; i++ {
		switch p := r.Intn(100); {
		case p < 50:
			var tx []byte
			switch q := r.Intn(100); {
			case q < 20 && len(pool) > 0:
				tx = kit.Pick(r, pool)
			case q < 40 && len(gone) > 0:
				tx = kit.Pick(r, gone)
			default:
				tx = kit.Pick(r, u)
			}
			fl := "o"
			if r.Chance(15) {
				fl = "x"
				gone = append(gone, tx)
			} else if len(pool) < size {
				pool = append(pool, tx)
			}
			o.Op("check %s %s %d", hx(tx), fl, r.Range(0, 9))
		case p < 70:
			height += int64(r.Range(0, 2))
			var parts []string
			k := 0
			if len(pool) > 0 {
				k = r.Range(0, min(3, len(pool)))
			}
			var rest [][]byte
			for j, tx := range pool {
				take := j < k
				if r.Chance(10) {
					take = !take
				}
				if take {
					fl := "o"
					if r.Chance(20) {
						fl = "x"
					}
					parts = append(parts, hx(tx)+":"+fl)
					gone = append(gone, tx)
				} else {
					rest = append(rest, tx)
				}
			}
			if r.Chance(25) {
				fl := "o"
				if r.Chance(30) {
					fl = "x"
				}
				parts = append(parts, hx(kit.Pick(r, u))+":"+fl)
			}
			pool = rest
			cs := "-"
			if len(parts) > 0 {
				cs = strings.Join(parts, ",")
			}
			rcs := "-"
			if r.Chance(60) {
				var sb strings.Builder
				var keep [][]byte
				for j := 0; j < len(pool)+r.Intn(2); j++ {
					if r.Chance(25) {
						sb.WriteByte('x')
						if j < len(pool) {
							gone = append(gone, pool[j])
						}
					} else {
						sb.WriteByte('o')
						if j < len(pool) {
							keep = append(keep, pool[j])
						}
					}
				}
				if rc == 1 {
					pool = keep
				}
				if sb.Len() > 0 {
					rcs = sb.String()
				}
			}
			o.Op("update %d %s %s", height, cs, rcs)
		case p < 83:
			mb := r.Range(-2, 22)
			if mb == 0 && r.Chance(80) {
				mb = 1
			}
			o.Op("reapbg %d %d", mb, r.Range(-2, 30))
		case p < 96:
			o.Op("reapn %d", r.Range(-2, 7))
		default:
			o.Op("flush")
			pool = nil
		}
	}
}

func malformed(g *gen, n int) {
	r, o := g.r, g.o
	o.Case("malformed")
	toks := []string{"", "x", "o", "-", "e", "a1", "A1", "a", "zz", "1", "-1", "+1", "1_0", "0x10", "9223372036854775807", "4611686018427387905", "-4611686018427387905", "99999999999999999999", "a1:o", "a1:o,", "a1:q", "ox", "oz", " ", "1152921504606846976", "1152921504606846975"}
	ops := []string{"cfg", "check", "update", "reapbg", "reapn", "flush", "stress", "bogus", "Check"}
	for i := 0; i < n; i++ {
		op := kit.Pick(r, ops)
		k := r.Range(0, 6)
		parts := []string{op}
		for j := 0; j < k; j++ {
			parts = append(parts, kit.Pick(r, toks))
		}
		line := strings.Join(parts, " ")
		if strings.HasPrefix(line, "stress") {
			line = "stress x " + line[6:]
		}
		o.Op("%s", line)
		if r.Chance(10) {
			o.Op("check %s o %d", hx([]byte{byte(0xa0 + r.Intn(8))}), r.Intn(5))
		}
	}
}

func generate(o *kit.Out, r *kit.Rand, tier string) {
	g := &gen{o: o, r: r}
	boundary(o)
	cases := 2500
	if tier == "thorough" {
		cases = 14000
	}
	for i := 0; i < cases; i++ {
		g.randomCase(fmt.Sprintf("r/%d", i), 40)
	}
	malformed(g, 600)
	if tier == "thorough" {
		for i := 0; i < 6; i++ {
			o.Case(fmt.Sprintf("stress/%d", i))
			o.Op("stress %d %d", r.Intn(1<<30), 300)
		}
	}
}

func main() {
	kit.Main(&kit.Harness{Gen: generate, Reset: reset, Exec: exec})
}
