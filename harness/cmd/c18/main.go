// Harness for C18: coin-set arithmetic (tm2/pkg/std/coin.go).
//
// Coin sets are written `denom:amt,denom:amt` (`-` = empty); the denom is
// everything before the LAST ':' of an item.
//
//	add|sub|addu|subu A B   -> res=<coins> A=<coins> B=<coins> | panic:<class> A=… B=…
//	cmp <helper> A B        -> true|false|panic:<class> A=… B=…      (operands as left behind)
//	un <helper> A           -> true|false
//	amountof A <denom-hex>  -> <int> | panic:denom
//	str A                   -> <hex of Coins.String()>
//	parse <hex>             -> ok <coins> | err:<class>
//	rt A                    -> ok <coins> | err:<class>              (ParseCoins(A.String()))
//	valid A                 -> true|false
//
// Every operand slice is built with two spare capacity slots holding sentinel
// coins; the whole backing array (`s[:cap(s)]`) is deep-copied before the call
// and compared after it (the "never modify their operands" clause).
//
// Oracle (independent of the model): per-denomination arithmetic in
// map[string]*big.Int evaluating the property statement; verdict `-` where the
// statement's precondition (operands strictly sorted by denom; for the
// comparison helpers: valid sets) does not hold.  The operand-mutation verdict
// is given for every input.
package main

import (
	"bytes"
	"fmt"
	"math"
	"math/big"
	"regexp"
	"sort"
	"strconv"
	"strings"

	"github.com/gnolang/gno/tm2/pkg/std"
	"gnoverif/kit"
)

// ------------------------------------------------------------------ tokens

var sentinel = std.Coin{Denom: "~sentinel~", Amount: 7777}

const spare = 2

// operand is a coin slice with `spare` sentinel-filled capacity slots behind it.
type operand struct {
	s    std.Coins // len n, cap n+spare
	snap []std.Coin
}

func parseItems(tok string) ([]std.Coin, bool) {
	if tok == "-" {
		return nil, true
	}
	var out []std.Coin
	for _, it := range strings.Split(tok, ",") {
		i := strings.LastIndexByte(it, ':')
		if i < 0 {
			return nil, false
		}
		v, err := strconv.ParseInt(it[i+1:], 10, 64)
		if err != nil {
			return nil, false
		}
		out = append(out, std.Coin{Denom: it[:i], Amount: v})
	}
	return out, true
}

func mkOperand(items []std.Coin) *operand {
	n := len(items)
	back := make([]std.Coin, n+spare)
	copy(back, items)
	for i := n; i < n+spare; i++ {
		back[i] = sentinel
	}
	o := &operand{s: std.Coins(back[:n:n+spare])}
	o.snap = append([]std.Coin(nil), back...)
	return o
}

// changed reports whether the backing array (including spare capacity) differs from the snapshot.
func (o *operand) changed() bool {
	full := o.s[:cap(o.s)]
	if len(full) != len(o.snap) {
		return true
	}
	for i := range full {
		if full[i] != o.snap[i] {
			return true
		}
	}
	return false
}

func showSet(cs []std.Coin) string {
	if len(cs) == 0 {
		return "-"
	}
	var b strings.Builder
	for i, c := range cs {
		if i > 0 {
			b.WriteByte(',')
		}
		b.WriteString(c.Denom)
		b.WriteByte(':')
		b.WriteString(strconv.FormatInt(c.Amount, 10))
	}
	return b.String()
}

// ------------------------------------------------------------------ running the real code

func panicClass(v any) string {
	var s string
	switch x := v.(type) {
	case string:
		s = x
	case error:
		s = x.Error()
	default:
		s = fmt.Sprint(v)
	}
	switch {
	case strings.HasPrefix(s, "coin add overflow/underflow"), strings.HasPrefix(s, "coin subtract overflow/underflow"):
		return "overflow"
	case strings.HasPrefix(s, "invalid result"):
		return "invalid"
	case strings.HasPrefix(s, "invalid coin denominations"):
		return "denoms"
	case strings.HasPrefix(s, "invalid denom"), strings.HasPrefix(s, "denom length"):
		return "denom"
	}
	if len(s) > 60 {
		s = s[:60]
	}
	return "other(" + strings.ReplaceAll(s, " ", "_") + ")"
}

// call runs f and returns the panic class ("" if it returned).
func call(f func()) (pc string) {
	defer func() {
		if v := recover(); v != nil {
			pc = panicClass(v)
		}
	}()
	f()
	return ""
}

func errClass(err error) string {
	s := err.Error()
	switch {
	case strings.HasPrefix(s, "invalid coin expression"):
		return "expr"
	case strings.Contains(s, "failed to parse coin amount"), strings.HasPrefix(s, "strconv.ParseInt"):
		return "amount"
	case strings.HasPrefix(s, "invalid denom cannot contain"):
		return "denom"
	case strings.HasPrefix(s, "parseCoins: invalid coins"):
		return "invalid"
	}
	if len(s) > 60 {
		s = s[:60]
	}
	return "other(" + strings.ReplaceAll(s, " ", "_") + ")"
}

// ------------------------------------------------------------------ the independent oracle

var (
	minI64 = big.NewInt(math.MinInt64)
	maxI64 = big.NewInt(math.MaxInt64)
	// the denomination grammar of a valid coin set, restated: a lower-case letter or '/',
	// then at least two of [a-z0-9_.:/-]; at most 274 bytes.
	reOracleDenom = regexp.MustCompile(`\A[a-z/][a-z0-9_.:/\-]{2,}\z`)
)

const oracleMaxDenom = 274

func oDenomOK(d string) bool { return len(d) <= oracleMaxDenom && reOracleDenom.MatchString(d) }

// strictly increasing by denom, bytewise
func oSorted(cs []std.Coin) bool {
	for i := 1; i < len(cs); i++ {
		if bytes.Compare([]byte(cs[i-1].Denom), []byte(cs[i].Denom)) >= 0 {
			return false
		}
	}
	return true
}

// valid coin set: strictly sorted, every amount positive, every denom well-formed
func oValid(cs []std.Coin) bool {
	if !oSorted(cs) {
		return false
	}
	for _, c := range cs {
		if c.Amount <= 0 || !oDenomOK(c.Denom) {
			return false
		}
	}
	return true
}

type amap map[string]*big.Int

func oMap(cs []std.Coin) amap {
	m := amap{}
	for _, c := range cs {
		if m[c.Denom] == nil {
			m[c.Denom] = new(big.Int)
		}
		m[c.Denom].Add(m[c.Denom], big.NewInt(c.Amount))
	}
	return m
}

func (m amap) at(d string) *big.Int {
	if v := m[d]; v != nil {
		return v
	}
	return new(big.Int)
}

type bcoin struct {
	d string
	v *big.Int
}

// oCombine: the sorted zero-free per-denomination sum (sign=+1) or difference (sign=-1).
func oCombine(a, b amap, sign int) (res []bcoin, overflow bool) {
	keys := map[string]bool{}
	for k := range a {
		keys[k] = true
	}
	for k := range b {
		keys[k] = true
	}
	var ks []string
	for k := range keys {
		ks = append(ks, k)
	}
	sort.Strings(ks)
	for _, k := range ks {
		v := new(big.Int).Set(a.at(k))
		if sign > 0 {
			v.Add(v, b.at(k))
		} else {
			v.Sub(v, b.at(k))
		}
		if v.Cmp(minI64) < 0 || v.Cmp(maxI64) > 0 {
			overflow = true
		}
		if v.Sign() != 0 {
			res = append(res, bcoin{k, v})
		}
	}
	return
}

func hasMin(cs []std.Coin) bool {
	for _, c := range cs {
		if c.Amount == math.MinInt64 {
			return true
		}
	}
	return false
}

// verdictArith evaluates the statement for one arithmetic op given the exact per-denomination
// result `want` / `overflow`: "" = holds, else (class, detail).
func verdictArith(op string, want []bcoin, overflow bool, res std.Coins, pc string) (string, string) {
	wantPanic := overflow
	safe := op == "add" || op == "sub"
	if safe {
		for _, c := range want {
			if c.v.Sign() < 0 || !oDenomOK(c.d) {
				wantPanic = true
			}
		}
	}
	switch {
	case pc != "" && !wantPanic:
		return "spurious-panic", fmt.Sprintf("%s panicked (%s) but the result %s is representable%s", op, pc, showB(want),
			map[bool]string{true: " and valid", false: ""}[safe])
	case pc == "" && wantPanic:
		return "missed-panic", fmt.Sprintf("%s returned %s but a per-denomination result overflows int64 or the result is invalid (exact: %s)", op, showSet(res), showB(want))
	case pc != "":
		return "", ""
	}
	bad := len(res) != len(want)
	for i := 0; !bad && i < len(res); i++ {
		bad = res[i].Denom != want[i].d || big.NewInt(res[i].Amount).Cmp(want[i].v) != 0
	}
	if bad {
		return "wrong-result", fmt.Sprintf("%s returned %s, want %s", op, showSet(res), showB(want))
	}
	return "", ""
}

func oracleArith(op string, a, b []std.Coin, res std.Coins, pc string, mutated bool) string {
	if mutated {
		return "VIOL:operand-mutated " + op + ": an operand's backing array changed"
	}
	if !oSorted(a) || !oSorted(b) {
		return "-"
	}
	sign := 1
	if op == "sub" || op == "subu" {
		sign = -1
	}
	want, overflow := oCombine(oMap(a), oMap(b), sign)
	cls, detail := verdictArith(op, want, overflow, res, pc)
	if cls == "" {
		return "ok"
	}
	// Classification only (the verdict above is already VIOL): the one recorded defect of Sub is
	// that the subtrahend's MinInt64 is not negated (-1*MinInt64 wraps to MinInt64).  A violation
	// is labelled `minint64-negate` only if the subtrahend holds MinInt64 AND the behaviour is
	// exactly what "A + B with MinInt64 left as it is, every other amount negated" gives;
	// every other Sub defect keeps its generic class and fails the run.
	if sign < 0 && hasMin(b) {
		nb := amap{}
		for d, v := range oMap(b) {
			if v.Cmp(minI64) == 0 {
				nb[d] = new(big.Int).Set(v)
			} else {
				nb[d] = new(big.Int).Neg(v)
			}
		}
		w2, o2 := oCombine(oMap(a), nb, 1)
		if c2, _ := verdictArith(op, w2, o2, res, pc); c2 == "" {
			cls = "minint64-negate"
		}
	}
	return "VIOL:" + cls + " " + detail
}

func showB(cs []bcoin) string {
	if len(cs) == 0 {
		return "-"
	}
	var p []string
	for _, c := range cs {
		p = append(p, c.d+":"+c.v.String())
	}
	return strings.Join(p, ",")
}

func oCmp(h string, a, b []std.Coin) (want bool, known bool) {
	A, B := oMap(a), oMap(b)
	allGT := func(x amap, nx int, y amap) bool {
		if nx == 0 {
			return false
		}
		for d, v := range y {
			if x.at(d).Cmp(v) <= 0 {
				return false
			}
		}
		return true
	}
	allGTE := func(x, y amap) bool {
		for d, v := range y {
			if x.at(d).Cmp(v) < 0 {
				return false
			}
		}
		return true
	}
	anyCmp := func(strict bool) bool {
		for d, v := range A {
			w, ok := B[d]
			if !ok {
				continue
			}
			c := v.Cmp(w)
			if c > 0 || (!strict && c == 0) {
				return true
			}
		}
		return false
	}
	switch h {
	case "IsAllGT":
		return allGT(A, len(a), B), true
	case "IsAllGTE":
		return allGTE(A, B), true
	case "IsAllLT":
		return allGT(B, len(b), A), true
	case "IsAllLTE":
		return allGTE(B, A), true
	case "IsAnyGT":
		return anyCmp(true), true
	case "IsAnyGTE":
		return anyCmp(false), true
	case "IsEqual":
		if len(A) != len(B) {
			return false, true
		}
		for d, v := range A {
			if w, ok := B[d]; !ok || v.Cmp(w) != 0 {
				return false, true
			}
		}
		return true, true
	case "DenomsSubsetOf":
		for d := range A {
			if _, ok := B[d]; !ok {
				return false, true
			}
		}
		return true, true
	}
	return false, false
}

// ------------------------------------------------------------------ exec

// squash keeps a canonical output line under the kit's 300-byte cut: a long
// line becomes its first 230 bytes plus the FNV-1a/64 hash of the whole line
// (the Lean driver does the same, so nothing is lost for the comparison).
func squash(s string) string {
	if len(s) <= 280 {
		return s
	}
	h := uint64(14695981039346656037)
	for i := 0; i < len(s); i++ {
		h ^= uint64(s[i])
		h *= 1099511628211
	}
	return fmt.Sprintf("%s...#%016x", s[:230], h)
}

func exec(t []string) (string, string) {
	impl, orc := exec1(t)
	return squash(impl), orc
}

func exec1(t []string) (string, string) {
	if len(t) == 0 {
		return "err:badop", "-"
	}
	switch {
	case len(t) == 3 && (t[0] == "add" || t[0] == "sub" || t[0] == "addu" || t[0] == "subu"):
		ia, ok1 := parseItems(t[1])
		ib, ok2 := parseItems(t[2])
		if !ok1 || !ok2 {
			return "err:badop", "-"
		}
		A, B := mkOperand(ia), mkOperand(ib)
		var res std.Coins
		pc := call(func() {
			switch t[0] {
			case "add":
				res = A.s.Add(B.s)
			case "sub":
				res = A.s.Sub(B.s)
			case "addu":
				res = A.s.AddUnsafe(B.s)
			case "subu":
				res = A.s.SubUnsafe(B.s)
			}
		})
		mutated := A.changed() || B.changed()
		out := "res=" + showSet(res)
		if pc != "" {
			out = "panic:" + pc
		}
		out += " A=" + showSet(A.s) + " B=" + showSet(B.s)
		return out, oracleArith(t[0], ia, ib, res, pc, mutated)

	case len(t) == 4 && t[0] == "cmp":
		ia, ok1 := parseItems(t[2])
		ib, ok2 := parseItems(t[3])
		if !ok1 || !ok2 {
			return "err:badop", "-"
		}
		A, B := mkOperand(ia), mkOperand(ib)
		var r bool
		known := true
		pc := call(func() {
			switch t[1] {
			case "IsAllGT":
				r = A.s.IsAllGT(B.s)
			case "IsAllGTE":
				r = A.s.IsAllGTE(B.s)
			case "IsAllLT":
				r = A.s.IsAllLT(B.s)
			case "IsAllLTE":
				r = A.s.IsAllLTE(B.s)
			case "IsAnyGT":
				r = A.s.IsAnyGT(B.s)
			case "IsAnyGTE":
				r = A.s.IsAnyGTE(B.s)
			case "IsEqual":
				r = A.s.IsEqual(B.s)
			case "DenomsSubsetOf":
				r = A.s.DenomsSubsetOf(B.s)
			default:
				known = false
			}
		})
		if !known {
			return "err:badop", "-"
		}
		out := strconv.FormatBool(r)
		if pc != "" {
			out = "panic:" + pc
		}
		out += " A=" + showSet(A.s) + " B=" + showSet(B.s)
		orc := "-"
		if oValid(ia) && oValid(ib) {
			want, _ := oCmp(t[1], ia, ib)
			switch {
			case pc == "denoms" && t[1] == "IsEqual" && len(ia) == len(ib) && !want:
				// the one recorded defect: equal length, different denominations, Coin.IsEqual's denom panic
				orc = fmt.Sprintf("VIOL:isequal-panic IsEqual panicked (%s) on two valid sets; per-denomination comparison says %v", pc, want)
			case pc != "":
				orc = fmt.Sprintf("VIOL:cmp-panic %s panicked (%s) on two valid sets", t[1], pc)
			case r != want:
				orc = fmt.Sprintf("VIOL:cmp-mismatch %s = %v, per-denomination comparison says %v", t[1], r, want)
			case A.changed() || B.changed():
				orc = "VIOL:operand-mutated " + t[1] + " changed a valid operand"
			default:
				orc = "ok"
			}
		}
		return out, orc

	case len(t) == 3 && t[0] == "un":
		ia, ok1 := parseItems(t[2])
		if !ok1 {
			return "err:badop", "-"
		}
		A := mkOperand(ia)
		var r, want bool
		switch t[1] {
		case "IsZero":
			r = A.s.IsZero()
			want = true
			for _, c := range ia {
				want = want && c.Amount == 0
			}
		case "IsAllPositive":
			r = A.s.IsAllPositive()
			want = len(ia) > 0
			for _, c := range ia {
				want = want && c.Amount > 0
			}
		case "IsAnyNegative":
			r = A.s.IsAnyNegative()
			for _, c := range ia {
				want = want || c.Amount < 0
			}
		case "Empty":
			r = A.s.Empty()
			want = len(ia) == 0
		default:
			return "err:badop", "-"
		}
		orc := "ok"
		if r != want {
			orc = fmt.Sprintf("VIOL:un-mismatch %s = %v want %v", t[1], r, want)
		}
		return strconv.FormatBool(r), orc

	case len(t) == 3 && t[0] == "amountof":
		ia, ok1 := parseItems(t[1])
		d, err := kit.UnHex(t[2])
		if !ok1 || err != nil {
			return "err:badop", "-"
		}
		A := mkOperand(ia)
		var r int64
		pc := call(func() { r = A.s.AmountOf(string(d)) })
		if pc != "" {
			orc := "-"
			if oDenomOK(string(d)) && oSorted(ia) {
				orc = "VIOL:amountof-panic AmountOf panicked (" + pc + ") on a sorted set and a well-formed denom"
			}
			return "panic:" + pc, orc
		}
		orc := "-"
		if oSorted(ia) && oDenomOK(string(d)) {
			if oMap(ia).at(string(d)).Cmp(big.NewInt(r)) == 0 {
				orc = "ok"
			} else {
				orc = fmt.Sprintf("VIOL:amountof-mismatch got %d want %s", r, oMap(ia).at(string(d)))
			}
		}
		return strconv.FormatInt(r, 10), orc

	case len(t) == 2 && t[0] == "str":
		ia, ok1 := parseItems(t[1])
		if !ok1 {
			return "err:badop", "-"
		}
		return kit.Hex([]byte(mkOperand(ia).s.String())), "-"

	case len(t) == 2 && t[0] == "valid":
		ia, ok1 := parseItems(t[1])
		if !ok1 {
			return "err:badop", "-"
		}
		r := mkOperand(ia).s.IsValid()
		orc := "ok"
		if r != oValid(ia) {
			orc = fmt.Sprintf("VIOL:valid-mismatch IsValid = %v but sorted/positive/well-formed = %v", r, oValid(ia))
		}
		return strconv.FormatBool(r), orc

	case len(t) == 2 && t[0] == "rt":
		ia, ok1 := parseItems(t[1])
		if !ok1 {
			return "err:badop", "-"
		}
		A := mkOperand(ia)
		var cs std.Coins
		var err error
		pc := call(func() { cs, err = std.ParseCoins(A.s.String()) })
		out := ""
		switch {
		case pc != "":
			out = "panic:" + pc
		case err != nil:
			out = "err:" + errClass(err)
		default:
			out = "ok " + showSet(cs)
		}
		orc := "-"
		if oValid(ia) {
			if out == "ok "+showSet(ia) {
				orc = "ok"
			} else {
				orc = "VIOL:roundtrip ParseCoins(String()) of a valid set gave " + out
			}
		}
		return out, orc

	case len(t) == 2 && t[0] == "parse":
		b, err := kit.UnHex(t[1])
		if err != nil {
			return "err:badop", "-"
		}
		var cs std.Coins
		var perr error
		pc := call(func() { cs, perr = std.ParseCoins(string(b)) })
		switch {
		case pc != "":
			return "panic:" + pc, "-"
		case perr != nil:
			return "err:" + errClass(perr), "-"
		}
		return "ok " + showSet(cs), "-"
	}
	return "err:badop", "-"
}

// ------------------------------------------------------------------ generators

var alphabet = []string{"aaa", "bbb", "ccc", "ddd"}

// denoms the grammar rejects (none contains ',' or a space, which the token syntax cannot carry)
var badDenoms = []string{"AAA", "ab", "", "9ab", "aBc", "a~b", strings.Repeat("a", 275)}

// unusual but valid denoms
var oddDenoms = []string{"/gno.land/r/x:tok", "a-b", "a_.:", "ugnot", strings.Repeat("z", 274)}

var table = []int64{0, 1, -1, 5, -5, math.MaxInt64, math.MaxInt64 - 1, math.MinInt64, math.MinInt64 + 1}
var posTable = []int64{1, 2, 5, 100, math.MaxInt64, math.MaxInt64 - 1, math.MaxInt64 / 2, math.MaxInt64/2 + 1}

func fmtSet(cs []std.Coin) string { return showSet(cs) }

func randAmt(r *kit.Rand) int64 {
	switch r.Intn(10) {
	case 0, 1, 2, 3:
		return kit.Pick(r, table)
	case 4, 5:
		return int64(r.Intn(201) - 100)
	case 6:
		return math.MaxInt64 - int64(r.Intn(8))
	case 7:
		return math.MinInt64 + int64(r.Intn(8))
	default:
		return r.I64()
	}
}

func randPos(r *kit.Rand) int64 {
	switch r.Intn(6) {
	case 0:
		return kit.Pick(r, posTable)
	case 1:
		v := r.I64()
		if v < 0 {
			v = -(v + 1)
		}
		return v/2 + 1
	default:
		return int64(r.Intn(1000) + 1)
	}
}

// sortedSet: a strictly sorted set over the alphabet (sometimes with an odd denom), amounts from amt.
func sortedSet(r *kit.Rand, amt func(*kit.Rand) int64, maxLen int) []std.Coin {
	pool := append([]string{}, alphabet...)
	if r.Chance(15) {
		pool = append(pool, kit.Pick(r, oddDenoms[:4]))
	}
	var ds []string
	for _, d := range pool {
		if r.Chance(55) {
			ds = append(ds, d)
		}
	}
	sort.Strings(ds)
	if len(ds) > maxLen {
		ds = ds[:maxLen]
	}
	var out []std.Coin
	for _, d := range ds {
		out = append(out, std.Coin{Denom: d, Amount: amt(r)})
	}
	return out
}

func shuffle(r *kit.Rand, cs []std.Coin) []std.Coin {
	out := append([]std.Coin(nil), cs...)
	for i := len(out) - 1; i > 0; i-- {
		j := r.Intn(i + 1)
		out[i], out[j] = out[j], out[i]
	}
	return out
}

// malformedSet: unsorted, duplicate denoms, ill-formed denoms
func malformedSet(r *kit.Rand) []std.Coin {
	cs := sortedSet(r, randAmt, 4)
	switch r.Intn(4) {
	case 0:
		cs = shuffle(r, cs)
	case 1:
		if len(cs) > 0 {
			c := kit.Pick(r, cs)
			cs = append(cs, std.Coin{Denom: c.Denom, Amount: randAmt(r)})
			if r.Bool() {
				cs = shuffle(r, cs)
			} else {
				sort.SliceStable(cs, func(i, j int) bool { return cs[i].Denom < cs[j].Denom })
			}
		}
	case 2:
		bd := badDenoms
		if !r.Chance(5) {
			bd = bd[:len(bd)-1] // the 275-byte one only rarely
		}
		cs = append(cs, std.Coin{Denom: kit.Pick(r, bd), Amount: randAmt(r)})
		if r.Bool() {
			sort.SliceStable(cs, func(i, j int) bool { return cs[i].Denom < cs[j].Denom })
		}
	default:
		cs = shuffle(r, append(cs, sortedSet(r, randAmt, 3)...))
	}
	return cs
}

var arithOps = []string{"add", "sub", "addu", "subu"}
var cmpOps = []string{"IsAllGT", "IsAllGTE", "IsAllLT", "IsAllLTE", "IsAnyGT", "IsAnyGTE", "IsEqual", "DenomsSubsetOf"}
var unOps = []string{"IsZero", "IsAllPositive", "IsAnyNegative", "Empty"}

// all sets over the first k alphabet denoms with amounts from tab (absent allowed)
func allSets(k int, tab []int64) [][]std.Coin {
	out := [][]std.Coin{nil}
	for i := 0; i < k; i++ {
		var next [][]std.Coin
		for _, s := range out {
			next = append(next, s)
			for _, a := range tab {
				next = append(next, append(append([]std.Coin(nil), s...), std.Coin{Denom: alphabet[i], Amount: a}))
			}
		}
		out = next
	}
	return out
}

func hexS(s string) string { return kit.Hex([]byte(s)) }

var spaces = []string{" ", "\t", "\n", "\v", "\f", "\r", "\u0085", "\u00a0", "\u1680", "\u2000", "\u2005", "\u200a", "\u2028", "\u2029", "\u202f", "\u205f", "\u3000"}

// not spaces, but close: U+200B, U+180E, U+FEFF, broken encodings of the spaces
var nonSpaces = []string{"\u200b", "\u180e", "\ufeff", "\xc2", "\xe2\x80", "\x85", "\xa0", "\xc0\xa0", "\xe2\x80\x8b", "\x80\x80", "\xe3\x80", "\xff", "\x00", "\x1c", "\x1f", "\xe2\x80\x80\x80", "\xe1\xc2\xa0"}

func validCoinStr(r *kit.Rand, c std.Coin) string {
	s := strconv.FormatInt(c.Amount, 10)
	if r.Chance(15) {
		s = strings.Repeat("0", r.Intn(4)+1) + s
	}
	if r.Chance(20) {
		for i := r.Intn(3) + 1; i > 0; i-- {
			s += kit.Pick(r, spaces[:6]) // between amount and denom only the ASCII class is allowed
		}
	}
	s += c.Denom
	if r.Chance(20) {
		s = kit.Pick(r, spaces) + s
	}
	if r.Chance(20) {
		s += kit.Pick(r, spaces)
	}
	return s
}

func mutate(r *kit.Rand, s string) string {
	b := []byte(s)
	switch r.Intn(9) {
	case 0: // flip a byte
		if len(b) > 0 {
			b[r.Intn(len(b))] = byte(r.U64())
		}
	case 1: // delete a byte
		if len(b) > 0 {
			i := r.Intn(len(b))
			b = append(b[:i], b[i+1:]...)
		}
	case 2: // insert an interesting byte
		i := r.Intn(len(b) + 1)
		ins := kit.Pick(r, []string{",", " ", "-", "A", "0", ":", "/", "\n", "\xc2\xa0", "_", ".", "9"})
		b = append(b[:i], append([]byte(ins), b[i:]...)...)
	case 3: // a non-space look-alike at an end or in the middle
		ns := kit.Pick(r, nonSpaces)
		switch r.Intn(3) {
		case 0:
			b = append([]byte(ns), b...)
		case 1:
			b = append(b, ns...)
		default:
			i := r.Intn(len(b) + 1)
			b = append(b[:i], append([]byte(ns), b[i:]...)...)
		}
	case 4: // a Unicode space between amount and denom (not allowed there)
		for i := range b {
			if b[i] >= 'a' && b[i] <= 'z' {
				b = append(b[:i], append([]byte(kit.Pick(r, spaces[6:])), b[i:]...)...)
				break
			}
		}
	case 5: // upper-case one letter
		for i := range b {
			if b[i] >= 'a' && b[i] <= 'z' && r.Chance(40) {
				b[i] -= 32
				break
			}
		}
	case 6: // trailing / leading / doubled comma
		switch r.Intn(3) {
		case 0:
			b = append(b, ',')
		case 1:
			b = append([]byte{','}, b...)
		default:
			b = bytes.Replace(b, []byte(","), []byte(",,"), 1)
		}
	case 7: // amount out of int64
		b = append([]byte(kit.Pick(r, []string{"9223372036854775808", "9223372036854775807", "18446744073709551616", "99999999999999999999999", "-5", "+5", "0", "00"})), bytes.TrimLeft(b, "0123456789")...)
	default: // spaces everywhere
		b = append([]byte(kit.Pick(r, spaces)+kit.Pick(r, spaces)), append(b, kit.Pick(r, spaces)...)...)
	}
	return string(b)
}

// sink starts a fresh `#case` every 400 ops (the ops are independent; small cases keep
// shrinking and known-finding matching cheap).
type sink struct {
	out  *kit.Out
	name string
	n    int
}

func (s *sink) Case(name string) { s.name, s.n = name, 0 }
func (s *sink) Op(format string, a ...any) {
	if s.n%400 == 0 {
		s.out.Case(fmt.Sprintf("%s-%d", s.name, s.n/400))
	}
	s.n++
	s.out.Op(format, a...)
}

func gen(out *kit.Out, r *kit.Rand, tier string) {
	// kit.NewRand(seed) and U64 both step the state by the same constant, so the streams of
	// adjacent seeds are one-draw shifts of each other; Fork() re-keys from a mixed output.
	r = r.Fork()
	o := &sink{out: out}
	thorough := tier == "thorough"

	// ---- (i) boundary tables
	o.Case("table-arith")
	sets2 := allSets(2, table) // 100 sets over {aaa,bbb}
	if !thorough {
		sets2 = allSets(2, []int64{0, 1, -1, 5, math.MaxInt64, math.MinInt64, math.MinInt64 + 1}) // 64 sets
	}
	for _, a := range sets2 {
		for _, b := range sets2 {
			for _, op := range arithOps {
				o.Op("%s %s %s", op, fmtSet(a), fmtSet(b))
			}
		}
	}
	o.Case("table-cmp")
	vs := allSets(2, []int64{1, 2, math.MaxInt64})
	if thorough {
		vs = allSets(3, []int64{1, 2, math.MaxInt64})
	}
	for _, a := range vs {
		for _, b := range vs {
			for _, h := range cmpOps {
				o.Op("cmp %s %s %s", h, fmtSet(a), fmtSet(b))
			}
		}
	}
	// different denom supports of equal length (IsEqual), and sets up to 5 long for the binary search
	o.Case("table-cmp-denoms")
	five := []string{"aaa", "bbb", "ccc", "ddd", "eee"}
	for mask := 0; mask < 32; mask++ {
		var a []std.Coin
		for i, d := range five {
			if mask>>i&1 == 1 {
				a = append(a, std.Coin{Denom: d, Amount: int64(i + 1)})
			}
		}
		for _, d := range append(append([]string{}, five...), "aab", "zzz", "AAA", "ab") {
			o.Op("amountof %s %s", fmtSet(a), hexS(d))
		}
		for mask2 := 0; mask2 < 32; mask2++ {
			if !thorough && mask2%3 != mask%3 {
				continue
			}
			var b []std.Coin
			for i, d := range five {
				if mask2>>i&1 == 1 {
					b = append(b, std.Coin{Denom: d, Amount: int64(5 - i)})
				}
			}
			for _, h := range cmpOps {
				o.Op("cmp %s %s %s", h, fmtSet(a), fmtSet(b))
			}
		}
	}
	o.Case("table-unary")
	for _, a := range sets2 {
		for _, h := range unOps {
			o.Op("un %s %s", h, fmtSet(a))
		}
		o.Op("valid %s", fmtSet(a))
		o.Op("str %s", fmtSet(a))
		o.Op("rt %s", fmtSet(a))
	}
	for _, d := range append(append([]string{}, badDenoms...), oddDenoms...) {
		for _, amt := range []int64{1, 0, -1} {
			s := []std.Coin{{Denom: d, Amount: amt}}
			o.Op("valid %s", fmtSet(s))
			o.Op("rt %s", fmtSet(s))
			o.Op("add %s aaa:1", fmtSet(s))
			o.Op("sub %s -", fmtSet(s))
			o.Op("cmp IsAllGTE aaa:1 %s", fmtSet(s))
			o.Op("cmp IsAnyGT %s aaa:1", fmtSet(s))
		}
		o.Op("amountof aaa:1 %s", hexS(d))
		o.Op("amountof - %s", hexS(d))
	}
	o.Case("table-parse")
	for _, s := range []string{
		"", " ", "5aaa", "5 aaa", "5\taaa", " 5aaa ", "5aaa,7bbb", "7bbb,5aaa", "5aaa , 7bbb", "5aaa,", ",5aaa", "5aaa,,7bbb",
		"0aaa", "00aaa", "007aaa", "5aaa,5aaa", "5aaa,6aaa", "5AAA", "5aa", "5a", "5", "aaa", "-5aaa", "+5aaa", "5.0aaa",
		"9223372036854775807aaa", "9223372036854775808aaa", "18446744073709551617aaa", "5aaa\n", "\n5aaa", "5aaa\n,7bbb",
		"5\u00a0aaa", "\u00a05aaa\u2003", "\u30005aaa\u1680", "5aaa\xc2", "\xc25aaa", "5aaa\x85", "5aaa\xe2\x80\x8a", "5aaa\xe2\x80\x8b",
		"5/gno.land/r/x:tok", "5 /a-", "5a-b", "5-ab", "5a_.:", "5aaa 7bbb", "5aaa;7bbb", "5 a a a", "1e3aaa", "5aaa,7bbb,9ccc,1ddd",
		"1ddd,9ccc,7bbb,5aaa", "5" + strings.Repeat("a", 274), "5" + strings.Repeat("a", 275), "5" + strings.Repeat("a", 293), "5" + strings.Repeat("a", 294),
		strings.Repeat("0", 19) + "5" + strings.Repeat("a", 274), strings.Repeat("0", 20) + "5" + strings.Repeat("a", 274),
		strings.Repeat("0", 290) + "5aaa", strings.Repeat("0", 291) + "5aaa", "5" + strings.Repeat(" ", 290) + "aaa", " " + "5" + strings.Repeat(" ", 290) + "aaa ",
		"5aaa," + strings.Repeat("9", 30) + "bbb", "5AAA,99999999999999999999bbb", "99999999999999999999bbb,5AAA",
	} {
		o.Op("parse %s", hexS(s))
	}
	for _, sp := range spaces {
		o.Op("parse %s", hexS(sp+"5aaa"+sp))
		o.Op("parse %s", hexS("5"+sp+"aaa"))
		o.Op("parse %s", hexS("5aaa"+sp+","+sp+"7bbb"))
		o.Op("parse %s", hexS(sp))
	}
	for _, ns := range nonSpaces {
		o.Op("parse %s", hexS(ns+"5aaa"))
		o.Op("parse %s", hexS("5aaa"+ns))
		o.Op("parse %s", hexS(" "+ns+" 5aaa"))
	}

	// ---- (ii) structured random, biased to the success branch
	n := 12000
	if thorough {
		n = 250000
	}
	o.Case("random-valid")
	for i := 0; i < n; i++ {
		a := sortedSet(r, randPos, 5)
		b := sortedSet(r, randPos, 5)
		switch r.Intn(10) {
		case 0, 1, 2:
			// make b a sub-multiset of a so that Sub succeeds
			if r.Bool() {
				b = nil
				for _, c := range a {
					if r.Chance(60) {
						b = append(b, std.Coin{Denom: c.Denom, Amount: 1 + int64(r.U64()%uint64(c.Amount))})
					}
				}
			}
			o.Op("%s %s %s", kit.Pick(r, arithOps[1:]), fmtSet(a), fmtSet(b))
		case 3, 4:
			// small amounts: Add succeeds
			for i := range a {
				a[i].Amount = a[i].Amount%1000 + 1
			}
			o.Op("%s %s %s", kit.Pick(r, []string{"add", "addu"}), fmtSet(a), fmtSet(b))
		case 5, 6, 7:
			if r.Chance(30) {
				b = append([]std.Coin(nil), a...)
				if len(b) > 0 && r.Bool() {
					b[r.Intn(len(b))].Amount = randPos(r)
				}
			}
			o.Op("cmp %s %s %s", kit.Pick(r, cmpOps), fmtSet(a), fmtSet(b))
		case 8:
			d := kit.Pick(r, append(append([]string{}, alphabet...), oddDenoms[:4]...))
			o.Op("amountof %s %s", fmtSet(a), hexS(d))
		default:
			switch r.Intn(4) {
			case 0:
				o.Op("rt %s", fmtSet(a))
			case 1:
				o.Op("valid %s", fmtSet(a))
			case 2:
				o.Op("str %s", fmtSet(a))
			default:
				o.Op("un %s %s", kit.Pick(r, unOps), fmtSet(a))
			}
		}
	}
	// sorted operands with zero / negative / extreme amounts (the statement's precondition still holds)
	o.Case("random-sorted-any")
	for i := 0; i < n; i++ {
		a := sortedSet(r, randAmt, 5)
		b := sortedSet(r, randAmt, 5)
		if r.Chance(25) {
			// near-cancelling / near-overflow pairs on a shared denom
			for i := range a {
				for j := range b {
					if a[i].Denom == b[j].Denom && r.Bool() {
						switch r.Intn(4) {
						case 0:
							b[j].Amount = -a[i].Amount // wraps at MinInt64 on purpose
						case 1:
							b[j].Amount = a[i].Amount
						case 2:
							b[j].Amount = math.MaxInt64 - a[i].Amount // wraps for negative a on purpose
						default:
							b[j].Amount = math.MinInt64 - a[i].Amount
						}
					}
				}
			}
		}
		switch r.Intn(8) {
		case 0, 1, 2, 3, 4:
			o.Op("%s %s %s", kit.Pick(r, arithOps), fmtSet(a), fmtSet(b))
		case 5:
			o.Op("cmp %s %s %s", kit.Pick(r, cmpOps), fmtSet(a), fmtSet(b))
		case 6:
			o.Op("amountof %s %s", fmtSet(a), hexS(kit.Pick(r, alphabet)))
		default:
			switch r.Intn(4) {
			case 0:
				o.Op("rt %s", fmtSet(a))
			case 1:
				o.Op("valid %s", fmtSet(a))
			case 2:
				o.Op("str %s", fmtSet(a))
			default:
				o.Op("un %s %s", kit.Pick(r, unOps), fmtSet(a))
			}
		}
	}

	// ---- (iii) malformed stream: unsorted, duplicate denoms, ill-formed denoms (oracle: no verdict
	// beyond operand mutation; model and implementation are still compared)
	o.Case("malformed")
	for i := 0; i < n/3; i++ {
		a := malformedSet(r)
		b := malformedSet(r)
		if r.Chance(30) {
			b = sortedSet(r, randAmt, 5)
		}
		switch r.Intn(8) {
		case 0, 1, 2, 3:
			o.Op("%s %s %s", kit.Pick(r, arithOps), fmtSet(a), fmtSet(b))
		case 4, 5:
			o.Op("cmp %s %s %s", kit.Pick(r, cmpOps), fmtSet(a), fmtSet(b))
		case 6:
			o.Op("amountof %s %s", fmtSet(a), hexS(kit.Pick(r, append(append([]string{}, alphabet...), badDenoms[:6]...))))
		default:
			switch r.Intn(4) {
			case 0:
				o.Op("rt %s", fmtSet(a))
			case 1:
				o.Op("valid %s", fmtSet(a))
			case 2:
				o.Op("str %s", fmtSet(a))
			default:
				o.Op("un %s %s", kit.Pick(r, unOps), fmtSet(a))
			}
		}
	}

	// ---- parse strings: valid forms, then mutations
	o.Case("parse-random")
	for i := 0; i < n/2; i++ {
		cs := sortedSet(r, randPos, 5)
		if r.Chance(30) {
			cs = shuffle(r, cs)
		}
		var parts []string
		for _, c := range cs {
			parts = append(parts, validCoinStr(r, c))
		}
		s := strings.Join(parts, ",")
		if r.Chance(45) {
			s = mutate(r, s)
			if r.Chance(20) {
				s = mutate(r, s)
			}
		}
		o.Op("parse %s", hexS(s))
	}
}

func main() {
	kit.Main(&kit.Harness{Gen: gen, Exec: exec})
}
