package main

import (
	"bufio"
	"fmt"
	"io"
	"reflect"
	"sort"
	"strconv"
)

// dumpTo writes a canonical, deterministic rendering of an AST value: every
// exported field (positions included, as raw token.Pos integers — each parse
// uses a fresh FileSet whose only file has base 1), maps in sorted key order
// (ast.Fprint iterates them in Go's random map order), and pointers that were
// already printed as back references `@<line>`; one value per line.
func dumpTo(w io.Writer, x any) {
	d := &dumper{w: bufio.NewWriterSize(w, 1<<16), ptrs: map[any]int{}}
	d.val(reflect.ValueOf(x), 0)
	d.w.Flush()
}

type dumper struct {
	w    *bufio.Writer
	ptrs map[any]int
	line int
}

func (d *dumper) emit(depth int, s string) {
	// no indentation: a 3000-deep nest would make the dump quadratic
	d.w.WriteString(s)
	d.w.WriteByte('\n')
	d.line++
}

func (d *dumper) val(v reflect.Value, depth int) {
	if !v.IsValid() {
		d.emit(depth, "nil")
		return
	}
	switch v.Kind() {
	case reflect.Interface:
		if v.IsNil() {
			d.emit(depth, "nil")
			return
		}
		d.val(v.Elem(), depth)
	case reflect.Pointer:
		if v.IsNil() {
			d.emit(depth, "nil")
			return
		}
		p := v.Interface()
		if at, ok := d.ptrs[p]; ok {
			d.emit(depth, "@"+strconv.Itoa(at))
			return
		}
		d.ptrs[p] = d.line
		d.emit(depth, "*")
		d.val(v.Elem(), depth+1)
	case reflect.Struct:
		t := v.Type()
		d.emit(depth, t.String()+"{")
		for i := 0; i < t.NumField(); i++ {
			f := t.Field(i)
			if !f.IsExported() {
				continue
			}
			d.emit(depth+1, f.Name+":")
			d.val(v.Field(i), depth+2)
		}
		d.emit(depth, "}")
	case reflect.Slice, reflect.Array:
		if v.Kind() == reflect.Slice && v.IsNil() {
			d.emit(depth, "nil[]")
			return
		}
		d.emit(depth, "["+strconv.Itoa(v.Len()))
		for i := 0; i < v.Len(); i++ {
			d.val(v.Index(i), depth+1)
		}
		d.emit(depth, "]")
	case reflect.Map:
		if v.IsNil() {
			d.emit(depth, "nilmap")
			return
		}
		keys := v.MapKeys()
		sort.Slice(keys, func(i, j int) bool { return fmt.Sprint(keys[i].Interface()) < fmt.Sprint(keys[j].Interface()) })
		d.emit(depth, "map"+strconv.Itoa(len(keys)))
		for _, k := range keys {
			d.emit(depth+1, fmt.Sprintf("%q=>", fmt.Sprint(k.Interface())))
			d.val(v.MapIndex(k), depth+2)
		}
	case reflect.String:
		d.emit(depth, strconv.Quote(v.String()))
	case reflect.Int, reflect.Int8, reflect.Int16, reflect.Int32, reflect.Int64:
		d.emit(depth, strconv.FormatInt(v.Int(), 10))
	case reflect.Uint, reflect.Uint8, reflect.Uint16, reflect.Uint32, reflect.Uint64:
		d.emit(depth, strconv.FormatUint(v.Uint(), 10))
	case reflect.Bool:
		d.emit(depth, strconv.FormatBool(v.Bool()))
	default:
		d.emit(depth, "?"+v.Kind().String())
	}
}
