// Harness for C21: Gno's forked Go parser parses exactly like go/parser.
//
// Real code under test (in-process): github.com/gnolang/gno/gnovm/pkg/parser
// (ParseFile, ParseFile2, ParseExprFrom, ParseExprFrom2, ParseExpr, ParseExpr2).
//
// References it is compared with (oracle column, independent of the Lean model):
//
//	std    go/parser of the Go toolchain the harness is built with (go env GOROOT)
//	ref24  gnoverif/cmd/c21/ref24: the parser the fork was made from, reconstructed
//	       textually as "fork minus gno.patch"; the F tie (gvx facts-parserfork)
//	       checks on every run that ref24 + gno.patch is the fork byte for byte and
//	       that ref24 differs from std only by the committed upstream-drift hunks
//	scan   go/scanner run on its own (token stream of the source)
//
// op lines (sources as lowercase hex, `e` = empty):
//
//	file <mode> <src>            -> same | differ        ParseFile vs ParseFile2(callback): identical result?
//	expr <mode> <src>            -> same | differ        ParseExprFrom vs ParseExprFrom2(callback) (+ParseExpr/ParseExpr2 when mode=0)
//	scan <mode> <src> <stream>   -> n=<callbacks> k=<checksum of callback tokens> g=<comment groups, fork> s=<comment groups, std>
//	                                | err:badstream       (stream is not go/scanner's token stream of src)
//	cb0  <mode> <src> <stream>   -> as scan; the oracle evaluates "one callback per token of the source" literally
//
// <stream> = tokens separated by `,`; a token is kind.line.rawline, a comment
// token kind.line.rawline.b.nl (b = 1 for /*-style, nl = number of '\n' in its
// text).  line = line after //line directives (token.File.Line), rawline = the
// physical line.  The Lean model consumes only <mode> and <stream>.
// Comment groups are printed as stream indices: `3.4|7|9.10`.
//
// Oracle (the property statement evaluated on the implementation's outputs):
//
//	VIOL:panic             the fork panicked
//	VIOL:cb-changes-result ParseFile2/ParseExprFrom2 with a callback returned a different tree or error list than without
//	VIOL:cb-tokens         after its installation the callback was not invoked exactly once per scanned token, in order
//	VIOL:cb-misses-first   (cb0 only) the callback count is not the token count: tokens scanned by p.init are not reported (known finding)
//	VIOL:fork-diff         tree (canonical dump with positions) or error list differs from ref24
//	VIOL:drift-*           fork = ref24 but differs from the installed go/parser: upstream drift (known findings)
package main

import (
	"bytes"
	"crypto/sha256"
	"encoding/hex"
	"fmt"
	"go/ast"
	goparser "go/parser"
	"go/scanner"
	"go/token"
	"os"
	"path/filepath"
	"regexp"
	"sort"
	"strconv"
	"strings"

	fork "github.com/gnolang/gno/gnovm/pkg/parser"
	ref24 "gnoverif/cmd/c21/ref24"
	"gnoverif/kit"
)

const fileName = "x.go"

// ------------------------------------------------------------------ running one parser

type outcome struct {
	dump string // canonical dump (or its digest) of the returned node
	errs string // canonical error list
	pan  string // non-empty: the call panicked
	nerr int
}

func (o outcome) key() string { return o.pan + "\x00" + o.dump + "\x00" + o.errs }

var devNull *os.File

// quiet runs f with os.Stdout pointing at /dev/null (Mode Trace prints there).
func quiet(trace bool, f func()) {
	if !trace {
		f()
		return
	}
	if devNull == nil {
		devNull, _ = os.OpenFile(os.DevNull, os.O_WRONLY, 0)
	}
	old := os.Stdout
	os.Stdout = devNull
	defer func() { os.Stdout = old }()
	f()
}

func canonErr(err error) (string, int) {
	if err == nil {
		return "nil", 0
	}
	el, ok := err.(scanner.ErrorList)
	if !ok {
		return "other:" + err.Error(), 1
	}
	var b strings.Builder
	for _, e := range el {
		fmt.Fprintf(&b, "%s|%d|%d|%d|%s\n", e.Pos.Filename, e.Pos.Offset, e.Pos.Line, e.Pos.Column, e.Msg)
	}
	return b.String(), len(el)
}

// full = keep the whole dump (for the detail of a mismatch); otherwise a digest.
func dumpNode(n any, isNil bool, full bool) string {
	if isNil {
		return "nil"
	}
	if full {
		var b bytes.Buffer
		dumpTo(&b, n)
		return b.String()
	}
	h := sha256.New()
	dumpTo(h, n)
	return hex.EncodeToString(h.Sum(nil)[:12])
}

func run(trace, full bool, f func(fset *token.FileSet) (any, bool, error)) (o outcome) {
	defer func() {
		if v := recover(); v != nil {
			o = outcome{pan: "panic:" + fmt.Sprint(v)}
		}
	}()
	quiet(trace, func() {
		fset := token.NewFileSet()
		n, isNil, err := f(fset)
		o.errs, o.nerr = canonErr(err)
		o.dump = dumpNode(n, isNil, full)
	})
	return
}

type cbLog struct {
	toks []token.Token
	bad  bool // a nesting level outside [0, maxNestLev+1]
}

func (l *cbLog) cb(tok token.Token, nest int) {
	l.toks = append(l.toks, tok)
	if nest < 0 || nest > 100001 {
		l.bad = true
	}
}

// ------------------------------------------------------------------ independent token stream

type stok struct {
	kind     token.Token
	off, end int // byte span in src (end = off for an inserted semicolon)
	line     int // token.File.Line (after //line directives)
	raw      int // physical line
	block    bool
	nl       int
}

func scanAll(src []byte) []stok {
	fset := token.NewFileSet()
	file := fset.AddFile(fileName, -1, len(src))
	var s scanner.Scanner
	s.Init(file, src, nil, scanner.ScanComments)
	var out []stok
	for {
		pos, tok, lit := s.Scan()
		t := stok{kind: tok, off: file.Offset(pos)}
		t.end = t.off
		switch {
		case tok == token.SEMICOLON && lit == "\n", tok == token.EOF:
		case lit != "":
			t.end = t.off + len(lit)
		default:
			t.end = t.off + len(tok.String())
		}
		if t.end > len(src) {
			t.end = len(src)
		}
		t.line = file.Line(pos)
		t.raw = file.PositionFor(pos, false).Line
		if tok == token.COMMENT {
			t.block = len(lit) > 1 && lit[1] == '*'
			t.nl = strings.Count(lit, "\n")
		}
		out = append(out, t)
		if tok == token.EOF {
			break
		}
	}
	return out
}

func encodeStream(ts []stok) string {
	var b strings.Builder
	for i, t := range ts {
		if i > 0 {
			b.WriteByte(',')
		}
		fmt.Fprintf(&b, "%d.%d.%d", int(t.kind), t.line, t.raw)
		if t.kind == token.COMMENT {
			bl := 0
			if t.block {
				bl = 1
			}
			fmt.Fprintf(&b, ".%d.%d", bl, t.nl)
		}
	}
	return b.String()
}

// initPrefix is the number of tokens the parser scans inside p.init (the first
// p.next(): every leading comment and the first non-comment token).  ParseFile2 and
// ParseExprFrom2 install the callback only AFTER p.init, so these tokens are never
// reported to it (see the `cb0` op and known_findings/C21.json).
func initPrefix(stream []stok) int {
	for i, t := range stream {
		if t.kind != token.COMMENT {
			return i + 1
		}
	}
	return len(stream)
}

// checkCallbackTokens: from the moment the callback is installed it must see the
// scanner's token stream, one call per Scan, in order; once the scanner is at EOF
// every further Scan yields EOF again.
func checkCallbackTokens(log *cbLog, stream []stok) string {
	if log.bad {
		return "nesting level out of range"
	}
	from := initPrefix(stream)
	for i, t := range log.toks {
		want := token.EOF
		if from+i < len(stream) {
			want = stream[from+i].kind
		}
		if t != want {
			return fmt.Sprintf("callback #%d got %v, scanner token #%d is %v", i, t, from+i, want)
		}
	}
	return ""
}

// ------------------------------------------------------------------ drift attribution (labels only)

var reLineDirective = regexp.MustCompile(`(//|/\*)line `)

// frk, std are the full outcomes (whole dumps).
func driftClass(src []byte, frk, std outcome, stream []stok) string {
	if strings.Contains(std.errs, "can only use ... with final parameter") || strings.Contains(std.errs, "invalid use of ...") ||
		strings.Count(frk.dump, "ast.Ellipsis{") > strings.Count(std.dump, "ast.Ellipsis{") ||
		strings.Contains(frk.dump, "ast.Ellipsis{") && strings.Count(frk.dump, "ast.BadExpr{") < strings.Count(std.dump, "ast.BadExpr{") {
		// (the message itself may have been discarded as a same-line follow-on error while the type was still
		// rewritten from Ellipsis to a fresh BadExpr per parameter — which also splits `a, b ...T` style
		// groups that shared one type into separate fields)
		return "drift-ddd"
	}
	for i, t := range stream {
		if t.kind == token.GOTO && (i+1 >= len(stream) || stream[i+1].kind != token.IDENT) {
			return "drift-goto"
		}
	}
	if strings.Contains(std.errs+frk.errs, "must have no type parameters") {
		return "drift-tparams"
	}
	if reLineDirective.Match(src) {
		return "drift-linedirective"
	}
	return "drift-other"
}

func firstDiff(a, b string) string {
	la, lb := strings.Split(a, "\n"), strings.Split(b, "\n")
	for i := 0; i < len(la) || i < len(lb); i++ {
		x, y := "<end>", "<end>"
		if i < len(la) {
			x = la[i]
		}
		if i < len(lb) {
			y = lb[i]
		}
		if x != y {
			return fmt.Sprintf("line %d: %q vs %q", i, strings.TrimSpace(x), strings.TrimSpace(y))
		}
	}
	return "equal"
}

func describe(a, b outcome) string {
	if a.pan != b.pan {
		return fmt.Sprintf("panic %q vs %q", a.pan, b.pan)
	}
	if a.errs != b.errs {
		return fmt.Sprintf("errors(%d vs %d) %s", a.nerr, b.nerr, firstDiff(a.errs, b.errs))
	}
	return "tree " + firstDiff(a.dump, b.dump)
}

// ------------------------------------------------------------------ ops

type parsers struct {
	forkPlain, forkCb, ref, std func(full bool, log *cbLog) outcome
	extra                       func() string // additional fork-internal comparison (ParseExpr vs ParseExpr2), "" = fine
}

// extraEOF: Scan calls at EOF beyond the first that a complete parse makes (ParseExprFrom's final expect(EOF) advances once more).
func judge(src []byte, mode uint, ps parsers, extraEOF int, complete func(o outcome) bool) (string, string) {
	log := &cbLog{}
	a := ps.forkPlain(false, nil)
	b := ps.forkCb(false, log)
	impl := "same"
	if a.key() != b.key() {
		impl = "differ"
	}
	if a.pan != "" || b.pan != "" {
		return impl, "VIOL:panic " + a.pan + " " + b.pan
	}
	if impl == "differ" {
		return impl, "VIOL:cb-changes-result " + describe(ps.forkPlain(true, nil), ps.forkCb(true, &cbLog{}))
	}
	if ps.extra != nil {
		if d := ps.extra(); d != "" {
			return "differ", "VIOL:cb-changes-result " + d
		}
	}
	stream := scanAll(src)
	if d := checkCallbackTokens(log, stream); d != "" {
		return impl, "VIOL:cb-tokens " + d
	}
	if complete(a) && len(log.toks) != len(stream)-initPrefix(stream)+extraEOF {
		return impl, fmt.Sprintf("VIOL:cb-tokens %d callbacks for %d tokens (%d scanned before the callback is installed) of an error-free parse",
			len(log.toks), len(stream), initPrefix(stream))
	}
	c := ps.ref(false, nil)
	if a.key() != c.key() {
		return impl, "VIOL:fork-diff " + describe(ps.forkPlain(true, nil), ps.ref(true, nil))
	}
	d := ps.std(false, nil)
	if a.key() != d.key() {
		af, df := ps.forkPlain(true, nil), ps.std(true, nil)
		return impl, "VIOL:" + driftClass(src, af, df, stream) + " " + describe(af, df)
	}
	return impl, "ok"
}

func opFile(mode uint, src []byte) (string, string) {
	trace := mode&uint(fork.Trace) != 0
	ps := parsers{
		forkPlain: func(full bool, _ *cbLog) outcome {
			return run(trace, full, func(fs *token.FileSet) (any, bool, error) {
				f, err := fork.ParseFile(fs, fileName, src, fork.Mode(mode))
				return f, f == nil, err
			})
		},
		forkCb: func(full bool, l *cbLog) outcome {
			return run(trace, full, func(fs *token.FileSet) (any, bool, error) {
				f, err := fork.ParseFile2(fs, fileName, src, fork.Mode(mode), l.cb)
				return f, f == nil, err
			})
		},
		ref: func(full bool, _ *cbLog) outcome {
			return run(trace, full, func(fs *token.FileSet) (any, bool, error) {
				f, err := ref24.ParseFile(fs, fileName, src, ref24.Mode(mode))
				return f, f == nil, err
			})
		},
		std: func(full bool, _ *cbLog) outcome {
			return run(trace, full, func(fs *token.FileSet) (any, bool, error) {
				f, err := goparser.ParseFile(fs, fileName, src, goparser.Mode(mode))
				return f, f == nil, err
			})
		},
	}
	whole := mode&uint(fork.PackageClauseOnly|fork.ImportsOnly) == 0
	return judge(src, mode, ps, 0, func(o outcome) bool { return whole && o.nerr == 0 })
}

func opExpr(mode uint, src []byte) (string, string) {
	trace := mode&uint(fork.Trace) != 0
	ps := parsers{
		forkPlain: func(full bool, _ *cbLog) outcome {
			return run(trace, full, func(fs *token.FileSet) (any, bool, error) {
				x, err := fork.ParseExprFrom(fs, fileName, src, fork.Mode(mode))
				return x, x == nil, err
			})
		},
		forkCb: func(full bool, l *cbLog) outcome {
			return run(trace, full, func(fs *token.FileSet) (any, bool, error) {
				x, err := fork.ParseExprFrom2(fs, fileName, src, fork.Mode(mode), l.cb)
				return x, x == nil, err
			})
		},
		ref: func(full bool, _ *cbLog) outcome {
			return run(trace, full, func(fs *token.FileSet) (any, bool, error) {
				x, err := ref24.ParseExprFrom(fs, fileName, src, ref24.Mode(mode))
				return x, x == nil, err
			})
		},
		std: func(full bool, _ *cbLog) outcome {
			return run(trace, full, func(fs *token.FileSet) (any, bool, error) {
				x, err := goparser.ParseExprFrom(fs, fileName, src, goparser.Mode(mode))
				return x, x == nil, err
			})
		},
	}
	if mode == 0 {
		ps.extra = func() string {
			p1 := run(false, false, func(*token.FileSet) (any, bool, error) {
				x, err := fork.ParseExpr(string(src))
				return x, x == nil, err
			})
			l := &cbLog{}
			p2 := run(false, false, func(*token.FileSet) (any, bool, error) {
				x, err := fork.ParseExpr2(string(src), l.cb)
				return x, x == nil, err
			})
			p3 := run(false, false, func(*token.FileSet) (any, bool, error) {
				x, err := goparser.ParseExpr(string(src))
				return x, x == nil, err
			})
			if p1.key() != p2.key() {
				return "ParseExpr vs ParseExpr2: " + describe(p1, p2)
			}
			_ = p3 // std's ParseExpr is covered through ParseExprFrom (same body, empty file name)
			return ""
		}
	}
	// a complete expression parse ends with expect(EOF): every token, EOF included, was scanned once
	return judge(src, mode, ps, 1, func(o outcome) bool { return o.nerr == 0 })
}

// showGroups prints comment groups (stream indices) explicitly when that is short, else as
// <groups>/<comments>/<rolling hash> (the kit cuts output lines at 300 bytes).
func showGroups(gs [][]int) string {
	var b strings.Builder
	nc := 0
	var h uint64
	for gi, g := range gs {
		if gi > 0 {
			b.WriteByte('|')
		}
		h = (h * 31) % 4294967291
		for ci, i := range g {
			if ci > 0 {
				b.WriteByte('.')
			}
			b.WriteString(strconv.Itoa(i))
			nc++
			h = (h*31 + uint64(i) + 1) % 4294967291
		}
	}
	if b.Len() <= 100 {
		return b.String()
	}
	return fmt.Sprintf("%d/%d/%d", len(gs), nc, h)
}

func groupsOf(f *ast.File, idxOf map[int]int, base int) string {
	if f == nil {
		return ""
	}
	var gs [][]int
	for _, g := range f.Comments {
		var is []int
		for _, c := range g.List {
			i, ok := idxOf[int(c.Slash)-base]
			if !ok {
				i = 1 << 30
			}
			is = append(is, i)
		}
		gs = append(gs, is)
	}
	return showGroups(gs)
}

func opScan(mode uint, src []byte, stream string, literal bool) (string, string) {
	ts := scanAll(src)
	if encodeStream(ts) != stream {
		return "err:badstream", "-"
	}
	idxOf := map[int]int{}
	for i, t := range ts {
		if t.kind == token.COMMENT {
			idxOf[t.off] = i
		}
	}
	log := &cbLog{}
	var g, s string
	trace := mode&uint(fork.Trace) != 0
	var pan string
	func() {
		defer func() {
			if v := recover(); v != nil {
				pan = fmt.Sprint(v)
			}
		}()
		quiet(trace, func() {
			fs := token.NewFileSet()
			f, _ := fork.ParseFile2(fs, fileName, src, fork.Mode(mode), log.cb)
			g = groupsOf(f, idxOf, fs.Base()-len(src)-1)
			fs2 := token.NewFileSet()
			f2, _ := goparser.ParseFile(fs2, fileName, src, goparser.Mode(mode))
			s = groupsOf(f2, idxOf, fs2.Base()-len(src)-1)
		})
	}()
	if pan != "" {
		return "panic:parse", "VIOL:panic " + pan
	}
	var k uint64
	for i, t := range log.toks {
		k = (k + uint64(t)*uint64(i+1)) % 4294967296
	}
	impl := fmt.Sprintf("n=%d k=%d g=%s s=%s", len(log.toks), k, g, s)
	if d := checkCallbackTokens(log, ts); d != "" {
		return impl, "VIOL:cb-tokens " + d
	}
	if literal {
		// the claim read literally: one callback per token of the source
		if len(log.toks) != len(ts) || log.toks[0] != ts[0].kind {
			return impl, fmt.Sprintf("VIOL:cb-misses-first %d callbacks for %d tokens: the %d token(s) scanned by p.init (leading comments and the first token) are never reported",
				len(log.toks), len(ts), initPrefix(ts))
		}
		return impl, "ok"
	}
	if g != s {
		return impl, "VIOL:drift-linedirective comment groups " + firstDiff(strings.ReplaceAll(g, "|", "\n"), strings.ReplaceAll(s, "|", "\n"))
	}
	return impl, "ok"
}

func exec(t []string) (string, string) {
	if len(t) < 3 {
		return "err:badop", "-"
	}
	m, err := strconv.ParseUint(t[1], 10, 32)
	if err != nil || m > 127 {
		return "err:badop", "-"
	}
	src, err := kit.UnHex(t[2])
	if err != nil || src == nil {
		return "err:badop", "-"
	}
	switch {
	case t[0] == "file" && len(t) == 3:
		return opFile(uint(m), src)
	case t[0] == "expr" && len(t) == 3:
		return opExpr(uint(m), src)
	case t[0] == "scan" && len(t) == 4:
		return opScan(uint(m), src, t[3], false)
	case t[0] == "cb0" && len(t) == 4:
		return opScan(uint(m), src, t[3], true)
	}
	return "err:badop", "-"
}

// ------------------------------------------------------------------ generator

func repoRoot() string {
	if r := os.Getenv("VERIF_REPO"); r != "" {
		return r
	}
	return "/repo"
}

// corpusFiles: every .gno/.go file of the examples, the gnovm tests and stdlibs, and the
// parser's own testdata (all extensions), sorted.
func corpusFiles() []string {
	root := repoRoot()
	var out []string
	for _, d := range []string{"examples", "gnovm/tests", "gnovm/stdlibs", "gnovm/pkg/parser/testdata"} {
		all := strings.HasSuffix(d, "testdata")
		filepath.WalkDir(filepath.Join(root, d), func(p string, e os.DirEntry, err error) error {
			if err != nil || e.IsDir() {
				return nil
			}
			if all || strings.HasSuffix(p, ".gno") || strings.HasSuffix(p, ".go") {
				out = append(out, p)
			}
			return nil
		})
	}
	sort.Strings(out)
	return out
}

var boundary = []string{
	"",
	"package p",
	"package p\n",
	"package",
	"package p;",
	"\xef\xbb\xbfpackage p\n",
	"package p\x00\n",
	"package p\n\xff\xfe",
	"package p; var s = \"abc",
	"package p; var s = `abc",
	"package p /* open",
	"package p; var r = 'ab'",
	"// only a comment",
	"/* a */ /* b */\n// c\n\n// d\npackage p // e\n// f\n\n/* g\n\n*/ var x int // h\n// i\nvar y int /* j */ /* k */\n",
	"//go:build go1.21\n\npackage p\n",
	"//go:build !go1.18 && linux\n//go:build go1.20\npackage p\n",
	"package p\n//go:build go1.21\n",
	"//go:build (\npackage p\n",
	"package p\n//line foo.go:10\nvar x int // c\n// d\nvar y int\n",
	"package p\n\nvar a int // c1\n//line :1\n// c2\nvar b int\n",
	"package p\n/*line :100*/ var a int /*line :1*/ // x\nvar b int\n",
	"package p\n// doc\n//line :50\nfunc f() {}\n",
	"//line :21\n// c\npackage p\n",
	"package p\n//line :0\nvar x int\n//line :-1\n//line x.go:9999999999999\n//line x.go:1:0\n",
	"package p\nfunc f(a ...int, b int) {}\n",
	"package p\nfunc f() (r ...int) {}\n",
	"package p\ntype T interface{ m(...int, string) }\n",
	"package p\nfunc f[T ...int]() {}\n",
	"package p\nvar f = func(...int, ...string) {}\n",
	"package p\nfunc f() { goto }\n",
	"package p\nfunc f() { goto; }\n",
	"package p\nfunc f() { goto 1 }\n",
	"package p\nfunc f() { L: goto L; break L; continue L; fallthrough L }\n",
	"package p\nfunc f() { break 1; continue + }\n",
	"package p\nfunc f[]() {}\n",
	"package p\ntype F func[T any](x 1)\n",
	"package p\nfunc (r T) f[P any](x 1) {}\n",
	"package p\ntype F func[T any](x, 1 2)\n",
	"package p\nfunc (r T) f[P any]() {}\n",
	"package p\ntype F func[T any](x T)\n",
	"package p\ntype I interface{ m[T any](T) }\n",
	"package p\ntype A[P any] = []P\ntype B[P *T,] struct{}\ntype C[P *T] int\ntype D[P (T)] int\ntype E[P *T|Q] int\n",
	"package p\nfunc f[T any, U interface{ ~int | string }](x T, y ...U) (r T) { return f[T, U](x) }\n",
	"package p\nimport \"a\"\nimport ( b \"b\"; . \"c\"; _ \"d\" )\nimport 1\nimport \"\\x\"\n",
	"package p\nvar x int\nimport \"late\"\n",
	"package p\nvar x, x int\nfunc x() {}\ntype x int\n",
	"package p\nfunc f() { x := 1; x := 2; _ = x; { y, x := 1, 2 } }\n",
	"package p\nfunc f() { for i := range 10 { _ = i }; for range ch {}; for ;; {}; for x = range y {} }\n",
	"package p\nfunc f() { switch x := y.(type) { case int, string: default: }; select { case <-c: case c <- 1: default: } }\n",
	"package p\nfunc f() { if x := 1; x > 0 {} else if y {} else {}; if {}; if x; {}; for {}; if a := b; {} }\n",
	"package p\nvar _ = T{1, 2: 3, k: {4}, [...]int{5}...}\nvar _ = [...]int{}\nvar _ = map[K]V{}\nvar _ = struct{ a, b int `tag` }{}\n",
	"package p\nvar _ = a[1:2:3]\nvar _ = a[:]\nvar _ = a[::]\nvar _ = a[1::3]\nvar _ = a[i,j]\nvar _ = a[]\n",
	"package p\nvar _ = <-chan int(nil)\nvar _ = (<-chan int)(nil)\nvar _ = chan<- <-chan int(nil)\nvar _ <-chan chan<- int\n",
	"package p\nvar _ = func() { defer f(); go g(); defer 1; go func(){} }\n",
	"package p\nvar _ = x.(type)\nvar _ = x.(T)\nvar _ = x.()\nvar _ = x.\nvar _ = *x.y.z()()[0]\n",
	"package p\nconst ( a = iota; b; c, d = 1, 2; e )\nvar ( f, g int = 1, 2; h )\ntype ( T int; U = T; V )\n",
	"package p\nfunc f() { a, b = b, a; a += 1; a <<= 2; a &^= 3; a++; b--; a, b++; a := 1, 2; L: }\n",
	"package p\nfunc f() { return; return 1, 2; return (1) }\nfunc g() int\nfunc h() (int, string) { }\nfunc (T) m()\nfunc (a, b T) m()\n",
	"package p\nvar _ = 0x1p-2 + 1e+ + 0b102 + 0o8 + 1_000_ + 'a' + '\\400' + \"\\u12\" + 1i + 08i + 0xg\n",
	"package p\nvar _ = a &^ b | c && d || e == f != g <= h << i >> j % k ^ l - -m + +n * !o / ^p\n",
	"package p;;;var x int;;;func f(){;;;};;;\n",
	"package p\nfunc f() { { { { { { { { { { } } } } } } } } } }\n",
	"package p\nvar _ = ((((((((((((((((((((1))))))))))))))))))))\n",
	"package p\nfunc f() {\n\tx := struct{\n\t}{}\n\tif x == (struct{}{}) {}\n\tif x == struct{}{} {}\n\tfor _, v := range []int{1} {}\n}\n",
	"package p\ntype T struct { a, b int; c; *d; e.f; *g.h; i[int]; j[int, string]; k [2]int; _ int; A[T] }\n",
	"package p\ntype I interface { m(); I2; ~int | string; *T; p.Q; interface{}; int }\n",
	"package p\nfunc f(int, string)\nfunc g(a, b int, c string)\nfunc h(a int, string)\nfunc i(a, b)\nfunc j(a b c)\nfunc k(a, b int, c)\nfunc l([]int, ...T)\nfunc m(a.b, c.d)\n",
	"package p\n}\n)\n]\nvar x = }\nfunc f() { ) ] }\n",
	"package p\nvar a = 1 +\nvar b = (\nvar c = [\nvar d = {\nfunc\ntype\nconst\nimport\n",
	"package p\nfunc f() { e1; e2; e3; e4; e5; e6 }\n$ $\n$ $\n$ $\n$ $\n$ $\n$ $\n$ $\n$ $\n$ $\n$ $\n$ $\n$ $\n",
	"package p\nvar x int @\nvar y int #\n",
	"package p\n\nfunc main() {\n\tprintln(\"hello\")\n}\n\n// Output:\n// hello\n",
	"package main\n\nimport \"std\"\n\nfunc main() {\n\tcross(realm.Foo)(1)\n\tx := 1\n\tcrossing()\n}\n",
	"package p\n/*\nmulti\nline\n*/\nvar a int /* same\nline */ var b int\n/* x */ // y\nvar c int\n\n\n// far\n\n\nvar d int\n",
	"package p\r\n// crlf comment\r\nvar x int // c\r\n/* a\r\nb */\r\n",
	"package p\nvar s = `raw\r\nstring`\n",
}

var exprBoundary = []string{
	"", "1", "x", "(", ")", "1 +", "a.b.c", "f(x, y...)", "f(x..., y)", "[]int{1,2}", "func(){ goto }", "func(a ...int, b int){}",
	"x.(type)", "<-c", "a[b:c:d]", "T[int, string]{}", "struct{}{}", "map[string]int{\"a\": 1,}", "1 // c\n", "1\n", "1\n\n2", "1;", "1;2",
	"/* c */ 1 /* d */", "a +\n// c\nb", "func() {\n//line :10\n x := 1 // c\n}", "*p", "&T{}", "!x", "-x", "^x", "x <- y", "a, b", "a = b",
	"interface{ m() }", "chan<- int", "[...]int{}", "(*T)(x)", "x.\n", "\x00", "\xff", "'", "\"", "`",
	"func(){ L: for { break L } }", "func[T any](){}", "a[i,j]", "a[]", "x...", "...x", "1 2", "package", "goto", "if", "{", "}",
}

var keywords = []string{"break", "case", "chan", "const", "continue", "default", "defer", "else", "fallthrough", "for", "func", "go", "goto",
	"if", "import", "interface", "map", "package", "range", "return", "select", "struct", "switch", "type", "var"}
var operators = []string{"+", "-", "*", "/", "%", "&", "|", "^", "<<", ">>", "&^", "+=", "&&", "||", "<-", "++", "--", "==", "<", ">", "=", "!",
	"~", "!=", "<=", ">=", ":=", "...", "(", "[", "{", ",", ".", ")", "]", "}", ";", ":", "\n", " ", "\t"}
var atoms = []string{"x", "T", "_", "0", "1.5", "'a'", "\"s\"", "`r`", "int", "any", "nil", "// c\n", "/* c */", "/*\n*/", "//line :7\n", "/*line :3*/", "//go:build go1.22\n"}

func randToken(r *kit.Rand) string {
	switch r.Intn(3) {
	case 0:
		return kit.Pick(r, keywords)
	case 1:
		return kit.Pick(r, operators)
	}
	return kit.Pick(r, atoms)
}

func spliceBytes(src []byte, off, end int, ins string) []byte {
	out := make([]byte, 0, len(src)+len(ins))
	out = append(out, src[:off]...)
	out = append(out, ins...)
	return append(out, src[end:]...)
}

// mutate applies 1..k byte-, token- or line-level edits to a source.
func mutate(r *kit.Rand, src []byte) []byte {
	k := 1 + r.Intn(3)
	for ; k > 0; k-- {
		if len(src) == 0 {
			src = []byte(randToken(r))
			continue
		}
		switch r.Intn(16) {
		case 0: // flip a byte
			src = append([]byte{}, src...)
			src[r.Intn(len(src))] ^= byte(1 << r.Intn(8))
		case 1: // random byte
			src = append([]byte{}, src...)
			src[r.Intn(len(src))] = byte(r.U64())
		case 2: // delete a short range
			o := r.Intn(len(src))
			e := o + 1 + r.Intn(4)
			if e > len(src) {
				e = len(src)
			}
			src = spliceBytes(src, o, e, "")
		case 3: // truncate
			src = append([]byte{}, src[:r.Intn(len(src)+1)]...)
		case 4: // insert a token at a random byte offset
			o := r.Intn(len(src) + 1)
			src = spliceBytes(src, o, o, randToken(r))
		case 5: // duplicate a chunk
			o := r.Intn(len(src))
			e := o + 1 + r.Intn(40)
			if e > len(src) {
				e = len(src)
			}
			src = spliceBytes(src, e, e, string(src[o:e]))
		case 6, 7, 8, 9, 10, 11: // token-level
			ts := scanAll(src)
			var real []stok
			for _, t := range ts {
				if t.end > t.off {
					real = append(real, t)
				}
			}
			if len(real) == 0 {
				continue
			}
			t := real[r.Intn(len(real))]
			switch r.Intn(6) {
			case 0: // delete token
				src = spliceBytes(src, t.off, t.end, "")
			case 1: // replace token
				src = spliceBytes(src, t.off, t.end, randToken(r))
			case 2: // duplicate token
				src = spliceBytes(src, t.end, t.end, " "+string(src[t.off:t.end]))
			case 3: // insert before token
				src = spliceBytes(src, t.off, t.off, randToken(r)+" ")
			case 4: // swap with another token
				u := real[r.Intn(len(real))]
				if u.off < t.off {
					t, u = u, t
				}
				if t.end <= u.off {
					a, b := string(src[t.off:t.end]), string(src[u.off:u.end])
					src = spliceBytes(src, u.off, u.end, a)
					src = spliceBytes(src, t.off, t.end, b)
				}
			case 5: // newline after token (semicolon insertion)
				src = spliceBytes(src, t.end, t.end, "\n")
			}
		case 12, 13: // line-level: delete / duplicate / move a line
			lines := bytes.SplitAfter(src, []byte("\n"))
			i := r.Intn(len(lines))
			switch r.Intn(3) {
			case 0:
				lines = append(append([][]byte{}, lines[:i]...), lines[i+1:]...)
			case 1:
				lines = append(append(append([][]byte{}, lines[:i+1]...), lines[i]), lines[i+1:]...)
			case 2:
				j := r.Intn(len(lines))
				lines = append([][]byte{}, lines...)
				lines[i], lines[j] = lines[j], lines[i]
			}
			src = bytes.Join(lines, nil)
		case 14, 15: // comment / directive / blank line at a line start or after a token
			src = decorate(r, src)
		}
	}
	return src
}

var decorations = []string{"// c\n", "/* c */", "/* c\n*/", "\n", "\n\n", "//line :7\n", "//line y.go:3\n", "/*line :3*/", "/*line z.go:9:2*/ ",
	"//go:build go1.22\n", "// a\n// b\n", "/**/", "//\n"}

// decorate inserts comments, blank lines and line directives; most results stay syntactically valid.
func decorate(r *kit.Rand, src []byte) []byte {
	ts := scanAll(src)
	if len(ts) == 0 {
		return src
	}
	t := ts[r.Intn(len(ts))]
	d := kit.Pick(r, decorations)
	if r.Bool() {
		// at the start of the token's line
		o := t.off
		for o > 0 && src[o-1] != '\n' {
			o--
		}
		return spliceBytes(src, o, o, d)
	}
	return spliceBytes(src, t.end, t.end, " "+d)
}

// synth builds a small valid file with many comment / blank-line / directive shapes.
func synth(r *kit.Rand) []byte {
	var b strings.Builder
	gap := func() {
		for n := r.Intn(4); n > 0; n-- {
			switch r.Intn(9) {
			case 0:
				b.WriteString("// c\n")
			case 1:
				b.WriteString("/* c */ ")
			case 2:
				b.WriteString("/* c\n c */ ")
			case 3:
				b.WriteString("\n")
			case 4:
				b.WriteString("/* c */\n")
			case 5:
				fmt.Fprintf(&b, "\n//line :%d\n", 1+r.Intn(30))
			case 6:
				fmt.Fprintf(&b, "/*line :%d*/ ", 1+r.Intn(30))
			case 7:
				b.WriteString("// a\n// b\n")
			case 8:
				b.WriteString(" ")
			}
		}
	}
	if r.Chance(30) {
		b.WriteString("//go:build go1.21\n\n")
	}
	gap()
	b.WriteString("package p")
	gap()
	b.WriteString("\n")
	for n := r.Intn(6); n > 0; n-- {
		gap()
		switch r.Intn(5) {
		case 0:
			b.WriteString("var x")
			gap()
			b.WriteString(" int")
			gap()
			b.WriteString("\n")
		case 1:
			b.WriteString("func f(")
			gap()
			b.WriteString("a int")
			gap()
			b.WriteString(") {")
			gap()
			b.WriteString("\n\treturn")
			gap()
			b.WriteString("\n}")
			gap()
			b.WriteString("\n")
		case 2:
			b.WriteString("type T struct {")
			gap()
			b.WriteString("\n\ta int")
			gap()
			b.WriteString("\n\tb string")
			gap()
			b.WriteString("\n}\n")
		case 3:
			b.WriteString("const (")
			gap()
			b.WriteString("\n\ta = iota")
			gap()
			b.WriteString("\n\tb")
			gap()
			b.WriteString("\n)\n")
		case 4:
			b.WriteString("var _ = []int{")
			gap()
			b.WriteString("\n\t1,")
			gap()
			b.WriteString("\n\t2,")
			gap()
			b.WriteString("\n}\n")
		}
	}
	gap()
	return []byte(b.String())
}

var exprAtoms = []string{"x", "y", "f", "T", "1", "2.5", "'c'", "\"s\"", "nil"}

func synthExpr(r *kit.Rand, depth int) string {
	if depth <= 0 || r.Chance(25) {
		return kit.Pick(r, exprAtoms)
	}
	e := func() string { return synthExpr(r, depth-1) }
	switch r.Intn(16) {
	case 0:
		return e() + " " + kit.Pick(r, []string{"+", "-", "*", "/", "&&", "||", "==", "<", "<<", "&^", "|"}) + " " + e()
	case 1:
		return "(" + e() + ")"
	case 2:
		return e() + "(" + e() + ", " + e() + ")"
	case 3:
		return e() + "[" + e() + "]"
	case 4:
		return e() + "[" + e() + ":" + e() + "]"
	case 5:
		return e() + "." + kit.Pick(r, []string{"a", "b", "(T)", "(type)"})
	case 6:
		return kit.Pick(r, []string{"-", "!", "^", "*", "&", "<-"}) + e()
	case 7:
		return "[]T{" + e() + ", " + e() + "}"
	case 8:
		return "map[K]V{" + e() + ": " + e() + "}"
	case 9:
		return "func(a int, b ...T) T { return " + e() + " }"
	case 10:
		return "T[" + e() + ", " + e() + "]{}"
	case 11:
		return e() + "(" + e() + "...)"
	case 12:
		return "struct{ a int }{" + e() + "}"
	case 13:
		return "func() { if " + e() + " { goto L }; L: for range " + e() + " {} }"
	case 14:
		return e() + " /* c */ + // d\n " + e()
	default:
		return "(<-chan T)(" + e() + ")"
	}
}

func forkParsesClean(src []byte, mode uint) bool {
	ok := false
	func() {
		defer func() { recover() }()
		_, err := fork.ParseFile(token.NewFileSet(), fileName, src, fork.Mode(mode))
		ok = err == nil
	}()
	return ok
}

const traceBit = 8

func pickMode(r *kit.Rand, size int) uint {
	var m uint
	switch r.Intn(10) {
	case 0, 1, 2:
		m = uint(fork.ParseComments | fork.DeclarationErrors) // what gnolang's Machine.ParseFile uses
	case 3:
		m = 0
	case 4:
		m = uint(fork.ParseComments | fork.AllErrors)
	case 5:
		m = uint(fork.SkipObjectResolution)
	default:
		m = uint(r.Intn(128))
	}
	if size > 600 {
		m &^= traceBit
	}
	return m
}

func gen(w *kit.Out, r *kit.Rand, tier string) {
	thorough := tier == "thorough"
	files := corpusFiles()
	emitScan := func(rr *kit.Rand, src []byte) {
		m := uint(0)
		if rr.Chance(75) {
			m = uint(fork.ParseComments)
		}
		if rr.Chance(30) {
			m |= uint(fork.SkipObjectResolution)
		}
		if rr.Chance(20) {
			m |= uint(fork.AllErrors)
		}
		if !forkParsesClean(src, m) {
			w.Op("file %d %s", m, kit.Hex(src))
			return
		}
		w.Op("scan %d %s %s", m, kit.Hex(src), encodeStream(scanAll(src)))
	}

	// 1. boundary table: every hand-written source under every Mode value (Trace included)
	w.Case("boundary-file")
	rb := r.Fork()
	for _, s := range boundary {
		if thorough {
			// the table is the same for every derived seed: 8 fixed modes + 16 drawn ones per source
			for _, m := range []uint{0, 4, 20, 36, 64, 1, 2, 127} {
				w.Op("file %d %s", m, kit.Hex([]byte(s)))
			}
			for i := 0; i < 16; i++ {
				w.Op("file %d %s", uint(rb.Intn(128)), kit.Hex([]byte(s)))
			}
		} else {
			for _, m := range []uint{0, 4, 20, 36, 64, 1, 2, 127, uint(rb.Intn(128))} {
				w.Op("file %d %s", m, kit.Hex([]byte(s)))
			}
		}
	}
	w.Case("boundary-expr")
	for _, s := range exprBoundary {
		for _, m := range []uint{0, 4, 64, 40, 127} {
			w.Op("expr %d %s", m, kit.Hex([]byte(s)))
		}
	}
	w.Case("boundary-cb0")
	for _, s := range []string{"package p\n", "// license\n\n// doc\npackage p\n\nvar x int\n"} {
		w.Op("cb0 4 %s %s", kit.Hex([]byte(s)), encodeStream(scanAll([]byte(s))))
	}
	w.Case("boundary-scan")
	for _, s := range boundary {
		for _, m := range []uint{0, 4} {
			if forkParsesClean([]byte(s), m) {
				w.Op("scan %d %s %s", m, kit.Hex([]byte(s)), encodeStream(scanAll([]byte(s))))
			}
		}
	}

	// 2. the repository's own sources, unmodified, then mutated
	nFiles, nMut, nSynth, nExpr, nJunk := 80, 700, 250, 400, 200
	if thorough {
		nFiles, nMut, nSynth, nExpr, nJunk = 700, 7000, 1500, 3000, 1500
	}
	rf := r.Fork()
	var picked [][]byte
	w.Case("corpus-files")
	for i := 0; i < nFiles && len(files) > 0; i++ {
		p := files[rf.Intn(len(files))]
		src, err := os.ReadFile(p)
		if err != nil || len(src) > 48<<10 {
			continue
		}
		picked = append(picked, src)
		w.Op("file %d %s", pickMode(rf, len(src)), kit.Hex(src))
		if len(src) < 12<<10 {
			emitScan(rf, src)
		}
	}
	rm := r.Fork()
	w.Case("corpus-mutations")
	for i := 0; i < nMut && len(picked) > 0; i++ {
		src := picked[rm.Intn(len(picked))]
		if len(src) > 6<<10 && !thorough || len(src) > 20<<10 {
			// keep a window of whole lines of a big file under a package clause
			lines := bytes.SplitAfter(src, []byte("\n"))
			a := rm.Intn(len(lines))
			b := a + 20 + rm.Intn(120)
			if b > len(lines) {
				b = len(lines)
			}
			src = append([]byte("package p\n"), bytes.Join(lines[a:b], nil)...)
		}
		src = mutate(rm, src)
		w.Op("file %d %s", pickMode(rm, len(src)), kit.Hex(src))
	}

	// 3. synthetic comment-heavy valid files (scan model), decorated corpus files
	rs := r.Fork()
	w.Case("synthetic-comments")
	for i := 0; i < nSynth; i++ {
		var src []byte
		if rs.Chance(70) || len(picked) == 0 {
			src = synth(rs)
		} else {
			src = picked[rs.Intn(len(picked))]
			if len(src) > 8<<10 {
				continue
			}
			for k := 1 + rs.Intn(4); k > 0; k-- {
				src = decorate(rs, src)
			}
		}
		emitScan(rs, src)
		if rs.Chance(30) {
			w.Op("file %d %s", pickMode(rs, len(src)), kit.Hex(src))
		}
	}

	// 4. expressions: structured random, then mutated
	re := r.Fork()
	w.Case("expressions")
	for i := 0; i < nExpr; i++ {
		s := []byte(synthExpr(re, 1+re.Intn(5)))
		if re.Chance(40) {
			s = mutate(re, s)
		}
		m := kit.Pick(re, []uint{0, 0, 4, 64, 32, uint(re.Intn(128))})
		w.Op("expr %d %s", m, kit.Hex(s))
	}

	// 5. malformed stream: random bytes and token soup
	rj := r.Fork()
	w.Case("malformed")
	for i := 0; i < nJunk; i++ {
		var s []byte
		switch rj.Intn(4) {
		case 0:
			s = rj.Bytes(rj.Intn(200))
		case 1:
			var b strings.Builder
			if rj.Bool() {
				b.WriteString("package p\n")
			}
			for n := rj.Intn(120); n > 0; n-- {
				b.WriteString(randToken(rj))
				b.WriteByte(" \n\t"[rj.Intn(3)])
			}
			s = []byte(b.String())
		case 2:
			// deep nesting
			n := 50 + rj.Intn(3000)
			open := kit.Pick(rj, []string{"(", "[", "{", "func(){", "[]", "*", "struct{a ", "map[", "chan "})
			s = []byte("package p\nvar _ = " + strings.Repeat(open, n))
		case 3:
			s = mutate(rj, mutate(rj, []byte(kit.Pick(rj, boundary))))
		}
		if rj.Chance(25) {
			w.Op("expr %d %s", uint(rj.Intn(128))&^traceBit, kit.Hex(s))
		} else {
			w.Op("file %d %s", pickMode(rj, len(s)), kit.Hex(s))
		}
	}
	if thorough {
		// past maxNestLev (1e5): "exceeded max nesting depth" and the bailout path, both entry points
		open := kit.Pick(rj, []string{"(", "[]", "*", "[", "{", "!"})
		w.Op("file %d %s", uint(kit.Pick(rj, []uint{0, 4, 20, 32})), kit.Hex([]byte("package p\nvar _ = "+strings.Repeat(open, 100001))))
		w.Op("expr 0 %s", kit.Hex([]byte(strings.Repeat(open, 100001))))
	}
}

func main() {
	kit.Main(&kit.Harness{Gen: gen, Exec: exec})
}
