// Copyright 2009 The Go Authors. All rights reserved.
// Use of this source code is governed by a BSD-style
// license that can be found in the LICENSE file.

// Package parser implements a parser for Go source files. Input may be
// provided in a variety of forms (see the various Parse* functions); the
// output is an abstract syntax tree (AST) representing the Go source. The
// parser is invoked through one of the Parse* functions.
//
// The parser accepts a larger language than is syntactically permitted by
// the Go spec, for simplicity, and for improved robustness in the presence
// of syntax errors. For instance, in method declarations, the receiver is
// treated like an ordinary parameter list and thus may contain multiple
// entries where the spec permits exactly one. Consequently, the corresponding
// field in the AST (ast.FuncDecl.Recv) field is not restricted to one entry.
package parser

import (
	"fmt"
	"go/ast"
	"go/build/constraint"
	"go/scanner"
	"go/token"
	"strings"
)

// The parser structure holds the parser's internal state.
type parser struct {
	file    *token.File
	errors  scanner.ErrorList
	scanner scanner.Scanner

	// Tracing/debugging
	mode   Mode // parsing mode
	trace  bool // == (mode&Trace != 0)
	indent int  // indentation used for tracing output

	// Comments
	comments    []*ast.CommentGroup
	leadComment *ast.CommentGroup // last lead comment
	lineComment *ast.CommentGroup // last line comment
	top         bool              // in top of file (before package clause)
	goVersion   string            // minimum Go version found in //go:build comment

	// Next token
	pos token.Pos   // token position
	tok token.Token // one token look-ahead
	lit string      // token literal

	// Error recovery
	// (used to limit the number of calls to parser.advance
	// w/o making scanning progress - avoids potential endless
	// loops across multiple parser functions during error recovery)
	syncPos token.Pos // last synchronization position
	syncCnt int       // number of parser.advance calls without progress

	// Non-syntactic parser control
	exprLev int  // < 0: in control clause, >= 0: in expression
	inRhs   bool // if set, the parser is parsing a rhs expression

	imports []*ast.ImportSpec // list of imports

	// nestLev is used to track and limit the recursion depth
	// during parsing.
	nestLev int
}

func (p *parser) init(file *token.File, src []byte, mode Mode) {
	p.file = file
	eh := func(pos token.Position, msg string) { p.errors.Add(pos, msg) }
	p.scanner.Init(p.file, src, eh, scanner.ScanComments)

	p.top = true
	p.mode = mode
	p.trace = mode&Trace != 0 // for convenience (p.trace is used frequently)
	p.next()
}

// ----------------------------------------------------------------------------
// Parsing support

func (p *parser) printTrace(a ...any) {
	const dots = ". . . . . . . . . . . . . . . . . . . . . . . . . . . . . . . . "
	const n = len(dots)
	pos := p.file.Position(p.pos)
	fmt.Printf("%5d:%3d: ", pos.Line, pos.Column)
	i := 2 * p.indent
	for i > n {
		fmt.Print(dots)
		i -= n
	}
	// i <= n
	fmt.Print(dots[0:i])
	fmt.Println(a...)
}

func trace(p *parser, msg string) *parser {
	p.printTrace(msg, "(")
	p.indent++
	return p
}

// Usage pattern: defer un(trace(p, "..."))
func un(p *parser) {
	p.indent--
	p.printTrace(")")
}

// maxNestLev is the deepest we're willing to recurse during parsing
const maxNestLev int = 1e5

func incNestLev(p *parser) *parser {
	p.nestLev++
	if p.nestLev > maxNestLev {
		p.error(p.pos, "exceeded max nesting depth")
		panic(bailout{})
	}
	return p
}

// decNestLev is used to track nesting depth during parsing to prevent stack exhaustion.
// It is used along with incNestLev in a similar fashion to how un and trace are used.
func decNestLev(p *parser) {
	p.nestLev--
}

// Advance to the next token.
func (p *parser) next0() {
	// Because of one-token look-ahead, print the previous token
	// when tracing as it provides a more readable output. The
	// very first token (!p.pos.IsValid()) is not initialized
	// (it is token.ILLEGAL), so don't print it.
	if p.trace && p.pos.IsValid() {
		s := p.tok.String()
		switch {
		case p.tok.IsLiteral():
			p.printTrace(s, p.lit)
		case p.tok.IsOperator(), p.tok.IsKeyword():
			p.printTrace("\"" + s + "\"")
		default:
			p.printTrace(s)
		}
	}

	for {
		p.pos, p.tok, p.lit = p.scanner.Scan()
		if p.tok == token.COMMENT {
			if p.top && strings.HasPrefix(p.lit, "//go:build") {
				if x, err := constraint.Parse(p.lit); err == nil {
					p.goVersion = constraint.GoVersion(x)
				}
			}
			if p.mode&ParseComments == 0 {
				continue
			}
		} else {
			// Found a non-comment; top of file is over.
			p.top = false
		}
		break
	}
}

// Consume a comment and return it and the line on which it ends.
func (p *parser) consumeComment() (comment *ast.Comment, endline int) {
	// /*-style comments may end on a different line than where they start.
	// Scan the comment for '\n' chars and adjust endline accordingly.
	endline = p.file.Line(p.pos)
	if p.lit[1] == '*' {
		// don't use range here - no need to decode Unicode code points
		for i := 0; i < len(p.lit); i++ {
			if p.lit[i] == '\n' {
				endline++
			}
		}
	}

	comment = &ast.Comment{Slash: p.pos, Text: p.lit}
	p.next0()

	return
}

// Consume a group of adjacent comments, add it to the parser's
// comments list, and return it together with the line at which
// the last comment in the group ends. A non-comment token or n
// empty lines terminate a comment group.
func (p *parser) consumeCommentGroup(n int) (comments *ast.CommentGroup, endline int) {
	var list []*ast.Comment
	endline = p.file.Line(p.pos)
	for p.tok == token.COMMENT && p.file.Line(p.pos) <= endline+n {
		var comment *ast.Comment
		comment, endline = p.consumeComment()
		list = append(list, comment)
	}

	// add comment group to the comments list
	comments = &ast.CommentGroup{List: list}
	p.comments = append(p.comments, comments)

	return
}

// Advance to the next non-comment token. In the process, collect
// any comment groups encountered, and remember the last lead and
// line comments.
//
// A lead comment is a comment group that starts and ends in a
// line without any other tokens and that is followed by a non-comment
// token on the line immediately after the comment group.
//
// A line comment is a comment group that follows a non-comment
// token on the same line, and that has no tokens after it on the line
// where it ends.
//
// Lead and line comments may be considered documentation that is
// stored in the AST.
func (p *parser) next() {
	p.leadComment = nil
	p.lineComment = nil
	prev := p.pos
	p.next0()

	if p.tok == token.COMMENT {
		var comment *ast.CommentGroup
		var endline int

		if p.file.Line(p.pos) == p.file.Line(prev) {
			// The comment is on same line as the previous token; it
			// cannot be a lead comment but may be a line comment.
			comment, endline = p.consumeCommentGroup(0)
			if p.file.Line(p.pos) != endline || p.tok == token.SEMICOLON || p.tok == token.EOF {
				// The next token is on a different line, thus
				// the last comment group is a line comment.
				p.lineComment = comment
			}
		}

		// consume successor comments, if any
		endline = -1
		for p.tok == token.COMMENT {
			comment, endline = p.consumeCommentGroup(1)
		}

		if endline+1 == p.file.Line(p.pos) {
			// The next token is following on the line immediately after the
			// comment group, thus the last comment group is a lead comment.
			p.leadComment = comment
		}
	}
}

// A bailout panic is raised to indicate early termination. pos and msg are
// only populated when bailing out of object resolution.
type bailout struct {
	pos token.Pos
	msg string
}

func (p *parser) error(pos token.Pos, msg string) {
	if p.trace {
		defer un(trace(p, "error: "+msg))
	}

	epos := p.file.Position(pos)

	// If AllErrors is not set, discard errors reported on the same line
	// as the last recorded error and stop parsing if there are more than
	// 10 errors.
	if p.mode&AllErrors == 0 {
		n := len(p.errors)
		if n > 0 && p.errors[n-1].Pos.Line == epos.Line {
			return // discard - likely a spurious error
		}
		if n > 10 {
			panic(bailout{})
		}
	}

	p.errors.Add(epos, msg)
}

func (p *parser) errorExpected(pos token.Pos, msg string) {
	msg = "expected " + msg
	if pos == p.pos {
		// the error happened at the current position;
		// make the error message more specific
		switch {
		case p.tok == token.SEMICOLON && p.lit == "\n":
			msg += ", found newline"
		case p.tok.IsLiteral():
			// print 123 rather than 'INT', etc.
			msg += ", found " + p.lit
		default:
			msg += ", found '" + p.tok.String() + "'"
		}
	}
	p.error(pos, msg)
}

func (p *parser) expect(tok token.Token) token.Pos {
	pos := p.pos
	if p.tok != tok {
		p.errorExpected(pos, "'"+tok.String()+"'")
	}
	p.next() // make progress
	return pos
}

// expect2 is like expect, but it returns an invalid position
// if the expected token is not found.
func (p *parser) expect2(tok token.Token) (pos token.Pos) {
	if p.tok == tok {
		pos = p.pos
	} else {
		p.errorExpected(p.pos, "'"+tok.String()+"'")
	}
	p.next() // make progress
	return
}

// expectClosing is like expect but provides a better error message
// for the common case of a missing comma before a newline.
func (p *parser) expectClosing(tok token.Token, context string) token.Pos {
	if p.tok != tok && p.tok == token.SEMICOLON && p.lit == "\n" {
		p.error(p.pos, "missing ',' before newline in "+context)
		p.next()
	}
	return p.expect(tok)
}

// expectSemi consumes a semicolon and returns the applicable line comment.
func (p *parser) expectSemi() (comment *ast.CommentGroup) {
	// semicolon is optional before a closing ')' or '}'
	if p.tok != token.RPAREN && p.tok != token.RBRACE {
		switch p.tok {
		case token.COMMA:
			// permit a ',' instead of a ';' but complain
			p.errorExpected(p.pos, "';'")
			fallthrough
		case token.SEMICOLON:
			if p.lit == ";" {
				// explicit semicolon
				p.next()
				comment = p.lineComment // use following comments
			} else {
				// artificial semicolon
				comment = p.lineComment // use preceding comments
				p.next()
			}
			return comment
		default:
			p.errorExpected(p.pos, "';'")
			p.advance(stmtStart)
		}
	}
	return nil
}

func (p *parser) atComma(context string, follow token.Token) bool {
	if p.tok == token.COMMA {
		return true
	}
	if p.tok != follow {
		msg := "missing ','"
		if p.tok == token.SEMICOLON && p.lit == "\n" {
			msg += " before newline"
		}
		p.error(p.pos, msg+" in "+context)
		return true // "insert" comma and continue
	}
	return false
}

func assert(cond bool, msg string) {
	if !cond {
		panic("go/parser internal error: " + msg)
	}
}

// advance consumes tokens until the current token p.tok
// is in the 'to' set, or token.EOF. For error recovery.
func (p *parser) advance(to map[token.Token]bool) {
	for ; p.tok != token.EOF; p.next() {
		if to[p.tok] {
			// Return only if parser made some progress since last
			// sync or if it has not reached 10 advance calls without
			// progress. Otherwise consume at least one token to
			// avoid an endless parser loop (it is possible that
			// both parseOperand and parseStmt call advance and
			// correctly do not advance, thus the need for the
			// invocation limit p.syncCnt).
			if p.pos == p.syncPos && p.syncCnt < 10 {
				p.syncCnt++
				return
			}
			if p.pos > p.syncPos {
				p.syncPos = p.pos
				p.syncCnt = 0
				return
			}
			// Reaching here indicates a parser bug, likely an
			// incorrect token list in this function, but it only
			// leads to skipping of possibly correct code if a
			// previous error is present, and thus is preferred
			// over a non-terminating parse.
		}
	}
}

var stmtStart = map[token.Token]bool{
	token.BREAK:       true,
	token.CONST:       true,
	token.CONTINUE:    true,
	token.DEFER:       true,
	token.FALLTHROUGH: true,
	token.FOR:         true,
	token.GO:          true,
	token.GOTO:        true,
	token.IF:          true,
	token.RETURN:      true,
	token.SELECT:      true,
	token.SWITCH:      true,
	token.TYPE:        true,
	token.VAR:         true,
}

var declStart = map[token.Token]bool{
	token.IMPORT: true,
	token.CONST:  true,
	token.TYPE:   true,
	token.VAR:    true,
}

var exprEnd = map[token.Token]bool{
	token.COMMA:     true,
	token.COLON:     true,
	token.SEMICOLON: true,
	token.RPAREN:    true,
	token.RBRACK:    true,
	token.RBRACE:    true,
}

// safePos returns a valid file position for a given position: If pos
// is valid to begin with, safePos returns pos. If pos is out-of-range,
// safePos returns the EOF position.
//
// This is hack to work around "artificial" end positions in the AST which
// are computed by adding 1 to (presumably valid) token positions. If the
// token positions are invalid due to parse errors, the resulting end position
// may be past the file's EOF position, which would lead to panics if used
// later on.
func (p *parser) safePos(pos token.Pos) (res token.Pos) {
	defer func() {
		if recover() != nil {
			res = token.Pos(p.file.Base() + p.file.Size()) // EOF position
		}
	}()
	_ = p.file.Offset(pos) // trigger a panic if position is out-of-range
	return pos
}

// ----------------------------------------------------------------------------
// Identifiers

func (p *parser) parseIdent() *ast.Ident {
	pos := p.pos
	name := "_"
	if p.tok == token.IDENT {
		name = p.lit
		p.next()
	} else {
		p.expect(token.IDENT) // use expect() error handling
	}
	return &ast.Ident{NamePos: pos, Name: name}
}

func (p *parser) parseIdentList() (list []*ast.Ident) {
	if p.trace {
		defer un(trace(p, "IdentList"))
	}

	list = append(list, p.parseIdent())
	for p.tok == token.COMMA {
		p.next()
		list = append(list, p.parseIdent())
	}

	return
}

// ----------------------------------------------------------------------------
// Common productions

// If lhs is set, result list elements which are identifiers are not resolved.
func (p *parser) parseExprList() (list []ast.Expr) {
	if p.trace {
		defer un(trace(p, "ExpressionList"))
	}

	list = append(list, p.parseExpr())
	for p.tok == token.COMMA {
		p.next()
		list = append(list, p.parseExpr())
	}

	return
}

func (p *parser) parseList(inRhs bool) []ast.Expr {
	old := p.inRhs
	p.inRhs = inRhs
	list := p.parseExprList()
	p.inRhs = old
	return list
}

// ----------------------------------------------------------------------------
// Types

func (p *parser) parseType() ast.Expr {
	if p.trace {
		defer un(trace(p, "Type"))
	}

	typ := p.tryIdentOrType()

	if typ == nil {
		pos := p.pos
		p.errorExpected(pos, "type")
		p.advance(exprEnd)
		return &ast.BadExpr{From: pos, To: p.pos}
	}

	return typ
}

func (p *parser) parseQualifiedIdent(ident *ast.Ident) ast.Expr {
	if p.trace {
		defer un(trace(p, "QualifiedIdent"))
	}

	typ := p.parseTypeName(ident)
	if p.tok == token.LBRACK {
		typ = p.parseTypeInstance(typ)
	}

	return typ
}

// If the result is an identifier, it is not resolved.
func (p *parser) parseTypeName(ident *ast.Ident) ast.Expr {
	if p.trace {
		defer un(trace(p, "TypeName"))
	}

	if ident == nil {
		ident = p.parseIdent()
	}

	if p.tok == token.PERIOD {
		// ident is a package name
		p.next()
		sel := p.parseIdent()
		return &ast.SelectorExpr{X: ident, Sel: sel}
	}

	return ident
}

// "[" has already been consumed, and lbrack is its position.
// If len != nil it is the already consumed array length.
func (p *parser) parseArrayType(lbrack token.Pos, len ast.Expr) *ast.ArrayType {
	if p.trace {
		defer un(trace(p, "ArrayType"))
	}

	if len == nil {
		p.exprLev++
		// always permit ellipsis for more fault-tolerant parsing
		if p.tok == token.ELLIPSIS {
			len = &ast.Ellipsis{Ellipsis: p.pos}
			p.next()
		} else if p.tok != token.RBRACK {
			len = p.parseRhs()
		}
		p.exprLev--
	}
	if p.tok == token.COMMA {
		// Trailing commas are accepted in type parameter
		// lists but not in array type declarations.
		// Accept for better error handling but complain.
		p.error(p.pos, "unexpected comma; expecting ]")
		p.next()
	}
	p.expect(token.RBRACK)
	elt := p.parseType()
	return &ast.ArrayType{Lbrack: lbrack, Len: len, Elt: elt}
}

func (p *parser) parseArrayFieldOrTypeInstance(x *ast.Ident) (*ast.Ident, ast.Expr) {
	if p.trace {
		defer un(trace(p, "ArrayFieldOrTypeInstance"))
	}

	lbrack := p.expect(token.LBRACK)
	trailingComma := token.NoPos // if valid, the position of a trailing comma preceding the ']'
	var args []ast.Expr
	if p.tok != token.RBRACK {
		p.exprLev++
		args = append(args, p.parseRhs())
		for p.tok == token.COMMA {
			comma := p.pos
			p.next()
			if p.tok == token.RBRACK {
				trailingComma = comma
				break
			}
			args = append(args, p.parseRhs())
		}
		p.exprLev--
	}
	rbrack := p.expect(token.RBRACK)

	if len(args) == 0 {
		// x []E
		elt := p.parseType()
		return x, &ast.ArrayType{Lbrack: lbrack, Elt: elt}
	}

	// x [P]E or x[P]
	if len(args) == 1 {
		elt := p.tryIdentOrType()
		if elt != nil {
			// x [P]E
			if trailingComma.IsValid() {
				// Trailing commas are invalid in array type fields.
				p.error(trailingComma, "unexpected comma; expecting ]")
			}
			return x, &ast.ArrayType{Lbrack: lbrack, Len: args[0], Elt: elt}
		}
	}

	// x[P], x[P1, P2], ...
	return nil, packIndexExpr(x, lbrack, args, rbrack)
}

func (p *parser) parseFieldDecl() *ast.Field {
	if p.trace {
		defer un(trace(p, "FieldDecl"))
	}

	doc := p.leadComment

	var names []*ast.Ident
	var typ ast.Expr
	switch p.tok {
	case token.IDENT:
		name := p.parseIdent()
		if p.tok == token.PERIOD || p.tok == token.STRING || p.tok == token.SEMICOLON || p.tok == token.RBRACE {
			// embedded type
			typ = name
			if p.tok == token.PERIOD {
				typ = p.parseQualifiedIdent(name)
			}
		} else {
			// name1, name2, ... T
			names = []*ast.Ident{name}
			for p.tok == token.COMMA {
				p.next()
				names = append(names, p.parseIdent())
			}
			// Careful dance: We don't know if we have an embedded instantiated
			// type T[P1, P2, ...] or a field T of array type []E or [P]E.
			if len(names) == 1 && p.tok == token.LBRACK {
				name, typ = p.parseArrayFieldOrTypeInstance(name)
				if name == nil {
					names = nil
				}
			} else {
				// T P
				typ = p.parseType()
			}
		}
	case token.MUL:
		star := p.pos
		p.next()
		if p.tok == token.LPAREN {
			// *(T)
			p.error(p.pos, "cannot parenthesize embedded type")
			p.next()
			typ = p.parseQualifiedIdent(nil)
			// expect closing ')' but no need to complain if missing
			if p.tok == token.RPAREN {
				p.next()
			}
		} else {
			// *T
			typ = p.parseQualifiedIdent(nil)
		}
		typ = &ast.StarExpr{Star: star, X: typ}

	case token.LPAREN:
		p.error(p.pos, "cannot parenthesize embedded type")
		p.next()
		if p.tok == token.MUL {
			// (*T)
			star := p.pos
			p.next()
			typ = &ast.StarExpr{Star: star, X: p.parseQualifiedIdent(nil)}
		} else {
			// (T)
			typ = p.parseQualifiedIdent(nil)
		}
		// expect closing ')' but no need to complain if missing
		if p.tok == token.RPAREN {
			p.next()
		}

	default:
		pos := p.pos
		p.errorExpected(pos, "field name or embedded type")
		p.advance(exprEnd)
		typ = &ast.BadExpr{From: pos, To: p.pos}
	}

	var tag *ast.BasicLit
	if p.tok == token.STRING {
		tag = &ast.BasicLit{ValuePos: p.pos, Kind: p.tok, Value: p.lit}
		p.next()
	}

	comment := p.expectSemi()

	field := &ast.Field{Doc: doc, Names: names, Type: typ, Tag: tag, Comment: comment}
	return field
}

func (p *parser) parseStructType() *ast.StructType {
	if p.trace {
		defer un(trace(p, "StructType"))
	}

	pos := p.expect(token.STRUCT)
	lbrace := p.expect(token.LBRACE)
	var list []*ast.Field
	for p.tok == token.IDENT || p.tok == token.MUL || p.tok == token.LPAREN {
		// a field declaration cannot start with a '(' but we accept
		// it here for more robust parsing and better error messages
		// (parseFieldDecl will check and complain if necessary)
		list = append(list, p.parseFieldDecl())
	}
	rbrace := p.expect(token.RBRACE)

	return &ast.StructType{
		Struct: pos,
		Fields: &ast.FieldList{
			Opening: lbrace,
			List:    list,
			Closing: rbrace,
		},
	}
}

func (p *parser) parsePointerType() *ast.StarExpr {
	if p.trace {
		defer un(trace(p, "PointerType"))
	}

	star := p.expect(token.MUL)
	base := p.parseType()

	return &ast.StarExpr{Star: star, X: base}
}

func (p *parser) parseDotsType() *ast.Ellipsis {
	if p.trace {
		defer un(trace(p, "DotsType"))
	}

	pos := p.expect(token.ELLIPSIS)
	elt := p.parseType()

	return &ast.Ellipsis{Ellipsis: pos, Elt: elt}
}

type field struct {
	name *ast.Ident
	typ  ast.Expr
}

func (p *parser) parseParamDecl(name *ast.Ident, typeSetsOK bool) (f field) {
	// TODO(rFindley) refactor to be more similar to paramDeclOrNil in the syntax
	// package
	if p.trace {
		defer un(trace(p, "ParamDecl"))
	}

	ptok := p.tok
	if name != nil {
		p.tok = token.IDENT // force token.IDENT case in switch below
	} else if typeSetsOK && p.tok == token.TILDE {
		// "~" ...
		return field{nil, p.embeddedElem(nil)}
	}

	switch p.tok {
	case token.IDENT:
		// name
		if name != nil {
			f.name = name
			p.tok = ptok
		} else {
			f.name = p.parseIdent()
		}
		switch p.tok {
		case token.IDENT, token.MUL, token.ARROW, token.FUNC, token.CHAN, token.MAP, token.STRUCT, token.INTERFACE, token.LPAREN:
			// name type
			f.typ = p.parseType()

		case token.LBRACK:
			// name "[" type1, ..., typeN "]" or name "[" n "]" type
			f.name, f.typ = p.parseArrayFieldOrTypeInstance(f.name)

		case token.ELLIPSIS:
			// name "..." type
			f.typ = p.parseDotsType()
			return // don't allow ...type "|" ...

		case token.PERIOD:
			// name "." ...
			f.typ = p.parseQualifiedIdent(f.name)
			f.name = nil

		case token.TILDE:
			if typeSetsOK {
				f.typ = p.embeddedElem(nil)
				return
			}

		case token.OR:
			if typeSetsOK {
				// name "|" typeset
				f.typ = p.embeddedElem(f.name)
				f.name = nil
				return
			}
		}

	case token.MUL, token.ARROW, token.FUNC, token.LBRACK, token.CHAN, token.MAP, token.STRUCT, token.INTERFACE, token.LPAREN:
		// type
		f.typ = p.parseType()

	case token.ELLIPSIS:
		// "..." type
		// (always accepted)
		f.typ = p.parseDotsType()
		return // don't allow ...type "|" ...

	default:
		// TODO(rfindley): this is incorrect in the case of type parameter lists
		//                 (should be "']'" in that case)
		p.errorExpected(p.pos, "')'")
		p.advance(exprEnd)
	}

	// [name] type "|"
	if typeSetsOK && p.tok == token.OR && f.typ != nil {
		f.typ = p.embeddedElem(f.typ)
	}

	return
}

func (p *parser) parseParameterList(name0 *ast.Ident, typ0 ast.Expr, closing token.Token) (params []*ast.Field) {
	if p.trace {
		defer un(trace(p, "ParameterList"))
	}

	// Type parameters are the only parameter list closed by ']'.
	tparams := closing == token.RBRACK

	pos0 := p.pos
	if name0 != nil {
		pos0 = name0.Pos()
	} else if typ0 != nil {
		pos0 = typ0.Pos()
	}

	// Note: The code below matches the corresponding code in the syntax
	//       parser closely. Changes must be reflected in either parser.
	//       For the code to match, we use the local []field list that
	//       corresponds to []syntax.Field. At the end, the list must be
	//       converted into an []*ast.Field.

	var list []field
	var named int // number of parameters that have an explicit name and type
	var typed int // number of parameters that have an explicit type

	for name0 != nil || p.tok != closing && p.tok != token.EOF {
		var par field
		if typ0 != nil {
			if tparams {
				typ0 = p.embeddedElem(typ0)
			}
			par = field{name0, typ0}
		} else {
			par = p.parseParamDecl(name0, tparams)
		}
		name0 = nil // 1st name was consumed if present
		typ0 = nil  // 1st typ was consumed if present
		if par.name != nil || par.typ != nil {
			list = append(list, par)
			if par.name != nil && par.typ != nil {
				named++
			}
			if par.typ != nil {
				typed++
			}
		}
		if !p.atComma("parameter list", closing) {
			break
		}
		p.next()
	}

	if len(list) == 0 {
		return // not uncommon
	}

	// distribute parameter types (len(list) > 0)
	if named == 0 {
		// all unnamed => found names are type names
		for i := 0; i < len(list); i++ {
			par := &list[i]
			if typ := par.name; typ != nil {
				par.typ = typ
				par.name = nil
			}
		}
		if tparams {
			// This is the same error handling as below, adjusted for type parameters only.
			// See comment below for details. (go.dev/issue/64534)
			var errPos token.Pos
			var msg string
			if named == typed /* same as typed == 0 */ {
				errPos = p.pos // position error at closing ]
				msg = "missing type constraint"
			} else {
				errPos = pos0 // position at opening [ or first name
				msg = "missing type parameter name"
				if len(list) == 1 {
					msg += " or invalid array length"
				}
			}
			p.error(errPos, msg)
		}
	} else if named != len(list) {
		// some named or we're in a type parameter list => all must be named
		var errPos token.Pos // left-most error position (or invalid)
		var typ ast.Expr     // current type (from right to left)
		for i := len(list) - 1; i >= 0; i-- {
			if par := &list[i]; par.typ != nil {
				typ = par.typ
				if par.name == nil {
					errPos = typ.Pos()
					n := ast.NewIdent("_")
					n.NamePos = errPos // correct position
					par.name = n
				}
			} else if typ != nil {
				par.typ = typ
			} else {
				// par.typ == nil && typ == nil => we only have a par.name
				errPos = par.name.Pos()
				par.typ = &ast.BadExpr{From: errPos, To: p.pos}
			}
		}
		if errPos.IsValid() {
			// Not all parameters are named because named != len(list).
			// If named == typed, there must be parameters that have no types.
			// They must be at the end of the parameter list, otherwise types
			// would have been filled in by the right-to-left sweep above and
			// there would be no error.
			// If tparams is set, the parameter list is a type parameter list.
			var msg string
			if named == typed {
				errPos = p.pos // position error at closing token ) or ]
				if tparams {
					msg = "missing type constraint"
				} else {
					msg = "missing parameter type"
				}
			} else {
				if tparams {
					msg = "missing type parameter name"
					// go.dev/issue/60812
					if len(list) == 1 {
						msg += " or invalid array length"
					}
				} else {
					msg = "missing parameter name"
				}
			}
			p.error(errPos, msg)
		}
	}

	// Convert list to []*ast.Field.
	// If list contains types only, each type gets its own ast.Field.
	if named == 0 {
		// parameter list consists of types only
		for _, par := range list {
			assert(par.typ != nil, "nil type in unnamed parameter list")
			params = append(params, &ast.Field{Type: par.typ})
		}
		return
	}

	// If the parameter list consists of named parameters with types,
	// collect all names with the same types into a single ast.Field.
	var names []*ast.Ident
	var typ ast.Expr
	addParams := func() {
		assert(typ != nil, "nil type in named parameter list")
		field := &ast.Field{Names: names, Type: typ}
		params = append(params, field)
		names = nil
	}
	for _, par := range list {
		if par.typ != typ {
			if len(names) > 0 {
				addParams()
			}
			typ = par.typ
		}
		names = append(names, par.name)
	}
	if len(names) > 0 {
		addParams()
	}
	return
}

func (p *parser) parseParameters(acceptTParams bool) (tparams, params *ast.FieldList) {
	if p.trace {
		defer un(trace(p, "Parameters"))
	}

	if acceptTParams && p.tok == token.LBRACK {
		opening := p.pos
		p.next()
		// [T any](params) syntax
		list := p.parseParameterList(nil, nil, token.RBRACK)
		rbrack := p.expect(token.RBRACK)
		tparams = &ast.FieldList{Opening: opening, List: list, Closing: rbrack}
		// Type parameter lists must not be empty.
		if tparams.NumFields() == 0 {
			p.error(tparams.Closing, "empty type parameter list")
			tparams = nil // avoid follow-on errors
		}
	}

	opening := p.expect(token.LPAREN)

	var fields []*ast.Field
	if p.tok != token.RPAREN {
		fields = p.parseParameterList(nil, nil, token.RPAREN)
	}

	rparen := p.expect(token.RPAREN)
	params = &ast.FieldList{Opening: opening, List: fields, Closing: rparen}

	return
}

func (p *parser) parseResult() *ast.FieldList {
	if p.trace {
		defer un(trace(p, "Result"))
	}

	if p.tok == token.LPAREN {
		_, results := p.parseParameters(false)
		return results
	}

	typ := p.tryIdentOrType()
	if typ != nil {
		list := make([]*ast.Field, 1)
		list[0] = &ast.Field{Type: typ}
		return &ast.FieldList{List: list}
	}

	return nil
}

func (p *parser) parseFuncType() *ast.FuncType {
	if p.trace {
		defer un(trace(p, "FuncType"))
	}

	pos := p.expect(token.FUNC)
	tparams, params := p.parseParameters(true)
	if tparams != nil {
		p.error(tparams.Pos(), "function type must have no type parameters")
	}
	results := p.parseResult()

	return &ast.FuncType{Func: pos, Params: params, Results: results}
}

func (p *parser) parseMethodSpec() *ast.Field {
	if p.trace {
		defer un(trace(p, "MethodSpec"))
	}

	doc := p.leadComment
	var idents []*ast.Ident
	var typ ast.Expr
	x := p.parseTypeName(nil)
	if ident, _ := x.(*ast.Ident); ident != nil {
		switch {
		case p.tok == token.LBRACK:
			// generic method or embedded instantiated type
			lbrack := p.pos
			p.next()
			p.exprLev++
			x := p.parseExpr()
			p.exprLev--
			if name0, _ := x.(*ast.Ident); name0 != nil && p.tok != token.COMMA && p.tok != token.RBRACK {
				// generic method m[T any]
				//
				// Interface methods do not have type parameters. We parse them for a
				// better error message and improved error recovery.
				_ = p.parseParameterList(name0, nil, token.RBRACK)
				_ = p.expect(token.RBRACK)
				p.error(lbrack, "interface method must have no type parameters")

				// TODO(rfindley) refactor to share code with parseFuncType.
				_, params := p.parseParameters(false)
				results := p.parseResult()
				idents = []*ast.Ident{ident}
				typ = &ast.FuncType{
					Func:    token.NoPos,
					Params:  params,
					Results: results,
				}
			} else {
				// embedded instantiated type
				// TODO(rfindley) should resolve all identifiers in x.
				list := []ast.Expr{x}
				if p.atComma("type argument list", token.RBRACK) {
					p.exprLev++
					p.next()
					for p.tok != token.RBRACK && p.tok != token.EOF {
						list = append(list, p.parseType())
						if !p.atComma("type argument list", token.RBRACK) {
							break
						}
						p.next()
					}
					p.exprLev--
				}
				rbrack := p.expectClosing(token.RBRACK, "type argument list")
				typ = packIndexExpr(ident, lbrack, list, rbrack)
			}
		case p.tok == token.LPAREN:
			// ordinary method
			// TODO(rfindley) refactor to share code with parseFuncType.
			_, params := p.parseParameters(false)
			results := p.parseResult()
			idents = []*ast.Ident{ident}
			typ = &ast.FuncType{Func: token.NoPos, Params: params, Results: results}
		default:
			// embedded type
			typ = x
		}
	} else {
		// embedded, possibly instantiated type
		typ = x
		if p.tok == token.LBRACK {
			// embedded instantiated interface
			typ = p.parseTypeInstance(typ)
		}
	}

	// Comment is added at the callsite: the field below may joined with
	// additional type specs using '|'.
	// TODO(rfindley) this should be refactored.
	// TODO(rfindley) add more tests for comment handling.
	return &ast.Field{Doc: doc, Names: idents, Type: typ}
}

func (p *parser) embeddedElem(x ast.Expr) ast.Expr {
	if p.trace {
		defer un(trace(p, "EmbeddedElem"))
	}
	if x == nil {
		x = p.embeddedTerm()
	}
	for p.tok == token.OR {
		t := new(ast.BinaryExpr)
		t.OpPos = p.pos
		t.Op = token.OR
		p.next()
		t.X = x
		t.Y = p.embeddedTerm()
		x = t
	}
	return x
}

func (p *parser) embeddedTerm() ast.Expr {
	if p.trace {
		defer un(trace(p, "EmbeddedTerm"))
	}
	if p.tok == token.TILDE {
		t := new(ast.UnaryExpr)
		t.OpPos = p.pos
		t.Op = token.TILDE
		p.next()
		t.X = p.parseType()
		return t
	}

	t := p.tryIdentOrType()
	if t == nil {
		pos := p.pos
		p.errorExpected(pos, "~ term or type")
		p.advance(exprEnd)
		return &ast.BadExpr{From: pos, To: p.pos}
	}

	return t
}

func (p *parser) parseInterfaceType() *ast.InterfaceType {
	if p.trace {
		defer un(trace(p, "InterfaceType"))
	}

	pos := p.expect(token.INTERFACE)
	lbrace := p.expect(token.LBRACE)

	var list []*ast.Field

parseElements:
	for {
		switch {
		case p.tok == token.IDENT:
			f := p.parseMethodSpec()
			if f.Names == nil {
				f.Type = p.embeddedElem(f.Type)
			}
			f.Comment = p.expectSemi()
			list = append(list, f)
		case p.tok == token.TILDE:
			typ := p.embeddedElem(nil)
			comment := p.expectSemi()
			list = append(list, &ast.Field{Type: typ, Comment: comment})
		default:
			if t := p.tryIdentOrType(); t != nil {
				typ := p.embeddedElem(t)
				comment := p.expectSemi()
				list = append(list, &ast.Field{Type: typ, Comment: comment})
			} else {
				break parseElements
			}
		}
	}

	// TODO(rfindley): the error produced here could be improved, since we could
	// accept an identifier, 'type', or a '}' at this point.
	rbrace := p.expect(token.RBRACE)

	return &ast.InterfaceType{
		Interface: pos,
		Methods: &ast.FieldList{
			Opening: lbrace,
			List:    list,
			Closing: rbrace,
		},
	}
}

func (p *parser) parseMapType() *ast.MapType {
	if p.trace {
		defer un(trace(p, "MapType"))
	}

	pos := p.expect(token.MAP)
	p.expect(token.LBRACK)
	key := p.parseType()
	p.expect(token.RBRACK)
	value := p.parseType()

	return &ast.MapType{Map: pos, Key: key, Value: value}
}

func (p *parser) parseChanType() *ast.ChanType {
	if p.trace {
		defer un(trace(p, "ChanType"))
	}

	pos := p.pos
	dir := ast.SEND | ast.RECV
	var arrow token.Pos
	if p.tok == token.CHAN {
		p.next()
		if p.tok == token.ARROW {
			arrow = p.pos
			p.next()
			dir = ast.SEND
		}
	} else {
		arrow = p.expect(token.ARROW)
		p.expect(token.CHAN)
		dir = ast.RECV
	}
	value := p.parseType()

	return &ast.ChanType{Begin: pos, Arrow: arrow, Dir: dir, Value: value}
}

func (p *parser) parseTypeInstance(typ ast.Expr) ast.Expr {
	if p.trace {
		defer un(trace(p, "TypeInstance"))
	}

	opening := p.expect(token.LBRACK)
	p.exprLev++
	var list []ast.Expr
	for p.tok != token.RBRACK && p.tok != token.EOF {
		list = append(list, p.parseType())
		if !p.atComma("type argument list", token.RBRACK) {
			break
		}
		p.next()
	}
	p.exprLev--

	closing := p.expectClosing(token.RBRACK, "type argument list")

	if len(list) == 0 {
		p.errorExpected(closing, "type argument list")
		return &ast.IndexExpr{
			X:      typ,
			Lbrack: opening,
			Index:  &ast.BadExpr{From: opening + 1, To: closing},
			Rbrack: closing,
		}
	}

	return packIndexExpr(typ, opening, list, closing)
}

func (p *parser) tryIdentOrType() ast.Expr {
	defer decNestLev(incNestLev(p))

	switch p.tok {
	case token.IDENT:
		typ := p.parseTypeName(nil)
		if p.tok == token.LBRACK {
			typ = p.parseTypeInstance(typ)
		}
		return typ
	case token.LBRACK:
		lbrack := p.expect(token.LBRACK)
		return p.parseArrayType(lbrack, nil)
	case token.STRUCT:
		return p.parseStructType()
	case token.MUL:
		return p.parsePointerType()
	case token.FUNC:
		return p.parseFuncType()
	case token.INTERFACE:
		return p.parseInterfaceType()
	case token.MAP:
		return p.parseMapType()
	case token.CHAN, token.ARROW:
		return p.parseChanType()
	case token.LPAREN:
		lparen := p.pos
		p.next()
		typ := p.parseType()
		rparen := p.expect(token.RPAREN)
		return &ast.ParenExpr{Lparen: lparen, X: typ, Rparen: rparen}
	}

	// no type found
	return nil
}

// ----------------------------------------------------------------------------
// Blocks

func (p *parser) parseStmtList() (list []ast.Stmt) {
	if p.trace {
		defer un(trace(p, "StatementList"))
	}

	for p.tok != token.CASE && p.tok != token.DEFAULT && p.tok != token.RBRACE && p.tok != token.EOF {
		list = append(list, p.parseStmt())
	}

	return
}

func (p *parser) parseBody() *ast.BlockStmt {
	if p.trace {
		defer un(trace(p, "Body"))
	}

	lbrace := p.expect(token.LBRACE)
	list := p.parseStmtList()
	rbrace := p.expect2(token.RBRACE)

	return &ast.BlockStmt{Lbrace: lbrace, List: list, Rbrace: rbrace}
}

func (p *parser) parseBlockStmt() *ast.BlockStmt {
	if p.trace {
		defer un(trace(p, "BlockStmt"))
	}

	lbrace := p.expect(token.LBRACE)
	list := p.parseStmtList()
	rbrace := p.expect2(token.RBRACE)

	return &ast.BlockStmt{Lbrace: lbrace, List: list, Rbrace: rbrace}
}

// ----------------------------------------------------------------------------
// Expressions

func (p *parser) parseFuncTypeOrLit() ast.Expr {
	if p.trace {
		defer un(trace(p, "FuncTypeOrLit"))
	}

	typ := p.parseFuncType()
	if p.tok != token.LBRACE {
		// function type only
		return typ
	}

	p.exprLev++
	body := p.parseBody()
	p.exprLev--

	return &ast.FuncLit{Type: typ, Body: body}
}

// parseOperand may return an expression or a raw type (incl. array
// types of the form [...]T). Callers must verify the result.
func (p *parser) parseOperand() ast.Expr {
	if p.trace {
		defer un(trace(p, "Operand"))
	}

	switch p.tok {
	case token.IDENT:
		x := p.parseIdent()
		return x

	case token.INT, token.FLOAT, token.IMAG, token.CHAR, token.STRING:
		x := &ast.BasicLit{ValuePos: p.pos, Kind: p.tok, Value: p.lit}
		p.next()
		return x

	case token.LPAREN:
		lparen := p.pos
		p.next()
		p.exprLev++
		x := p.parseRhs() // types may be parenthesized: (some type)
		p.exprLev--
		rparen := p.expect(token.RPAREN)
		return &ast.ParenExpr{Lparen: lparen, X: x, Rparen: rparen}

	case token.FUNC:
		return p.parseFuncTypeOrLit()
	}

	if typ := p.tryIdentOrType(); typ != nil { // do not consume trailing type parameters
		// could be type for composite literal or conversion
		_, isIdent := typ.(*ast.Ident)
		assert(!isIdent, "type cannot be identifier")
		return typ
	}

	// we have an error
	pos := p.pos
	p.errorExpected(pos, "operand")
	p.advance(stmtStart)
	return &ast.BadExpr{From: pos, To: p.pos}
}

func (p *parser) parseSelector(x ast.Expr) ast.Expr {
	if p.trace {
		defer un(trace(p, "Selector"))
	}

	sel := p.parseIdent()

	return &ast.SelectorExpr{X: x, Sel: sel}
}

func (p *parser) parseTypeAssertion(x ast.Expr) ast.Expr {
	if p.trace {
		defer un(trace(p, "TypeAssertion"))
	}

	lparen := p.expect(token.LPAREN)
	var typ ast.Expr
	if p.tok == token.TYPE {
		// type switch: typ == nil
		p.next()
	} else {
		typ = p.parseType()
	}
	rparen := p.expect(token.RPAREN)

	return &ast.TypeAssertExpr{X: x, Type: typ, Lparen: lparen, Rparen: rparen}
}

func (p *parser) parseIndexOrSliceOrInstance(x ast.Expr) ast.Expr {
	if p.trace {
		defer un(trace(p, "parseIndexOrSliceOrInstance"))
	}

	lbrack := p.expect(token.LBRACK)
	if p.tok == token.RBRACK {
		// empty index, slice or index expressions are not permitted;
		// accept them for parsing tolerance, but complain
		p.errorExpected(p.pos, "operand")
		rbrack := p.pos
		p.next()
		return &ast.IndexExpr{
			X:      x,
			Lbrack: lbrack,
			Index:  &ast.BadExpr{From: rbrack, To: rbrack},
			Rbrack: rbrack,
		}
	}
	p.exprLev++

	const N = 3 // change the 3 to 2 to disable 3-index slices
	var args []ast.Expr
	var index [N]ast.Expr
	var colons [N - 1]token.Pos
	if p.tok != token.COLON {
		// We can't know if we have an index expression or a type instantiation;
		// so even if we see a (named) type we are not going to be in type context.
		index[0] = p.parseRhs()
	}
	ncolons := 0
	switch p.tok {
	case token.COLON:
		// slice expression
		for p.tok == token.COLON && ncolons < len(colons) {
			colons[ncolons] = p.pos
			ncolons++
			p.next()
			if p.tok != token.COLON && p.tok != token.RBRACK && p.tok != token.EOF {
				index[ncolons] = p.parseRhs()
			}
		}
	case token.COMMA:
		// instance expression
		args = append(args, index[0])
		for p.tok == token.COMMA {
			p.next()
			if p.tok != token.RBRACK && p.tok != token.EOF {
				args = append(args, p.parseType())
			}
		}
	}

	p.exprLev--
	rbrack := p.expect(token.RBRACK)

	if ncolons > 0 {
		// slice expression
		slice3 := false
		if ncolons == 2 {
			slice3 = true
			// Check presence of middle and final index here rather than during type-checking
			// to prevent erroneous programs from passing through gofmt (was go.dev/issue/7305).
			if index[1] == nil {
				p.error(colons[0], "middle index required in 3-index slice")
				index[1] = &ast.BadExpr{From: colons[0] + 1, To: colons[1]}
			}
			if index[2] == nil {
				p.error(colons[1], "final index required in 3-index slice")
				index[2] = &ast.BadExpr{From: colons[1] + 1, To: rbrack}
			}
		}
		return &ast.SliceExpr{X: x, Lbrack: lbrack, Low: index[0], High: index[1], Max: index[2], Slice3: slice3, Rbrack: rbrack}
	}

	if len(args) == 0 {
		// index expression
		return &ast.IndexExpr{X: x, Lbrack: lbrack, Index: index[0], Rbrack: rbrack}
	}

	// instance expression
	return packIndexExpr(x, lbrack, args, rbrack)
}

func (p *parser) parseCallOrConversion(fun ast.Expr) *ast.CallExpr {
	if p.trace {
		defer un(trace(p, "CallOrConversion"))
	}

	lparen := p.expect(token.LPAREN)
	p.exprLev++
	var list []ast.Expr
	var ellipsis token.Pos
	for p.tok != token.RPAREN && p.tok != token.EOF && !ellipsis.IsValid() {
		list = append(list, p.parseRhs()) // builtins may expect a type: make(some type, ...)
		if p.tok == token.ELLIPSIS {
			ellipsis = p.pos
			p.next()
		}
		if !p.atComma("argument list", token.RPAREN) {
			break
		}
		p.next()
	}
	p.exprLev--
	rparen := p.expectClosing(token.RPAREN, "argument list")

	return &ast.CallExpr{Fun: fun, Lparen: lparen, Args: list, Ellipsis: ellipsis, Rparen: rparen}
}

func (p *parser) parseValue() ast.Expr {
	if p.trace {
		defer un(trace(p, "Element"))
	}

	if p.tok == token.LBRACE {
		return p.parseLiteralValue(nil)
	}

	x := p.parseExpr()

	return x
}

func (p *parser) parseElement() ast.Expr {
	if p.trace {
		defer un(trace(p, "Element"))
	}

	x := p.parseValue()
	if p.tok == token.COLON {
		colon := p.pos
		p.next()
		x = &ast.KeyValueExpr{Key: x, Colon: colon, Value: p.parseValue()}
	}

	return x
}

func (p *parser) parseElementList() (list []ast.Expr) {
	if p.trace {
		defer un(trace(p, "ElementList"))
	}

	for p.tok != token.RBRACE && p.tok != token.EOF {
		list = append(list, p.parseElement())
		if !p.atComma("composite literal", token.RBRACE) {
			break
		}
		p.next()
	}

	return
}

func (p *parser) parseLiteralValue(typ ast.Expr) ast.Expr {
	defer decNestLev(incNestLev(p))

	if p.trace {
		defer un(trace(p, "LiteralValue"))
	}

	lbrace := p.expect(token.LBRACE)
	var elts []ast.Expr
	p.exprLev++
	if p.tok != token.RBRACE {
		elts = p.parseElementList()
	}
	p.exprLev--
	rbrace := p.expectClosing(token.RBRACE, "composite literal")
	return &ast.CompositeLit{Type: typ, Lbrace: lbrace, Elts: elts, Rbrace: rbrace}
}

func (p *parser) parsePrimaryExpr(x ast.Expr) ast.Expr {
	if p.trace {
		defer un(trace(p, "PrimaryExpr"))
	}

	if x == nil {
		x = p.parseOperand()
	}
	// We track the nesting here rather than at the entry for the function,
	// since it can iteratively produce a nested output, and we want to
	// limit how deep a structure we generate.
	var n int
	defer func() { p.nestLev -= n }()
	for n = 1; ; n++ {
		incNestLev(p)
		switch p.tok {
		case token.PERIOD:
			p.next()
			switch p.tok {
			case token.IDENT:
				x = p.parseSelector(x)
			case token.LPAREN:
				x = p.parseTypeAssertion(x)
			default:
				pos := p.pos
				p.errorExpected(pos, "selector or type assertion")
				// TODO(rFindley) The check for token.RBRACE below is a targeted fix
				//                to error recovery sufficient to make the x/tools tests to
				//                pass with the new parsing logic introduced for type
				//                parameters. Remove this once error recovery has been
				//                more generally reconsidered.
				if p.tok != token.RBRACE {
					p.next() // make progress
				}
				sel := &ast.Ident{NamePos: pos, Name: "_"}
				x = &ast.SelectorExpr{X: x, Sel: sel}
			}
		case token.LBRACK:
			x = p.parseIndexOrSliceOrInstance(x)
		case token.LPAREN:
			x = p.parseCallOrConversion(x)
		case token.LBRACE:
			// operand may have returned a parenthesized complit
			// type; accept it but complain if we have a complit
			t := ast.Unparen(x)
			// determine if '{' belongs to a composite literal or a block statement
			switch t.(type) {
			case *ast.BadExpr, *ast.Ident, *ast.SelectorExpr:
				if p.exprLev < 0 {
					return x
				}
				// x is possibly a composite literal type
			case *ast.IndexExpr, *ast.IndexListExpr:
				if p.exprLev < 0 {
					return x
				}
				// x is possibly a composite literal type
			case *ast.ArrayType, *ast.StructType, *ast.MapType:
				// x is a composite literal type
			default:
				return x
			}
			if t != x {
				p.error(t.Pos(), "cannot parenthesize type in composite literal")
				// already progressed, no need to advance
			}
			x = p.parseLiteralValue(x)
		default:
			return x
		}
	}
}

func (p *parser) parseUnaryExpr() ast.Expr {
	defer decNestLev(incNestLev(p))

	if p.trace {
		defer un(trace(p, "UnaryExpr"))
	}

	switch p.tok {
	case token.ADD, token.SUB, token.NOT, token.XOR, token.AND, token.TILDE:
		pos, op := p.pos, p.tok
		p.next()
		x := p.parseUnaryExpr()
		return &ast.UnaryExpr{OpPos: pos, Op: op, X: x}

	case token.ARROW:
		// channel type or receive expression
		arrow := p.pos
		p.next()

		// If the next token is token.CHAN we still don't know if it
		// is a channel type or a receive operation - we only know
		// once we have found the end of the unary expression. There
		// are two cases:
		//
		//   <- type  => (<-type) must be channel type
		//   <- expr  => <-(expr) is a receive from an expression
		//
		// In the first case, the arrow must be re-associated with
		// the channel type parsed already:
		//
		//   <- (chan type)    =>  (<-chan type)
		//   <- (chan<- type)  =>  (<-chan (<-type))

		x := p.parseUnaryExpr()

		// determine which case we have
		if typ, ok := x.(*ast.ChanType); ok {
			// (<-type)

			// re-associate position info and <-
			dir := ast.SEND
			for ok && dir == ast.SEND {
				if typ.Dir == ast.RECV {
					// error: (<-type) is (<-(<-chan T))
					p.errorExpected(typ.Arrow, "'chan'")
				}
				arrow, typ.Begin, typ.Arrow = typ.Arrow, arrow, arrow
				dir, typ.Dir = typ.Dir, ast.RECV
				typ, ok = typ.Value.(*ast.ChanType)
			}
			if dir == ast.SEND {
				p.errorExpected(arrow, "channel type")
			}

			return x
		}

		// <-(expr)
		return &ast.UnaryExpr{OpPos: arrow, Op: token.ARROW, X: x}

	case token.MUL:
		// pointer type or unary "*" expression
		pos := p.pos
		p.next()
		x := p.parseUnaryExpr()
		return &ast.StarExpr{Star: pos, X: x}
	}

	return p.parsePrimaryExpr(nil)
}

func (p *parser) tokPrec() (token.Token, int) {
	tok := p.tok
	if p.inRhs && tok == token.ASSIGN {
		tok = token.EQL
	}
	return tok, tok.Precedence()
}

// parseBinaryExpr parses a (possibly) binary expression.
// If x is non-nil, it is used as the left operand.
//
// TODO(rfindley): parseBinaryExpr has become overloaded. Consider refactoring.
func (p *parser) parseBinaryExpr(x ast.Expr, prec1 int) ast.Expr {
	if p.trace {
		defer un(trace(p, "BinaryExpr"))
	}

	if x == nil {
		x = p.parseUnaryExpr()
	}
	// We track the nesting here rather than at the entry for the function,
	// since it can iteratively produce a nested output, and we want to
	// limit how deep a structure we generate.
	var n int
	defer func() { p.nestLev -= n }()
	for n = 1; ; n++ {
		incNestLev(p)
		op, oprec := p.tokPrec()
		if oprec < prec1 {
			return x
		}
		pos := p.expect(op)
		y := p.parseBinaryExpr(nil, oprec+1)
		x = &ast.BinaryExpr{X: x, OpPos: pos, Op: op, Y: y}
	}
}

// The result may be a type or even a raw type ([...]int).
func (p *parser) parseExpr() ast.Expr {
	if p.trace {
		defer un(trace(p, "Expression"))
	}

	return p.parseBinaryExpr(nil, token.LowestPrec+1)
}

func (p *parser) parseRhs() ast.Expr {
	old := p.inRhs
	p.inRhs = true
	x := p.parseExpr()
	p.inRhs = old
	return x
}

// ----------------------------------------------------------------------------
// Statements

// Parsing modes for parseSimpleStmt.
const (
	basic = iota
	labelOk
	rangeOk
)

// parseSimpleStmt returns true as 2nd result if it parsed the assignment
// of a range clause (with mode == rangeOk). The returned statement is an
// assignment with a right-hand side that is a single unary expression of
// the form "range x". No guarantees are given for the left-hand side.
func (p *parser) parseSimpleStmt(mode int) (ast.Stmt, bool) {
	if p.trace {
		defer un(trace(p, "SimpleStmt"))
	}

	x := p.parseList(false)

	switch p.tok {
	case
		token.DEFINE, token.ASSIGN, token.ADD_ASSIGN,
		token.SUB_ASSIGN, token.MUL_ASSIGN, token.QUO_ASSIGN,
		token.REM_ASSIGN, token.AND_ASSIGN, token.OR_ASSIGN,
		token.XOR_ASSIGN, token.SHL_ASSIGN, token.SHR_ASSIGN, token.AND_NOT_ASSIGN:
		// assignment statement, possibly part of a range clause
		pos, tok := p.pos, p.tok
		p.next()
		var y []ast.Expr
		isRange := false
		if mode == rangeOk && p.tok == token.RANGE && (tok == token.DEFINE || tok == token.ASSIGN) {
			pos := p.pos
			p.next()
			y = []ast.Expr{&ast.UnaryExpr{OpPos: pos, Op: token.RANGE, X: p.parseRhs()}}
			isRange = true
		} else {
			y = p.parseList(true)
		}
		return &ast.AssignStmt{Lhs: x, TokPos: pos, Tok: tok, Rhs: y}, isRange
	}

	if len(x) > 1 {
		p.errorExpected(x[0].Pos(), "1 expression")
		// continue with first expression
	}

	switch p.tok {
	case token.COLON:
		// labeled statement
		colon := p.pos
		p.next()
		if label, isIdent := x[0].(*ast.Ident); mode == labelOk && isIdent {
			// Go spec: The scope of a label is the body of the function
			// in which it is declared and excludes the body of any nested
			// function.
			stmt := &ast.LabeledStmt{Label: label, Colon: colon, Stmt: p.parseStmt()}
			return stmt, false
		}
		// The label declaration typically starts at x[0].Pos(), but the label
		// declaration may be erroneous due to a token after that position (and
		// before the ':'). If SpuriousErrors is not set, the (only) error
		// reported for the line is the illegal label error instead of the token
		// before the ':' that caused the problem. Thus, use the (latest) colon
		// position for error reporting.
		p.error(colon, "illegal label declaration")
		return &ast.BadStmt{From: x[0].Pos(), To: colon + 1}, false

	case token.ARROW:
		// send statement
		arrow := p.pos
		p.next()
		y := p.parseRhs()
		return &ast.SendStmt{Chan: x[0], Arrow: arrow, Value: y}, false

	case token.INC, token.DEC:
		// increment or decrement
		s := &ast.IncDecStmt{X: x[0], TokPos: p.pos, Tok: p.tok}
		p.next()
		return s, false
	}

	// expression
	return &ast.ExprStmt{X: x[0]}, false
}

func (p *parser) parseCallExpr(callType string) *ast.CallExpr {
	x := p.parseRhs() // could be a conversion: (some type)(x)
	if t := ast.Unparen(x); t != x {
		p.error(x.Pos(), fmt.Sprintf("expression in %s must not be parenthesized", callType))
		x = t
	}
	if call, isCall := x.(*ast.CallExpr); isCall {
		return call
	}
	if _, isBad := x.(*ast.BadExpr); !isBad {
		// only report error if it's a new one
		p.error(p.safePos(x.End()), fmt.Sprintf("expression in %s must be function call", callType))
	}
	return nil
}

func (p *parser) parseGoStmt() ast.Stmt {
	if p.trace {
		defer un(trace(p, "GoStmt"))
	}

	pos := p.expect(token.GO)
	call := p.parseCallExpr("go")
	p.expectSemi()
	if call == nil {
		return &ast.BadStmt{From: pos, To: pos + 2} // len("go")
	}

	return &ast.GoStmt{Go: pos, Call: call}
}

func (p *parser) parseDeferStmt() ast.Stmt {
	if p.trace {
		defer un(trace(p, "DeferStmt"))
	}

	pos := p.expect(token.DEFER)
	call := p.parseCallExpr("defer")
	p.expectSemi()
	if call == nil {
		return &ast.BadStmt{From: pos, To: pos + 5} // len("defer")
	}

	return &ast.DeferStmt{Defer: pos, Call: call}
}

func (p *parser) parseReturnStmt() *ast.ReturnStmt {
	if p.trace {
		defer un(trace(p, "ReturnStmt"))
	}

	pos := p.pos
	p.expect(token.RETURN)
	var x []ast.Expr
	if p.tok != token.SEMICOLON && p.tok != token.RBRACE {
		x = p.parseList(true)
	}
	p.expectSemi()

	return &ast.ReturnStmt{Return: pos, Results: x}
}

func (p *parser) parseBranchStmt(tok token.Token) *ast.BranchStmt {
	if p.trace {
		defer un(trace(p, "BranchStmt"))
	}

	pos := p.expect(tok)
	var label *ast.Ident
	if tok != token.FALLTHROUGH && p.tok == token.IDENT {
		label = p.parseIdent()
	}
	p.expectSemi()

	return &ast.BranchStmt{TokPos: pos, Tok: tok, Label: label}
}

func (p *parser) makeExpr(s ast.Stmt, want string) ast.Expr {
	if s == nil {
		return nil
	}
	if es, isExpr := s.(*ast.ExprStmt); isExpr {
		return es.X
	}
	found := "simple statement"
	if _, isAss := s.(*ast.AssignStmt); isAss {
		found = "assignment"
	}
	p.error(s.Pos(), fmt.Sprintf("expected %s, found %s (missing parentheses around composite literal?)", want, found))
	return &ast.BadExpr{From: s.Pos(), To: p.safePos(s.End())}
}

// parseIfHeader is an adjusted version of parser.header
// in cmd/compile/internal/syntax/parser.go, which has
// been tuned for better error handling.
func (p *parser) parseIfHeader() (init ast.Stmt, cond ast.Expr) {
	if p.tok == token.LBRACE {
		p.error(p.pos, "missing condition in if statement")
		cond = &ast.BadExpr{From: p.pos, To: p.pos}
		return
	}
	// p.tok != token.LBRACE

	prevLev := p.exprLev
	p.exprLev = -1

	if p.tok != token.SEMICOLON {
		// accept potential variable declaration but complain
		if p.tok == token.VAR {
			p.next()
			p.error(p.pos, "var declaration not allowed in if initializer")
		}
		init, _ = p.parseSimpleStmt(basic)
	}

	var condStmt ast.Stmt
	var semi struct {
		pos token.Pos
		lit string // ";" or "\n"; valid if pos.IsValid()
	}
	if p.tok != token.LBRACE {
		if p.tok == token.SEMICOLON {
			semi.pos = p.pos
			semi.lit = p.lit
			p.next()
		} else {
			p.expect(token.SEMICOLON)
		}
		if p.tok != token.LBRACE {
			condStmt, _ = p.parseSimpleStmt(basic)
		}
	} else {
		condStmt = init
		init = nil
	}

	if condStmt != nil {
		cond = p.makeExpr(condStmt, "boolean expression")
	} else if semi.pos.IsValid() {
		if semi.lit == "\n" {
			p.error(semi.pos, "unexpected newline, expecting { after if clause")
		} else {
			p.error(semi.pos, "missing condition in if statement")
		}
	}

	// make sure we have a valid AST
	if cond == nil {
		cond = &ast.BadExpr{From: p.pos, To: p.pos}
	}

	p.exprLev = prevLev
	return
}

func (p *parser) parseIfStmt() *ast.IfStmt {
	defer decNestLev(incNestLev(p))

	if p.trace {
		defer un(trace(p, "IfStmt"))
	}

	pos := p.expect(token.IF)

	init, cond := p.parseIfHeader()
	body := p.parseBlockStmt()

	var else_ ast.Stmt
	if p.tok == token.ELSE {
		p.next()
		switch p.tok {
		case token.IF:
			else_ = p.parseIfStmt()
		case token.LBRACE:
			else_ = p.parseBlockStmt()
			p.expectSemi()
		default:
			p.errorExpected(p.pos, "if statement or block")
			else_ = &ast.BadStmt{From: p.pos, To: p.pos}
		}
	} else {
		p.expectSemi()
	}

	return &ast.IfStmt{If: pos, Init: init, Cond: cond, Body: body, Else: else_}
}

func (p *parser) parseCaseClause() *ast.CaseClause {
	if p.trace {
		defer un(trace(p, "CaseClause"))
	}

	pos := p.pos
	var list []ast.Expr
	if p.tok == token.CASE {
		p.next()
		list = p.parseList(true)
	} else {
		p.expect(token.DEFAULT)
	}

	colon := p.expect(token.COLON)
	body := p.parseStmtList()

	return &ast.CaseClause{Case: pos, List: list, Colon: colon, Body: body}
}

func isTypeSwitchAssert(x ast.Expr) bool {
	a, ok := x.(*ast.TypeAssertExpr)
	return ok && a.Type == nil
}

func (p *parser) isTypeSwitchGuard(s ast.Stmt) bool {
	switch t := s.(type) {
	case *ast.ExprStmt:
		// x.(type)
		return isTypeSwitchAssert(t.X)
	case *ast.AssignStmt:
		// v := x.(type)
		if len(t.Lhs) == 1 && len(t.Rhs) == 1 && isTypeSwitchAssert(t.Rhs[0]) {
			switch t.Tok {
			case token.ASSIGN:
				// permit v = x.(type) but complain
				p.error(t.TokPos, "expected ':=', found '='")
				fallthrough
			case token.DEFINE:
				return true
			}
		}
	}
	return false
}

func (p *parser) parseSwitchStmt() ast.Stmt {
	if p.trace {
		defer un(trace(p, "SwitchStmt"))
	}

	pos := p.expect(token.SWITCH)

	var s1, s2 ast.Stmt
	if p.tok != token.LBRACE {
		prevLev := p.exprLev
		p.exprLev = -1
		if p.tok != token.SEMICOLON {
			s2, _ = p.parseSimpleStmt(basic)
		}
		if p.tok == token.SEMICOLON {
			p.next()
			s1 = s2
			s2 = nil
			if p.tok != token.LBRACE {
				// A TypeSwitchGuard may declare a variable in addition
				// to the variable declared in the initial SimpleStmt.
				// Introduce extra scope to avoid redeclaration errors:
				//
				//	switch t := 0; t := x.(T) { ... }
				//
				// (this code is not valid Go because the first t
				// cannot be accessed and thus is never used, the extra
				// scope is needed for the correct error message).
				//
				// If we don't have a type switch, s2 must be an expression.
				// Having the extra nested but empty scope won't affect it.
				s2, _ = p.parseSimpleStmt(basic)
			}
		}
		p.exprLev = prevLev
	}

	typeSwitch := p.isTypeSwitchGuard(s2)
	lbrace := p.expect(token.LBRACE)
	var list []ast.Stmt
	for p.tok == token.CASE || p.tok == token.DEFAULT {
		list = append(list, p.parseCaseClause())
	}
	rbrace := p.expect(token.RBRACE)
	p.expectSemi()
	body := &ast.BlockStmt{Lbrace: lbrace, List: list, Rbrace: rbrace}

	if typeSwitch {
		return &ast.TypeSwitchStmt{Switch: pos, Init: s1, Assign: s2, Body: body}
	}

	return &ast.SwitchStmt{Switch: pos, Init: s1, Tag: p.makeExpr(s2, "switch expression"), Body: body}
}

func (p *parser) parseCommClause() *ast.CommClause {
	if p.trace {
		defer un(trace(p, "CommClause"))
	}

	pos := p.pos
	var comm ast.Stmt
	if p.tok == token.CASE {
		p.next()
		lhs := p.parseList(false)
		if p.tok == token.ARROW {
			// SendStmt
			if len(lhs) > 1 {
				p.errorExpected(lhs[0].Pos(), "1 expression")
				// continue with first expression
			}
			arrow := p.pos
			p.next()
			rhs := p.parseRhs()
			comm = &ast.SendStmt{Chan: lhs[0], Arrow: arrow, Value: rhs}
		} else {
			// RecvStmt
			if tok := p.tok; tok == token.ASSIGN || tok == token.DEFINE {
				// RecvStmt with assignment
				if len(lhs) > 2 {
					p.errorExpected(lhs[0].Pos(), "1 or 2 expressions")
					// continue with first two expressions
					lhs = lhs[0:2]
				}
				pos := p.pos
				p.next()
				rhs := p.parseRhs()
				comm = &ast.AssignStmt{Lhs: lhs, TokPos: pos, Tok: tok, Rhs: []ast.Expr{rhs}}
			} else {
				// lhs must be single receive operation
				if len(lhs) > 1 {
					p.errorExpected(lhs[0].Pos(), "1 expression")
					// continue with first expression
				}
				comm = &ast.ExprStmt{X: lhs[0]}
			}
		}
	} else {
		p.expect(token.DEFAULT)
	}

	colon := p.expect(token.COLON)
	body := p.parseStmtList()

	return &ast.CommClause{Case: pos, Comm: comm, Colon: colon, Body: body}
}

func (p *parser) parseSelectStmt() *ast.SelectStmt {
	if p.trace {
		defer un(trace(p, "SelectStmt"))
	}

	pos := p.expect(token.SELECT)
	lbrace := p.expect(token.LBRACE)
	var list []ast.Stmt
	for p.tok == token.CASE || p.tok == token.DEFAULT {
		list = append(list, p.parseCommClause())
	}
	rbrace := p.expect(token.RBRACE)
	p.expectSemi()
	body := &ast.BlockStmt{Lbrace: lbrace, List: list, Rbrace: rbrace}

	return &ast.SelectStmt{Select: pos, Body: body}
}

func (p *parser) parseForStmt() ast.Stmt {
	if p.trace {
		defer un(trace(p, "ForStmt"))
	}

	pos := p.expect(token.FOR)

	var s1, s2, s3 ast.Stmt
	var isRange bool
	if p.tok != token.LBRACE {
		prevLev := p.exprLev
		p.exprLev = -1
		if p.tok != token.SEMICOLON {
			if p.tok == token.RANGE {
				// "for range x" (nil lhs in assignment)
				pos := p.pos
				p.next()
				y := []ast.Expr{&ast.UnaryExpr{OpPos: pos, Op: token.RANGE, X: p.parseRhs()}}
				s2 = &ast.AssignStmt{Rhs: y}
				isRange = true
			} else {
				s2, isRange = p.parseSimpleStmt(rangeOk)
			}
		}
		if !isRange && p.tok == token.SEMICOLON {
			p.next()
			s1 = s2
			s2 = nil
			if p.tok != token.SEMICOLON {
				s2, _ = p.parseSimpleStmt(basic)
			}
			p.expectSemi()
			if p.tok != token.LBRACE {
				s3, _ = p.parseSimpleStmt(basic)
			}
		}
		p.exprLev = prevLev
	}

	body := p.parseBlockStmt()
	p.expectSemi()

	if isRange {
		as := s2.(*ast.AssignStmt)
		// check lhs
		var key, value ast.Expr
		switch len(as.Lhs) {
		case 0:
			// nothing to do
		case 1:
			key = as.Lhs[0]
		case 2:
			key, value = as.Lhs[0], as.Lhs[1]
		default:
			p.errorExpected(as.Lhs[len(as.Lhs)-1].Pos(), "at most 2 expressions")
			return &ast.BadStmt{From: pos, To: p.safePos(body.End())}
		}
		// parseSimpleStmt returned a right-hand side that
		// is a single unary expression of the form "range x"
		x := as.Rhs[0].(*ast.UnaryExpr).X
		return &ast.RangeStmt{
			For:    pos,
			Key:    key,
			Value:  value,
			TokPos: as.TokPos,
			Tok:    as.Tok,
			Range:  as.Rhs[0].Pos(),
			X:      x,
			Body:   body,
		}
	}

	// regular for statement
	return &ast.ForStmt{
		For:  pos,
		Init: s1,
		Cond: p.makeExpr(s2, "boolean or range expression"),
		Post: s3,
		Body: body,
	}
}

func (p *parser) parseStmt() (s ast.Stmt) {
	defer decNestLev(incNestLev(p))

	if p.trace {
		defer un(trace(p, "Statement"))
	}

	switch p.tok {
	case token.CONST, token.TYPE, token.VAR:
		s = &ast.DeclStmt{Decl: p.parseDecl(stmtStart)}
	case
		// tokens that may start an expression
		token.IDENT, token.INT, token.FLOAT, token.IMAG, token.CHAR, token.STRING, token.FUNC, token.LPAREN, // operands
		token.LBRACK, token.STRUCT, token.MAP, token.CHAN, token.INTERFACE, // composite types
		token.ADD, token.SUB, token.MUL, token.AND, token.XOR, token.ARROW, token.NOT: // unary operators
		s, _ = p.parseSimpleStmt(labelOk)
		// because of the required look-ahead, labeled statements are
		// parsed by parseSimpleStmt - don't expect a semicolon after
		// them
		if _, isLabeledStmt := s.(*ast.LabeledStmt); !isLabeledStmt {
			p.expectSemi()
		}
	case token.GO:
		s = p.parseGoStmt()
	case token.DEFER:
		s = p.parseDeferStmt()
	case token.RETURN:
		s = p.parseReturnStmt()
	case token.BREAK, token.CONTINUE, token.GOTO, token.FALLTHROUGH:
		s = p.parseBranchStmt(p.tok)
	case token.LBRACE:
		s = p.parseBlockStmt()
		p.expectSemi()
	case token.IF:
		s = p.parseIfStmt()
	case token.SWITCH:
		s = p.parseSwitchStmt()
	case token.SELECT:
		s = p.parseSelectStmt()
	case token.FOR:
		s = p.parseForStmt()
	case token.SEMICOLON:
		// Is it ever possible to have an implicit semicolon
		// producing an empty statement in a valid program?
		// (handle correctly anyway)
		s = &ast.EmptyStmt{Semicolon: p.pos, Implicit: p.lit == "\n"}
		p.next()
	case token.RBRACE:
		// a semicolon may be omitted before a closing "}"
		s = &ast.EmptyStmt{Semicolon: p.pos, Implicit: true}
	default:
		// no statement found
		pos := p.pos
		p.errorExpected(pos, "statement")
		p.advance(stmtStart)
		s = &ast.BadStmt{From: pos, To: p.pos}
	}

	return
}

// ----------------------------------------------------------------------------
// Declarations

type parseSpecFunction func(doc *ast.CommentGroup, keyword token.Token, iota int) ast.Spec

func (p *parser) parseImportSpec(doc *ast.CommentGroup, _ token.Token, _ int) ast.Spec {
	if p.trace {
		defer un(trace(p, "ImportSpec"))
	}

	var ident *ast.Ident
	switch p.tok {
	case token.IDENT:
		ident = p.parseIdent()
	case token.PERIOD:
		ident = &ast.Ident{NamePos: p.pos, Name: "."}
		p.next()
	}

	pos := p.pos
	var path string
	if p.tok == token.STRING {
		path = p.lit
		p.next()
	} else if p.tok.IsLiteral() {
		p.error(pos, "import path must be a string")
		p.next()
	} else {
		p.error(pos, "missing import path")
		p.advance(exprEnd)
	}
	comment := p.expectSemi()

	// collect imports
	spec := &ast.ImportSpec{
		Doc:     doc,
		Name:    ident,
		Path:    &ast.BasicLit{ValuePos: pos, Kind: token.STRING, Value: path},
		Comment: comment,
	}
	p.imports = append(p.imports, spec)

	return spec
}

func (p *parser) parseValueSpec(doc *ast.CommentGroup, keyword token.Token, iota int) ast.Spec {
	if p.trace {
		defer un(trace(p, keyword.String()+"Spec"))
	}

	idents := p.parseIdentList()
	var typ ast.Expr
	var values []ast.Expr
	switch keyword {
	case token.CONST:
		// always permit optional type and initialization for more tolerant parsing
		if p.tok != token.EOF && p.tok != token.SEMICOLON && p.tok != token.RPAREN {
			typ = p.tryIdentOrType()
			if p.tok == token.ASSIGN {
				p.next()
				values = p.parseList(true)
			}
		}
	case token.VAR:
		if p.tok != token.ASSIGN {
			typ = p.parseType()
		}
		if p.tok == token.ASSIGN {
			p.next()
			values = p.parseList(true)
		}
	default:
		panic("unreachable")
	}
	comment := p.expectSemi()

	spec := &ast.ValueSpec{
		Doc:     doc,
		Names:   idents,
		Type:    typ,
		Values:  values,
		Comment: comment,
	}
	return spec
}

func (p *parser) parseGenericType(spec *ast.TypeSpec, openPos token.Pos, name0 *ast.Ident, typ0 ast.Expr) {
	if p.trace {
		defer un(trace(p, "parseGenericType"))
	}

	list := p.parseParameterList(name0, typ0, token.RBRACK)
	closePos := p.expect(token.RBRACK)
	spec.TypeParams = &ast.FieldList{Opening: openPos, List: list, Closing: closePos}
	// Let the type checker decide whether to accept type parameters on aliases:
	// see go.dev/issue/46477.
	if p.tok == token.ASSIGN {
		// type alias
		spec.Assign = p.pos
		p.next()
	}
	spec.Type = p.parseType()
}

func (p *parser) parseTypeSpec(doc *ast.CommentGroup, _ token.Token, _ int) ast.Spec {
	if p.trace {
		defer un(trace(p, "TypeSpec"))
	}

	name := p.parseIdent()
	spec := &ast.TypeSpec{Doc: doc, Name: name}

	if p.tok == token.LBRACK {
		// spec.Name "[" ...
		// array/slice type or type parameter list
		lbrack := p.pos
		p.next()
		if p.tok == token.IDENT {
			// We may have an array type or a type parameter list.
			// In either case we expect an expression x (which may
			// just be a name, or a more complex expression) which
			// we can analyze further.
			//
			// A type parameter list may have a type bound starting
			// with a "[" as in: P []E. In that case, simply parsing
			// an expression would lead to an error: P[] is invalid.
			// But since index or slice expressions are never constant
			// and thus invalid array length expressions, if the name
			// is followed by "[" it must be the start of an array or
			// slice constraint. Only if we don't see a "[" do we
			// need to parse a full expression. Notably, name <- x
			// is not a concern because name <- x is a statement and
			// not an expression.
			var x ast.Expr = p.parseIdent()
			if p.tok != token.LBRACK {
				// To parse the expression starting with name, expand
				// the call sequence we would get by passing in name
				// to parser.expr, and pass in name to parsePrimaryExpr.
				p.exprLev++
				lhs := p.parsePrimaryExpr(x)
				x = p.parseBinaryExpr(lhs, token.LowestPrec+1)
				p.exprLev--
			}
			// Analyze expression x. If we can split x into a type parameter
			// name, possibly followed by a type parameter type, we consider
			// this the start of a type parameter list, with some caveats:
			// a single name followed by "]" tilts the decision towards an
			// array declaration; a type parameter type that could also be
			// an ordinary expression but which is followed by a comma tilts
			// the decision towards a type parameter list.
			if pname, ptype := extractName(x, p.tok == token.COMMA); pname != nil && (ptype != nil || p.tok != token.RBRACK) {
				// spec.Name "[" pname ...
				// spec.Name "[" pname ptype ...
				// spec.Name "[" pname ptype "," ...
				p.parseGenericType(spec, lbrack, pname, ptype) // ptype may be nil
			} else {
				// spec.Name "[" pname "]" ...
				// spec.Name "[" x ...
				spec.Type = p.parseArrayType(lbrack, x)
			}
		} else {
			// array type
			spec.Type = p.parseArrayType(lbrack, nil)
		}
	} else {
		// no type parameters
		if p.tok == token.ASSIGN {
			// type alias
			spec.Assign = p.pos
			p.next()
		}
		spec.Type = p.parseType()
	}

	spec.Comment = p.expectSemi()

	return spec
}

// extractName splits the expression x into (name, expr) if syntactically
// x can be written as name expr. The split only happens if expr is a type
// element (per the isTypeElem predicate) or if force is set.
// If x is just a name, the result is (name, nil). If the split succeeds,
// the result is (name, expr). Otherwise the result is (nil, x).
// Examples:
//
//	x           force    name    expr
//	------------------------------------
//	P*[]int     T/F      P       *[]int
//	P*E         T        P       *E
//	P*E         F        nil     P*E
//	P([]int)    T/F      P       ([]int)
//	P(E)        T        P       (E)
//	P(E)        F        nil     P(E)
//	P*E|F|~G    T/F      P       *E|F|~G
//	P*E|F|G     T        P       *E|F|G
//	P*E|F|G     F        nil     P*E|F|G
func extractName(x ast.Expr, force bool) (*ast.Ident, ast.Expr) {
	switch x := x.(type) {
	case *ast.Ident:
		return x, nil
	case *ast.BinaryExpr:
		switch x.Op {
		case token.MUL:
			if name, _ := x.X.(*ast.Ident); name != nil && (force || isTypeElem(x.Y)) {
				// x = name *x.Y
				return name, &ast.StarExpr{Star: x.OpPos, X: x.Y}
			}
		case token.OR:
			if name, lhs := extractName(x.X, force || isTypeElem(x.Y)); name != nil && lhs != nil {
				// x = name lhs|x.Y
				op := *x
				op.X = lhs
				return name, &op
			}
		}
	case *ast.CallExpr:
		if name, _ := x.Fun.(*ast.Ident); name != nil {
			if len(x.Args) == 1 && x.Ellipsis == token.NoPos && (force || isTypeElem(x.Args[0])) {
				// x = name (x.Args[0])
				// (Note that the cmd/compile/internal/syntax parser does not care
				// about syntax tree fidelity and does not preserve parentheses here.)
				return name, &ast.ParenExpr{
					Lparen: x.Lparen,
					X:      x.Args[0],
					Rparen: x.Rparen,
				}
			}
		}
	}
	return nil, x
}

// isTypeElem reports whether x is a (possibly parenthesized) type element expression.
// The result is false if x could be a type element OR an ordinary (value) expression.
func isTypeElem(x ast.Expr) bool {
	switch x := x.(type) {
	case *ast.ArrayType, *ast.StructType, *ast.FuncType, *ast.InterfaceType, *ast.MapType, *ast.ChanType:
		return true
	case *ast.BinaryExpr:
		return isTypeElem(x.X) || isTypeElem(x.Y)
	case *ast.UnaryExpr:
		return x.Op == token.TILDE
	case *ast.ParenExpr:
		return isTypeElem(x.X)
	}
	return false
}

func (p *parser) parseGenDecl(keyword token.Token, f parseSpecFunction) *ast.GenDecl {
	if p.trace {
		defer un(trace(p, "GenDecl("+keyword.String()+")"))
	}

	doc := p.leadComment
	pos := p.expect(keyword)
	var lparen, rparen token.Pos
	var list []ast.Spec
	if p.tok == token.LPAREN {
		lparen = p.pos
		p.next()
		for iota := 0; p.tok != token.RPAREN && p.tok != token.EOF; iota++ {
			list = append(list, f(p.leadComment, keyword, iota))
		}
		rparen = p.expect(token.RPAREN)
		p.expectSemi()
	} else {
		list = append(list, f(nil, keyword, 0))
	}

	return &ast.GenDecl{
		Doc:    doc,
		TokPos: pos,
		Tok:    keyword,
		Lparen: lparen,
		Specs:  list,
		Rparen: rparen,
	}
}

func (p *parser) parseFuncDecl() *ast.FuncDecl {
	if p.trace {
		defer un(trace(p, "FunctionDecl"))
	}

	doc := p.leadComment
	pos := p.expect(token.FUNC)

	var recv *ast.FieldList
	if p.tok == token.LPAREN {
		_, recv = p.parseParameters(false)
	}

	ident := p.parseIdent()

	tparams, params := p.parseParameters(true)
	if recv != nil && tparams != nil {
		// Method declarations do not have type parameters. We parse them for a
		// better error message and improved error recovery.
		p.error(tparams.Opening, "method must have no type parameters")
		tparams = nil
	}
	results := p.parseResult()

	var body *ast.BlockStmt
	switch p.tok {
	case token.LBRACE:
		body = p.parseBody()
		p.expectSemi()
	case token.SEMICOLON:
		p.next()
		if p.tok == token.LBRACE {
			// opening { of function declaration on next line
			p.error(p.pos, "unexpected semicolon or newline before {")
			body = p.parseBody()
			p.expectSemi()
		}
	default:
		p.expectSemi()
	}

	decl := &ast.FuncDecl{
		Doc:  doc,
		Recv: recv,
		Name: ident,
		Type: &ast.FuncType{
			Func:       pos,
			TypeParams: tparams,
			Params:     params,
			Results:    results,
		},
		Body: body,
	}
	return decl
}

func (p *parser) parseDecl(sync map[token.Token]bool) ast.Decl {
	if p.trace {
		defer un(trace(p, "Declaration"))
	}

	var f parseSpecFunction
	switch p.tok {
	case token.IMPORT:
		f = p.parseImportSpec

	case token.CONST, token.VAR:
		f = p.parseValueSpec

	case token.TYPE:
		f = p.parseTypeSpec

	case token.FUNC:
		return p.parseFuncDecl()

	default:
		pos := p.pos
		p.errorExpected(pos, "declaration")
		p.advance(sync)
		return &ast.BadDecl{From: pos, To: p.pos}
	}

	return p.parseGenDecl(p.tok, f)
}

// ----------------------------------------------------------------------------
// Source files

func (p *parser) parseFile() *ast.File {
	if p.trace {
		defer un(trace(p, "File"))
	}

	// Don't bother parsing the rest if we had errors scanning the first token.
	// Likely not a Go source file at all.
	if p.errors.Len() != 0 {
		return nil
	}

	// package clause
	doc := p.leadComment
	pos := p.expect(token.PACKAGE)
	// Go spec: The package clause is not a declaration;
	// the package name does not appear in any scope.
	ident := p.parseIdent()
	if ident.Name == "_" && p.mode&DeclarationErrors != 0 {
		p.error(p.pos, "invalid package name _")
	}
	p.expectSemi()

	// Don't bother parsing the rest if we had errors parsing the package clause.
	// Likely not a Go source file at all.
	if p.errors.Len() != 0 {
		return nil
	}

	var decls []ast.Decl
	if p.mode&PackageClauseOnly == 0 {
		// import decls
		for p.tok == token.IMPORT {
			decls = append(decls, p.parseGenDecl(token.IMPORT, p.parseImportSpec))
		}

		if p.mode&ImportsOnly == 0 {
			// rest of package body
			prev := token.IMPORT
			for p.tok != token.EOF {
				// Continue to accept import declarations for error tolerance, but complain.
				if p.tok == token.IMPORT && prev != token.IMPORT {
					p.error(p.pos, "imports must appear before other declarations")
				}
				prev = p.tok

				decls = append(decls, p.parseDecl(declStart))
			}
		}
	}

	f := &ast.File{
		Doc:     doc,
		Package: pos,
		Name:    ident,
		Decls:   decls,
		// File{Start,End} are set by the defer in the caller.
		Imports:   p.imports,
		Comments:  p.comments,
		GoVersion: p.goVersion,
	}
	var declErr func(token.Pos, string)
	if p.mode&DeclarationErrors != 0 {
		declErr = p.error
	}
	if p.mode&SkipObjectResolution == 0 {
		resolveFile(f, p.file, declErr)
	}

	return f
}

// packIndexExpr returns an IndexExpr x[expr0] or IndexListExpr x[expr0, ...].
func packIndexExpr(x ast.Expr, lbrack token.Pos, exprs []ast.Expr, rbrack token.Pos) ast.Expr {
	switch len(exprs) {
	case 0:
		panic("internal error: packIndexExpr with empty expr slice")
	case 1:
		return &ast.IndexExpr{
			X:      x,
			Lbrack: lbrack,
			Index:  exprs[0],
			Rbrack: rbrack,
		}
	default:
		return &ast.IndexListExpr{
			X:       x,
			Lbrack:  lbrack,
			Indices: exprs,
			Rbrack:  rbrack,
		}
	}
}
