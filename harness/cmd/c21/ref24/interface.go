// Copyright 2009 The Go Authors. All rights reserved.
// Use of this source code is governed by a BSD-style
// license that can be found in the LICENSE file.

// This file contains the exported entry points for invoking the parser.

package parser

import (
	"bytes"
	"errors"
	"go/ast"
	"go/token"
	"io"
	"io/fs"
	"os"
	"path/filepath"
	"strings"
)

// If src != nil, readSource converts src to a []byte if possible;
// otherwise it returns an error. If src == nil, readSource returns
// the result of reading the file specified by filename.
func readSource(filename string, src any) ([]byte, error) {
	if src != nil {
		switch s := src.(type) {
		case string:
			return []byte(s), nil
		case []byte:
			return s, nil
		case *bytes.Buffer:
			// is io.Reader, but src is already available in []byte form
			if s != nil {
				return s.Bytes(), nil
			}
		case io.Reader:
			return io.ReadAll(s)
		}
		return nil, errors.New("invalid source")
	}
	return os.ReadFile(filename)
}

// A Mode value is a set of flags (or 0).
// They control the amount of source code parsed and other optional
// parser functionality.
type Mode uint

const (
	PackageClauseOnly    Mode             = 1 << iota // stop parsing after package clause
	ImportsOnly                                       // stop parsing after import declarations
	ParseComments                                     // parse comments and add them to AST
	Trace                                             // print a trace of parsed productions
	DeclarationErrors                                 // report declaration errors
	SpuriousErrors                                    // same as AllErrors, for backward-compatibility
	SkipObjectResolution                              // skip deprecated identifier resolution; see ParseFile
	AllErrors            = SpuriousErrors             // report all errors (not just the first 10 on different lines)
)

// ParseFile parses the source code of a single Go source file and returns
// the corresponding [ast.File] node. The source code may be provided via
// the filename of the source file, or via the src parameter.
//
// If src != nil, ParseFile parses the source from src and the filename is
// only used when recording position information. The type of the argument
// for the src parameter must be string, []byte, or [io.Reader].
// If src == nil, ParseFile parses the file specified by filename.
//
// The mode parameter controls the amount of source text parsed and
// other optional parser functionality. If the [SkipObjectResolution]
// mode bit is set (recommended), the object resolution phase of
// parsing will be skipped, causing File.Scope, File.Unresolved, and
// all Ident.Obj fields to be nil. Those fields are deprecated; see
// [ast.Object] for details.
//
// Position information is recorded in the file set fset, which must not be
// nil.
//
// If the source couldn't be read, the returned AST is nil and the error
// indicates the specific failure. If the source was read but syntax
// errors were found, the result is a partial AST (with [ast.Bad]* nodes
// representing the fragments of erroneous source code). Multiple errors
// are returned via a scanner.ErrorList which is sorted by source position.
func ParseFile(fset *token.FileSet, filename string, src any, mode Mode) (f *ast.File, err error) {
	if fset == nil {
		panic("parser.ParseFile: no token.FileSet provided (fset == nil)")
	}

	// get source
	text, err := readSource(filename, src)
	if err != nil {
		return nil, err
	}

	file := fset.AddFile(filename, -1, len(text))

	var p parser
	defer func() {
		if e := recover(); e != nil {
			// resume same panic if it's not a bailout
			bail, ok := e.(bailout)
			if !ok {
				panic(e)
			} else if bail.msg != "" {
				p.errors.Add(p.file.Position(bail.pos), bail.msg)
			}
		}

		// set result values
		if f == nil {
			// source is not a valid Go source file - satisfy
			// ParseFile API and return a valid (but) empty
			// *ast.File
			f = &ast.File{
				Name:  new(ast.Ident),
				Scope: ast.NewScope(nil),
			}
		}

		// Ensure the start/end are consistent,
		// whether parsing succeeded or not.
		f.FileStart = token.Pos(file.Base())
		f.FileEnd = token.Pos(file.Base() + file.Size())

		p.errors.Sort()
		err = p.errors.Err()
	}()

	// parse source
	p.init(file, text, mode)
	f = p.parseFile()

	return
}

// ParseDir calls [ParseFile] for all files with names ending in ".go" in the
// directory specified by path and returns a map of package name -> package
// AST with all the packages found.
//
// If filter != nil, only the files with [fs.FileInfo] entries passing through
// the filter (and ending in ".go") are considered. The mode bits are passed
// to [ParseFile] unchanged. Position information is recorded in fset, which
// must not be nil.
//
// If the directory couldn't be read, a nil map and the respective error are
// returned. If a parse error occurred, a non-nil but incomplete map and the
// first error encountered are returned.
func ParseDir(fset *token.FileSet, path string, filter func(fs.FileInfo) bool, mode Mode) (pkgs map[string]*ast.Package, first error) {
	list, err := os.ReadDir(path)
	if err != nil {
		return nil, err
	}

	pkgs = make(map[string]*ast.Package)
	for _, d := range list {
		if d.IsDir() || !strings.HasSuffix(d.Name(), ".go") {
			continue
		}
		if filter != nil {
			info, err := d.Info()
			if err != nil {
				return nil, err
			}
			if !filter(info) {
				continue
			}
		}
		filename := filepath.Join(path, d.Name())
		if src, err := ParseFile(fset, filename, nil, mode); err == nil {
			name := src.Name.Name
			pkg, found := pkgs[name]
			if !found {
				pkg = &ast.Package{
					Name:  name,
					Files: make(map[string]*ast.File),
				}
				pkgs[name] = pkg
			}
			pkg.Files[filename] = src
		} else if first == nil {
			first = err
		}
	}

	return
}

// ParseExprFrom is a convenience function for parsing an expression.
// The arguments have the same meaning as for [ParseFile], but the source must
// be a valid Go (type or value) expression. Specifically, fset must not
// be nil.
//
// If the source couldn't be read, the returned AST is nil and the error
// indicates the specific failure. If the source was read but syntax
// errors were found, the result is a partial AST (with [ast.Bad]* nodes
// representing the fragments of erroneous source code). Multiple errors
// are returned via a scanner.ErrorList which is sorted by source position.
func ParseExprFrom(fset *token.FileSet, filename string, src any, mode Mode) (expr ast.Expr, err error) {
	if fset == nil {
		panic("parser.ParseExprFrom: no token.FileSet provided (fset == nil)")
	}

	// get source
	text, err := readSource(filename, src)
	if err != nil {
		return nil, err
	}

	var p parser
	defer func() {
		if e := recover(); e != nil {
			// resume same panic if it's not a bailout
			bail, ok := e.(bailout)
			if !ok {
				panic(e)
			} else if bail.msg != "" {
				p.errors.Add(p.file.Position(bail.pos), bail.msg)
			}
		}
		p.errors.Sort()
		err = p.errors.Err()
	}()

	// parse expr
	file := fset.AddFile(filename, -1, len(text))
	p.init(file, text, mode)
	expr = p.parseRhs()

	// If a semicolon was inserted, consume it;
	// report an error if there's more tokens.
	if p.tok == token.SEMICOLON && p.lit == "\n" {
		p.next()
	}
	p.expect(token.EOF)

	return
}

// ParseExpr is a convenience function for obtaining the AST of an expression x.
// The position information recorded in the AST is undefined. The filename used
// in error messages is the empty string.
//
// If syntax errors were found, the result is a partial AST (with [ast.Bad]* nodes
// representing the fragments of erroneous source code). Multiple errors are
// returned via a scanner.ErrorList which is sorted by source position.
func ParseExpr(x string) (ast.Expr, error) {
	return ParseExprFrom(token.NewFileSet(), "", []byte(x), 0)
}
