// Copyright 2021 The Go Authors. All rights reserved.
// Use of this source code is governed by a BSD-style
// license that can be found in the LICENSE file.

package parser

import (
	"fmt"
	"go/ast"
	"go/token"
	"strings"
)

const debugResolve = false

// resolveFile walks the given file to resolve identifiers within the file
// scope, updating ast.Ident.Obj fields with declaration information.
//
// If declErr is non-nil, it is used to report declaration errors during
// resolution. tok is used to format position in error messages.
func resolveFile(file *ast.File, handle *token.File, declErr func(token.Pos, string)) {
	pkgScope := ast.NewScope(nil)
	r := &resolver{
		handle:   handle,
		declErr:  declErr,
		topScope: pkgScope,
		pkgScope: pkgScope,
		depth:    1,
	}

	for _, decl := range file.Decls {
		ast.Walk(r, decl)
	}

	r.closeScope()
	assert(r.topScope == nil, "unbalanced scopes")
	assert(r.labelScope == nil, "unbalanced label scopes")

	// resolve global identifiers within the same file
	i := 0
	for _, ident := range r.unresolved {
		// i <= index for current ident
		assert(ident.Obj == unresolved, "object already resolved")
		ident.Obj = r.pkgScope.Lookup(ident.Name) // also removes unresolved sentinel
		if ident.Obj == nil {
			r.unresolved[i] = ident
			i++
		} else if debugResolve {
			pos := ident.Obj.Decl.(interface{ Pos() token.Pos }).Pos()
			r.trace("resolved %s@%v to package object %v", ident.Name, ident.Pos(), pos)
		}
	}
	file.Scope = r.pkgScope
	file.Unresolved = r.unresolved[0:i]
}

const maxScopeDepth int = 1e3

type resolver struct {
	handle  *token.File
	declErr func(token.Pos, string)

	// Ordinary identifier scopes
	pkgScope   *ast.Scope   // pkgScope.Outer == nil
	topScope   *ast.Scope   // top-most scope; may be pkgScope
	unresolved []*ast.Ident // unresolved identifiers
	depth      int          // scope depth

	// Label scopes
	// (maintained by open/close LabelScope)
	labelScope  *ast.Scope     // label scope for current function
	targetStack [][]*ast.Ident // stack of unresolved labels
}

func (r *resolver) trace(format string, args ...any) {
	fmt.Println(strings.Repeat(". ", r.depth) + r.sprintf(format, args...))
}

func (r *resolver) sprintf(format string, args ...any) string {
	for i, arg := range args {
		switch arg := arg.(type) {
		case token.Pos:
			args[i] = r.handle.Position(arg)
		}
	}
	return fmt.Sprintf(format, args...)
}

func (r *resolver) openScope(pos token.Pos) {
	r.depth++
	if r.depth > maxScopeDepth {
		panic(bailout{pos: pos, msg: "exceeded max scope depth during object resolution"})
	}
	if debugResolve {
		r.trace("opening scope @%v", pos)
	}
	r.topScope = ast.NewScope(r.topScope)
}

func (r *resolver) closeScope() {
	r.depth--
	if debugResolve {
		r.trace("closing scope")
	}
	r.topScope = r.topScope.Outer
}

func (r *resolver) openLabelScope() {
	r.labelScope = ast.NewScope(r.labelScope)
	r.targetStack = append(r.targetStack, nil)
}

func (r *resolver) closeLabelScope() {
	// resolve labels
	n := len(r.targetStack) - 1
	scope := r.labelScope
	for _, ident := range r.targetStack[n] {
		ident.Obj = scope.Lookup(ident.Name)
		if ident.Obj == nil && r.declErr != nil {
			r.declErr(ident.Pos(), fmt.Sprintf("label %s undefined", ident.Name))
		}
	}
	// pop label scope
	r.targetStack = r.targetStack[0:n]
	r.labelScope = r.labelScope.Outer
}

func (r *resolver) declare(decl, data any, scope *ast.Scope, kind ast.ObjKind, idents ...*ast.Ident) {
	for _, ident := range idents {
		if ident.Obj != nil {
			panic(fmt.Sprintf("%v: identifier %s already declared or resolved", ident.Pos(), ident.Name))
		}
		obj := ast.NewObj(kind, ident.Name)
		// remember the corresponding declaration for redeclaration
		// errors and global variable resolution/typechecking phase
		obj.Decl = decl
		obj.Data = data
		// Identifiers (for receiver type parameters) are written to the scope, but
		// never set as the resolved object. See go.dev/issue/50956.
		if _, ok := decl.(*ast.Ident); !ok {
			ident.Obj = obj
		}
		if ident.Name != "_" {
			if debugResolve {
				r.trace("declaring %s@%v", ident.Name, ident.Pos())
			}
			if alt := scope.Insert(obj); alt != nil && r.declErr != nil {
				prevDecl := ""
				if pos := alt.Pos(); pos.IsValid() {
					prevDecl = r.sprintf("\n\tprevious declaration at %v", pos)
				}
				r.declErr(ident.Pos(), fmt.Sprintf("%s redeclared in this block%s", ident.Name, prevDecl))
			}
		}
	}
}

func (r *resolver) shortVarDecl(decl *ast.AssignStmt) {
	// Go spec: A short variable declaration may redeclare variables
	// provided they were originally declared in the same block with
	// the same type, and at least one of the non-blank variables is new.
	n := 0 // number of new variables
	for _, x := range decl.Lhs {
		if ident, isIdent := x.(*ast.Ident); isIdent {
			assert(ident.Obj == nil, "identifier already declared or resolved")
			obj := ast.NewObj(ast.Var, ident.Name)
			// remember corresponding assignment for other tools
			obj.Decl = decl
			ident.Obj = obj
			if ident.Name != "_" {
				if debugResolve {
					r.trace("declaring %s@%v", ident.Name, ident.Pos())
				}
				if alt := r.topScope.Insert(obj); alt != nil {
					ident.Obj = alt // redeclaration
				} else {
					n++ // new declaration
				}
			}
		}
	}
	if n == 0 && r.declErr != nil {
		r.declErr(decl.Lhs[0].Pos(), "no new variables on left side of :=")
	}
}

// The unresolved object is a sentinel to mark identifiers that have been added
// to the list of unresolved identifiers. The sentinel is only used for verifying
// internal consistency.
var unresolved = new(ast.Object)

// If x is an identifier, resolve attempts to resolve x by looking up
// the object it denotes. If no object is found and collectUnresolved is
// set, x is marked as unresolved and collected in the list of unresolved
// identifiers.
func (r *resolver) resolve(ident *ast.Ident, collectUnresolved bool) {
	if ident.Obj != nil {
		panic(r.sprintf("%v: identifier %s already declared or resolved", ident.Pos(), ident.Name))
	}
	// '_' should never refer to existing declarations, because it has special
	// handling in the spec.
	if ident.Name == "_" {
		return
	}
	for s := r.topScope; s != nil; s = s.Outer {
		if obj := s.Lookup(ident.Name); obj != nil {
			if debugResolve {
				r.trace("resolved %v:%s to %v", ident.Pos(), ident.Name, obj)
			}
			assert(obj.Name != "", "obj with no name")
			// Identifiers (for receiver type parameters) are written to the scope,
			// but never set as the resolved object. See go.dev/issue/50956.
			if _, ok := obj.Decl.(*ast.Ident); !ok {
				ident.Obj = obj
			}
			return
		}
	}
	// all local scopes are known, so any unresolved identifier
	// must be found either in the file scope, package scope
	// (perhaps in another file), or universe scope --- collect
	// them so that they can be resolved later
	if collectUnresolved {
		ident.Obj = unresolved
		r.unresolved = append(r.unresolved, ident)
	}
}

func (r *resolver) walkExprs(list []ast.Expr) {
	for _, node := range list {
		ast.Walk(r, node)
	}
}

func (r *resolver) walkLHS(list []ast.Expr) {
	for _, expr := range list {
		expr := ast.Unparen(expr)
		if _, ok := expr.(*ast.Ident); !ok && expr != nil {
			ast.Walk(r, expr)
		}
	}
}

func (r *resolver) walkStmts(list []ast.Stmt) {
	for _, stmt := range list {
		ast.Walk(r, stmt)
	}
}

func (r *resolver) Visit(node ast.Node) ast.Visitor {
	if debugResolve && node != nil {
		r.trace("node %T@%v", node, node.Pos())
	}

	switch n := node.(type) {

	// Expressions.
	case *ast.Ident:
		r.resolve(n, true)

	case *ast.FuncLit:
		r.openScope(n.Pos())
		defer r.closeScope()
		r.walkFuncType(n.Type)
		r.walkBody(n.Body)

	case *ast.SelectorExpr:
		ast.Walk(r, n.X)
		// Note: don't try to resolve n.Sel, as we don't support qualified
		// resolution.

	case *ast.StructType:
		r.openScope(n.Pos())
		defer r.closeScope()
		r.walkFieldList(n.Fields, ast.Var)

	case *ast.FuncType:
		r.openScope(n.Pos())
		defer r.closeScope()
		r.walkFuncType(n)

	case *ast.CompositeLit:
		if n.Type != nil {
			ast.Walk(r, n.Type)
		}
		for _, e := range n.Elts {
			if kv, _ := e.(*ast.KeyValueExpr); kv != nil {
				// See go.dev/issue/45160: try to resolve composite lit keys, but don't
				// collect them as unresolved if resolution failed. This replicates
				// existing behavior when resolving during parsing.
				if ident, _ := kv.Key.(*ast.Ident); ident != nil {
					r.resolve(ident, false)
				} else {
					ast.Walk(r, kv.Key)
				}
				ast.Walk(r, kv.Value)
			} else {
				ast.Walk(r, e)
			}
		}

	case *ast.InterfaceType:
		r.openScope(n.Pos())
		defer r.closeScope()
		r.walkFieldList(n.Methods, ast.Fun)

	// Statements
	case *ast.LabeledStmt:
		r.declare(n, nil, r.labelScope, ast.Lbl, n.Label)
		ast.Walk(r, n.Stmt)

	case *ast.AssignStmt:
		r.walkExprs(n.Rhs)
		if n.Tok == token.DEFINE {
			r.shortVarDecl(n)
		} else {
			r.walkExprs(n.Lhs)
		}

	case *ast.BranchStmt:
		// add to list of unresolved targets
		if n.Tok != token.FALLTHROUGH && n.Label != nil {
			depth := len(r.targetStack) - 1
			r.targetStack[depth] = append(r.targetStack[depth], n.Label)
		}

	case *ast.BlockStmt:
		r.openScope(n.Pos())
		defer r.closeScope()
		r.walkStmts(n.List)

	case *ast.IfStmt:
		r.openScope(n.Pos())
		defer r.closeScope()
		if n.Init != nil {
			ast.Walk(r, n.Init)
		}
		ast.Walk(r, n.Cond)
		ast.Walk(r, n.Body)
		if n.Else != nil {
			ast.Walk(r, n.Else)
		}

	case *ast.CaseClause:
		r.walkExprs(n.List)
		r.openScope(n.Pos())
		defer r.closeScope()
		r.walkStmts(n.Body)

	case *ast.SwitchStmt:
		r.openScope(n.Pos())
		defer r.closeScope()
		if n.Init != nil {
			ast.Walk(r, n.Init)
		}
		if n.Tag != nil {
			// The scope below reproduces some unnecessary behavior of the parser,
			// opening an extra scope in case this is a type switch. It's not needed
			// for expression switches.
			// TODO: remove this once we've matched the parser resolution exactly.
			if n.Init != nil {
				r.openScope(n.Tag.Pos())
				defer r.closeScope()
			}
			ast.Walk(r, n.Tag)
		}
		if n.Body != nil {
			r.walkStmts(n.Body.List)
		}

	case *ast.TypeSwitchStmt:
		if n.Init != nil {
			r.openScope(n.Pos())
			defer r.closeScope()
			ast.Walk(r, n.Init)
		}
		r.openScope(n.Assign.Pos())
		defer r.closeScope()
		ast.Walk(r, n.Assign)
		// s.Body consists only of case clauses, so does not get its own
		// scope.
		if n.Body != nil {
			r.walkStmts(n.Body.List)
		}

	case *ast.CommClause:
		r.openScope(n.Pos())
		defer r.closeScope()
		if n.Comm != nil {
			ast.Walk(r, n.Comm)
		}
		r.walkStmts(n.Body)

	case *ast.SelectStmt:
		// as for switch statements, select statement bodies don't get their own
		// scope.
		if n.Body != nil {
			r.walkStmts(n.Body.List)
		}

	case *ast.ForStmt:
		r.openScope(n.Pos())
		defer r.closeScope()
		if n.Init != nil {
			ast.Walk(r, n.Init)
		}
		if n.Cond != nil {
			ast.Walk(r, n.Cond)
		}
		if n.Post != nil {
			ast.Walk(r, n.Post)
		}
		ast.Walk(r, n.Body)

	case *ast.RangeStmt:
		r.openScope(n.Pos())
		defer r.closeScope()
		ast.Walk(r, n.X)
		var lhs []ast.Expr
		if n.Key != nil {
			lhs = append(lhs, n.Key)
		}
		if n.Value != nil {
			lhs = append(lhs, n.Value)
		}
		if len(lhs) > 0 {
			if n.Tok == token.DEFINE {
				// Note: we can't exactly match the behavior of object resolution
				// during the parsing pass here, as it uses the position of the RANGE
				// token for the RHS OpPos. That information is not contained within
				// the AST.
				as := &ast.AssignStmt{
					Lhs:    lhs,
					Tok:    token.DEFINE,
					TokPos: n.TokPos,
					Rhs:    []ast.Expr{&ast.UnaryExpr{Op: token.RANGE, X: n.X}},
				}
				// TODO(rFindley): this walkLHS reproduced the parser resolution, but
				// is it necessary? By comparison, for a normal AssignStmt we don't
				// walk the LHS in case there is an invalid identifier list.
				r.walkLHS(lhs)
				r.shortVarDecl(as)
			} else {
				r.walkExprs(lhs)
			}
		}
		ast.Walk(r, n.Body)

	// Declarations
	case *ast.GenDecl:
		switch n.Tok {
		case token.CONST, token.VAR:
			for i, spec := range n.Specs {
				spec := spec.(*ast.ValueSpec)
				kind := ast.Con
				if n.Tok == token.VAR {
					kind = ast.Var
				}
				r.walkExprs(spec.Values)
				if spec.Type != nil {
					ast.Walk(r, spec.Type)
				}
				r.declare(spec, i, r.topScope, kind, spec.Names...)
			}
		case token.TYPE:
			for _, spec := range n.Specs {
				spec := spec.(*ast.TypeSpec)
				// Go spec: The scope of a type identifier declared inside a function begins
				// at the identifier in the TypeSpec and ends at the end of the innermost
				// containing block.
				r.declare(spec, nil, r.topScope, ast.Typ, spec.Name)
				if spec.TypeParams != nil {
					r.openScope(spec.Pos())
					defer r.closeScope()
					r.walkTParams(spec.TypeParams)
				}
				ast.Walk(r, spec.Type)
			}
		}

	case *ast.FuncDecl:
		// Open the function scope.
		r.openScope(n.Pos())
		defer r.closeScope()

		r.walkRecv(n.Recv)

		// Type parameters are walked normally: they can reference each other, and
		// can be referenced by normal parameters.
		if n.Type.TypeParams != nil {
			r.walkTParams(n.Type.TypeParams)
			// TODO(rFindley): need to address receiver type parameters.
		}

		// Resolve and declare parameters in a specific order to get duplicate
		// declaration errors in the correct location.
		r.resolveList(n.Type.Params)
		r.resolveList(n.Type.Results)
		r.declareList(n.Recv, ast.Var)
		r.declareList(n.Type.Params, ast.Var)
		r.declareList(n.Type.Results, ast.Var)

		r.walkBody(n.Body)
		if n.Recv == nil && n.Name.Name != "init" {
			r.declare(n, nil, r.pkgScope, ast.Fun, n.Name)
		}

	default:
		return r
	}

	return nil
}

func (r *resolver) walkFuncType(typ *ast.FuncType) {
	// typ.TypeParams must be walked separately for FuncDecls.
	r.resolveList(typ.Params)
	r.resolveList(typ.Results)
	r.declareList(typ.Params, ast.Var)
	r.declareList(typ.Results, ast.Var)
}

func (r *resolver) resolveList(list *ast.FieldList) {
	if list == nil {
		return
	}
	for _, f := range list.List {
		if f.Type != nil {
			ast.Walk(r, f.Type)
		}
	}
}

func (r *resolver) declareList(list *ast.FieldList, kind ast.ObjKind) {
	if list == nil {
		return
	}
	for _, f := range list.List {
		r.declare(f, nil, r.topScope, kind, f.Names...)
	}
}

func (r *resolver) walkRecv(recv *ast.FieldList) {
	// If our receiver has receiver type parameters, we must declare them before
	// trying to resolve the rest of the receiver, and avoid re-resolving the
	// type parameter identifiers.
	if recv == nil || len(recv.List) == 0 {
		return // nothing to do
	}
	typ := recv.List[0].Type
	if ptr, ok := typ.(*ast.StarExpr); ok {
		typ = ptr.X
	}

	var declareExprs []ast.Expr // exprs to declare
	var resolveExprs []ast.Expr // exprs to resolve
	switch typ := typ.(type) {
	case *ast.IndexExpr:
		declareExprs = []ast.Expr{typ.Index}
		resolveExprs = append(resolveExprs, typ.X)
	case *ast.IndexListExpr:
		declareExprs = typ.Indices
		resolveExprs = append(resolveExprs, typ.X)
	default:
		resolveExprs = append(resolveExprs, typ)
	}
	for _, expr := range declareExprs {
		if id, _ := expr.(*ast.Ident); id != nil {
			r.declare(expr, nil, r.topScope, ast.Typ, id)
		} else {
			// The receiver type parameter expression is invalid, but try to resolve
			// it anyway for consistency.
			resolveExprs = append(resolveExprs, expr)
		}
	}
	for _, expr := range resolveExprs {
		if expr != nil {
			ast.Walk(r, expr)
		}
	}
	// The receiver is invalid, but try to resolve it anyway for consistency.
	for _, f := range recv.List[1:] {
		if f.Type != nil {
			ast.Walk(r, f.Type)
		}
	}
}

func (r *resolver) walkFieldList(list *ast.FieldList, kind ast.ObjKind) {
	if list == nil {
		return
	}
	r.resolveList(list)
	r.declareList(list, kind)
}

// walkTParams is like walkFieldList, but declares type parameters eagerly so
// that they may be resolved in the constraint expressions held in the field
// Type.
func (r *resolver) walkTParams(list *ast.FieldList) {
	r.declareList(list, ast.Typ)
	r.resolveList(list)
}

func (r *resolver) walkBody(body *ast.BlockStmt) {
	if body == nil {
		return
	}
	r.openLabelScope()
	defer r.closeLabelScope()
	r.walkStmts(body.List)
}
