package main

import (
	"encoding/hex"
	"fmt"
	"go/ast"
	"io"
	"io/fs"
	"os"
	"path/filepath"
	"sort"
	"strings"

	"github.com/gnolang/gno/gnovm/pkg/gnofmt"
	gno "github.com/gnolang/gno/gnovm/pkg/gnolang"
	"gnoverif/kit"
)

// ---------------------------------------------------------------- summary of a source (the model's input)

type summary struct {
	parses bool
	specs  []spec
	u, k   []string
	r      map[string]string
}

func joinOr(ss []string) string {
	if len(ss) == 0 {
		return "-"
	}
	return strings.Join(ss, ",")
}

func (s *summary) tokens() string {
	if !s.parses {
		return "P=0 I=- U=- K=- R=-"
	}
	var is, rs []string
	for _, x := range s.specs {
		is = append(is, x.alias+"~"+x.path+"~"+x.pkgname)
	}
	for _, n := range s.u {
		if p, ok := s.r[n]; ok {
			rs = append(rs, n+">"+p)
		}
	}
	return fmt.Sprintf("P=1 I=%s U=%s K=%s R=%s", joinOr(is), joinOr(s.u), joinOr(s.k), joinOr(rs))
}

var exposedCache = map[string]map[string]bool{}

// exposed: the exported top-level names of a resolver package (nil if a file does not parse).
func exposed(p gnofmt.Package) map[string]bool {
	if m, ok := exposedCache[p.Path()]; ok {
		return m
	}
	m := map[string]bool{}
	for _, fn := range p.Files() {
		rc, err := p.Read(fn)
		if err != nil {
			m = nil
			break
		}
		body, _ := io.ReadAll(rc)
		rc.Close()
		fi, err := analyse(fn, body)
		if err != nil {
			m = nil
			break
		}
		all := map[string]bool{}
		topNames(fi.f, all)
		for n := range all {
			if ast.IsExported(n) {
				m[n] = true
			}
		}
	}
	exposedCache[p.Path()] = m
	return m
}

// gnofmt's own list of predeclared identifiers (utils.go); it knows neither Gno's
// realm/address/cross nor max/min/clear, which is harmless: none is ever a qualifier.
var fmtPredeclared = map[string]bool{}

func init() {
	for _, n := range strings.Fields(`any bool byte comparable complex64 complex128 error float32 float64 int int8 int16 int32 int64
		rune string uint uint8 uint16 uint32 uint64 uintptr append cap close complex copy delete imag len make new panic print
		println real recover false iota nil true`) {
		fmtPredeclared[n] = true
	}
}

// firstSelectors mirrors the bookkeeping of collectUnresolved: only the FIRST unresolved
// occurrence of a name is remembered, and the name survives only if that occurrence is
// the X of a selector expression; the selector is what hasDeclExposed looks for.
func firstSelectors(f *ast.File) map[string]string {
	first := map[string]*ast.Ident{}
	for _, u := range f.Unresolved {
		if _, ok := first[u.Name]; ok || fmtPredeclared[u.Name] {
			continue
		}
		first[u.Name] = u
	}
	out := map[string]string{}
	ast.Inspect(f, func(n ast.Node) bool {
		if se, ok := n.(*ast.SelectorExpr); ok {
			if id, ok := se.X.(*ast.Ident); ok && first[id.Name] == id {
				out[id.Name] = se.Sel.Name
			}
		}
		return true
	})
	return out
}

func summarize(name string, src []byte, pkg *memPackage) *summary {
	fi, err := analyse(name, src)
	if err != nil {
		return &summary{}
	}
	s := &summary{parses: true, r: map[string]string{}}
	for _, x := range fi.imports {
		x.pkgname = gno.LastPathElement(x.path)
		if p := resolver().ResolvePath(x.path); p != nil {
			x.pkgname = p.Name()
		}
		if x.pkgname == "" || strings.ContainsAny(x.alias+x.path+x.pkgname, " ,~>\t") {
			return nil // not expressible in the op grammar
		}
		s.specs = append(s.specs, x)
	}
	top := map[string]bool{}
	topNames(fi.f, top)
	if pkg != nil {
		for fn, body := range pkg.bodies {
			if fn == name {
				continue
			}
			if o, err := analyse(fn, body); err == nil {
				topNames(o.f, top)
			} else {
				return nil // the formatter will refuse the package
			}
		}
	}
	sels := firstSelectors(fi.f)
	for n := range sels {
		s.u = append(s.u, n)
		if top[n] {
			s.k = append(s.k, n)
		}
	}
	sort.Strings(s.u)
	sort.Strings(s.k)
	for _, n := range s.u {
		for _, p := range resolver().ResolveName(n) {
			if exposed(p)[sels[n]] {
				s.r[n] = p.Path()
				break
			}
		}
	}
	return s
}

// ---------------------------------------------------------------- corpus

func corpusFiles() []string {
	resolver()
	var out []string
	root := filepath.Join(repoRoot, "examples")
	filepath.WalkDir(root, func(path string, d fs.DirEntry, err error) error {
		if err != nil {
			return nil
		}
		if d.IsDir() {
			if strings.HasPrefix(d.Name(), ".") {
				return filepath.SkipDir
			}
			return nil
		}
		if strings.HasSuffix(path, ".gno") && !strings.HasPrefix(d.Name(), ".") {
			rel, _ := filepath.Rel(repoRoot, path)
			out = append(out, filepath.ToSlash(rel))
		}
		return nil
	})
	sort.Strings(out)
	return out
}

func loadRel(rel string) (*memPackage, string, []byte, bool) {
	abs := filepath.Join(repoRoot, filepath.FromSlash(rel))
	pkg, err := loadDir(filepath.Dir(abs))
	if err != nil {
		return nil, "", nil, false
	}
	body, ok := pkg.bodies[filepath.Base(abs)]
	return pkg, filepath.Base(abs), body, ok
}

// ---------------------------------------------------------------- inline boundary sources

var boundarySrc = []string{
	// valid programs the formatter must leave alone or only tidy
	"package x\n",
	"package x\n\nimport ()\n\nfunc F() {}\n",
	"package x\n\nimport \"strings\"\n\nfunc F() string { return strings.ToUpper(\"a\") }\n",
	"package x\n\nimport (\n\t\"strings\"\n\t\"strconv\"\n)\n\nfunc F() string { return strings.ToUpper(\"a\") }\n", // unused
	"package x\n\nfunc F() string { return strings.ToUpper(\"a\") + strconv.Itoa(1) + ufmt.Sprintf(\"x\") }\n",       // missing
	"package x\n\nimport s \"strings\"\n\nfunc F() string { return s.ToUpper(\"a\") }\n",                             // alias
	"package x\n\nimport (\n\ts \"strings\"\n\ts \"strconv\"\n)\n\nfunc F() string { return s.ToUpper(\"a\") }\n",   // alias clash
	"package x\n\nimport (\n\ts \"strings\"\n\tt \"strings\"\n)\n\nfunc F() string { return s.ToUpper(\"a\") + t.ToLower(\"b\") }\n",
	"package x\n\nimport \"strings\"\n\nfunc F(strings T) string { return strings.ToUpper(\"a\") }\n", // shadowed by a parameter
	"package x\n\nimport _ \"strings\"\n\nfunc F() string { return \"a\" }\n",
	"package x\n\nimport (\n\t\"strings\" // why\n\n\t// doc\n\t\"strconv\"\n)\n\n// F does.\nfunc F() string { return strings.ToUpper(strconv.Itoa(1)) }\n",
	"package x\n\nimport \"strings\"\n\ntype T struct{ strings int }\n\nvar v = T{strings: 1}\n\nfunc F() string { return strings.ToUpper(\"a\") }\n",
	"package x\n\nconst (\n\ta = 0X1F\n\tb = 1E3\n\tc = 0B101\n\td = 0O17\n\te = 0x1P4\n\tf = 017\n\tg = 1_000\n\th = 'a'\n\ti = `raw\n\tstring`\n)\n",
	"package x\n\nfunc F(a, b int) int {\n\tif (a > b) {\n\t\treturn (a)\n\t}\n\tfor (a < b) {\n\t\ta++;;\n\t}\n\tswitch (a) {\n\tcase (1):\n\t}\n\t;\nL:\n\t;\n\tgoto L\n}\n\nvar s = `a\r\nb`\n",
	"package   x\nimport   \"strings\";import \"strconv\"\nfunc  F ( )  string{return strings.ToUpper(\"a\")+strconv.Itoa( 1 )}\n",
	"package x\n\nimport \"gno.land/p/nt/avl/v0\"\n\nvar t avl.Tree\n\nfunc F() { t.Set(\"a\", 1) }\n",
	"package x\n\nvar t avl.Tree\n",
	"package x\n\nimport \"strings\"\n\nfunc F() { var strings = 1; _ = strings }\n\nfunc G() string { return strings.ToUpper(\"a\") }\n",
	"package main\n\nfunc main() {\n\tprintln(\"hello\")\n\tfor i := range 3 {\n\t\tprintln(i)\n\t}\n}\n\n// Output:\n// hello\n",
	"package x\n\ntype S[T any] struct{ v T }\n\nfunc (s *S[T]) Get() T { return s.v }\n\nfunc Cross(cur realm, x int) {}\n",
	// the recorded findings
	"package x\n\nimport \"strings\"\nimport \"strings\"\n\nfunc F() string { return strings.ToUpper(\"a\") }\n",
	"package x\n\nimport (\n\t\"strings\"\n\t\"strings\"\n)\n\nfunc F() string { return strings.ToUpper(\"a\") }\n",
	"package x\n\nimport (\n\t_ \"strings\"\n\t\"strings\"\n)\n\nfunc F() string { return strings.ToUpper(\"a\") }\n",
	"package x\n\nimport (\n\t\"strings\"\n\t_ \"strings\"\n)\n\nfunc F() string { return strings.ToUpper(\"a\") }\n",
	"package x\n\nimport . \"strings\"\n\nfunc F() string { return ToUpper(\"a\") }\n",
	// a blank import of ANOTHER package with the same name: kept next to the plain one in source order,
	// but the sorted output puts the blank one first, and the second pass then drops the plain one
	"package x\n\nimport (\n\t\"gno.land/r/nt/commondao/v0\"\n\t_ \"gno.land/p/nt/commondao/v0\"\n)\n\nfunc F() { commondao.New() }\n",
	"package x\n\nimport (\n\t_ \"gno.land/p/nt/commondao/v0\"\n\t\"gno.land/r/nt/commondao/v0\"\n)\n\nfunc F() { commondao.New() }\n",
	"package x\n\nimport . \"strings\"\n\nfunc F() string { return \"a\" }\n", // dot import nobody needs: dropped, no verdict against it
}

var malformedSrc = []string{
	"", "package", "package x\nimport", "package x\n\nfunc F( {\n", "package x\n\nimport \"a\nfunc F() {}\n",
	"pack age x\n", "package x\n\nfunc F() { return 1 + }\n", "\x00\x01\x02", "package x\n\nimport (\n\t\"strings\"\n",
}

// ---------------------------------------------------------------- mutations of an import section

func mutate(r *kit.Rand, specs []spec, u []string, pool []string) []spec {
	out := append([]spec(nil), specs...)
	insert := func(s spec) {
		i := r.Intn(len(out) + 1)
		out = append(out, spec{})
		copy(out[i+1:], out[i:])
		out[i] = s
	}
	pick := func() string { return pool[r.Intn(len(pool))] }
	used := func() (spec, bool) {
		var c []spec
		for _, s := range out {
			if s.alias == "-" {
				c = append(c, s)
			}
		}
		if len(c) == 0 {
			return spec{}, false
		}
		return c[r.Intn(len(c))], true
	}
	switch r.Intn(14) {
	case 0, 1: // layout only
	case 2, 3: // an import nobody uses
		insert(spec{alias: "-", path: pick()})
	case 4, 5: // a needed import is missing
		if len(out) > 0 {
			i := r.Intn(len(out))
			out = append(out[:i], out[i+1:]...)
		}
	case 6: // unused alias
		insert(spec{alias: fmt.Sprintf("zz%d", r.Intn(10)), path: pick()})
	case 7: // an alias that collides with a used qualifier
		if len(u) > 0 {
			insert(spec{alias: u[r.Intn(len(u))], path: pick()})
		}
	case 8: // blank import of something else
		insert(spec{alias: "_", path: pick()})
	case 9: // reverse
		for a, b := 0, len(out)-1; a < b; a, b = a+1, b-1 {
			out[a], out[b] = out[b], out[a]
		}
	case 10: // remove everything: all needed imports must come back
		out = nil
	case 11: // duplicate a spec (finding: both copies vanish)
		if s, ok := used(); ok {
			insert(s)
		}
	case 12: // blank import of a path that is also imported plainly (finding)
		if s, ok := used(); ok {
			insert(spec{alias: "_", path: s.path})
		}
	case 13: // dot import
		insert(spec{alias: ".", path: pick()})
	}
	return out
}

func gen(w *kit.Out, r *kit.Rand, tier string) {
	nfiles, nmut := 120, 160
	if tier == "thorough" {
		nfiles, nmut = 100000, 2500
	}
	files := corpusFiles()
	if len(files) == 0 {
		fmt.Fprintln(os.Stderr, "c54 gen: no corpus under", repoRoot)
		os.Exit(1)
	}
	// boundary table: inline sources, on their own
	for i, src := range boundarySrc {
		if s := summarize("x.gno", []byte(src), nil); s != nil {
			w.Case(fmt.Sprintf("b%d", i))
			w.Op("fmt h:%s o %s", hex.EncodeToString([]byte(src)), s.tokens())
		}
	}
	// the real corpus, untouched (deterministic sample by seed; thorough: all of it)
	perm := make([]int, len(files))
	for i := range perm {
		perm[i] = i
	}
	for i := len(perm) - 1; i > 0; i-- {
		j := r.Intn(i + 1)
		perm[i], perm[j] = perm[j], perm[i]
	}
	if nfiles > len(files) {
		nfiles = len(files)
	}
	chosen := append([]int(nil), perm[:nfiles]...)
	sort.Ints(chosen)
	pathSet := map[string]bool{}
	type entry struct {
		rel string
		sum *summary
	}
	var usable []entry
	for _, i := range chosen {
		pkg, name, body, ok := loadRel(files[i])
		if !ok {
			continue
		}
		s := summarize(name, body, pkg)
		if s == nil || !s.parses {
			continue
		}
		for _, x := range s.specs {
			if x.alias == "-" {
				pathSet[x.path] = true
			}
		}
		usable = append(usable, entry{files[i], s})
		w.Case(fmt.Sprintf("f%d", i))
		w.Op("fmt x:%s o %s", files[i], s.tokens())
	}
	var pool []string
	for p := range pathSet {
		pool = append(pool, p)
	}
	sort.Strings(pool)
	if len(pool) == 0 {
		pool = []string{"strings"}
	}
	// import-block mutations of corpus files
	layouts := []string{"g", "s", "2", "b"}
	for n := 0; n < nmut && len(usable) > 0; n++ {
		e := usable[r.Intn(len(usable))]
		pkg, name, body, ok := loadRel(e.rel)
		if !ok {
			continue
		}
		specs := mutate(r, e.sum.specs, e.sum.u, pool)
		layout := layouts[r.Intn(len(layouts))]
		nsrc, ok := relayout(body, specs, layout)
		if !ok {
			continue
		}
		s := summarize(name, nsrc, pkg.with(name, nsrc))
		if s == nil || !s.parses {
			continue
		}
		// the op line must rebuild exactly this source
		if again, ok := relayout(body, s.specs, layout); !ok || string(again) != string(nsrc) {
			continue
		}
		w.Case(fmt.Sprintf("m%d", n))
		w.Op("fmt x:%s %s %s", e.rel, layout, s.tokens())
	}
	w.Case("malformed")
	for _, src := range malformedSrc {
		s := summarize("x.gno", []byte(src), nil)
		if s == nil {
			continue
		}
		h := hex.EncodeToString([]byte(src))
		if h == "" {
			continue
		}
		w.Op("fmt h:%s o %s", h, s.tokens())
	}
	w.Op("fmt")
	w.Op("fmt x:examples/../go.mod o P=1 I=- U=- K=- R=-")
	w.Op("fmt h:zz o P=1 I=- U=- K=- R=-")
	w.Op("fmt h:7061636b6167652078 q P=1 I=- U=- K=- R=-")
	w.Op("fmt h:7061636b6167652078 g P=1 I=a~b U=- K=- R=-")
}
