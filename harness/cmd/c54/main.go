// Harness for C54: gno fmt is idempotent and preserves program meaning.
//
// The REAL formatter (gnovm/pkg/gnofmt.Processor over an FSResolver loaded with
// gnovm/stdlibs and examples, exactly what `gno fmt` builds) formats one source per op.
//
// op line:
//
//	fmt <src> <layout> P=<0|1> I=<specs> U=<names> K=<names> R=<name>path,...>
//
//	src     x:<path relative to the repo root>      a real .gno file (its directory is the package)
//	        h:<hex>                                   an inline source, formatted on its own
//	layout  o   the source as it is (x: sources go through Processor.FormatFile, the `gno fmt` route)
//	        g s 2 b   the import section is REPLACED by the specs of I=, written as one block /
//	                  single import lines / two blocks / one block with a blank line in the middle
//	P       1 iff the source parses (go/parser, the parser gnofmt uses)
//	I       the import specs in source order: <alias>~<path>~<pkgname>; alias `-` (none), `_`, `.`, or a name;
//	        pkgname = what the formatter takes as the default local name (resolver's package name, else last element)
//	U       the names whose FIRST unresolved occurrence (file.Unresolved order, gnofmt's predeclared names skipped)
//	        is the qualifier of a selector expression — what collectUnresolved keeps
//	K       the members of U that are package-level declarations of the package
//	R       for members of U: the first package the resolver offers under that name that exposes THAT selector
//
//	(P I U K R are a summary of the source computed by `gen`; they are the only thing the Lean model sees.
//	 `exec` never reads them: it runs the formatter on the source.)
//
// output:  ok <alias>~<path>,...   the import specs of the formatted file (set, sorted)  |  err:parse
//          (beyond 250 bytes: ok #<count>:<FNV-1a 32 of that line>)
//
// oracle (independent of the model; the statement evaluated on the formatter's output):
//
//	nondet                two fresh processors give different bytes
//	not-idempotent        format(format(x)) != format(x)
//	ast-changed           the non-import declarations differ (gno parser AST, positions and comments ignored,
//	                      number literals compared by value)
//	gno-parse-lost        x translates to a Gno FileNode (gnolang.ParseFile) but format(x) does not
//	used-import-dropped   a removed plain/aliased import whose local name is still used as a qualifier and is
//	                      provided by no remaining import; or a removed blank import
//	dot-import-dropped    a removed dot import while some bare identifier is unresolved in the package
//	spurious-import-added an added import whose local name is not a used qualifier
//	unparsable-output     the formatted text does not parse
package main

import (
	"bytes"
	"encoding/hex"
	"fmt"
	"go/ast"
	"go/constant"
	"go/token"
	"hash/fnv"
	"io"
	"os"
	"path/filepath"
	"reflect"
	"sort"
	"strconv"
	"strings"

	"github.com/gnolang/gno/gnovm/pkg/gnoenv"
	"github.com/gnolang/gno/gnovm/pkg/gnofmt"
	gno "github.com/gnolang/gno/gnovm/pkg/gnolang"
	gnoparser "github.com/gnolang/gno/gnovm/pkg/parser"
	"gnoverif/kit"
)

// ---------------------------------------------------------------- resolver and packages

var (
	theResolver *gnofmt.FSResolver
	repoRoot    string
)

func resolver() *gnofmt.FSResolver {
	if theResolver != nil {
		return theResolver
	}
	repoRoot = gnoenv.RootDir()
	r := gnofmt.NewFSResolver()
	skip := func(path string, err error) error { return nil } // as cmd/gno/fmt.go: report and go on
	if err := r.LoadPackages(filepath.Join(repoRoot, "gnovm", "stdlibs"), skip); err != nil {
		panic(err)
	}
	if err := r.LoadPackages(filepath.Join(repoRoot, "examples"), skip); err != nil {
		panic(err)
	}
	theResolver = r
	return r
}

// memPackage: a package whose files live in memory (one of them replaced).
type memPackage struct {
	path, name string
	names      []string
	bodies     map[string][]byte
}

func (m *memPackage) Path() string    { return m.path }
func (m *memPackage) Name() string    { return m.name }
func (m *memPackage) Files() []string { return m.names }
func (m *memPackage) Read(fn string) (io.ReadCloser, error) {
	b, ok := m.bodies[fn]
	if !ok {
		return nil, fmt.Errorf("file not found %q", fn)
	}
	return io.NopCloser(bytes.NewReader(b)), nil
}

func (m *memPackage) with(fn string, body []byte) *memPackage {
	c := &memPackage{path: m.path, name: m.name, names: m.names, bodies: map[string][]byte{}}
	for k, v := range m.bodies {
		c.bodies[k] = v
	}
	c.bodies[fn] = body
	return c
}

var pkgCache = map[string]*memPackage{}

// loadDir reads the package of a directory the way gnofmt.ParsePackage sees it.
func loadDir(dir string) (*memPackage, error) {
	if p, ok := pkgCache[dir]; ok {
		return p, nil
	}
	pkg, err := gnofmt.ParsePackage(token.NewFileSet(), "", dir)
	if err != nil {
		return nil, err
	}
	if pkg == nil {
		return nil, fmt.Errorf("no package in %s", dir)
	}
	m := &memPackage{path: pkg.Path(), name: pkg.Name(), names: pkg.Files(), bodies: map[string][]byte{}}
	if m.path == "" {
		m.path = dir
	}
	for _, fn := range m.names {
		b, err := os.ReadFile(filepath.Join(dir, fn))
		if err != nil {
			return nil, err
		}
		m.bodies[fn] = b
	}
	if len(pkgCache) > 64 {
		pkgCache = map[string]*memPackage{}
	}
	pkgCache[dir] = m
	return m, nil
}

// ---------------------------------------------------------------- sources and layouts

type spec struct{ alias, path, pkgname string }

func (s spec) text() string {
	switch s.alias {
	case "-":
		return fmt.Sprintf("%q", s.path)
	default:
		return fmt.Sprintf("%s %q", s.alias, s.path)
	}
}

func parseSpecs(s string) ([]spec, bool) {
	if s == "-" {
		return nil, true
	}
	var out []spec
	for _, e := range strings.Split(s, ",") {
		f := strings.Split(e, "~")
		if len(f) != 3 || f[0] == "" || f[1] == "" || f[2] == "" {
			return nil, false
		}
		out = append(out, spec{f[0], f[1], f[2]})
	}
	return out, true
}

func importSection(specs []spec, layout string) string {
	if len(specs) == 0 {
		return ""
	}
	var b strings.Builder
	block := func(ss []spec, gapAt int) {
		b.WriteString("import (\n")
		for i, s := range ss {
			if i == gapAt && i > 0 {
				b.WriteString("\n")
			}
			b.WriteString("\t" + s.text() + "\n")
		}
		b.WriteString(")\n")
	}
	switch layout {
	case "s":
		for _, s := range specs {
			b.WriteString("import " + s.text() + "\n")
		}
	case "2":
		h := (len(specs) + 1) / 2
		block(specs[:h], -1)
		if h < len(specs) {
			b.WriteString("\n")
			block(specs[h:], -1)
		}
	case "b":
		block(specs, (len(specs)+1)/2)
	default: // g
		block(specs, -1)
	}
	return b.String()
}

// relayout removes every import declaration of src and installs a new import section
// right after the package clause.
func relayout(src []byte, specs []spec, layout string) ([]byte, bool) {
	fset := token.NewFileSet()
	f, err := gnoparser.ParseFile(fset, "x.gno", src, gnoparser.ImportsOnly|gnoparser.ParseComments)
	if err != nil || f.Name == nil {
		return nil, false
	}
	tf := fset.File(f.Pos())
	type cut struct{ a, b int }
	var cuts []cut
	for _, d := range f.Decls {
		g, ok := d.(*ast.GenDecl)
		if !ok || g.Tok != token.IMPORT {
			continue
		}
		a, b := tf.Offset(g.Pos()), tf.Offset(g.End())
		for b < len(src) && (src[b] == ' ' || src[b] == '\t') {
			b++
		}
		if b < len(src) && src[b] == ';' {
			b++
		}
		cuts = append(cuts, cut{a, b})
	}
	var out bytes.Buffer
	pos := 0
	for _, c := range cuts {
		out.Write(src[pos:c.a])
		pos = c.b
	}
	out.Write(src[pos:])
	body := out.Bytes()
	// insertion point: end of the line holding the package name
	at := tf.Offset(f.Name.End())
	for at < len(body) && body[at] != '\n' {
		at++
	}
	var res bytes.Buffer
	res.Write(body[:at])
	res.WriteString("\n\n" + importSection(specs, layout) + "\n")
	res.Write(body[at:])
	return res.Bytes(), true
}

// ---------------------------------------------------------------- running the formatter

type target struct {
	abs  string      // real file (layout o), else ""
	pkg  *memPackage // package context (nil: format the source on its own)
	name string
	src  []byte
}

func (t *target) format(src []byte, first bool) ([]byte, error) {
	p := gnofmt.NewProcessor(resolver())
	switch {
	case t.pkg == nil:
		return p.FormatImportFromSource(t.name, src)
	case first && t.abs != "":
		return p.FormatFile(t.abs)
	default:
		return p.FormatPackageFile(t.pkg.with(t.name, src), t.name)
	}
}

// ---------------------------------------------------------------- oracle helpers (gno parser AST)

type fileInfo struct {
	f       *ast.File
	imports []spec          // alias, path
	quals   map[string]bool // names used as qualifier, unresolved by the parser, not predeclared
	bare    map[string]bool // names unresolved, used at least once without being a qualifier
	top     map[string]bool // top-level declarations of this file
}

var universe = map[string]bool{}

func init() {
	for _, n := range strings.Fields(`any bool byte comparable complex64 complex128 error float32 float64 int int8 int16 int32 int64
		rune string uint uint8 uint16 uint32 uint64 uintptr append cap clear close complex copy delete imag len make max min new panic print
		println real recover false iota nil true address realm cross attach istypednil revive`) {
		universe[n] = true
	}
}

func topNames(f *ast.File, into map[string]bool) {
	for _, d := range f.Decls {
		switch d := d.(type) {
		case *ast.GenDecl:
			for _, s := range d.Specs {
				switch s := s.(type) {
				case *ast.TypeSpec:
					into[s.Name.Name] = true
				case *ast.ValueSpec:
					for _, n := range s.Names {
						into[n.Name] = true
					}
				}
			}
		case *ast.FuncDecl:
			if d.Recv == nil {
				into[d.Name.Name] = true
			}
		}
	}
}

func analyse(name string, src []byte) (*fileInfo, error) {
	fset := token.NewFileSet()
	f, err := gnoparser.ParseFile(fset, name, src, gnoparser.ParseComments|gnoparser.AllErrors)
	if err != nil {
		return nil, err
	}
	fi := &fileInfo{f: f, quals: map[string]bool{}, bare: map[string]bool{}, top: map[string]bool{}}
	for _, d := range f.Decls {
		g, ok := d.(*ast.GenDecl)
		if !ok || g.Tok != token.IMPORT {
			continue
		}
		for _, s := range g.Specs {
			is := s.(*ast.ImportSpec)
			a := "-"
			if is.Name != nil {
				a = is.Name.Name
			}
			p := is.Path.Value
			if len(p) >= 2 {
				p = p[1 : len(p)-1]
			}
			fi.imports = append(fi.imports, spec{alias: a, path: p})
		}
	}
	unres := map[*ast.Ident]bool{}
	for _, u := range f.Unresolved {
		if !universe[u.Name] {
			unres[u] = true
		}
	}
	asQual := map[*ast.Ident]bool{}
	ast.Inspect(f, func(n ast.Node) bool {
		if se, ok := n.(*ast.SelectorExpr); ok {
			if id, ok := se.X.(*ast.Ident); ok && unres[id] {
				asQual[id] = true
				fi.quals[id.Name] = true
			}
		}
		return true
	})
	for id := range unres {
		if !asQual[id] {
			fi.bare[id.Name] = true
		}
	}
	topNames(f, fi.top)
	return fi, nil
}

var (
	posType     = reflect.TypeOf(token.NoPos)
	cgType      = reflect.TypeOf((*ast.CommentGroup)(nil))
	objType     = reflect.TypeOf((*ast.Object)(nil))
	scopeType   = reflect.TypeOf((*ast.Scope)(nil))
	basicLitPtr = reflect.TypeOf((*ast.BasicLit)(nil))
)

func litEqual(a, b *ast.BasicLit) bool {
	if a.Kind != b.Kind {
		return false
	}
	if a.Value == b.Value {
		return true
	}
	switch a.Kind {
	case token.INT, token.FLOAT, token.IMAG: // format.Source rewrites 0X1F, 1E3, 0B1 ... : compare the values
		x, y := constant.MakeFromLiteral(a.Value, a.Kind, 0), constant.MakeFromLiteral(b.Value, b.Kind, 0)
		return x.Kind() != constant.Unknown && y.Kind() != constant.Unknown && constant.Compare(x, token.EQL, y)
	case token.STRING, token.CHAR: // go/printer drops carriage returns from raw strings, as the language does
		x, err1 := strconv.Unquote(a.Value)
		y, err2 := strconv.Unquote(b.Value)
		return err1 == nil && err2 == nil && x == y
	}
	return false
}

var (
	exprType  = reflect.TypeOf((*ast.Expr)(nil)).Elem()
	stmtsType = reflect.TypeOf([]ast.Stmt(nil))
)

// unparen: go/printer strips the outermost parentheses of if/for/switch headers; a
// parenthesis never changes the tree below it, so expressions are compared without them.
func unparen(v reflect.Value) reflect.Value {
	for v.Type() == exprType && !v.IsNil() {
		p, ok := v.Interface().(*ast.ParenExpr)
		if !ok {
			break
		}
		v = reflect.ValueOf(&p.X).Elem()
	}
	return v
}

// go/printer does not print explicit empty statements
func dropEmpty(v reflect.Value) reflect.Value {
	ss := v.Interface().([]ast.Stmt)
	out := make([]ast.Stmt, 0, len(ss))
	for _, s := range ss {
		if _, ok := s.(*ast.EmptyStmt); !ok {
			out = append(out, s)
		}
	}
	return reflect.ValueOf(out)
}

// astEqual: structural equality ignoring positions, comments and parser resolution results.
func astEqual(a, b reflect.Value) bool {
	if a.Kind() != b.Kind() || a.Type() != b.Type() {
		return false
	}
	switch a.Type() {
	case posType, cgType, objType, scopeType:
		return true
	case exprType:
		a, b = unparen(a), unparen(b)
	case stmtsType:
		a, b = dropEmpty(a), dropEmpty(b)
	}
	switch a.Kind() {
	case reflect.Interface, reflect.Ptr:
		if a.IsNil() || b.IsNil() {
			return a.IsNil() == b.IsNil()
		}
		if a.Kind() == reflect.Ptr && a.Type() == basicLitPtr {
			return litEqual(a.Interface().(*ast.BasicLit), b.Interface().(*ast.BasicLit))
		}
		if a.Kind() == reflect.Interface {
			if _, ok := a.Interface().(*ast.EmptyStmt); ok {
				_, ok2 := b.Interface().(*ast.EmptyStmt)
				return ok2
			}
		}
		return astEqual(a.Elem(), b.Elem())
	case reflect.Struct:
		for i := 0; i < a.NumField(); i++ {
			if a.Type().Field(i).Type == reflect.TypeOf([]*ast.CommentGroup(nil)) {
				continue
			}
			if !astEqual(a.Field(i), b.Field(i)) {
				return false
			}
		}
		return true
	case reflect.Slice:
		if a.Len() != b.Len() {
			return false
		}
		for i := 0; i < a.Len(); i++ {
			if !astEqual(a.Index(i), b.Index(i)) {
				return false
			}
		}
		return true
	case reflect.String:
		return a.String() == b.String()
	case reflect.Bool:
		return a.Bool() == b.Bool()
	case reflect.Int, reflect.Int8, reflect.Int16, reflect.Int32, reflect.Int64:
		return a.Int() == b.Int()
	case reflect.Uint, reflect.Uint8, reflect.Uint16, reflect.Uint32, reflect.Uint64:
		return a.Uint() == b.Uint()
	}
	return true
}

func nonImportDecls(f *ast.File) []ast.Decl {
	var out []ast.Decl
	for _, d := range f.Decls {
		if g, ok := d.(*ast.GenDecl); ok && g.Tok == token.IMPORT {
			continue
		}
		out = append(out, d)
	}
	return out
}

func sameProgram(a, b *ast.File) bool {
	if a.Name.Name != b.Name.Name {
		return false
	}
	da, db := nonImportDecls(a), nonImportDecls(b)
	if len(da) != len(db) {
		return false
	}
	for i := range da {
		if !astEqual(reflect.ValueOf(&da[i]).Elem(), reflect.ValueOf(&db[i]).Elem()) {
			return false
		}
	}
	return true
}

// gnoParses: the source translates to a Gno FileNode (gnolang.ParseFile = forked parser + Go2Gno).
func gnoParses(name string, src []byte) (ok bool) {
	defer func() {
		if recover() != nil {
			ok = false
		}
	}()
	var m *gno.Machine
	fn, err := m.ParseFile(name, string(src))
	return err == nil && fn != nil
}

func localName(s spec) string {
	switch s.alias {
	case "-":
		if p := resolver().ResolvePath(s.path); p != nil {
			return p.Name()
		}
		return gno.LastPathElement(s.path)
	}
	return s.alias
}

func specKey(s spec) string { return s.alias + "~" + s.path }

// ---------------------------------------------------------------- exec

func parseOp(toks []string) (t *target, ok bool) {
	if len(toks) != 8 || toks[0] != "fmt" {
		return nil, false
	}
	layout := toks[2]
	if !(layout == "o" || layout == "g" || layout == "s" || layout == "2" || layout == "b") {
		return nil, false
	}
	for i, k := range []string{"P=", "I=", "U=", "K=", "R="} {
		if !strings.HasPrefix(toks[3+i], k) || len(toks[3+i]) == len(k) {
			return nil, false
		}
	}
	specs, sok := parseSpecs(toks[4][2:])
	if !sok {
		return nil, false
	}
	src := toks[1]
	t = &target{}
	switch {
	case strings.HasPrefix(src, "h:"):
		b, err := hex.DecodeString(src[2:])
		if err != nil {
			return nil, false
		}
		t.name, t.src = "x.gno", b
	case strings.HasPrefix(src, "x:"):
		rel := src[2:]
		if strings.Contains(rel, "..") || !strings.HasSuffix(rel, ".gno") {
			return nil, false
		}
		resolver()
		abs := filepath.Join(repoRoot, filepath.FromSlash(rel))
		pkg, err := loadDir(filepath.Dir(abs))
		if err != nil {
			return nil, false
		}
		body, have := pkg.bodies[filepath.Base(abs)]
		if !have {
			return nil, false
		}
		t.abs, t.pkg, t.name, t.src = abs, pkg, filepath.Base(abs), body
	default:
		return nil, false
	}
	if layout != "o" {
		nsrc, rok := relayout(t.src, specs, layout)
		if !rok {
			return nil, false
		}
		t.src, t.abs = nsrc, ""
	}
	return t, true
}

func exec(toks []string) (string, string) {
	t, ok := parseOp(toks)
	if !ok {
		return "err:badop", "-"
	}
	out1, err := t.format(t.src, true)
	if err != nil {
		if _, perr := analyse(t.name, t.src); perr != nil {
			return "err:parse", "ok" // nothing to preserve: the file does not parse
		}
		return "err:fmt", "VIOL:fmt-error the source parses but the formatter fails: " + err.Error()
	}
	orig, perr := analyse(t.name, t.src)
	if perr != nil {
		return "err:parse", "VIOL:fmt-accepts-unparsable the formatter accepted a source the gno parser rejects"
	}
	// canonical output: the set of import specs of the formatted file
	fm, ferr := analyse(t.name, out1)
	if ferr != nil {
		return "err:output", "VIOL:unparsable-output the formatted text does not parse: " + ferr.Error()
	}
	set := map[string]bool{}
	for _, s := range fm.imports {
		set[specKey(s)] = true
	}
	keys := make([]string, 0, len(set))
	for k := range set {
		keys = append(keys, k)
	}
	sort.Strings(keys)
	impl := "ok " + strings.Join(keys, ",")
	if len(keys) == 0 {
		impl = "ok -"
	}
	if len(impl) > 250 { // the kit cuts output lines at 300 bytes
		h := fnv.New32a()
		h.Write([]byte(impl))
		impl = fmt.Sprintf("ok #%d:%d", len(keys), h.Sum32())
	}

	// ---- oracle
	if again, err := t.format(t.src, true); err != nil || !bytes.Equal(again, out1) {
		return impl, "VIOL:nondet a second fresh processor gives different bytes"
	}
	if !sameProgram(orig.f, fm.f) {
		return impl, "VIOL:ast-changed the non-import declarations differ after formatting"
	}
	if gnoParses(t.name, t.src) && !gnoParses(t.name, out1) {
		return impl, "VIOL:gno-parse-lost the source translates to a Gno FileNode, the formatted text does not"
	}
	// import changes
	count := func(ss []spec) map[string]int {
		m := map[string]int{}
		for _, s := range ss {
			m[specKey(s)]++
		}
		return m
	}
	before, after := count(orig.imports), count(fm.imports)
	pkgTop := map[string]bool{}
	if t.pkg != nil {
		for fn, body := range t.pkg.bodies {
			if fn == t.name {
				continue
			}
			if fi, err := analyse(fn, body); err == nil {
				topNames(fi.f, pkgTop)
			}
		}
	}
	topNames(orig.f, pkgTop)
	provided := map[string]bool{}
	for _, s := range fm.imports {
		provided[localName(s)] = true
	}
	for _, s := range fm.imports {
		if before[specKey(s)] > 0 {
			continue
		}
		if n := localName(s); !orig.quals[n] {
			return impl, "VIOL:spurious-import-added " + s.text() + " was added but " + n + " is not a used qualifier"
		}
	}
	out2, err := t.format(out1, false)
	if err != nil {
		return impl, "VIOL:not-idempotent formatting the formatted text fails: " + err.Error()
	}
	if !bytes.Equal(out2, out1) {
		return impl, "VIOL:not-idempotent format(format(x)) != format(x)"
	}
	for _, s := range orig.imports {
		if after[specKey(s)] > 0 {
			continue // still there (a removed duplicate of a remaining spec changes nothing)
		}
		switch s.alias {
		case "_":
			return impl, "VIOL:used-import-dropped the blank import of " + s.path + " was removed"
		case ".":
			for n := range orig.bare {
				if !pkgTop[n] {
					return impl, "VIOL:dot-import-dropped `. \"" + s.path + "\"` removed while " + n + " is unresolved"
				}
			}
		default:
			n := localName(s)
			if orig.quals[n] && !pkgTop[n] && !provided[n] {
				return impl, fmt.Sprintf("VIOL:used-import-dropped %s was removed but %s.<sel> is used and no remaining import provides %s", s.text(), n, n)
			}
		}
	}
	return impl, "ok"
}

func panicOracle(toks []string, v any) (string, string) {
	return "panic:fmt", "VIOL:fmt-panic " + fmt.Sprint(v)
}

func main() {
	kit.Main(&kit.Harness{Gen: gen, Exec: exec, PanicOracle: panicOracle})
}
