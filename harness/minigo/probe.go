package minigo

import (
	"bytes"
	"fmt"
	"os"
	"regexp"
	"runtime"
	"strconv"
	"strings"
	"time"

	gno "github.com/gnolang/gno/gnovm/pkg/gnolang"
	"github.com/gnolang/gno/gnovm/pkg/test"
	"github.com/gnolang/gno/tm2/pkg/crypto"
	"github.com/gnolang/gno/tm2/pkg/std"
	stypes "github.com/gnolang/gno/tm2/pkg/store/types"
)

// ---------------------------------------------------------------- C11: crash probes
//
// A probe submits one `package main` source the way the VM keeper's Run
// handler treats it (gno.land/pkg/sdk/vm/keeper.go Run): ValidateMemPackage,
// TypeCheckMemPackage (go/types), a Machine with the transaction's gas meter,
// the allocation cap maxAllocTx and the per-transaction preprocess allocator,
// RunMemPackage, then RunMainMaybeCrossing.  The keeper itself turns every
// panic into an error string ("VM panic: …") that no longer says what kind of
// panic it was, so the probe stays one level below it and classifies the Go
// value that leaves the Machine.

const maxAllocTx = 500_000_000 // keeper.go

// Prober holds one store (stdlibs resolved lazily from the checkout).
type Prober struct {
	root  string
	out   *bytes.Buffer
	store gno.Store
	n     int
}

func NewProber(root string) *Prober {
	p := &Prober{root: root, out: &bytes.Buffer{}}
	_, p.store = test.ProdStore(root, test.OutputWithError(p.out, p.out), nil)
	return p
}

// ProbeResult: Class ∈ ok | panic | err | limit:gas | limit:alloc | crash:vm-panic | crash:runtime-error.
type ProbeResult struct {
	Class  string
	Phase  string
	Detail string
}

// Allowed reports whether the class is one of the endings C11's statement permits.
func (r ProbeResult) Allowed() bool { return !strings.HasPrefix(r.Class, "crash:") }

func (p *Prober) Probe(src string, gas int64) (res ProbeResult) {
	if p.n >= 200 {
		_, p.store = test.ProdStore(p.root, test.OutputWithError(p.out, p.out), nil)
		p.n = 0
	}
	p.n++
	p.out.Reset()
	// the keeper's path for MsgRun: <chain domain>/e/<caller address>/run
	path := "gno.land/e/" + crypto.AddressFromPreimage([]byte(fmt.Sprintf("c11probe%d", p.n))).String() + "/run"
	phase := "validate"
	t0 := time.Now()
	mark := func(next string) {
		if os.Getenv("C11_PHASES") != "" {
			fmt.Fprintf(os.Stderr, "c11: phase %s took %v\n", phase, time.Since(t0))
		}
		t0 = time.Now()
		phase = next
	}
	defer func() { mark("end") }()
	defer func() {
		if v := recover(); v != nil {
			cls := classifyEscape(v, phaseKind(phase))
			msg := firstLine(fmt.Sprint(v))
			switch {
			case cls == "panic:escaped":
				cls = "panic"
			case strings.HasPrefix(cls, "err:"):
				cls = "err"
			case cls == "crash:vm-panic" && !internalInvariantRe.MatchString(msg):
				// The VM also reports user-level conditions with plain Go panics
				// ("name main not declared", "cannot allocate T in realm …"); only a
				// message that names a broken invariant of the interpreter counts as
				// an internal fault, everything else is a VM-reported error.
				cls = "err"
			}
			res = ProbeResult{Class: cls, Phase: phase, Detail: msg}
		}
	}()
	mpkg := &std.MemPackage{
		Type: gno.MPUserProd,
		Name: "main",
		Path: path,
		Files: []*std.MemFile{
			{Name: "gnomod.toml", Body: gno.GenGnoModLatest(path)},
			{Name: "main.gno", Body: src},
		},
	}
	if err := gno.ValidateMemPackage(mpkg); err != nil {
		return ProbeResult{Class: "err", Phase: phase, Detail: firstLine(err.Error())}
	}
	mark("typecheck")
	if _, err := gno.TypeCheckMemPackage(mpkg, gno.TypeCheckOptions{Getter: p.store, TestGetter: p.store, Mode: gno.TCLatestRelaxed}); err != nil {
		return ProbeResult{Class: "err", Phase: phase, Detail: firstLine(err.Error())}
	}
	mark("load")
	gm := stypes.NewGasMeter(gas)
	preAlloc := gno.NewAllocator(maxAllocTx)
	preAlloc.SetGasMeter(gm)
	p.store.SetPreprocessAllocator(preAlloc)
	defer p.store.SetPreprocessAllocator(nil)
	// the transaction's allocator (keeper: gnostore.GetAllocator()), passed explicitly:
	// a Machine created without one would adopt the preprocess allocator
	alloc := gno.NewAllocator(maxAllocTx)
	m := gno.NewMachineWithOptions(gno.MachineOptions{
		Output:             test.OutputWithError(p.out, p.out),
		Store:              p.store,
		Alloc:              alloc,
		Context:            test.Context("", path, nil),
		GasMeter:           gm,
		BoundedPanicRender: true,
	})
	_, pv := m.RunMemPackage(mpkg, false)
	mark("run")
	gasLoad := gm.GasConsumed()
	// as the keeper: main runs on a second Machine over the same store, allocator and gas meter
	m2 := gno.NewMachineWithOptions(gno.MachineOptions{
		Output:             test.OutputWithError(p.out, p.out),
		Store:              p.store,
		Alloc:              alloc,
		Context:            test.Context("", path, nil),
		GasMeter:           gm,
		BoundedPanicRender: true,
	})
	m2.SetActivePackage(pv)
	m2.RunMainMaybeCrossing()
	if os.Getenv("C11_PHASES") != "" {
		fmt.Fprintf(os.Stderr, "c11: gas load=%d total=%d\n", gasLoad, gm.GasConsumed())
	}
	return ProbeResult{Class: "ok", Phase: "done"}
}

// messages with which the interpreter reports that one of ITS OWN invariants broke
var internalInvariantRe = regexp.MustCompile(`(?i)should not happen|unexpected|not yet implemented|unreachable|invariant|internal error|nil pointer|index out of range|out of bounds`)

// phaseKind: only once the package has been preprocessed ("run") is an
// arbitrary Go panic an interpreter fault; before that the preprocessor
// reports user errors by panicking.
func phaseKind(phase string) string {
	if phase == "run" {
		return "run"
	}
	return "load"
}

// ProbeTimed runs the probe under a watchdog; a probe that does not return
// within the limit although its gas is bounded is a hang.
//
// While the probe runs, the LIVE Go heap of the process is sampled (forced
// collection, then HeapAlloc): everything a transaction allocates is supposed to
// be charged to the allocator and capped at maxAllocTx, so a live heap that
// exceeds the cap by a wide margin is memory growth beyond the allocation
// limit (class crash:mem-growth) — whatever the probe finally returns.
func (p *Prober) ProbeTimed(src string, gas int64, limit time.Duration) (ProbeResult, bool) {
	base := liveHeap()
	ch := make(chan ProbeResult, 1)
	go func() { ch <- p.Probe(src, gas) }()
	deadline := time.After(limit)
	tick := time.NewTicker(700 * time.Millisecond)
	defer tick.Stop()
	var peak uint64
	for {
		select {
		case r := <-ch:
			return r, true
		case <-tick.C:
			if h := liveHeap(); h > base && h-base > peak {
				peak = h - base
			}
			if peak > memGrowthLimit {
				// do not wait for the machine to eat the box: report and let the caller drop the process
				return ProbeResult{Class: "crash:resource", Phase: "run",
					Detail: fmt.Sprintf("live Go heap grew by %d MB during one probe (allocation cap %d MB, gas limit %d)", peak>>20, maxAllocTx>>20, gas)}, false
			}
		case <-deadline:
			// (one class for both resource blow-ups: which of the two a quadratic run trips
			// first depends on how fast the machine is)
			return ProbeResult{Class: "crash:resource", Phase: "?", Detail: "no result within " + limit.String() + " although the gas is bounded"}, false
		}
	}
}

// memGrowthLimit: the allocation cap plus as much again for what the VM keeps
// outside the allocator (syntax trees, caches, Go slack).
const memGrowthLimit = 2 * maxAllocTx

func liveHeap() uint64 {
	runtime.GC()
	var ms runtime.MemStats
	runtime.ReadMemStats(&ms)
	return ms.HeapAlloc
}

// ---------------------------------------------------------------- pathological sources

func rep(s string, n int) string { return strings.Repeat(s, n) }

// SourceKinds lists the families of PathologicalSource.
var SourceKinds = []string{
	"nest-paren", "nest-unary", "nest-not", "nest-binary", "nest-binary-right", "nest-block", "nest-if", "nest-for",
	"nest-call", "nest-index", "nest-funclit", "nest-slice-type", "nest-ptr-type", "nest-struct-lit", "nest-composite",
	"nest-switch", "chain-sel", "big-int-lit", "big-const-shift", "big-const-square", "big-string-lit",
	"const-string-double", "string-double", "recursion", "recursion-mutual", "recursion-closure", "recursion-defer",
	"alloc-make", "alloc-make-byte", "alloc-append-loop", "alloc-map-loop", "loop-forever", "loop-defer", "goto-loop",
	"rec-type-struct", "rec-type-array", "rec-type-slice", "rec-type-map", "rec-type-func", "rec-type-iface",
	"rec-type-iface-embed", "rec-type-mutual", "rec-type-len", "init-cycle", "sparse-lit", "sparse-arr", "huge-array-type",
	"many-vars", "many-cases", "many-args", "long-concat", "unsupported-go", "unsupported-chan", "unsupported-generic",
	"shadow-builtin", "const-div-zero", "const-shift-neg", "const-conv-overflow", "nul-byte", "bad-utf8", "empty",
	"no-main", "import-unknown", "panic-nil", "recover-loop", "deep-recover", "method-value-rec", "big-struct", "label-maze",
}

// PathologicalSource builds the source of family `kind` with size parameter n.
func PathologicalSource(kind string, n int) string {
	if n < 1 {
		n = 1
	}
	hd := "package main\n\n"
	mainOf := func(body string) string { return hd + "func main() {\n" + body + "\n}\n" }
	switch kind {
	case "nest-paren":
		return mainOf("\tx := " + rep("(", n) + "1" + rep(")", n) + "\n\tprintln(x)")
	case "nest-unary":
		return mainOf("\ty := 1\n\tx := " + rep("- ", n) + "y\n\tprintln(x)")
	case "nest-not":
		return mainOf("\ty := true\n\tx := " + rep("!", n) + "y\n\tprintln(x)")
	case "nest-binary":
		return mainOf("\ty := 1\n\tx := y" + rep(" + y", n) + "\n\tprintln(x)")
	case "nest-binary-right":
		return mainOf("\ty := 1\n\tx := " + rep("y + (", n) + "y" + rep(")", n) + "\n\tprintln(x)")
	case "nest-block":
		return mainOf(rep("{", n) + " println(1) " + rep("}", n))
	case "nest-if":
		return mainOf("\ty := true\n" + rep("if y { ", n) + "println(1)" + rep(" }", n))
	case "nest-for":
		var b strings.Builder
		for i := 0; i < n; i++ {
			fmt.Fprintf(&b, "for i%d := 0; i%d < 1; i%d++ { ", i, i, i)
		}
		b.WriteString("println(1)" + rep(" }", n))
		return mainOf(b.String())
	case "nest-call":
		return hd + "func id(x int) int { return x }\n\nfunc main() {\n\tprintln(" + rep("id(", n) + "1" + rep(")", n) + ")\n}\n"
	case "nest-index":
		return mainOf("\ta := []int{0}\n\tprintln(" + rep("a[", n) + "0" + rep("]", n) + ")")
	case "nest-funclit":
		return mainOf(rep("func() { ", n) + "println(1)" + rep(" }()", n))
	case "nest-slice-type":
		return mainOf("\tvar x " + rep("[]", n) + "int\n\tprintln(len(x))")
	case "nest-ptr-type":
		return mainOf("\tvar x " + rep("*", n) + "int\n\tprintln(x == nil)")
	case "nest-struct-lit":
		return hd + "type T struct{ p *T }\n\nfunc main() {\n\tx := " + rep("&T{", n) + "nil" + rep("}", n) + "\n\tprintln(x != nil)\n}\n"
	case "nest-composite":
		return mainOf("\tx := " + rep("[]", n) + "int" + rep("{", n) + rep("}", n) + "\n\tprintln(len(x))")
	case "nest-switch":
		return mainOf("\ty := true\n" + rep("switch { case y: ", n) + "println(1)" + rep(" }", n))
	case "chain-sel":
		return hd + "type T struct{ f *T }\n\nfunc main() {\n\tt := &T{}\n\tt.f = t\n\tprintln(t" + rep(".f", n) + " == t)\n}\n"
	case "big-int-lit":
		return mainOf("\tx := 1" + rep("0", n) + "\n\tprintln(x)")
	case "big-const-shift":
		return hd + fmt.Sprintf("const c = 1 << %d\n\nfunc main() {\n\tprintln(c >> %d)\n}\n", n, n-1)
	case "big-const-square":
		var b strings.Builder
		b.WriteString(hd + "const a0 = 3\n")
		for i := 1; i <= n; i++ {
			fmt.Fprintf(&b, "const a%d = a%d * a%d\n", i, i-1, i-1)
		}
		fmt.Fprintf(&b, "\nfunc main() {\n\tprintln(a%d %% 7)\n}\n", n)
		return b.String()
	case "big-string-lit":
		return mainOf("\ts := \"" + rep("a", n) + "\"\n\tprintln(len(s))")
	case "const-string-double":
		var b strings.Builder
		b.WriteString(hd + "const s0 = \"ab\"\n")
		for i := 1; i <= n; i++ {
			fmt.Fprintf(&b, "const s%d = s%d + s%d\n", i, i-1, i-1)
		}
		fmt.Fprintf(&b, "\nfunc main() {\n\tprintln(len(s%d))\n}\n", n)
		return b.String()
	case "string-double":
		return mainOf(fmt.Sprintf("\ts := \"ab\"\n\tfor i := 0; i < %d; i++ {\n\t\ts += s\n\t}\n\tprintln(len(s))", n))
	case "recursion":
		return hd + "func f(n int) int { return f(n+1) + 1 }\n\nfunc main() {\n\tprintln(f(0))\n}\n"
	case "recursion-mutual":
		return hd + "func f(n int) int { return g(n+1) + 1 }\nfunc g(n int) int { return f(n+1) + 1 }\n\nfunc main() {\n\tprintln(f(0))\n}\n"
	case "recursion-closure":
		return mainOf("\tvar f func(int) int\n\tf = func(n int) int { return f(n+1) + 1 }\n\tprintln(f(0))")
	case "recursion-defer":
		return hd + "func f() { defer f(); panic(\"x\") }\n\nfunc main() {\n\tf()\n}\n"
	case "alloc-make":
		return mainOf(fmt.Sprintf("\tn := %d\n\ts := make([]int, n)\n\tprintln(len(s))", n))
	case "alloc-make-byte":
		return mainOf(fmt.Sprintf("\tn := %d\n\ts := make([]byte, n)\n\tprintln(len(s))", n))
	case "alloc-append-loop":
		return mainOf("\ts := []int{1}\n\tfor {\n\t\ts = append(s, s...)\n\t}")
	case "alloc-map-loop":
		return mainOf("\tm := map[int]int{}\n\tfor i := 0; ; i++ {\n\t\tm[i] = i\n\t}")
	case "loop-forever":
		return mainOf("\tfor {\n\t}")
	case "loop-defer":
		return mainOf("\tfor {\n\t\tdefer func() {}()\n\t}")
	case "goto-loop":
		return mainOf("L:\n\tgoto L")
	case "rec-type-struct":
		return hd + "type T struct{ t T }\n\nfunc main() {\n\tvar x T\n\t_ = x\n}\n"
	case "rec-type-array":
		return hd + "type T [2]T\n\nfunc main() {\n\tvar x T\n\t_ = x\n}\n"
	case "rec-type-slice":
		return hd + "type T []T\n\nfunc main() {\n\tx := T{nil, T{}}\n\tprintln(len(x))\n}\n"
	case "rec-type-map":
		return hd + "type T map[string]T\n\nfunc main() {\n\tx := T{\"a\": T{}}\n\tprintln(len(x[\"a\"]))\n}\n"
	case "rec-type-func":
		return hd + "type F func(F) F\n\nfunc main() {\n\tvar f F\n\tf = func(g F) F { return g }\n\tprintln(f(f) != nil)\n}\n"
	case "rec-type-iface":
		return hd + "type I interface{ M() I }\ntype T struct{}\n\nfunc (t T) M() I { return t }\n\nfunc main() {\n\tvar i I = T{}\n\tprintln(i.M() != nil)\n}\n"
	case "rec-type-iface-embed":
		return hd + "type I interface{ I }\n\nfunc main() {\n\tvar i I\n\t_ = i\n}\n"
	case "rec-type-mutual":
		return hd + "type A struct{ b B }\ntype B struct{ a A }\n\nfunc main() {\n\tvar x A\n\t_ = x\n}\n"
	case "rec-type-len":
		return hd + "type T [len(T{})]int\n\nfunc main() {\n\tvar x T\n\t_ = x\n}\n"
	case "init-cycle":
		return hd + "var a = b\nvar b = a\n\nfunc main() {\n\tprintln(a)\n}\n"
	case "sparse-lit":
		return mainOf(fmt.Sprintf("\tx := []int{%d: 1}\n\tprintln(len(x))", n))
	case "sparse-arr":
		return mainOf(fmt.Sprintf("\tvar x [%d]int\n\tprintln(len(x))", n))
	case "huge-array-type":
		return hd + fmt.Sprintf("type T [%d]int\n\nfunc main() {\n\tvar p *T\n\tprintln(p == nil)\n}\n", n)
	case "many-vars":
		var b strings.Builder
		for i := 0; i < n; i++ {
			fmt.Fprintf(&b, "\tv%d := %d\n\t_ = v%d\n", i, i, i)
		}
		return mainOf(b.String() + "\tprintln(1)")
	case "many-cases":
		var b strings.Builder
		b.WriteString("\ty := 3\n\tswitch y {\n")
		for i := 0; i < n; i++ {
			fmt.Fprintf(&b, "\tcase %d:\n\t\tprintln(%d)\n", i, i)
		}
		return mainOf(b.String() + "\t}")
	case "many-args":
		args := make([]string, n)
		for i := range args {
			args[i] = strconv.Itoa(i)
		}
		return hd + "func f(xs ...int) int { return len(xs) }\n\nfunc main() {\n\tprintln(f(" + strings.Join(args, ", ") + "))\n}\n"
	case "long-concat":
		return mainOf("\ts := \"a\"\n\tt := s" + rep(" + s", n) + "\n\tprintln(len(t))")
	case "unsupported-go":
		return mainOf("\tgo func() {}()")
	case "unsupported-chan":
		return mainOf("\tc := make(chan int, 1)\n\tc <- 1\n\tprintln(<-c)")
	case "unsupported-generic":
		return hd + "func id[T any](x T) T { return x }\n\nfunc main() {\n\tprintln(id(1))\n}\n"
	case "shadow-builtin":
		return mainOf("\tint := 3\n\tprintln(int)")
	case "const-div-zero":
		return mainOf("\tx := 1 / 0\n\tprintln(x)")
	case "const-shift-neg":
		return mainOf("\tx := 1 << -1\n\tprintln(x)")
	case "const-conv-overflow":
		return mainOf("\tx := int8(300)\n\tprintln(x)")
	case "nul-byte":
		return mainOf("\tprintln(\"a\x00b\")\x00")
	case "bad-utf8":
		return mainOf("\tx\xff := 1\n\tprintln(x\xff)")
	case "empty":
		return ""
	case "no-main":
		return hd + "func f() {}\n"
	case "import-unknown":
		return hd + "import \"nosuch/pkg\"\n\nfunc main() {\n\tpkg.F()\n}\n"
	case "panic-nil":
		return mainOf("\tpanic(nil)")
	case "recover-loop":
		return hd + "func f(n int) {\n\tdefer func() {\n\t\tif recover() != nil && n > 0 {\n\t\t\tf(n - 1)\n\t\t}\n\t}()\n\tpanic(n)\n}\n\nfunc main() {\n\tf(" + strconv.Itoa(n) + ")\n\tprintln(\"done\")\n}\n"
	case "deep-recover":
		return mainOf(rep("func() { defer func() { recover() }(); ", n) + "panic(1)" + rep(" }()", n))
	case "method-value-rec":
		return hd + "type T struct{ n int }\n\nfunc (t T) M() int { f := t.M; return f() + 1 }\n\nfunc main() {\n\tprintln(T{}.M())\n}\n"
	case "big-struct":
		var b strings.Builder
		b.WriteString(hd + "type T struct {\n")
		for i := 0; i < n; i++ {
			fmt.Fprintf(&b, "\tF%d int\n", i)
		}
		b.WriteString("}\n\nfunc main() {\n\tvar t T\n\tu := t\n\tprintln(u == t)\n}\n")
		return b.String()
	case "label-maze":
		var b strings.Builder
		b.WriteString("\ti := 0\n")
		for k := 0; k < n; k++ {
			fmt.Fprintf(&b, "L%d:\n\ti++\n\tif i < %d {\n\t\tgoto L%d\n\t}\n", k, k+2, k)
		}
		return mainOf(b.String() + "\tprintln(i)")
	}
	return hd + "func main() {}\n"
}

// RepoDir is the gnolang/gno checkout the harness runs against.
func RepoDir() string {
	if d := os.Getenv("VERIF_REPO"); d != "" {
		return d
	}
	return "/repo"
}
