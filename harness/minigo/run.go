package minigo

import (
	"bytes"
	"context"
	"encoding/hex"
	"fmt"
	"os"
	"os/exec"
	"path/filepath"
	"regexp"
	"runtime"
	"strconv"
	"strings"
	"time"

	gno "github.com/gnolang/gno/gnovm/pkg/gnolang"
	"github.com/gnolang/gno/gnovm/pkg/test"
	stypes "github.com/gnolang/gno/tm2/pkg/store/types"
)

// ---------------------------------------------------------------- rendered unit

// Unit is one program rendered as source text with its runner function.
type Unit struct {
	Prefix string
	Text   string // declarations (no package clause), including <Prefix>run
}

// RunnerSrc is appended to every rendered program: it calls the entry function
// and reports how it ended.  The same text runs in the GnoVM and natively, so
// both sides classify a panic value with the language's own type switch.
func RunnerSrc(pfx, entry string) string {
	return fmt.Sprintf(`func %srun() (k string, s string, n int) {
	defer func() {
		if r := recover(); r != nil {
			switch v := r.(type) {
			case string:
				k, s = "s", v
			case int:
				k, n = "i", v
			case error:
				k, s = "e", v.Error()
			default:
				k = "o"
			}
		}
	}()
	%s()
	return "ok", "", 0
}
`, pfx, entry)
}

func MakeUnit(p *Program, idx int) Unit {
	pfx := fmt.Sprintf("P%d_", idx)
	return Unit{Prefix: pfx, Text: Render(p, pfx) + RunnerSrc(pfx, EntryName(p, pfx))}
}

// ---------------------------------------------------------------- canonical outcome

// Outcome of running one program on one executor.
type Outcome struct {
	Status string // ok | panic:<class> | panic:user s:<esc> | panic:user i:<n> | panic:user o | limit:<what> | crash:<what> | err:<what>
	Output []byte // everything printed
}

const hexdigits = "0123456789abcdef"

// EscBody is the canonical form of printed output: printable ASCII except
// `| \ ~ #` is kept, a newline becomes `|`, everything else is \xHH.
func EscBody(out []byte) string {
	var b strings.Builder
	for _, c := range out {
		switch {
		case c == '\n':
			b.WriteByte('|')
		case c >= 0x20 && c <= 0x7e && c != '|' && c != '\\' && c != '~' && c != '#':
			b.WriteByte(c)
		default:
			b.WriteString(`\x`)
			b.WriteByte(hexdigits[c>>4])
			b.WriteByte(hexdigits[c&15])
		}
	}
	return b.String()
}

func fnv1a(s string) uint32 {
	h := uint32(2166136261)
	for i := 0; i < len(s); i++ {
		h ^= uint32(s[i])
		h *= 16777619
	}
	return h
}

// Line is the canonical one-line form compared with the model's output.
func (o Outcome) Line() string {
	b := EscBody(o.Output)
	if os.Getenv("C04_FULL") == "" && len(b) > 300 {
		b = b[:200] + "~" + strconv.FormatUint(uint64(fnv1a(b)), 10) + "~" + strconv.Itoa(len(b))
	}
	if b == "" {
		return o.Status
	}
	return o.Status + " " + b
}

type rule struct {
	re  *regexp.Regexp
	cls string
}

// run-time error messages of the GnoVM (typedRuntimeError call sites)
var gnoRules = []rule{
	{regexp.MustCompile(`^runtime error: division by zero`), "divzero"},
	{regexp.MustCompile(`^runtime error: negative shift amount`), "negshift"},
	{regexp.MustCompile(`^runtime error: (index out of range|slice index out of bounds|nil slice index \(out of bounds\))`), "bounds"},
	{regexp.MustCompile(`^runtime error: (slice bounds out of range|invalid slice index|nil slice index out of range)`), "bounds"},
	{regexp.MustCompile(`^runtime error: (nil pointer dereference|call of nil function)`), "nilderef"},
	{regexp.MustCompile(`^runtime error: uninitialized map index`), "nilmap"},
	{regexp.MustCompile(`^runtime error: makeslice: (len|cap) out of range`), "makeslice"},
	{regexp.MustCompile(`^runtime error: comparing uncomparable type`), "uncomparable"},
	{regexp.MustCompile(`( is not of type |^interface conversion: |doesn't implement )`), "typeassert"},
}

// run-time error messages of Go's runtime
var goRules = []rule{
	{regexp.MustCompile(`^runtime error: integer divide by zero`), "divzero"},
	{regexp.MustCompile(`^runtime error: negative shift amount`), "negshift"},
	{regexp.MustCompile(`^runtime error: index out of range`), "bounds"},
	{regexp.MustCompile(`^runtime error: slice bounds out of range`), "bounds"},
	{regexp.MustCompile(`^runtime error: invalid memory address or nil pointer dereference`), "nilderef"},
	{regexp.MustCompile(`^assignment to entry in nil map`), "nilmap"},
	{regexp.MustCompile(`^runtime error: makeslice: (len|cap) out of range`), "makeslice"},
	{regexp.MustCompile(`^runtime error: comparing uncomparable type`), "uncomparable"},
	{regexp.MustCompile(`^interface conversion: `), "typeassert"},
}

// statusOf maps the runner's (k, s, n) to the canonical status.
func statusOf(rules []rule, k, s string, n int64) string {
	switch k {
	case "ok":
		return "ok"
	case "s":
		return "panic:user s:" + EscBody([]byte(s))
	case "i":
		return "panic:user i:" + strconv.FormatInt(n, 10)
	case "e":
		for _, r := range rules {
			if r.re.MatchString(s) {
				return "panic:" + r.cls
			}
		}
		return "panic:other e:" + EscBody([]byte(s))
	}
	return "panic:user o"
}

// ---------------------------------------------------------------- GnoVM executor

// GnoVM runs rendered programs in-process (same construction as
// harness/gnorun and gnovm/cmd/gno/run.go), with a gas limit as the
// termination guard and an allocation cap.
type GnoVM struct {
	root  string
	out   *bytes.Buffer
	store gno.Store
	n     int
	// Gas is the per-program gas limit (0 = default).
	Gas      int64
	MaxAlloc int64
}

func NewGnoVM(root string) *GnoVM {
	g := &GnoVM{root: root, out: &bytes.Buffer{}}
	g.reset()
	return g
}

func (g *GnoVM) reset() {
	_, g.store = test.ProdStore(g.root, test.OutputWithError(g.out, g.out), nil)
	g.n = 0
}

// classifyEscape maps a Go panic that left the VM to an outcome class.
// Sanctioned (C11): a Gno panic, out of gas, the allocation limit, and — while
// loading — a preprocess / type error.  Everything else is a fault of the
// interpreter: a Go run-time error anywhere, or any other Go panic once the
// program has been preprocessed and is running.
func classifyEscape(v any, phase string) (status string) {
	switch e := v.(type) {
	case gno.UnhandledPanicError, *gno.UnhandledPanicError:
		return "panic:escaped"
	case stypes.OutOfGasError:
		return "limit:gas"
	case *gno.PreprocessError:
		if _, ok := e.Unwrap().(runtime.Error); ok {
			return "crash:runtime-error"
		}
		return "err:preprocess"
	}
	if strings.Contains(fmt.Sprint(v), "allocation limit exceeded") {
		return "limit:alloc"
	}
	if _, ok := v.(runtime.Error); ok {
		return "crash:runtime-error"
	}
	if phase == "run" {
		return "crash:vm-panic"
	}
	return "err:load"
}

// Run loads the unit as package main and evaluates <prefix>run().
func (g *GnoVM) Run(u Unit) (oc Outcome, detail string) {
	if g.n >= 400 { // bound the store's growth
		g.reset()
	}
	g.n++
	g.out.Reset()
	gas := g.Gas
	if gas == 0 {
		gas = 3_000_000_000
	}
	maxAlloc := g.MaxAlloc
	if maxAlloc == 0 {
		maxAlloc = 512 << 20
	}
	path := fmt.Sprintf("gno.land/r/c04/p%d", g.n)
	m := gno.NewMachineWithOptions(gno.MachineOptions{
		Output:        test.OutputWithError(g.out, g.out),
		Store:         g.store,
		Context:       test.Context("", path, nil),
		GasMeter:      stypes.NewGasMeter(gas),
		MaxAllocBytes: maxAlloc,
	})
	phase := "load"
	defer func() {
		if v := recover(); v != nil {
			st := classifyEscape(v, phase)
			oc = Outcome{Status: st, Output: append([]byte(nil), g.out.Bytes()...)}
			detail = phase + ": " + firstLine(fmt.Sprint(v))
		}
	}()
	pn := gno.NewPackageNode("main", path, &gno.FileSet{})
	pv := pn.NewPackage(m.Alloc)
	m.Store.SetBlockNode(pn)
	m.Store.SetCachePackage(pv)
	m.SetActivePackage(pv)
	fn := m.MustParseFile("main.gno", "package main\n\n"+u.Text)
	m.RunFiles(fn)
	phase = "run"
	vals := m.Eval(gno.Call(gno.Nx(u.Prefix + "run")))
	if len(vals) != 3 {
		return Outcome{Status: "err:runner", Output: append([]byte(nil), g.out.Bytes()...)}, "runner results"
	}
	k, s, n := vals[0].GetString(), vals[1].GetString(), vals[2].GetInt()
	return Outcome{Status: statusOf(gnoRules, k, s, n), Output: append([]byte(nil), g.out.Bytes()...)}, s
}

func firstLine(s string) string {
	if i := strings.IndexByte(s, '\n'); i >= 0 {
		s = s[:i]
	}
	if len(s) > 200 {
		s = s[:200]
	}
	return s
}

// ---------------------------------------------------------------- native Go executor

// Native compiles many units into ONE binary (one package, one file per
// unit) in a temp module and runs it; a unit that does not compile is
// reported as err:compile and the rest is rebuilt without it.
type Native struct {
	Dir     string
	Timeout time.Duration // per run of the batch binary
}

func NewNative() (*Native, error) {
	dir := fmt.Sprintf("/tmp/c04-%d", os.Getpid())
	if err := os.MkdirAll(dir, 0o755); err != nil {
		return nil, err
	}
	return &Native{Dir: dir, Timeout: 120 * time.Second}, nil
}

func (nv *Native) Close() { os.RemoveAll(nv.Dir) }

var compileErrRe = regexp.MustCompile(`(?m)^(?:\./)?u(\d+)\.go:\d+`)

func (nv *Native) goEnv() []string {
	env := []string{}
	for _, kv := range os.Environ() {
		if strings.HasPrefix(kv, "GOTOOLCHAIN=") || strings.HasPrefix(kv, "GOSUMDB=") || strings.HasPrefix(kv, "GOFLAGS=") || strings.HasPrefix(kv, "GOPROXY=") {
			continue
		}
		env = append(env, kv)
	}
	return append(env, "GOFLAGS=-mod=mod", "GOPROXY=off")
}

// RunBatch returns one outcome per unit (same order).
func (nv *Native) RunBatch(units []Unit) []Outcome {
	res := make([]Outcome, len(units))
	done := make([]bool, len(units))
	batch := 0
	for {
		// units still to run
		var todo []int
		for i := range units {
			if !done[i] {
				todo = append(todo, i)
			}
		}
		if len(todo) == 0 {
			return res
		}
		batch++
		dir := filepath.Join(nv.Dir, fmt.Sprintf("b%d", batch))
		os.RemoveAll(dir)
		os.MkdirAll(dir, 0o755)
		os.WriteFile(filepath.Join(dir, "go.mod"), []byte("module c04batch\n\ngo 1.23\n"), 0o644)
		var mainSrc strings.Builder
		mainSrc.WriteString("package main\n\nimport (\n\t\"encoding/hex\"\n\t\"os\"\n\t\"strconv\"\n)\n\n")
		mainSrc.WriteString("func emit(tag string, i int, k, s string, n int) {\n\tos.Stderr.WriteString(\"\\n@@\" + tag + \" \" + strconv.Itoa(i) + \" \" + k + \" \" + strconv.Itoa(n) + \" x\" + hex.EncodeToString([]byte(s)) + \"\\n\")\n}\n\n")
		mainSrc.WriteString("func main() {\n\tstart := 0\n\tif len(os.Args) > 1 {\n\t\tstart, _ = strconv.Atoi(os.Args[1])\n\t}\n")
		for _, i := range todo {
			fmt.Fprintf(&mainSrc, "\tif %d >= start {\n\t\temit(\"B\", %d, \"-\", \"\", 0)\n\t\tk, s, n := %srun()\n\t\temit(\"E\", %d, k, s, n)\n\t}\n", i, i, units[i].Prefix, i)
			os.WriteFile(filepath.Join(dir, fmt.Sprintf("u%d.go", i)), []byte("package main\n\n"+units[i].Text), 0o644)
		}
		mainSrc.WriteString("}\n")
		os.WriteFile(filepath.Join(dir, "main.go"), []byte(mainSrc.String()), 0o644)
		cmd := exec.Command("go", "build", "-gcflags=-e", "-o", "batch.bin", ".")
		cmd.Dir = dir
		cmd.Env = nv.goEnv()
		outb, err := cmd.CombinedOutput()
		if err != nil {
			bad := map[int]string{}
			for _, m := range compileErrRe.FindAllStringSubmatchIndex(string(outb), -1) {
				idx, _ := strconv.Atoi(string(outb[m[2]:m[3]]))
				if _, ok := bad[idx]; !ok {
					end := bytes.IndexByte(outb[m[0]:], '\n')
					if end < 0 {
						end = len(outb) - m[0]
					}
					bad[idx] = string(outb[m[0] : m[0]+end])
				}
			}
			if len(bad) == 0 {
				// toolchain failure: nothing can be said about any unit
				for _, i := range todo {
					res[i] = Outcome{Status: "err:toolchain " + EscBody([]byte(firstLine(string(outb))))}
					done[i] = true
				}
				return res
			}
			for i, msg := range bad {
				res[i] = Outcome{Status: "err:compile " + EscBody([]byte(msg))}
				done[i] = true
			}
			continue
		}
		// run (possibly several times: a fatal error or a hang ends a run early)
		start := todo[0]
		for {
			ctx, cancel := context.WithTimeout(context.Background(), nv.Timeout)
			// address-space cap: a generated program that would eat the machine dies alone
			run := exec.CommandContext(ctx, "/bin/sh", "-c",
				"ulimit -v 8000000; exec "+filepath.Join(dir, "batch.bin")+" "+strconv.Itoa(start))
			var stderr bytes.Buffer
			run.Stderr = &stderr
			run.Stdout = &stderr
			rerr := run.Run()
			timedOut := ctx.Err() != nil
			cancel()
			last := parseBatchOutput(stderr.Bytes(), res, done)
			if last < 0 {
				break // every started unit finished
			}
			// unit `last` began but did not end
			st := "crash:fatal"
			if timedOut {
				st = "limit:timeout"
			}
			_ = rerr
			res[last].Status = st
			done[last] = true
			start = last + 1
			more := false
			for _, i := range todo {
				if i >= start && !done[i] {
					more = true
				}
			}
			if !more {
				break
			}
		}
		for _, i := range todo {
			if !done[i] {
				res[i] = Outcome{Status: "err:norun"}
				done[i] = true
			}
		}
	}
}

// parseBatchOutput fills outcomes of finished units; returns the index of a
// unit that began but never ended (-1 if none).
func parseBatchOutput(out []byte, res []Outcome, done []bool) int {
	cur := -1
	var body []byte
	lines := bytes.Split(out, []byte("\n"))
	// The markers are written as "\n@@X ...\n": the marker line is always a
	// whole line; the "\n" before it belongs to the marker, not to the program.
	i := 0
	flushLine := func(l []byte, last bool) {
		body = append(body, l...)
		if !last {
			body = append(body, '\n')
		}
	}
	for i < len(lines) {
		l := lines[i]
		if bytes.HasPrefix(l, []byte("@@B ")) || bytes.HasPrefix(l, []byte("@@E ")) {
			f := strings.Fields(string(l))
			if len(f) == 5 {
				idx, _ := strconv.Atoi(f[1])
				// drop the "\n" that precedes the marker
				if n := len(body); n > 0 && body[n-1] == '\n' {
					body = body[:n-1]
				}
				if f[0] == "@@B" {
					cur = idx
					body = body[:0]
				} else if idx == cur && idx >= 0 && idx < len(res) {
					n, _ := strconv.ParseInt(f[3], 10, 64)
					sb, _ := hex.DecodeString(strings.TrimPrefix(f[4], "x"))
					res[idx] = Outcome{Status: statusOf(goRules, f[2], string(sb), n), Output: append([]byte(nil), body...)}
					done[idx] = true
					cur = -1
					body = body[:0]
				}
				i++
				continue
			}
		}
		flushLine(l, i == len(lines)-1)
		i++
	}
	if cur >= 0 && cur < len(res) {
		res[cur] = Outcome{Output: append([]byte(nil), body...)}
	}
	return cur
}
