package minigo

// fixUnused makes the program acceptable to Go's "declared and not used"
// rule.  The generator emits a candidate `_ = v` at the end of the scope of
// every local variable; this pass keeps a candidate only when v is never
// read (conservatively: a variable that only occurs as the root of an
// assignment target counts as unread), and drops range / type-switch
// bindings that are never read.  Local names are unique program-wide.
func fixUnused(p *Program) {
	reads := map[string]bool{}
	var walkE func(e *Expr)
	var walkL func(e *Expr)
	var walkS func(ss []*Stmt)
	walkE = func(e *Expr) {
		if e == nil {
			return
		}
		if e.Op == "v" {
			reads[e.Name] = true
			return
		}
		for _, a := range e.Args {
			walkE(a)
		}
	}
	walkL = func(e *Expr) {
		switch e.Op {
		case "v":
		case "idx":
			walkL(e.Args[0])
			walkE(e.Args[1])
		case "fld", "pfld", "deref":
			walkL(e.Args[0])
		default:
			walkE(e)
		}
	}
	isBlankUse := func(s *Stmt) bool {
		return s.Op == "set" && len(s.Lvs) == 1 && len(s.Es) == 1 && s.Lvs[0].Op == "v" && s.Lvs[0].Name == "_" && s.Es[0].Op == "v"
	}
	walkS = func(ss []*Stmt) {
		for _, s := range ss {
			if s == nil || isBlankUse(s) {
				continue
			}
			switch s.Op {
			case "set", "opset", "inc", "dec":
				for _, l := range s.Lvs {
					walkL(l)
				}
			default:
				for _, l := range s.Lvs {
					walkE(l)
				}
			}
			walkE(s.E)
			for _, e := range s.Es {
				walkE(e)
			}
			walkS([]*Stmt{s.Init, s.Post, s.S})
			walkS(s.Body)
			walkS(s.Else)
			for _, c := range s.Cls {
				for _, e := range c.Exprs {
					walkE(e)
				}
				walkS(c.Body)
			}
		}
	}
	for _, f := range p.Funcs {
		walkS(f.Body)
	}
	for _, g := range p.Globals {
		walkE(g.E)
	}
	var prune func(ss []*Stmt) []*Stmt
	prune = func(ss []*Stmt) []*Stmt {
		out := ss[:0:0]
		for _, s := range ss {
			if s == nil {
				continue
			}
			if isBlankUse(s) && reads[s.Es[0].Name] {
				continue
			}
			switch s.Op {
			case "range":
				if s.K != "" && !reads[s.K] {
					s.K = ""
				}
				if s.V != "" && !reads[s.V] {
					s.V = ""
				}
			case "tswitch":
				if s.K != "" && !reads[s.K] {
					s.K = ""
				}
			}
			if s.S != nil {
				s.S = prune([]*Stmt{s.S})[0]
			}
			s.Body = prune(s.Body)
			s.Else = prune(s.Else)
			for _, c := range s.Cls {
				c.Body = prune(c.Body)
			}
			out = append(out, s)
		}
		return out
	}
	for _, f := range p.Funcs {
		f.Body = prune(f.Body)
	}
}
