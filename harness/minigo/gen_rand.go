package minigo

import "gnoverif/kit"

// RandomProgram is the structured random generator (see gen_rand.go).
func RandomProgram(r *kit.Rand) *Program {
	t := IntT(kit.Pick(r, IntNames))
	return mainOnly([]*Stmt{SVar("x", t, Lit(t, randVal(r, t))), SPrint(Bin("mul", V("x", t), V("x", t)))})
}
