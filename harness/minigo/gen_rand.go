package minigo

import (
	"fmt"
	"math/big"

	"gnoverif/kit"
)

// The structured random generator.  It builds well-typed, terminating
// programs whose behaviour the Go specification fixes completely:
//
//   * every expression built in "safe" mode cannot panic (divisors are forced
//     odd, shift counts non-negative, indices reduced modulo a statically
//     known length, pointers and written maps are non-nil);
//   * deliberate panics ("risky" operations) appear one per statement, with a
//     plain variable on the left, so that no two run-time panics compete
//     inside one statement (the spec leaves their order open, and gc and the
//     GnoVM differ there);
//   * function calls appear only as a whole statement / right-hand side, with
//     call-free arguments (order of evaluation against variable reads is
//     unspecified otherwise);
//   * capacity after a growing append is never observed: a slice variable is
//     either FIXED (assigned once, exact len/cap known statically; appends in
//     place only when they fit, otherwise the result is clipped in the next
//     statement) or GROW (unshared, only `v = append(v, …)`);
//   * operators never get all-constant operands (typed constant overflow is a
//     compile error), except in trees validated with exact arithmetic;
//   * every declared variable is read (or `_ = v` is emitted), every label is
//     used.

type vrole int

const (
	rPlain vrole = iota // freely assignable
	rRO                 // never assigned after its declaration
	rFixed              // slice: exact L, C; string: exact L; assigned once
	rGrow               // unshared growable slice, len ≥ L
)

type vinfo struct {
	name   string
	t      *Type
	role   vrole
	used   bool
	L, C   int   // rFixed slice: len, cap; rFixed string: len; rGrow: min len
	nonNil bool  // map / pointer known non-nil
	dyn    *Type // `any` variable assigned once: its dynamic type (nil = nil interface)
	hasDyn bool
	param  bool
	frozen bool // not to be grown while a loop over it is being generated
}

type helper struct {
	idx     int
	name    string
	params  []*Type
	results []*Type
	// recovers: the function (or one it calls) recovers a panic of its own.
	// Such a function is never called from a function literal: a literal may
	// run as a deferred call while another panic unwinds, and the GnoVM then
	// abandons the literal (known finding `nested-recover-abandons-defer`).
	recovers bool
}

type loopCtx struct {
	label   string // candidate label
	used    *bool
	isLoop  bool // false: switch
}

type G struct {
	r        *kit.Rand
	p        *Program
	scopes   [][]*vinfo
	nv, nl   int
	budget   int
	helpers  []*helper
	loops    []loopCtx
	results  []Field // of the function being generated
	named    bool
	risky    bool
	loopDeep int
	inLit    int
	recs     []recInfo
	// boundedStr: see strExpr
	boundedStr bool
	// calledRecoverer: the function being generated calls a recovering helper
	calledRecoverer bool
}

func (g *G) fresh(pfx string) string { g.nv++; return fmt.Sprintf("%s%d", pfx, g.nv) }
func (g *G) freshLabel() string      { g.nl++; return fmt.Sprintf("L%d", g.nl) }

func (g *G) push() { g.scopes = append(g.scopes, nil) }

// pop closes a scope and returns `_ = v` statements for unread variables.
func (g *G) pop() []*Stmt {
	top := g.scopes[len(g.scopes)-1]
	g.scopes = g.scopes[:len(g.scopes)-1]
	var out []*Stmt
	for _, v := range top {
		if !v.param {
			out = append(out, SUse(V(v.name, v.t))) // pruned by fixUnused when v is read somewhere
		}
	}
	return out
}

func (g *G) declare(v *vinfo) *vinfo {
	g.scopes[len(g.scopes)-1] = append(g.scopes[len(g.scopes)-1], v)
	return v
}

func (g *G) vars(pred func(*vinfo) bool) []*vinfo {
	var out []*vinfo
	for _, sc := range g.scopes {
		for _, v := range sc {
			if pred(v) {
				out = append(out, v)
			}
		}
	}
	return out
}

func (g *G) use(v *vinfo) *Expr { v.used = true; return V(v.name, v.t) }

func isConst(e *Expr) bool {
	switch e.Op {
	case "i", "b", "s", "c":
		return true
	case "conv", "neg", "compl", "pos", "not":
		return isConst(e.Args[0])
	case "add", "sub", "mul", "quo", "rem", "and", "or", "xor", "andnot", "shl", "shr", "eq", "ne", "lt", "le", "gt", "ge", "cat", "land", "lor":
		return isConst(e.Args[0]) && isConst(e.Args[1])
	case "len":
		return e.Args[0].Op == "s" || e.Args[0].T.Kind == TArr
	}
	return false
}

var scalarIntNames = IntNames

func (g *G) randIntType() *Type {
	if g.r.Chance(30) {
		return IntT("int")
	}
	return IntT(kit.Pick(g.r, scalarIntNames))
}

// ---------------------------------------------------------------- expressions (safe mode)

// nonConstInt returns a non-constant expression of integer type t.
func (g *G) nonConstInt(t *Type) *Expr {
	vs := g.vars(func(v *vinfo) bool { return v.t.Kind == TInt && v.t.IT == t.IT })
	if len(vs) > 0 && g.r.Chance(80) {
		return g.use(kit.Pick(g.r, vs))
	}
	vs = g.vars(func(v *vinfo) bool { return v.t.Kind == TInt })
	if len(vs) > 0 {
		v := kit.Pick(g.r, vs)
		if v.t.IT == t.IT {
			return g.use(v)
		}
		return Conv(t, g.use(v))
	}
	// no integer variable at all: the length of some container, or give up with a literal
	cs := g.vars(func(v *vinfo) bool { return v.t.Kind == TSlice || v.t.Kind == TStr || v.t.Kind == TMap })
	if len(cs) > 0 {
		e := Len(g.use(kit.Pick(g.r, cs)))
		if t.IT == "int" {
			return e
		}
		return Conv(t, e)
	}
	return nil
}

func (g *G) intLit(t *Type) *Expr {
	e := Lit(t, randVal(g.r, t))
	return e
}

func (g *G) smallLit(t *Type, max int) *Expr { return LitI(t, int64(g.r.Intn(max+1))) }

// intExpr builds a panic-free expression of integer type t.
func (g *G) intExpr(t *Type, d int) *Expr {
	if d <= 0 || g.r.Chance(22) {
		return g.intLeaf(t)
	}
	switch g.r.Intn(14) {
	case 0, 1, 2, 3:
		op := kit.Pick(g.r, arithOps)
		return g.binInt(op, t, d)
	case 4:
		op := kit.Pick(g.r, []string{"quo", "rem"})
		a := g.intExpr(t, d-1)
		b := Bin("or", g.intExpr(t, d-1), LitI(t, 1))
		if isConst(a) && isConst(b) {
			if nc := g.nonConstInt(t); nc != nil {
				a = nc
			} else {
				return g.intLeaf(t)
			}
		}
		return Bin(op, a, b)
	case 5, 6:
		op := kit.Pick(g.r, []string{"shl", "shr"})
		a := g.intExpr(t, d-1)
		cnt := g.shiftCount(d - 1)
		if isConst(a) && isConst(cnt) {
			if nc := g.nonConstInt(t); nc != nil {
				a = nc
			} else {
				return g.intLeaf(t)
			}
		}
		return Bin(op, a, cnt)
	case 7:
		a := g.intExpr(t, d-1)
		if isConst(a) {
			return a
		}
		return Un(kit.Pick(g.r, []string{"neg", "compl", "pos"}), a)
	case 8, 9:
		s := g.randIntType()
		a := g.intExpr(s, d-1)
		if isConst(a) || s.IT == t.IT {
			return g.intLeaf(t)
		}
		return Conv(t, a)
	case 10:
		if e := g.elemRead(t, d-1); e != nil {
			return e
		}
		return g.intLeaf(t)
	case 11:
		if t.IT == "int" {
			cs := g.vars(func(v *vinfo) bool {
				return v.t.Kind == TSlice || v.t.Kind == TStr || v.t.Kind == TMap || v.t.Kind == TArr
			})
			if len(cs) > 0 {
				v := kit.Pick(g.r, cs)
				if v.t.Kind == TSlice && v.role == rFixed && g.r.Chance(30) {
					return Cap(g.use(v))
				}
				return Len(g.use(v))
			}
		}
		return g.intLeaf(t)
	case 12:
		if g.r.Chance(50) {
			return CE(t, validCExpr(g.r, t))
		}
		e, _ := typedConst(g.r, t, 2)
		return e
	default:
		return g.binInt(kit.Pick(g.r, arithOps), t, d)
	}
}

func (g *G) binInt(op string, t *Type, d int) *Expr {
	a := g.intExpr(t, d-1)
	b := g.intExpr(t, d-1)
	if isConst(a) && isConst(b) {
		nc := g.nonConstInt(t)
		if nc == nil {
			return a
		}
		if g.r.Bool() {
			a = nc
		} else {
			b = nc
		}
	}
	// a bare literal operand now and then (untyped constant converted by context)
	if b.Op == "i" && !isConst(a) && g.r.Chance(50) {
		b.Bare = true
	} else if a.Op == "i" && !isConst(b) && g.r.Chance(30) {
		a.Bare = true
	}
	return Bin(op, a, b)
}

func (g *G) intLeaf(t *Type) *Expr {
	if g.r.Chance(60) {
		if e := g.nonConstInt(t); e != nil {
			return e
		}
	}
	return g.intLit(t)
}

// shiftCount: an unsigned expression, a masked signed one, or a small literal.
func (g *G) shiftCount(d int) *Expr {
	switch g.r.Intn(4) {
	case 0:
		return &Expr{Op: "i", T: IntT("int"), Int: big.NewInt(int64(g.r.Intn(70))), Bare: true}
	case 1:
		ut := IntT(kit.Pick(g.r, []string{"u8", "u16", "u32", "u64", "uint"}))
		e := g.intExpr(ut, d)
		if g.r.Chance(70) {
			// keep most counts below the width so that results are not all zero
			if !isConst(e) {
				return Bin("and", e, &Expr{Op: "i", T: ut, Int: big.NewInt(int64(kit.Pick(g.r, []int{7, 15, 31, 63}))), Bare: true})
			}
		}
		return e
	default:
		st := IntT(kit.Pick(g.r, []string{"i8", "i16", "i32", "i64", "int"}))
		e := g.nonConstInt(st)
		if e == nil {
			return &Expr{Op: "i", T: IntT("int"), Int: big.NewInt(int64(g.r.Intn(40))), Bare: true}
		}
		return Bin("and", e, LitI(st, int64(kit.Pick(g.r, []int{7, 15, 31, 63}))))
	}
}

// safeIndex returns an index expression in [0, n) (n ≥ 1).
func (g *G) safeIndex(n int, d int) *Expr {
	if g.r.Chance(45) || n == 1 {
		return &Expr{Op: "i", T: IntT("int"), Int: big.NewInt(int64(g.r.Intn(n))), Bare: true}
	}
	ut := IntT(kit.Pick(g.r, []string{"uint", "u8", "u16", "u32", "u64"}))
	e := g.nonConstInt(ut)
	if e == nil {
		return &Expr{Op: "i", T: IntT("int"), Int: big.NewInt(int64(g.r.Intn(n))), Bare: true}
	}
	if g.r.Chance(40) {
		e = Bin("add", e, g.smallLit(ut, 9))
	}
	if n > ut.maxInt() {
		return e
	}
	return Bin("rem", e, LitI(ut, int64(n)))
}

func (t *Type) maxInt() int {
	if t.Max().IsInt64() && t.Max().Int64() < 1<<30 {
		return int(t.Max().Int64())
	}
	return 1 << 30
}

// elemRead: a panic-free read of an element / field of type t from some container variable.
func (g *G) elemRead(t *Type, d int) *Expr {
	type cand func() *Expr
	var cs []cand
	for _, v := range g.vars(func(*vinfo) bool { return true }) {
		v := v
		switch v.t.Kind {
		case TArr:
			if v.t.Elem.Eq(t) && v.t.N > 0 {
				cs = append(cs, func() *Expr { return Index(g.use(v), g.safeIndex(v.t.N, d)) })
			}
		case TSlice:
			if v.t.Elem.Eq(t) && v.L > 0 {
				cs = append(cs, func() *Expr { return Index(g.use(v), g.safeIndex(v.L, d)) })
			}
		case TStr:
			if t.Kind == TInt && t.IT == "u8" && v.role == rFixed && v.L > 0 {
				cs = append(cs, func() *Expr { return Index(g.use(v), g.safeIndex(v.L, d)) })
			}
		case TMap:
			if v.t.Elem.Eq(t) {
				cs = append(cs, func() *Expr { return Index(g.use(v), g.expr(v.t.Key, 1)) })
			}
		case TStruct:
			decl := g.p.structDecl(v.t.Name)
			for i, f := range decl.Fields {
				i := i
				if f.T.Eq(t) {
					cs = append(cs, func() *Expr { return FieldOf(g.p, g.use(v), i) })
				}
			}
		case TPtr:
			if !v.nonNil {
				continue
			}
			if v.t.Elem.Eq(t) {
				cs = append(cs, func() *Expr { return Deref(g.use(v)) })
			}
			if v.t.Elem.Kind == TStruct {
				decl := g.p.structDecl(v.t.Elem.Name)
				for i, f := range decl.Fields {
					i := i
					if f.T.Eq(t) {
						cs = append(cs, func() *Expr { return FieldOf(g.p, g.use(v), i) })
					}
				}
			}
		}
	}
	if len(cs) == 0 {
		return nil
	}
	return kit.Pick(g.r, cs)()
}

func (g *G) boolExpr(d int) *Expr {
	if d <= 0 {
		vs := g.vars(func(v *vinfo) bool { return v.t.Kind == TBool })
		if len(vs) > 0 && g.r.Chance(60) {
			return g.use(kit.Pick(g.r, vs))
		}
		return g.cmpExpr(0)
	}
	switch g.r.Intn(8) {
	case 0, 1, 2, 3:
		return g.cmpExpr(d)
	case 4:
		return Bin("land", g.boolExpr(d-1), g.boolExpr(d-1))
	case 5:
		return Bin("lor", g.boolExpr(d-1), g.boolExpr(d-1))
	case 6:
		e := g.boolExpr(d - 1)
		if isConst(e) {
			return e
		}
		return Un("not", e)
	default:
		if e := g.elemRead(BoolT, d-1); e != nil {
			return e
		}
		return g.cmpExpr(d)
	}
}

// cmpExpr never returns an all-constant comparison: besides being folded by
// both compilers, an untyped-bool constant mixed with a typed bool operand
// trips known finding `untyped-bool-rejected` (see known_findings/C04.json).
func (g *G) cmpExpr(d int) *Expr {
	if g.r.Chance(20) {
		op := kit.Pick(g.r, cmpOpList)
		a, b := g.strExpr(d-1), g.strExpr(d-1)
		if isConst(a) && isConst(b) {
			vs := g.vars(func(v *vinfo) bool { return v.t.Kind == TStr })
			if len(vs) > 0 {
				a = g.use(kit.Pick(g.r, vs))
			}
		}
		if !(isConst(a) && isConst(b)) {
			return Bin(op, a, b)
		}
	}
	t := g.randIntType()
	// prefer a type that has variables
	vs := g.vars(func(v *vinfo) bool { return v.t.Kind == TInt })
	if len(vs) > 0 && g.r.Chance(80) {
		t = kit.Pick(g.r, vs).t
	}
	a := g.intExpr(t, d-1)
	b := g.intExpr(t, d-1)
	if isConst(a) && isConst(b) {
		if nc := g.nonConstInt(t); nc != nil {
			a = nc
		}
	}
	if b.Op == "i" && !isConst(a) && g.r.Chance(50) {
		b.Bare = true
	}
	return Bin(kit.Pick(g.r, cmpOpList), a, b)
}

// shiftAssignCount: the count of `x <<= n` / `x >>= n`.  Only an untyped
// constant or a `uint` expression: a count of any other typed integer type
// trips known finding `shift-assign-narrow-count`.
func (g *G) shiftAssignCount() *Expr {
	if g.r.Bool() {
		return &Expr{Op: "i", T: IntT("int"), Int: big.NewInt(int64(g.r.Intn(70))), Bare: true}
	}
	e := g.nonConstInt(IntT("uint"))
	if e == nil {
		return &Expr{Op: "i", T: IntT("int"), Int: big.NewInt(int64(g.r.Intn(70))), Bare: true}
	}
	if g.r.Chance(70) {
		return Bin("and", e, &Expr{Op: "i", T: IntT("uint"), Int: big.NewInt(int64(kit.Pick(g.r, []int{7, 15, 31, 63}))), Bare: true})
	}
	return e
}

var strAlphabet = []string{"a", "b", "c", "x", "y", "z", "0", "1", "9", " ", "-", "é", "世", "ß", " ", "Ω", "q", "k"}

func (g *G) strLitVal() string {
	n := g.r.Intn(6)
	s := ""
	for i := 0; i < n; i++ {
		s += kit.Pick(g.r, strAlphabet)
	}
	if g.r.Chance(4) {
		s += "\xff"
	}
	return s
}

func (g *G) strExpr(d int) *Expr {
	if d <= 0 || g.r.Chance(30) {
		// boundedStr: the value is being stored into a string location; only
		// immutable strings may feed it, so that no chain of assignments can double a
		// string per loop iteration (`s += s`, `a = b + b; b = a + a`, …)
		vs := g.vars(func(v *vinfo) bool { return v.t.Kind == TStr && (!g.boundedStr || v.role == rFixed) })
		if len(vs) > 0 && g.r.Chance(65) {
			return g.use(kit.Pick(g.r, vs))
		}
		return StrLit(g.strLitVal())
	}
	switch g.r.Intn(7) {
	case 0, 1:
		return Bin("cat", g.strExpr(d-1), g.strExpr(d-1))
	case 2:
		// substring of a fixed string variable, constant bounds
		vs := g.vars(func(v *vinfo) bool { return v.t.Kind == TStr && v.role == rFixed })
		if len(vs) > 0 {
			v := kit.Pick(g.r, vs)
			lo := g.r.Intn(v.L + 1)
			hi := lo + g.r.Intn(v.L-lo+1)
			var le, he *Expr
			if lo > 0 || g.r.Bool() {
				le = &Expr{Op: "i", T: IntT("int"), Int: big.NewInt(int64(lo)), Bare: true}
			}
			if hi < v.L || g.r.Bool() {
				he = &Expr{Op: "i", T: IntT("int"), Int: big.NewInt(int64(hi)), Bare: true}
			}
			return Slice(g.use(v), le, he, nil)
		}
		return StrLit(g.strLitVal())
	case 3:
		// string(rune(e))
		e := g.nonConstInt(IntT("i32"))
		if e == nil {
			return StrLit(g.strLitVal())
		}
		if g.r.Chance(70) {
			e = Bin("and", e, LitI(IntT("i32"), int64(kit.Pick(g.r, []int{0x7f, 0x7ff, 0xffff, 0x1fffff}))))
		}
		return Conv(StrT, e)
	case 4:
		// string(byte slice variable)
		vs := g.vars(func(v *vinfo) bool { return v.t.Kind == TSlice && v.t.Elem.Kind == TInt && v.t.Elem.IT == "u8" })
		if len(vs) > 0 {
			return Conv(StrT, g.use(kit.Pick(g.r, vs)))
		}
		return StrLit(g.strLitVal())
	case 5:
		if !g.boundedStr {
			if e := g.elemRead(StrT, d-1); e != nil {
				return e
			}
		}
		return StrLit(g.strLitVal())
	default:
		return StrLit(g.strLitVal())
	}
}

// expr builds a panic-free expression of a scalar type (int kinds, bool, string).
func (g *G) expr(t *Type, d int) *Expr {
	switch t.Kind {
	case TInt:
		return g.intExpr(t, d)
	case TBool:
		return g.boolExpr(d)
	case TStr:
		return g.strExpr(d)
	}
	return g.value(t)
}

// value builds a fresh value of any type (literals / make / zero for composites).
func (g *G) value(t *Type) *Expr {
	// values are stored somewhere (elements, fields, map entries, arguments): keep strings bounded
	saved := g.boundedStr
	g.boundedStr = true
	defer func() { g.boundedStr = saved }()
	switch t.Kind {
	case TInt, TBool, TStr:
		return g.expr(t, 1)
	case TArr:
		n := t.N
		k := n
		if g.r.Chance(30) {
			k = g.r.Intn(n + 1)
		}
		var es []*Expr
		for i := 0; i < k; i++ {
			es = append(es, g.value(t.Elem))
		}
		return ArrLit(t.Elem, n, es...)
	case TSlice:
		n := 1 + g.r.Intn(4)
		var es []*Expr
		for i := 0; i < n; i++ {
			es = append(es, g.value(t.Elem))
		}
		return SliceLit(t.Elem, es...)
	case TStruct:
		d := g.p.structDecl(t.Name)
		var es []*Expr
		for _, f := range d.Fields {
			es = append(es, g.value(f.T))
		}
		return StructLit(t, es...)
	case TMap:
		return MakeMap(t.Key, t.Elem)
	case TPtr:
		if t.Elem.Kind == TStruct && g.r.Bool() {
			return AddrLit(g.value(t.Elem))
		}
		return New(t.Elem)
	case TAny:
		inner := g.scalarType()
		return Box(g.expr(inner, 1))
	}
	panic("value of " + t.SExp())
}

func (g *G) scalarType() *Type {
	switch g.r.Intn(10) {
	case 0, 1:
		return BoolT
	case 2, 3:
		return StrT
	}
	return g.randIntType()
}

// ---------------------------------------------------------------- statements

func (g *G) printable() []*Expr {
	n := 1 + g.r.Intn(3)
	var es []*Expr
	for i := 0; i < n; i++ {
		es = append(es, g.expr(g.scalarType(), 2))
	}
	return es
}

func (g *G) block(n int) []*Stmt {
	g.push()
	var out []*Stmt
	for i := 0; i < n && g.budget > 0; i++ {
		out = append(out, g.stmt()...)
	}
	out = append(out, g.pop()...)
	return out
}

func (g *G) declScalar() []*Stmt {
	t := g.scalarType()
	name := g.fresh("v")
	var st *Stmt
	// a chain of string declarations `v2 := v1 + v1 …` would multiply lengths too
	g.boundedStr = t.Kind == TStr
	defer func() { g.boundedStr = false }()
	switch g.r.Intn(3) {
	case 0:
		e := g.expr(t, 2)
		if e.Op == "i" {
			e.Bare = false
		}
		st = SDef(g.typedBool(e), name)
	case 1:
		e := g.expr(t, 2)
		if e.Op == "i" && g.r.Bool() {
			e.Bare = true
		}
		st = SVar(name, t, e)
	default:
		st = SVar(name, t, nil)
	}
	g.declare(&vinfo{name: name, t: t})
	return []*Stmt{st}
}

func (g *G) declFixedString() []*Stmt {
	s := g.strLitVal() + kit.Pick(g.r, strAlphabet) + kit.Pick(g.r, strAlphabet)
	name := g.fresh("s")
	g.declare(&vinfo{name: name, t: StrT, role: rFixed, L: len(s)})
	return []*Stmt{SDef(StrLit(s), name)}
}

// assignable scalar lvalues: plain variables, elements, fields.
func (g *G) scalarLvalue() *Expr {
	type cand func() *Expr
	var cs []cand
	for _, v := range g.vars(func(*vinfo) bool { return true }) {
		v := v
		switch v.t.Kind {
		case TInt, TBool, TStr:
			if v.role == rPlain && !v.frozen {
				cs = append(cs, func() *Expr { return V(v.name, v.t) }, func() *Expr { return V(v.name, v.t) })
			}
		case TArr:
			if v.role != rRO && v.t.N > 0 && isScalar(v.t.Elem) {
				cs = append(cs, func() *Expr { return Index(g.use(v), g.safeIndex(v.t.N, 1)) })
			}
		case TSlice:
			if v.L > 0 && isScalar(v.t.Elem) {
				cs = append(cs, func() *Expr { return Index(g.use(v), g.safeIndex(v.L, 1)) })
			}
		case TMap:
			if v.nonNil && isScalar(v.t.Elem) {
				cs = append(cs, func() *Expr { return Index(g.use(v), g.expr(v.t.Key, 1)) })
			}
		case TStruct:
			if v.role == rRO {
				continue
			}
			for i, f := range g.p.structDecl(v.t.Name).Fields {
				i := i
				if isScalar(f.T) {
					cs = append(cs, func() *Expr { return FieldOf(g.p, V(v.name, v.t), i) })
				}
			}
		case TPtr:
			if !v.nonNil {
				continue
			}
			if isScalar(v.t.Elem) {
				cs = append(cs, func() *Expr { return Deref(g.use(v)) })
			}
			if v.t.Elem.Kind == TStruct {
				for i, f := range g.p.structDecl(v.t.Elem.Name).Fields {
					i := i
					if isScalar(f.T) {
						cs = append(cs, func() *Expr { return FieldOf(g.p, g.use(v), i) })
					}
				}
			}
		}
	}
	if len(cs) == 0 {
		return nil
	}
	return kit.Pick(g.r, cs)()
}

func isScalar(t *Type) bool { return t.Kind == TInt || t.Kind == TBool || t.Kind == TStr }

func (g *G) assign() []*Stmt {
	lv := g.scalarLvalue()
	if lv == nil {
		return g.declScalar()
	}
	t := lv.T
	switch {
	case t.Kind == TInt && g.r.Chance(35):
		op := kit.Pick(g.r, arithOps)
		rhs := g.intExpr(t, 2)
		if rhs.Op == "i" && g.r.Bool() {
			rhs.Bare = true
		}
		return []*Stmt{SOpSet(op, lv, rhs)}
	case t.Kind == TInt && g.r.Chance(15):
		op := kit.Pick(g.r, []string{"quo", "rem"})
		return []*Stmt{SOpSet(op, lv, Bin("or", g.intExpr(t, 1), LitI(t, 1)))}
	case t.Kind == TInt && g.r.Chance(15):
		return []*Stmt{SOpSet(kit.Pick(g.r, []string{"shl", "shr"}), lv, g.shiftAssignCount())}
	case t.Kind == TInt && g.r.Chance(25):
		if g.r.Bool() {
			return []*Stmt{SInc(lv)}
		}
		return []*Stmt{SDec(lv)}
	case t.Kind == TStr && g.r.Chance(40):
		g.boundedStr = true
		rhs := g.strExpr(1)
		g.boundedStr = false
		return []*Stmt{SOpSet("add", lv, rhs)}
	}
	g.boundedStr = t.Kind == TStr
	rhs := g.expr(t, 2)
	g.boundedStr = false
	if rhs.Op == "i" && g.r.Bool() {
		rhs.Bare = true
	}
	return []*Stmt{SSet(lv, rhs)}
}

func (g *G) ifStmt() []*Stmt {
	c := g.boolExpr(2)
	th := g.block(1 + g.r.Intn(3))
	var el []*Stmt
	if g.r.Chance(50) {
		el = g.block(1 + g.r.Intn(2))
	}
	if len(th) == 0 {
		th = []*Stmt{SPrint(StrLit("t"))}
	}
	return []*Stmt{SIf(c, th, el)}
}

// jump: a break / continue of some enclosing loop or switch, guarded by a condition.
func (g *G) jump() []*Stmt {
	if len(g.loops) == 0 {
		return nil
	}
	lc := g.loops[g.r.Intn(len(g.loops))]
	innermost := g.loops[len(g.loops)-1]
	var st *Stmt
	isInner := lc.used == innermost.used
	if !lc.isLoop {
		if !isInner && !g.r.Chance(30) {
			return nil
		}
		// break out of a switch
		if isInner && g.r.Bool() {
			st = SBreak("")
		} else {
			*lc.used = true
			st = SBreak(lc.label)
		}
	} else {
		kind := "break"
		if g.r.Bool() {
			kind = "continue"
		}
		// an unlabelled break inside a switch would leave the switch, not the loop
		innermostLoopIsTarget := isInner
		if innermostLoopIsTarget && g.r.Bool() {
			st = &Stmt{Op: kind}
		} else {
			*lc.used = true
			st = &Stmt{Op: kind, Name: lc.label}
		}
	}
	return []*Stmt{SIf(g.boolExpr(1), []*Stmt{SPrint(StrLit("j")), st}, nil)}
}

func (g *G) forStmt() []*Stmt {
	if g.loopDeep >= 2 {
		return g.printStmt()
	}
	g.loopDeep++
	defer func() { g.loopDeep-- }()
	label := g.freshLabel()
	used := false
	n := 1 + g.r.Intn(4)
	it := g.randIntType()
	if it.Max().Cmp(big.NewInt(100)) < 0 {
		it = IntT("int")
	}
	i := g.fresh("i")
	g.push()
	iv := g.declare(&vinfo{name: i, t: it, role: rRO, param: true})
	g.loops = append(g.loops, loopCtx{label: label, used: &used, isLoop: true})
	var st *Stmt
	switch g.r.Intn(4) {
	case 0, 1: // for i := 0; i < n; i++
		body := g.block(1 + g.r.Intn(3))
		iv.used = true
		st = SFor("", SDef(LitI(it, 0), i), Bin("lt", V(i, it), LitI(it, int64(n))), SInc(V(i, it)), body)
	case 2: // counting down with a compound post statement
		body := g.block(1 + g.r.Intn(3))
		iv.used = true
		st = SFor("", SDef(LitI(it, int64(2*n)), i), Bin("gt", V(i, it), LitI(it, 0)), SOpSet("sub", V(i, it), LitI(it, 2)), body)
	default: // condition-only loop over a counter declared before
		body := g.block(1 + g.r.Intn(3))
		iv.used = true
		body = append([]*Stmt{SInc(V(i, it))}, body...)
		inner := &Stmt{Op: "for", E: Bin("lt", V(i, it), LitI(it, int64(n))), Body: body}
		g.loops = g.loops[:len(g.loops)-1]
		extra := g.pop()
		if used {
			inner.Label = label
			return append([]*Stmt{SVar(i, it, nil), SLabel(label, inner)}, extra...)
		}
		return append([]*Stmt{SVar(i, it, nil), inner}, extra...)
	}
	g.loops = g.loops[:len(g.loops)-1]
	g.pop()
	if used {
		st.Label = label
		return []*Stmt{SLabel(label, st)}
	}
	return []*Stmt{st}
}

func (g *G) rangeStmt() []*Stmt {
	if g.loopDeep >= 2 {
		return g.printStmt()
	}
	// The trip count must not be able to feed itself: a container that can grow
	// (reassignable string, growable slice) is ranged over only outside every
	// other loop, and is frozen (no growth) while its loop body is generated —
	// otherwise `for range s { for range s { s += "x" } }` grows exponentially.
	outer := g.loopDeep == 0
	cs := g.vars(func(v *vinfo) bool {
		switch v.t.Kind {
		case TArr:
			return v.t.N > 0
		case TSlice:
			return v.role != rGrow || outer
		case TStr:
			return v.role == rFixed || outer
		}
		return false
	})
	if len(cs) == 0 {
		return g.declSlice()
	}
	g.loopDeep++
	defer func() { g.loopDeep-- }()
	c := kit.Pick(g.r, cs)
	if !c.frozen && (c.role == rGrow || (c.t.Kind == TStr && c.role != rFixed)) {
		c.frozen = true
		defer func() { c.frozen = false }()
	}
	label := g.freshLabel()
	used := false
	k, v := g.fresh("k"), g.fresh("e")
	g.push()
	kv := g.declare(&vinfo{name: k, t: IntT("int"), role: rRO, param: true})
	et := elemType(c.t)
	if c.t.Kind == TStr {
		et = IntT("i32")
	}
	vv := g.declare(&vinfo{name: v, t: et, role: rRO, param: true})
	if !isScalar(et) {
		vv.role = rRO
	}
	g.loops = append(g.loops, loopCtx{label: label, used: &used, isLoop: true})
	body := g.block(1 + g.r.Intn(3))
	g.loops = g.loops[:len(g.loops)-1]
	if !kv.used && !vv.used && g.r.Bool() {
		body = append(body, SPrint(V(k, kv.t)))
		kv.used = true
	}
	g.pop()
	st := &Stmt{Op: "range", Name: containerKind(c.t), K: k, V: v, E: g.use(c), Body: body}
	if used {
		st.Label = label
		return []*Stmt{SLabel(label, st)}
	}
	return []*Stmt{st}
}

func (g *G) switchStmt() []*Stmt {
	label := g.freshLabel()
	used := false
	g.loops = append(g.loops, loopCtx{label: label, used: &used, isLoop: false})
	var tag *Expr
	var tt *Type
	if g.r.Chance(70) {
		tt = g.scalarType()
		if tt.Kind == TBool {
			tt = IntT("int")
		}
		tag = g.expr(tt, 2)
		if tag.Op == "i" {
			tag.Bare = false
		}
	}
	n := 2 + g.r.Intn(3)
	var cls []*Clause
	seen := map[string]bool{}
	defAt := -1
	if g.r.Chance(70) {
		defAt = g.r.Intn(n + 1)
	}
	for i := 0; i <= n; i++ {
		if i == defAt {
			cls = append(cls, &Clause{Default: true})
			continue
		}
		if i == n {
			break
		}
		cl := &Clause{}
		m := 1 + g.r.Intn(2)
		for j := 0; j < m; j++ {
			var e *Expr
			if tag == nil {
				e = g.boolExpr(1)
				if isConst(e) {
					continue // duplicate constant cases are compile errors
				}
			} else if tt.Kind == TInt {
				// constant cases must be distinct; tag is compared for equality
				if isConst(tag) || g.r.Chance(75) {
					e = Lit(tt, randVal(g.r, tt))
					if g.r.Chance(50) {
						e = LitI(tt, int64(g.r.Intn(4)))
					}
					if seen[e.Int.String()] {
						continue
					}
					seen[e.Int.String()] = true
				} else {
					e = g.nonConstInt(tt)
					if e == nil {
						continue
					}
				}
			} else {
				s := g.strLitVal()
				if seen[s] {
					continue
				}
				seen[s] = true
				e = StrLit(s)
			}
			cl.Exprs = append(cl.Exprs, e)
		}
		if len(cl.Exprs) == 0 {
			continue
		}
		cls = append(cls, cl)
	}
	for i, cl := range cls {
		cl.Body = g.block(1 + g.r.Intn(2))
		if i < len(cls)-1 && g.r.Chance(25) {
			// the clause itself declares nothing (its statements sit in an inner
			// block): falling through from a clause with more locals than the next
			// one trips known finding `fallthrough-block-shrink`
			cl.Body = []*Stmt{SBlock(cl.Body...), SFallthrough()}
		}
	}
	g.loops = g.loops[:len(g.loops)-1]
	if len(cls) == 0 {
		return g.printStmt()
	}
	st := &Stmt{Op: "switch", E: tag, Cls: cls}
	if used {
		st.Label = label
		return []*Stmt{SLabel(label, st)}
	}
	return []*Stmt{st}
}

func (g *G) printStmt() []*Stmt { return []*Stmt{SPrint(g.printable()...)} }

// ---------------------------------------------------------------- composite declarations

func (g *G) elemTypeChoice() *Type {
	switch g.r.Intn(8) {
	case 0:
		return StrT
	case 1:
		return BoolT
	case 2:
		if len(g.p.Types) > 0 {
			return StructT(kit.Pick(g.r, g.p.Types).Name)
		}
	}
	return g.randIntType()
}

func (g *G) declSlice() []*Stmt {
	et := g.elemTypeChoice()
	if g.r.Chance(25) {
		et = IntT("u8")
	}
	name := g.fresh("sl")
	switch g.r.Intn(4) {
	case 0: // literal, fixed
		n := 1 + g.r.Intn(4)
		var es []*Expr
		for i := 0; i < n; i++ {
			es = append(es, g.value(et))
		}
		g.declare(&vinfo{name: name, t: SliceT(et), role: rFixed, L: n, C: n})
		return []*Stmt{SDef(SliceLit(et, es...), name)}
	case 1: // make with spare capacity, fixed
		n := g.r.Intn(4)
		c := n + g.r.Intn(4)
		g.declare(&vinfo{name: name, t: SliceT(et), role: rFixed, L: n, C: c})
		ne := &Expr{Op: "i", T: IntT("int"), Int: big.NewInt(int64(n)), Bare: true}
		ce := &Expr{Op: "i", T: IntT("int"), Int: big.NewInt(int64(c)), Bare: true}
		if c == n && g.r.Bool() {
			return []*Stmt{SDef(MakeSlice(et, ne, nil), name)}
		}
		return []*Stmt{SDef(MakeSlice(et, ne, ce), name)}
	case 2: // growable
		n := g.r.Intn(3)
		var es []*Expr
		for i := 0; i < n; i++ {
			es = append(es, g.value(et))
		}
		g.declare(&vinfo{name: name, t: SliceT(et), role: rGrow, L: n})
		if n == 0 && g.r.Bool() {
			return []*Stmt{SVar(name, SliceT(et), nil)}
		}
		return []*Stmt{SDef(SliceLit(et, es...), name)}
	default: // []byte(string)
		s := g.strLitVal() + "k"
		g.declare(&vinfo{name: name, t: SliceT(IntT("u8")), role: rGrow, L: len(s)})
		return []*Stmt{SDef(Conv(SliceT(IntT("u8")), StrLit(s)), name)}
	}
}

// sliceOps: re-slicing, in-place append, clipped growth, copy — on FIXED slices.
func (g *G) sliceOp() []*Stmt {
	fixed := g.vars(func(v *vinfo) bool { return v.t.Kind == TSlice && v.role == rFixed })
	grow := g.vars(func(v *vinfo) bool { return v.t.Kind == TSlice && v.role == rGrow && !v.frozen })
	ci := func(n int) *Expr { return &Expr{Op: "i", T: IntT("int"), Int: big.NewInt(int64(n)), Bare: true} }
	switch k := g.r.Intn(7); {
	case k <= 1 && len(grow) > 0: // v = append(v, …)
		v := kit.Pick(g.r, grow)
		n := 1 + g.r.Intn(3)
		var xs []*Expr
		for i := 0; i < n; i++ {
			xs = append(xs, g.typedBool(g.value(v.t.Elem)))
		}
		v.used = true
		return []*Stmt{SSet(V(v.name, v.t), Append(V(v.name, v.t), xs...))}
	case k == 2 && len(fixed) > 0: // sub-slice into a new fixed variable
		v := kit.Pick(g.r, fixed)
		lo := g.r.Intn(v.L + 1)
		hi := lo + g.r.Intn(v.C-lo+1)
		if g.r.Chance(60) && hi > v.L {
			hi = lo + g.r.Intn(v.L-lo+1)
		}
		name := g.fresh("sl")
		var le, he, me *Expr
		if lo > 0 || g.r.Bool() {
			le = ci(lo)
		}
		if hi != v.L || g.r.Bool() {
			he = ci(hi)
		}
		c := v.C - lo
		if g.r.Chance(30) {
			mx := hi + g.r.Intn(v.C-hi+1)
			me = ci(mx)
			c = mx - lo
			if he == nil {
				he = ci(hi)
			}
		}
		g.declare(&vinfo{name: name, t: v.t, role: rFixed, L: hi - lo, C: c})
		return []*Stmt{SDef(Slice(g.use(v), le, he, me), name)}
	case k == 3 && len(fixed) > 0: // append: in place when it fits, otherwise clipped
		v := kit.Pick(g.r, fixed)
		n := 1 + g.r.Intn(3)
		var xs []*Expr
		for i := 0; i < n; i++ {
			xs = append(xs, g.typedBool(g.value(v.t.Elem)))
		}
		name := g.fresh("sl")
		app := Append(g.use(v), xs...)
		if v.L+n <= v.C {
			g.declare(&vinfo{name: name, t: v.t, role: rFixed, L: v.L + n, C: v.C})
			return []*Stmt{SDef(app, name)}
		}
		nv := g.declare(&vinfo{name: name, t: v.t, role: rFixed, L: v.L + n, C: v.L + n})
		nv.used = true
		clip := Slice(V(name, v.t), nil, Len(V(name, v.t)), Len(V(name, v.t)))
		return []*Stmt{SDef(app, name), SSet(V(name, v.t), clip)}
	case k == 4 && len(fixed)+len(grow) > 0: // copy
		all := append(append([]*vinfo{}, fixed...), grow...)
		dst := kit.Pick(g.r, all)
		var srcs []*vinfo
		for _, s := range all {
			if s.t.Eq(dst.t) {
				srcs = append(srcs, s)
			}
		}
		src := kit.Pick(g.r, srcs)
		var se *Expr = g.use(src)
		if dst.t.Elem.Kind == TInt && dst.t.Elem.IT == "u8" && g.r.Chance(40) {
			se = g.strExpr(1)
		}
		name := g.fresh("n")
		g.declare(&vinfo{name: name, t: IntT("int"), role: rRO})
		return []*Stmt{SDef(Copy(g.use(dst), se), name)}
	case k == 5 && len(fixed) > 0: // append(s, t...) within capacity or clipped
		v := kit.Pick(g.r, fixed)
		var srcs []*vinfo
		for _, s := range fixed {
			if s.t.Eq(v.t) {
				srcs = append(srcs, s)
			}
		}
		src := kit.Pick(g.r, srcs)
		name := g.fresh("sl")
		app := AppendSl(g.use(v), g.use(src))
		n := src.L
		if v.L+n <= v.C {
			g.declare(&vinfo{name: name, t: v.t, role: rFixed, L: v.L + n, C: v.C})
			return []*Stmt{SDef(app, name)}
		}
		nv := g.declare(&vinfo{name: name, t: v.t, role: rFixed, L: v.L + n, C: v.L + n})
		nv.used = true
		clip := Slice(V(name, v.t), nil, Len(V(name, v.t)), Len(V(name, v.t)))
		return []*Stmt{SDef(app, name), SSet(V(name, v.t), clip)}
	}
	return g.declSlice()
}

func (g *G) declArray() []*Stmt {
	et := g.elemTypeChoice()
	n := 1 + g.r.Intn(4)
	name := g.fresh("ar")
	t := ArrT(n, et)
	if g.r.Chance(25) {
		g.declare(&vinfo{name: name, t: t})
		return []*Stmt{SVar(name, t, nil)}
	}
	val := g.value(t)
	g.declare(&vinfo{name: name, t: t})
	return []*Stmt{SDef(val, name)}
}

// arrayOp: copy by value, comparison, slicing an array variable.
func (g *G) arrayOp() []*Stmt {
	as := g.vars(func(v *vinfo) bool { return v.t.Kind == TArr })
	if len(as) == 0 {
		return g.declArray()
	}
	a := kit.Pick(g.r, as)
	switch g.r.Intn(3) {
	case 0:
		name := g.fresh("ar")
		g.declare(&vinfo{name: name, t: a.t})
		return []*Stmt{SDef(g.use(a), name)}
	case 1:
		var same []*vinfo
		for _, b := range as {
			if b.t.Eq(a.t) {
				same = append(same, b)
			}
		}
		b := kit.Pick(g.r, same)
		if comparable(g.p, a.t) {
			return []*Stmt{SPrint(Bin(kit.Pick(g.r, []string{"eq", "ne"}), g.use(a), g.use(b)))}
		}
		return g.declArray()
	default:
		if a.role == rRO || a.t.N == 0 {
			return g.declArray()
		}
		lo := g.r.Intn(a.t.N + 1)
		hi := lo + g.r.Intn(a.t.N-lo+1)
		name := g.fresh("sl")
		ci := func(n int) *Expr { return &Expr{Op: "i", T: IntT("int"), Int: big.NewInt(int64(n)), Bare: true} }
		var le, he *Expr
		if lo > 0 {
			le = ci(lo)
		}
		if hi < a.t.N || g.r.Bool() {
			he = ci(hi)
		}
		g.declare(&vinfo{name: name, t: SliceT(a.t.Elem), role: rFixed, L: hi - lo, C: a.t.N - lo})
		return []*Stmt{SDef(Slice(g.use(a), le, he, nil), name)}
	}
}

func comparable(p *Program, t *Type) bool {
	switch t.Kind {
	case TInt, TBool, TStr, TPtr:
		return true
	case TArr:
		return comparable(p, t.Elem)
	case TStruct:
		for _, f := range p.structDecl(t.Name).Fields {
			if !comparable(p, f.T) {
				return false
			}
		}
		return true
	}
	return false
}

func (g *G) declStruct() []*Stmt {
	if len(g.p.Types) == 0 {
		return g.declScalar()
	}
	t := StructT(kit.Pick(g.r, g.p.Types).Name)
	name := g.fresh("st")
	switch g.r.Intn(4) {
	case 0:
		g.declare(&vinfo{name: name, t: t})
		return []*Stmt{SVar(name, t, nil)}
	case 1:
		val := AddrLit(g.value(t))
		g.declare(&vinfo{name: name, t: PtrT(t), nonNil: true})
		return []*Stmt{SDef(val, name)}
	case 2:
		// pointer to an existing struct variable
		vs := g.vars(func(v *vinfo) bool { return v.t.Kind == TStruct && v.t.Eq(t) && v.role != rRO })
		if len(vs) > 0 {
			g.declare(&vinfo{name: name, t: PtrT(t), nonNil: true})
			return []*Stmt{SDef(Addr(g.use(kit.Pick(g.r, vs))), name)}
		}
	}
	val := g.value(t)
	g.declare(&vinfo{name: name, t: t})
	return []*Stmt{SDef(val, name)}
}

func (g *G) structOp() []*Stmt {
	vs := g.vars(func(v *vinfo) bool { return v.t.Kind == TStruct })
	if len(vs) == 0 {
		return g.declStruct()
	}
	a := kit.Pick(g.r, vs)
	switch g.r.Intn(3) {
	case 0: // copy
		name := g.fresh("st")
		g.declare(&vinfo{name: name, t: a.t})
		return []*Stmt{SDef(g.use(a), name)}
	case 1: // compare
		var same []*vinfo
		for _, b := range vs {
			if b.t.Eq(a.t) {
				same = append(same, b)
			}
		}
		if comparable(g.p, a.t) {
			return []*Stmt{SPrint(Bin(kit.Pick(g.r, []string{"eq", "ne"}), g.use(a), g.use(kit.Pick(g.r, same))))}
		}
	}
	if a.role == rRO {
		return g.declStruct()
	}
	return []*Stmt{SSet(V(a.name, a.t), g.value(a.t))}
}

func (g *G) mapKeyType() *Type {
	switch g.r.Intn(4) {
	case 0:
		return StrT
	case 1:
		return BoolT
	}
	return g.randIntType()
}

func (g *G) declMap() []*Stmt {
	kt, vt := g.mapKeyType(), g.elemTypeChoice()
	name := g.fresh("m")
	t := MapT(kt, vt)
	switch g.r.Intn(4) {
	case 0:
		g.declare(&vinfo{name: name, t: t, nonNil: false, role: rRO})
		return []*Stmt{SVar(name, t, nil)}
	case 1:
		g.declare(&vinfo{name: name, t: t, nonNil: true, role: rRO})
		return []*Stmt{SDef(MakeMap(kt, vt), name)}
	}
	n := 1 + g.r.Intn(3)
	var kvs []*Expr
	seen := map[string]bool{}
	for i := 0; i < n; i++ {
		var k *Expr
		switch kt.Kind {
		case TStr:
			k = StrLit(g.strLitVal())
		case TBool:
			k = BoolLit(g.r.Bool())
		default:
			k = Lit(kt, randVal(g.r, kt))
			if g.r.Bool() {
				k = LitI(kt, int64(g.r.Intn(5)))
			}
		}
		key := k.SExp()
		if k.Op == "i" {
			key = k.Int.String()
		}
		if seen[key] {
			continue
		}
		seen[key] = true
		kvs = append(kvs, k, g.value(vt))
	}
	g.declare(&vinfo{name: name, t: t, nonNil: true, role: rRO})
	return []*Stmt{SDef(MapLit(kt, vt, kvs...), name)}
}

func (g *G) mapKey(kt *Type) *Expr {
	switch kt.Kind {
	case TStr:
		if g.r.Chance(70) {
			return StrLit(g.strLitVal())
		}
		return g.strExpr(1)
	case TBool:
		return g.boolExpr(1)
	}
	if g.r.Chance(60) {
		return LitI(kt, int64(g.r.Intn(5)))
	}
	return g.intExpr(kt, 1)
}

func (g *G) mapOp() []*Stmt {
	ms := g.vars(func(v *vinfo) bool { return v.t.Kind == TMap })
	if len(ms) == 0 {
		return g.declMap()
	}
	m := kit.Pick(g.r, ms)
	switch g.r.Intn(5) {
	case 0: // comma-ok
		v, ok := g.fresh("v"), g.fresh("ok")
		rhs := IndexOk(g.use(m), g.mapKey(m.t.Key))
		g.declare(&vinfo{name: v, t: m.t.Elem, role: rRO})
		g.declare(&vinfo{name: ok, t: BoolT, role: rRO})
		return []*Stmt{SDef(rhs, v, ok)}
	case 1: // delete — rendered as a call of the builtin; modelled as an expression statement
		return []*Stmt{g.deleteStmt(m)}
	case 2:
		return []*Stmt{SPrint(Len(g.use(m)))}
	}
	if !m.nonNil {
		return []*Stmt{SPrint(Len(g.use(m)), Bin("eq", g.use(m), Nil(m.t)))}
	}
	return []*Stmt{SSet(Index(g.use(m), g.mapKey(m.t.Key)), g.value(m.t.Elem))}
}

func (g *G) deleteStmt(m *vinfo) *Stmt {
	return &Stmt{Op: "delete", Es: []*Expr{g.use(m), g.mapKey(m.t.Key)}}
}

func (g *G) pointerOp() []*Stmt {
	// pointer to a scalar variable, writes through it
	vs := g.vars(func(v *vinfo) bool { return isScalar(v.t) && v.role == rPlain && !v.frozen })
	if len(vs) == 0 {
		return g.declScalar()
	}
	v := kit.Pick(g.r, vs)
	name := g.fresh("p")
	pv := g.declare(&vinfo{name: name, t: PtrT(v.t), nonNil: true})
	pv.used = true
	g.boundedStr = true
	nv := g.expr(v.t, 1)
	g.boundedStr = false
	return []*Stmt{SDef(Addr(V(v.name, v.t)), name), SSet(Deref(V(name, pv.t)), nv), SPrint(g.use(v))}
}

// ---------------------------------------------------------------- interfaces

func (g *G) anyOp() []*Stmt {
	as := g.vars(func(v *vinfo) bool { return v.t.Kind == TAny })
	if len(as) == 0 || g.r.Chance(30) {
		name := g.fresh("a")
		if g.r.Chance(15) {
			g.declare(&vinfo{name: name, t: AnyT, role: rRO, hasDyn: true, dyn: nil})
			return []*Stmt{SVar(name, AnyT, nil)}
		}
		it := g.scalarType()
		b := Box(g.expr(it, 1))
		if g.r.Bool() {
			b.Implicit = true
		}
		g.declare(&vinfo{name: name, t: AnyT, role: rRO, hasDyn: true, dyn: it})
		return []*Stmt{SVar(name, AnyT, b)}
	}
	a := kit.Pick(g.r, as)
	switch g.r.Intn(4) {
	case 0: // comma-ok assertion
		t := g.scalarType()
		if a.hasDyn && a.dyn != nil && g.r.Bool() {
			t = a.dyn
		}
		v, ok := g.fresh("v"), g.fresh("ok")
		g.declare(&vinfo{name: v, t: t, role: rRO})
		g.declare(&vinfo{name: ok, t: BoolT, role: rRO})
		return []*Stmt{SDef(AssertOk(g.use(a), t), v, ok)}
	case 1: // panicking assertion on the known dynamic type
		if a.hasDyn && a.dyn != nil {
			v := g.fresh("v")
			g.declare(&vinfo{name: v, t: a.dyn, role: rRO})
			return []*Stmt{SDef(Assert(g.use(a), a.dyn), v)}
		}
	case 2:
		return []*Stmt{SPrint(Bin(kit.Pick(g.r, []string{"eq", "ne"}), g.use(a), Nil(AnyT)))}
	}
	return g.typeSwitch(a)
}

func (g *G) typeSwitch(a *vinfo) []*Stmt {
	bind := g.fresh("b")
	types := []*Type{IntT("int"), StrT, BoolT, IntT("i8"), IntT("u8"), IntT("i64"), IntT("u32"), IntT("i32")}
	if a.hasDyn && a.dyn != nil {
		types = append(types, a.dyn, a.dyn)
	}
	var cls []*Clause
	seen := map[string]bool{}
	n := 1 + g.r.Intn(3)
	anyUsed := false
	for i := 0; i < n; i++ {
		cl := &Clause{}
		m := 1
		if g.r.Chance(25) {
			m = 2
		}
		for j := 0; j < m; j++ {
			if g.r.Chance(10) && !seen["nil"] {
				seen["nil"] = true
				cl.Types = append(cl.Types, nil)
				continue
			}
			t := kit.Pick(g.r, types)
			if seen[t.SExp()] {
				continue
			}
			seen[t.SExp()] = true
			cl.Types = append(cl.Types, t)
		}
		if len(cl.Types) == 0 {
			continue
		}
		g.push()
		if len(cl.Types) == 1 && cl.Types[0] != nil && g.r.Chance(70) {
			bv := g.declare(&vinfo{name: bind, t: cl.Types[0], role: rRO, param: true})
			cl.Body = []*Stmt{SPrint(StrLit("case"), g.use(bv))}
			anyUsed = true
		} else {
			cl.Body = []*Stmt{SPrint(StrLit("case" + fmt.Sprint(i)))}
		}
		cl.Body = append(cl.Body, g.block(g.r.Intn(2))...)
		cl.Body = append(cl.Body, g.pop()...)
		cls = append(cls, cl)
	}
	if g.r.Chance(60) || len(cls) == 0 {
		cls = append(cls, &Clause{Default: true, Body: []*Stmt{SPrint(StrLit("default"))}})
	}
	if !anyUsed {
		bind = ""
	}
	return []*Stmt{STypeSwitch(bind, g.use(a), cls)} // fixUnused drops an unread binding
}

// ---------------------------------------------------------------- calls, closures, defer

func (g *G) argFor(t *Type) *Expr {
	vs := g.vars(func(v *vinfo) bool { return v.t.Eq(t) && (t.Kind != TPtr || v.nonNil) })
	if len(vs) > 0 && (g.r.Chance(60) || !isScalar(t)) {
		return g.use(kit.Pick(g.r, vs))
	}
	if isScalar(t) {
		return g.expr(t, 1)
	}
	return g.value(t)
}

func (g *G) callStmt() []*Stmt {
	var cands []*helper
	for _, h := range g.helpers {
		if g.inLit > 0 && h.recovers {
			continue
		}
		cands = append(cands, h)
	}
	if len(cands) == 0 {
		return g.printStmt()
	}
	h := kit.Pick(g.r, cands)
	if h.recovers {
		g.calledRecoverer = true
	}
	var args []*Expr
	for _, pt := range h.params {
		args = append(args, g.argFor(pt))
	}
	f := V(h.name, nil)
	switch len(h.results) {
	case 0:
		return []*Stmt{SExpr(Call(f, nil, args...))}
	case 1:
		name := g.fresh("r")
		g.declare(&vinfo{name: name, t: h.results[0], role: rRO, nonNil: false})
		return []*Stmt{SDef(Call(f, h.results[0], args...), name)}
	default:
		n1, n2 := g.fresh("r"), g.fresh("r")
		g.declare(&vinfo{name: n1, t: h.results[0], role: rRO})
		g.declare(&vinfo{name: n2, t: h.results[1], role: rRO})
		return []*Stmt{SDef(Call(f, nil, args...), n1, n2)}
	}
}

// closureStmt: a function literal capturing the enclosing variables, called (and possibly deferred).
func (g *G) closureStmt() []*Stmt {
	if g.inLit >= 2 {
		return g.printStmt()
	}
	// parameters and result
	var params []Field
	np := g.r.Intn(3)
	for i := 0; i < np; i++ {
		params = append(params, Field{Name: g.fresh("q"), T: g.scalarType()})
	}
	var results []Field
	if g.r.Chance(60) {
		results = []Field{{Name: g.fresh("res"), T: g.scalarType()}}
	}
	lit := &Func{Name: g.fresh("lit"), Params: params, Results: results, Lit: true}
	id := len(g.p.Funcs)
	g.p.Funcs = append(g.p.Funcs, lit)
	// body: sees the enclosing scopes
	saveRes, saveNamed, saveLoops, saveDeep := g.results, g.named, g.loops, g.loopDeep
	g.results, g.named, g.loops, g.loopDeep = results, false, nil, 0
	g.inLit++
	g.push()
	for _, p := range params {
		g.declare(&vinfo{name: p.Name, t: p.T, param: true})
	}
	body := g.block(1 + g.r.Intn(3))
	if len(results) > 0 {
		body = append(body, SRet(g.expr(results[0].T, 2)))
	}
	g.pop()
	g.inLit--
	g.results, g.named, g.loops, g.loopDeep = saveRes, saveNamed, saveLoops, saveDeep
	lit.Body = body
	var pts, rts []*Type
	for _, p := range params {
		pts = append(pts, p.T)
	}
	for _, q := range results {
		rts = append(rts, q.T)
	}
	ft := FuncT(pts, rts)
	fname := g.fresh("f")
	fv := g.declare(&vinfo{name: fname, t: ft, role: rRO, nonNil: true})
	fv.used = true
	out := []*Stmt{SDef(FuncLit(id, ft), fname)}
	calls := 1 + g.r.Intn(2)
	for c := 0; c < calls; c++ {
		var args []*Expr
		for _, p := range params {
			args = append(args, g.expr(p.T, 1))
		}
		if len(results) > 0 {
			rn := g.fresh("r")
			g.declare(&vinfo{name: rn, t: results[0].T, role: rRO})
			out = append(out, SDef(Call(V(fname, ft), results[0].T, args...), rn))
		} else if g.r.Chance(25) {
			out = append(out, SDefer(V(fname, ft), args...))
		} else {
			out = append(out, SExpr(Call(V(fname, ft), nil, args...)))
		}
		if c == 0 && g.r.Chance(50) {
			out = append(out, g.assign()...)
		}
	}
	return out
}

func (g *G) deferStmt() []*Stmt {
	if g.inLit > 0 || g.loopDeep > 0 {
		return g.printStmt()
	}
	// defer func() { println(...) }()  — sees the final values of captured variables
	lit := &Func{Name: g.fresh("lit"), Lit: true}
	id := len(g.p.Funcs)
	g.p.Funcs = append(g.p.Funcs, lit)
	saveRes, saveLoops := g.results, g.loops
	g.results, g.loops = nil, nil
	g.inLit++
	lit.Body = g.block(1 + g.r.Intn(2))
	lit.Body = append([]*Stmt{SPrint(StrLit("deferred"))}, lit.Body...)
	g.inLit--
	g.results, g.loops = saveRes, saveLoops
	return []*Stmt{SDefer(FuncLit(id, FuncT(nil, nil)))}
}

// gotoStmt: a backward goto forming a loop with a counter, or a forward skip.
func (g *G) gotoStmt() []*Stmt {
	if g.inLit > 0 && g.r.Bool() {
		return g.printStmt()
	}
	l := g.freshLabel()
	if g.r.Bool() {
		c := g.fresh("c")
		cv := g.declare(&vinfo{name: c, t: IntT("int"), role: rRO})
		cv.used = true
		n := 1 + g.r.Intn(3)
		body := []*Stmt{SPrint(StrLit("g"), V(c, IntT("int")))}
		return []*Stmt{
			SVar(c, IntT("int"), nil),
			SLabel(l, SInc(V(c, IntT("int")))),
			SBlock(body...),
			SIf(Bin("lt", V(c, IntT("int")), LitI(IntT("int"), int64(n))), []*Stmt{SGoto(l)}, nil),
		}
	}
	// forward: skip statements that declare nothing in this block
	skipped := SBlock(g.block(1 + g.r.Intn(2))...)
	return []*Stmt{
		SIf(g.boolExpr(1), []*Stmt{SGoto(l)}, nil),
		skipped,
		SLabel(l, SPrint(StrLit("after"))),
	}
}

// ---------------------------------------------------------------- deliberate panics

// riskyStmt: one operation that may panic at run time, in a statement whose
// other parts cannot.
func (g *G) riskyStmt() []*Stmt {
	ci := func(n int) *Expr { return &Expr{Op: "i", T: IntT("int"), Int: big.NewInt(int64(n)), Bare: true} }
	switch g.r.Intn(11) {
	case 0: // raw division
		t := g.randIntType()
		a, b := g.nonConstInt(t), g.nonConstInt(t)
		if a == nil || b == nil {
			return g.printStmt()
		}
		return []*Stmt{SPrint(Bin(kit.Pick(g.r, []string{"quo", "rem"}), a, Bin("and", b, LitI(t, 3))))}
	case 1: // raw index
		cs := g.vars(func(v *vinfo) bool {
			return (v.t.Kind == TSlice || v.t.Kind == TArr || v.t.Kind == TStr) && isScalar(elemType(v.t))
		})
		it := g.nonConstInt(IntT("int"))
		if len(cs) == 0 || it == nil {
			return g.printStmt()
		}
		c := kit.Pick(g.r, cs)
		idx := Bin("rem", it, ci(6))
		return []*Stmt{SPrint(Index(g.use(c), idx))}
	case 2: // signed shift count
		t := g.randIntType()
		st := IntT(kit.Pick(g.r, []string{"i8", "i16", "i32", "i64", "int"}))
		a, n := g.nonConstInt(t), g.nonConstInt(st)
		if a == nil || n == nil {
			return g.printStmt()
		}
		return []*Stmt{SPrint(Bin(kit.Pick(g.r, []string{"shl", "shr"}), a, Bin("rem", n, LitI(st, 9))))}
	case 3: // write to a nil map
		ms := g.vars(func(v *vinfo) bool { return v.t.Kind == TMap && !v.nonNil })
		if len(ms) == 0 {
			return g.declMap()
		}
		m := kit.Pick(g.r, ms)
		return []*Stmt{SSet(Index(g.use(m), g.mapKey(m.t.Key)), g.value(m.t.Elem))}
	case 4: // nil pointer dereference
		t := g.scalarType()
		name := g.fresh("np")
		pv := g.declare(&vinfo{name: name, t: PtrT(t), nonNil: false, role: rRO})
		pv.used = true
		if g.r.Bool() {
			return []*Stmt{SVar(name, PtrT(t), nil), SPrint(Deref(V(name, pv.t)))}
		}
		return []*Stmt{SVar(name, PtrT(t), nil), SSet(Deref(V(name, pv.t)), g.value(t))}
	case 5: // failing type assertion
		as := g.vars(func(v *vinfo) bool { return v.t.Kind == TAny })
		if len(as) == 0 {
			return g.anyOp()
		}
		a := kit.Pick(g.r, as)
		t := g.scalarType()
		v := g.fresh("v")
		g.declare(&vinfo{name: v, t: t, role: rRO})
		return []*Stmt{SDef(Assert(g.use(a), t), v)}
	case 6: // slice bounds
		fixed := g.vars(func(v *vinfo) bool { return v.t.Kind == TSlice && v.role == rFixed })
		it := g.nonConstInt(IntT("int"))
		if len(fixed) == 0 || it == nil {
			return g.declSlice()
		}
		v := kit.Pick(g.r, fixed)
		hi := Bin("rem", it, ci(v.C+3))
		name := g.fresh("n")
		g.declare(&vinfo{name: name, t: IntT("int"), role: rRO})
		return []*Stmt{SDef(Len(Slice(g.use(v), nil, hi, nil)), name)}
	case 7: // make with a negative length
		it := g.nonConstInt(IntT("int"))
		if it == nil {
			return g.printStmt()
		}
		name := g.fresh("n")
		g.declare(&vinfo{name: name, t: IntT("int"), role: rRO})
		return []*Stmt{SDef(Len(MakeSlice(IntT("int"), Bin("rem", it, ci(4)), nil)), name)}
	case 8: // explicit panic with a string or an int
		if g.r.Bool() {
			b := Box(StrLit("p" + g.strLitVal()))
			b.Implicit = g.r.Bool()
			return []*Stmt{SIf(g.boolExpr(1), []*Stmt{SPanic(b)}, nil)}
		}
		b := Box(g.intExpr(IntT("int"), 1))
		b.Implicit = g.r.Bool()
		return []*Stmt{SIf(g.boolExpr(1), []*Stmt{SPanic(b)}, nil)}
	case 9: // nil function value
		name := g.fresh("nf")
		ft := FuncT(nil, nil)
		fv := g.declare(&vinfo{name: name, t: ft, role: rRO})
		fv.used = true
		return []*Stmt{SVar(name, ft, nil), SIf(g.boolExpr(1), []*Stmt{SExpr(Call(V(name, ft), nil))}, nil)}
	default: // string index / slice out of range
		vs := g.vars(func(v *vinfo) bool { return v.t.Kind == TStr })
		it := g.nonConstInt(IntT("int"))
		if len(vs) == 0 || it == nil {
			return g.printStmt()
		}
		v := kit.Pick(g.r, vs)
		return []*Stmt{SPrint(Slice(g.use(v), Bin("rem", it, ci(5)), nil, nil))}
	}
}

// ---------------------------------------------------------------- statement dispatch

func (g *G) stmt() []*Stmt {
	g.budget--
	if g.risky && g.r.Chance(6) {
		return g.riskyStmt()
	}
	switch k := g.r.Intn(100); {
	case k < 12:
		return g.declScalar()
	case k < 28:
		return g.assign()
	case k < 40:
		return g.printStmt()
	case k < 47:
		return g.ifStmt()
	case k < 53:
		return g.forStmt()
	case k < 57:
		return g.rangeStmt()
	case k < 62:
		return g.switchStmt()
	case k < 65:
		if j := g.jump(); j != nil {
			return j
		}
		return g.printStmt()
	case k < 68:
		return g.declSlice()
	case k < 74:
		return g.sliceOp()
	case k < 76:
		return g.declArray()
	case k < 78:
		return g.arrayOp()
	case k < 80:
		return g.declStruct()
	case k < 82:
		return g.structOp()
	case k < 84:
		return g.declMap()
	case k < 88:
		return g.mapOp()
	case k < 90:
		return g.pointerOp()
	case k < 93:
		return g.anyOp()
	case k < 95:
		return g.callStmt()
	case k < 97:
		return g.closureStmt()
	case k < 98:
		return g.deferStmt()
	case k < 99:
		return g.gotoStmt()
	default:
		return g.declFixedString()
	}
}

// ---------------------------------------------------------------- functions and the program

func (g *G) prologue() []*Stmt {
	// a few scalar variables so that every operator can get a non-constant operand
	var out []*Stmt
	for _, t := range []*Type{IntT("int"), g.randIntType(), g.randIntType(), StrT} {
		name := g.fresh("v")
		e := g.value(t)
		if e.Op == "i" {
			e.Bare = false
		}
		g.declare(&vinfo{name: name, t: t})
		out = append(out, SVar(name, t, e))
	}
	return out
}

func (g *G) paramType() *Type {
	switch g.r.Intn(10) {
	case 0:
		return SliceT(g.randIntType())
	case 1:
		if len(g.p.Types) > 0 {
			return StructT(kit.Pick(g.r, g.p.Types).Name)
		}
	case 2:
		if len(g.p.Types) > 0 {
			return PtrT(StructT(kit.Pick(g.r, g.p.Types).Name))
		}
	case 3:
		return ArrT(1+g.r.Intn(3), g.randIntType())
	}
	return g.scalarType()
}

// genHelper generates a top-level function; recoverer = it guards its body with defer/recover.
func (g *G) genHelper(recoverer bool) {
	name := g.fresh("fn")
	f := &Func{Name: name}
	np := g.r.Intn(4)
	for i := 0; i < np; i++ {
		f.Params = append(f.Params, Field{Name: g.fresh("a"), T: g.paramType()})
	}
	nr := g.r.Intn(3)
	f.Named = recoverer || g.r.Chance(30)
	for i := 0; i < nr; i++ {
		f.Results = append(f.Results, Field{Name: g.fresh("res"), T: g.scalarType()})
	}
	idx := len(g.p.Funcs)
	g.p.Funcs = append(g.p.Funcs, f)
	g.scopes = nil
	g.loops = nil
	g.calledRecoverer = false
	g.results, g.named = f.Results, f.Named
	g.push()
	for _, p := range f.Params {
		vi := g.declare(&vinfo{name: p.Name, t: p.T, param: true})
		if p.T.Kind == TPtr {
			vi.nonNil = true
		}
		if p.T.Kind == TSlice {
			vi.role, vi.L = rRO, 0
		}
	}
	if f.Named {
		for _, q := range f.Results {
			g.declare(&vinfo{name: q.Name, t: q.T, param: true})
		}
	}
	var body []*Stmt
	saveRisky := g.risky
	if recoverer {
		g.risky = true
		// defer func() { if r := recover(); r != nil { println("recovered"); res = … } }()
		lit := &Func{Name: g.fresh("lit"), Lit: true}
		id := len(g.p.Funcs)
		g.p.Funcs = append(g.p.Funcs, lit)
		rn := g.fresh("r")
		var fix []*Stmt
		fix = append(fix, SPrint(StrLit("recovered")))
		for _, q := range f.Results {
			fix = append(fix, SSet(V(q.Name, q.T), g.value(q.T)))
		}
		lit.Body = []*Stmt{{Op: "if", Init: SDef(Recover(), rn), E: Bin("ne", V(rn, AnyT), Nil(AnyT)), Body: fix}}
		body = append(body, SDefer(FuncLit(id, FuncT(nil, nil))))
	}
	body = append(body, g.prologue()...)
	saveBudget := g.budget
	g.budget = 3 + g.r.Intn(6)
	for g.budget > 0 {
		body = append(body, g.stmt()...)
	}
	g.budget = saveBudget
	if recoverer {
		body = append(body, g.riskyStmt()...)
	}
	var tail []*Stmt
	if len(f.Results) > 0 {
		if f.Named && g.r.Bool() {
			for _, q := range f.Results {
				tail = append(tail, SSet(V(q.Name, q.T), g.expr(q.T, 2)))
			}
			tail = append(tail, SRet())
		} else {
			var es []*Expr
			for _, q := range f.Results {
				e := g.expr(q.T, 2)
				if e.Op == "i" {
					e.Bare = g.r.Bool()
				}
				es = append(es, e)
			}
			tail = append(tail, SRet(es...))
		}
	}
	body = append(body, g.pop()...)
	body = append(body, tail...)
	g.risky = saveRisky
	f.Body = body
	h := &helper{idx: idx, name: name, recovers: recoverer || g.calledRecoverer}
	for _, p := range f.Params {
		h.params = append(h.params, p.T)
	}
	for _, q := range f.Results {
		h.results = append(h.results, q.T)
	}
	g.helpers = append(g.helpers, h)
}

// genRecursive adds a bounded recursive function (factorial / fibonacci shape).
func (g *G) genRecursive() {
	t := g.randIntType()
	name := g.fresh("rec")
	n := V("n", t)
	self := V(name, nil)
	var body []*Stmt
	if g.r.Bool() {
		body = []*Stmt{
			SIf(Bin("le", n, LitI(t, 0)), []*Stmt{SRet(LitI(t, 1))}, nil),
			SDef(Call(self, t, Bin("sub", n, LitI(t, 1))), "m"),
			SRet(Bin("mul", n, V("m", t))),
		}
	} else {
		body = []*Stmt{
			SIf(Bin("lt", n, LitI(t, 2)), []*Stmt{SRet(n)}, nil),
			SDef(Call(self, t, Bin("sub", n, LitI(t, 1))), "x"),
			SDef(Call(self, t, Bin("sub", n, LitI(t, 2))), "y"),
			SRet(Bin("add", V("x", t), V("y", t))),
		}
	}
	idx := len(g.p.Funcs)
	g.p.Funcs = append(g.p.Funcs, &Func{Name: name, Params: []Field{{Name: "n", T: t}}, Results: []Field{{Name: "res0", T: t}}, Body: body})
	_ = idx
	g.recs = append(g.recs, recInfo{name: name, t: t})
}

type recInfo struct {
	name string
	t    *Type
}

// RandomProgram builds one structured random program.
func RandomProgram(r *kit.Rand) *Program {
	g := &G{r: r, p: &Program{}}
	g.budget = 15 + r.Intn(30)
	g.risky = r.Chance(25)
	// struct types
	for i, n := 0, r.Intn(3); i < n; i++ {
		d := &StructDecl{Name: fmt.Sprintf("T%d", i)}
		for j, m := 0, 1+r.Intn(3); j < m; j++ {
			var ft *Type
			switch r.Intn(8) {
			case 0:
				ft = ArrT(1+r.Intn(2), g.randIntType())
			case 1:
				if i > 0 {
					ft = StructT(g.p.Types[r.Intn(i)].Name)
				} else {
					ft = g.scalarType()
				}
			default:
				ft = g.scalarType()
			}
			d.Fields = append(d.Fields, Field{Name: fmt.Sprintf("F%d", j), T: ft})
		}
		g.p.Types = append(g.p.Types, d)
	}
	for i, n := 0, r.Intn(3); i < n; i++ {
		g.genHelper(r.Chance(35))
	}
	if r.Chance(20) {
		g.genRecursive()
	}
	// main
	g.scopes, g.loops, g.results = nil, nil, nil
	main := &Func{Name: "main"}
	g.p.Main = len(g.p.Funcs)
	g.p.Funcs = append(g.p.Funcs, main)
	g.push()
	body := g.prologue()
	for _, rc := range g.recs {
		body = append(body, SDef(Call(V(rc.name, nil), rc.t, LitI(rc.t, int64(1+r.Intn(6)))), g.fresh("r")))
		g.declare(&vinfo{name: fmt.Sprintf("r%d", g.nv), t: rc.t, role: rRO})
	}
	for g.budget > 0 {
		body = append(body, g.stmt()...)
	}
	// final state: print every scalar variable still in scope
	for _, v := range g.vars(func(v *vinfo) bool { return isScalar(v.t) }) {
		body = append(body, SPrint(g.use(v)))
	}
	body = append(body, g.pop()...)
	main.Body = body
	fixUnused(g.p)
	return g.p
}

// typedBool wraps a computed bool expression in an explicit bool(...)
// conversion.  In the GnoVM a comparison (and !, &&, || over comparisons) has
// the type "untyped bool" even when its operands are variables; `v := !(a < b)`
// and `append(s, a < b, typedBool)` then trip known finding
// `untyped-bool-rejected`.  Used for `:=` right-hand sides and append arguments.
func (g *G) typedBool(e *Expr) *Expr {
	if e.T == nil || e.T.Kind != TBool {
		return e
	}
	switch e.Op {
	case "v", "fld", "pfld", "idx", "deref", "conv", "call":
		return e
	}
	return Conv(BoolT, e)
}
