package minigo

import "math/big"

// KnownFinding is a pinned witness of a defect of the unchanged gnolang/gno
// tree (known_findings/C04.json); its op line is `kf <key> prog <tokens>`.
type KnownFinding struct {
	Key  string
	Prog *Program
}

func bare(t *Type, v int64) *Expr { return &Expr{Op: "i", T: t, Int: big.NewInt(v), Bare: true} }

// KnownFindings builds the witnesses (kept in corpus/C04/kf-*.ops; the Lean
// side has the same trees as constants, Model/C04Known.lean).
func KnownFindings() []KnownFinding {
	u16, u8, it := IntT("u16"), IntT("u8"), IntT("int")
	// var a uint16 = 3527; x := a; x >>= uint8(a) & 7; println(x)        Go: 27   GnoVM: 0
	shift := mainOnly([]*Stmt{
		SVar("a", u16, LitI(u16, 3527)),
		SDef(V("a", u16), "x"),
		SOpSet("shr", V("x", u16), Bin("and", Conv(u8, V("a", u16)), bare(u8, 7))),
		SPrint(V("x", u16)),
	})
	// a := 1; v := (a < 2) || (3 <= 4); w := !v; println(w)              Go: false   GnoVM: preprocess error
	ub := mainOnly([]*Stmt{
		SDef(LitI(it, 1), "a"),
		SDef(Bin("lor", Bin("lt", V("a", it), bare(it, 2)), Bin("le", bare(it, 3), bare(it, 4))), "v"),
		SDef(Un("not", V("v", BoolT)), "w"),
		SPrint(V("w", BoolT)),
	})
	// switch { case true: x := 1; println(x); fallthrough; default: println("d") }    Go: 1 d   GnoVM: 1 then a Go panic
	ft := mainOnly([]*Stmt{
		{Op: "switch", Cls: []*Clause{
			{Exprs: []*Expr{BoolLit(true)}, Body: []*Stmt{SDef(LitI(it, 1), "x"), SPrint(V("x", it)), SFallthrough()}},
			{Default: true, Body: []*Stmt{SPrint(StrLit("d"))}},
		}},
	})
	// func inner() { defer func() { println("rec", recover() != nil) }(); panic("B") }
	// func main()  { defer func() { inner(); println("after inner") }(); panic("A") }
	//     Go: rec true / after inner / panic A      GnoVM: rec true / panic A  ("after inner" never printed)
	none := FuncT(nil, nil)
	nr := &Program{Main: 2, Funcs: []*Func{
		{Name: "inner", Body: []*Stmt{SDefer(FuncLit(1, none)), SPanic(Box(StrLit("B")))}},
		{Name: "lit1", Lit: true, Body: []*Stmt{SPrint(StrLit("rec"), Bin("ne", Recover(), Nil(AnyT)))}},
		{Name: "main", Body: []*Stmt{SDefer(FuncLit(3, none)), SPanic(Box(StrLit("A")))}},
		{Name: "lit3", Lit: true, Body: []*Stmt{SExpr(Call(V("inner", nil), nil)), SPrint(StrLit("after inner"))}},
	}}
	return []KnownFinding{
		{"shift-assign-narrow-count", shift},
		{"untyped-bool-rejected", ub},
		{"fallthrough-block-shrink", ft},
		{"nested-recover-abandons-defer", nr},
	}
}
