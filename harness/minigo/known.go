package minigo

import "math/big"

// KnownFinding is a pinned witness of a defect of the unchanged gnolang/gno
// tree (known_findings/C04.json); its op line is `kf <key> prog <tokens>`.
type KnownFinding struct {
	Key  string
	Prog *Program
}

func bare(t *Type, v int64) *Expr { return &Expr{Op: "i", T: t, Int: big.NewInt(v), Bare: true} }

// KnownFindings builds the witnesses (kept in corpus/C04/kf-*.ops; the Lean
// side has the same trees as constants, Model/C04Known.lean).
func KnownFindings() []KnownFinding {
	u16, u8, it := IntT("u16"), IntT("u8"), IntT("int")
	// var a uint16 = 3527; x := a; x >>= uint8(a) & 7; println(x)        Go: 27   GnoVM: 0
	shift := mainOnly([]*Stmt{
		SVar("a", u16, LitI(u16, 3527)),
		SDef(V("a", u16), "x"),
		SOpSet("shr", V("x", u16), Bin("and", Conv(u8, V("a", u16)), bare(u8, 7))),
		SPrint(V("x", u16)),
	})
	// a := 1; v := (a < 2) || (3 <= 4); w := !v; println(w)              Go: false   GnoVM: preprocess error
	ub := mainOnly([]*Stmt{
		SDef(LitI(it, 1), "a"),
		SDef(Bin("lor", Bin("lt", V("a", it), bare(it, 2)), Bin("le", bare(it, 3), bare(it, 4))), "v"),
		SDef(Un("not", V("v", BoolT)), "w"),
		SPrint(V("w", BoolT)),
	})
	// switch { case true: x := 1; println(x); fallthrough; default: println("d") }    Go: 1 d   GnoVM: 1 then a Go panic
	ft := mainOnly([]*Stmt{
		{Op: "switch", Cls: []*Clause{
			{Exprs: []*Expr{BoolLit(true)}, Body: []*Stmt{SDef(LitI(it, 1), "x"), SPrint(V("x", it)), SFallthrough()}},
			{Default: true, Body: []*Stmt{SPrint(StrLit("d"))}},
		}},
	})
	// func inner() { defer func() { println("rec", recover() != nil) }(); panic("B") }
	// func main()  { defer func() { inner(); println("after inner") }(); panic("A") }
	//     Go: rec true / after inner / panic A      GnoVM: rec true / panic A  ("after inner" never printed)
	none := FuncT(nil, nil)
	nr := &Program{Main: 2, Funcs: []*Func{
		{Name: "inner", Body: []*Stmt{SDefer(FuncLit(1, none)), SPanic(Box(StrLit("B")))}},
		{Name: "lit1", Lit: true, Body: []*Stmt{SPrint(StrLit("rec"), Bin("ne", Recover(), Nil(AnyT)))}},
		{Name: "main", Body: []*Stmt{SDefer(FuncLit(3, none)), SPanic(Box(StrLit("A")))}},
		{Name: "lit3", Lit: true, Body: []*Stmt{SExpr(Call(V("inner", nil), nil)), SPrint(StrLit("after inner"))}},
	}}
	return []KnownFinding{
		{"shift-assign-narrow-count", shift},
		{"untyped-bool-rejected", ub},
		{"fallthrough-block-shrink", ft},
		{"nested-recover-abandons-defer", nr},
	}
}

// BoundaryCorpus: small pinned programs (corpus/C04/b-*.ops) at the boundaries
// the theorems talk about; they run on every invocation, before the seeded streams.
func BoundaryCorpus() []KnownFinding {
	i8, u8, i16, u16, i64, u64, it := IntT("i8"), IntT("u8"), IntT("i16"), IntT("u16"), IntT("i64"), IntT("u64"), IntT("int")
	v := func(n string, t *Type) *Expr { return V(n, t) }
	var out []KnownFinding
	add := func(key string, body ...*Stmt) { out = append(out, KnownFinding{key, mainOnly(body)}) }
	// MinInt / -1 wraps, MinInt % -1 = 0, at 8 and 64 bits
	add("min-over-minus-one",
		SVar("x", i8, Lit(i8, i8.Min())), SVar("y", i8, LitI(i8, -1)),
		SPrint(Bin("quo", v("x", i8), v("y", i8)), Bin("rem", v("x", i8), v("y", i8)), Un("neg", v("x", i8))),
		SVar("p", i64, Lit(i64, i64.Min())), SVar("q", i64, LitI(i64, -1)),
		SPrint(Bin("quo", v("p", i64), v("q", i64)), Bin("rem", v("p", i64), v("q", i64)), Bin("mul", v("p", i64), v("q", i64))))
	// shifts by counts at and beyond the width; sign fill
	add("shift-ge-width",
		SVar("a", i8, LitI(i8, -5)), SVar("b", u8, LitI(u8, 200)), SVar("c", i64, LitI(i64, -1)),
		SDef(SliceLit(u16, LitI(u16, 7), LitI(u16, 8), LitI(u16, 9), LitI(u16, 63), LitI(u16, 64), LitI(u16, 65), LitI(u16, 65535)), "ns"),
		SRange("", "", "n", v("ns", SliceT(u16)), []*Stmt{
			SPrint(Bin("shl", v("a", i8), v("n", u16)), Bin("shr", v("a", i8), v("n", u16)), Bin("shl", v("b", u8), v("n", u16)),
				Bin("shr", v("b", u8), v("n", u16)), Bin("shl", v("c", i64), v("n", u16)), Bin("shr", v("c", i64), v("n", u16))),
		}))
	// conversions: truncation and extension
	add("conv-truncate-extend",
		SVar("a", i16, LitI(i16, 300)), SVar("b", i8, LitI(i8, -1)), SVar("c", u64, Lit(u64, u64.Max())),
		SPrint(Conv(u8, v("a", i16)), Conv(i8, v("a", i16)), Conv(u16, v("b", i8)), Conv(u64, v("b", i8)), Conv(i64, v("b", i8)),
			Conv(i8, v("c", u64)), Conv(it, v("c", u64)), Conv(u8, Conv(i16, v("c", u64)))))
	// append: in place within capacity (aliasing), fresh array beyond it
	st := SliceT(it)
	add("append-aliasing",
		SDef(MakeSlice(it, bare(it, 2), bare(it, 4)), "base"),
		SDef(Append(v("base", st), LitI(it, 1)), "a"),
		SDef(Append(v("base", st), LitI(it, 2)), "b"),
		SPrint(Index(v("a", st), bare(it, 2)), Index(v("b", st), bare(it, 2)), Len(v("base", st)), Len(v("a", st))),
		SDef(Append(v("a", st), LitI(it, 8), LitI(it, 9)), "c"),
		SSet(v("c", st), Slice(v("c", st), nil, Len(v("c", st)), Len(v("c", st)))),
		SSet(Index(v("c", st), bare(it, 0)), LitI(it, 7)),
		SSet(Index(v("a", st), bare(it, 1)), LitI(it, 6)),
		SPrint(Index(v("base", st), bare(it, 0)), Index(v("base", st), bare(it, 1)), Index(v("c", st), bare(it, 0)),
			Index(v("c", st), bare(it, 1)), Len(v("c", st)), Cap(v("c", st))))
	// labelled continue / break and fallthrough with default in the middle
	add("switch-fallthrough-default-middle",
		SFor("", SDef(LitI(it, 0), "x"), Bin("lt", v("x", it), bare(it, 4)), SInc(v("x", it)), []*Stmt{
			{Op: "switch", E: v("x", it), Cls: []*Clause{
				{Exprs: []*Expr{LitI(it, 1)}, Body: []*Stmt{SPrint(StrLit("one")), SFallthrough()}},
				{Default: true, Body: []*Stmt{SPrint(StrLit("default"), v("x", it)), SFallthrough()}},
				{Exprs: []*Expr{LitI(it, 2)}, Body: []*Stmt{SPrint(StrLit("two"))}},
				{Exprs: []*Expr{LitI(it, 3)}, Body: []*Stmt{SPrint(StrLit("three"))}},
			}},
		}))
	// range over a string with invalid UTF-8; string(rune) of invalid code points
	i32 := IntT("i32")
	add("string-range-invalid-utf8",
		SDef(StrLit("a\xff\xc3\xa9\xe4\xb8"), "s"),
		SRange("", "i", "r", v("s", StrT), []*Stmt{SPrint(v("i", it), v("r", i32))}),
		SVar("k", i32, LitI(i32, 0xD800)), SVar("m", i32, LitI(i32, -1)), SVar("z", i32, LitI(i32, 0x10FFFF)),
		SPrint(Len(Conv(StrT, v("k", i32))), Conv(StrT, v("m", i32)), Len(Conv(StrT, v("z", i32))), Len(v("s", StrT))))
	// zero divisor inside a function with a named result fixed up by a deferred recover
	none := FuncT(nil, nil)
	fr := &Program{Main: 2, Funcs: []*Func{
		{Name: "f", Params: []Field{{"z", it}}, Results: []Field{{"r", it}}, Named: true, Body: []*Stmt{
			SDefer(FuncLit(1, none)), SSet(V("r", it), LitI(it, 5)), SPrint(StrLit("before")),
			SSet(V("r", it), Bin("quo", V("r", it), V("z", it))), SPrint(StrLit("not reached")), SRet()}},
		{Name: "lit1", Lit: true, Body: []*Stmt{
			{Op: "if", E: Bin("ne", Recover(), Nil(AnyT)), Body: []*Stmt{SOpSet("sub", V("r", it), bare(it, 100))}}}},
		{Name: "main", Body: []*Stmt{
			SDef(Call(V("f", nil), it, LitI(it, 0)), "a"), SDef(Call(V("f", nil), it, LitI(it, 2)), "b"), SPrint(V("a", it), V("b", it))}},
	}}
	out = append(out, KnownFinding{"defer-recover-named-result", fr})
	return out
}
