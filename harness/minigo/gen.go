package minigo

import (
	"fmt"
	"math/big"
	"strings"

	"gnoverif/kit"
)

// Generate writes the op lines of one seed: (i) the boundary table (integer
// lattice per type: arithmetic, comparisons, shifts, conversions, zero
// divisors, negative shift counts, constant expressions), (ii) structured
// random programs (mostly running to completion), (iii) a malformed stream.
func Generate(w *kit.Out, r *kit.Rand, tier string) {
	nRand, nBoundaryPerKind, nMal := 150, 1, 12
	if tier == "thorough" {
		nRand, nBoundaryPerKind, nMal = 600, 3, 40
	}
	emit := func(id string, p *Program) {
		w.Case(id)
		w.Op("prog %s", p.SExp())
	}
	// (i) boundary table
	rb := r.Fork()
	for _, tn := range IntNames {
		t := IntT(tn)
		for k := 0; k < nBoundaryPerKind; k++ {
			emit(fmt.Sprintf("arith-%s-%d", tn, k), boundaryArith(rb, t, k))
			emit(fmt.Sprintf("shift-%s-%d", tn, k), boundaryShift(rb, t, k))
		}
		emit("conv-"+tn, boundaryConv(rb, t))
		emit("const-"+tn, constProgram(rb, t))
	}
	for k := 0; k < 6*nBoundaryPerKind; k++ {
		emit(fmt.Sprintf("zero-%d", k), zeroDivProgram(rb))
		emit(fmt.Sprintf("negshift-%d", k), negShiftProgram(rb))
	}
	// (ii) structured random
	rr := r.Fork()
	for k := 0; k < nRand; k++ {
		emit(fmt.Sprintf("rand-%d", k), RandomProgram(rr.Fork()))
	}
	// (ii-b) extended programs (text templates, no model: GnoVM against native Go only)
	rx := r.Fork()
	nExt := ExtTemplateCount()
	if tier == "thorough" {
		nExt *= 5
	}
	for k := 0; k < nExt; k++ {
		name, src := ExtProgramAt(k, rx.Fork())
		w.Case(fmt.Sprintf("ext-%s-%d", name, k))
		w.Op("xprog %x", []byte(src))
	}
	// (iii) malformed
	rm := r.Fork()
	for k := 0; k < nMal; k++ {
		w.Case(fmt.Sprintf("mal-%d", k))
		w.Op("%s", malformed(rm))
	}
}

// ---------------------------------------------------------------- boundary values

func pow2(k uint) *big.Int { return new(big.Int).Lsh(big.NewInt(1), k) }

// boundaryVals returns the boundary lattice of a type (deduplicated, in range).
func boundaryVals(t *Type) []*big.Int {
	w := uint(t.Width())
	cands := []*big.Int{t.Min(), new(big.Int).Add(t.Min(), big.NewInt(1)), big.NewInt(-2), big.NewInt(-1), big.NewInt(0),
		big.NewInt(1), big.NewInt(2), big.NewInt(3), big.NewInt(7), big.NewInt(10),
		pow2(w/2 - 1), pow2(w / 2), new(big.Int).Add(pow2(w/2), big.NewInt(1)),
		new(big.Int).Neg(pow2(w / 2)),
		pow2(w - 2), new(big.Int).Sub(t.Max(), big.NewInt(1)), t.Max(), pow2(w - 1)}
	var out []*big.Int
	seen := map[string]bool{}
	for _, c := range cands {
		if c.Cmp(t.Min()) < 0 || c.Cmp(t.Max()) > 0 || seen[c.String()] {
			continue
		}
		seen[c.String()] = true
		out = append(out, c)
	}
	return out
}

func randVal(r *kit.Rand, t *Type) *big.Int {
	if r.Chance(55) {
		return kit.Pick(r, boundaryVals(t))
	}
	// random bits, reduced into the range
	v := new(big.Int).SetUint64(r.U64())
	if r.Chance(40) {
		v.Rsh(v, uint(r.Intn(64)))
	}
	span := new(big.Int).Add(new(big.Int).Sub(t.Max(), t.Min()), big.NewInt(1))
	v.Mod(v, span)
	return v.Add(v, t.Min())
}

func pickVals(r *kit.Rand, t *Type, n int) []*big.Int {
	bv := boundaryVals(t)
	var out []*big.Int
	for i := 0; i < n; i++ {
		if i < n-2 {
			out = append(out, bv[(r.Intn(len(bv)))])
		} else {
			out = append(out, randVal(r, t))
		}
	}
	return out
}

func litSlice(t *Type, vals []*big.Int) *Expr {
	es := make([]*Expr, len(vals))
	for i, v := range vals {
		es[i] = Lit(t, v)
	}
	return SliceLit(t, es...)
}

func mainOnly(body []*Stmt) *Program {
	return &Program{Funcs: []*Func{{Name: "main", Body: body}}, Main: 0}
}

var arithOps = []string{"add", "sub", "mul", "and", "or", "xor", "andnot"}
var cmpOpList = []string{"eq", "ne", "lt", "le", "gt", "ge"}

// boundaryArith: all binary operators over a lattice of operand pairs, with
// operands held in variables (run-time evaluation); variant k picks the values.
func boundaryArith(r *kit.Rand, t *Type, k int) *Program {
	var vals []*big.Int
	if k == 0 {
		vals = boundaryVals(t)
		if len(vals) > 9 {
			// keep the extremes, sample the middle
			keep := []*big.Int{vals[0], vals[1]}
			for _, v := range vals[2 : len(vals)-2] {
				if r.Chance(45) {
					keep = append(keep, v)
				}
			}
			vals = append(keep, vals[len(vals)-2], vals[len(vals)-1])
		}
	} else {
		vals = pickVals(r, t, 7)
	}
	a, b, c := V("a", t), V("b", t), V("c", t)
	var inner []*Stmt
	var ar []*Expr
	for _, op := range arithOps {
		ar = append(ar, Bin(op, a, b))
	}
	inner = append(inner, SPrint(ar...))
	var cm []*Expr
	for _, op := range cmpOpList {
		cm = append(cm, Bin(op, a, b))
	}
	inner = append(inner, SPrint(cm...))
	inner = append(inner, SIf(Bin("ne", b, LitI(t, 0)), []*Stmt{SPrint(Bin("quo", a, b), Bin("rem", a, b))}, nil))
	inner = append(inner, SPrint(Un("neg", a), Un("compl", a), Un("pos", a)))
	// compound assignment forms
	op := kit.Pick(r, arithOps)
	inner = append(inner, SDef(a, "c"), SOpSet(op, c, b), SInc(c), SPrint(c), SDec(c), SDec(c), SPrint(c))
	body := []*Stmt{
		SDef(litSlice(t, vals), "vals"),
		SRange("", "", "a", V("vals", SliceT(t)), []*Stmt{
			SRange("", "", "b", V("vals", SliceT(t)), inner),
		}),
	}
	return mainOnly(body)
}

// boundaryShift: x << n, x >> n for counts around the width, of a random count type.
func boundaryShift(r *kit.Rand, t *Type, k int) *Program {
	ct := IntT(kit.Pick(r, IntNames))
	w := int64(t.Width())
	cands := []int64{0, 1, 2, w/2 - 1, w / 2, w - 2, w - 1, w, w + 1, 2*w - 1, 2 * w, 63, 64, 65, 127, 255}
	var counts []*big.Int
	seen := map[int64]bool{}
	for _, c := range cands {
		if c < 0 || seen[c] || big.NewInt(c).Cmp(ct.Max()) > 0 {
			continue
		}
		seen[c] = true
		if k == 0 || r.Chance(60) {
			counts = append(counts, big.NewInt(c))
		}
	}
	if !ct.Signed() {
		counts = append(counts, ct.Max())
	} else {
		counts = append(counts, ct.Max())
	}
	xs := pickVals(r, t, 6)
	if k == 0 {
		xs = append(xs, t.Min(), t.Max(), big.NewInt(1))
		if t.Signed() {
			xs = append(xs, big.NewInt(-1))
		}
	}
	x, n, c := V("x", t), V("n", ct), V("c", t)
	inner := []*Stmt{
		SPrint(Bin("shl", x, n), Bin("shr", x, n)),
		SDef(x, "c"), SOpSet("shl", c, n), SPrint(c),
		SSet(c, x), SOpSet("shr", c, n), SPrint(c),
	}
	// a constant count as well
	cc := int64(r.Intn(int(w) + 3))
	inner = append(inner, SPrint(Bin("shl", x, &Expr{Op: "i", T: IntT("int"), Int: big.NewInt(cc), Bare: true}),
		Bin("shr", x, &Expr{Op: "i", T: IntT("uint"), Int: big.NewInt(cc)})))
	body := []*Stmt{
		SDef(litSlice(t, xs), "xs"),
		SDef(litSlice(ct, counts), "ns"),
		SRange("", "", "x", V("xs", SliceT(t)), []*Stmt{
			SRange("", "", "n", V("ns", SliceT(ct)), inner),
		}),
	}
	return mainOnly(body)
}

// boundaryConv: every integer conversion from t, plus string(rune(v)).
func boundaryConv(r *kit.Rand, t *Type) *Program {
	vals := boundaryVals(t)
	vals = append(vals, randVal(r, t), randVal(r, t))
	v := V("v", t)
	var es []*Expr
	for _, tn := range IntNames {
		if tn == t.IT {
			continue
		}
		es = append(es, Conv(IntT(tn), v))
	}
	inner := []*Stmt{SPrint(es...)}
	// double conversions (narrow then widen) and string(rune(v))
	n1, n2 := IntT(kit.Pick(r, IntNames)), IntT(kit.Pick(r, IntNames))
	inner = append(inner, SPrint(Conv(n2, Conv(n1, v)), Conv(StrT, Conv(IntT("i32"), v))))
	body := []*Stmt{
		SDef(litSlice(t, vals), "vals"),
		SRange("", "", "v", V("vals", SliceT(t)), inner),
	}
	return mainOnly(body)
}

// zeroDivProgram: a run-time zero divisor at a random type and operator form.
func zeroDivProgram(r *kit.Rand) *Program {
	t := IntT(kit.Pick(r, IntNames))
	op := kit.Pick(r, []string{"quo", "rem"})
	a, b := V("a", t), V("b", t)
	body := []*Stmt{SVar("a", t, Lit(t, randVal(r, t))), SVar("b", t, nil), SPrint(StrLit("before"))}
	switch r.Intn(3) {
	case 0:
		body = append(body, SPrint(Bin(op, a, b)))
	case 1:
		body = append(body, SOpSet(op, a, b), SPrint(a))
	default:
		// divisor becomes zero by wrap-around arithmetic
		body = append(body, SSet(b, t.maxLit()), SInc(b))
		if t.Signed() {
			body = append(body, SSet(b, Bin("sub", b, b)))
		}
		body = append(body, SPrint(Bin(op, a, b)))
	}
	body = append(body, SPrint(StrLit("after")))
	return mainOnly(body)
}

func (t *Type) maxLit() *Expr { return Lit(t, t.Max()) }

// negShiftProgram: a negative signed shift count at run time.
func negShiftProgram(r *kit.Rand) *Program {
	t := IntT(kit.Pick(r, IntNames))
	ct := IntT(kit.Pick(r, []string{"i8", "i16", "i32", "i64", "int"}))
	x, n := V("x", t), V("n", ct)
	nv := kit.Pick(r, []*big.Int{big.NewInt(-1), ct.Min(), big.NewInt(-64)})
	body := []*Stmt{SVar("x", t, Lit(t, randVal(r, t))), SVar("n", ct, Lit(ct, nv)), SPrint(StrLit("before"))}
	op := kit.Pick(r, []string{"shl", "shr"})
	if r.Bool() {
		body = append(body, SPrint(Bin(op, x, n)))
	} else {
		body = append(body, SOpSet(op, x, n), SPrint(x))
	}
	body = append(body, SPrint(StrLit("after")))
	return mainOnly(body)
}

// ---------------------------------------------------------------- constant expressions

var big200 = pow2(200)

func cEval(c *CExpr) (*big.Int, bool) {
	switch c.Op {
	case "n":
		return c.V, true
	case "neg", "compl":
		a, ok := cEval(c.A)
		if !ok {
			return nil, false
		}
		if c.Op == "neg" {
			return new(big.Int).Neg(a), true
		}
		return new(big.Int).Not(a), true
	case "shl", "shr":
		a, ok := cEval(c.A)
		if !ok {
			return nil, false
		}
		var v *big.Int
		if c.Op == "shl" {
			v = new(big.Int).Lsh(a, c.N)
		} else {
			v = new(big.Int).Rsh(a, c.N)
		}
		return v, v.CmpAbs(big200) < 0
	}
	a, ok1 := cEval(c.A)
	b, ok2 := cEval(c.B)
	if !ok1 || !ok2 {
		return nil, false
	}
	v := new(big.Int)
	switch c.Op {
	case "add":
		v.Add(a, b)
	case "sub":
		v.Sub(a, b)
	case "mul":
		v.Mul(a, b)
	case "quo":
		if b.Sign() == 0 {
			return nil, false
		}
		v.Quo(a, b)
	case "rem":
		if b.Sign() == 0 {
			return nil, false
		}
		v.Rem(a, b)
	case "and":
		v.And(a, b)
	case "or":
		v.Or(a, b)
	case "xor":
		v.Xor(a, b)
	case "andnot":
		v.AndNot(a, b)
	}
	return v, v.CmpAbs(big200) < 0
}

func genCExpr(r *kit.Rand, t *Type, depth int) *CExpr {
	if depth == 0 || r.Chance(25) {
		var v *big.Int
		switch r.Intn(4) {
		case 0:
			v = big.NewInt(int64(r.Intn(17)))
		case 1:
			v = randVal(r, t)
		case 2:
			v = pow2(uint(r.Intn(t.Width() + 2)))
		default:
			v = big.NewInt(int64(r.Intn(2000)) - 1000)
		}
		return &CExpr{Op: "n", V: v}
	}
	switch r.Intn(10) {
	case 0:
		return &CExpr{Op: "neg", A: genCExpr(r, t, depth-1)}
	case 1:
		return &CExpr{Op: "compl", A: genCExpr(r, t, depth-1)}
	case 2:
		return &CExpr{Op: "shl", A: genCExpr(r, t, depth-1), N: uint(r.Intn(t.Width() + 8))}
	case 3:
		return &CExpr{Op: "shr", A: genCExpr(r, t, depth-1), N: uint(r.Intn(t.Width() + 8))}
	}
	op := kit.Pick(r, []string{"add", "sub", "mul", "quo", "rem", "and", "or", "xor", "andnot"})
	return &CExpr{Op: op, A: genCExpr(r, t, depth-1), B: genCExpr(r, t, depth-1)}
}

// validCExpr returns an untyped constant expression whose value fits t.
func validCExpr(r *kit.Rand, t *Type) *CExpr {
	for try := 0; try < 40; try++ {
		c := genCExpr(r, t, 1+r.Intn(4))
		v, ok := cEval(c)
		if !ok {
			continue
		}
		if v.Cmp(t.Min()) >= 0 && v.Cmp(t.Max()) <= 0 {
			return c
		}
		// reduce into the range: c % m, m = max/2+1 (keeps the sign of c)
		m := new(big.Int).Add(new(big.Int).Rsh(t.Max(), 1), big.NewInt(1))
		c2 := &CExpr{Op: "rem", A: c, B: &CExpr{Op: "n", V: m}}
		if v2, ok := cEval(c2); ok && v2.Cmp(t.Min()) >= 0 && v2.Cmp(t.Max()) <= 0 {
			return c2
		}
	}
	return &CExpr{Op: "n", V: big.NewInt(1)}
}

// typedConst builds a TYPED constant expression tree over literals of t whose
// every node is exactly representable in t (so the Go compiler accepts it);
// it returns the expression and its exact value.
func typedConst(r *kit.Rand, t *Type, depth int) (*Expr, *big.Int) {
	in := func(v *big.Int) bool { return v.Cmp(t.Min()) >= 0 && v.Cmp(t.Max()) <= 0 }
	for try := 0; try < 30; try++ {
		if depth == 0 || r.Chance(20) {
			v := randVal(r, t)
			return Lit(t, v), v
		}
		if r.Chance(15) {
			a, av := typedConst(r, t, depth-1)
			op := kit.Pick(r, []string{"neg", "compl"})
			var v *big.Int
			if op == "neg" {
				v = new(big.Int).Neg(av)
			} else if t.Signed() {
				v = new(big.Int).Not(av)
			} else {
				v = new(big.Int).Xor(av, t.Max())
			}
			if in(v) {
				return Un(op, a), v
			}
			continue
		}
		if r.Chance(20) {
			a, av := typedConst(r, t, depth-1)
			n := int64(r.Intn(t.Width()))
			op := kit.Pick(r, []string{"shl", "shr"})
			var v *big.Int
			if op == "shl" {
				v = new(big.Int).Lsh(av, uint(n))
			} else {
				v = new(big.Int).Rsh(av, uint(n))
			}
			if in(v) {
				return Bin(op, a, &Expr{Op: "i", T: IntT("int"), Int: big.NewInt(n), Bare: true}), v
			}
			continue
		}
		a, av := typedConst(r, t, depth-1)
		b, bv := typedConst(r, t, depth-1)
		op := kit.Pick(r, []string{"add", "sub", "mul", "quo", "rem", "and", "or", "xor", "andnot"})
		c := &CExpr{Op: op, A: &CExpr{Op: "n", V: av}, B: &CExpr{Op: "n", V: bv}}
		v, ok := cEval(c)
		if !ok || !in(v) {
			continue
		}
		return Bin(op, a, b), v
	}
	v := randVal(r, t)
	return Lit(t, v), v
}

// constProgram prints untyped constant expressions converted to t and typed
// constant expressions of t (both folded by the preprocessor / the compiler),
// and the same typed trees evaluated at run time through variables.
func constProgram(r *kit.Rand, t *Type) *Program {
	var body []*Stmt
	for i := 0; i < 5; i++ {
		body = append(body, SPrint(CE(t, validCExpr(r, t)), CE(t, validCExpr(r, t))))
	}
	for i := 0; i < 4; i++ {
		e, _ := typedConst(r, t, 1+r.Intn(3))
		body = append(body, SPrint(e))
	}
	// comparison of constants, and a constant used with a variable operand
	e1, _ := typedConst(r, t, 2)
	e2, _ := typedConst(r, t, 2)
	body = append(body, SVar("x", t, Lit(t, randVal(r, t))))
	body = append(body, SPrint(Bin("lt", e1, e2), Bin("add", V("x", t), e1), Bin("xor", e2, V("x", t))))
	return mainOnly(body)
}

// ---------------------------------------------------------------- malformed stream

func malformed(r *kit.Rand) string {
	good := mainOnly([]*Stmt{SPrint(LitI(IntT("int"), 1))}).SExp()
	toks := strings.Fields(good)
	switch r.Intn(8) {
	case 0:
		return "prog " + strings.Join(toks[:len(toks)-1-r.Intn(5)], " ") // truncated
	case 1:
		return "prog " + good + " )" // unbalanced
	case 2:
		return "prog ( types ) ( funcs ) ( globals )" // no main index
	case 3:
		return "prog ( types ) ( funcs ( fn main ( params ) ( results ) ( ( bogus ( i int 1 ) ) ) ) ) ( globals ) 0"
	case 4:
		return "prog ( types ) ( funcs ( fn main ( params ) ( results ) ( ( print ( i int ) ) ) ) ) ( globals ) 0" // arity
	case 5:
		return "nop 1 2 3"
	case 6:
		return "prog ( types ) ( funcs ( fn main ( params ) ( results ) ( ( print ( i i7 1 ) ) ) ) ) ( globals ) 0" // bad type
	default:
		return "prog ( types ) ( funcs ( fn main ( params ) ( results ) ( ( print ( s zz ) ) ) ) ) ( globals ) 0" // bad hex
	}
}
