package minigo

import (
	"fmt"
	"math/big"
	"strconv"
)

// ---------------------------------------------------------------- S-expression reader
// (the harness's `exec` receives op lines — corpus, generated, shrunk — and
// must rebuild the program to render it)

type sexp struct {
	atom string
	list []*sexp
	isL  bool
}

func readSExps(toks []string) ([]*sexp, error) {
	var out []*sexp
	pos := 0
	var rd func() (*sexp, error)
	rd = func() (*sexp, error) {
		if pos >= len(toks) {
			return nil, fmt.Errorf("unexpected end")
		}
		t := toks[pos]
		pos++
		switch t {
		case "(":
			n := &sexp{isL: true}
			for {
				if pos >= len(toks) {
					return nil, fmt.Errorf("unclosed list")
				}
				if toks[pos] == ")" {
					pos++
					return n, nil
				}
				c, err := rd()
				if err != nil {
					return nil, err
				}
				n.list = append(n.list, c)
			}
		case ")":
			return nil, fmt.Errorf("unexpected )")
		}
		return &sexp{atom: t}, nil
	}
	for pos < len(toks) {
		s, err := rd()
		if err != nil {
			return nil, err
		}
		out = append(out, s)
	}
	return out, nil
}

type perr struct{ msg string }

func bad(format string, a ...any) { panic(perr{fmt.Sprintf(format, a...)}) }

func (s *sexp) hd() string {
	if !s.isL || len(s.list) == 0 || s.list[0].isL {
		bad("head expected")
	}
	return s.list[0].atom
}
func (s *sexp) at() string {
	if s.isL {
		bad("atom expected")
	}
	return s.atom
}
func (s *sexp) args() []*sexp { return s.list[1:] }
func (s *sexp) opt() string {
	a := s.at()
	if a == "_" {
		return ""
	}
	return a
}
func (s *sexp) num() int {
	n, err := strconv.Atoi(s.at())
	if err != nil {
		bad("number expected: %s", s.atom)
	}
	return n
}
func (s *sexp) big() *big.Int {
	n, ok := new(big.Int).SetString(s.at(), 10)
	if !ok {
		bad("integer expected: %s", s.atom)
	}
	return n
}
func need(xs []*sexp, n int, what string) {
	if len(xs) != n {
		bad("%s: %d operands, want %d", what, len(xs), n)
	}
}

func parseType(s *sexp) *Type {
	if !s.isL {
		switch s.atom {
		case "bool":
			return BoolT
		case "str":
			return StrT
		case "any":
			return AnyT
		}
		if t := IntT(s.atom); t != nil {
			return t
		}
		bad("type %s", s.atom)
	}
	a := s.args()
	switch s.hd() {
	case "arr":
		need(a, 2, "arr")
		return ArrT(a[0].num(), parseType(a[1]))
	case "sl":
		need(a, 1, "sl")
		return SliceT(parseType(a[0]))
	case "map":
		need(a, 2, "map")
		return MapT(parseType(a[0]), parseType(a[1]))
	case "ptr":
		need(a, 1, "ptr")
		return PtrT(parseType(a[0]))
	case "st":
		need(a, 1, "st")
		return StructT(a[0].at())
	case "fn":
		need(a, 2, "fn")
		var ps, rs []*Type
		for _, q := range a[0].list {
			ps = append(ps, parseType(q))
		}
		for _, q := range a[1].list {
			rs = append(rs, parseType(q))
		}
		return FuncT(ps, rs)
	}
	bad("type %s", s.hd())
	return nil
}

func parseCExpr(s *sexp) *CExpr {
	a := s.args()
	switch op := s.hd(); op {
	case "n":
		need(a, 1, "n")
		return &CExpr{Op: "n", V: a[0].big()}
	case "shl", "shr":
		need(a, 2, op)
		return &CExpr{Op: op, A: parseCExpr(a[0]), N: uint(a[1].num())}
	case "neg", "compl":
		need(a, 1, op)
		return &CExpr{Op: op, A: parseCExpr(a[0])}
	case "add", "sub", "mul", "quo", "rem", "and", "or", "xor", "andnot":
		need(a, 2, op)
		return &CExpr{Op: op, A: parseCExpr(a[0]), B: parseCExpr(a[1])}
	default:
		bad("cexpr %s", op)
	}
	return nil
}

var binOps = map[string]bool{"add": true, "sub": true, "mul": true, "quo": true, "rem": true, "and": true, "or": true,
	"xor": true, "andnot": true, "shl": true, "shr": true, "eq": true, "ne": true, "lt": true, "le": true, "gt": true,
	"ge": true, "cat": true, "land": true, "lor": true, "copy": true, "appendsl": true, "idxok": true}
var unOps = map[string]bool{"neg": true, "compl": true, "pos": true, "not": true, "deref": true, "addr": true,
	"addrlit": true, "len": true, "cap": true}

func parseExprs(xs []*sexp) []*Expr {
	out := make([]*Expr, len(xs))
	for i, x := range xs {
		out[i] = parseExpr(x)
	}
	return out
}

func parseExpr(s *sexp) *Expr {
	op := s.hd()
	a := s.args()
	switch op {
	case "i", "ib":
		need(a, 2, op)
		t := IntT(a[0].at())
		if t == nil {
			bad("int type")
		}
		return &Expr{Op: "i", T: t, Int: a[1].big(), Bare: op == "ib"}
	case "b":
		need(a, 1, op)
		return &Expr{Op: "b", Bool: a[0].at() == "true"}
	case "s":
		need(a, 1, op)
		h := a[0].at()
		var bs []byte
		if h != "e" {
			if len(h)%2 != 0 {
				bad("hex")
			}
			for i := 0; i < len(h); i += 2 {
				v, err := strconv.ParseUint(h[i:i+2], 16, 8)
				if err != nil {
					bad("hex")
				}
				bs = append(bs, byte(v))
			}
		}
		return &Expr{Op: "s", Str: bs}
	case "c":
		need(a, 2, op)
		t := IntT(a[0].at())
		if t == nil {
			bad("int type")
		}
		return &Expr{Op: "c", T: t, C: parseCExpr(a[1])}
	case "v":
		need(a, 1, op)
		return &Expr{Op: "v", Name: a[0].at()}
	case "conv":
		need(a, 2, op)
		return &Expr{Op: "conv", Ty: parseType(a[0]), Args: []*Expr{parseExpr(a[1])}}
	case "box", "boxi":
		need(a, 2, op)
		return &Expr{Op: "box", Ty: parseType(a[0]), Args: []*Expr{parseExpr(a[1])}, Implicit: op == "boxi"}
	case "call", "append":
		if len(a) < 1 {
			bad("%s operands", op)
		}
		return &Expr{Op: op, Args: parseExprs(a)}
	case "idx":
		need(a, 3, op)
		return &Expr{Op: "idx", Name: a[0].at(), Args: parseExprs(a[1:])}
	case "slc":
		need(a, 5, op)
		e := &Expr{Op: "slc", Name: a[0].at(), Args: []*Expr{parseExpr(a[1])}, Opt: make([]bool, 3)}
		for i := 0; i < 3; i++ {
			x := a[2+i]
			if !x.isL && x.atom == "_" {
				continue
			}
			e.Opt[i] = true
			e.Args = append(e.Args, parseExpr(x))
		}
		return e
	case "fld", "pfld":
		need(a, 2, op)
		return &Expr{Op: op, Args: []*Expr{parseExpr(a[0])}, N: a[1].num()}
	case "new", "nil":
		need(a, 1, op)
		return &Expr{Op: op, Ty: parseType(a[0])}
	case "slit", "sllit":
		if len(a) < 1 {
			bad("%s operands", op)
		}
		return &Expr{Op: op, Ty: parseType(a[0]), Args: parseExprs(a[1:])}
	case "alit":
		if len(a) < 2 {
			bad("alit operands")
		}
		return &Expr{Op: op, Ty: parseType(a[0]), N: a[1].num(), Args: parseExprs(a[2:])}
	case "mlit":
		if len(a) < 2 {
			bad("mlit operands")
		}
		e := &Expr{Op: op, Ty: parseType(a[0]), Ty2: parseType(a[1])}
		for _, kv := range a[2:] {
			if !kv.isL || len(kv.list) != 2 {
				bad("mlit entry")
			}
			e.Args = append(e.Args, parseExpr(kv.list[0]), parseExpr(kv.list[1]))
		}
		return e
	case "mksl":
		need(a, 3, op)
		e := &Expr{Op: op, Ty: parseType(a[0]), Args: []*Expr{parseExpr(a[1])}}
		if a[2].isL || a[2].atom != "_" {
			e.Args = append(e.Args, parseExpr(a[2]))
		}
		return e
	case "mkmap":
		need(a, 2, op)
		return &Expr{Op: op, Ty: parseType(a[0]), Ty2: parseType(a[1])}
	case "flit":
		need(a, 1, op)
		return &Expr{Op: op, N: a[0].num()}
	case "recover":
		need(a, 0, op)
		return &Expr{Op: op}
	case "assert", "assertok":
		need(a, 2, op)
		return &Expr{Op: op, Args: []*Expr{parseExpr(a[0])}, Ty: parseType(a[1])}
	}
	if binOps[op] {
		need(a, 2, op)
		return &Expr{Op: op, Args: parseExprs(a)}
	}
	if unOps[op] {
		need(a, 1, op)
		return &Expr{Op: op, Args: parseExprs(a)}
	}
	bad("expr %s", op)
	return nil
}

func parseOptExpr(s *sexp) *Expr {
	if !s.isL && s.atom == "_" {
		return nil
	}
	return parseExpr(s)
}
func parseOptStmt(s *sexp) *Stmt {
	if !s.isL && s.atom == "_" {
		return nil
	}
	return parseStmt(s)
}
func parseStmts(s *sexp) []*Stmt {
	if !s.isL {
		bad("statement list expected")
	}
	out := make([]*Stmt, len(s.list))
	for i, x := range s.list {
		out[i] = parseStmt(x)
	}
	return out
}

func parseStmt(s *sexp) *Stmt {
	op := s.hd()
	a := s.args()
	switch op {
	case "var":
		need(a, 3, op)
		return &Stmt{Op: op, Name: a[0].at(), Ty: parseType(a[1]), E: parseOptExpr(a[2])}
	case "def":
		need(a, 2, op)
		st := &Stmt{Op: op, E: parseExpr(a[1])}
		for _, n := range a[0].list {
			st.Names = append(st.Names, n.at())
		}
		return st
	case "set":
		need(a, 2, op)
		return &Stmt{Op: op, Lvs: parseExprs(a[0].list), Es: parseExprs(a[1].list)}
	case "opset":
		need(a, 3, op)
		return &Stmt{Op: op, Name: a[0].at(), Lvs: []*Expr{parseExpr(a[1])}, E: parseExpr(a[2])}
	case "inc", "dec":
		need(a, 1, op)
		return &Stmt{Op: op, Lvs: []*Expr{parseExpr(a[0])}}
	case "expr", "panic":
		need(a, 1, op)
		return &Stmt{Op: op, E: parseExpr(a[0])}
	case "print", "ret", "defer":
		return &Stmt{Op: op, Es: parseExprs(a)}
	case "delete":
		need(a, 2, op)
		return &Stmt{Op: op, Es: parseExprs(a)}
	case "if":
		need(a, 4, op)
		return &Stmt{Op: op, Init: parseOptStmt(a[0]), E: parseExpr(a[1]), Body: parseStmts(a[2]), Else: parseStmts(a[3])}
	case "for":
		need(a, 5, op)
		return &Stmt{Op: op, Label: a[0].opt(), Init: parseOptStmt(a[1]), E: parseOptExpr(a[2]), Post: parseOptStmt(a[3]), Body: parseStmts(a[4])}
	case "range":
		need(a, 6, op)
		return &Stmt{Op: op, Label: a[0].opt(), Name: a[1].at(), K: a[2].opt(), V: a[3].opt(), E: parseExpr(a[4]), Body: parseStmts(a[5])}
	case "switch":
		need(a, 4, op)
		st := &Stmt{Op: op, Label: a[0].opt(), Init: parseOptStmt(a[1]), E: parseOptExpr(a[2])}
		for _, c := range a[3].list {
			switch c.hd() {
			case "case":
				need(c.args(), 2, "case")
				st.Cls = append(st.Cls, &Clause{Exprs: parseExprs(c.list[1].list), Body: parseStmts(c.list[2])})
			case "default":
				need(c.args(), 1, "default")
				st.Cls = append(st.Cls, &Clause{Default: true, Body: parseStmts(c.list[1])})
			default:
				bad("switch clause")
			}
		}
		return st
	case "tswitch":
		need(a, 4, op)
		st := &Stmt{Op: op, Label: a[0].opt(), K: a[1].opt(), E: parseExpr(a[2])}
		for _, c := range a[3].list {
			switch c.hd() {
			case "case":
				need(c.args(), 2, "case")
				cl := &Clause{Body: parseStmts(c.list[2])}
				for _, t := range c.list[1].list {
					if !t.isL && t.atom == "nil" {
						cl.Types = append(cl.Types, nil)
					} else {
						cl.Types = append(cl.Types, parseType(t))
					}
				}
				st.Cls = append(st.Cls, cl)
			case "default":
				need(c.args(), 1, "default")
				st.Cls = append(st.Cls, &Clause{Default: true, Body: parseStmts(c.list[1])})
			default:
				bad("type switch clause")
			}
		}
		return st
	case "block":
		st := &Stmt{Op: op}
		for _, x := range a {
			st.Body = append(st.Body, parseStmt(x))
		}
		return st
	case "label":
		need(a, 2, op)
		return &Stmt{Op: op, Name: a[0].at(), S: parseStmt(a[1])}
	case "break", "continue":
		need(a, 1, op)
		return &Stmt{Op: op, Name: a[0].opt()}
	case "goto":
		need(a, 1, op)
		return &Stmt{Op: op, Name: a[0].at()}
	case "fallthrough":
		need(a, 0, op)
		return &Stmt{Op: op}
	}
	bad("stmt %s", op)
	return nil
}

// ParseProgram rebuilds a Program from the tokens of an op line (after `prog`).
func ParseProgram(toks []string) (p *Program, err error) {
	defer func() {
		if v := recover(); v != nil {
			if pe, ok := v.(perr); ok {
				p, err = nil, fmt.Errorf("%s", pe.msg)
				return
			}
			p, err = nil, fmt.Errorf("malformed program: %v", v)
		}
	}()
	xs, e := readSExps(toks)
	if e != nil {
		return nil, e
	}
	if len(xs) != 4 || xs[0].hd() != "types" || xs[1].hd() != "funcs" || xs[2].hd() != "globals" {
		bad("program shape")
	}
	p = &Program{Main: xs[3].num()}
	for _, t := range xs[0].args() {
		d := &StructDecl{Name: t.hd()}
		for i, f := range t.args() {
			d.Fields = append(d.Fields, Field{Name: "F" + strconv.Itoa(i), T: parseType(f)})
		}
		p.Types = append(p.Types, d)
	}
	for _, f := range xs[1].args() {
		hd := f.hd()
		a := f.args()
		if (hd != "fn" && hd != "lit") || len(a) != 4 || a[1].hd() != "params" {
			bad("func shape")
		}
		rh := a[2].hd()
		if rh != "results" && rh != "nresults" {
			bad("func results")
		}
		fn := &Func{Name: a[0].at(), Lit: hd == "lit", Named: rh == "nresults", Body: parseStmts(a[3])}
		for _, q := range a[1].args() {
			need(q.list, 2, "param")
			fn.Params = append(fn.Params, Field{Name: q.list[0].at(), T: parseType(q.list[1])})
		}
		for _, q := range a[2].args() {
			need(q.list, 2, "result")
			fn.Results = append(fn.Results, Field{Name: q.list[0].at(), T: parseType(q.list[1])})
		}
		p.Funcs = append(p.Funcs, fn)
	}
	for _, g := range xs[2].args() {
		need(g.list, 3, "global")
		p.Globals = append(p.Globals, &Global{Name: g.list[0].at(), T: parseType(g.list[1]), E: parseOptExpr(g.list[2])})
	}
	if p.Main < 0 || p.Main >= len(p.Funcs) {
		bad("main index")
	}
	// validate function-literal references before rendering
	var chkE func(e *Expr)
	var chkS func(ss []*Stmt)
	chkE = func(e *Expr) {
		if e == nil {
			return
		}
		if e.Op == "flit" && (e.N < 0 || e.N >= len(p.Funcs) || !p.Funcs[e.N].Lit) {
			bad("flit index")
		}
		for _, a := range e.Args {
			chkE(a)
		}
	}
	chkS = func(ss []*Stmt) {
		for _, s := range ss {
			if s == nil {
				continue
			}
			chkE(s.E)
			for _, e := range s.Lvs {
				chkE(e)
			}
			for _, e := range s.Es {
				chkE(e)
			}
			chkS([]*Stmt{s.Init, s.Post, s.S})
			chkS(s.Body)
			chkS(s.Else)
			for _, c := range s.Cls {
				for _, e := range c.Exprs {
					chkE(e)
				}
				chkS(c.Body)
			}
		}
	}
	for _, f := range p.Funcs {
		chkS(f.Body)
	}
	for _, g := range p.Globals {
		chkE(g.E)
	}
	return p, nil
}
