package minigo

import (
	"fmt"

	"gnoverif/kit"
)

// second batch of extended templates (see ext.go)
func init() {
	extTemplates = append(extTemplates, []extTemplate{
		{"method-value-binding", func(r *kit.Rand) string {
			a := r.Intn(40)
			return fmt.Sprintf(`type @V struct{ n int }

func (v @V) Show(tag string) { println(tag, v.n) }
func (v *@V) Add(k int)      { v.n += k }

type @I interface{ Show(string) }

func @arg(tag string, k int) int { println("arg", tag); return k }

func @main() {
	v := @V{%d}
	f := v.Show
	v.n = 1
	f("bound")
	v.Show("now")
	g := v.Add
	g(2)
	println(v.n)
	var i @I = v
	h := i.Show
	v.n = 50
	h("iface")
	defer v.Show("deferred-value")
	defer (&v).Add(@arg("d1", 1))
	defer func() { println("closure sees", v.n) }()
	v.n = 7
	p := &v
	k := p.Show
	p.n = 8
	k("via-pointer")
	fs := []func(int){v.Add, (&v).Add}
	for _, fn := range fs {
		fn(10)
	}
	println(v.n)
}
`, a)
		}},
		{"range-semantics", func(r *kit.Rand) string {
			a := 1 + r.Intn(5)
			return fmt.Sprintf(`func @main() {
	arr := [3]int{1, 2, 3}
	for i, x := range arr {
		arr[2] = 100
		if i == 2 {
			println("array copy", x)
		}
	}
	sl := []int{1, 2, 3}
	for i, x := range sl {
		sl[2] = 100
		if i == 0 {
			sl = append(sl, 4)
		}
		if i == 2 {
			println("slice alias", x, len(sl))
		}
	}
	cnt := 0
	for i := range sl {
		cnt += i
	}
	println(cnt)
	pa := &arr
	for i := range pa {
		pa[i] += %d
	}
	println(arr[0], arr[1], arr[2])
	var ns []string
	for range ns {
		println("never")
	}
	bs := []byte("añb")
	t := 0
	for _, b := range bs {
		t += int(b)
	}
	for i, c := range "añb" {
		t += i * int(c)
	}
	println(t, len(bs))
	m := [][]int{{1}, {2, 3}}
	for _, row := range m {
		row[0] *= 10
		row = append(row, 9)
		_ = row
	}
	println(m[0][0], m[1][0], len(m[1]))
	var i, j int
	for i, j = range []int{5, 6, 7} {
	}
	println(i, j)
}
`, a)
		}},
		{"named-types", func(r *kit.Rand) string {
			a := r.Intn(100)
			return fmt.Sprintf(`type @Cel int
type @Fah int
type @IntS []int
type @Op func(int, int) int
type @A struct{ X, Y int }
type @B struct{ X, Y int }

func (c @Cel) F() @Fah     { return @Fah(int(c)*9/5 + 32) }
func (s @IntS) Sum() (t int) { for _, v := range s { t += v }; return }
func (o @Op) Twice(a int) int { return o(o(a, a), a) }

func @kind(x interface{}) string {
	switch x.(type) {
	case int:
		return "int"
	case @Cel:
		return "cel"
	case @Fah:
		return "fah"
	case @IntS:
		return "ints"
	case []int:
		return "[]int"
	}
	return "?"
}

func @main() {
	c := @Cel(%d)
	println(int(c.F()), @kind(c), @kind(c.F()), @kind(int(c)), @kind(@IntS{1}), @kind([]int(@IntS{1})))
	s := @IntS{1, 2, 3}
	s = append(s, 4)
	println(s.Sum(), len(s[1:]), @IntS(s[1:]).Sum())
	var add @Op = func(a, b int) int { return a + b }
	println(add.Twice(3), @Op(func(a, b int) int { return a * b }).Twice(3))
	a := @A{1, 2}
	b := @B(a)
	b.X = 9
	println(a.X, b.X, @A(b) == @A{9, 2})
	var x interface{} = c
	_, isInt := x.(int)
	cc, isCel := x.(@Cel)
	println(isInt, isCel, int(cc))
	type local struct{ v @Cel }
	l := local{c + 1}
	println(int(l.v))
}
`, a)
		}},
		{"const-shift-rules", func(r *kit.Rand) string {
			s := 20 + r.Intn(20)
			return fmt.Sprintf(`func @main() {
	var s uint = %d
	var i = 1 << s
	var j int32 = 1 << s
	var k = uint64(1 << s)
	var m int = 1.0 << s
	var w int64 = 1.0 << 33
	var u = 1 << s >> s
	println(i, j, k, m, w, u)
	var x8 uint8 = 1
	println(x8<<s, x8<<7>>7, (x8<<7)>>7, int(x8)<<s)
	var n int8 = -128
	println(n>>7, n>>s, -n, n/-1, n%%-1, n*n)
	const big = 1 << 62
	println(big>>60, uint32(big>>40), big/3%%1000)
	var sh int = 3
	println(1<<sh == 8, 1<<uint(sh), -1>>sh, -8>>sh, ^0>>sh, uint8(255)>>sh)
	var mi int64 = -9223372036854775808
	println(mi/-1 == mi, mi%%-1, -mi == mi, mi-1 > 0)
	var um uint32 = 4294967295
	println(um+1, um*um, -um, um>>31, ^um)
	println(7&^5, 7&-5, 6|9, 6^3, -7/2, -7%%2, 7%%-2, -7>>1)
}
`, s)
		}},
		{"interface-compare", func(r *kit.Rand) string {
			a := r.Intn(3)
			return fmt.Sprintf(`type @P struct{ a, b int }

func @eq(x, y interface{}) (res string) {
	defer func() {
		if r := recover(); r != nil {
			res = "panic"
		}
	}()
	if x == y {
		return "eq"
	}
	return "ne"
}

func @main() {
	println(@eq(1, 1), @eq(1, int8(1)), @eq("a", "a"), @eq(nil, nil), @eq(nil, 0))
	println(@eq(@P{1, %d}, @P{1, %d}), @eq(@P{1, 2}, @P{2, 1}), @eq([2]int{1, 2}, [2]int{1, 2}))
	println(@eq([]int{1}, []int{1}), @eq(map[int]int{}, 1), @eq([]int{1}, 1))
	x, y := 1, 1
	println(@eq(&x, &x), @eq(&x, &y))
	var e1, e2 error
	println(e1 == e2, @eq(e1, nil))
	type w struct{ f interface{} }
	println(@eq(w{1}, w{1}), @eq(w{[]int{}}, w{[]int{}}))
	var f1 func()
	println(f1 == nil, @eq(f1, nil))
}
`, a, a)
		}},
		{"defer-eval-order", func(r *kit.Rand) string {
			return `type @T struct{ name string }

func (t @T) M(x int) { println("M", t.name, x) }

func @get(name string) @T { println("get", name); return @T{name} }
func @val(x int) int      { println("val", x); return x }

func @main() {
	t := @T{"a"}
	defer t.M(@val(1))
	t.name = "b"
	defer @get("c").M(@val(2))
	defer func(x int) { println("lit", x, t.name) }(@val(3))
	for i := 0; i < 2; i++ {
		defer @get("loop").M(i)
	}
	t.name = "z"
	println("end of main")
}
`
		}},
		{"recursive-structures", func(r *kit.Rand) string {
			n := 3 + r.Intn(5)
			return fmt.Sprintf(`type @N struct {
	v    int
	next *@N
}

type @Tree struct {
	v    int
	kids []*@Tree
}

func @push(h *@N, v int) *@N { return &@N{v, h} }

func (t *@Tree) Sum() int {
	if t == nil {
		return 0
	}
	s := t.v
	for _, k := range t.kids {
		s += k.Sum()
	}
	return s
}

func @build(d int) *@Tree {
	t := &@Tree{v: d}
	for i := 0; i < d; i++ {
		t.kids = append(t.kids, @build(d-1))
	}
	return t
}

func @main() {
	var h *@N
	for i := 1; i <= %d; i++ {
		h = @push(h, i*i)
	}
	s, n := 0, 0
	for p := h; p != nil; p = p.next {
		s += p.v
		n++
	}
	println(s, n, h.v, h.next.v)
	var prev *@N
	for h != nil {
		h.next, prev, h = prev, h, h.next
	}
	println(prev.v, prev.next.v)
	println(@build(3).Sum(), (*@Tree)(nil).Sum())
	mm := map[string]map[string]int{}
	for _, k := range []string{"a", "b", "a"} {
		if mm[k] == nil {
			mm[k] = map[string]int{}
		}
		mm[k]["n"]++
	}
	println(mm["a"]["n"], mm["b"]["n"], len(mm["c"]))
}
`, n)
		}},
		{"package-init-order", func(r *kit.Rand) string {
			a := r.Intn(9)
			return fmt.Sprintf(`var @a = @b + 1
var @b = @f() * 2
var @c = %d
var @tab = [3]int{@c, @a, @b}
var @m = map[string]int{"k": @a}

func @f() int { return @c + 10 }

func init() { @a += 100; @m["init"] = len(@tab) }
func init() { @b += @a }

func @main() {
	println(@a, @b, @c, @tab[0], @tab[1], @tab[2], @m["k"], @m["init"])
}
`, a)
		}},
		{"multi-assign-swap", func(r *kit.Rand) string {
			a, b := r.Intn(9), r.Intn(9)
			return fmt.Sprintf(`func @two() (int, int) { return %d, %d }

func @main() {
	x, y := @two()
	x, y = y, x+y
	println(x, y)
	s := []int{1, 2, 3}
	i := 0
	i, s[i] = 2, 9
	println(i, s[0], s[2])
	s[0], s[1], s[2] = s[2], s[0], s[1]
	println(s[0], s[1], s[2])
	m := map[string]int{}
	m["a"], m["b"] = 1, 2
	m["a"], m["b"] = m["b"], m["a"]
	println(m["a"], m["b"])
	var p *int
	a := 5
	p, *(&a) = &a, 6
	println(*p, a)
	type pt struct{ x, y int }
	q := pt{1, 2}
	q.x, q.y = q.y, q.x
	println(q.x, q.y)
	_, z := @two()
	z, _ = z*2, 0
	println(z)
	arr := [2]int{1, 2}
	brr := arr
	arr[0], brr[0] = brr[1], arr[1]
	println(arr[0], brr[0])
}
`, a, b)
		}},
		{"string-byte-conversions", func(r *kit.Rand) string {
			ws := []string{"hello", "héllo", "", "a\\x00b", "\\xf0\\x9f\\x98\\x80x"}
			w := ws[r.Intn(len(ws))]
			return fmt.Sprintf(`func @main() {
	s := "%s"
	b := []byte(s)
	b = append(b, s...)
	b = append(b, "!"...)
	println(len(b), string(b[len(s):]) == s+"!")
	n := copy(b, "XY")
	println(n, string(b[:n]))
	if len(b) > 2 {
		b[2] = 'Q'
	}
	println(s == string([]byte(s)), len(s))
	c := []byte(s)
	d := c
	if len(c) > 0 {
		d[0] ^= 0x20
		println(c[0] == d[0], s[0] == c[0])
	}
	r := []rune(s)
	println(len(r), string(r) == s, len(string(r)))
	total := 0
	for i := 0; i < len(s); i++ {
		total = total*31 + int(s[i])
		total %%= 1000003
	}
	println(total)
	println(s < s+"a", s[len(s):] == "", "abc"[1] == 'b', string("abc"[1]) == "b")
	var sb []byte
	for i := 0; i < 3; i++ {
		sb = append(sb, byte('a'+i))
	}
	println(string(sb), cap(sb) >= 3)
	e := []byte{}
	println(string(e) == "", e != nil, len(append(e, ""...)))
}
`, w)
		}},
		{"runtime-panics-classes", func(r *kit.Rand) string {
			k := r.Intn(8)
			return fmt.Sprintf(`type @S struct{ p *@S; v int }

func @try(k int) (res string) {
	defer func() {
		if r := recover(); r != nil {
			_, isErr := r.(error)
			res = "panicked"
			if isErr {
				res = "runtime"
			}
		}
	}()
	var a []int
	var m map[string]int
	var s *@S
	var i interface{} = "str"
	z := 0
	n := -1
	arr := [3]int{}
	switch k {
	case 0:
		return string(rune(a[0]))
	case 1:
		m["x"] = 1
	case 2:
		return string(rune(s.p.v))
	case 3:
		return string(rune(i.(int)))
	case 4:
		return string(rune(10 / z))
	case 5:
		return string(rune(arr[n+3+z]))
	case 6:
		a = make([]int, n)
	case 7:
		return string(rune(1 << n))
	}
	return "done"
}

func @main() {
	for k := 0; k < 8; k++ {
		println(k, @try(k))
	}
	println(@try(%d))
	panic("final")
}
`, k)
		}},
	}...)
}
