package minigo

import (
	"fmt"
	"strings"

	"gnoverif/kit"
)

// ---------------------------------------------------------------- extended programs (no model)
//
// Language features of the statement's quantifier that the Lean model does not
// cover (method sets, non-empty interfaces, embedding, floats, variadics,
// iota, pointers into arrays/structs, …) are exercised by TEXT templates: the
// op line `xprog <hex of the source>` carries the program itself, the Lean
// driver answers the constant `ext`, and the check is the GnoVM against native
// Go only (property side of the three-way comparison; no model tie).
//
// In a template every top-level identifier starts with `@`, which the harness
// replaces by the unit prefix (all programs of a stream share one native
// package).  Values are printed with println of ints / bools / strings only.

// ExtUnit turns an extended source into a runnable unit.
func ExtUnit(src string, idx int) Unit {
	pfx := fmt.Sprintf("P%d_", idx)
	return Unit{Prefix: pfx, Text: strings.ReplaceAll(src, "@", pfx) + "\n" + RunnerSrc(pfx, pfx+"main")}
}

type extTemplate struct {
	name string
	gen  func(r *kit.Rand) string
}

func pickI(r *kit.Rand, xs ...int) int { return xs[r.Intn(len(xs))] }

var extTemplates = []extTemplate{
	{"methods-value-pointer", func(r *kit.Rand) string {
		a, b := r.Intn(100), r.Intn(100)
		return fmt.Sprintf(`type @C struct{ n int }

func (c @C) Get() int   { return c.n }
func (c @C) Bump() @C   { c.n++; return c }
func (c *@C) Inc(k int) { c.n += k }
func (c *@C) Ptr() *@C  { return c }

func @main() {
	c := @C{%d}
	c.Inc(%d)
	d := c.Bump()
	println(c.Get(), d.Get())
	p := &c
	p.Inc(1)
	println(p.Get(), c.n, (*p).Get(), p.Ptr() == p)
	f := c.Get
	g := p.Inc
	c.n = 1000
	g(5)
	println(f(), c.n)
	h := (*@C).Inc
	h(&c, 2)
	k := @C.Get
	println(k(c))
}
`, a, b)
	}},
	{"interface-dispatch", func(r *kit.Rand) string {
		a, b, n := r.Intn(50), r.Intn(50), 1+r.Intn(4)
		return fmt.Sprintf(`type @Shape interface {
	Area() int
	Name() string
}
type @Sq struct{ s int }
type @Rc struct{ w, h int }

func (s @Sq) Area() int     { return s.s * s.s }
func (s @Sq) Name() string  { return "sq" }
func (r *@Rc) Area() int    { return r.w * r.h }
func (r *@Rc) Name() string { return "rc" }

func @total(xs []@Shape) int {
	t := 0
	for i, x := range xs {
		t += x.Area() * (i + 1)
	}
	return t
}

func @main() {
	xs := []@Shape{@Sq{%d}, &@Rc{%d, %d}}
	for i := 0; i < %d; i++ {
		xs = append(xs, @Sq{i})
	}
	println(@total(xs), len(xs), xs[1].Name(), xs[0].Name())
	var s @Shape
	println(s == nil)
	s = xs[1]
	if r, ok := s.(*@Rc); ok {
		r.w++
		println(r.Area(), xs[1].Area())
	}
	_, ok := s.(@Sq)
	println(ok)
	switch v := s.(type) {
	case @Sq:
		println("sq", v.s)
	case *@Rc:
		println("rc", v.w, v.h)
	default:
		println("other")
	}
	var e interface{} = s
	_, ok2 := e.(@Shape)
	_, ok3 := e.(interface{ Area() int })
	_, ok4 := e.(interface{ Nope() })
	println(ok2, ok3, ok4)
}
`, a, b, a+1, n)
	}},
	{"typed-nil-interface", func(r *kit.Rand) string {
		return `type @E struct{ m string }

func (e *@E) Error() string { return "E:" + e.m }

func @mk(fail bool) error {
	var p *@E
	if fail {
		p = &@E{"x"}
	}
	return p
}

func @main() {
	e1 := @mk(true)
	e2 := @mk(false)
	println(e1 != nil, e2 != nil, e1.Error())
	var e3 error
	println(e3 == nil)
	defer func() {
		r := recover()
		println("recovered", r != nil)
	}()
	println(e3.Error())
}
`
	}},
	{"embedding", func(r *kit.Rand) string {
		a := r.Intn(20)
		return fmt.Sprintf(`type @Base struct{ id int }

func (b @Base) ID() int      { return b.id }
func (b *@Base) SetID(n int) { b.id = n }
func (b @Base) Who() string  { return "base" }

type @Mid struct {
	@Base
	name string
}

func (m @Mid) Who() string { return "mid:" + m.name }

type @Top struct {
	*@Mid
	extra int
}

func @main() {
	m := @Mid{@Base{%d}, "m"}
	m.SetID(m.ID() + 1)
	println(m.ID(), m.id, m.Who(), m.@Base.Who())
	t := @Top{&m, 7}
	t.SetID(99)
	println(t.ID(), m.id, t.Who(), t.name, t.extra)
	var w interface{ Who() string } = t
	println(w.Who())
	cp := m
	cp.SetID(5)
	println(cp.id, m.id)
}
`, a)
	}},
	{"floats", func(r *kit.Rand) string {
		a, b := 1+r.Intn(1000), 1+r.Intn(1000)
		return fmt.Sprintf(`func @main() {
	x, y := float64(%d), float64(%d)
	z := x / y
	println(int64(z*1000000), z > 1, z == x/y, int64(x*y), int64(x-y))
	var f float32 = float32(x) / float32(y)
	println(int32(f*1000), float64(f) == z, int64(float64(f)*1e6))
	u := 0.1
	s := 0.0
	for i := 0; i < 10; i++ {
		s += u
	}
	println(s == 1.0, int64(s*1e17), s < 1.0)
	var big float64 = 1e300
	inf := big * big
	println(inf > big, inf == inf, inf-inf == inf-inf)
	n := -7.5
	println(int(n), int64(-n), uint8(int(x)%%256), int(float32(16777217)))
	h := x
	h /= 2
	h *= 3
	h -= 0.5
	println(int64(h * 10))
}
`, a, b)
	}},
	{"variadic-multireturn", func(r *kit.Rand) string {
		a, b, c := r.Intn(30), r.Intn(30), r.Intn(30)
		return fmt.Sprintf(`func @sum(base int, xs ...int) (total int, n int) {
	total = base
	for _, x := range xs {
		total += x
	}
	n = len(xs)
	return
}

func @swap(a, b string) (string, string) { return b, a }

func @app(xs ...int) []int { xs = append(xs, -1); return xs }

func @main() {
	t, n := @sum(%d)
	println(t, n)
	t, n = @sum(1, %d, %d, %d)
	println(t, n)
	ys := []int{4, 5, 6}
	t, n = @sum(0, ys...)
	println(t, n)
	p, q := @swap("a", "b")
	println(p, q)
	zs := make([]int, 2, 10)
	ws := @app(zs...)
	println(len(ws), len(zs), zs[:3][2])
	var none []int
	t, n = @sum(7, none...)
	println(t, n)
}
`, a, a, b, c)
	}},
	{"iota-consts", func(r *kit.Rand) string {
		k := 1 + r.Intn(5)
		return fmt.Sprintf(`type @W int

const (
	@A @W = iota * %d
	@B
	@C
	_
	@E
)

const (
	@K  = 1 << (10 * iota)
	@KB
	@MB
)

const @big = 1 << 100
const @f = 1.5
const @mask uint8 = ^uint8(0) >> %d

func (w @W) Double() @W { return w * 2 }

func @main() {
	println(int(@A), int(@B), int(@C), int(@E), int(@E.Double()))
	println(@K, @KB, @MB)
	println(@big>>98, int(@f*4), @mask, uint16(@mask)<<8)
	const local = @KB + 5
	var x int32 = local
	println(x, local/3, local%%7)
	println(len("héllo"), 'a'+1, "s"[0], 7/2, 7/2.0 > 3, -7/2, -7%%3)
}
`, k, k)
	}},
	{"pointers-into-composites", func(r *kit.Rand) string {
		a := r.Intn(9)
		return fmt.Sprintf(`type @P struct {
	xs [3]int
	in struct{ v int }
	sl []int
}

func @bump(p *int) { *p += 10 }

func @main() {
	var s @P
	s.sl = []int{1, 2, 3}
	q := &s.xs[1]
	*q = %d
	@bump(q)
	@bump(&s.in.v)
	@bump(&s.sl[2])
	println(s.xs[1], s.in.v, s.sl[2])
	t := s
	*q = 1
	t.sl[0] = 100
	println(t.xs[1], s.xs[1], s.sl[0])
	arr := [2][2]int{{1, 2}, {3, 4}}
	row := &arr[1]
	row[0] = 30
	brr := arr
	brr[1][1] = 40
	println(arr[1][0], arr[1][1], brr[1][1])
	pp := &q
	**pp = 77
	println(s.xs[1])
	ms := map[string]*@P{"a": &s}
	ms["a"].in.v++
	println(s.in.v)
	np := new(@P)
	np.xs[2] = 5
	println(np.xs[2], len(np.sl), np.sl == nil)
}
`, a)
	}},
	{"closures-loops", func(r *kit.Rand) string {
		n := 2 + r.Intn(4)
		return fmt.Sprintf(`func @counter() (func() int, func()) {
	c := 0
	return func() int { c++; return c }, func() { c = 100 }
}

func @main() {
	var fs []func() int
	for i := 0; i < %d; i++ {
		fs = append(fs, func() int { i += 10; return i })
	}
	for _, f := range fs {
		println(f(), f())
	}
	next, reset := @counter()
	println(next(), next())
	reset()
	println(next())
	var fib func(int) int
	fib = func(n int) int {
		if n < 2 {
			return n
		}
		return fib(n-1) + fib(n-2)
	}
	println(fib(%d))
	acc := 0
	for _, v := range []int{1, 2, 3} {
		defer func() { acc += v; println("d", v, acc) }()
	}
	x := 1
	func() {
		x := x + 1
		x++
		println(x)
	}()
	println(x)
}
`, n, 5+n)
	}},
	{"defer-panic-recover", func(r *kit.Rand) string {
		a := r.Intn(5)
		return fmt.Sprintf(`func @f(n int) (r int) {
	defer func() {
		if e := recover(); e != nil {
			s, _ := e.(string)
			println("rec", s)
			r = -n
		}
	}()
	defer func() { r *= 2 }()
	if n%%2 == 0 {
		panic("even")
	}
	return n + 1
}

func @g() {
	defer println("g1")
	defer func() {
		defer func() { println("inner", recover() != nil) }()
		panic("second")
	}()
	panic("first")
}

func @h() (s string) {
	defer func() {
		r := recover()
		if err, ok := r.(error); ok {
			_ = err
			s = "runtime"
		}
	}()
	var m map[int]int
	m[1] = 1
	return "no"
}

func @main() {
	println(@f(%d), @f(%d))
	func() {
		defer func() { println("outer", recover() != nil) }()
		@g()
	}()
	println(@h())
	for i := 0; i < 3; i++ {
		defer func(k int) { println("loop", k, i) }(i * 2)
	}
}
`, a, a+1)
	}},
	{"labels-goto", func(r *kit.Rand) string {
		n := 3 + r.Intn(4)
		return fmt.Sprintf(`func @main() {
	count := 0
outer:
	for i := 0; i < %d; i++ {
		for j := 0; j < %d; j++ {
			switch {
			case j == 1:
				continue
			case i*j == 6:
				break outer
			case j > i:
				continue outer
			}
			count += i*10 + j
		}
	}
	println(count)
	k := 0
loop:
	if k < 5 {
		k += 2
		goto loop
	}
	println(k)
sw:
	switch x := k %% 3; x {
	case 0:
		println("zero")
		fallthrough
	case 1:
		for {
			println("one")
			break sw
		}
	default:
		println("dflt")
	}
	t := 0
	for i := range [4]int{} {
		if i == 2 {
			break
		}
		t += i + 1
	}
	println(t)
}
`, n, n)
	}},
	{"strings-runes", func(r *kit.Rand) string {
		words := []string{"héllo", "日本語", "a\\xffb", "naïve\\xe2\\x82", "", "xyz"}
		w := words[r.Intn(len(words))]
		return fmt.Sprintf(`func @main() {
	s := "%s"
	n := 0
	for i, c := range s {
		n += i*int(c) %% 1000
	}
	rs := []rune(s)
	bs := []byte(s)
	println(len(s), len(rs), len(bs), n)
	println(string(rs) == s, string(bs) == s, s < "z", s+"!" > s)
	if len(rs) > 0 {
		rs[0] = 'Z'
		println(string(rs), string(rs[len(rs)-1]))
	}
	t := ""
	for i := len(bs) - 1; i >= 0; i-- {
		t += string(rune(bs[i] & 0x7f))
	}
	println(len(t), t == s)
	println(string(rune(0x1F600)) == "\U0001F600", string(rune(-1)), len(string(rune(0xD800))))
	u := "abc"
	v := u[1:]
	w := u[:0] + "q"
	println(v, w, u[len(u)-1:], len(u[3:]))
	cnt := 0
	for range "a\x80\x80b" {
		cnt++
	}
	println(cnt)
}
`, w)
	}},
	{"maps-composite-keys", func(r *kit.Rand) string {
		a := r.Intn(5)
		return fmt.Sprintf(`type @K struct {
	a int
	b string
}

func @main() {
	m := map[@K][]int{}
	k1, k2 := @K{%d, "x"}, @K{%d, "x"}
	m[k1] = append(m[k1], 1)
	m[k2] = append(m[k2], 2)
	m[@K{9, "y"}] = nil
	println(len(m), len(m[k1]), m[k1][len(m[k1])-1])
	v, ok := m[@K{9, "y"}]
	println(v == nil, ok, len(m[@K{0, "zz"}]))
	delete(m, k1)
	delete(m, k1)
	println(len(m))
	am := map[[2]int]string{{1, 2}: "a"}
	am[[2]int{1, 2}] += "b"
	println(am[[2]int{1, 2}], am[[2]int{2, 1}] == "")
	im := map[interface{}]int{1: 1, "1": 2, int8(1): 3, true: 4}
	println(im[1], im["1"], im[int8(1)], im[true], im[int16(1)], len(im))
	cnt := map[string]int{}
	for _, w := range []string{"a", "b", "a", "c", "a"} {
		cnt[w]++
	}
	println(cnt["a"], cnt["b"], cnt["z"], len(cnt))
	var nm map[string]int
	println(nm["q"], len(nm), nm == nil)
	pm := map[string]*int{}
	x := 5
	pm["x"] = &x
	*pm["x"]++
	println(x)
}
`, a, a)
	}},
	{"array-struct-copy", func(r *kit.Rand) string {
		a := r.Intn(50)
		return fmt.Sprintf(`type @In struct{ v [2]int }
type @Out struct {
	in  @In
	ins [2]@In
	p   *@In
}

func @mod(o @Out) @Out {
	o.in.v[0] = 1
	o.ins[1].v[1] = 2
	o.p.v[0] = 3
	return o
}

func @main() {
	shared := &@In{[2]int{%d, 0}}
	o := @Out{p: shared}
	o2 := @mod(o)
	println(o.in.v[0], o.ins[1].v[1], o.p.v[0], o2.in.v[0], o2.ins[1].v[1], o2.p == o.p)
	a := [3][]int{{1}, {2}, {3}}
	b := a
	b[0][0] = 10
	b[1] = []int{20}
	println(a[0][0], a[1][0], b[1][0], len(a[2]))
	x := [2]@In{}
	y := x
	y[0].v[1] = 9
	println(x[0].v[1], y[0].v[1], x == y, x == [2]@In{})
	s := []@In{{[2]int{1, 2}}}
	for _, e := range s {
		e.v[0] = 100
	}
	for i := range s {
		s[i].v[1] = 200
	}
	println(s[0].v[0], s[0].v[1])
}
`, a)
	}},
	{"slices-aliasing", func(r *kit.Rand) string {
		a := 1 + r.Intn(3)
		return fmt.Sprintf(`func @fill(s []int, v int) {
	for i := range s {
		s[i] = v
	}
}

func @main() {
	base := make([]int, 4, 8)
	a := base[:2]
	b := base[1:3:3]
	@fill(a, 1)
	b[0] = 7
	c := append(b, 5)
	c[0] = 9
	d := append(a, 6)
	println(base[0], base[1], base[2], base[3], len(c), cap(b), d[2], a[1], b[0])
	e := base[%d:]
	n := copy(e, base)
	println(n, base[3], len(e), cap(e))
	f := base[:cap(base)]
	println(len(f), f[7])
	var nilS []int
	g := append(nilS, nilS...)
	println(g == nil, len(append(nilS, 1)))
	h := []byte("hello")
	copy(h[1:], h)
	println(string(h))
	two := [][]int{{1, 2}, {3}}
	two[1] = append(two[1], two[0]...)
	println(len(two[1]), two[1][2])
	z := base[2:2]
	println(len(z), cap(z), z != nil)
}
`, a)
	}},
	{"switch-forms", func(r *kit.Rand) string {
		a := r.Intn(6)
		return fmt.Sprintf(`func @cls(x interface{}) string {
	switch v := x.(type) {
	case nil:
		return "nil"
	case int, int8:
		_ = v
		return "int-ish"
	case string:
		return "s" + v
	case []int:
		return "slice"
	case func() int:
		return "fn"
	case error:
		return "err"
	}
	return "?"
}

func @main() {
	println(@cls(nil), @cls(%d), @cls(int8(1)), @cls("x"), @cls([]int{}), @cls(func() int { return 1 }), @cls(1.5))
	x := %d
	switch y := x * 2; {
	case y > 6:
		println("big")
	case y > 2:
		println("mid")
		fallthrough
	default:
		println("dflt")
	case y < 0:
		println("neg")
	}
	switch x {
	default:
		println("d")
	case 1, 2, 3:
		println("123")
	case 4:
	}
	switch {
	}
	f := func() int { println("eval"); return x }
	switch f() {
	case f():
		println("same")
	}
}
`, a, a)
	}},
}

// ExtProgram picks a template and instantiates it.
func ExtProgram(r *kit.Rand) (name, src string) {
	t := extTemplates[r.Intn(len(extTemplates))]
	return t.name, t.gen(r)
}

// ExtTemplateCount is the number of template families.
func ExtTemplateCount() int { return len(extTemplates) }

// ExtProgramAt instantiates family i.
func ExtProgramAt(i int, r *kit.Rand) (name, src string) {
	t := extTemplates[i%len(extTemplates)]
	return t.name, t.gen(r)
}
