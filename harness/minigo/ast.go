// Package minigo is the Go side of the C04 "MiniGo" fragment: the abstract
// syntax (mirror of lean/GnoVerif/Model/C04Ast.lean), its serialisation as
// S-expression tokens (one program per op line, parsed by the Lean driver),
// its rendering as Go/Gno source text, the seeded program generator, and the
// two executors of the rendered text (GnoVM in-process, native Go toolchain).
//
// Nothing here evaluates MiniGo: the only evaluators are the Lean model, the
// GnoVM and the Go compiler.
package minigo

import (
	"fmt"
	"math/big"
	"strconv"
	"strings"
)

// ---------------------------------------------------------------- types

type TKind int

const (
	TInt TKind = iota
	TBool
	TStr
	TAny
	TArr
	TSlice
	TMap
	TPtr
	TStruct
	TFunc
)

type Type struct {
	Kind TKind
	IT   string // TInt: i8 i16 i32 i64 int u8 u16 u32 u64 uint
	N    int    // TArr
	Elem *Type  // TArr TSlice TPtr; TMap value
	Key  *Type  // TMap
	Name string // TStruct (declared name, without prefix)
	// TFunc
	Params  []*Type
	Results []*Type
}

var IntNames = []string{"i8", "i16", "i32", "i64", "int", "u8", "u16", "u32", "u64", "uint"}

var goIntName = map[string]string{"i8": "int8", "i16": "int16", "i32": "int32", "i64": "int64", "int": "int",
	"u8": "uint8", "u16": "uint16", "u32": "uint32", "u64": "uint64", "uint": "uint"}

var intTypes = map[string]*Type{}

func init() {
	for _, n := range IntNames {
		intTypes[n] = &Type{Kind: TInt, IT: n}
	}
}

func IntT(n string) *Type { return intTypes[n] }

var (
	BoolT = &Type{Kind: TBool}
	StrT  = &Type{Kind: TStr}
	AnyT  = &Type{Kind: TAny}
)

func ArrT(n int, e *Type) *Type   { return &Type{Kind: TArr, N: n, Elem: e} }
func SliceT(e *Type) *Type        { return &Type{Kind: TSlice, Elem: e} }
func MapT(k, v *Type) *Type       { return &Type{Kind: TMap, Key: k, Elem: v} }
func PtrT(e *Type) *Type          { return &Type{Kind: TPtr, Elem: e} }
func StructT(name string) *Type   { return &Type{Kind: TStruct, Name: name} }
func FuncT(ps, rs []*Type) *Type  { return &Type{Kind: TFunc, Params: ps, Results: rs} }
func (t *Type) IsInt() bool       { return t.Kind == TInt }
func (t *Type) Width() int        { return map[string]int{"i8": 8, "i16": 16, "i32": 32, "i64": 64, "int": 64, "u8": 8, "u16": 16, "u32": 32, "u64": 64, "uint": 64}[t.IT] }
func (t *Type) Signed() bool      { return t.IT[0] == 'i' }
func (t *Type) Eq(u *Type) bool   { return t.SExp() == u.SExp() }

func (t *Type) Min() *big.Int {
	if !t.Signed() {
		return big.NewInt(0)
	}
	return new(big.Int).Neg(new(big.Int).Lsh(big.NewInt(1), uint(t.Width()-1)))
}
func (t *Type) Max() *big.Int {
	w := uint(t.Width())
	if t.Signed() {
		w--
	}
	return new(big.Int).Sub(new(big.Int).Lsh(big.NewInt(1), w), big.NewInt(1))
}

// SExp: the token form read by the Lean driver.
func (t *Type) SExp() string {
	switch t.Kind {
	case TInt:
		return t.IT
	case TBool:
		return "bool"
	case TStr:
		return "str"
	case TAny:
		return "any"
	case TArr:
		return fmt.Sprintf("( arr %d %s )", t.N, t.Elem.SExp())
	case TSlice:
		return "( sl " + t.Elem.SExp() + " )"
	case TMap:
		return "( map " + t.Key.SExp() + " " + t.Elem.SExp() + " )"
	case TPtr:
		return "( ptr " + t.Elem.SExp() + " )"
	case TStruct:
		return "( st " + t.Name + " )"
	case TFunc:
		ps, rs := []string{}, []string{}
		for _, q := range t.Params {
			ps = append(ps, q.SExp())
		}
		for _, q := range t.Results {
			rs = append(rs, q.SExp())
		}
		return "( fn ( " + strings.Join(append(ps, ")"), " ") + " ( " + strings.Join(append(rs, ")"), " ") + " )"
	}
	panic("type kind")
}

// Go renders the type as Go source; pfx is the program's top-level prefix.
func (t *Type) Go(pfx string) string {
	switch t.Kind {
	case TInt:
		return goIntName[t.IT]
	case TBool:
		return "bool"
	case TStr:
		return "string"
	case TAny:
		return "interface{}"
	case TArr:
		return fmt.Sprintf("[%d]%s", t.N, t.Elem.Go(pfx))
	case TSlice:
		return "[]" + t.Elem.Go(pfx)
	case TMap:
		return "map[" + t.Key.Go(pfx) + "]" + t.Elem.Go(pfx)
	case TPtr:
		return "*" + t.Elem.Go(pfx)
	case TStruct:
		return pfx + t.Name
	case TFunc:
		ps := make([]string, len(t.Params))
		for i, p := range t.Params {
			ps[i] = p.Go(pfx)
		}
		s := "func(" + strings.Join(ps, ", ") + ")"
		switch len(t.Results) {
		case 0:
		case 1:
			s += " " + t.Results[0].Go(pfx)
		default:
			rs := make([]string, len(t.Results))
			for i, r := range t.Results {
				rs[i] = r.Go(pfx)
			}
			s += " (" + strings.Join(rs, ", ") + ")"
		}
		return s
	}
	panic("type kind")
}

// ---------------------------------------------------------------- expressions

// CExpr is an untyped integer constant expression.
type CExpr struct {
	Op   string // n add sub mul quo rem and or xor andnot shl shr neg compl
	V    *big.Int
	A, B *CExpr
	N    uint
}

func (c *CExpr) SExp() string {
	switch c.Op {
	case "n":
		return "( n " + c.V.String() + " )"
	case "shl", "shr":
		return fmt.Sprintf("( %s %s %d )", c.Op, c.A.SExp(), c.N)
	case "neg", "compl":
		return "( " + c.Op + " " + c.A.SExp() + " )"
	}
	return "( " + c.Op + " " + c.A.SExp() + " " + c.B.SExp() + " )"
}

var goOp = map[string]string{"add": "+", "sub": "-", "mul": "*", "quo": "/", "rem": "%", "and": "&", "or": "|",
	"xor": "^", "andnot": "&^", "shl": "<<", "shr": ">>", "eq": "==", "ne": "!=", "lt": "<", "le": "<=", "gt": ">",
	"ge": ">=", "cat": "+", "land": "&&", "lor": "||", "neg": "-", "compl": "^", "pos": "+", "not": "!"}

func (c *CExpr) Go() string {
	switch c.Op {
	case "n":
		if c.V.Sign() < 0 {
			return "(" + c.V.String() + ")"
		}
		return c.V.String()
	case "shl", "shr":
		return fmt.Sprintf("(%s %s %d)", c.A.Go(), goOp[c.Op], c.N)
	case "neg", "compl":
		return "(" + goOp[c.Op] + c.A.Go() + ")"
	}
	return "(" + c.A.Go() + " " + goOp[c.Op] + " " + c.B.Go() + ")"
}

// Expr is a uniform node; Op is the S-expression head.
type Expr struct {
	Op   string
	T    *Type   // static type of the expression (generator bookkeeping; not serialised)
	Args []*Expr // operands
	Ty   *Type   // type operand (conv box new slit alit sllit mksl assert …); mlit/mkmap: key type
	Ty2  *Type   // mlit/mkmap: value type
	Name string  // v: variable; idx/slc: container kind
	Int  *big.Int
	Str  []byte
	Bool bool
	N    int   // fld index, flit id, alit length
	C    *CExpr
	Opt  []bool // slc: which of lo hi mx are present (Args = [a, present...])
	// rendering hints (do not change the meaning)
	Bare     bool // integer literal rendered without its type conversion
	Implicit bool // box rendered as the bare operand (assignment context converts)
	FName    string // fld/pfld: field name for rendering
}

func sx(parts ...string) string { return "( " + strings.Join(parts, " ") + " )" }

func hexTok(b []byte) string {
	if len(b) == 0 {
		return "e"
	}
	return fmt.Sprintf("%x", b)
}

func (e *Expr) SExp() string {
	args := func() []string {
		out := make([]string, len(e.Args))
		for i, a := range e.Args {
			out[i] = a.SExp()
		}
		return out
	}
	switch e.Op {
	case "i":
		if e.Bare {
			return sx("ib", e.T.IT, e.Int.String())
		}
		return sx("i", e.T.IT, e.Int.String())
	case "b":
		return sx("b", strconv.FormatBool(e.Bool))
	case "s":
		return sx("s", hexTok(e.Str))
	case "c":
		return sx("c", e.T.IT, e.C.SExp())
	case "v":
		return sx("v", e.Name)
	case "conv":
		return sx(e.Op, e.Ty.SExp(), e.Args[0].SExp())
	case "box":
		if e.Implicit {
			return sx("boxi", e.Ty.SExp(), e.Args[0].SExp())
		}
		return sx("box", e.Ty.SExp(), e.Args[0].SExp())
	case "idx":
		return sx("idx", e.Name, e.Args[0].SExp(), e.Args[1].SExp())
	case "slc":
		parts := []string{"slc", e.Name, e.Args[0].SExp()}
		k := 1
		for i := 0; i < 3; i++ {
			if e.Opt[i] {
				parts = append(parts, e.Args[k].SExp())
				k++
			} else {
				parts = append(parts, "_")
			}
		}
		return sx(parts...)
	case "fld", "pfld":
		return sx(e.Op, e.Args[0].SExp(), strconv.Itoa(e.N))
	case "new", "nil":
		return sx(e.Op, e.Ty.SExp())
	case "slit", "sllit":
		return sx(append([]string{e.Op, e.Ty.SExp()}, args()...)...)
	case "alit":
		return sx(append([]string{"alit", e.Ty.SExp(), strconv.Itoa(e.N)}, args()...)...)
	case "mlit":
		parts := []string{"mlit", e.Ty.SExp(), e.Ty2.SExp()}
		for i := 0; i+1 < len(e.Args); i += 2 {
			parts = append(parts, sx(e.Args[i].SExp(), e.Args[i+1].SExp()))
		}
		return sx(parts...)
	case "mksl":
		c := "_"
		if len(e.Args) > 1 {
			c = e.Args[1].SExp()
		}
		return sx("mksl", e.Ty.SExp(), e.Args[0].SExp(), c)
	case "mkmap":
		return sx("mkmap", e.Ty.SExp(), e.Ty2.SExp())
	case "flit":
		return sx("flit", strconv.Itoa(e.N))
	case "recover":
		return sx("recover")
	case "assert", "assertok":
		return sx(e.Op, e.Args[0].SExp(), e.Ty.SExp())
	}
	// plain operator nodes: head + operands
	return sx(append([]string{e.Op}, args()...)...)
}

// ---------------------------------------------------------------- statements

type Clause struct {
	Default bool
	Exprs   []*Expr // switch
	Types   []*Type // type switch; nil entry = `nil`
	Body    []*Stmt
}

type Stmt struct {
	Op    string
	Name  string   // var: name; label: label; break/continue/goto: label ("" = none); opset: operator; range: kind
	Names []string // def
	Ty    *Type    // var
	E     *Expr    // var init (may be nil), def, expr, if cond, for cond, range operand, switch tag, tswitch operand, panic, opset rhs
	Lvs   []*Expr  // set lhs, opset/inc/dec lhs [0]
	Es    []*Expr  // set rhs, print, ret, defer (f, args...)
	Init  *Stmt    // if/for/switch init
	Post  *Stmt    // for post
	Body  []*Stmt  // if then, for body, range body, block
	Else  []*Stmt
	Label string // for/range/switch/tswitch own label ("" = none)
	K, V  string // range vars ("" = none); tswitch: K = bind
	Cls   []*Clause
	S     *Stmt // label target
}

func optS(s string) string {
	if s == "" {
		return "_"
	}
	return s
}
func optE(e *Expr) string {
	if e == nil {
		return "_"
	}
	return e.SExp()
}
func optSt(s *Stmt) string {
	if s == nil {
		return "_"
	}
	return s.SExp()
}
func stmtsSExp(ss []*Stmt) string {
	parts := make([]string, len(ss))
	for i, s := range ss {
		parts[i] = s.SExp()
	}
	if len(parts) == 0 {
		return "( )"
	}
	return sx(parts...)
}
func exprsSExp(es []*Expr) string {
	parts := make([]string, len(es))
	for i, e := range es {
		parts[i] = e.SExp()
	}
	if len(parts) == 0 {
		return "( )"
	}
	return sx(parts...)
}

func (s *Stmt) SExp() string {
	switch s.Op {
	case "var":
		return sx("var", s.Name, s.Ty.SExp(), optE(s.E))
	case "def":
		return sx("def", sx(s.Names...), s.E.SExp())
	case "set":
		return sx("set", exprsSExp(s.Lvs), exprsSExp(s.Es))
	case "opset":
		return sx("opset", s.Name, s.Lvs[0].SExp(), s.E.SExp())
	case "inc", "dec":
		return sx(s.Op, s.Lvs[0].SExp())
	case "expr":
		return sx("expr", s.E.SExp())
	case "print", "ret", "delete":
		parts := []string{s.Op}
		for _, e := range s.Es {
			parts = append(parts, e.SExp())
		}
		return sx(parts...)
	case "if":
		return sx("if", optSt(s.Init), s.E.SExp(), stmtsSExp(s.Body), stmtsSExp(s.Else))
	case "for":
		return sx("for", optS(s.Label), optSt(s.Init), optE(s.E), optSt(s.Post), stmtsSExp(s.Body))
	case "range":
		return sx("range", optS(s.Label), s.Name, optS(s.K), optS(s.V), s.E.SExp(), stmtsSExp(s.Body))
	case "switch":
		cls := []string{}
		for _, c := range s.Cls {
			if c.Default {
				cls = append(cls, sx("default", stmtsSExp(c.Body)))
			} else {
				cls = append(cls, sx("case", exprsSExp(c.Exprs), stmtsSExp(c.Body)))
			}
		}
		cl := "( )"
		if len(cls) > 0 {
			cl = sx(cls...)
		}
		return sx("switch", optS(s.Label), optSt(s.Init), optE(s.E), cl)
	case "tswitch":
		cls := []string{}
		for _, c := range s.Cls {
			if c.Default {
				cls = append(cls, sx("default", stmtsSExp(c.Body)))
			} else {
				ts := []string{}
				for _, t := range c.Types {
					if t == nil {
						ts = append(ts, "nil")
					} else {
						ts = append(ts, t.SExp())
					}
				}
				cls = append(cls, sx("case", sx(ts...), stmtsSExp(c.Body)))
			}
		}
		cl := "( )"
		if len(cls) > 0 {
			cl = sx(cls...)
		}
		return sx("tswitch", optS(s.Label), optS(s.K), s.E.SExp(), cl)
	case "block":
		parts := []string{"block"}
		for _, b := range s.Body {
			parts = append(parts, b.SExp())
		}
		return sx(parts...)
	case "label":
		return sx("label", s.Name, s.S.SExp())
	case "break", "continue":
		return sx(s.Op, optS(s.Name))
	case "goto":
		return sx("goto", s.Name)
	case "fallthrough":
		return sx("fallthrough")
	case "defer":
		parts := []string{"defer"}
		for _, e := range s.Es {
			parts = append(parts, e.SExp())
		}
		return sx(parts...)
	case "panic":
		return sx("panic", s.E.SExp())
	}
	panic("stmt op " + s.Op)
}

// ---------------------------------------------------------------- program

type Field struct {
	Name string
	T    *Type
}

type StructDecl struct {
	Name   string
	Fields []Field
}

type Func struct {
	Name    string
	Params  []Field
	Results []Field
	Named   bool // results are named in the source
	Body    []*Stmt
	Lit     bool // hoisted function literal (rendered inline at its use)
}

type Global struct {
	Name string
	T    *Type
	E    *Expr
}

type Program struct {
	Types   []*StructDecl
	Funcs   []*Func
	Globals []*Global
	Main    int
}

func (p *Program) SExp() string {
	var b strings.Builder
	b.WriteString("( types")
	for _, t := range p.Types {
		b.WriteString(" ( " + t.Name)
		for _, f := range t.Fields {
			b.WriteString(" " + f.T.SExp())
		}
		b.WriteString(" )")
	}
	b.WriteString(" ) ( funcs")
	for _, f := range p.Funcs {
		hd := "fn"
		if f.Lit {
			hd = "lit"
		}
		b.WriteString(" ( " + hd + " " + f.Name + " ( params")
		for _, q := range f.Params {
			b.WriteString(" ( " + q.Name + " " + q.T.SExp() + " )")
		}
		if f.Named {
			b.WriteString(" ) ( nresults")
		} else {
			b.WriteString(" ) ( results")
		}
		for _, q := range f.Results {
			b.WriteString(" ( " + q.Name + " " + q.T.SExp() + " )")
		}
		b.WriteString(" ) " + stmtsSExp(f.Body) + " )")
	}
	b.WriteString(" ) ( globals")
	for _, g := range p.Globals {
		b.WriteString(" ( " + g.Name + " " + g.T.SExp() + " " + optE(g.E) + " )")
	}
	b.WriteString(" ) " + strconv.Itoa(p.Main))
	return b.String()
}

func (p *Program) structDecl(name string) *StructDecl {
	for _, t := range p.Types {
		if t.Name == name {
			return t
		}
	}
	return nil
}
