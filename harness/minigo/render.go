package minigo

import (
	"fmt"
	"strconv"
	"strings"
)

// Renderer turns a Program into Go source text (valid Go and valid Gno).
// Every top-level identifier (types, functions, globals) gets the prefix, so
// that many programs can live in one native Go package; the entry function is
// <prefix>main.
type renderer struct {
	p      *Program
	pfx    string
	top    map[string]bool // names that take the prefix
	b      strings.Builder
	indent int
}

// Render returns the declarations of the program (no package clause).
func Render(p *Program, pfx string) string {
	r := &renderer{p: p, pfx: pfx, top: map[string]bool{}}
	for _, f := range p.Funcs {
		if !f.Lit {
			r.top[f.Name] = true
		}
	}
	for _, g := range p.Globals {
		r.top[g.Name] = true
	}
	for _, t := range p.Types {
		r.line("type %s%s struct {", pfx, t.Name)
		for i, f := range t.Fields {
			r.line("\tF%d %s", i, f.T.Go(pfx))
		}
		r.line("}")
	}
	for _, g := range p.Globals {
		if g.E != nil {
			r.line("var %s%s %s = %s", pfx, g.Name, g.T.Go(pfx), r.expr(g.E))
		} else {
			r.line("var %s%s %s", pfx, g.Name, g.T.Go(pfx))
		}
	}
	for _, f := range p.Funcs {
		if f.Lit {
			continue
		}
		r.line("func %s%s%s {", pfx, f.Name, r.sig(f))
		r.indent++
		r.stmts(f.Body)
		r.indent--
		r.line("}")
	}
	return r.b.String()
}

// EntryName is the rendered name of the program's entry function.
func EntryName(p *Program, pfx string) string { return pfx + p.Funcs[p.Main].Name }

func (r *renderer) line(format string, a ...any) {
	r.b.WriteString(strings.Repeat("\t", r.indent))
	fmt.Fprintf(&r.b, format, a...)
	r.b.WriteByte('\n')
}

func (r *renderer) name(n string) string {
	if r.top[n] {
		return r.pfx + n
	}
	return n
}

func (r *renderer) sig(f *Func) string {
	ps := make([]string, len(f.Params))
	for i, p := range f.Params {
		ps[i] = p.Name + " " + p.T.Go(r.pfx)
	}
	s := "(" + strings.Join(ps, ", ") + ")"
	if len(f.Results) == 0 {
		return s
	}
	rs := make([]string, len(f.Results))
	for i, q := range f.Results {
		if f.Named {
			rs[i] = q.Name + " " + q.T.Go(r.pfx)
		} else {
			rs[i] = q.T.Go(r.pfx)
		}
	}
	if len(rs) == 1 && !f.Named {
		return s + " " + rs[0]
	}
	return s + " (" + strings.Join(rs, ", ") + ")"
}

func (r *renderer) exprs(es []*Expr) string {
	out := make([]string, len(es))
	for i, e := range es {
		out[i] = r.expr(e)
	}
	return strings.Join(out, ", ")
}

func (r *renderer) expr(e *Expr) string {
	a := func(i int) string { return r.expr(e.Args[i]) }
	switch e.Op {
	case "i":
		if e.Bare {
			if e.Int.Sign() < 0 {
				return "(" + e.Int.String() + ")"
			}
			return e.Int.String()
		}
		return goIntName[e.T.IT] + "(" + e.Int.String() + ")"
	case "b":
		return strconv.FormatBool(e.Bool)
	case "s":
		return strconv.Quote(string(e.Str))
	case "c":
		return goIntName[e.T.IT] + "(" + e.C.Go() + ")"
	case "v":
		return r.name(e.Name)
	case "add", "sub", "mul", "quo", "rem", "and", "or", "xor", "andnot", "shl", "shr",
		"eq", "ne", "lt", "le", "gt", "ge", "cat", "land", "lor":
		return "(" + a(0) + " " + goOp[e.Op] + " " + a(1) + ")"
	case "neg", "compl", "pos", "not":
		return "(" + goOp[e.Op] + a(0) + ")"
	case "conv":
		if e.Ty.Kind == TSlice || e.Ty.Kind == TPtr {
			return "(" + e.Ty.Go(r.pfx) + ")(" + a(0) + ")"
		}
		return e.Ty.Go(r.pfx) + "(" + a(0) + ")"
	case "box":
		if e.Implicit {
			return a(0)
		}
		return "interface{}(" + a(0) + ")"
	case "call":
		return a(0) + "(" + r.exprs(e.Args[1:]) + ")"
	case "idx", "idxok":
		return a(0) + "[" + a(1) + "]"
	case "slc":
		parts := []string{"", "", ""}
		k := 1
		for i := 0; i < 3; i++ {
			if e.Opt[i] {
				parts[i] = a(k)
				k++
			}
		}
		s := a(0) + "[" + parts[0] + ":" + parts[1]
		if e.Opt[2] {
			s += ":" + parts[2]
		}
		return s + "]"
	case "fld", "pfld":
		return a(0) + ".F" + strconv.Itoa(e.N)
	case "deref":
		return "(*" + a(0) + ")"
	case "addr":
		return "(&" + a(0) + ")"
	case "new":
		return "new(" + e.Ty.Go(r.pfx) + ")"
	case "nil":
		return "nil"
	case "slit":
		return e.Ty.Go(r.pfx) + "{" + r.exprs(e.Args) + "}"
	case "alit":
		return fmt.Sprintf("[%d]%s{%s}", e.N, e.Ty.Go(r.pfx), r.exprs(e.Args))
	case "sllit":
		return "[]" + e.Ty.Go(r.pfx) + "{" + r.exprs(e.Args) + "}"
	case "mlit":
		kv := []string{}
		for i := 0; i+1 < len(e.Args); i += 2 {
			kv = append(kv, a(i)+": "+a(i+1))
		}
		return "map[" + e.Ty.Go(r.pfx) + "]" + e.Ty2.Go(r.pfx) + "{" + strings.Join(kv, ", ") + "}"
	case "addrlit":
		return "(&" + a(0) + ")"
	case "len", "cap", "copy", "append":
		return e.Op + "(" + r.exprs(e.Args) + ")"
	case "appendsl":
		return "append(" + a(0) + ", " + a(1) + "...)"
	case "mksl":
		return "make([]" + e.Ty.Go(r.pfx) + ", " + r.exprs(e.Args) + ")"
	case "mkmap":
		return "make(map[" + e.Ty.Go(r.pfx) + "]" + e.Ty2.Go(r.pfx) + ")"
	case "flit":
		f := r.p.Funcs[e.N]
		var sub renderer = renderer{p: r.p, pfx: r.pfx, top: r.top, indent: r.indent + 1}
		sub.stmts(f.Body)
		return "func" + r.sig(f) + " {\n" + sub.b.String() + strings.Repeat("\t", r.indent) + "}"
	case "recover":
		return "recover()"
	case "assert", "assertok":
		return a(0) + ".(" + e.Ty.Go(r.pfx) + ")"
	}
	panic("render expr " + e.Op)
}

func (r *renderer) simple(s *Stmt) string {
	switch s.Op {
	case "def":
		return strings.Join(s.Names, ", ") + " := " + r.expr(s.E)
	case "set":
		return r.exprs(s.Lvs) + " = " + r.exprs(s.Es)
	case "opset":
		return r.expr(s.Lvs[0]) + " " + goOp[s.Name] + "= " + r.expr(s.E)
	case "inc":
		return r.expr(s.Lvs[0]) + "++"
	case "dec":
		return r.expr(s.Lvs[0]) + "--"
	case "expr":
		return r.expr(s.E)
	}
	panic("not a simple statement: " + s.Op)
}

func (r *renderer) stmts(ss []*Stmt) {
	for _, s := range ss {
		r.stmt(s)
	}
}

func (r *renderer) lbl(l string) {
	if l != "" {
		r.b.WriteString(strings.Repeat("\t", r.indent) + l + ":\n")
	}
}

func (r *renderer) stmt(s *Stmt) {
	switch s.Op {
	case "var":
		if s.E != nil {
			r.line("var %s %s = %s", s.Name, s.Ty.Go(r.pfx), r.expr(s.E))
		} else {
			r.line("var %s %s", s.Name, s.Ty.Go(r.pfx))
		}
	case "def", "set", "opset", "inc", "dec", "expr":
		r.line("%s", r.simple(s))
	case "print":
		r.line("println(%s)", r.exprs(s.Es))
	case "delete":
		r.line("delete(%s)", r.exprs(s.Es))
	case "ret":
		if len(s.Es) == 0 {
			r.line("return")
		} else {
			r.line("return %s", r.exprs(s.Es))
		}
	case "if":
		hd := "if "
		if s.Init != nil {
			hd += r.simple(s.Init) + "; "
		}
		r.line("%s%s {", hd, r.expr(s.E))
		r.indent++
		r.stmts(s.Body)
		r.indent--
		if len(s.Else) > 0 {
			r.line("} else {")
			r.indent++
			r.stmts(s.Else)
			r.indent--
		}
		r.line("}")
	case "for":
		hd := "for "
		if s.Init != nil || s.Post != nil {
			if s.Init != nil {
				hd += r.simple(s.Init)
			}
			hd += "; "
			if s.E != nil {
				hd += r.expr(s.E)
			}
			hd += "; "
			if s.Post != nil {
				hd += r.simple(s.Post)
			}
			hd += " "
		} else if s.E != nil {
			hd += r.expr(s.E) + " "
		}
		r.line("%s{", hd)
		r.indent++
		r.stmts(s.Body)
		r.indent--
		r.line("}")
	case "range":
		hd := "for "
		switch {
		case s.K != "" && s.V != "":
			hd += s.K + ", " + s.V + " := "
		case s.K != "":
			hd += s.K + " := "
		case s.V != "":
			hd += "_, " + s.V + " := "
		}
		r.line("%srange %s {", hd, r.expr(s.E))
		r.indent++
		r.stmts(s.Body)
		r.indent--
		r.line("}")
	case "switch", "tswitch":
		hd := "switch "
		if s.Init != nil {
			hd += r.simple(s.Init) + "; "
		}
		if s.Op == "tswitch" {
			if s.K != "" {
				hd += s.K + " := "
			}
			hd += r.expr(s.E) + ".(type) "
		} else if s.E != nil {
			hd += r.expr(s.E) + " "
		}
		r.line("%s{", hd)
		for _, c := range s.Cls {
			switch {
			case c.Default:
				r.line("default:")
			case s.Op == "tswitch":
				ts := make([]string, len(c.Types))
				for i, t := range c.Types {
					if t == nil {
						ts[i] = "nil"
					} else {
						ts[i] = t.Go(r.pfx)
					}
				}
				r.line("case %s:", strings.Join(ts, ", "))
			default:
				r.line("case %s:", r.exprs(c.Exprs))
			}
			r.indent++
			r.stmts(c.Body)
			r.indent--
		}
		r.line("}")
	case "block":
		r.line("{")
		r.indent++
		r.stmts(s.Body)
		r.indent--
		r.line("}")
	case "label":
		r.lbl(s.Name)
		r.stmt(s.S)
	case "break", "continue":
		if s.Name != "" {
			r.line("%s %s", s.Op, s.Name)
		} else {
			r.line("%s", s.Op)
		}
	case "goto":
		r.line("goto %s", s.Name)
	case "fallthrough":
		r.line("fallthrough")
	case "defer":
		r.line("defer %s(%s)", r.expr(s.Es[0]), r.exprs(s.Es[1:]))
	case "panic":
		r.line("panic(%s)", r.expr(s.E))
	default:
		panic("render stmt " + s.Op)
	}
}
