package minigo

import (
	"fmt"
	"math/big"
)

// ---------------------------------------------------------------- AST constructors (generator side)

func Lit(t *Type, v *big.Int) *Expr     { return &Expr{Op: "i", T: t, Int: new(big.Int).Set(v)} }
func LitI(t *Type, v int64) *Expr       { return &Expr{Op: "i", T: t, Int: big.NewInt(v)} }
func BoolLit(b bool) *Expr              { return &Expr{Op: "b", T: BoolT, Bool: b} }
func StrLit(s string) *Expr             { return &Expr{Op: "s", T: StrT, Str: []byte(s)} }
func V(name string, t *Type) *Expr      { return &Expr{Op: "v", T: t, Name: name} }
func Conv(t *Type, a *Expr) *Expr       { return &Expr{Op: "conv", T: t, Ty: t, Args: []*Expr{a}} }
func Box(a *Expr) *Expr                 { return &Expr{Op: "box", T: AnyT, Ty: a.T, Args: []*Expr{a}} }
func Un(op string, a *Expr) *Expr       { return &Expr{Op: op, T: a.T, Args: []*Expr{a}} }
func Len(a *Expr) *Expr                 { return &Expr{Op: "len", T: IntT("int"), Args: []*Expr{a}} }
func Cap(a *Expr) *Expr                 { return &Expr{Op: "cap", T: IntT("int"), Args: []*Expr{a}} }
func Call(f *Expr, res *Type, args ...*Expr) *Expr {
	return &Expr{Op: "call", T: res, Args: append([]*Expr{f}, args...)}
}

var cmpOps = map[string]bool{"eq": true, "ne": true, "lt": true, "le": true, "gt": true, "ge": true}

// Bin builds a binary operator node; comparisons and && || are bool-typed,
// shifts take the type of the left operand.
func Bin(op string, a, b *Expr) *Expr {
	t := a.T
	if cmpOps[op] || op == "land" || op == "lor" {
		t = BoolT
	}
	return &Expr{Op: op, T: t, Args: []*Expr{a, b}}
}

func containerKind(t *Type) string {
	switch t.Kind {
	case TArr:
		return "arr"
	case TSlice:
		return "sl"
	case TStr:
		return "str"
	case TMap:
		return "map"
	case TPtr:
		if t.Elem.Kind == TArr {
			return "parr"
		}
	}
	panic("not a container: " + t.SExp())
}

func elemType(t *Type) *Type {
	switch t.Kind {
	case TArr, TSlice, TMap:
		return t.Elem
	case TStr:
		return IntT("u8")
	case TPtr:
		return t.Elem.Elem
	}
	panic("no element type")
}

func Index(a, i *Expr) *Expr {
	return &Expr{Op: "idx", T: elemType(a.T), Name: containerKind(a.T), Args: []*Expr{a, i}}
}

// Slice builds a[lo:hi:mx]; nil operands are absent.
func Slice(a, lo, hi, mx *Expr) *Expr {
	t := a.T
	switch a.T.Kind {
	case TArr:
		t = SliceT(a.T.Elem)
	case TPtr:
		t = SliceT(a.T.Elem.Elem)
	}
	e := &Expr{Op: "slc", T: t, Name: containerKind(a.T), Args: []*Expr{a}, Opt: make([]bool, 3)}
	for i, x := range []*Expr{lo, hi, mx} {
		if x != nil {
			e.Opt[i] = true
			e.Args = append(e.Args, x)
		}
	}
	return e
}

func FieldOf(p *Program, a *Expr, i int) *Expr {
	st := a.T
	op := "fld"
	if st.Kind == TPtr {
		st = st.Elem
		op = "pfld"
	}
	d := p.structDecl(st.Name)
	return &Expr{Op: op, T: d.Fields[i].T, Args: []*Expr{a}, N: i}
}

func Deref(a *Expr) *Expr   { return &Expr{Op: "deref", T: a.T.Elem, Args: []*Expr{a}} }
func Addr(a *Expr) *Expr    { return &Expr{Op: "addr", T: PtrT(a.T), Args: []*Expr{a}} }
func AddrLit(a *Expr) *Expr { return &Expr{Op: "addrlit", T: PtrT(a.T), Args: []*Expr{a}} }
func New(t *Type) *Expr     { return &Expr{Op: "new", T: PtrT(t), Ty: t} }
func Nil(t *Type) *Expr     { return &Expr{Op: "nil", T: t, Ty: t} }
func StructLit(t *Type, fs ...*Expr) *Expr {
	return &Expr{Op: "slit", T: t, Ty: t, Args: fs}
}
func ArrLit(elem *Type, n int, es ...*Expr) *Expr {
	return &Expr{Op: "alit", T: ArrT(n, elem), Ty: elem, N: n, Args: es}
}
func SliceLit(elem *Type, es ...*Expr) *Expr {
	return &Expr{Op: "sllit", T: SliceT(elem), Ty: elem, Args: es}
}
func MapLit(k, v *Type, kvs ...*Expr) *Expr {
	return &Expr{Op: "mlit", T: MapT(k, v), Ty: k, Ty2: v, Args: kvs}
}
func MakeSlice(elem *Type, n, c *Expr) *Expr {
	e := &Expr{Op: "mksl", T: SliceT(elem), Ty: elem, Args: []*Expr{n}}
	if c != nil {
		e.Args = append(e.Args, c)
	}
	return e
}
func MakeMap(k, v *Type) *Expr { return &Expr{Op: "mkmap", T: MapT(k, v), Ty: k, Ty2: v} }
func Append(s *Expr, xs ...*Expr) *Expr {
	return &Expr{Op: "append", T: s.T, Args: append([]*Expr{s}, xs...)}
}
func AppendSl(s, t *Expr) *Expr { return &Expr{Op: "appendsl", T: s.T, Args: []*Expr{s, t}} }
func Copy(d, s *Expr) *Expr     { return &Expr{Op: "copy", T: IntT("int"), Args: []*Expr{d, s}} }
func FuncLit(id int, t *Type) *Expr {
	return &Expr{Op: "flit", T: t, N: id}
}
func Recover() *Expr                  { return &Expr{Op: "recover", T: AnyT} }
func Assert(a *Expr, t *Type) *Expr   { return &Expr{Op: "assert", T: t, Ty: t, Args: []*Expr{a}} }
func AssertOk(a *Expr, t *Type) *Expr { return &Expr{Op: "assertok", T: t, Ty: t, Args: []*Expr{a}} }
func IndexOk(a, i *Expr) *Expr        { return &Expr{Op: "idxok", T: a.T.Elem, Args: []*Expr{a, i}} }
func CE(t *Type, c *CExpr) *Expr      { return &Expr{Op: "c", T: t, C: c} }

// statements
func SVar(name string, t *Type, e *Expr) *Stmt { return &Stmt{Op: "var", Name: name, Ty: t, E: e} }
func SDef(e *Expr, names ...string) *Stmt      { return &Stmt{Op: "def", Names: names, E: e} }
func SSet(lv, e *Expr) *Stmt                   { return &Stmt{Op: "set", Lvs: []*Expr{lv}, Es: []*Expr{e}} }
func SSetN(lvs, es []*Expr) *Stmt              { return &Stmt{Op: "set", Lvs: lvs, Es: es} }
func SOpSet(op string, lv, e *Expr) *Stmt      { return &Stmt{Op: "opset", Name: op, Lvs: []*Expr{lv}, E: e} }
func SInc(lv *Expr) *Stmt                      { return &Stmt{Op: "inc", Lvs: []*Expr{lv}} }
func SDec(lv *Expr) *Stmt                      { return &Stmt{Op: "dec", Lvs: []*Expr{lv}} }
func SExpr(e *Expr) *Stmt                      { return &Stmt{Op: "expr", E: e} }
func SPrint(es ...*Expr) *Stmt                 { return &Stmt{Op: "print", Es: es} }
func SRet(es ...*Expr) *Stmt                   { return &Stmt{Op: "ret", Es: es} }
func SIf(c *Expr, th, el []*Stmt) *Stmt        { return &Stmt{Op: "if", E: c, Body: th, Else: el} }
func SBlock(ss ...*Stmt) *Stmt                 { return &Stmt{Op: "block", Body: ss} }
func SBreak(l string) *Stmt                    { return &Stmt{Op: "break", Name: l} }
func SContinue(l string) *Stmt                 { return &Stmt{Op: "continue", Name: l} }
func SGoto(l string) *Stmt                     { return &Stmt{Op: "goto", Name: l} }
func SFallthrough() *Stmt                      { return &Stmt{Op: "fallthrough"} }
func SPanic(e *Expr) *Stmt                     { return &Stmt{Op: "panic", E: e} }
func SDefer(f *Expr, args ...*Expr) *Stmt      { return &Stmt{Op: "defer", Es: append([]*Expr{f}, args...)} }
func SUse(v *Expr) *Stmt                       { return SSet(V("_", v.T), v) }

// SFor builds a (possibly labelled) for statement.
func SFor(label string, init *Stmt, cond *Expr, post *Stmt, body []*Stmt) *Stmt {
	f := &Stmt{Op: "for", Label: label, Init: init, E: cond, Post: post, Body: body}
	if label != "" {
		return &Stmt{Op: "label", Name: label, S: f}
	}
	return f
}

// SRange builds `for k, v := range e`; kind is derived from e's type.
func SRange(label, k, v string, e *Expr, body []*Stmt) *Stmt {
	kind := containerKind(e.T)
	f := &Stmt{Op: "range", Label: label, Name: kind, K: k, V: v, E: e, Body: body}
	if label != "" {
		return &Stmt{Op: "label", Name: label, S: f}
	}
	return f
}

func SSwitch(label string, tag *Expr, cls []*Clause) *Stmt {
	s := &Stmt{Op: "switch", Label: label, E: tag, Cls: cls}
	if label != "" {
		return &Stmt{Op: "label", Name: label, S: s}
	}
	return s
}

func STypeSwitch(bind string, x *Expr, cls []*Clause) *Stmt {
	return &Stmt{Op: "tswitch", K: bind, E: x, Cls: cls}
}

func SLabel(l string, s *Stmt) *Stmt { return &Stmt{Op: "label", Name: l, S: s} }

// SafeUnit renders a parsed program, turning a renderer panic (a malformed
// tree that the parser let through) into an error.
func SafeUnit(p *Program, idx int) (u Unit, err error) {
	defer func() {
		if v := recover(); v != nil {
			err = fmt.Errorf("render: %v", v)
		}
	}()
	return MakeUnit(p, idx), nil
}
