// Package c27msg holds the one message type of the C27 test chain.  It lives in
// a library package because amino registers concrete types by the import path
// of their package (a type of package main cannot be registered).
package c27msg

import (
	"github.com/gnolang/gno/tm2/pkg/amino"
	"github.com/gnolang/gno/tm2/pkg/crypto"
	"github.com/gnolang/gno/tm2/pkg/std"
)

// ScriptMsg carries a step list (see harness/cmd/c27/main.go); Fail makes the
// handler return an error AFTER running the steps.
type ScriptMsg struct {
	Fail  bool
	Steps string
}

func (m ScriptMsg) Route() string                { return "c27" }
func (m ScriptMsg) Type() string                 { return "c27" }
func (m ScriptMsg) GetSignBytes() []byte         { return nil }
func (m ScriptMsg) GetSigners() []crypto.Address { return nil }
func (m ScriptMsg) ValidateBasic() error         { return nil }

var Package = amino.RegisterPackage(amino.NewPackage(
	"gnoverif/c27msg",
	"gnoverif.c27msg",
	amino.GetCallersDirname(),
).WithDependencies(std.Package).WithTypes(
	ScriptMsg{}, "ScriptMsg",
))
