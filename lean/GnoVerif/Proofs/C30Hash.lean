import GnoVerif.Proofs.C30Wf
/-!
C30 helper lemmas, part 9: node keys and hashes.

* a saved node has only saved descendants (`SavedClosed`), in every tree of every
  reachable state; stored versions are saved throughout (`AllSaved`);
* `saveNewNodes` saves everything and does not change the hash computed with the same
  version (the model's stand-in for the hash cached by `WorkingHash`);
* the hash of a fully saved tree does not depend on the working version.
-/
namespace GnoVerif.C30
open GnoVerif
namespace Node

theorem allSaved_closed {n : Node} (h : n.AllSaved) : n.SavedClosed := by
  induction n with
  | leaf => trivial
  | inner k ht s nk l r ihl ihr =>
    obtain ⟨-, hl, hr⟩ := h
    exact ⟨fun _ => ⟨hl, hr⟩, ihl hl, ihr hr⟩

theorem closed_unsaved {k : Bytes} {ht s : Int} {l r : Node} (hl : l.SavedClosed) (hr : r.SavedClosed) :
    (inner k ht s none l r).SavedClosed := ⟨fun h => (by simp at h), hl, hr⟩

theorem closed_calc {n : Node} (h : n.SavedClosed) : (calcHeightAndSize n).SavedClosed := by
  cases n with
  | leaf => exact h
  | inner k ht s nk l r => exact h

theorem closed_rotateRight {n m : Node} (h : n.SavedClosed) (hm : rotateRight n = .ok m) : m.SavedClosed := by
  match n, h, hm with
  | inner k ht s nk (inner lk lh ls lnk ll lr) r, h, hm =>
    simp only [rotateRight, Except.ok.injEq] at hm
    subst hm
    obtain ⟨-, ⟨-, hll, hlr⟩, hr⟩ := h
    exact closed_calc (closed_unsaved hll (closed_calc (closed_unsaved hlr hr)))
  | inner k ht s nk (leaf _ _ _) r, _, hm => simp [rotateRight] at hm
  | leaf _ _ _, _, hm => simp [rotateRight] at hm

theorem closed_rotateLeft {n m : Node} (h : n.SavedClosed) (hm : rotateLeft n = .ok m) : m.SavedClosed := by
  match n, h, hm with
  | inner k ht s nk l (inner rk rh rs rnk rl rr), h, hm =>
    simp only [rotateLeft, Except.ok.injEq] at hm
    subst hm
    obtain ⟨-, hl, ⟨-, hrl, hrr⟩⟩ := h
    exact closed_calc (closed_unsaved (closed_calc (closed_unsaved hl hrl)) hrr)
  | inner k ht s nk l (leaf _ _ _), _, hm => simp [rotateLeft] at hm
  | leaf _ _ _, _, hm => simp [rotateLeft] at hm

theorem closed_balance {n m : Node} (h : n.SavedClosed) (hm : balance n = .ok m) : m.SavedClosed := by
  match n, h, hm with
  | leaf _ _ (some _), _, hm => simp [balance] at hm
  | leaf _ _ none, _, hm => simp [balance] at hm
  | inner _ _ _ (some _) _ _, _, hm => simp [balance] at hm
  | inner k ht s none l r, h, hm =>
    obtain ⟨-, hl, hr⟩ := h
    simp only [balance] at hm
    split at hm
    · cases hcb : calcBalance l with
      | error e => rw [hcb] at hm; simp at hm
      | ok lb =>
        rw [hcb] at hm
        simp only at hm
        split at hm
        · exact closed_rotateRight (closed_unsaved hl hr) hm
        · cases hrl : rotateLeft l with
          | error e => rw [hrl] at hm; simp at hm
          | ok l' =>
            rw [hrl] at hm
            exact closed_rotateRight (closed_unsaved (closed_rotateLeft hl hrl) hr) hm
    · split at hm
      · cases hcb : calcBalance r with
        | error e => rw [hcb] at hm; simp at hm
        | ok rb =>
          rw [hcb] at hm
          simp only at hm
          split at hm
          · exact closed_rotateLeft (closed_unsaved hl hr) hm
          · cases hrr : rotateRight r with
            | error e => rw [hrr] at hm; simp at hm
            | ok r' =>
              rw [hrr] at hm
              exact closed_rotateLeft (closed_unsaved hl (closed_rotateRight hr hrr)) hm
      · simp only [Except.ok.injEq] at hm
        subst hm
        exact closed_unsaved hl hr

theorem closed_set {n m : Node} {key value : Bytes} {u : Bool} (h : n.SavedClosed)
    (hm : n.set key value = .ok (m, u)) : m.SavedClosed := by
  induction n generalizing m u with
  | leaf nk nv k0 =>
    simp only [set, new] at hm
    split at hm
    · simp only [Except.ok.injEq, Prod.mk.injEq] at hm; obtain ⟨hm, -⟩ := hm; subst hm
      exact closed_unsaved trivial trivial
    · split at hm
      · simp only [Except.ok.injEq, Prod.mk.injEq] at hm; obtain ⟨hm, -⟩ := hm; subst hm
        exact closed_unsaved trivial trivial
      · simp only [Except.ok.injEq, Prod.mk.injEq] at hm; obtain ⟨hm, -⟩ := hm; subst hm
        trivial
  | inner nk ht s k0 l r ihl ihr =>
    obtain ⟨-, hl, hr⟩ := h
    simp only [set] at hm
    split at hm
    · cases hs : l.set key value with
      | error e => rw [hs] at hm; simp at hm
      | ok p =>
        obtain ⟨l', ul⟩ := p
        rw [hs] at hm
        have hl' := ihl hl hs
        simp only at hm
        split at hm
        · simp only [Except.ok.injEq, Prod.mk.injEq] at hm; obtain ⟨hm, -⟩ := hm; subst hm
          exact closed_unsaved hl' hr
        · cases hb : balance (calcHeightAndSize (inner nk ht s none l' r)) with
          | error e => rw [hb] at hm; simp at hm
          | ok b =>
            rw [hb] at hm
            simp only [Except.ok.injEq, Prod.mk.injEq] at hm; obtain ⟨hm, -⟩ := hm; subst hm
            exact closed_balance (closed_calc (closed_unsaved hl' hr)) hb
    · cases hs : r.set key value with
      | error e => rw [hs] at hm; simp at hm
      | ok p =>
        obtain ⟨r', ur⟩ := p
        rw [hs] at hm
        have hr' := ihr hr hs
        simp only at hm
        split at hm
        · simp only [Except.ok.injEq, Prod.mk.injEq] at hm; obtain ⟨hm, -⟩ := hm; subst hm
          exact closed_unsaved hl hr'
        · cases hb : balance (calcHeightAndSize (inner nk ht s none l r')) with
          | error e => rw [hb] at hm; simp at hm
          | ok b =>
            rw [hb] at hm
            simp only [Except.ok.injEq, Prod.mk.injEq] at hm; obtain ⟨hm, -⟩ := hm; subst hm
            exact closed_balance (closed_calc (closed_unsaved hl hr')) hb

/-- closedness of a possibly-nil node -/
def Closedo : Option Node → Prop
  | none => True
  | some n => n.SavedClosed

theorem closed_remove {n : Node} {key : Bytes} {nn : Option Node} {nkey val : Option Bytes} {rem : Bool}
    (h : n.SavedClosed) (hm : n.remove key = .ok (nn, nkey, val, rem)) : Closedo nn := by
  induction n generalizing nn nkey val rem with
  | leaf nk nv k0 =>
    simp only [remove] at hm
    split at hm
    · simp only [Except.ok.injEq, Prod.mk.injEq] at hm; obtain ⟨hm, -⟩ := hm; subst hm; trivial
    · simp only [Except.ok.injEq, Prod.mk.injEq] at hm; obtain ⟨hm, -⟩ := hm; subst hm; trivial
  | inner nk ht s k0 l r ihl ihr =>
    have hself := h
    obtain ⟨-, hl, hr⟩ := h
    simp only [remove] at hm
    split at hm
    · cases hs : l.remove key with
      | error e => rw [hs] at hm; simp at hm
      | ok p =>
        obtain ⟨nl, k1, v1, r1⟩ := p
        rw [hs] at hm
        have hnl := ihl hl hs
        simp only at hm
        split at hm
        · simp only [Except.ok.injEq, Prod.mk.injEq] at hm; obtain ⟨hm, -⟩ := hm; subst hm; exact hself
        · cases nl with
          | none =>
            simp only [Except.ok.injEq, Prod.mk.injEq] at hm; obtain ⟨hm, -⟩ := hm; subst hm; exact hr
          | some nl' =>
            simp only at hm
            cases hb : balance (calcHeightAndSize (inner nk ht s none nl' r)) with
            | error e => rw [hb] at hm; simp at hm
            | ok b =>
              rw [hb] at hm
              simp only [Except.ok.injEq, Prod.mk.injEq] at hm; obtain ⟨hm, -⟩ := hm; subst hm
              exact closed_balance (closed_calc (closed_unsaved hnl hr)) hb
    · cases hs : r.remove key with
      | error e => rw [hs] at hm; simp at hm
      | ok p =>
        obtain ⟨nr, k1, v1, r1⟩ := p
        rw [hs] at hm
        have hnr := ihr hr hs
        simp only at hm
        split at hm
        · simp only [Except.ok.injEq, Prod.mk.injEq] at hm; obtain ⟨hm, -⟩ := hm; subst hm; exact hself
        · cases nr with
          | none =>
            simp only [Except.ok.injEq, Prod.mk.injEq] at hm; obtain ⟨hm, -⟩ := hm; subst hm; exact hl
          | some nr' =>
            simp only at hm
            cases hb : balance (calcHeightAndSize (inner (k1.getD nk) ht s none l nr')) with
            | error e => rw [hb] at hm; simp at hm
            | ok b =>
              rw [hb] at hm
              simp only [Except.ok.injEq, Prod.mk.injEq] at hm; obtain ⟨hm, -⟩ := hm; subst hm
              exact closed_balance (closed_calc (closed_unsaved hl hnr)) hb

/-- `saveNewNodes` leaves no unsaved node -/
theorem assignKeys_allSaved (version : Int) {n : Node} (h : n.SavedClosed) (nonce : Nat) :
    (assignKeys version n nonce).1.AllSaved := by
  induction n generalizing nonce with
  | leaf k v nk => cases nk <;> simp [assignKeys, AllSaved]
  | inner k ht s nk l r ihl ihr =>
    obtain ⟨h1, hl, hr⟩ := h
    cases nk with
    | some x =>
      obtain ⟨a, b⟩ := h1 rfl
      exact ⟨rfl, a, b⟩
    | none =>
      simp only [assignKeys, AllSaved, Option.isSome_some, true_and]
      exact ⟨ihl hl _, ihr hr _⟩

/-- … and does not change the hash computed with that version for the unsaved nodes -/
theorem hash_assignKeys (H : Bytes → Bytes) (version : Int) (n : Node) (nonce : Nat) :
    (assignKeys version n nonce).1.hash H version = n.hash H version := by
  induction n generalizing nonce with
  | leaf k v nk => cases nk <;> simp [assignKeys, hash, hashVersion]
  | inner k ht s nk l r ihl ihr =>
    cases nk with
    | some x => rfl
    | none => simp only [assignKeys, hash, hashVersion, ihl, ihr]

/-- the hash of a fully saved tree does not depend on the working version -/
theorem hash_allSaved (H : Bytes → Bytes) {n : Node} (h : n.AllSaved) (wv wv' : Int) :
    n.hash H wv = n.hash H wv' := by
  induction n with
  | leaf k v nk =>
    cases nk with
    | none => simp [AllSaved] at h
    | some x => rfl
  | inner k ht s nk l r ihl ihr =>
    obtain ⟨h1, hl, hr⟩ := h
    cases nk with
    | none => simp at h1
    | some x => simp only [hash, hashVersion, ihl hl, ihr hr]

end Node

/-- all nodes saved, for a possibly-nil root -/
def AllSavedo : Option Node → Prop
  | none => True
  | some n => n.AllSaved

namespace St

/-- stored trees are saved throughout; in the working tree saved nodes have only saved
descendants -/
def savedInv : TreeInv where
  P := AllSavedo
  Q := Node.Closedo
  P_none := trivial
  Q_none := trivial
  P_Q := fun r h => by
    cases r with
    | none => trivial
    | some n => exact Node.allSaved_closed h
  Q_set := fun _ _ _ _ _ hn hset => Node.closed_set hn hset
  Q_new := fun _ _ => trivial
  Q_remove := fun _ _ _ _ _ _ hn hrm => Node.closed_remove hn hrm
  P_assign := fun version _ hn _ => Node.assignKeys_allSaved version hn 0
  P_ref := fun n hn hk => by
    cases n with
    | leaf k v nk => exact hk
    | inner k ht s nk l r =>
      obtain ⟨h1, -, -⟩ := hn
      obtain ⟨a, b⟩ := h1 hk
      exact ⟨hk, a, b⟩

/-- the root hash of a stored (fully saved) tree does not depend on the version it is asked with -/
theorem rootHash_allSaved (H : Bytes → Bytes) {r : Option Node} (h : AllSavedo r) (wv wv' : Int) :
    rootHash H wv r = rootHash H wv' r := by
  cases r with
  | none => rfl
  | some n => exact Node.hash_allSaved H h wv wv'

/-- what `SaveVersion` writes hashes to what `WorkingHash` reported before -/
theorem savedRoot_hash (H : Bytes → Bytes) (s : St) (hc : Node.Closedo s.root) :
    rootHash H (s.workingVersion + 1) s.savedRoot = s.workingHash H := by
  have hp : AllSavedo s.savedRoot := savedRoot_P (I := savedInv) hc
  rw [rootHash_allSaved H hp (s.workingVersion + 1) s.workingVersion]
  unfold savedRoot workingHash
  cases hr : s.root with
  | none => rfl
  | some r =>
    simp only
    cases hk : r.nk with
    | some k => rfl
    | none => simp only [rootHash, Node.hash_assignKeys]

end St
end GnoVerif.C30
