/-
Helper lemmas for C12 (Props/C12.lean): the first-failing-check decision, the
state invariant, key disjointness of the two-key blob layout, and the
"merge + sort gives back the deployed list" argument.
-/
import GnoVerif.Model.C12
namespace GnoVerif.C12
open GnoVerif

/-! ### the decision: `ok` iff no check fires -/

theorem firstFail_ok {cs : List (Bool × Res)} (hne : ∀ c ∈ cs, c.2 ≠ .ok) (h : firstFail cs = .ok) :
    ∀ c ∈ cs, c.1 = false := by
  induction cs with
  | nil => simp
  | cons c cs ih =>
    obtain ⟨b, r⟩ := c
    intro c' hc'
    cases b with
    | true =>
      simp only [firstFail, if_true] at h
      exact absurd h (hne (true, r) (by simp))
    | false =>
      simp only [firstFail] at h
      rcases List.mem_cons.1 hc' with e | e
      · subst e; rfl
      · exact ih (fun c hc => hne c (List.mem_cons_of_mem _ hc)) (by simpa using h) c' e

theorem addChecks_ne_ok (s : State) (m : Msg) : ∀ c ∈ addChecks s m, c.2 ≠ .ok := by
  intro c hc
  simp only [addChecks, List.mem_cons, List.mem_nil_iff, or_false] at hc
  rcases hc with h | h | h | h | h | h | h | h | h | h | h | h | h | h | h | h | h | h | h | h | h | h | h | h | h | h | h | h | h | h | h <;>
    (subst h; simp)

/-- an accepted deployment passed every check. -/
theorem ok_checks {s : State} {m : Msg} (h : addDecision s m = .ok) :
    ∀ c ∈ addChecks s m, c.1 = false :=
  firstFail_ok (addChecks_ne_ok s m) h


/-- what an accepted deployment is known to satisfy (one field per relevant check). -/
structure Accepted (s : State) (m : Msg) : Prop where
  acct3 : m.acct ≠ 3
  acct4 : m.acct ≠ 4
  noHash : m.path.contains cHash = false
  basic : stdValidateBasic m.name m.path m.files = true
  user : isUserPath m.path = true
  prod : hasProd m.files = true
  domain : hasPrefix L_domainSlash m.path = true
  notPublic : OMap.get s.pkgs m.path ≠ some false
  rp : isRealmPath m.path = true ∨ isPPackagePath m.path = true
  notTest : hasSuffix L_test m.path = false ∧ hasSuffix L_filetest m.path = false
  gmPresent : m.gm.present = true
  noReplace : m.gm.replace = false
  privKeep : OMap.get s.pkgs m.path = some true → m.gm.priv = true
  privRealm : m.gm.priv = true → isRealmPath m.path = true
  draft : m.gm.draft = true → m.height = 0
  auth : registryOn s = true → authorized s m.acct (namespaceOf m.path) = true
  verdict : m.verdict = .ok

theorem accepted_of_ok {s : State} {m : Msg} (h : addDecision s m = .ok) : Accepted s m := by
  have k := ok_checks h
  refine ⟨?_, ?_, ?_, ?_, ?_, ?_, ?_, ?_, ?_, ?_, ?_, ?_, ?_, ?_, ?_, ?_, ?_⟩
  · have := k (m.acct == 3, .unknownAddr) (by simp [addChecks]); simpa using this
  · have := k (m.acct == 4, .basicInvalidAddr) (by simp [addChecks]); simpa using this
  · have := k (m.path.contains cHash, .pkgPath) (by simp [addChecks]); simpa using this
  · have := k (!stdValidateBasic m.name m.path m.files, .pkgPath) (by simp [addChecks]); simpa using this
  · have := k (!isUserPath m.path, .panicMptype) (by simp [addChecks]); simpa using this
  · have := k (!hasProd m.files, .package) (by simp [addChecks]); simpa using this
  · have := k (!hasPrefix L_domainSlash m.path, .pkgPath) (by simp [addChecks]); simpa using this
  · have := k (OMap.get s.pkgs m.path == some false, .exists_) (by simp [addChecks]); simpa using this
  · have := k (!(isRealmPath m.path || isPPackagePath m.path), .pkgPath) (by simp [addChecks])
    cases hr : isRealmPath m.path <;> simp [hr] at this ⊢
    exact this
  · have := k (hasSuffix L_test m.path || hasSuffix L_filetest m.path, .pkgPath) (by simp [addChecks]); simpa using this
  · have := k (!m.gm.present, .panicNogmod) (by simp [addChecks]); simpa using this
  · have := k (m.gm.replace, .package) (by simp [addChecks]); simpa using this
  · have := k (OMap.get s.pkgs m.path == some true && !m.gm.priv, .package) (by simp [addChecks])
    intro hp; simpa [hp] using this
  · have := k (m.gm.priv && !isRealmPath m.path, .package) (by simp [addChecks])
    intro hp; simpa [hp] using this
  · have := k (m.gm.draft && decide (m.height > 0), .package) (by simp [addChecks])
    intro hd; simp [hd] at this; omega
  · have := k (registryOn s && !authorized s m.acct (namespaceOf m.path), .unauthorized) (by simp [addChecks])
    intro hr; simpa [hr] using this
  · have h1 := k (m.verdict == .typecheck, .typecheck) (by simp [addChecks])
    have h2 := k (m.verdict == .initPanic, .other) (by simp [addChecks])
    cases hv : m.verdict <;> simp [hv] at h1 h2 ⊢


/-! ### the two-key layout: key disjointness -/

theorem hash_mem_abpKey (p : Bytes) : cHash ∈ abpKey p := by
  simp [abpKey, L_abp, cHash]

theorem abpKey_ne_of_noHash {p q : Bytes} (hp : cHash ∉ p) : abpKey q ≠ p := by
  intro h; exact hp (h ▸ hash_mem_abpKey q)

theorem abpKey_inj {p q : Bytes} (h : abpKey p = abpKey q) : p = q :=
  List.append_cancel_right h

theorem abpKey_ne_self (p : Bytes) : abpKey p ≠ p := by
  intro h
  have := congrArg List.length h
  simp [abpKey, L_abp] at this

theorem contains_false_iff {p : Bytes} {c : UInt8} : p.contains c = false ↔ c ∉ p := by
  simp

/-! ### effect of an accepted deployment on the maps -/

def prodOf (m : Msg) : List File := (stored m).filter fun f => !isTestFile f.name
def abpOf (m : Msg) : List File := (stored m).filter fun f => isTestFile f.name

theorem applyAdd_pkgs (s : State) (m : Msg) (p : Bytes) :
    OMap.get (applyAdd s m).pkgs p = if m.path = p then some m.gm.priv else OMap.get s.pkgs p := by
  simp [applyAdd, OMap.get_set]

theorem applyAdd_blobs_other (s : State) (m : Msg) (k : Bytes) (h1 : m.path ≠ k) (h2 : abpKey m.path ≠ k) :
    OMap.get (applyAdd s m).blobs k = OMap.get s.blobs k := by
  unfold applyAdd
  simp only
  split <;> split <;> simp [OMap.get_set, OMap.get_del, h1, h2]

theorem applyAdd_blobs_path (s : State) (m : Msg) :
    OMap.get (applyAdd s m).blobs m.path = some (prodOf m) := by
  have hne : abpKey m.path ≠ m.path := abpKey_ne_self _
  unfold applyAdd prodOf
  simp only
  split <;> split <;> simp [OMap.get_set, hne]

theorem applyAdd_blobs_abp (s : State) (m : Msg)
    (h : OMap.get s.pkgs m.path = none → OMap.get s.blobs (abpKey m.path) = none) :
    OMap.get (applyAdd s m).blobs (abpKey m.path) = if (abpOf m).isEmpty then none else some (abpOf m) := by
  have hne : m.path ≠ abpKey m.path := fun e => abpKey_ne_self _ e.symm
  unfold applyAdd abpOf
  simp only
  cases hp : OMap.get s.pkgs m.path with
  | none =>
    have := h hp
    split <;> simp_all [OMap.get_set]
  | some v =>
    split <;> simp_all [OMap.get_set, OMap.get_del]

/-! ### the invariant of reachable states -/

structure Inv (s : State) : Prop where
  /-- deployed paths never contain `#` (so `<path>#allbutprod` is never a package path). -/
  nohash : ∀ p v, OMap.get s.pkgs p = some v → cHash ∉ p
  /-- no package value, no blobs (for `#`-free paths). -/
  noblob : ∀ p, cHash ∉ p → OMap.get s.pkgs p = none →
    OMap.get s.blobs p = none ∧ OMap.get s.blobs (abpKey p) = none

theorem inv_init : Inv State.init := by
  constructor <;> simp [State.init]

theorem inv_applyAdd {s : State} {m : Msg} (hi : Inv s) (hm : cHash ∉ m.path) : Inv (applyAdd s m) := by
  constructor
  · intro p v h
    rw [applyAdd_pkgs] at h
    by_cases e : m.path = p
    · exact e ▸ hm
    · simp [e] at h; exact hi.nohash p v h
  · intro p hp h
    rw [applyAdd_pkgs] at h
    by_cases e : m.path = p
    · simp [e] at h
    · simp [e] at h
      have h1 : abpKey m.path ≠ p := abpKey_ne_of_noHash hp
      have h2 : m.path ≠ abpKey p := fun e' => (abpKey_ne_of_noHash hm) e'.symm
      have h3 : abpKey m.path ≠ abpKey p := fun e' => e (abpKey_inj e')
      rw [applyAdd_blobs_other s m p e h1, applyAdd_blobs_other s m (abpKey p) h2 h3]
      exact hi.noblob p hp h

theorem addPackage_ok {s : State} {m : Msg} (h : addDecision s m = .ok) : addPackage s m = (applyAdd s m, .ok) := by
  simp [addPackage, h]

theorem addPackage_fail {s : State} {m : Msg} (h : addDecision s m ≠ .ok) : addPackage s m = (s, addDecision s m) := by
  unfold addPackage
  cases hd : addDecision s m <;> simp_all

theorem ok_decision {s : State} {m : Msg} (h : (addPackage s m).2 = .ok) : addDecision s m = .ok := by
  by_cases hd : addDecision s m = .ok
  · exact hd
  · rw [addPackage_fail hd] at h; exact absurd h hd

theorem inv_addPackage {s : State} (m : Msg) (hi : Inv s) : Inv (addPackage s m).1 := by
  by_cases h : addDecision s m = .ok
  · rw [addPackage_ok h]
    exact inv_applyAdd hi (contains_false_iff.1 (accepted_of_ok h).noHash)
  · rw [addPackage_fail h]; exact hi

theorem inv_step {s : State} (op : Op) (hi : Inv s) : Inv (step s op).1 := by
  cases op with
  | add m => exact inv_addPackage m hi
  | names a => exact inv_addPackage _ hi
  | param b => exact ⟨hi.nohash, hi.noblob⟩
  | reg a ns =>
    simp only [step, register]
    split
    · exact hi
    · split
      · exact hi
      · exact ⟨hi.nohash, hi.noblob⟩

theorem inv_run {s : State} (ops : List Op) (hi : Inv s) : Inv (run s ops) := by
  induction ops generalizing s with
  | nil => exact hi
  | cons op ops ih => exact ih (inv_step op hi)


/-! ### a public package is untouched by every step -/

theorem public_addPackage {s : State} (hi : Inv s) {p : Bytes} (hp : OMap.get s.pkgs p = some false) (m : Msg) :
    OMap.get (addPackage s m).1.pkgs p = some false ∧
    OMap.get (addPackage s m).1.blobs p = OMap.get s.blobs p ∧
    OMap.get (addPackage s m).1.blobs (abpKey p) = OMap.get s.blobs (abpKey p) := by
  by_cases h : addDecision s m = .ok
  · rw [addPackage_ok h]
    have acc := accepted_of_ok h
    have hm : cHash ∉ m.path := contains_false_iff.1 acc.noHash
    have hpn : cHash ∉ p := hi.nohash p false hp
    have e : m.path ≠ p := fun e => acc.notPublic (e ▸ hp)
    have h1 : abpKey m.path ≠ p := abpKey_ne_of_noHash hpn
    have h2 : m.path ≠ abpKey p := fun e' => (abpKey_ne_of_noHash hm) e'.symm
    have h3 : abpKey m.path ≠ abpKey p := fun e' => e (abpKey_inj e')
    refine ⟨?_, applyAdd_blobs_other s m p e h1, applyAdd_blobs_other s m (abpKey p) h2 h3⟩
    rw [applyAdd_pkgs]; simp [e, hp]
  · rw [addPackage_fail h]; exact ⟨hp, rfl, rfl⟩

theorem public_step {s : State} (hi : Inv s) {p : Bytes} (hp : OMap.get s.pkgs p = some false) (op : Op) :
    OMap.get (step s op).1.pkgs p = some false ∧
    OMap.get (step s op).1.blobs p = OMap.get s.blobs p ∧
    OMap.get (step s op).1.blobs (abpKey p) = OMap.get s.blobs (abpKey p) := by
  cases op with
  | add m => exact public_addPackage hi hp m
  | names a => exact public_addPackage hi hp _
  | param b => exact ⟨hp, rfl, rfl⟩
  | reg a ns =>
    simp only [step, register]
    split
    · exact ⟨hp, rfl, rfl⟩
    · split <;> exact ⟨hp, rfl, rfl⟩

theorem public_run {s : State} (hi : Inv s) {p : Bytes} (hp : OMap.get s.pkgs p = some false) (ops : List Op) :
    OMap.get (run s ops).pkgs p = some false ∧
    OMap.get (run s ops).blobs p = OMap.get s.blobs p ∧
    OMap.get (run s ops).blobs (abpKey p) = OMap.get s.blobs (abpKey p) := by
  induction ops generalizing s with
  | nil => exact ⟨hp, rfl, rfl⟩
  | cons op ops ih =>
    have h1 := public_step hi hp op
    have h2 := ih (inv_step op hi) h1.1
    exact ⟨h2.1, h2.2.1.trans h1.2.1, h2.2.2.trans h1.2.2⟩

theorem memPackageAll_congr {s t : State} {p : Bytes} (h1 : OMap.get s.blobs p = OMap.get t.blobs p)
    (h2 : OMap.get s.blobs (abpKey p) = OMap.get t.blobs (abpKey p)) : memPackageAll s p = memPackageAll t p := by
  simp [memPackageAll, h1, h2]

theorem queryFile_congr {s t : State} {fp : Bytes}
    (h : memPackageAll s (splitFilepath fp).1 = memPackageAll t (splitFilepath fp).1) :
    queryFile s fp = queryFile t fp := by
  unfold queryFile
  simp only [h]

end GnoVerif.C12
