/-
Proofs.C24Reopen — closing and reopening the tree right after a successful
`SaveVersion` of a NEW version changes nothing in the model: the reloaded
handle is the same state (same working tree, same versions), hence produces
the same hashes from then on.

Needs that saved versions are consecutive (each save is `version + 1`, pruning
removes a prefix), so that a version number that is not yet saved lies above
all saved ones.
-/
import GnoVerif.Proofs.C24Keys

namespace GnoVerif.C23
open GnoVerif

namespace MT

theorem lookup_isSome_iff {m : MT} {v : Nat} : (m.lookup v).isSome ↔ ∃ p ∈ m.saved, p.1 = v := by
  simp only [lookup, Option.isSome_map]
  constructor
  · intro h
    obtain ⟨p, hp⟩ := Option.isSome_iff_exists.1 h
    exact ⟨p, List.mem_of_find?_eq_some hp, by simpa using List.find?_some hp⟩
  · rintro ⟨p, hp, rfl⟩
    rw [List.find?_isSome]
    exact ⟨p, hp, by simp⟩

/-- `foldl max` is an upper bound, and is attained (or is the start value). -/
theorem foldl_max_spec : ∀ (l : List Nat) (a : Nat),
    (∀ x ∈ l, x ≤ l.foldl max a) ∧ a ≤ l.foldl max a ∧ (l.foldl max a = a ∨ l.foldl max a ∈ l)
  | [], a => ⟨by simp, Nat.le_refl _, Or.inl rfl⟩
  | x :: l, a => by
    obtain ⟨h1, h2, h3⟩ := foldl_max_spec l (max a x)
    simp only [List.foldl_cons]
    refine ⟨?_, by omega, ?_⟩
    · intro y hy
      rcases List.mem_cons.1 hy with rfl | hy
      · omega
      · exact h1 y hy
    · rcases h3 with h3 | h3
      · rw [h3]
        by_cases hax : a ≤ x
        · right; rw [Nat.max_eq_right hax]; simp
        · left; rw [Nat.max_eq_left (by omega)]
      · right; exact List.mem_cons_of_mem _ h3

theorem le_latest {m : MT} {p : Nat × Tree} (hp : p ∈ m.saved) : p.1 ≤ m.latest := by
  unfold latest
  exact (foldl_max_spec (m.saved.map (·.1)) 0).1 p.1 (List.mem_map.2 ⟨p, hp, rfl⟩)

theorem latest_mem {m : MT} (hne : m.saved ≠ []) (hpos : ∀ p ∈ m.saved, 0 < p.1) :
    ∃ p ∈ m.saved, p.1 = m.latest := by
  rcases (foldl_max_spec (m.saved.map (·.1)) 0).2.2 with h | h
  · -- the maximum is 0: impossible with a positive member
    cases hs : m.saved with
    | nil => exact absurd hs hne
    | cons q l =>
      have := le_latest (m := m) (p := q) (by rw [hs]; simp)
      have hq := hpos q (by rw [hs]; simp)
      simp only [latest] at this
      omega
  · obtain ⟨p, hp, hpe⟩ := List.mem_map.1 h
    exact ⟨p, hp, hpe⟩

/-- saved version numbers are consecutive; version 0 means "nothing saved yet". -/
structure Cont (m : MT) : Prop where
  contig : ∀ p ∈ m.saved, ∀ q ∈ m.saved, ∀ w, p.1 ≤ w → w ≤ q.1 → (m.lookup w).isSome
  zero : m.version = 0 → m.saved = []

theorem cont_init : Cont {} := ⟨by simp, fun _ => rfl⟩

theorem lookup_insertSaved_self {v : Nat} {t : Tree} {l : List (Nat × Tree)}
    (hnone : l.find? (·.1 == v) = none) :
    ((insertSaved v t l).find? (·.1 == v)).map (·.2) = some t := by
  rw [find_insertSaved hnone]; rfl

/-- all saved versions lie at or below the session's version when its successor is not saved. -/
theorem all_le_version {B : Nat} {m : MT} (hi : Inv B m) (hc : Cont m)
    (hl : m.lookup (m.version + 1) = none) : ∀ p ∈ m.saved, p.1 ≤ m.version := by
  intro p hp
  by_cases hle : p.1 ≤ m.version
  · exact hle
  · exfalso
    rcases hi.base with ⟨h0, _⟩ | hb
    · rw [hc.zero h0] at hp; cases hp
    · obtain ⟨q, hq, hqv⟩ := lookup_isSome_iff.1 (by rw [hb]; rfl : (m.lookup m.version).isSome)
      have := hc.contig q hq p hp (m.version + 1) (by omega) (by omega)
      rw [hl] at this; cases this

theorem apply_cont {B : Nat} (hashOf : Tree → Bytes) {m : MT} (hi : Inv B m) (hc : Cont m) (op : Op) :
    Cont (m.apply B hashOf op) := by
  cases op with
  | set k v =>
    simp only [apply]
    cases h : m.set B k v with
    | error e => exact hc
    | ok r =>
      obtain ⟨m', u⟩ := r
      simp only [set] at h
      split at h; · cases h
      split at h; · cases h
      split at h; · cases h
      simp only [Except.ok.injEq, Prod.mk.injEq] at h
      obtain ⟨rfl, _⟩ := h
      exact ⟨hc.contig, hc.zero⟩
  | rm k =>
    simp only [apply]
    cases h : m.remove B k with
    | error e => exact hc
    | ok r =>
      obtain ⟨m', u⟩ := r
      simp only [remove] at h
      split at h; · cases h
      split at h
      · simp only [Except.ok.injEq, Prod.mk.injEq] at h; obtain ⟨rfl, _⟩ := h; exact hc
      · simp only [Except.ok.injEq, Prod.mk.injEq] at h; obtain ⟨rfl, _⟩ := h
        exact ⟨hc.contig, hc.zero⟩
  | save =>
    simp only [apply]
    unfold saveVersion
    by_cases hp : m.poisoned = true
    · rw [if_pos hp]; exact hc
    · rw [if_neg hp]
      cases hl : m.lookup (m.version + 1) with
      | some existing =>
        simp only [hl]
        by_cases hcf : saveConflict hashOf existing m.root = true
        · rw [if_pos hcf]; exact ⟨hc.contig, hc.zero⟩
        · rw [if_neg hcf]
          refine ⟨hc.contig, ?_⟩
          intro h0; simp at h0
      | none =>
        simp only [hl]
        have hall := all_le_version hi hc hl
        have hfind : m.saved.find? (·.1 == m.version + 1) = none := by
          simpa [lookup] using hl
        refine ⟨?_, by intro h0; simp at h0⟩
        intro p hp' q hq' w hpw hwq
        show ((insertSaved (m.version + 1) m.root m.saved).find? (·.1 == w)).map (·.2) |>.isSome
        by_cases hw : w = m.version + 1
        · subst hw; rw [lookup_insertSaved_self hfind]; rfl
        · rw [find_insertSaved_ne hw]
          -- `w` lies between two old versions, or below the new one and above an old one
          have hq1 : q.1 ≤ m.version + 1 := by
            rcases mem_insertSaved hq' with rfl | hq'
            · exact Nat.le_refl _
            · have := hall q hq'; omega
          rcases mem_insertSaved hp' with rfl | hp'
          · omega
          · rcases mem_insertSaved hq' with rfl | hq'
            · -- p old, q new: w ≤ version, and version itself is saved
              rcases hi.base with ⟨h0, _⟩ | hb
              · rw [hc.zero h0] at hp'; cases hp'
              · obtain ⟨r, hr, hrv⟩ := lookup_isSome_iff.1
                  (by rw [hb]; rfl : (m.lookup m.version).isSome)
                exact hc.contig p hp' r hr w hpw (by simp only at hwq; omega)
            · exact hc.contig p hp' q hq' w hpw hwq
  | rollback => exact ⟨hc.contig, hc.zero⟩
  | load v =>
    simp only [apply]
    cases h : m.loadVersion v with
    | error e => exact hc
    | ok r =>
      obtain ⟨m', u⟩ := r
      simp only [loadVersion] at h
      cases hl : m.lookup v with
      | none => rw [hl] at h; cases h
      | some t =>
        rw [hl] at h
        simp only [Except.ok.injEq, Prod.mk.injEq] at h
        obtain ⟨rfl, _⟩ := h
        refine ⟨hc.contig, ?_⟩
        intro h0
        simp only at h0
        subst h0
        have := hi.pos _ (lookup_mem hl)
        simp at this
  | prune to =>
    simp only [apply]
    cases h : m.prune to with
    | error e => exact hc
    | ok m' =>
      simp only [prune] at h
      split at h; · cases h
      split at h; · cases h; exact hc
      split at h; · cases h
      split at h; · cases h
      rename_i hact
      cases h
      refine ⟨?_, ?_⟩
      · intro p hp q hq w hpw hwq
        have hp' := List.mem_filter.1 hp
        have hq' := List.mem_filter.1 hq
        have hgt : to < p.1 := by simpa using hp'.2
        have := hc.contig p hp'.1 q hq'.1 w hpw hwq
        simp only [lookup] at this ⊢
        rwa [find_filter_gt (by omega)]
      · intro h0
        simp only at h0
        omega
  | reopen =>
    simp only [apply, reopen]
    cases hl : m.lookup m.latest with
    | none =>
      refine ⟨hc.contig, fun _ => ?_⟩
      by_cases hne : m.saved = []
      · exact hne
      · obtain ⟨p, hp, hpe⟩ := latest_mem hne hi.pos
        have : (m.lookup m.latest).isSome := lookup_isSome_iff.2 ⟨p, hp, hpe⟩
        rw [hl] at this; cases this
    | some t =>
      refine ⟨hc.contig, ?_⟩
      intro h0
      simp only at h0
      have := hi.pos _ (lookup_mem hl)
      simp only at this
      omega

theorem run_cont {B : Nat} (hB : 4 ≤ B) (hashOf : Tree → Bytes) (ops : List Op) :
    Inv B (run B hashOf ops) ∧ Cont (run B hashOf ops) := by
  unfold run
  have : ∀ (m : MT), Inv B m → Cont m →
      Inv B (ops.foldl (apply B hashOf) m) ∧ Cont (ops.foldl (apply B hashOf) m) := by
    induction ops with
    | nil => intro m h1 h2; exact ⟨h1, h2⟩
    | cons op ops ih =>
      intro m h1 h2
      exact ih _ (apply_inv hB hashOf h1 op) (apply_cont hashOf h1 h2 op)
  exact this _ (inv_init B) cont_init

/-- the state after a successful save of a new version. -/
def savedNew (m : MT) : MT :=
  { root := m.root, lastSaved := m.root, size := m.size, version := m.version + 1,
    saved := insertSaved (m.version + 1) m.root m.saved, dirty := false, poisoned := m.poisoned }

theorem saveVersion_new (hashOf : Tree → Bytes) {m : MT} (hnp : m.poisoned = false)
    (hl : m.lookup (m.version + 1) = none) : m.saveVersion hashOf = (none, savedNew m) := by
  unfold saveVersion
  simp only [hnp, Bool.false_eq_true, if_false, hl, savedNew]

/-- after a successful save of a NEW version, reopening the tree gives back the same state. -/
theorem reopen_after_save {B : Nat} (hashOf : Tree → Bytes) {m : MT} (hi : Inv B m) (hc : Cont m)
    (hnp : m.poisoned = false) (hl : m.lookup (m.version + 1) = none) :
    (m.saveVersion hashOf).1 = none ∧
    (m.saveVersion hashOf).2.reopen = ((m.saveVersion hashOf).2, m.version + 1) := by
  have hall := all_le_version hi hc hl
  have hfind : m.saved.find? (·.1 == m.version + 1) = none := by simpa [lookup] using hl
  rw [saveVersion_new hashOf hnp hl]
  refine ⟨rfl, ?_⟩
  -- the new version is the largest one
  have hlatest : (savedNew m).latest = m.version + 1 := by
    apply Nat.le_antisymm
    · rcases (foldl_max_spec ((savedNew m).saved.map (·.1)) 0).2.2 with h | h
      · unfold latest; omega
      · obtain ⟨p, hp, hpe⟩ := List.mem_map.1 h
        unfold latest
        rw [← hpe]
        rcases mem_insertSaved hp with rfl | hp
        · exact Nat.le_refl _
        · have := hall p hp; omega
    · have hmem : (m.version + 1, m.root) ∈ (savedNew m).saved :=
        List.mem_of_find?_eq_some (find_insertSaved hfind)
      exact le_latest hmem
  have hlook : (savedNew m).lookup (m.version + 1) = some m.root := by
    simp only [lookup, savedNew]; exact lookup_insertSaved_self hfind
  have hsz : m.root.size = m.size := by rw [hi.size]; exact Tree.size_eq_abs hi.root
  simp only [reopen, hlatest, hlook]
  simp only [savedNew, hsz, hnp]

end MT
end GnoVerif.C23
