import GnoVerif.Proofs.C52Esc
import GnoVerif.Proofs.C52TabFacts
/-!
C52 helper lemmas, part 3: URLs.

* `escLoop` (the loop of `util.URLEscape`) leaves no byte ≤ 0x20 before the first `%` of its output;
* the browser's pre-processing (`stripURL`) and NUL replacement do not change what precedes the first `%`;
* the scheme verdict only looks at what precedes the first `%`;
* a URL whose verdict is "script-capable" is rejected by `isDangerousURL`.
-/
namespace GnoVerif.C52
open GnoVerif.Gen.C52

/-! ## what precedes the first `%` -/

/-- no byte ≤ 0x20 occurs before the first `%` -/
def cleanPrefix : Bytes → Prop
  | [] => True
  | c :: r => c = 37 ∨ (32 < c ∧ cleanPrefix r)

theorem cleanPrefix_cons_pct (r : Bytes) : cleanPrefix (37 :: r) := Or.inl rfl

theorem queryEscapeByte_head (c : Nat) (h1 : urlSafe c = false) (h2 : c ≠ 32) :
    ∃ a b, queryEscapeByte c = [37, a, b] := by
  unfold queryEscapeByte
  have : ¬ (isAlnum c = true ∨ c = 45 ∨ c = 95 ∨ c = 46 ∨ c = 126) := by
    intro h
    rw [unreserved_urlSafe c h] at h1; cases h1
  rw [if_neg this, if_neg h2]
  exact ⟨_, _, rfl⟩

theorem escLoopAux_clean (L : Nat) : ∀ (f : Nat) (v : Bytes), v.length ≤ f → v.length ≤ L →
    cleanPrefix (escLoopAux L f v) := by
  intro f
  induction f with
  | zero =>
    intro v hf _
    have : v = [] := List.eq_nil_of_length_eq_zero (by omega)
    subst this; simp [escLoopAux, cleanPrefix]
  | succ f ih =>
    intro v hf hL
    cases v with
    | nil => simp [escLoopAux, cleanPrefix]
    | cons c rest =>
      simp only [List.length_cons] at hf hL
      unfold escLoopAux
      by_cases hs : urlSafe c = true
      · rw [if_pos hs]
        exact Or.inr ⟨(urlSafe_gt c hs).1, ih rest (by omega) (by omega)⟩
      · rw [if_neg hs]
        have hs' : urlSafe c = false := by simpa using hs
        split
        · -- the `%hX` case
          rename_i h1 x rest' heq
          have hc : c = 37 := by
            by_cases hne : c = 37
            · exact hne
            · simp [hne] at heq
          subst hc
          exact cleanPrefix_cons_pct _
        · rename_i heq
          show cleanPrefix (if utf8len c = 99 then c :: escLoopAux L f rest
            else if c = 32 then htmlSpace ++ escLoopAux L f rest
            else if (if utf8len c > L then L - 1 else utf8len c) = 0 then c :: escLoopAux L f rest
            else if (if utf8len c > L then L - 1 else utf8len c) > rest.length + 1 then escLoopAux L f rest
            else queryEscape (List.take (if utf8len c > L then L - 1 else utf8len c) (c :: rest)) ++
                 escLoopAux L f (List.drop ((if utf8len c > L then L - 1 else utf8len c) - 1) rest))
          by_cases hu : utf8len c = 99
          · rw [if_pos hu]
            have hc : 128 ≤ c := by
              by_cases hlt : c < 256
              · rcases utf8len_small c hlt with h | h | h <;> omega
              · omega
            exact Or.inr ⟨by omega, ih rest (by omega) (by omega)⟩
          · rw [if_neg hu]
            by_cases h32 : c = 32
            · rw [if_pos h32]
              exact Or.inl rfl
            · rw [if_neg h32]
              have key : ∀ u' : Nat, (u' = 0 → 32 < c) →
                  cleanPrefix (if u' = 0 then c :: escLoopAux L f rest
                    else if u' > rest.length + 1 then escLoopAux L f rest
                    else queryEscape (List.take u' (c :: rest)) ++ escLoopAux L f (List.drop (u' - 1) rest)) := by
                intro u' h0
                by_cases hz : u' = 0
                · rw [if_pos hz]
                  exact Or.inr ⟨h0 hz, ih rest (by omega) (by omega)⟩
                · rw [if_neg hz]
                  by_cases hg : u' > rest.length + 1
                  · rw [if_pos hg]
                    exact ih rest (by omega) (by omega)
                  · rw [if_neg hg]
                    obtain ⟨k, hk⟩ : ∃ k, u' = k + 1 := ⟨u' - 1, by omega⟩
                    subst hk
                    obtain ⟨a, b, hq⟩ := queryEscapeByte_head c hs' h32
                    simp only [List.take_succ_cons, queryEscape, List.flatMap_cons, hq]
                    simp [cleanPrefix]
              apply key
              intro hz
              by_cases hlt : c < 256
              · rcases utf8len_small c hlt with h | h | h
                · rw [h] at hz
                  split at hz <;> omega
                · omega
                · omega
              · omega

theorem escLoop_clean (v : Bytes) : cleanPrefix (escLoop v) :=
  escLoopAux_clean v.length (v.length + 1) v (by omega) (by omega)

/-! ## the part of a URL before its first `%` -/

def pre37 : Bytes → Bytes
  | [] => []
  | c :: r => if c = 37 then [] else c :: pre37 r

/-- every byte before the first `%` is > 0x20 -/
def Pre37Clean (u : Bytes) : Prop := ∀ b ∈ pre37 u, 32 < b

theorem pre37Clean_of_cleanPrefix : ∀ u, cleanPrefix u → Pre37Clean u
  | [], _ => by intro b hb; simp [pre37] at hb
  | c :: r, h => by
    intro b hb
    unfold pre37 at hb
    by_cases hc : c = 37
    · simp [hc] at hb
    · rw [if_neg hc] at hb
      rcases h with h | ⟨h1, h2⟩
      · exact absurd h hc
      · rcases List.mem_cons.1 hb with hb | hb
        · omega
        · exact pre37Clean_of_cleanPrefix r h2 b hb

theorem Pre37Clean.tail {c : Nat} {r : Bytes} (h : Pre37Clean (c :: r)) (hc : c ≠ 37) :
    32 < c ∧ Pre37Clean r := by
  constructor
  · exact h c (by simp [pre37, hc])
  · intro b hb; exact h b (by simp [pre37, hc, hb])

theorem pre37_nulFix : ∀ u, Pre37Clean u → pre37 (nulFix u) = pre37 u
  | [], _ => rfl
  | c :: r, h => by
    by_cases hc : c = 37
    · subst hc; simp [nulFix, pre37]
    · obtain ⟨h1, h2⟩ := h.tail hc
      have h0 : c ≠ 0 := by omega
      have ih := pre37_nulFix r h2
      simp only [nulFix, List.flatMap_cons, if_neg h0] at ih ⊢
      simp [pre37, hc, ih]

theorem dropWhile_clean (u : Bytes) (h : Pre37Clean u) : u.dropWhile isC0Space = u := by
  cases u with
  | nil => rfl
  | cons c r =>
    have hc : 32 < c := by
      by_cases h37 : c = 37
      · omega
      · exact (h.tail h37).1
    have : isC0Space c = false := by simp [isC0Space]; omega
    simp [List.dropWhile, this]

theorem pre37_dropTrailing : ∀ u, Pre37Clean u → pre37 (dropTrailingC0 u) = pre37 u
  | [], _ => rfl
  | c :: r, h => by
    by_cases hc : c = 37
    · subst hc
      have : isC0Space 37 = false := by decide
      simp [dropTrailingC0, this, pre37]
    · obtain ⟨h1, h2⟩ := h.tail hc
      have : isC0Space c = false := by simp [isC0Space]; omega
      simp [dropTrailingC0, this, pre37, hc, pre37_dropTrailing r h2]

theorem pre37_filter : ∀ u, Pre37Clean u →
    pre37 (u.filter (fun c => !isTabNl c)) = pre37 u
  | [], _ => rfl
  | c :: r, h => by
    by_cases hc : c = 37
    · subst hc
      have : isTabNl 37 = false := by decide
      simp [List.filter, this, pre37]
    · obtain ⟨h1, h2⟩ := h.tail hc
      have : isTabNl c = false := by simp [isTabNl]; omega
      simp [List.filter, this, pre37, hc, pre37_filter r h2]

theorem Pre37Clean_congr {u v : Bytes} (h : pre37 u = pre37 v) (hv : Pre37Clean v) : Pre37Clean u := by
  intro b hb; rw [h] at hb; exact hv b hb

theorem pre37_stripURL (d : Bytes) (h : Pre37Clean d) : pre37 (stripURL (nulFix d)) = pre37 d := by
  have e1 := pre37_nulFix d h
  have c1 : Pre37Clean (nulFix d) := Pre37Clean_congr e1 h
  unfold stripURL
  rw [dropWhile_clean _ c1]
  have e2 := pre37_dropTrailing _ c1
  have c2 : Pre37Clean (dropTrailingC0 (nulFix d)) := Pre37Clean_congr e2 c1
  rw [pre37_filter _ c2, e2, e1]

/-! ## the scheme verdict only looks at what precedes the first `%` -/

theorem schemeChar_37 : schemeChar 37 = false := by decide
theorem isAlpha_37 : isAlpha 37 = false := by decide

theorem lowerB_eq_37 (c : Nat) : lowerB c = 37 ↔ c = 37 := by
  unfold lowerB; split <;> omega

theorem schemeTail_pre37 : ∀ u, schemeTail (pre37 u) = schemeTail u
  | [] => rfl
  | c :: r => by
    by_cases hc : c = 37
    · subst hc; simp [pre37, schemeTail, schemeChar_37]
    · simp only [pre37, if_neg hc, schemeTail, schemeTail_pre37 r]

theorem urlScheme_pre37 (u : Bytes) : urlScheme (pre37 u) = urlScheme u := by
  cases u with
  | nil => rfl
  | cons c r =>
    by_cases hc : c = 37
    · subst hc; simp [pre37, urlScheme, isAlpha_37]
    · simp only [pre37, if_neg hc, urlScheme, schemeTail_pre37 r]

theorem isPrefixOf_pre37 : ∀ (w u : Bytes), (∀ b ∈ w, b ≠ 37) →
    w.isPrefixOf ((pre37 u).map lowerB) = w.isPrefixOf (u.map lowerB)
  | [], _, _ => by simp [List.isPrefixOf]
  | a :: w, [], _ => by simp [pre37]
  | a :: w, c :: r, h => by
    have ha : a ≠ 37 := h a (by simp)
    by_cases hc : c = 37
    · subst hc
      have : lowerB 37 = 37 := by decide
      simp [pre37, List.isPrefixOf, this, ha]
    · simp only [pre37, if_neg hc, List.map_cons, List.isPrefixOf]
      rw [isPrefixOf_pre37 w r (fun b hb => h b (by simp [hb]))]

theorem dataImagePrefixes_no37 : ∀ w ∈ dataImagePrefixes, ∀ b ∈ w, b ≠ 37 := by decide

theorem any_congr_mem {α : Type} (l : List α) (p q : α → Bool) (h : ∀ a ∈ l, p a = q a) :
    l.any p = l.any q := by
  induction l with
  | nil => rfl
  | cons a r ih =>
    simp only [List.any_cons]
    rw [h a (by simp), ih (fun b hb => h b (by simp [hb]))]

theorem allowedDataImage_pre37 (u : Bytes) : allowedDataImage (pre37 u) = allowedDataImage u := by
  unfold allowedDataImage
  apply any_congr_mem
  intro w hw
  exact isPrefixOf_pre37 w u (dataImagePrefixes_no37 w hw)

theorem schemeVerdict_pre37 (u : Bytes) : schemeVerdict (pre37 u) = schemeVerdict u := by
  unfold schemeVerdict
  rw [urlScheme_pre37, allowedDataImage_pre37]

/-- the browser's reading of an escaped URL `d` (NUL shown as U+FFFD) equals the verdict on `d` itself -/
theorem scriptCapable_nulFix (d : Bytes) (h : Pre37Clean d) : scriptCapable (nulFix d) = schemeVerdict d := by
  unfold scriptCapable
  rw [← schemeVerdict_pre37, pre37_stripURL d h, schemeVerdict_pre37]

/-! ## a URL with a script-capable verdict is rejected by `IsDangerousURL` -/

theorem isPrefixOf_eq_take : ∀ (P A : Bytes),
    P.isPrefixOf A = (decide (P.length ≤ A.length) && (A.take P.length == P))
  | [], A => by simp
  | a :: P, [] => by simp
  | a :: P, b :: A => by
    simp only [List.isPrefixOf, List.length_cons, List.take_succ_cons, isPrefixOf_eq_take P A]
    by_cases h : a = b
    · subst h; simp
    · have h1 : (a == b) = false := by simpa using h
      have h2 : (b == a) = false := by simpa using (fun e : b = a => h e.symm)
      simp [h1, h2]

theorem hasPrefixFold_eq (s p : Bytes) :
    hasPrefixFold s p = (p.map lowerB).isPrefixOf (s.map lowerB) := by
  unfold hasPrefixFold
  rw [isPrefixOf_eq_take]
  simp [List.map_take]

theorem isPrefixOf_append : ∀ (a b L : Bytes),
    (a ++ b).isPrefixOf L = (a.isPrefixOf L && b.isPrefixOf (L.drop a.length))
  | [], b, L => by simp
  | x :: a, b, [] => by simp
  | x :: a, b, y :: L => by
    simp only [List.cons_append, List.isPrefixOf, List.length_cons, List.drop_succ_cons,
      isPrefixOf_append a b L, Bool.and_assoc]

/-- `isDangerousURL` on the lower-cased URL -/
def dangerL (L : Bytes) : Bool :=
  if bDataImage.isPrefixOf L && decide (11 ≤ L.length) then
    !(bPng.isPrefixOf (L.drop 11) || bGif.isPrefixOf (L.drop 11) || bJpeg.isPrefixOf (L.drop 11) ||
      bWebp.isPrefixOf (L.drop 11) || bSvg.isPrefixOf (L.drop 11))
  else bJs.isPrefixOf L || bVb.isPrefixOf L || bFile.isPrefixOf L || bData.isPrefixOf L

theorem prefixes_lower :
    bDataImage.map lowerB = bDataImage ∧ bPng.map lowerB = bPng ∧ bGif.map lowerB = bGif ∧
    bJpeg.map lowerB = bJpeg ∧ bWebp.map lowerB = bWebp ∧ bSvg.map lowerB = bSvg ∧
    bJs.map lowerB = bJs ∧ bVb.map lowerB = bVb ∧ bFile.map lowerB = bFile ∧ bData.map lowerB = bData := by
  decide

theorem isDangerousURL_eq (d : Bytes) : isDangerousURL d = dangerL (d.map lowerB) := by
  obtain ⟨h1, h2, h3, h4, h5, h6, h7, h8, h9, h10⟩ := prefixes_lower
  unfold isDangerousURL dangerL
  simp only [hasPrefixFold_eq, h1, h2, h3, h4, h5, h6, h7, h8, h9, h10, List.map_drop, List.length_map]

theorem schemeTail_some : ∀ (r t : Bytes), schemeTail r = some t → ∃ rest, r = t ++ 58 :: rest
  | [], t, h => by simp [schemeTail] at h
  | c :: r, t, h => by
    unfold schemeTail at h
    by_cases hc : c = 58
    · rw [if_pos hc] at h
      cases h
      exact ⟨r, by simp [hc]⟩
    · rw [if_neg hc] at h
      by_cases hs : schemeChar c = true
      · rw [if_pos hs] at h
        cases hst : schemeTail r with
        | none => rw [hst] at h; cases h
        | some t' =>
          rw [hst] at h
          cases h
          obtain ⟨rest, hr⟩ := schemeTail_some r t' hst
          exact ⟨rest, by simp [hr]⟩
      · rw [if_neg hs] at h; cases h

/-- a URL whose scheme is `s` reads, lower-cased, `s ++ ":" ++ …` -/
theorem urlScheme_some (d s : Bytes) (h : urlScheme d = some s) :
    ∃ rest, d.map lowerB = s ++ 58 :: rest := by
  cases d with
  | nil => simp [urlScheme] at h
  | cons c r =>
    simp only [urlScheme] at h
    by_cases ha : isAlpha c = true
    · rw [if_pos ha] at h
      cases hst : schemeTail r with
      | none => rw [hst] at h; cases h
      | some t =>
        rw [hst] at h
        cases h
        obtain ⟨rest, hr⟩ := schemeTail_some r t hst
        refine ⟨rest.map lowerB, ?_⟩
        have : lowerB 58 = 58 := by decide
        simp [hr, this]
    · rw [if_neg ha] at h; cases h

theorem dataImagePrefixes_split :
    dataImagePrefixes = [bDataImage ++ bPng, bDataImage ++ bGif, bDataImage ++ bJpeg,
                         bDataImage ++ bWebp, bDataImage ++ bSvg] := by decide

theorem bDataImage_length : bDataImage.length = 11 := by decide

theorem dangerous_of_verdict (d : Bytes) (h : schemeVerdict d = true) : isDangerousURL d = true := by
  rw [isDangerousURL_eq]
  unfold schemeVerdict at h
  cases hs : urlScheme d with
  | none => rw [hs] at h; cases h
  | some s =>
    rw [hs] at h
    obtain ⟨rest, hL⟩ := urlScheme_some d s hs
    simp only [Bool.or_eq_true, Bool.and_eq_true, beq_iff_eq] at h
    rcases h with (h | h) | ⟨h, hna⟩
    · subst h
      rw [hL]
      simp [dangerL, bDataImage, bJs, List.isPrefixOf]
    · subst h
      rw [hL]
      simp [dangerL, bDataImage, bJs, bVb, List.isPrefixOf]
    · subst h
      unfold dangerL
      split
      · rename_i hc
        simp only [Bool.and_eq_true] at hc
        have hna' : allowedDataImage d = false := by simpa using hna
        unfold allowedDataImage at hna'
        rw [dataImagePrefixes_split] at hna'
        simp only [List.any_cons, List.any_nil, isPrefixOf_append, bDataImage_length, hc.1,
          Bool.true_and, Bool.or_false] at hna'
        simp only [Bool.or_eq_false_iff] at hna'
        obtain ⟨a1, a2, a3, a4, a5⟩ := hna'
        simp [a1, a2, a3, a4, a5]
      · rw [hL]
        simp [bData, List.isPrefixOf]

end GnoVerif.C52
