/-
Proofs.C26Step — every operation preserves the state invariant; reads in
contract are consistent.
-/
import GnoVerif.Proofs.C26Open

set_option linter.unusedSimpArgs false
set_option linter.unusedVariables false

namespace GnoVerif.C26
open GnoVerif

/-! ### opening -/

theorem versions_eq {db db' : DB} (hv : db'.vers = db.vers) : db'.versions = db.versions := by
  simp [DB.versions, hv]

theorem visible_eq {db db' : DB} (hv : db'.vers = db.vers) (skew : Nat) :
    db'.visible skew = db.visible skew := by
  simp [DB.visible, versions_eq hv]

theorem loadWith_okN {db : DB} (hi : DBInv db) {fo : Bool} {skew : Nat} {h : Handle} {n : Nat}
    (h1 : (loadWith ensureDecision db fo skew).2.1 = some h)
    (h2 : (loadWith ensureDecision db fo skew).2.2 = .okN n) : h.version = n := by
  unfold loadWith at h1 h2
  cases hr : loadReadonly db fo skew with
  | none => rw [hr] at h1; simp at h1
  | some r =>
    obtain ⟨g, v⟩ := r
    rw [hr] at h1 h2
    simp only at h1 h2
    rcases loadReadonly_cases hr with ⟨hv0, hmax, hg⟩ | ⟨hv0, hvmax, hl⟩
    · simp only [hv0, if_true, Option.some.injEq, Out.okN.injEq] at h1 h2
      subst h1; subst hg; subst h2; rfl
    · obtain ⟨_, hgv, _⟩ := loadAt_fresh hi hl
      simp only [hv0, if_false] at h1 h2
      cases he : ensureDecision db g with
      | noop =>
        rw [he] at h1 h2
        simp only [Option.some.injEq, Out.okN.injEq] at h1 h2
        subst h1; subst h2; exact hgv
      | rebuild =>
        rw [he] at h1 h2
        simp only [Option.some.injEq, Out.okN.injEq] at h1 h2
        subst h1; subst h2; exact hgv
      | ahead =>
        rw [he] at h2
        simp at h2

/-- what the state invariant needs from a freshly opened handle. -/
def OpenOK (db db' : DB) (skew : Nat) (ho : Option Handle) : Prop :=
  DBInv db' ∧ Frame db db' ∧ db'.vers = db.vers ∧ (StampCurrent db → StampCurrent db') ∧
  ∀ h, ho = some h → HInv db' h ∧ (skew = 0 → WInv db' h)

theorem handle_of_fresh {db : DB} (hi : DBInv db) {h : Handle} {skew : Nat}
    (hfr : Fresh db h) (hfirst : h.first = minOf (db.visible skew))
    (hver : (h.version = 0 ∧ maxOf (db.visible skew) = 0) ∨ h.version ∈ db.versions)
    (hcov : h.fastOpt = true → h.ensured = true → h.version ≠ 0 →
      ∃ S, db.stamp = some S ∧ h.version ≤ S)
    (hcur : skew = 0 → h.fastOpt = true → h.ensured = true → StampCurrent db) :
    HInv db h ∧ (skew = 0 → WInv db h) := by
  refine ⟨hinv_of_fresh hfr hcov, ?_⟩
  intro hs
  subst hs
  rw [visible_zero] at hfirst hver
  exact winv_fresh hi hfirst hver (hcur rfl)

theorem loadWith_openOK {db : DB} (hi : DBInv db) (fo : Bool) (skew : Nat) :
    OpenOK db (loadWith ensureDecision db fo skew).1 skew (loadWith ensureDecision db fo skew).2.1 := by
  obtain ⟨hi', hfr, hv, hsc, hh⟩ := loadWith_spec hi fo skew
  refine ⟨hi', hfr, hv, hsc, ?_⟩
  intro h hh'
  obtain ⟨hfresh, _, hfirst, hver, hcov, hcur⟩ := hh h hh'
  rw [← visible_eq hv, ← versions_eq hv] at hver
  rw [← visible_eq hv] at hfirst
  exact handle_of_fresh hi' hfresh hfirst hver hcov hcur

theorem loadReadonly_openOK {db : DB} (hi : DBInv db) {fo : Bool} {skew : Nat} {h : Handle} {v : Ver}
    (hr : loadReadonly db fo skew = some (h, v)) : HInv db h ∧ (skew = 0 → WInv db h) := by
  rcases loadReadonly_cases hr with ⟨hv0, hmax, hg⟩ | ⟨hv0, hvmax, hl⟩
  · subst hg
    refine handle_of_fresh hi (emptyHandle_fresh db fo _ _) rfl (Or.inl ⟨rfl, hmax⟩) ?_ ?_
    · intro _ he; simp [emptyHandle] at he
    · intro _ _ he; simp [emptyHandle] at he
  · obtain ⟨hfr, hgv, hge, hgf, hgfirst, _⟩ := loadAt_fresh hi hl
    have hmem : h.version ∈ db.versions := by
      have := hfr.saved
      rw [hgv] at this ⊢
      simp only [hv0, if_false] at this
      exact mem_versions.2 ⟨_, tree_mem this⟩
    refine handle_of_fresh hi hfr hgfirst (Or.inr hmem) ?_ ?_
    · intro _ he; rw [hge] at he; simp at he
    · intro _ _ he; rw [hge] at he; simp at he

theorem loadVersion_openOK {db : DB} (hi : DBInv db) {fo : Bool} {skew : Nat} {v : Ver} {h : Handle}
    (hr : (loadVersion db fo skew v).1 = some h) :
    Fresh db h ∧ h.first = minOf (db.visible skew) ∧ h.version ∈ db.versions ∧ h.ensured = false ∧
      h.version = v ∧ h.fastOpt = fo := by
  unfold loadVersion at hr
  simp only at hr
  split at hr
  · simp at hr
  · rename_i g hg
    simp only [Option.some.injEq] at hr
    subst hr
    obtain ⟨hfr, hgv, hge, hgf, hgfirst, hv0⟩ := loadAt_fresh hi hg
    have hmem : g.version ∈ db.versions := by
      have := hfr.saved
      rw [hgv] at this ⊢
      simp only [hv0, if_false] at this
      exact mem_versions.2 ⟨_, tree_mem this⟩
    exact ⟨hfr, hgfirst, hmem, hge, hgv, hgf⟩

theorem openHandle_openOK {db : DB} (hi : DBInv db) (fo : Bool) (mode : Mode) (skew : Nat) :
    OpenOK db (openHandle ensureDecision db fo mode skew).1 skew
      (openHandle ensureDecision db fo mode skew).2.1 := by
  cases mode with
  | load => exact loadWith_openOK hi fo skew
  | ro =>
    simp only [openHandle]
    cases hr : loadReadonly db fo skew with
    | none => exact ⟨hi, Frame.refl _, rfl, id, fun h hh => by simp at hh⟩
    | some r =>
      obtain ⟨g, v⟩ := r
      refine ⟨hi, Frame.refl _, rfl, id, ?_⟩
      intro h hh
      simp only [Option.some.injEq] at hh
      subst hh
      exact loadReadonly_openOK hi hr
  | lv v =>
    simp only [openHandle]
    by_cases h0 : v = 0
    · simp only [h0, if_true]; exact loadWith_openOK hi fo skew
    · simp only [h0, if_false]
      refine ⟨hi, Frame.refl _, rfl, id, ?_⟩
      intro h hh
      obtain ⟨hfr, hfirst, hmem, hge, _, _⟩ := loadVersion_openOK hi (v := v) (fo := fo) (skew := skew) hh
      refine handle_of_fresh hi hfr hfirst (Or.inr hmem) ?_ ?_
      · intro _ he; rw [hge] at he; simp at he
      · intro _ _ he; rw [hge] at he; simp at he
  | loadlv v =>
    obtain ⟨hi', hfr, hv, hsc, hh⟩ := loadWith_openOK hi fo skew
    simp only [openHandle]
    generalize hL : loadWith ensureDecision db fo skew = L at hi' hfr hv hsc hh
    obtain ⟨db', ho, o⟩ := L
    simp only at hi' hfr hv hsc hh
    cases ho with
    | none => exact ⟨hi', hfr, hv, hsc, fun h hh' => by simp at hh'⟩
    | some g =>
      cases o with
      | okN lv =>
        simp only
        have hgv : g.version = lv := by
          have h1 : (loadWith ensureDecision db fo skew).2.1 = some g := by rw [hL]
          have h2 : (loadWith ensureDecision db fo skew).2.2 = .okN lv := by rw [hL]
          exact loadWith_okN hi h1 h2
        by_cases hlv : lv = v
        · simp only [hlv, if_true]
          exact ⟨hi', hfr, hv, hsc, hh⟩
        · simp only [hlv, if_false]
          cases hr : loadVersion db' fo skew v with
          | mk ho' o' =>
            cases ho' with
            | none => exact ⟨hi', hfr, hv, hsc, fun h hh' => by simp at hh'⟩
            | some g' =>
              refine ⟨hi', hfr, hv, hsc, ?_⟩
              intro h hh'
              simp only [Option.some.injEq] at hh'
              subst hh'
              have hr' : (loadVersion db' fo skew v).1 = some g' := by rw [hr]
              obtain ⟨hfresh, hfirst, hmem, hge, hgv', hgf'⟩ := loadVersion_openOK hi' hr'
              obtain ⟨hgH, hgW⟩ := hh g rfl
              have hgfo : g.fastOpt = g'.fastOpt := by
                obtain ⟨_, _, _, _, hsp⟩ := loadWith_spec hi fo skew
                have h1 : (loadWith ensureDecision db fo skew).2.1 = some g := by rw [hL]
                rw [(hsp g h1).2.1, hgf']
              refine handle_of_fresh hi' (hfresh.ensured _) hfirst (Or.inr hmem) ?_ ?_
              · intro hf he hne
                simp only [Bool.and_eq_true, decide_eq_true_eq] at he
                have hf' : g.fastOpt = true := by rw [hgfo]; exact hf
                have hg0 : g.version ≠ 0 := by
                  rw [hgv]; intro e
                  have : v ≤ 0 := by rw [← e]; exact he.2
                  have hv0 : g'.version = 0 := by rw [hgv']; exact Nat.le_zero.1 this
                  exact hne hv0
                obtain ⟨S, hS, hle⟩ := hgH.covered hf' he.1 hg0
                refine ⟨S, hS, ?_⟩
                show g'.version ≤ S
                rw [hgv']
                exact Nat.le_trans he.2 (by rw [← hgv]; exact hle)
              · intro hs hf he
                simp only [Bool.and_eq_true, decide_eq_true_eq] at he
                have hf' : g.fastOpt = true := by rw [hgfo]; exact hf
                exact (hgW hs).current hf' he.1
      | _ => exact ⟨hi', hfr, hv, hsc, fun h hh' => by simp at hh'⟩

end GnoVerif.C26
