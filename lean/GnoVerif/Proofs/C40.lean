import GnoVerif.Model.C40Inv
/-! Helper lemmas for C40 (invariant preservation of every atomic step). -/
namespace GnoVerif.C40

/-! ### lists -/

theorem ids_unique {l : List MemTx} (h : (l.map (·.id)).Pairwise (· < ·)) :
    ∀ a ∈ l, ∀ b ∈ l, a.id = b.id → a = b := by
  induction l with
  | nil => intro a ha; cases ha
  | cons x xs ih =>
    simp only [List.map_cons, List.pairwise_cons, List.mem_map, forall_exists_index, and_imp,
      forall_apply_eq_imp_iff₂] at h
    intro a ha b hb hab
    rcases List.mem_cons.1 ha with rfl | ha' <;> rcases List.mem_cons.1 hb with rfl | hb'
    · rfl
    · have := h.1 b hb'; omega
    · have := h.1 a ha'; omega
    · exact ih h.2 a ha' b hb' hab

theorem sumBytes_nil : sumBytes [] = 0 := rfl
theorem sumBytes_cons (t : MemTx) (l : List MemTx) :
    sumBytes (t :: l) = (t.tx.length : Int) + sumBytes l := by
  simp [sumBytes]
theorem sumBytes_append (a b : List MemTx) : sumBytes (a ++ b) = sumBytes a + sumBytes b := by
  induction a with
  | nil => simp [sumBytes]
  | cons x xs ih => simp only [List.cons_append, sumBytes_cons, ih]; omega
theorem sumGas_cons (t : MemTx) (l : List MemTx) : sumGas (t :: l) = t.gas + sumGas l := by
  simp [sumGas]
theorem sumGas_append (a b : List MemTx) : sumGas (a ++ b) = sumGas a + sumGas b := by
  induction a with
  | nil => simp [sumGas]
  | cons x xs ih => simp only [List.cons_append, sumGas_cons, ih]; omega

theorem sumBytes_nonneg (l : List MemTx) : 0 ≤ sumBytes l := by
  induction l with
  | nil => simp [sumBytes]
  | cons x xs ih => rw [sumBytes_cons]; omega

theorem sumBytes_filter_le (p : MemTx → Bool) (l : List MemTx) : sumBytes (l.filter p) ≤ sumBytes l := by
  induction l with
  | nil => simp
  | cons x xs ih =>
    by_cases hp : p x = true
    · simp only [List.filter_cons, hp, if_true, sumBytes_cons]; omega
    · simp only [List.filter_cons, hp, sumBytes_cons]; simp; omega

/-- removing the element with identity `t.id` removes exactly `t`'s bytes. -/
theorem sumBytes_remove {l : List MemTx} (h : (l.map (·.id)).Pairwise (· < ·)) {t : MemTx} (ht : t ∈ l) :
    sumBytes (l.filter (fun u => u.id ≠ t.id)) = sumBytes l - (t.tx.length : Int) := by
  induction l with
  | nil => cases ht
  | cons x xs ih =>
    have hu := ids_unique h
    simp only [List.map_cons, List.pairwise_cons] at h
    by_cases hx : x.id = t.id
    · have hxt : x = t := hu x (List.mem_cons_self) t ht hx
      subst hxt
      have hrest : xs.filter (fun u => u.id ≠ x.id) = xs := by
        apply List.filter_eq_self.2
        intro a ha
        have := h.1 a.id (List.mem_map.2 ⟨a, ha, rfl⟩)
        simp; omega
      simp only [List.filter_cons, ne_eq, not_true_eq_false, decide_false, hrest, sumBytes_cons]
      simp only [Bool.false_eq_true, if_false]
      omega
    · have ht' : t ∈ xs := by
        rcases List.mem_cons.1 ht with rfl | h'
        · exact absurd rfl hx
        · exact h'
      have := ih h.2 ht'
      simp only [List.filter_cons, ne_eq, hx, not_false_eq_true, decide_true, if_true, sumBytes_cons, this]
      omega

theorem lookup_mem {m : List (Tx × Nat)} {k : Tx} {i : Nat} (h : m.lookup k = some i) : (k, i) ∈ m := by
  induction m with
  | nil => simp [List.lookup] at h
  | cons p ps ih =>
    obtain ⟨a, b⟩ := p
    by_cases hk : k = a
    · subst hk
      simp [List.lookup] at h
      subst h; exact List.mem_cons_self
    · have : (k == a) = false := by simpa using hk
      simp only [List.lookup, this] at h
      exact List.mem_cons_of_mem _ (ih h)

theorem mem_lookup {m : List (Tx × Nat)} (hn : (m.map (·.1)).Nodup) {k : Tx} {i : Nat} (h : (k, i) ∈ m) :
    m.lookup k = some i := by
  induction m with
  | nil => cases h
  | cons p ps ih =>
    obtain ⟨a, b⟩ := p
    simp only [List.map_cons, List.nodup_cons] at hn
    rcases List.mem_cons.1 h with heq | h'
    · cases heq; simp [List.lookup]
    · have hk : k ≠ a := by
        intro hka; subst hka
        exact hn.1 (List.mem_map.2 ⟨(k, i), h', rfl⟩)
      have : (k == a) = false := by simpa using hk
      simp only [List.lookup, this]
      exact ih hn.2 h'

/-! ### cache -/

theorem cachePush_wf {size : Int} {c : List Tx} (x : Tx)
    (h : c.Nodup ∧ (c.length : Int) ≤ max size 0) :
    (cachePush size c x).1.Nodup ∧ ((cachePush size c x).1.length : Int) ≤ max size 0 := by
  unfold cachePush
  by_cases hs : size ≤ 0
  · simp only [hs, if_true]; exact h
  · simp only [hs, if_false]
    by_cases hx : x ∈ c
    · simp only [hx, if_true]
      refine ⟨?_, ?_⟩
      · rw [List.nodup_append]
        refine ⟨h.1.erase x, by simp, ?_⟩
        intro a ha b hb
        simp only [List.mem_singleton] at hb
        subst hb
        intro hab; subst hab
        exact (List.Nodup.mem_erase_iff h.1).1 ha |>.1 rfl
      · have := List.length_erase_of_mem hx
        simp only [List.length_append, List.length_singleton, this]
        have hpos : 0 < c.length := List.length_pos_of_mem hx
        omega
    · simp only [hx, if_false]
      by_cases hfull : (c.length : Int) ≥ size
      · simp only [hfull, if_true]
        refine ⟨?_, ?_⟩
        · rw [List.nodup_append]
          refine ⟨h.1.sublist (List.drop_sublist 1 c), by simp, ?_⟩
          intro a ha b hb
          simp only [List.mem_singleton] at hb
          subst hb
          intro hab; subst hab
          exact hx (List.mem_of_mem_drop ha)
        · simp only [List.length_append, List.length_drop, List.length_singleton]
          omega
      · simp only [hfull, if_false]
        refine ⟨?_, ?_⟩
        · rw [List.nodup_append]
          refine ⟨h.1, by simp, ?_⟩
          intro a ha b hb
          simp only [List.mem_singleton] at hb
          subst hb
          intro hab; subst hab
          exact hx ha
        · simp only [List.length_append, List.length_singleton]
          omega

theorem cacheRemove_wf {size : Int} {c : List Tx} (x : Tx)
    (h : c.Nodup ∧ (c.length : Int) ≤ max size 0) :
    (cacheRemove size c x).Nodup ∧ ((cacheRemove size c x).length : Int) ≤ max size 0 := by
  unfold cacheRemove
  by_cases hs : size ≤ 0
  · simp only [hs, if_true]; exact h
  · simp only [hs, if_false]
    refine ⟨h.1.erase x, ?_⟩
    have := List.length_erase_le (a := x) (l := c)
    omega

/-- a key that is in a (well-formed, real) cache is refused by `Push`. -/
theorem cachePush_hit {size : Int} {c : List Tx} {x : Tx} (hs : 0 < size) (hx : x ∈ c) :
    (cachePush size c x).2 = false := by
  unfold cachePush
  have : ¬ size ≤ 0 := by omega
  simp [this, hx]


theorem keys_unique {l : List MemTx} (h : (l.map (·.tx)).Nodup) :
    ∀ a ∈ l, ∀ b ∈ l, a.tx = b.tx → a = b := by
  induction l with
  | nil => intro a ha; cases ha
  | cons x xs ih =>
    simp only [List.map_cons, List.nodup_cons, List.mem_map, not_exists, not_and] at h
    intro a ha b hb hab
    rcases List.mem_cons.1 ha with rfl | ha' <;> rcases List.mem_cons.1 hb with rfl | hb'
    · rfl
    · exact absurd hab.symm (h.1 b hb')
    · exact absurd hab (h.1 a ha')
    · exact ih h.2 a ha' b hb' hab

/-! ### removeTx -/

@[simp] theorem removeTx_txs (s : State) (x : Tx) (id : Nat) (rc : Bool) :
    (removeTx s x id rc).txs = s.txs.filter (fun t => t.id ≠ id) := rfl
@[simp] theorem removeTx_map (s : State) (x : Tx) (id : Nat) (rc : Bool) :
    (removeTx s x id rc).txsMap = mapDelete s.txsMap x := rfl
@[simp] theorem removeTx_bytes (s : State) (x : Tx) (id : Nat) (rc : Bool) :
    (removeTx s x id rc).txsBytes = s.txsBytes - (x.length : Int) := rfl
@[simp] theorem removeTx_cfg (s : State) (x : Tx) (id : Nat) (rc : Bool) :
    (removeTx s x id rc).cfg = s.cfg := rfl
@[simp] theorem removeTx_nextId (s : State) (x : Tx) (id : Nat) (rc : Bool) :
    (removeTx s x id rc).nextId = s.nextId := rfl
@[simp] theorem removeTx_height (s : State) (x : Tx) (id : Nat) (rc : Bool) :
    (removeTx s x id rc).height = s.height := rfl
theorem removeTx_cache (s : State) (x : Tx) (id : Nat) (rc : Bool) :
    (removeTx s x id rc).cache = if rc then cacheRemove s.cfg.cacheSize s.cache x else s.cache := rfl

theorem removeTx_inv {s : State} (h : Inv s) {t : MemTx} (ht : t ∈ s.txs) (rc : Bool) :
    Inv (removeTx s t.tx t.id rc) := by
  have huniq := ids_unique h.ids.1
  have kuniq := keys_unique h.nodup
  refine ⟨⟨?_, ?_⟩, ⟨?_, ?_⟩, ?_, ?_, ?_, ⟨?_, ?_⟩, ?_⟩
  · rw [removeTx_txs]
    exact h.ids.1.sublist (List.filter_sublist.map _)
  · intro u hu
    rw [removeTx_txs] at hu
    exact h.ids.2 u (List.mem_filter.1 hu).1
  · intro k i hki
    rw [removeTx_map] at hki
    have hki' := List.mem_filter.1 hki
    obtain ⟨u, hu, hid, htx⟩ := h.map.1 k i hki'.1
    have hk : k ≠ t.tx := by simpa using hki'.2
    refine ⟨u, ?_, hid, htx⟩
    rw [removeTx_txs]
    refine List.mem_filter.2 ⟨hu, ?_⟩
    simp only [ne_eq, decide_eq_true_eq]
    intro heq
    apply hk
    rw [← htx, huniq u hu t ht heq]
  · rw [removeTx_map]
    exact h.map.2.sublist (List.filter_sublist.map _)
  · intro u hu
    rw [removeTx_txs] at hu
    have hu' := List.mem_filter.1 hu
    have hne : u.id ≠ t.id := by simpa using hu'.2
    rw [removeTx_map]
    refine List.mem_filter.2 ⟨h.complete u hu'.1, ?_⟩
    simp only [ne_eq, decide_eq_true_eq]
    intro heq
    exact hne (by rw [kuniq u hu'.1 t ht heq])
  · show ((removeTx s t.tx t.id rc).txs.map (·.tx)).Nodup
    rw [removeTx_txs]
    exact h.nodup.sublist (List.filter_sublist.map _)
  · show (removeTx s t.tx t.id rc).txsBytes = sumBytes (removeTx s t.tx t.id rc).txs
    rw [removeTx_txs, removeTx_bytes, sumBytes_remove h.ids.1 ht, h.bytes]
  · rw [removeTx_txs, removeTx_cfg]
    have := List.length_filter_le (fun u : MemTx => decide (u.id ≠ t.id)) s.txs
    have := h.limits.1
    omega
  · rw [removeTx_bytes, removeTx_cfg]
    have := h.limits.2
    omega
  · show (removeTx s t.tx t.id rc).cache.Nodup ∧ _
    rw [removeTx_cache, removeTx_cfg]
    cases rc
    · exact h.cache
    · exact cacheRemove_wf _ h.cache

theorem removeTx_sublist (s : State) (x : Tx) (id : Nat) (rc : Bool) :
    (removeTx s x id rc).txs.Sublist s.txs := List.filter_sublist

/-- after removing `t`, no element with `t`'s key is left. -/
theorem removeTx_key_gone {s : State} (h : Inv s) {t : MemTx} (ht : t ∈ s.txs) (rc : Bool) :
    t.tx ∉ keys (removeTx s t.tx t.id rc) := by
  intro hmem
  obtain ⟨u, hu, hutx⟩ := List.mem_map.1 hmem
  rw [removeTx_txs] at hu
  have hu' := List.mem_filter.1 hu
  have hne : u.id ≠ t.id := by simpa using hu'.2
  exact hne (by rw [keys_unique h.nodup u hu'.1 t ht hutx])

/-! ### cache-only changes -/

theorem inv_of_cache {s : State} (h : Inv s) (c : List Tx)
    (hc : c.Nodup ∧ (c.length : Int) ≤ max s.cfg.cacheSize 0) : Inv { s with cache := c } :=
  ⟨h.ids, h.map, h.complete, h.nodup, h.bytes, h.limits, hc⟩

/-! ### CheckTx -/

theorem lookup_none_not_key {s : State} (h : Inv s) {x : Tx}
    (hl : (mapLoad s.txsMap x).isSome = false) : x ∉ keys s := by
  intro hmem
  obtain ⟨u, hu, hutx⟩ := List.mem_map.1 hmem
  have := mem_lookup h.map.2 (h.complete u hu)
  rw [hutx] at this
  unfold mapLoad at hl
  rw [this] at hl
  simp at hl

theorem checkTx_cfg (s : State) (x : Tx) (ok : Bool) (g : Int) : (checkTx s x ok g).1.cfg = s.cfg := by
  unfold checkTx
  split
  · rfl
  · split
    · rfl
    · simp only
      split
      · rfl
      · split
        · split <;> rfl
        · rfl

theorem checkTx_inv {s : State} (h : Inv s) (x : Tx) (ok : Bool) (g : Int) : Inv (checkTx s x ok g).1 := by
  unfold checkTx
  split
  · exact h
  · rename_i hfull
    split
    · exact h
    · simp only
      have hpw := cachePush_wf (size := s.cfg.cacheSize) x h.cache
      split
      · exact inv_of_cache h _ hpw
      · split
        · split
          · exact inv_of_cache h _ hpw
          · rename_i hnone
            have hnone' : (mapLoad s.txsMap x).isSome = false := by simpa using hnone
            have hxk := lookup_none_not_key h hnone'
            have hlen : ¬ ((s.txs.length : Int) ≥ s.cfg.size) := fun hh => hfull (Or.inl hh)
            have hby : ¬ ((x.length : Int) + s.txsBytes > s.cfg.maxPending) := fun hh => hfull (Or.inr hh)
            refine ⟨⟨?_, ?_⟩, ⟨?_, ?_⟩, ?_, ?_, ?_, ⟨?_, ?_⟩, hpw⟩
            · show ((s.txs ++ [_]).map (fun t : MemTx => t.id)).Pairwise (· < ·)
              rw [List.map_append, List.pairwise_append]
              refine ⟨h.ids.1, by simp, ?_⟩
              intro a ha b hb
              obtain ⟨u, hu, rfl⟩ := List.mem_map.1 ha
              simp only [List.map_cons, List.map_nil, List.mem_singleton] at hb
              subst hb
              exact h.ids.2 u hu
            · intro u hu
              show u.id < s.nextId + 1
              rcases List.mem_append.1 hu with hu' | hu'
              · have := h.ids.2 u hu'; omega
              · simp only [List.mem_singleton] at hu'
                subst hu'; simp
            · intro k i hki
              show ∃ t ∈ s.txs ++ [_], t.id = i ∧ t.tx = k
              rcases List.mem_cons.1 hki with heq | hold
              · cases heq
                exact ⟨_, List.mem_append_right _ (List.mem_singleton.2 rfl), rfl, rfl⟩
              · obtain ⟨u, hu, hid, htx⟩ := h.map.1 k i (List.mem_filter.1 hold).1
                exact ⟨u, List.mem_append_left _ hu, hid, htx⟩
            · show ((mapStore s.txsMap x s.nextId).map (·.1)).Nodup
              unfold mapStore mapDelete
              rw [List.map_cons, List.nodup_cons]
              refine ⟨?_, h.map.2.sublist (List.filter_sublist.map _)⟩
              intro hmem
              obtain ⟨p, hp, hp1⟩ := List.mem_map.1 hmem
              have := (List.mem_filter.1 hp).2
              simp at this
              exact this hp1
            · intro u hu
              show (u.tx, u.id) ∈ mapStore s.txsMap x s.nextId
              rcases List.mem_append.1 hu with hu' | hu'
              · refine List.mem_cons_of_mem _ (List.mem_filter.2 ⟨h.complete u hu', ?_⟩)
                simp only [ne_eq, decide_eq_true_eq]
                intro heq
                exact hxk (heq ▸ List.mem_map.2 ⟨u, hu', rfl⟩)
              · simp only [List.mem_singleton] at hu'
                subst hu'
                exact List.mem_cons_self
            · show ((s.txs ++ [_]).map (fun t : MemTx => t.tx)).Nodup
              rw [List.map_append, List.nodup_append]
              refine ⟨h.nodup, by simp, ?_⟩
              intro a ha b hb
              simp only [List.map_cons, List.map_nil, List.mem_singleton] at hb
              subst hb
              intro hab; subst hab
              exact hxk ha
            · show s.txsBytes + (x.length : Int) = sumBytes (s.txs ++ [_])
              rw [sumBytes_append, sumBytes_cons, sumBytes_nil, h.bytes]
              simp
            · show ((s.txs ++ [_]).length : Int) ≤ max s.cfg.size 0
              simp only [List.length_append, List.length_singleton]
              omega
            · show s.txsBytes + (x.length : Int) ≤ max s.cfg.maxPending 0
              omega
        · exact inv_of_cache h _ (cacheRemove_wf _ hpw)

theorem checkTx_txs (s : State) (x : Tx) (ok : Bool) (g : Int) :
    (checkTx s x ok g).1.txs = s.txs ++ arrival s (.check x ok g) := by
  by_cases h1 : (s.txs.length : Int) ≥ s.cfg.size ∨ (x.length : Int) + s.txsBytes > s.cfg.maxPending
  · simp [arrival, checkTx, h1]
  · by_cases h2 : (x.length : Int) > s.cfg.maxTxBytes
    · simp [arrival, checkTx, h1, h2]
    · by_cases h3 : (cachePush s.cfg.cacheSize s.cache x).2 = false
      · simp [arrival, checkTx, h1, h2, h3]
      · by_cases h4 : ok = true
        · by_cases h5 : (mapLoad s.txsMap x).isSome = true
          · simp [arrival, checkTx, h1, h2, h3, h4, h5]
          · simp [arrival, checkTx, h1, h2, h3, h4, h5]
        · simp [arrival, checkTx, h1, h2, h3, h4]

/-! ### Update: the committed loop -/

/-- one iteration of the committed loop, cache part. -/
def commitCache (s : State) (x : Tx) (ok : Bool) : State :=
  if ok then { s with cache := (cachePush s.cfg.cacheSize s.cache x).1 }
  else { s with cache := cacheRemove s.cfg.cacheSize s.cache x }

/-- one iteration of the committed loop. -/
def commitOne (s : State) (x : Tx) (ok : Bool) : State :=
  match mapLoad (commitCache s x ok).txsMap x with
  | some id => removeTx (commitCache s x ok) x id false
  | none => commitCache s x ok

theorem updateCommitted_cons (s : State) (x : Tx) (ok : Bool) (rest : List (Tx × Bool)) :
    updateCommitted s ((x, ok) :: rest) = updateCommitted (commitOne s x ok) rest := by
  rw [updateCommitted]; rfl

theorem commitCache_inv {s : State} (h : Inv s) (x : Tx) (ok : Bool) : Inv (commitCache s x ok) := by
  unfold commitCache
  cases ok
  · exact inv_of_cache h _ (cacheRemove_wf _ h.cache)
  · exact inv_of_cache h _ (cachePush_wf _ h.cache)

theorem commitCache_txs (s : State) (x : Tx) (ok : Bool) : (commitCache s x ok).txs = s.txs := by
  unfold commitCache; cases ok <;> rfl
theorem commitCache_cfg (s : State) (x : Tx) (ok : Bool) : (commitCache s x ok).cfg = s.cfg := by
  unfold commitCache; cases ok <;> rfl
theorem commitCache_height (s : State) (x : Tx) (ok : Bool) : (commitCache s x ok).height = s.height := by
  unfold commitCache; cases ok <;> rfl

theorem commitOne_inv {s : State} (h : Inv s) (x : Tx) (ok : Bool) : Inv (commitOne s x ok) := by
  have hc := commitCache_inv h x ok
  unfold commitOne
  split
  · rename_i id hl
    obtain ⟨t, ht, hid, htx⟩ := hc.map.1 x id (lookup_mem hl)
    subst hid; subst htx
    exact removeTx_inv hc ht false
  · exact hc

theorem commitOne_sublist (s : State) (x : Tx) (ok : Bool) : (commitOne s x ok).txs.Sublist s.txs := by
  unfold commitOne
  split
  · exact (removeTx_sublist _ _ _ _).trans (by rw [commitCache_txs]; exact List.Sublist.refl _)
  · rw [commitCache_txs]; exact List.Sublist.refl _

theorem commitOne_cfg (s : State) (x : Tx) (ok : Bool) : (commitOne s x ok).cfg = s.cfg := by
  unfold commitOne
  split
  · rw [removeTx_cfg, commitCache_cfg]
  · rw [commitCache_cfg]

theorem commitOne_height (s : State) (x : Tx) (ok : Bool) : (commitOne s x ok).height = s.height := by
  unfold commitOne
  split
  · rw [removeTx_height, commitCache_height]
  · rw [commitCache_height]

/-- the committed tx is gone after its iteration. -/
theorem commitOne_gone {s : State} (h : Inv s) (x : Tx) (ok : Bool) : x ∉ keys (commitOne s x ok) := by
  have hc := commitCache_inv h x ok
  unfold commitOne
  split
  · rename_i id hl
    obtain ⟨t, ht, hid, htx⟩ := hc.map.1 x id (lookup_mem hl)
    subst hid; subst htx
    exact removeTx_key_gone hc ht false
  · rename_i hl
    apply lookup_none_not_key hc
    unfold mapLoad at hl ⊢
    rw [hl]; rfl

theorem updateCommitted_inv {s : State} (h : Inv s) (l : List (Tx × Bool)) : Inv (updateCommitted s l) := by
  induction l generalizing s with
  | nil => exact h
  | cons p rest ih =>
    obtain ⟨x, ok⟩ := p
    rw [updateCommitted_cons]
    exact ih (commitOne_inv h x ok)

theorem updateCommitted_sublist (s : State) (l : List (Tx × Bool)) : (updateCommitted s l).txs.Sublist s.txs := by
  induction l generalizing s with
  | nil => exact List.Sublist.refl _
  | cons p rest ih =>
    obtain ⟨x, ok⟩ := p
    rw [updateCommitted_cons]
    exact (ih _).trans (commitOne_sublist s x ok)

theorem updateCommitted_cfg (s : State) (l : List (Tx × Bool)) : (updateCommitted s l).cfg = s.cfg := by
  induction l generalizing s with
  | nil => rfl
  | cons p rest ih =>
    obtain ⟨x, ok⟩ := p
    rw [updateCommitted_cons, ih, commitOne_cfg]

theorem updateCommitted_height (s : State) (l : List (Tx × Bool)) : (updateCommitted s l).height = s.height := by
  induction l generalizing s with
  | nil => rfl
  | cons p rest ih =>
    obtain ⟨x, ok⟩ := p
    rw [updateCommitted_cons, ih, commitOne_height]

theorem keys_sublist {a b : State} (h : a.txs.Sublist b.txs) : (keys a).Sublist (keys b) := h.map _

theorem updateCommitted_gone {s : State} (h : Inv s) (l : List (Tx × Bool)) :
    ∀ p ∈ l, p.1 ∉ keys (updateCommitted s l) := by
  induction l generalizing s with
  | nil => intro p hp; cases hp
  | cons q rest ih =>
    obtain ⟨x, ok⟩ := q
    intro p hp
    rw [updateCommitted_cons]
    rcases List.mem_cons.1 hp with rfl | hp'
    · intro hmem
      exact commitOne_gone h x ok ((keys_sublist (updateCommitted_sublist _ rest)).subset hmem)
    · exact ih (commitOne_inv h x ok) p hp'

/-! ### Update: recheck -/

theorem recheck_cons (s : State) (t : MemTx) (rest : List MemTx) (answers : List Bool) :
    recheck s (t :: rest) answers =
      recheck (if answers.headD true then s else removeTx s t.tx t.id true) rest answers.tail := rfl

theorem recheck_inv {s : State} (h : Inv s) (l : List MemTx) (answers : List Bool)
    (hl : ∀ t ∈ l, t ∈ s.txs) (hp : (l.map (·.id)).Pairwise (· < ·)) : Inv (recheck s l answers) := by
  induction l generalizing s answers with
  | nil => exact h
  | cons t rest ih =>
    simp only [List.map_cons, List.pairwise_cons] at hp
    rw [recheck_cons]
    cases answers.headD true
    · simp only [Bool.false_eq_true, if_false]
      refine ih (removeTx_inv h (hl t List.mem_cons_self) true) _ ?_ hp.2
      intro u hu
      rw [removeTx_txs]
      refine List.mem_filter.2 ⟨hl u (List.mem_cons_of_mem _ hu), ?_⟩
      have := hp.1 u.id (List.mem_map.2 ⟨u, hu, rfl⟩)
      simp only [ne_eq, decide_eq_true_eq]
      omega
    · simp only [if_true]
      exact ih h _ (fun u hu => hl u (List.mem_cons_of_mem _ hu)) hp.2

theorem recheck_sublist (s : State) (l : List MemTx) (answers : List Bool) :
    (recheck s l answers).txs.Sublist s.txs := by
  induction l generalizing s answers with
  | nil => exact List.Sublist.refl _
  | cons t rest ih =>
    rw [recheck_cons]
    cases answers.headD true
    · simp only [Bool.false_eq_true, if_false]; exact (ih _ _).trans (removeTx_sublist _ _ _ _)
    · simp only [if_true]; exact ih _ _

theorem recheck_cfg (s : State) (l : List MemTx) (answers : List Bool) : (recheck s l answers).cfg = s.cfg := by
  induction l generalizing s answers with
  | nil => rfl
  | cons t rest ih =>
    rw [recheck_cons]
    cases answers.headD true
    · simp only [Bool.false_eq_true, if_false]; rw [ih, removeTx_cfg]
    · simp only [if_true]; exact ih _ _

theorem recheck_height (s : State) (l : List MemTx) (answers : List Bool) : (recheck s l answers).height = s.height := by
  induction l generalizing s answers with
  | nil => rfl
  | cons t rest ih =>
    rw [recheck_cons]
    cases answers.headD true
    · simp only [Bool.false_eq_true, if_false]; rw [ih, removeTx_height]
    · simp only [if_true]; exact ih _ _

/-! ### Update, Flush, step, run -/

theorem inv_of_height {s : State} (h : Inv s) (ht : Int) : Inv { s with height := ht } :=
  ⟨h.ids, h.map, h.complete, h.nodup, h.bytes, h.limits, h.cache⟩

theorem update_inv {s : State} (h : Inv s) (ht : Int) (c : List (Tx × Bool)) (a : List Bool) :
    Inv (update s ht c a) := by
  have h1 := updateCommitted_inv (inv_of_height h ht) c
  unfold update
  simp only
  split
  · exact recheck_inv h1 _ _ (fun _ hu => hu) h1.ids.1
  · exact h1

theorem update_sublist (s : State) (ht : Int) (c : List (Tx × Bool)) (a : List Bool) :
    (update s ht c a).txs.Sublist s.txs := by
  have h1 : (updateCommitted { s with height := ht } c).txs.Sublist s.txs := updateCommitted_sublist _ c
  unfold update
  simp only
  split
  · exact (recheck_sublist _ _ _).trans h1
  · exact h1

theorem update_cfg (s : State) (ht : Int) (c : List (Tx × Bool)) (a : List Bool) :
    (update s ht c a).cfg = s.cfg := by
  unfold update
  simp only
  split
  · rw [recheck_cfg, updateCommitted_cfg]
  · rw [updateCommitted_cfg]

theorem update_height (s : State) (ht : Int) (c : List (Tx × Bool)) (a : List Bool) :
    (update s ht c a).height = ht := by
  unfold update
  simp only
  split
  · rw [recheck_height, updateCommitted_height]
  · rw [updateCommitted_height]

theorem update_gone {s : State} (h : Inv s) (ht : Int) (c : List (Tx × Bool)) (a : List Bool) :
    ∀ p ∈ c, p.1 ∉ keys (update s ht c a) := by
  intro p hp hmem
  have h1 := updateCommitted_gone (inv_of_height h ht) c p hp
  apply h1
  unfold update at hmem
  simp only at hmem
  split at hmem
  · exact (keys_sublist (recheck_sublist _ _ _)).subset hmem
  · exact hmem

theorem flush_inv {s : State} (_h : Inv s) : Inv (flush s) := by
  refine ⟨⟨?_, ?_⟩, ⟨?_, ?_⟩, ?_, ?_, ?_, ⟨?_, ?_⟩, ⟨?_, ?_⟩⟩
  · simp [flush]
  · intro u hu; simp [flush] at hu
  · intro k i hki; simp [flush] at hki
  · simp [flush]
  · intro u hu; simp [flush] at hu
  · simp [NoDupKeys, keys, flush]
  · simp [BytesExact, flush, sumBytes]
  · simp only [flush, List.length_nil]; omega
  · simp only [flush]; omega
  · simp [flush]
  · simp only [flush, List.length_nil]; omega

theorem init_inv (c : Config) : Inv (init c) := by
  refine ⟨⟨?_, ?_⟩, ⟨?_, ?_⟩, ?_, ?_, ?_, ⟨?_, ?_⟩, ⟨?_, ?_⟩⟩
  · simp [init]
  · intro u hu; simp [init] at hu
  · intro k i hki; simp [init] at hki
  · simp [init]
  · intro u hu; simp [init] at hu
  · simp [NoDupKeys, keys, init]
  · simp [BytesExact, init, sumBytes]
  · simp only [init, List.length_nil]; omega
  · simp only [init]; omega
  · simp [init]
  · simp only [init, List.length_nil]; omega

theorem step_inv {s : State} (h : Inv s) (op : Op) : Inv (step s op) := by
  cases op with
  | check x ok g => exact checkTx_inv h x ok g
  | update ht c a => exact update_inv h ht c a
  | reapBG _ _ => exact h
  | reapN _ => exact h
  | flush => exact flush_inv h

theorem step_cfg (s : State) (op : Op) : (step s op).cfg = s.cfg := by
  cases op with
  | check x ok g => exact checkTx_cfg s x ok g
  | update ht c a => exact update_cfg s ht c a
  | reapBG _ _ => rfl
  | reapN _ => rfl
  | flush => rfl

theorem run_inv {s : State} (h : Inv s) (ops : List Op) : Inv (run s ops) := by
  induction ops generalizing s with
  | nil => exact h
  | cons op ops ih => exact ih (step_inv h op)

theorem run_cfg (s : State) (ops : List Op) : (run s ops).cfg = s.cfg := by
  induction ops generalizing s with
  | nil => rfl
  | cons op ops ih => simp only [run]; rw [ih, step_cfg]

theorem run_append (s : State) (a b : List Op) : run s (a ++ b) = run (run s a) b := by
  induction a generalizing s with
  | nil => rfl
  | cons op ops ih => simp only [List.cons_append, run]; exact ih _

/-! ### arrival order -/

theorem step_sublist (s : State) (op : Op) : (step s op).txs.Sublist (s.txs ++ arrival s op) := by
  cases op with
  | check x ok g => show (checkTx s x ok g).1.txs.Sublist _; rw [checkTx_txs]; exact List.Sublist.refl _
  | update ht c a => simp only [arrival, List.append_nil]; exact update_sublist s ht c a
  | reapBG _ _ => simp only [arrival, List.append_nil, step]; exact List.Sublist.refl _
  | reapN _ => simp only [arrival, List.append_nil, step]; exact List.Sublist.refl _
  | flush => simp only [arrival, List.append_nil, step, flush]; exact List.nil_sublist _

theorem run_sublist (s : State) (ops : List Op) : (run s ops).txs.Sublist (s.txs ++ arrivals s ops) := by
  induction ops generalizing s with
  | nil => simp only [run, arrivals, List.append_nil]; exact List.Sublist.refl _
  | cons op ops ih =>
    simp only [run, arrivals]
    refine (ih (step s op)).trans ?_
    rw [← List.append_assoc]
    exact List.Sublist.append (step_sublist s op) (List.Sublist.refl _)

theorem arrival_gas {s : State} {op : Op} (hg : GasNonneg op) : ∀ t ∈ arrival s op, 0 ≤ t.gas := by
  cases op with
  | check x ok g =>
    intro t ht
    by_cases hc : (checkTx s x ok g).2 = .added
    · simp only [arrival, if_pos hc, List.mem_singleton] at ht
      rw [ht]; exact hg
    · simp only [arrival, if_neg hc] at ht; cases ht
  | update ht c a => intro t ht; cases ht
  | reapBG _ _ => intro t ht; cases ht
  | reapN _ => intro t ht; cases ht
  | flush => intro t ht; cases ht

theorem arrivals_gas (s : State) (ops : List Op) (hg : ∀ op ∈ ops, GasNonneg op) :
    ∀ t ∈ arrivals s ops, 0 ≤ t.gas := by
  induction ops generalizing s with
  | nil => intro t ht; cases ht
  | cons op ops ih =>
    intro t ht
    simp only [arrivals] at ht
    rcases List.mem_append.1 ht with h1 | h1
    · exact arrival_gas (hg op List.mem_cons_self) t h1
    · exact ih _ (fun o ho => hg o (List.mem_cons_of_mem _ ho)) t h1

end GnoVerif.C40
