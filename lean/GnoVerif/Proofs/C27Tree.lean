import GnoVerif.Proofs.C27DB
/-!
C27 helper lemmas, part 2: one tree store — what `flush`, `saveOps`,
`pruneDels` touch, and `Tree.commit` in collected mode.
-/
namespace GnoVerif.C27

/-! ## emit / look in collected mode -/

theorem App.emit_collected {a : App} (h : a.cfg.collected = true) (ops : List WOp) :
    a.emit ops = { a with coll := a.coll ++ ops } := by
  simp [App.emit, h]

theorem App.look_eq (a : App) (k : PKey) :
    a.look k = match lastOp a.coll k with | some x => x | none => a.db.get k := rfl

/-! ## Set / Remove / flush keep the tree's identity and stage only fast-index keys -/

def StagedOk (t : Tree) : Prop := ∀ op ∈ t.staged, ∃ b, op.key = .fast t.name b

theorem Tree.set_name (t : Tree) (k v : Bytes) : (t.set k v).name = t.name := rfl
theorem Tree.set_fast (t : Tree) (k v : Bytes) : (t.set k v).fast = t.fast := rfl
theorem Tree.set_version (t : Tree) (k v : Bytes) : (t.set k v).version = t.version := rfl
theorem Tree.set_initialVersion (t : Tree) (k v : Bytes) : (t.set k v).initialVersion = t.initialVersion := rfl
theorem Tree.set_hist (t : Tree) (k v : Bytes) : (t.set k v).hist = t.hist := rfl

theorem Tree.set_staged (t : Tree) (k v : Bytes) (h : StagedOk t) : StagedOk (t.set k v) := by
  intro op hop
  simp only [Tree.set, List.mem_append] at hop
  rcases hop with hop | hop
  · exact h op hop
  · by_cases hf : t.fast = true
    · simp only [hf, ↓reduceIte, List.mem_singleton] at hop
      subst hop; exact ⟨k, rfl⟩
    · simp [hf] at hop

theorem Tree.remove_name (t : Tree) (k : Bytes) : (t.remove k).name = t.name := by
  unfold Tree.remove; split <;> rfl
theorem Tree.remove_fast (t : Tree) (k : Bytes) : (t.remove k).fast = t.fast := by
  unfold Tree.remove; split <;> rfl
theorem Tree.remove_version (t : Tree) (k : Bytes) : (t.remove k).version = t.version := by
  unfold Tree.remove; split <;> rfl
theorem Tree.remove_initialVersion (t : Tree) (k : Bytes) :
    (t.remove k).initialVersion = t.initialVersion := by
  unfold Tree.remove; split <;> rfl
theorem Tree.remove_hist (t : Tree) (k : Bytes) : (t.remove k).hist = t.hist := by
  unfold Tree.remove; split <;> rfl

theorem Tree.remove_staged (t : Tree) (k : Bytes) (h : StagedOk t) : StagedOk (t.remove k) := by
  unfold Tree.remove
  split
  · intro op hop
    simp only [List.mem_append] at hop
    rcases hop with hop | hop
    · exact h op hop
    · by_cases hf : t.fast = true
      · simp only [hf, ↓reduceIte, List.mem_singleton] at hop
        subst hop; exact ⟨k, rfl⟩
      · simp [hf] at hop
  · exact h

/-- everything `flush` preserves, in one statement (induction over the dirty keys). -/
theorem Tree.flush_keeps (t : Tree) (d : KVO) (h : StagedOk t) :
    (t.flush d).name = t.name ∧ (t.flush d).fast = t.fast ∧ (t.flush d).version = t.version ∧
    (t.flush d).initialVersion = t.initialVersion ∧ (t.flush d).hist = t.hist ∧ StagedOk (t.flush d) := by
  induction d generalizing t with
  | nil => exact ⟨rfl, rfl, rfl, rfl, rfl, h⟩
  | cons e r ih =>
    simp only [Tree.flush, List.foldl_cons]
    cases hv : e.2 with
    | some v =>
      have := ih (t.set e.1 v) (Tree.set_staged t e.1 v h)
      simpa [Tree.flush, Tree.set_name, Tree.set_fast, Tree.set_version, Tree.set_initialVersion,
        Tree.set_hist] using this
    | none =>
      have := ih (t.remove e.1) (Tree.remove_staged t e.1 h)
      simpa [Tree.flush, Tree.remove_name, Tree.remove_fast, Tree.remove_version,
        Tree.remove_initialVersion, Tree.remove_hist] using this

/-! ## the key families of the op lists -/

theorem flushBase_keys (d : KVO) : ∀ op ∈ flushBase d, ∃ b, op.key = .flat b := by
  intro op hop
  simp only [flushBase, List.mem_map] at hop
  obtain ⟨e, _, rfl⟩ := hop
  cases e.2 <;> exact ⟨e.1, rfl⟩

theorem pruneDels_shape (a : App) (s : SName) (to : Nat) :
    ∀ op ∈ pruneDels a s to, ∃ v, op = .del (.root s v) ∧ v ≤ to := by
  intro op hop
  simp only [pruneDels, List.mem_map, List.mem_filter] at hop
  obtain ⟨v, ⟨_, hv⟩, rfl⟩ := hop
  simp only [decide_eq_true_eq] at hv
  exact ⟨v, rfl, hv.1⟩

/-- a list of root deletes of store `s`, all below `w`. -/
def DelsBelow (s : SName) (w : Nat) (ds : List WOp) : Prop :=
  ∀ op ∈ ds, ∃ v, op = .del (.root s v) ∧ v < w

theorem DelsBelow.lastOp_root {s : SName} {w : Nat} {ds : List WOp} (h : DelsBelow s w ds)
    (s' : SName) (v : Nat) :
    lastOp ds (.root s' v) = none ∨ (lastOp ds (.root s' v) = some none ∧ s' = s ∧ v < w) := by
  induction ds with
  | nil => left; rfl
  | cons op r ih =>
    have hr := ih (fun o ho => h o (List.mem_cons_of_mem _ ho))
    obtain ⟨v0, rfl, hv0⟩ := h op List.mem_cons_self
    simp only [lastOp]
    rcases hr with hr | ⟨hr, hs, hv⟩
    · simp only [hr]
      by_cases hk : PKey.root s v0 = PKey.root s' v
      · right
        injection hk with h1 h2
        subst h1; subst h2
        simp [hv0]
      · left; simp [hk]
    · right
      subst hs
      simp [hr, hv]

theorem DelsBelow.lastOp_other {s : SName} {w : Nat} {ds : List WOp} (h : DelsBelow s w ds)
    {k : PKey} (hk : ∀ s' v, k ≠ .root s' v) : lastOp ds k = none := by
  apply lastOp_none_of_keys
  intro op hop
  obtain ⟨v, rfl, _⟩ := h op hop
  exact fun e => hk s v e.symm

theorem Tree.saved_name (t : Tree) : t.saved.name = t.name := rfl
theorem Tree.saved_fast (t : Tree) : t.saved.fast = t.fast := rfl
theorem Tree.saved_version (t : Tree) : t.saved.version = t.workingVersion := rfl
theorem Tree.saved_initialVersion (t : Tree) : t.saved.initialVersion = t.initialVersion := rfl

theorem Tree.workingVersion_pos (t : Tree) : 0 < t.workingVersion := by
  unfold Tree.workingVersion; split <;> omega

theorem Tree.pruneTo_lt {cfg : Cfg} {t : Tree} {to : Nat} (h : t.pruneTo cfg = some to) :
    to < t.version := by
  unfold Tree.pruneTo at h
  simp only at h
  split at h
  · split at h
    · injection h with h; omega
    · cases h
  · cases h

/-! ## lastOp on `saveOps` -/

theorem lastOp_staged_none {t : Tree} (h : StagedOk t) {k : PKey} (hk : ∀ b, k ≠ .fast t.name b) :
    lastOp t.staged k = none := by
  apply lastOp_none_of_keys
  intro op hop
  obtain ⟨b, hb⟩ := h op hop
  rw [hb]; exact fun e => hk b e.symm

theorem Tree.lastOp_saveOps_root {t : Tree} (h : StagedOk t) (s : SName) (v : Nat) :
    lastOp t.saveOps (.root s v) =
      if s = t.name ∧ v = t.workingVersion then some (some (.root ⟨t.nextHist, t.kv⟩)) else none := by
  have hst : lastOp t.staged (.root s v) = none := lastOp_staged_none h (fun b => by simp)
  by_cases hf : t.fast = true
  · simp only [Tree.saveOps, hf, ↓reduceIte, lastOp_append, lastOp_singleton_set, hst]
    have : ¬ (PKey.stamp t.name = PKey.root s v) := by simp
    simp only [this, ↓reduceIte]
    by_cases hk : s = t.name ∧ v = t.workingVersion
    · obtain ⟨rfl, rfl⟩ := hk; simp
    · have : ¬ (PKey.root t.name t.workingVersion = PKey.root s v) := by
        intro e; injection e with e1 e2; exact hk ⟨e1.symm, e2.symm⟩
      simp [this, hk]
  · simp only [Tree.saveOps, hf, Bool.false_eq_true, ↓reduceIte, List.append_nil, lastOp_append,
      lastOp_singleton_set, hst]
    by_cases hk : s = t.name ∧ v = t.workingVersion
    · obtain ⟨rfl, rfl⟩ := hk; simp
    · have : ¬ (PKey.root t.name t.workingVersion = PKey.root s v) := by
        intro e; injection e with e1 e2; exact hk ⟨e1.symm, e2.symm⟩
      simp [this, hk]

theorem Tree.lastOp_saveOps_stamp {t : Tree} (h : StagedOk t) (s : SName) :
    lastOp t.saveOps (.stamp s) =
      if t.fast = true ∧ s = t.name then some (some (.stampV t.workingVersion)) else none := by
  have hst : lastOp t.staged (.stamp s) = none := lastOp_staged_none h (fun b => by simp)
  by_cases hf : t.fast = true
  · simp only [Tree.saveOps, hf, ↓reduceIte, lastOp_append, lastOp_singleton_set, hst, true_and]
    by_cases hk : s = t.name
    · subst hk; simp
    · have : ¬ (PKey.stamp t.name = PKey.stamp s) := by
        intro e; injection e with e1; exact hk e1.symm
      simp [this, hk]
  · simp [Tree.saveOps, hf, lastOp_append, lastOp_singleton_set, hst]

theorem Tree.lastOp_saveOps_other {t : Tree} (h : StagedOk t) {k : PKey}
    (h1 : ∀ s v, k ≠ .root s v) (h2 : ∀ s, k ≠ .stamp s) (h3 : ∀ s b, k ≠ .fast s b) :
    lastOp t.saveOps k = none := by
  apply lastOp_none_of_keys
  intro op hop
  simp only [Tree.saveOps, List.mem_append, List.mem_singleton] at hop
  rcases hop with (hop | hop) | hop
  · obtain ⟨b, hb⟩ := h op hop
    rw [hb]; exact fun e => h3 _ b e.symm
  · subst hop; exact fun e => h1 _ _ e.symm
  · by_cases hf : t.fast = true
    · simp only [hf, ↓reduceIte, List.mem_singleton] at hop
      subst hop; exact fun e => h2 _ e.symm
    · simp [hf] at hop

/-! ## Tree.commit in collected mode -/

theorem Tree.prune_collected (a : App) (t : Tree) (to : Nat) (hc : a.cfg.collected = true) :
    Tree.prune a t to = { a with coll := a.coll ++ pruneDels a t.name to } := by
  unfold Tree.prune
  by_cases h : pruneDels a t.name to = []
  · simp [h]
  · simp [h, App.emit_collected hc]

/-- the root deletes a store commit stages after its save (a function of the
database handle's state and the tree). -/
def Tree.commitDels (a : App) (t : Tree) : List WOp :=
  match t.saved.pruneTo a.cfg with
  | some to => pruneDels { a with coll := a.coll ++ t.saveOps } t.name to
  | none => []

theorem Tree.commitDels_below (a : App) (t : Tree) :
    DelsBelow t.name t.workingVersion (Tree.commitDels a t) := by
  unfold Tree.commitDels
  cases hp : t.saved.pruneTo a.cfg with
  | none => intro op hop; cases hop
  | some to =>
    have hlt : to < t.workingVersion := by
      have := Tree.pruneTo_lt hp
      simpa [Tree.saved_version] using this
    intro op hop
    obtain ⟨v, rfl, hv⟩ := pruneDels_shape _ t.name to op hop
    exact ⟨v, rfl, by omega⟩

/-- In collected mode, when the version to be saved does not exist yet, a
store commit only appends to the collector: the save ops, then root deletes of
older versions. -/
theorem Tree.commit_collected (a : App) (t : Tree) (hc : a.cfg.collected = true)
    (hnone : a.look (.root t.name t.workingVersion) = none) :
    ∃ ds, ds = Tree.commitDels a t ∧ DelsBelow t.name t.workingVersion ds ∧
      Tree.commit a t = .ok ({ a with coll := a.coll ++ (t.saveOps ++ ds) }, t.saved) := by
  refine ⟨_, rfl, Tree.commitDels_below a t, ?_⟩
  unfold Tree.commit Tree.save Tree.commitDels
  simp only [hnone, App.emit_collected hc]
  cases hp : t.saved.pruneTo a.cfg with
  | none => simp
  | some to =>
    have hc1 : ({ a with coll := a.coll ++ t.saveOps } : App).cfg.collected = true := hc
    simp only [Tree.prune_collected _ _ _ hc1, Tree.saved_name, List.append_assoc]

end GnoVerif.C27
