import GnoVerif.Model.C45
/-!
C45 helper lemmas, part 3: `ConvertBits` — regrouping 8→5 with padding and
back 5→8 without padding is the identity on byte strings.
-/
namespace GnoVerif.C45

theorem length_bitsOf (w x : Nat) : (bitsOf w x).length = w := by
  induction w with
  | zero => rfl
  | succ w ih => simp [bitsOf, ih]

theorem foldl_bits (bs : List Bool) (a : Nat) :
    bs.foldl (fun a b => 2 * a + b.toNat) a = a * 2 ^ bs.length + bs.foldl (fun a b => 2 * a + b.toNat) 0 := by
  induction bs generalizing a with
  | nil => simp
  | cons b bs ih =>
    simp only [List.foldl_cons, List.length_cons]
    rw [ih (2 * a + b.toNat), ih (2 * 0 + b.toNat), Nat.pow_succ]
    simp only [Nat.mul_zero, Nat.zero_add, Nat.add_mul]
    have : 2 * a * 2 ^ bs.length = a * (2 ^ bs.length * 2) := by
      rw [Nat.mul_comm 2 a, Nat.mul_assoc, Nat.mul_comm 2]
    omega

theorem ofBits_cons (b : Bool) (bs : List Bool) : ofBits (b :: bs) = b.toNat * 2 ^ bs.length + ofBits bs := by
  unfold ofBits
  rw [List.foldl_cons, foldl_bits]
  simp

theorem ofBits_nil : ofBits [] = 0 := rfl

theorem ofBits_lt (bs : List Bool) : ofBits bs < 2 ^ bs.length := by
  induction bs with
  | nil => simp [ofBits_nil]
  | cons b bs ih =>
    rw [ofBits_cons, List.length_cons, Nat.pow_succ]
    have : b.toNat ≤ 1 := by cases b <;> simp
    have : b.toNat * 2 ^ bs.length ≤ 1 * 2 ^ bs.length := Nat.mul_le_mul_right _ this
    omega

theorem ofBits_bitsOf (w x : Nat) : ofBits (bitsOf w x) = x % 2 ^ w := by
  induction w with
  | zero => simp [bitsOf, ofBits_nil, Nat.mod_one]
  | succ w ih =>
    rw [bitsOf, ofBits_cons, length_bitsOf, ih, Nat.mod_pow_succ, Nat.toNat_testBit]
    rw [Nat.mul_comm]; omega

theorem bitsOf_mod (w m x : Nat) (h : w ≤ m) : bitsOf w (x % 2 ^ m) = bitsOf w x := by
  induction w with
  | zero => rfl
  | succ w ih =>
    simp only [bitsOf]
    rw [ih (by omega), Nat.testBit_mod_two_pow]
    have : w < m := by omega
    simp [this]

theorem bitsOf_ofBits (bs : List Bool) (w : Nat) (h : bs.length = w) : bitsOf w (ofBits bs) = bs := by
  induction bs generalizing w with
  | nil => subst h; rfl
  | cons b bs ih =>
    subst h
    simp only [List.length_cons, bitsOf]
    have hlt := ofBits_lt bs
    rw [ofBits_cons]
    congr 1
    · rw [Nat.mul_comm, Nat.testBit_two_pow_mul_add _ hlt]
      simp
      cases b <;> decide
    · rw [← bitsOf_mod bs.length bs.length _ (Nat.le_refl _)]
      rw [Nat.mul_comm, Nat.mul_add_mod, Nat.mod_eq_of_lt hlt]
      exact ih _ rfl

/-! ### chunks -/

theorem chunks_small (n : Nat) (bs : List Bool) (h : n = 0 ∨ bs.length < n) : chunks n bs = ([], bs) := by
  rw [chunks]; simp [h]

theorem chunks_step (n : Nat) (bs : List Bool) (h : ¬ (n = 0 ∨ bs.length < n)) :
    chunks n bs = (bs.take n :: (chunks n (bs.drop n)).1, (chunks n (bs.drop n)).2) := by
  rw [chunks]; simp [h]

theorem chunks_blocks (n : Nat) (hn : 0 < n) (blocks : List (List Bool)) (r : List Bool)
    (hb : ∀ b ∈ blocks, b.length = n) (hr : r.length < n) :
    chunks n (blocks.flatten ++ r) = (blocks, r) := by
  induction blocks with
  | nil => simp only [List.flatten_nil, List.nil_append]; exact chunks_small n r (Or.inr hr)
  | cons b bl ih =>
    have hbl : b.length = n := hb b (by simp)
    have ih' := ih (fun x hx => hb x (by simp [hx]))
    rw [chunks_step]
    · simp only [List.flatten_cons, List.append_assoc]
      rw [List.take_left' hbl, List.drop_left' hbl, ih']
    · simp only [List.flatten_cons, List.length_append]
      omega

theorem chunks_spec (n : Nat) (hn : 0 < n) (bs : List Bool) :
    (chunks n bs).1.flatten ++ (chunks n bs).2 = bs ∧ (∀ b ∈ (chunks n bs).1, b.length = n) ∧
      (chunks n bs).2.length < n := by
  induction h : bs.length using Nat.strongRecOn generalizing bs with
  | _ len ih =>
    by_cases hs : n = 0 ∨ bs.length < n
    · rw [chunks_small n bs hs]
      simp
      omega
    · rw [chunks_step n bs hs]
      have hlen : (bs.drop n).length < len := by simp only [List.length_drop]; omega
      obtain ⟨h1, h2, h3⟩ := ih _ hlen (bs.drop n) rfl
      refine ⟨?_, ?_, h3⟩
      · simp only [List.flatten_cons, List.append_assoc]
        rw [h1, List.take_append_drop]
      · intro b hb
        simp only [List.mem_cons] at hb
        rcases hb with rfl | hb
        · simp only [List.length_take]; omega
        · exact h2 b hb

/-! ### round trip -/

theorem ofBits_replicate_false (k : Nat) : ofBits (List.replicate k false) = 0 := by
  induction k with
  | zero => rfl
  | succ k ih => rw [List.replicate_succ, ofBits_cons, ih]; simp

theorem flatMap_bitsOf_map_ofBits (w : Nat) (F : List (List Bool)) (hF : ∀ b ∈ F, b.length = w) :
    (F.map ofBits).flatMap (bitsOf w) = F.flatten := by
  induction F with
  | nil => rfl
  | cons b F ih =>
    simp only [List.map_cons, List.flatMap_cons, List.flatten_cons]
    rw [bitsOf_ofBits b w (hF b (by simp)), ih (fun x hx => hF x (by simp [hx]))]

/-- 8→5 with padding: the output symbols are the 5-bit groups of `bits ++ k zero bits`, `k ≤ 4`. -/
theorem conv85 (D : List Nat) :
    ∃ (F : List (List Bool)) (k : Nat), (∀ b ∈ F, b.length = 5) ∧ k ≤ 4 ∧
      convertBits 8 5 true D = .ok (F.map ofBits) ∧
      F.flatten = D.flatMap (bitsOf 8) ++ List.replicate k false := by
  obtain ⟨h1, h2, h3⟩ := chunks_spec 5 (by decide) (D.flatMap (bitsOf 8))
  by_cases hr : (chunks 5 (D.flatMap (bitsOf 8))).2 = []
  · refine ⟨(chunks 5 (D.flatMap (bitsOf 8))).1, 0, h2, by omega, ?_, ?_⟩
    · simp [convertBits, hr]
    · rw [hr] at h1; simpa using h1
  · refine ⟨(chunks 5 (D.flatMap (bitsOf 8))).1 ++
        [(chunks 5 (D.flatMap (bitsOf 8))).2 ++ List.replicate (5 - (chunks 5 (D.flatMap (bitsOf 8))).2.length) false],
      5 - (chunks 5 (D.flatMap (bitsOf 8))).2.length, ?_, ?_, ?_, ?_⟩
    · intro b hb
      simp only [List.mem_append, List.mem_singleton] at hb
      rcases hb with hb | rfl
      · exact h2 b hb
      · simp only [List.length_append, List.length_replicate]; omega
    · have : (chunks 5 (D.flatMap (bitsOf 8))).2.length ≠ 0 := by
        intro h0; exact hr (List.eq_nil_of_length_eq_zero h0)
      omega
    · simp [convertBits, hr]
    · simp only [List.flatten_append, List.flatten_cons, List.flatten_nil, List.append_nil]
      rw [← List.append_assoc, h1]

theorem map_ofBits_bitsOf (D : List Nat) (hD : ∀ x ∈ D, x < 256) : (D.map (bitsOf 8)).map ofBits = D := by
  induction D with
  | nil => rfl
  | cons x D ih =>
    simp only [List.map_cons]
    rw [ofBits_bitsOf, ih (fun y hy => hD y (by simp [hy]))]
    have := hD x (by simp)
    congr 1
    omega

/-- 5→8 without padding undoes `conv85`. -/
theorem conv58 (D : List Nat) (hD : ∀ x ∈ D, x < 256) (F : List (List Bool)) (k : Nat)
    (hF : ∀ b ∈ F, b.length = 5) (hk : k ≤ 4)
    (hflat : F.flatten = D.flatMap (bitsOf 8) ++ List.replicate k false) :
    convertBits 5 8 false (F.map ofBits) = .ok D := by
  have hbits : (F.map ofBits).flatMap (bitsOf 5) = (D.map (bitsOf 8)).flatten ++ List.replicate k false := by
    rw [flatMap_bitsOf_map_ofBits 5 F hF, hflat, List.flatMap_def]
  have hch := chunks_blocks 8 (by decide) (D.map (bitsOf 8)) (List.replicate k false)
    (by intro b hb; simp only [List.mem_map] at hb; obtain ⟨x, _, rfl⟩ := hb; exact length_bitsOf 8 x)
    (by simp only [List.length_replicate]; omega)
  simp only [convertBits]
  rw [hbits, hch]
  simp only [map_ofBits_bitsOf D hD, ofBits_replicate_false, List.length_replicate]
  by_cases hk0 : k = 0
  · subst hk0; simp
  · have : ¬ (k > 4) := by omega
    simp [hk0, this]

theorem convert_roundtrip (D : List Nat) (hD : ∀ x ∈ D, x < 256) :
    ∃ conv, convertBits 8 5 true D = .ok conv ∧ (∀ v ∈ conv, v < 32) ∧
      convertBits 5 8 false conv = .ok D := by
  obtain ⟨F, k, hF, hk, h1, h2⟩ := conv85 D
  refine ⟨F.map ofBits, h1, ?_, conv58 D hD F k hF hk h2⟩
  intro v hv
  simp only [List.mem_map] at hv
  obtain ⟨b, hb, rfl⟩ := hv
  have := ofBits_lt b
  rw [hF b hb] at this
  exact this

end GnoVerif.C45
