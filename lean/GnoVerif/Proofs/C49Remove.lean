import GnoVerif.Proofs.C49Basic
/-! C49: what `Remove(e)` does to a state satisfying the invariant when `e` is in the list. -/
namespace GnoVerif.C49
set_option linter.unusedSimpArgs false

/-- the successor pointer of `e`'s predecessor is `e`. -/
theorem next_of_prev {s : State} (hI : Inv s) {e p : Nat} (he : e < s.size) (hr : s.rem e = false)
    (hp : (s.elems e).prev = some p) : p < e ∧ s.rem p = false ∧ (s.elems p).next = some e := by
  obtain ⟨hpe, hgap, hlive⟩ := (hI.elem e he).prev_some p hp
  have hpl := hlive hr
  refine ⟨hpe, hpl, ?_⟩
  have hP := hI.elem p (by omega)
  rcases hn : (s.elems p).next with _ | n
  · have := hP.next_none hn hpl e hpe he
    simp [hr] at this
  · obtain ⟨hpn, hns, hg, hl⟩ := hP.next_some n hn
    have hnl := hl hpl
    rcases Nat.lt_trichotomy n e with h | h | h
    · have := hgap n hpn h; simp [hnl] at this
    · rw [h]
    · have := hg e hpe h; simp [hr] at this

/-- the predecessor pointer of `e`'s successor is `e`. -/
theorem prev_of_next {s : State} (hI : Inv s) {e n : Nat} (he : e < s.size) (hr : s.rem e = false)
    (hn : (s.elems e).next = some n) : e < n ∧ n < s.size ∧ s.rem n = false ∧ (s.elems n).prev = some e := by
  obtain ⟨hen, hns, hgap, hlive⟩ := (hI.elem e he).next_some n hn
  have hnl := hlive hr
  refine ⟨hen, hns, hnl, ?_⟩
  have hN := hI.elem n hns
  rcases hp : (s.elems n).prev with _ | p
  · have := hN.prev_none hp hnl e hen
    simp [hr] at this
  · obtain ⟨hpn, hg, hl⟩ := hN.prev_some p hp
    have hpl := hl hnl
    rcases Nat.lt_trichotomy p e with h | h | h
    · have := hg e h hen; simp [hr] at this
    · rw [h]
    · have := hgap p h hpn; simp [hpl] at this

/-- the effect of `removeCore` on every field. -/
structure RemoveSpec (s : State) (e : Nat) (s' : State) : Prop where
  size : s'.size = s.size
  rem : ∀ j, s'.rem j = (s.rem j || j == e)
  next : ∀ j, (s'.elems j).next =
    if (s.elems e).prev = some j then (s.elems e).next else (s.elems j).next
  prev : ∀ j, (s'.elems j).prev =
    if (s.elems e).next = some j then (s.elems e).prev else (s.elems j).prev
  nclosed : ∀ j, (s'.elems j).nextClosed =
    if j = e then true
    else if (s.elems e).prev = some j then (s.elems e).next.isSome else (s.elems j).nextClosed
  pclosed : ∀ j, (s'.elems j).prevClosed =
    if j = e then true
    else if (s.elems e).next = some j then (s.elems e).prev.isSome else (s.elems j).prevClosed
  nstale : ∀ j, (s'.elems j).nextStale =
    if (s.elems e).prev = some j ∧ (s.elems e).next = none then (s.elems j).nextStale ++ [true]
    else (s.elems j).nextStale
  pstale : ∀ j, (s'.elems j).prevStale =
    if (s.elems e).next = some j ∧ (s.elems e).prev = none then (s.elems j).prevStale ++ [true]
    else (s.elems j).prevStale
  head : s'.head = if (s.elems e).prev = none then (s.elems e).next else s.head
  tail : s'.tail = if (s.elems e).next = none then (s.elems e).prev else s.tail
  len : s'.len = s.len - 1
  closed : s'.closed = if s.len = 1 then false else s.closed
  stale : s'.stale = if s.len = 1 then s.stale ++ [s.closed] else s.stale
  travs : s'.travs = s.travs
  alive : s'.poisoned = false

theorem removeCore_spec {s : State} (hI : Inv s) {e : Nat} (he : e < s.size) (hr : s.rem e = false) :
    ∃ s', removeCore s e = some s' ∧ RemoveSpec s e s' := by
  have hE := hI.elem e he
  have hal := hI.alive
  have hr' : (s.elems e).removed = false := hr
  have hnc := hE.nclosed
  have hpc := hE.pclosed
  rcases hp : (s.elems e).prev with _ | p <;> rcases hn : (s.elems e).next with _ | n
  · -- only element
    rw [hn, hr] at hnc
    rw [hp, hr] at hpc
    simp at hnc hpc
    refine ⟨_, by simp [removeCore, hp, hn, setRemoved, hnc, hpc, setElem_elems]; rfl, ?_⟩
    constructor <;> simp [State.rem, State.setElem, hp, hn]
    all_goals first
      | exact hal
      | (intro j; by_cases hj : j = e <;> simp [hj, hp, hn, hr'])
  · -- head, with a successor
    obtain ⟨hen, hns, hnl, hnp⟩ := prev_of_next hI he hr hn
    have hne : n ≠ e := by omega
    have hne' : e ≠ n := by omega
    have hnpc : (s.elems n).prevClosed = true := by
      have := (hI.elem n hns).pclosed; rw [hnp] at this; simpa using this
    rw [hn, hr] at hnc
    rw [hp, hr] at hpc
    simp at hnc hpc
    refine ⟨_, by simp [removeCore, hp, hn, setRemoved, setPrev, hnp, hnc, hpc, State.setElem, hne, hne']; rfl, ?_⟩
    constructor <;> simp [State.rem, State.setElem, hp, hn]
    all_goals first
      | exact hal
      | (intro j; by_cases hj : j = e <;> by_cases hj' : j = n <;>
          simp [hj, hj', hp, hn, hr', hne, hne', hnp, hnpc, @eq_comm _ n j] <;> omega)
  · -- tail, with a predecessor
    obtain ⟨hpe, hpl, hpn⟩ := next_of_prev hI he hr hp
    have hne : p ≠ e := by omega
    have hne' : e ≠ p := by omega
    have hpnc : (s.elems p).nextClosed = true := by
      have := (hI.elem p (by omega)).nclosed; rw [hpn] at this; simpa using this
    rw [hn, hr] at hnc
    rw [hp, hr] at hpc
    simp at hnc hpc
    refine ⟨_, by simp [removeCore, hp, hn, setRemoved, setNext, hpn, hnc, hpc, State.setElem, hne, hne']; rfl, ?_⟩
    constructor <;> simp [State.rem, State.setElem, hp, hn]
    all_goals first
      | exact hal
      | (intro j; by_cases hj : j = e <;> by_cases hj' : j = p <;>
          simp [hj, hj', hp, hn, hr', hne, hne', hpn, hpnc, @eq_comm _ p j] <;> omega)
  · -- in the middle
    obtain ⟨hpe, hpl, hpn⟩ := next_of_prev hI he hr hp
    obtain ⟨hen, hns, hnl, hnp⟩ := prev_of_next hI he hr hn
    have h1 : p ≠ e := by omega
    have h2 : e ≠ p := by omega
    have h3 : n ≠ e := by omega
    have h4 : e ≠ n := by omega
    have h5 : p ≠ n := by omega
    have h6 : n ≠ p := by omega
    have hpnc : (s.elems p).nextClosed = true := by
      have := (hI.elem p (by omega)).nclosed; rw [hpn] at this; simpa using this
    have hnpc : (s.elems n).prevClosed = true := by
      have := (hI.elem n hns).pclosed; rw [hnp] at this; simpa using this
    rw [hn, hr] at hnc
    rw [hp, hr] at hpc
    simp at hnc hpc
    refine ⟨_, by simp [removeCore, hp, hn, setRemoved, setNext, setPrev, hpn, hnp, hnc, hpc, State.setElem, h1, h2, h3, h4, h5, h6]; rfl, ?_⟩
    constructor <;> simp [State.rem, State.setElem, hp, hn]
    all_goals first
      | exact hal
      | (intro j; by_cases hj : j = e <;> by_cases hj' : j = p <;> by_cases hj'' : j = n <;>
          simp [hj, hj', hj'', hp, hn, hr', h1, h2, h3, h4, h5, h6, hpn, hnp, hpnc, hnpc, @eq_comm _ p j, @eq_comm _ n j] <;> omega)

namespace RemoveSpec
variable {s s' : State} {e : Nat}

theorem rem_of (h : RemoveSpec s e s') {j : Nat} (hj : s.rem j = true) : s'.rem j = true := by
  rw [h.rem]; simp [hj]

theorem rem_self (h : RemoveSpec s e s') : s'.rem e = true := by
  rw [h.rem]; simp

theorem rem_ne (h : RemoveSpec s e s') {j : Nat} (hj : j ≠ e) : s'.rem j = s.rem j := by
  rw [h.rem]; simp [hj]

theorem gap_mono (h : RemoveSpec s e s') {a b : Nat} (hg : GapRem s a b) : GapRem s' a b :=
  fun j h1 h2 => h.rem_of (hg j h1 h2)

/-- a still-live id was live before and is not `e`. -/
theorem live_inv (h : RemoveSpec s e s') {j : Nat} (hj : s'.rem j = false) : j ≠ e ∧ s.rem j = false := by
  rw [h.rem] at hj
  simp at hj
  exact ⟨hj.2, hj.1⟩

/-- gaps around `e` join once `e` is removed. -/
theorem gap_join (h : RemoveSpec s e s') {a b : Nat} (h1 : GapRem s a e) (h2 : GapRem s e b) :
    GapRem s' a b := by
  intro j hj1 hj2
  rcases Nat.lt_trichotomy j e with hje | hje | hje
  · exact h.rem_of (h1 j hj1 hje)
  · rw [hje]; exact h.rem_self
  · exact h.rem_of (h2 j hje hj2)

end RemoveSpec

theorem elemOK_remove {s s' : State} (hI : Inv s) {e : Nat} (he : e < s.size) (hr : s.rem e = false)
    (hS : RemoveSpec s e s') (i : Nat) (hi : i < s.size) : ElemOK s' i := by
  have hE := hI.elem e he
  have hIi := hI.elem i hi
  constructor
  · -- next_some
    intro m hm
    rw [hS.next i] at hm
    split at hm
    · rename_i hpi
      obtain ⟨hpe, hpl, hpn⟩ := next_of_prev hI he hr hpi
      obtain ⟨hem, hms, hg, hl⟩ := hE.next_some m hm
      obtain ⟨_, hgp, _⟩ := hE.prev_some i hpi
      refine ⟨by omega, by rw [hS.size]; exact hms, hS.gap_join hgp hg, ?_⟩
      intro _
      rw [hS.rem_ne (by omega)]; exact hl hr
    · rename_i hpi
      obtain ⟨him, hms, hg, hl⟩ := hIi.next_some m hm
      refine ⟨him, by rw [hS.size]; exact hms, hS.gap_mono hg, ?_⟩
      intro hri
      obtain ⟨hie, hri'⟩ := hS.live_inv hri
      have hme : m ≠ e := by
        intro h
        rw [h] at hm
        exact hpi (prev_of_next hI hi hri' hm).2.2.2
      rw [hS.rem_ne hme]; exact hl hri'
  · -- next_none
    intro hm hri
    obtain ⟨hie, hri'⟩ := hS.live_inv hri
    rw [hS.size]
    rw [hS.next i] at hm
    split at hm
    · rename_i hpi
      obtain ⟨_, hgp, _⟩ := hE.prev_some i hpi
      exact hS.gap_join hgp (hE.next_none hm hr)
    · exact hS.gap_mono (hIi.next_none hm hri')
  · -- prev_some
    intro m hm
    rw [hS.prev i] at hm
    split at hm
    · rename_i hni
      obtain ⟨hen, hns, hnl, hnp⟩ := prev_of_next hI he hr hni
      obtain ⟨hme, hg, hl⟩ := hE.prev_some m hm
      obtain ⟨_, _, hgn, _⟩ := hE.next_some i hni
      refine ⟨by omega, hS.gap_join hg hgn, ?_⟩
      intro _
      rw [hS.rem_ne (by omega)]; exact hl hr
    · rename_i hni
      obtain ⟨hmi, hg, hl⟩ := hIi.prev_some m hm
      refine ⟨hmi, hS.gap_mono hg, ?_⟩
      intro hri
      obtain ⟨hie, hri'⟩ := hS.live_inv hri
      have hme : m ≠ e := by
        intro h
        rw [h] at hm
        exact hni (next_of_prev hI hi hri' hm).2.2
      rw [hS.rem_ne hme]; exact hl hri'
  · -- prev_none
    intro hm hri
    obtain ⟨hie, hri'⟩ := hS.live_inv hri
    rw [hS.prev i] at hm
    split at hm
    · rename_i hni
      obtain ⟨hen, _, hgn, _⟩ := hE.next_some i hni
      have hall := hE.prev_none hm hr
      intro j hj
      rcases Nat.lt_trichotomy j e with hje | hje | hje
      · exact hS.rem_of (hall j hje)
      · rw [hje]; exact hS.rem_self
      · exact hS.rem_of (hgn j hje hj)
    · exact fun j hj => hS.rem_of (hIi.prev_none hm hri' j hj)
  · -- nclosed
    rw [hS.nclosed, hS.next, hS.rem]
    by_cases hie : i = e
    · subst hie; simp
    · simp only [hie, if_false]
      split
      · rename_i hpi
        have := (next_of_prev hI he hr hpi).2.1
        simp [this, hie]
      · rw [hIi.nclosed, beq_false_of_ne hie, Bool.or_false]
  · -- pclosed
    rw [hS.pclosed, hS.prev, hS.rem]
    by_cases hie : i = e
    · subst hie; simp
    · simp only [hie, if_false]
      split
      · rename_i hni
        have := (prev_of_next hI he hr hni).2.2.1
        simp [this, hie]
      · rw [hIi.pclosed, beq_false_of_ne hie, Bool.or_false]
  · -- nstale
    intro b hb
    rw [hS.nstale] at hb
    split at hb
    · rcases List.mem_append.1 hb with h | h
      · exact hIi.nstale b h
      · simpa using h
    · exact hIi.nstale b hb
  · -- pstale
    intro b hb
    rw [hS.pstale] at hb
    split at hb
    · rcases List.mem_append.1 hb with h | h
      · exact hIi.pstale b h
      · simpa using h
    · exact hIi.pstale b hb

/-- `e` is the only element left iff it has neither predecessor nor successor. -/
theorem only_live_of_ends {s : State} (hI : Inv s) {e : Nat} (he : e < s.size) (hr : s.rem e = false)
    (hp : (s.elems e).prev = none) (hn : (s.elems e).next = none) : liveCount s = 1 := by
  have hE := hI.elem e he
  refine cnt_one he hr (fun j hj hje => ?_)
  rcases Nat.lt_or_gt_of_ne hje with h | h
  · exact hE.prev_none hp hr j h
  · exact hE.next_none hn hr j h hj

theorem ends_of_only_live {s : State} (hI : Inv s) {e : Nat} (he : e < s.size) (hr : s.rem e = false)
    (h1 : liveCount s = 1) : (s.elems e).prev = none ∧ (s.elems e).next = none := by
  have hE := hI.elem e he
  constructor
  · rcases hp : (s.elems e).prev with _ | p
    · rfl
    · obtain ⟨hpe, _, hl⟩ := hE.prev_some p hp
      have := cnt_two (r := s.rem) hpe he (hl hr) hr
      unfold liveCount at h1; omega
  · rcases hn : (s.elems e).next with _ | n
    · rfl
    · obtain ⟨hen, hns, _, hl⟩ := hE.next_some n hn
      have := cnt_two (r := s.rem) hen hns hr (hl hr)
      unfold liveCount at h1; omega

theorem listOK_remove {s s' : State} (hI : Inv s) {e : Nat} (he : e < s.size) (hr : s.rem e = false)
    (hS : RemoveSpec s e s') : ListOK s' := by
  have hE := hI.elem e he
  have hL := hI.list
  have hcnt : liveCount s' + 1 = liveCount s := by
    unfold liveCount; rw [hS.size]; exact cnt_remove he hr hS.rem
  -- the head exists and is at or before e
  obtain ⟨h0, hh0⟩ : ∃ h, s.head = some h := by
    rcases hh : s.head with _ | h
    · have := hL.head_none hh e he; rw [hr] at this; cases this
    · exact ⟨h, rfl⟩
  obtain ⟨t0, ht0⟩ : ∃ t, s.tail = some t := by
    rcases hh : s.tail with _ | t
    · have := hL.tail_none hh e he; rw [hr] at this; cases this
    · exact ⟨t, rfl⟩
  constructor
  · -- head_some
    intro h hh
    rw [hS.head] at hh
    rw [hS.size]
    split at hh
    · rename_i hp
      obtain ⟨heh, hhs, hg, hl⟩ := hE.next_some h hh
      refine ⟨hhs, by rw [hS.rem_ne (by omega)]; exact hl hr, ?_⟩
      intro j hj
      rcases Nat.lt_trichotomy j e with hje | hje | hje
      · exact hS.rem_of (hE.prev_none hp hr j hje)
      · rw [hje]; exact hS.rem_self
      · exact hS.rem_of (hg j hje hj)
    · rename_i hp
      obtain ⟨hhs, hhl, hall⟩ := hL.head_some h hh
      have hhe : h ≠ e := by
        intro hc
        rcases hp' : (s.elems e).prev with _ | p
        · exact hp hp'
        · obtain ⟨hpe, _, hl⟩ := hE.prev_some p hp'
          have := hall p (by omega)
          rw [hl hr] at this; cases this
      exact ⟨hhs, by rw [hS.rem_ne hhe]; exact hhl, fun j hj => hS.rem_of (hall j hj)⟩
  · -- head_none
    intro hh j hj
    rw [hS.size] at hj
    rw [hS.head] at hh
    split at hh
    · rename_i hp
      rcases Nat.lt_trichotomy j e with hje | hje | hje
      · exact hS.rem_of (hE.prev_none hp hr j hje)
      · rw [hje]; exact hS.rem_self
      · exact hS.rem_of (hE.next_none hh hr j hje hj)
    · rw [hh0] at hh; cases hh
  · -- tail_some
    intro t ht
    rw [hS.tail] at ht
    rw [hS.size]
    split at ht
    · rename_i hn
      obtain ⟨hte, hg, hl⟩ := hE.prev_some t ht
      exact ⟨by omega, by rw [hS.rem_ne (by omega)]; exact hl hr, hS.gap_join hg (hE.next_none hn hr)⟩
    · rename_i hn
      obtain ⟨hts, htl, hg⟩ := hL.tail_some t ht
      have hte : t ≠ e := by
        intro hc
        rcases hn' : (s.elems e).next with _ | n
        · exact hn hn'
        · obtain ⟨hen, hns, _, hl⟩ := hE.next_some n hn'
          have := hg n (by omega) hns
          rw [hl hr] at this; cases this
      exact ⟨hts, by rw [hS.rem_ne hte]; exact htl, hS.gap_mono hg⟩
  · -- tail_none
    intro ht j hj
    rw [hS.size] at hj
    rw [hS.tail] at ht
    split at ht
    · rename_i hn
      rcases Nat.lt_trichotomy j e with hje | hje | hje
      · exact hS.rem_of (hE.prev_none ht hr j hje)
      · rw [hje]; exact hS.rem_self
      · exact hS.rem_of (hE.next_none hn hr j hje hj)
    · rw [ht0] at ht; cases ht
  · -- len_eq
    rw [hS.len, hL.len_eq]; omega
  · -- closed_eq
    rw [hS.closed, hS.head]
    have hc : s.closed = true := by rw [hL.closed_eq, hh0]; rfl
    by_cases h1 : s.len = 1
    · have h1' : liveCount s = 1 := by have := hL.len_eq; omega
      obtain ⟨hp, hn⟩ := ends_of_only_live hI he hr h1'
      simp [h1, hp, hn]
    · simp only [h1, if_false, hc]
      split
      · rename_i hp
        rcases hn : (s.elems e).next with _ | n
        · have := only_live_of_ends hI he hr hp hn
          have := hL.len_eq; omega
        · rfl
      · rw [hh0]; rfl
  · -- stale_ok
    intro b hb
    rw [hS.stale] at hb
    have hc : s.closed = true := by rw [hL.closed_eq, hh0]; rfl
    split at hb
    · rcases List.mem_append.1 hb with h | h
      · exact hL.stale_ok b h
      · rw [hc] at h; simpa using h
    · exact hL.stale_ok b hb

theorem travOK_remove {s s' : State} (hI : Inv s) {e : Nat}
    (hS : RemoveSpec s e s') (t : Nat) : TravOK s' t := by
  have hT := hI.trav t
  have hlen : ∀ j, (s.elems j).nextStale.length ≤ (s'.elems j).nextStale.length := by
    intro j; rw [hS.nstale]; split <;> simp
  have hlen' : s.stale.length ≤ s'.stale.length := by
    rw [hS.stale]; split <;> simp
  constructor
  · rw [hS.travs]; exact hT.sorted
  · rw [hS.travs, hS.size]; exact hT.bound
  · rw [hS.travs]; intro x hx j hj
    rcases hT.cover x hx j hj with h | h
    · exact Or.inl h
    · exact Or.inr (hS.rem_of h)
  · rw [hS.travs]; exact hT.st_at
  · rw [hS.travs]; intro e' w hw
    obtain ⟨h1, h2, h3⟩ := hT.st_wn e' w hw
    exact ⟨h1, h2, fun g hg => Nat.le_trans (h3 g hg) (hlen e')⟩
  · rw [hS.travs]; intro w hw
    obtain ⟨h1, h2⟩ := hT.st_wf w hw
    exact ⟨h1, fun g hg => Nat.le_trans (h2 g hg) hlen'⟩
  · rw [hS.travs]; exact hT.st_idle

theorem inv_remove {s s' : State} (hI : Inv s) {e : Nat} (he : e < s.size) (hr : s.rem e = false)
    (hS : RemoveSpec s e s') : Inv s' :=
  ⟨hS.alive, listOK_remove hI he hr hS, fun i hi => elemOK_remove hI he hr hS i (by rw [← hS.size]; exact hi),
   travOK_remove hI hS⟩

end GnoVerif.C49
