import GnoVerif.Model.C03Heap
/-! Helper lemmas for Props/C03.lean. -/
namespace GnoVerif.C03

theorem step_lazy_irrelevant {fn : Fn} (h : Heap) (args : List Arg) (hne : fn ≠ .CopyNode) :
    step true h fn args = step false h fn args := by
  simp [step, hne]

/-- the cache invariant: addresses handed out are distinct, below `next`, one per id -/
def Cache.wf (c : Cache) : Prop :=
  (∀ e ∈ c.entries, e.2 < c.next) ∧ (c.entries.map (·.1)).Nodup ∧ (c.entries.map (·.2)).Nodup

theorem find_some_mem {α} {p : α → Bool} {l : List α} {x : α} (h : l.find? p = some x) : x ∈ l ∧ p x = true := by
  exact ⟨List.mem_of_find?_eq_some h, List.find?_some h⟩

theorem Cache.load_wf (c : Cache) (oid : Nat) (hwf : c.wf) : (c.load oid).1.wf := by
  unfold Cache.load
  split
  · exact hwf
  · rename_i hnone
    obtain ⟨h1, h2, h3⟩ := hwf
    have hnot : ∀ e ∈ c.entries, e.1 ≠ oid := by
      intro e he heq
      have := List.find?_eq_none.mp hnone e he
      simp [heq] at this
    refine ⟨?_, ?_, ?_⟩
    · intro e he
      simp only [List.mem_append, List.mem_singleton] at he
      rcases he with he | he
      · exact Nat.lt_succ_of_lt (h1 e he)
      · subst he; exact Nat.lt_succ_self _
    · simp only [List.map_append, List.map_cons, List.map_nil]
      rw [List.nodup_append]
      refine ⟨h2, by simp, ?_⟩
      intro a ha b hb
      simp only [List.mem_singleton] at hb
      subst hb
      obtain ⟨e, he, rfl⟩ := List.mem_map.mp ha
      exact hnot e he
    · simp only [List.map_append, List.map_cons, List.map_nil]
      rw [List.nodup_append]
      refine ⟨h3, by simp, ?_⟩
      intro a ha b hb
      simp only [List.mem_singleton] at hb
      subst hb
      obtain ⟨e, he, rfl⟩ := List.mem_map.mp ha
      exact Nat.ne_of_lt (h1 e he)

theorem cache_load_mem (c : Cache) (oid : Nat) : (oid, (c.load oid).2) ∈ (c.load oid).1.entries := by
  unfold Cache.load
  split
  · rename_i e he
    have := find_some_mem he
    have h1 : e.1 = oid := by simpa using this.2
    simp only
    rw [← h1]
    exact this.1
  · simp

theorem eq_of_nodup_map_snd {l : List (Nat × Nat)} (h : (l.map (·.2)).Nodup) {x y : Nat × Nat}
    (hx : x ∈ l) (hy : y ∈ l) (he : x.2 = y.2) : x = y := by
  induction l with
  | nil => simp at hx
  | cons a t ih =>
    simp only [List.map_cons, List.nodup_cons, List.mem_map, not_exists, not_and] at h
    simp only [List.mem_cons] at hx hy
    rcases hx with hx | hx <;> rcases hy with hy | hy
    · rw [hx, hy]
    · subst hx
      exact absurd he.symm (h.1 y hy)
    · subst hy
      exact absurd he (h.1 x hx)
    · exact ih h.2 hx hy

end GnoVerif.C03
