import GnoVerif.Model.C16
/-! Helper lemmas for C16: coin sets (`amountOf` of merged sets, validity, `isAllGTE`). -/
namespace GnoVerif.C16

/-- denoms strictly ascending, all above the optional lower bound -/
def SortedFrom : Option Denom → Coins → Prop
  | _, [] => True
  | lo, c :: r => (∀ l, lo = some l → l < c.1) ∧ SortedFrom (some c.1) r

theorem SortedFrom.weaken {lo : Option Denom} {cs : Coins} (h : SortedFrom lo cs) : SortedFrom none cs := by
  cases cs with
  | nil => trivial
  | cons c r => exact ⟨fun l hl => (by cases hl), h.2⟩

theorem SortedFrom.mono {l l' : Denom} {cs : Coins} (hl : l' < l) (h : SortedFrom (some l) cs) :
    SortedFrom (some l') cs := by
  cases cs with
  | nil => trivial
  | cons c r =>
    refine ⟨fun x hx => ?_, h.2⟩
    cases hx
    exact String.lt_trans hl (h.1 l rfl)

theorem amountOf_nil (d : Denom) : amountOf [] d = 0 := rfl

theorem amountOf_cons (c : Coin) (r : Coins) (d : Denom) :
    amountOf (c :: r) d = if c.1 = d then c.2 else amountOf r d := by
  simp [amountOf]

/-- below (or at) the lower bound nothing is held -/
theorem amountOf_eq_zero_of_sorted {l : Denom} {cs : Coins} (h : SortedFrom (some l) cs) {d : Denom}
    (hd : ¬ l < d) : amountOf cs d = 0 := by
  induction cs generalizing l with
  | nil => rfl
  | cons c r ih =>
    have hlc : l < c.1 := h.1 l rfl
    rw [amountOf_cons]
    have hne : c.1 ≠ d := by
      intro e; subst e; exact hd hlc
    rw [if_neg hne]
    apply ih h.2
    intro hcd
    exact hd (String.lt_trans hlc hcd)

theorem amountOf_consNZ {c : Coin} {r : Coins} (h : SortedFrom (some c.1) r) (d : Denom) :
    amountOf (consNZ c r) d = if c.1 = d then c.2 else amountOf r d := by
  unfold consNZ
  by_cases hz : c.2 = 0
  · simp only [hz, beq_self_eq_true, if_true]
    by_cases hcd : c.1 = d
    · rw [if_pos hcd]
      subst hcd
      exact amountOf_eq_zero_of_sorted h (String.lt_irrefl _)
    · rw [if_neg hcd]
  · have : (c.2 == 0) = false := by simpa using hz
    simp only [this]
    exact amountOf_cons c r d

theorem sortedFrom_consNZ {lo : Option Denom} {c : Coin} {r : Coins}
    (hc : ∀ l, lo = some l → l < c.1) (h : SortedFrom (some c.1) r) : SortedFrom lo (consNZ c r) := by
  unfold consNZ
  split
  · cases r with
    | nil => trivial
    | cons x r' =>
      refine ⟨fun l hl => ?_, h.2⟩
      exact String.lt_trans (hc l hl) (h.1 c.1 rfl)
  · exact ⟨hc, h⟩

theorem removeZero_spec {lo : Option Denom} {cs : Coins} (h : SortedFrom lo cs) :
    SortedFrom lo (removeZero cs) ∧ ∀ d, amountOf (removeZero cs) d = amountOf cs d := by
  induction cs generalizing lo with
  | nil => exact ⟨trivial, fun _ => rfl⟩
  | cons c r ih =>
    obtain ⟨hs, ha⟩ := ih h.2
    have e : removeZero (c :: r) = consNZ c (removeZero r) := by
      by_cases hz : c.2 = 0 <;> simp [removeZero, consNZ, hz]
    rw [e]
    refine ⟨sortedFrom_consNZ h.1 hs, fun d => ?_⟩
    rw [amountOf_consNZ hs, amountOf_cons, ha]

/-- `AddUnsafe` of two denom-sorted sets adds amounts denom by denom and stays sorted. -/
theorem addUnsafe_spec {lo : Option Denom} {a b r : Coins} (ha : SortedFrom lo a) (hb : SortedFrom lo b)
    (h : addUnsafe a b = some r) :
    SortedFrom lo r ∧ ∀ d, amountOf r d = amountOf a d + amountOf b d := by
  induction a generalizing lo b r with
  | nil =>
    simp only [addUnsafe] at h
    cases h
    obtain ⟨hs, hq⟩ := removeZero_spec hb
    exact ⟨hs, fun d => by rw [hq, amountOf_nil]; omega⟩
  | cons a ra iha =>
    simp only [addUnsafe] at h
    induction b generalizing lo r with
    | nil =>
      simp only [addAux] at h
      cases h
      obtain ⟨hs, hq⟩ := removeZero_spec ha
      exact ⟨hs, fun d => by rw [hq, amountOf_nil]; omega⟩
    | cons b rb ihb =>
      simp only [addAux] at h
      split at h
      · rename_i hlt
        cases hrec : addUnsafe ra (b :: rb) with
        | none => rw [hrec] at h; cases h
        | some r' =>
          rw [hrec] at h; cases h
          have hb' : SortedFrom (some a.1) (b :: rb) := ⟨fun l hl => by cases hl; exact hlt, hb.2⟩
          obtain ⟨hs, hq⟩ := iha ha.2 hb' hrec
          refine ⟨sortedFrom_consNZ ha.1 hs, fun d => ?_⟩
          rw [amountOf_consNZ hs, hq, amountOf_cons a ra d]
          by_cases had : a.1 = d
          · rw [if_pos had, if_pos had]
            have : amountOf (b :: rb) d = 0 := by
              subst had
              exact amountOf_eq_zero_of_sorted hb' (String.lt_irrefl _)
            omega
          · rw [if_neg had, if_neg had]
      · rename_i hlt
        split at h
        · rename_i heq
          have hab : a.1 = b.1 := by simpa using heq
          split at h
          · cases hrec : addUnsafe ra rb with
            | none => rw [hrec] at h; cases h
            | some r' =>
              rw [hrec] at h; cases h
              have hb' : SortedFrom (some a.1) rb := by rw [hab]; exact hb.2
              obtain ⟨hs, hq⟩ := iha ha.2 hb' hrec
              refine ⟨sortedFrom_consNZ (c := (a.1, a.2 + b.2)) ha.1 hs, fun d => ?_⟩
              rw [amountOf_consNZ (c := (a.1, a.2 + b.2)) hs, hq, amountOf_cons a ra d, amountOf_cons b rb d]
              by_cases had : a.1 = d
              · have hbd : b.1 = d := by rw [← hab]; exact had
                simp only [had, hbd, if_true]
              · have hbd : ¬ b.1 = d := by rw [← hab]; exact had
                simp only [had, hbd, if_false]
          · cases h
        · rename_i heq
          have hne : a.1 ≠ b.1 := by simpa using heq
          have hba : b.1 < a.1 := by
            have hle : b.1 ≤ a.1 := String.not_lt.mp hlt
            rcases Decidable.em (b.1 < a.1) with h' | h'
            · exact h'
            · exact absurd (String.le_antisymm (String.not_lt.mp h') hle) hne
          cases hrec : addAux a ra (addUnsafe ra) rb with
          | none => rw [hrec] at h; cases h
          | some r' =>
            rw [hrec] at h; cases h
            have ha' : SortedFrom (some b.1) (a :: ra) := ⟨fun l hl => by cases hl; exact hba, ha.2⟩
            obtain ⟨hs, hq⟩ := ihb ha' hb.2 hrec
            refine ⟨sortedFrom_consNZ hb.1 hs, fun d => ?_⟩
            rw [amountOf_consNZ hs, hq, amountOf_cons b rb d]
            by_cases hbd : b.1 = d
            · rw [if_pos hbd, if_pos hbd]
              have : amountOf (a :: ra) d = 0 := by
                subst hbd
                exact amountOf_eq_zero_of_sorted ha' (String.lt_irrefl _)
              omega
            · rw [if_neg hbd, if_neg hbd]

/-! ### validity -/

theorem validFrom_spec {lo : Denom} {cs : Coins} (h : validFrom lo cs = true) :
    SortedFrom (some lo) cs ∧ ∀ c ∈ cs, 0 < c.2 := by
  induction cs generalizing lo with
  | nil => exact ⟨trivial, fun _ hc => by cases hc⟩
  | cons c r ih =>
    simp only [validFrom, Bool.and_eq_true, decide_eq_true_eq] at h
    obtain ⟨⟨⟨_, hlt⟩, hpos⟩, hr⟩ := h
    obtain ⟨hs, hp⟩ := ih hr
    refine ⟨⟨fun l hl => by cases hl; exact hlt, hs⟩, fun x hx => ?_⟩
    cases hx with
    | head => exact hpos
    | tail _ hx => exact hp x hx

theorem validCoins_spec {cs : Coins} (h : validCoins cs = true) :
    SortedFrom none cs ∧ ∀ c ∈ cs, 0 < c.2 := by
  cases cs with
  | nil => exact ⟨trivial, fun _ hc => by cases hc⟩
  | cons c r =>
    simp only [validCoins, Bool.and_eq_true, decide_eq_true_eq] at h
    obtain ⟨⟨_, hpos⟩, hr⟩ := h
    obtain ⟨hs, hp⟩ := validFrom_spec hr
    refine ⟨⟨fun l hl => (by cases hl), hs⟩, fun x hx => ?_⟩
    cases hx with
    | head => exact hpos
    | tail _ hx => exact hp x hx

theorem amountOf_nonneg_of_pos {cs : Coins} (h : ∀ c ∈ cs, 0 < c.2) (d : Denom) : 0 ≤ amountOf cs d := by
  induction cs with
  | nil => simp [amountOf]
  | cons c r ih =>
    rw [amountOf_cons]
    split
    · exact Int.le_of_lt (h c (List.mem_cons_self ..))
    · exact ih fun x hx => h x (List.mem_cons_of_mem _ hx)

theorem amountOf_nonneg {cs : Coins} (h : validCoins cs = true) (d : Denom) : 0 ≤ amountOf cs d :=
  amountOf_nonneg_of_pos (validCoins_spec h).2 d

/-- `Add` of two valid sets is valid and adds amounts. -/
theorem add_spec {a b r : Coins} (ha : validCoins a = true) (hb : validCoins b = true) (h : add a b = some r) :
    validCoins r = true ∧ ∀ d, amountOf r d = amountOf a d + amountOf b d := by
  unfold add at h
  cases hu : addUnsafe a b with
  | none => rw [hu] at h; cases h
  | some u =>
    rw [hu] at h
    simp only at h
    split at h
    · cases h
      rename_i hv
      exact ⟨hv, (addUnsafe_spec (validCoins_spec ha).1 (validCoins_spec hb).1 hu).2⟩
    · cases h

theorem add_valid {a b r : Coins} (h : add a b = some r) : validCoins r = true := by
  unfold add at h
  cases hu : addUnsafe a b with
  | none => rw [hu] at h; cases h
  | some u =>
    rw [hu] at h
    simp only at h
    split at h
    · cases h; assumption
    · cases h

theorem amountOf_mem_sorted {lo : Option Denom} {cs : Coins} (hs : SortedFrom lo cs) {c : Coin} (hc : c ∈ cs) :
    amountOf cs c.1 = c.2 := by
  induction cs generalizing lo with
  | nil => cases hc
  | cons x r ih =>
    rw [amountOf_cons]
    cases hc with
    | head => simp
    | tail _ hc =>
      have hne : x.1 ≠ c.1 := by
        intro e
        have h0 : amountOf r c.1 = 0 := by
          rw [← e]; exact amountOf_eq_zero_of_sorted hs.2 (String.lt_irrefl _)
        have := ih hs.2 hc
        -- c ∈ r with denom x.1 contradicts strict sortedness
        have hlt : ∀ {l : Denom} {cs : Coins}, SortedFrom (some l) cs → ∀ y ∈ cs, l < y.1 := by
          intro l cs
          induction cs generalizing l with
          | nil => intro _ y hy; cases hy
          | cons z t iht =>
            intro hz y hy
            cases hy with
            | head => exact hz.1 l rfl
            | tail _ hy => exact String.lt_trans (hz.1 l rfl) (iht hz.2 y hy)
        exact String.lt_irrefl _ (e ▸ hlt hs.2 c hc)
      rw [if_neg hne]
      exact ih hs.2 hc

theorem amountOf_eq_zero_of_not_mem {u : Coins} {d : Denom} (h : ∀ c ∈ u, c.1 ≠ d) : amountOf u d = 0 := by
  induction u with
  | nil => rfl
  | cons x r ih =>
    rw [amountOf_cons, if_neg (h x (List.mem_cons_self ..))]
    exact ih fun c hc => h c (List.mem_cons_of_mem _ hc)

/-- `IsAllGTE limit used` bounds every denom of `used` by the limit (missing denom = 0). -/
theorem isAllGTE_spec {lim u : Coins} (hl : validCoins lim = true) (hu : validCoins u = true)
    (h : isAllGTE lim u = true) (d : Denom) : amountOf u d ≤ amountOf lim d := by
  unfold isAllGTE at h
  split at h
  · rename_i h0
    have : u = [] := by
      cases u with
      | nil => rfl
      | cons _ _ => simp at h0
    subst this
    simpa [amountOf] using amountOf_nonneg hl d
  · split at h
    · cases h
    · have hall : ∀ c ∈ u, c.2 ≤ amountOf lim c.1 := by
        intro c hc
        have := (List.all_eq_true.mp h) c hc
        simpa using this
      -- either d is held in u (then bounded) or not (then 0 ≤ limit)
      by_cases hm : ∃ c ∈ u, c.1 = d
      · obtain ⟨c, hc, rfl⟩ := hm
        rw [amountOf_mem_sorted (validCoins_spec hu).1 hc]
        exact hall c hc
      · have hz : amountOf u d = 0 :=
          amountOf_eq_zero_of_not_mem fun c hc e => hm ⟨c, hc, e⟩
        rw [hz]
        exact amountOf_nonneg hl d

/-- a valid set that `IsZero` is empty -/
theorem eq_nil_of_isZero_valid {cs : Coins} (hv : validCoins cs = true) (hz : isZero cs = true) : cs = [] := by
  cases cs with
  | nil => rfl
  | cons c r =>
    have hp := (validCoins_spec hv).2 c (List.mem_cons_self ..)
    have : c.2 = 0 := by
      have := (List.all_eq_true.mp hz) c (List.mem_cons_self ..)
      simpa using this
    omega

theorem amountOf_zero_of_isZero {cs : Coins} (hz : isZero cs = true) (d : Denom) : amountOf cs d = 0 := by
  induction cs with
  | nil => rfl
  | cons c r ih =>
    have hc : c.2 = 0 := by
      have := (List.all_eq_true.mp hz) c (List.mem_cons_self ..)
      simpa using this
    have hr : isZero r = true := by
      apply List.all_eq_true.mpr
      intro x hx
      exact (List.all_eq_true.mp hz) x (List.mem_cons_of_mem _ hx)
    rw [amountOf_cons]
    split
    · exact hc
    · exact ih hr

end GnoVerif.C16
