import GnoVerif.Proofs.C20Zero
/-! Decoding a google.protobuf.Any envelope built by the encoder (property C20). -/
namespace GnoVerif.C20

theorem encBytes_length' (buf : Bytes) : (encBytes buf).length = uvarintSize buf.length + buf.length := by
  simp [encBytes, uvarintSize]

theorem takeWhile_append_stop {α : Type} (p : α → Bool) (a : α) (ha : p a = false) :
    ∀ l : List α, (∀ x ∈ l, p x = true) → List.takeWhile p (l ++ [a]) = l
  | [], _ => by simp [List.takeWhile, ha]
  | x :: l, h => by
    have hx : p x = true := h x (by simp)
    simp only [List.cons_append, List.takeWhile_cons, hx, if_true]
    rw [takeWhile_append_stop p a ha l (fun y hy => h y (by simp [hy]))]

theorem nameOK_facts {name : Bytes} (h : nameOK name = true) :
    isASCIIText (47 :: name) = true ∧ fullnameOf (47 :: name) = some name ∧ (47 :: name).length < 2 ^ 64 := by
  unfold nameOK at h
  simp only [Bool.and_eq_true, List.all_eq_true, decide_eq_true_eq, bne_iff_ne, ne_eq] at h
  obtain ⟨hall, hlen⟩ := h
  refine ⟨?_, ?_, by simpa using hlen⟩
  · simp only [isASCIIText, List.isEmpty_cons, Bool.not_false, Bool.true_and, List.all_cons, Bool.and_eq_true,
      decide_eq_true_eq, List.all_eq_true]
    refine ⟨⟨by decide, by decide⟩, ?_⟩
    intro b hb
    exact ⟨(hall b hb).1.1, (hall b hb).1.2⟩
  · unfold fullnameOf
    simp only [List.contains_cons, beq_self_eq_true, Bool.true_or, if_true, List.reverse_cons, Option.some.injEq]
    have : List.takeWhile (fun x => x != 47) (name.reverse ++ [(47 : UInt8)]) = name.reverse := by
      apply takeWhile_append_stop
      · simp
      · intro x hx
        simp only [List.mem_reverse] at hx
        simpa using (hall x hx).2
    rw [this, List.reverse_reverse]

theorem anyValueHdr_ref {env : Env} {name : Bytes} (h : aliasOf env name = none) (value : Bytes) :
    anyValueHdr env (.ref name) value = some 0 := by
  simp [anyValueHdr, isStructOrUnpacked_ref' h]

theorem decAnyValue_nil : decAnyValue [] = some ([], 0) := by simp [decAnyValue]

theorem decAnyValue_field (buf2 : Bytes) (h : buf2.length < 2 ^ 64) :
    decAnyValue (encKey 2 .blen ++ encBytes buf2) =
      some (buf2, (encKey 2 .blen).length + uvarintSize buf2.length) := by
  unfold decAnyValue
  have hne : (encKey 2 .blen ++ encBytes buf2).isEmpty = false := by
    have := encKey_ne_nil 2 .blen
    cases hk : encKey 2 .blen with
    | nil => exact absurd hk this
    | cons _ _ => rfl
  have hkey := decKeyRaw_encKey 2 .blen (by norm_num) (by norm_num) (encBytes buf2)
  have hb : decBytes (encBytes buf2) = some (buf2, (encBytes buf2).length) := by
    have := decBytes_encBytes buf2 [] h
    simpa using this
  simp only [hne, Bool.false_eq_true, if_false, hkey, List.drop_left, hb]
  have hcode : Typ3.blen.code = 2 := rfl
  simp only [hcode, ne_eq, not_true_eq_false, or_self, if_false]
  have hdrop : List.drop ((encKey 2 .blen).length + (encBytes buf2).length) (encKey 2 .blen ++ encBytes buf2) = [] := by
    rw [← List.length_append]; simp
  simp only [hdrop, List.isEmpty_nil, if_true, Option.some.injEq, Prod.mk.injEq, true_and]
  rw [encBytes]
  simp [uvarintSize]

/-- the interface decoder on an envelope produced by the encoder for a registered
struct type. -/
theorem decIface_envelope (env : Env) (k : Nat) (id name n : Bytes) (ifs : List Bytes) (fs : List FieldD)
    (rs : List Nat) (buf2 rest : Bytes) (depth' : Nat) (cv : Val)
    (hfind : env.find? name = some ⟨n, ifs, .struct fs rs⟩) (hid : ifs.contains id = true)
    (hname : nameOK name = true) (hdepth : depth' ≤ maxAnyDepth)
    (hlenE : (anyEnvelope name buf2).length < 2 ^ 64) (hlen2 : buf2.length < 2 ^ 64) (hb0 : buf2 ≠ [0])
    (hcv : if buf2.isEmpty then cv = zeroOf env (.ref name)
           else dec env k (.ref name) buf2 1 true false depth' = some (cv, buf2.length)) :
    decIface env (k + 1) id (encBytes (anyEnvelope name buf2) ++ rest) false depth' =
      some (.any name cv, (encBytes (anyEnvelope name buf2)).length) := by
  obtain ⟨hascii, hfull, hnl⟩ := nameOK_facts hname
  have ha := aliasOf_struct hfind
  simp only [decIface]
  have hd : ¬ depth' > maxAnyDepth := by omega
  simp only [hd, if_false]
  have hmb : decMaybeBare (encBytes (anyEnvelope name buf2) ++ rest) false =
      some (anyEnvelope name buf2, uvarintSize (anyEnvelope name buf2).length) := by
    simp [decMaybeBare, decBytes_encBytes _ rest hlenE]
  simp only [hmb]
  have hne : (anyEnvelope name buf2).isEmpty = false := by
    have := anyEnvelope_ne_nil name buf2
    cases h : anyEnvelope name buf2 with
    | nil => exact absurd h this
    | cons _ _ => rfl
  simp only [hne, Bool.false_eq_true, if_false]
  -- unfold the envelope
  have hb0' : (buf2 == [0]) = false := by simpa using hb0
  by_cases hemp : buf2 = []
  · -- empty value: only the type URL
    subst hemp
    have hE : anyEnvelope name [] = encKey 1 .blen ++ encBytes (47 :: name) := by
      simp [anyEnvelope]
    rw [hE]
    have hkey := decKeyRaw_encKey 1 .blen (by norm_num) (by norm_num) (encBytes (47 :: name))
    have hcode : Typ3.blen.code = 2 := rfl
    simp only [hkey, hcode, ne_eq, not_true_eq_false, or_self, if_false, List.drop_left]
    have hb : decBytes (encBytes (47 :: name)) = some (47 :: name, (encBytes (47 :: name)).length) := by
      have := decBytes_encBytes (47 :: name) [] hnl
      simpa using this
    simp only [hb]
    have hdrop : List.drop ((encKey 1 .blen).length + (encBytes (47 :: name)).length)
        (encKey 1 .blen ++ encBytes (47 :: name)) = [] := by
      rw [← List.length_append]; simp
    simp only [hdrop, decAnyValue_nil, hascii, Bool.not_true, Bool.false_eq_true, if_false, hfull, hfind, hid,
      List.isEmpty_nil, if_true, ctdOf]
    simp only [List.isEmpty_nil, if_true] at hcv
    rw [hcv]
    simp [encBytes_length', uvarintSize]
    omega
  · -- type URL and value
    have hemp' : buf2.isEmpty = false := by
      cases buf2 with
      | nil => exact absurd rfl hemp
      | cons _ _ => rfl
    have hE : anyEnvelope name buf2 =
        encKey 1 .blen ++ (encBytes (47 :: name) ++ (encKey 2 .blen ++ encBytes buf2)) := by
      simp [anyEnvelope, hemp', hb0']
    rw [hE]
    have hkey := decKeyRaw_encKey 1 .blen (by norm_num) (by norm_num)
      (encBytes (47 :: name) ++ (encKey 2 .blen ++ encBytes buf2))
    have hcode : Typ3.blen.code = 2 := rfl
    simp only [hkey, hcode, ne_eq, not_true_eq_false, or_self, if_false, List.drop_left]
    have hb := decBytes_encBytes (47 :: name) (encKey 2 .blen ++ encBytes buf2) hnl
    simp only [hb]
    have hdrop : List.drop ((encKey 1 .blen).length + (encBytes (47 :: name)).length)
        (encKey 1 .blen ++ (encBytes (47 :: name) ++ (encKey 2 .blen ++ encBytes buf2))) =
        encKey 2 .blen ++ encBytes buf2 := by
      rw [← List.append_assoc, ← List.length_append, List.drop_left]
    simp only [hdrop, decAnyValue_field buf2 hlen2, hascii, Bool.not_true, Bool.false_eq_true, if_false, hfull,
      hfind, hid, hemp', ctdOf, anyValueHdr_ref ha, List.drop_zero, Bool.not_not]
    simp only [hemp', Bool.false_eq_true, if_false] at hcv
    have hsu : isStructOrUnpacked env (.ref name) = true := isStructOrUnpacked_ref' ha
    simp only [hsu, hcv]
    have hlt : ¬ (0 + buf2.length < buf2.length) := by omega
    simp only [hlt, if_false, Option.some.injEq, Prod.mk.injEq, true_and]
    simp only [encBytes_length', List.length_append, uvarintSize]
    omega

end GnoVerif.C20
