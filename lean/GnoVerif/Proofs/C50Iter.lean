import GnoVerif.Proofs.C50Avl
/-! C50 helper lemmas: range traversal (TraverseInRange with leavesOnly) visits exactly the
filtered (reversed) sorted list, stopping early when the callback says so. -/
namespace GnoVerif.C50
open OMap

namespace OMap
variable {α σ : Type}

theorem runCb_append (cb : σ → Key → α → σ × Bool) (s : σ) (a b : List (Key × α)) :
    runCb cb s (a ++ b) =
      match runCb cb s a with
      | (s', true) => (s', true)
      | (s', false) => runCb cb s' b := by
  induction a generalizing s with
  | nil => simp [runCb]
  | cons p t ih =>
    obtain ⟨k, v⟩ := p
    simp only [List.cons_append, runCb]
    cases h : cb s k v with
    | mk s1 st =>
      cases st with
      | true => simp
      | false => simp [ih]

theorem filter_eq_nil_of {p : Key → Bool} {l : List (Key × α)} (h : ∀ x ∈ keys l, p x = false) :
    l.filter (fun e => p e.1) = [] := by
  rw [List.filter_eq_nil_iff]
  intro e he
  have := h e.1 (by simp only [keys, List.mem_map]; exact ⟨e, he, rfl⟩)
  simp [this]

end OMap

namespace Node
variable {α σ : Type}

/-- leaf view of a node-level callback -/
def leafCb (f : σ → Node α → σ × Bool) : σ → Key → α → σ × Bool :=
  fun s k v => f s (leaf k v)

theorem inRange_iff (start end_ : Key) (asc : Bool) (k : Key) :
    inRange start end_ asc k = true ↔
      ((start = [] ∨ start ≤ k) ∧
        (if asc = true then (end_ = [] ∨ k < end_) else (end_ = [] ∨ k ≤ end_))) := by
  cases asc <;> simp [inRange]

theorem range_singleton (start end_ : Key) (asc : Bool) (k : Key) (v : α) :
    range [(k, v)] start end_ asc = if inRange start end_ asc k = true then [(k, v)] else [] := by
  cases asc <;> simp only [range, List.filter_cons, List.filter_nil] <;>
    cases inRange start end_ _ k <;> simp

theorem range_append (a b : List (Key × α)) (start end_ : Key) (asc : Bool) :
    range (a ++ b) start end_ asc =
      if asc = true then range a start end_ asc ++ range b start end_ asc
      else range b start end_ asc ++ range a start end_ asc := by
  cases asc <;> simp [range]

theorem range_eq_nil {l : List (Key × α)} {start end_ : Key} {asc : Bool}
    (h : ∀ x ∈ keys l, inRange start end_ asc x = false) : range l start end_ asc = [] := by
  have := filter_eq_nil_of (p := inRange start end_ asc) h
  cases asc <;> simp [range, this]

theorem traverseInRange_spec {n : Node α} (start end_ : Key) (asc : Bool)
    (f : σ → Node α → σ × Bool) (s : σ) (hi : n.Inv) (hs : Sorted n.toList) :
    n.traverseInRange start end_ asc true f s =
      runCb (leafCb f) s (range n.toList start end_ asc) := by
  induction n generalizing s with
  | leaf nk nv =>
    simp only [traverseInRange, toList_leaf, range_singleton]
    by_cases hr : inRange start end_ asc nk = true
    · rw [if_pos ((inRange_iff start end_ asc nk).1 hr), if_pos hr]
      simp only [runCb, leafCb]
      split <;> simp_all
    · rw [if_neg (fun h => hr ((inRange_iff start end_ asc nk).2 h)), if_neg hr]
      rfl
  | inner nk h sz l r ihl ihr =>
    obtain ⟨hsl, hsr, hbl, hbr, hmem⟩ := bounds hi hs
    rw [inv_inner] at hi
    obtain ⟨hil, hir, hk, -⟩ := hi
    simp only [traverseInRange, toList_inner, range_append, Bool.not_true, Bool.false_eq_true, if_false]
    -- pruning facts
    have hleft : ¬ (start = [] ∨ start < nk) → range l.toList start end_ asc = [] := by
      intro hn
      apply range_eq_nil
      intro x hx
      have := hbl x hx
      have hne : ¬ ((start = [] ∨ start ≤ x)) := by
        rintro (h0 | h0)
        · exact hn (Or.inl h0)
        · exact hn (Or.inr (by grind))
      cases hc : inRange start end_ asc x with
      | false => rfl
      | true => exact absurd ((inRange_iff _ _ _ _).1 hc).1 hne
    cases asc with
    | true =>
      simp only [if_true]
      have hright : ¬ (end_ = [] ∨ nk < end_) → range r.toList start end_ true = [] := by
        intro hn
        apply range_eq_nil
        intro y hy
        have := hbr y hy
        have hne : ¬ (end_ = [] ∨ y < end_) := by
          rintro (h0 | h0)
          · exact hn (Or.inl h0)
          · exact hn (Or.inr (by grind))
        cases hc : inRange start end_ true y with
        | false => rfl
        | true => exact absurd (by simpa using ((inRange_iff _ _ _ _).1 hc).2) hne
      rw [runCb_append]
      by_cases ha : start = [] ∨ start < nk
      · rw [if_pos ha, ihl s hil hsl]
        cases hrun : runCb (leafCb f) s (range l.toList start end_ true) with
        | mk s1 st =>
          cases st with
          | true => simp
          | false =>
            simp only [Bool.false_eq_true, if_false]
            by_cases hb : end_ = [] ∨ nk < end_
            · rw [if_pos hb, ihr s1 hir hsr]
            · rw [if_neg hb, hright hb]; rfl
      · rw [if_neg ha, hleft ha]
        simp only [runCb, Bool.false_eq_true, if_false]
        by_cases hb : end_ = [] ∨ nk < end_
        · rw [if_pos hb, ihr s hir hsr]
        · rw [if_neg hb, hright hb]; rfl
    | false =>
      simp only [Bool.false_eq_true, if_false]
      have hright : ¬ (end_ = [] ∨ nk ≤ end_) → range r.toList start end_ false = [] := by
        intro hn
        apply range_eq_nil
        intro y hy
        have := hbr y hy
        have hne : ¬ (end_ = [] ∨ y ≤ end_) := by
          rintro (h0 | h0)
          · exact hn (Or.inl h0)
          · exact hn (Or.inr (by grind))
        cases hc : inRange start end_ false y with
        | false => rfl
        | true => exact absurd (by simpa using ((inRange_iff _ _ _ _).1 hc).2) hne
      rw [runCb_append]
      by_cases hb : end_ = [] ∨ nk ≤ end_
      · rw [if_pos hb, ihr s hir hsr]
        cases hrun : runCb (leafCb f) s (range r.toList start end_ false) with
        | mk s1 st =>
          cases st with
          | true => simp
          | false =>
            simp only [Bool.false_eq_true, if_false]
            by_cases ha : start = [] ∨ start < nk
            · rw [if_pos ha, ihl s1 hil hsl]
            · rw [if_neg ha, hleft ha]; rfl
      · rw [if_neg hb, hright hb]
        simp only [runCb, Bool.false_eq_true, if_false]
        by_cases ha : start = [] ∨ start < nk
        · rw [if_pos ha, ihl s hil hsl]
        · rw [if_neg ha, hleft ha]; rfl

end Node
end GnoVerif.C50
