import GnoVerif.Model.C46Armor
/-! Proofs.C46B64 — base64: `Decode(Encode(data)) = data` for Go's StdEncoding as modelled. -/
namespace GnoVerif.C46

theorem b64val_b64char : ∀ n : Fin 64, b64val (b64char n.val) = some n.val := by decide

theorem b64val_char (n : Nat) (h : n < 64) : b64val (b64char n) = some n := b64val_b64char ⟨n, h⟩

/-- a base64 digit is none of '\n' '\r' '-' '=' -/
theorem b64char_plain : ∀ n : Fin 64, (b64char n.val != 10 && b64char n.val != 13 && b64char n.val != 45 && b64char n.val != 61) = true := by
  decide

theorem ofNat_toNat8 (a : UInt8) : UInt8.ofNat a.toNat = a := by simp

theorem quantum4 (a b c : UInt8) :
    quantumBytes [a.toNat / 4, a.toNat % 4 * 16 + b.toNat / 16, b.toNat % 16 * 4 + c.toNat / 64, c.toNat % 64] = [a, b, c] := by
  have ha := UInt8.toNat_lt a
  have hb := UInt8.toNat_lt b
  have hc := UInt8.toNat_lt c
  simp only [quantumBytes]
  have h1 : (a.toNat / 4 * 262144 + (a.toNat % 4 * 16 + b.toNat / 16) * 4096 + (b.toNat % 16 * 4 + c.toNat / 64) * 64 + c.toNat % 64) / 65536 % 256 = a.toNat := by omega
  have h2 : (a.toNat / 4 * 262144 + (a.toNat % 4 * 16 + b.toNat / 16) * 4096 + (b.toNat % 16 * 4 + c.toNat / 64) * 64 + c.toNat % 64) / 256 % 256 = b.toNat := by omega
  have h3 : (a.toNat / 4 * 262144 + (a.toNat % 4 * 16 + b.toNat / 16) * 4096 + (b.toNat % 16 * 4 + c.toNat / 64) * 64 + c.toNat % 64) % 256 = c.toNat := by omega
  rw [h1, h2, h3, ofNat_toNat8, ofNat_toNat8, ofNat_toNat8]

theorem quantum3 (a b : UInt8) :
    quantumBytes [a.toNat / 4, a.toNat % 4 * 16 + b.toNat / 16, b.toNat % 16 * 4] = [a, b] := by
  have ha := UInt8.toNat_lt a
  have hb := UInt8.toNat_lt b
  simp only [quantumBytes]
  have h1 : (a.toNat / 4 * 262144 + (a.toNat % 4 * 16 + b.toNat / 16) * 4096 + (b.toNat % 16 * 4) * 64) / 65536 % 256 = a.toNat := by omega
  have h2 : (a.toNat / 4 * 262144 + (a.toNat % 4 * 16 + b.toNat / 16) * 4096 + (b.toNat % 16 * 4) * 64) / 256 % 256 = b.toNat := by omega
  rw [h1, h2, ofNat_toNat8, ofNat_toNat8]

theorem quantum2 (a : UInt8) : quantumBytes [a.toNat / 4, a.toNat % 4 * 16] = [a] := by
  have ha := UInt8.toNat_lt a
  simp only [quantumBytes]
  have h1 : (a.toNat / 4 * 262144 + (a.toNat % 4 * 16) * 4096) / 65536 % 256 = a.toNat := by omega
  rw [h1, ofNat_toNat8]

theorem b64val_eq : b64val 61 = none := by decide

/-- `Decode(Encode(data)) = data` -/
theorem b64decode_enc (data : Bytes) : b64decode (b64enc data) = some data := by
  unfold b64decode
  fun_induction b64enc data with
  | case1 a b c r ih =>
    have ha := UInt8.toNat_lt a
    have hb := UInt8.toNat_lt b
    have hc := UInt8.toNat_lt c
    simp only [b64decodeAux, b64val_char _ (show a.toNat / 4 < 64 by omega),
      b64val_char _ (show a.toNat % 4 * 16 + b.toNat / 16 < 64 by omega),
      b64val_char _ (show b.toNat % 16 * 4 + c.toNat / 64 < 64 by omega),
      b64val_char _ (show c.toNat % 64 < 64 by omega), List.length_nil, List.length_cons]
    simp only [Nat.reduceAdd, Nat.reduceEqDiff, if_false, if_true, ih, Option.map_some, List.reverse_cons,
      List.reverse_nil, List.nil_append, List.cons_append, quantum4]
  | case2 a b =>
    have ha := UInt8.toNat_lt a
    have hb := UInt8.toNat_lt b
    simp only [b64decodeAux, b64val_char _ (show a.toNat / 4 < 64 by omega),
      b64val_char _ (show a.toNat % 4 * 16 + b.toNat / 16 < 64 by omega),
      b64val_char _ (show b.toNat % 16 * 4 < 64 by omega), b64val_eq, List.length_nil, List.length_cons]
    simp [isNL, quantum3]
  | case3 a =>
    have ha := UInt8.toNat_lt a
    simp only [b64decodeAux, b64val_char _ (show a.toNat / 4 < 64 by omega),
      b64val_char _ (show a.toNat % 4 * 16 < 64 by omega), b64val_eq, List.length_nil, List.length_cons]
    simp [isNL, quantum2]
  | case4 => simp [b64decodeAux]

end GnoVerif.C46
