import GnoVerif.Proofs.C08Inv
/-! C08 — keeper-level transfers (msg.Send, bank send, storage deposit): what they log and
that balances follow the log. -/
namespace GnoVerif.C08

/-- balances = initial balances + what the log records -/
def BankBal (led0 : Ledger) (b : Bank) : Prop := ∀ a d, b.led.bal a d = led0.bal a d + logSum b.log a d

theorem logSum_nil (a : Addr) (d : Str) : logSum [] a d = 0 := by simp [logSum]

theorem BankBal.init (led0 : Ledger) : BankBal led0 ⟨led0, []⟩ := by
  intro a d; simp [logSum_nil]

theorem BankBal.move {led0 : Ledger} {b : Bank} (h : BankBal led0 b) (a : Addr) (d : Str) (x : Int) (c : Cause) :
    BankBal led0 (b.move a d x c) := by
  intro a' d'
  have := h a' d'
  simp only [Bank.move, Ledger.credit, logSum_cons]
  by_cases hh : a' = a ∧ d' = d
  · obtain ⟨rfl, rfl⟩ := hh
    simp only [and_self, if_true]; omega
  · have h2 : ¬ (a = a' ∧ d = d') := fun h3 => hh ⟨h3.1.symm, h3.2.symm⟩
    simp only [hh, h2, if_false]; omega

/-- the operation appended events of cause `c` only, debiting nobody but `src`, and left supplies alone -/
def NewEvents (b b' : Bank) (c : Cause) (src : Addr) : Prop :=
  (∃ l, b'.log = l ++ b.log ∧ ∀ e ∈ l, e.cause = c ∧ (e.amt < 0 → e.addr = src)) ∧ b'.led.supply = b.led.supply

theorem NewEvents.refl (b : Bank) (c : Cause) (src : Addr) : NewEvents b b c src :=
  ⟨⟨[], by simp, by intro e he; cases he⟩, rfl⟩

theorem NewEvents.trans {b1 b2 b3 : Bank} {c : Cause} {src : Addr}
    (h1 : NewEvents b1 b2 c src) (h2 : NewEvents b2 b3 c src) : NewEvents b1 b3 c src := by
  obtain ⟨⟨l1, e1, k1⟩, s1⟩ := h1
  obtain ⟨⟨l2, e2, k2⟩, s2⟩ := h2
  refine ⟨⟨l2 ++ l1, by rw [e2, e1, List.append_assoc], ?_⟩, by rw [s2, s1]⟩
  intro e he
  rcases List.mem_append.mp he with h | h
  · exact k2 e h
  · exact k1 e h

theorem NewEvents.move (b : Bank) (a : Addr) (d : Str) (x : Int) (c : Cause) (src : Addr) (h : x < 0 → a = src) :
    NewEvents b (b.move a d x c) c src :=
  ⟨⟨[⟨a, d, x, c⟩], by simp [Bank.move], by
    intro e he
    rcases List.mem_singleton.mp he with rfl
    exact ⟨rfl, h⟩⟩, by simp [Bank.move, Ledger.credit]⟩

theorem debitAll_spec (led0 : Ledger) (a : Addr) (c : Cause) :
    ∀ (cs : Coins) (b : Bank), BankBal led0 b →
      BankBal led0 (debitAll b a cs c) ∧ NewEvents b (debitAll b a cs c) c a
  | [], b, hb => by simpa [debitAll] using ⟨hb, NewEvents.refl b c a⟩
  | coin :: rest, b, hb => by
    have h1 := hb.move a coin.denom (-coin.amount) c
    have ⟨h2, h3⟩ := debitAll_spec led0 a c rest (b.move a coin.denom (-coin.amount) c) h1
    have h4 := NewEvents.move b a coin.denom (-coin.amount) c a (fun _ => rfl)
    simpa [debitAll, List.foldl] using ⟨h2, h4.trans h3⟩

theorem creditAll_spec (led0 : Ledger) (a : Addr) (c : Cause) (src : Addr) :
    ∀ (cs : Coins) (b : Bank), BankBal led0 b → (∀ coin ∈ cs, 0 < coin.amount) →
      BankBal led0 (creditAll b a cs c) ∧ NewEvents b (creditAll b a cs c) c src
  | [], b, hb, _ => by simpa [creditAll] using ⟨hb, NewEvents.refl b c src⟩
  | coin :: rest, b, hb, hpos => by
    have h1 := hb.move a coin.denom coin.amount c
    have ⟨h2, h3⟩ := creditAll_spec led0 a c src rest (b.move a coin.denom coin.amount c) h1
      (fun x hx => hpos x (List.mem_cons_of_mem _ hx))
    have hp := hpos coin (List.mem_cons_self ..)
    have h4 := NewEvents.move b a coin.denom coin.amount c src (fun hneg => absurd hneg (by omega))
    simpa [creditAll, List.foldl] using ⟨h2, h4.trans h3⟩

theorem sendUnrestricted_spec (led0 : Ledger) (b b' : Bank) (src dst : Addr) (cs : Coins) (c : Cause)
    (hb : BankBal led0 b) (h : sendUnrestricted b src dst cs c = .ok b') :
    BankBal led0 b' ∧ NewEvents b b' c src := by
  unfold sendUnrestricted at h
  obtain ⟨b1, h1, h2⟩ := bind_ok h
  unfold subtractCoins at h1
  split at h1
  · cases h1
  · split at h1
    · cases h1
    · rename_i hv _
      cases h1
      unfold addCoins at h2
      split at h2
      · cases h2
      · cases h2
        have hpos : ∀ coin ∈ cs, 0 < coin.amount := coinsValid_pos cs (by simpa using hv)
        have ⟨d1, d2⟩ := debitAll_spec led0 src c cs b hb
        have ⟨c1, c2⟩ := creditAll_spec led0 dst c src cs _ d1 hpos
        exact ⟨c1, d2.trans c2⟩

theorem sendCoins_spec (led0 : Ledger) (r : Bool) (b b' : Bank) (src dst : Addr) (cs : Coins) (c : Cause)
    (hb : BankBal led0 b) (h : sendCoins r b src dst cs c = .ok b') :
    BankBal led0 b' ∧ NewEvents b b' c src := by
  unfold sendCoins at h
  split at h
  · cases h; exact ⟨hb, NewEvents.refl b c src⟩
  · split at h
    · cases h
    · exact sendUnrestricted_spec led0 b b' src dst cs c hb h

end GnoVerif.C08
