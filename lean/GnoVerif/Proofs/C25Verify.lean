import GnoVerif.Proofs.C25Sound
/-!
Helper lemmas for C25: lifting the tree-level results to the model's
`SimpleProof.verify` / `computeRootHash` / `proofFor`.
-/
namespace GnoVerif.C25

theorem verify_ok_iff (H : Bytes → Bytes) (p : SimpleProof) (root : Option Bytes) (leaf : Bytes) :
    p.verify H root leaf = .ok () ↔
      0 ≤ p.total ∧ 0 ≤ p.index ∧ bytesEqual p.leafHash (some (leafHash H leaf)) = true ∧
      p.computeRootHash H ≠ none ∧ bytesEqual (p.computeRootHash H) root = true := by
  unfold SimpleProof.verify
  simp only []
  split
  · constructor
    · intro h; cases h
    · intro h; omega
  · split
    · constructor
      · intro h; cases h
      · intro h; omega
    · split
      · constructor
        · intro h; cases h
        · intro h; simp_all
      · split
        · constructor
          · intro h; cases h
          · intro h; simp_all
        · constructor
          · intro _; refine ⟨by omega, by omega, by simp_all, by simp_all, by simp_all⟩
          · intro _; rfl

/-- the pre-96b4d2262f `Verify` (no `computedHash == nil` test), kept only to state what the fix removed -/
def SimpleProof.verifyOld (H : Bytes → Bytes) (sp : SimpleProof) (rootHash : Option Bytes) (leaf : Bytes) :
    Except VerifyErr Unit :=
  let lh := C25.leafHash H leaf
  if sp.total < 0 then .error .total
  else if sp.index < 0 then .error .index
  else if ¬ bytesEqual sp.leafHash (some lh) then .error .leafHash
  else if ¬ bytesEqual (sp.computeRootHash H) rootHash then .error .root
  else .ok ()

/-- when the computed root is `some`, the guard held and the hash is the path hash -/
theorem computeRootHash_some {H : Bytes → Bytes} {p : SimpleProof} {h : Bytes}
    (hc : p.computeRootHash H = some h) :
    0 ≤ p.index ∧ p.index < p.total ∧
      chfaPath H (turns p.index.toNat p.total.toNat) p.leafHash p.aunts.reverse = some h := by
  unfold SimpleProof.computeRootHash computeHashFromAunts at hc
  split at hc
  · cases hc
  · rename_i hg
    have h1 : 0 ≤ p.index := by omega
    have h2 : p.index < p.total := by omega
    refine ⟨h1, h2, ?_⟩
    rw [← chfa_eq_path H _ _ _ _ (by omega)]
    exact hc

theorem computeRootHash_of_path {H : Bytes → Bytes} {p : SimpleProof}
    (h1 : 0 ≤ p.index) (h2 : p.index < p.total) :
    p.computeRootHash H = chfaPath H (turns p.index.toNat p.total.toNat) p.leafHash p.aunts.reverse := by
  unfold SimpleProof.computeRootHash computeHashFromAunts
  have hg : ¬ (p.index ≥ p.total ∨ p.index < 0 ∨ p.total ≤ 0) := by omega
  rw [if_neg hg, chfa_eq_path H _ _ _ _ (by omega)]

theorem bytesEqual_some_nonempty {a : Option Bytes} {b : Bytes} (hb : b ≠ []) (h : bytesEqual a (some b) = true) :
    a = some b := by
  unfold bytesEqual at h
  cases a with
  | none => simp at h; exact absurd h hb
  | some x => simp at h; rw [h]

theorem bytesEqual_refl (a : Option Bytes) : bytesEqual a a = true := by simp [bytesEqual]

theorem ne_nil_of_len {b : Bytes} {sz : Nat} (hpos : 0 < sz) (h : b.length = sz) : b ≠ [] := by
  intro hc; subst hc; simp at h; omega

theorem hashFrom_of_ne_nil {H : Bytes → Bytes} {items : List Bytes} (hne : items ≠ []) :
    simpleHashFromByteSlices H items = some ((build items).hash H) := by
  unfold simpleHashFromByteSlices
  have : items.isEmpty = false := by cases items <;> simp_all
  rw [this, ← treeHash_eq H _ items rfl hne]; rfl

/-- the data the verifier has established when `verify` succeeds (against ANY root):
the root is a non-empty byte string and equals the hash chain of the claimed path -/
theorem verify_ok_path {H : Bytes → Bytes} {sz : Nat} (hsz : ∀ x, (H x).length = sz) (hpos : 0 < sz)
    {p : SimpleProof} {root : Option Bytes} {leaf : Bytes}
    (hv : p.verify H root leaf = .ok ()) :
    ∃ r, root = some r ∧ r ≠ [] ∧ 0 ≤ p.index ∧ p.index < p.total ∧ p.leafHash = some (leafHash H leaf) ∧
      chfaPath H (turns p.index.toNat p.total.toNat) (some (leafHash H leaf)) p.aunts.reverse = some r := by
  obtain ⟨_, _, hl, hn, hc⟩ := (verify_ok_iff H p _ leaf).1 hv
  have hlh : (leafHash H leaf).length = sz := by simp [leafHash, hsz]
  have hl' := bytesEqual_some_nonempty (ne_nil_of_len hpos hlh) hl
  cases hcr : p.computeRootHash H with
  | none => exact absurd hcr hn
  | some c =>
    obtain ⟨a, b, cp⟩ := computeRootHash_some hcr
    rw [hl'] at cp
    have hclen : c.length = sz := chfaPath_len hsz _ _ _ _ hlh cp
    have hcne : c ≠ [] := ne_nil_of_len hpos hclen
    rw [hcr] at hc
    have hroot : root = some c := by
      unfold bytesEqual at hc
      cases root with
      | none => simp at hc; exact absurd hc hcne
      | some x => simp at hc; rw [hc]
    exact ⟨c, hroot, hcne, a, b, hl', cp⟩

theorem complete_model (H : Bytes → Bytes) (items : List Bytes) (i : Nat) (hi : i < items.length) :
    (proofFor H items i).verify H (simpleHashFromByteSlices H items) items[i] = .ok () := by
  have hne : items ≠ [] := by intro h; subst h; simp at hi
  rw [verify_ok_iff]
  have hget : items.getD i [] = items[i] := by simp [List.getD, List.getElem?_eq_getElem hi]
  have hget' : items[i]?.getD [] = items[i] := by simp [List.getElem?_eq_getElem hi]
  have hcr : (proofFor H items i).computeRootHash H = some ((build items).hash H) := by
    rw [computeRootHash_of_path (by simp [proofFor]) (by simp [proofFor]; omega)]
    have hpath := leafAt_turns _ items i rfl hi
    rw [List.getElem?_eq_getElem hi] at hpath
    have := complete_tree H (build items) _ _ hpath
    simp only [proofFor, Int.toNat_natCast, hget]
    rw [auntsFor_rev H _ items i rfl hi, this]
  refine ⟨by simp [proofFor], by simp [proofFor], ?_, ?_, ?_⟩
  · simp [proofFor, hget', bytesEqual]
  · rw [hcr]; simp
  · rw [hcr, hashFrom_of_ne_nil hne]
    exact bytesEqual_refl _

/-- every leaf path of `build items` is the turn sequence of an index -/
theorem leafAt_build_inv : ∀ (n : Nat) (items : List Bytes) (p : List Bool) (x : Bytes), items.length = n → items ≠ [] →
    (build items).leafAt p = some x → ∃ j, j < items.length ∧ turns j items.length = p ∧ items[j]? = some x := by
  intro n
  induction n using Nat.strongRecOn with
  | _ n ih =>
    intro items p x hn hne h
    match items, hne with
    | [y], _ =>
      cases p with
      | nil => simp [build, Tree.leafAt] at h; exact ⟨0, by simp, by simp [turns_one], by simp [h]⟩
      | cons d ds => simp [build, Tree.leafAt] at h
    | y :: z :: rest, _ =>
      have h2 : 2 ≤ (y :: z :: rest).length := by simp
      have hlt := getSplitPoint_lt h2
      have hpos := getSplitPoint_pos h2
      have hne1 := take_ne_nil h2
      have hne2 := drop_ne_nil h2
      rw [build_two h2] at h
      generalize hk : getSplitPoint (y :: z :: rest).length = k at *
      generalize hl : (y :: z :: rest) = l at *
      cases p with
      | nil => simp [Tree.leafAt] at h
      | cons d ds =>
        cases d with
        | false =>
          rw [Tree.leafAt] at h
          have hlen : (l.take k).length = k := by rw [List.length_take]; omega
          obtain ⟨j, hj, ht, hx⟩ := ih k (by omega) (l.take k) ds x hlen hne1 h
          rw [hlen] at hj ht
          refine ⟨j, by omega, ?_, ?_⟩
          · rw [turns_two h2, hk, if_pos hj, ht]
          · rw [List.getElem?_take] at hx; simpa [hj] using hx
        | true =>
          rw [Tree.leafAt] at h
          have hlen : (l.drop k).length = l.length - k := by rw [List.length_drop]
          obtain ⟨j, hj, ht, hx⟩ := ih (l.length - k) (by omega) (l.drop k) ds x hlen hne2 h
          rw [hlen] at hj ht
          refine ⟨j + k, by omega, ?_, ?_⟩
          · rw [turns_two h2, hk, if_neg (by omega)]
            simp only [Nat.add_sub_cancel]; rw [ht]
          · rw [List.getElem?_drop] at hx; rw [Nat.add_comm]; exact hx

theorem turns_inj : ∀ (n i j : Nat), i < n → j < n → turns i n = turns j n → i = j := by
  intro n
  induction n using Nat.strongRecOn with
  | _ n ih =>
    intro i j hi hj h
    by_cases h1 : n = 1
    · omega
    · have h2 : 2 ≤ n := by omega
      have hlt := getSplitPoint_lt h2
      have hpos := getSplitPoint_pos h2
      rw [turns_two h2, turns_two h2] at h
      by_cases a : i < getSplitPoint n <;> by_cases b : j < getSplitPoint n <;> simp [a, b] at h
      · exact ih _ hlt i j a b h
      · have := ih _ (by omega) _ _ (by omega) (by omega) h; omega

/-- `(index, total)` enter the computed root only through the turn sequence -/
theorem computeRootHash_congr_turns {H : Bytes → Bytes} {p q : SimpleProof}
    (hp1 : 0 ≤ p.index) (hp2 : p.index < p.total) (hq1 : 0 ≤ q.index) (hq2 : q.index < q.total)
    (hl : p.leafHash = q.leafHash) (ha : p.aunts = q.aunts)
    (ht : turns p.index.toNat p.total.toNat = turns q.index.toNat q.total.toNat) :
    p.computeRootHash H = q.computeRootHash H := by
  rw [computeRootHash_of_path hp1 hp2, computeRootHash_of_path hq1 hq2, hl, ha, ht]

end GnoVerif.C25

namespace GnoVerif.C25

/-- the collision candidate computed from a proof presented against the tree of `items` -/
def collisionOf (H : Bytes → Bytes) (items : List Bytes) (p : SimpleProof) (leaf : Bytes) : Bytes × Bytes :=
  collide H (build items) (turns p.index.toNat p.total.toNat) leaf p.aunts.reverse

/-- the collision candidate computed from two proofs for the same position -/
def collisionOf2 (H : Bytes → Bytes) (p₁ p₂ : SimpleProof) (leaf₁ leaf₂ : Bytes) : Bytes × Bytes :=
  collide2 H (turns p₁.index.toNat p₁.total.toNat) leaf₁ leaf₂ p₁.aunts.reverse p₂.aunts.reverse

/-- a toy hash for non-vacuity examples: one byte, the sum of the input -/
def toyH (b : Bytes) : Bytes := [b.foldl (· + ·) 0]

theorem toyH_len (x : Bytes) : (toyH x).length = 1 := rfl

theorem verify_congr_turns {H : Bytes → Bytes} {p q : SimpleProof} (root : Option Bytes) (leaf : Bytes)
    (hp1 : 0 ≤ p.index) (hp2 : p.index < p.total) (hq1 : 0 ≤ q.index) (hq2 : q.index < q.total)
    (hl : p.leafHash = q.leafHash) (ha : p.aunts = q.aunts)
    (ht : turns p.index.toNat p.total.toNat = turns q.index.toNat q.total.toNat) :
    p.verify H root leaf = q.verify H root leaf := by
  unfold SimpleProof.verify
  simp only []
  rw [computeRootHash_congr_turns hp1 hp2 hq1 hq2 hl ha ht, hl]
  have a1 : ¬ p.total < 0 := by omega
  have a2 : ¬ q.total < 0 := by omega
  have a3 : ¬ p.index < 0 := by omega
  have a4 : ¬ q.index < 0 := by omega
  simp only [a1, a2, a3, a4, if_false]

theorem sound_model {H : Bytes → Bytes} {sz : Nat} (hsz : ∀ x, (H x).length = sz) (hpos : 0 < sz)
    {items : List Bytes} {p : SimpleProof} {leaf : Bytes}
    (hv : p.verify H (simpleHashFromByteSlices H items) leaf = .ok ()) :
    items ≠ [] ∧ 0 ≤ p.index ∧ p.index < p.total ∧
    ((build items).leafAt (turns p.index.toNat p.total.toNat) = some leaf ∨
      IsCollision H (collisionOf H items p leaf)) := by
  obtain ⟨r, hr, _, h1, h2, _, hc⟩ := verify_ok_path hsz hpos hv
  have hne : items ≠ [] := by
    intro h; subst h; simp [simpleHashFromByteSlices] at hr
  rw [hashFrom_of_ne_nil hne] at hr
  have : r = (build items).hash H := by simpa using hr.symm
  subst this
  exact ⟨hne, h1, h2, sound_tree hsz _ _ _ _ hc⟩

/-- the turn sequence has at most `e` turns when there are at most `2^e` leaves -/
theorem turns_length_le : ∀ (e n i : Nat), n ≤ 2 ^ e → (turns i n).length ≤ e := by
  intro e
  induction e with
  | zero =>
    intro n i h
    rw [turns]; simp at h; simp [h]
  | succ e ih =>
    intro n i h
    by_cases h1 : n ≤ 1
    · rw [turns]; simp [h1]
    · have h2 : 2 ≤ n := by omega
      obtain ⟨a, ha, hlo, hhi⟩ := getSplitPoint_spec h2
      have hae : a < e + 1 := (Nat.pow_lt_pow_iff_right (a := 2) (by decide)).1 (by omega)
      have hk : getSplitPoint n ≤ 2 ^ e := by
        rw [ha]; exact Nat.pow_le_pow_right (by decide) (by omega)
      have hk2 := getSplitPoint_le_twice h2
      rw [turns_two h2]
      split
      · simp only [List.length_cons]; have := ih _ i hk; omega
      · simp only [List.length_cons]; have := ih (n - getSplitPoint n) (i - getSplitPoint n) (by omega); omega

theorem auntsFor_length (H : Bytes → Bytes) (items : List Bytes) (i : Nat) (hi : i < items.length) :
    (auntsFor H items i).length = (turns i items.length).length := by
  have h1 := auntsFor_rev H _ items i rfl hi
  have h2 := leafAt_turns _ items i rfl hi
  rw [List.getElem?_eq_getElem hi] at h2
  have h3 := auntsRev_length H _ _ _ h2
  rw [← h1, List.length_reverse] at h3
  exact h3

theorem auntsRev_sizes {H : Bytes → Bytes} {sz : Nat} (hsz : ∀ x, (H x).length = sz) :
    ∀ (t : Tree) (p : List Bool), ∀ a ∈ t.auntsRev H p, a.length = sz := by
  intro t
  induction t with
  | leaf x => intro p a h; simp [Tree.auntsRev] at h
  | node l r ihl ihr =>
    intro p a h
    cases p with
    | nil => simp [Tree.auntsRev] at h
    | cons d ds =>
      cases d <;> simp only [Tree.auntsRev, List.mem_cons] at h
      · rcases h with h | h
        · rw [h]; exact tree_hash_len hsz r
        · exact ihl ds a h
      · rcases h with h | h
        · rw [h]; exact tree_hash_len hsz l
        · exact ihr ds a h

theorem valueOp_ok_iff (H : Bytes → Bytes) (key value : Bytes) (root : Option Bytes) (p : SimpleProof) :
    valueOpVerify H key value root p = .ok () ↔
      bytesEqual (some (leafHash H (mapLeaf H key value))) p.leafHash = true ∧
      ∃ c, p.computeRootHash H = some c ∧ bytesEqual root (some c) = true := by
  unfold valueOpVerify
  split
  · constructor
    · intro h; cases h
    · intro h; simp_all
  · cases hc : p.computeRootHash H with
    | none => simp
    | some c =>
      simp only []
      split
      · constructor
        · intro h; cases h
        · intro h; simp_all
      · constructor
        · intro _; exact ⟨by simp_all, c, rfl, by simp_all⟩
        · intro _; rfl

theorem bytesEqual_symm {a b : Option Bytes} (h : bytesEqual a b = true) : bytesEqual b a = true := by
  unfold bytesEqual at h ⊢; have := eq_of_beq h; rw [this]; exact beq_self_eq_true _

/-- what `SimpleValueOp` accepts, `Verify` accepts for the KVPair leaf (any root) -/
theorem valueOp_ok_verify {H : Bytes → Bytes} {key value : Bytes} {root : Option Bytes} {p : SimpleProof}
    (h : valueOpVerify H key value root p = .ok ()) :
    p.verify H root (mapLeaf H key value) = .ok () := by
  obtain ⟨h1, c, hc, h2⟩ := (valueOp_ok_iff H key value root p).1 h
  obtain ⟨a, b, _⟩ := computeRootHash_some hc
  rw [verify_ok_iff]
  refine ⟨by omega, a, bytesEqual_symm h1, by rw [hc]; simp, ?_⟩
  rw [hc]; exact bytesEqual_symm h2

/-- the pre-4d9045b816 `SimpleValueOp.Run` + root compare (nil computed root passed on), kept
only to state what the fix removed -/
def valueOpVerifyOld (H : Bytes → Bytes) (key value : Bytes) (root : Option Bytes) (p : SimpleProof) :
    Except ValueOpErr Unit :=
  if ¬ bytesEqual (some (leafHash H (mapLeaf H key value))) p.leafHash then .error .leafHash
  else if ¬ bytesEqual root (p.computeRootHash H) then .error .root
  else .ok ()

theorem getSplitPoint_7 : getSplitPoint 7 = 4 := getSplitPoint_eq (e := 2) (by decide) (by decide)
theorem getSplitPoint_5 : getSplitPoint 5 = 4 := getSplitPoint_eq (e := 2) (by decide) (by decide)
theorem getSplitPoint_4 : getSplitPoint 4 = 2 := getSplitPoint_eq (e := 1) (by decide) (by decide)

theorem turns_0_7_eq_turns_0_5 : turns 0 7 = turns 0 5 := by
  rw [turns_two (by decide), turns_two (t := 5) (by decide), getSplitPoint_7, getSplitPoint_5]
  simp


end GnoVerif.C25
