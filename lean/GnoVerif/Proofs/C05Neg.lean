import GnoVerif.Proofs.C05Bits
/-! C05: negation flips exactly the sign bit. -/
namespace GnoVerif.C05.L
open GnoVerif.Gen.C05

theorem getElem_lit_mask {w : Nat} (n v : Nat) (hv : v = 2^n - 1) (hn : n ≤ w) (i : Nat) (h : i < w) :
    (BitVec.ofNat w v)[i] = decide (i < n) := by
  subst hv
  rw [BitVec.getElem_eq_testBit_toNat, BitVec.toNat_ofNat, Nat.mod_eq_of_lt, Nat.testBit_two_pow_sub_one]
  have : 2^n ≤ 2^w := Nat.pow_le_pow_right (by decide) hn
  have : 0 < 2^n := Nat.two_pow_pos n
  omega

theorem getElem_lit_pow {w : Nat} (n v : Nat) (hv : v = 2^n) (hn : n < w) (i : Nat) (h : i < w) :
    (BitVec.ofNat w v)[i] = decide (i = n) := by
  subst hv
  rw [BitVec.getElem_eq_testBit_toNat, BitVec.toNat_ofNat, Nat.mod_eq_of_lt, Nat.testBit_two_pow]
  · simp [eq_comm]
  · exact Nat.pow_lt_pow_right (by decide) hn

theorem getLsbD_lit_mask {w : Nat} (n v : Nat) (hv : v = 2^n - 1) (hn : n ≤ w) (i : Nat) :
    (BitVec.ofNat w v).getLsbD i = decide (i < n) := by
  by_cases h : i < w
  · rw [BitVec.getLsbD_eq_getElem h, getElem_lit_mask n v hv hn i h]
  · rw [BitVec.getLsbD_of_ge _ _ (by omega)]; simp; omega

theorem getLsbD_lit_pow {w : Nat} (n v : Nat) (hv : v = 2^n) (hn : n < w) (i : Nat) :
    (BitVec.ofNat w v).getLsbD i = decide (i = n) := by
  by_cases h : i < w
  · rw [BitVec.getLsbD_eq_getElem h, getElem_lit_pow n v hv hn i h]
  · rw [BitVec.getLsbD_of_ge _ _ (by omega)]; simp; omega

@[simp] theorem ge_mant64 (i : Nat) (h : i < 64) : (4503599627370495#64)[i] = decide (i < 52) :=
  getElem_lit_mask 52 _ (by decide) (by decide) i h
@[simp] theorem ge_sign64 (i : Nat) (h : i < 64) : (9223372036854775808#64)[i] = decide (i = 63) :=
  getElem_lit_pow 63 _ (by decide) (by decide) i h
@[simp] theorem ge_exp64 (i : Nat) (h : i < 64) : (2047#64)[i] = decide (i < 11) :=
  getElem_lit_mask 11 _ (by decide) (by decide) i h
@[simp] theorem gl_sign64 (i : Nat) : (9223372036854775808#64).getLsbD i = decide (i = 63) :=
  getLsbD_lit_pow 63 _ (by decide) (by decide) i

@[simp] theorem ge_implicit64 (i : Nat) (h : i < 64) : (4503599627370496#64)[i] = decide (i = 52) :=
  getElem_lit_pow 52 _ (by decide) (by decide) i h
@[simp] theorem gl_mant64 (i : Nat) : (4503599627370495#64).getLsbD i = decide (i < 52) :=
  getLsbD_lit_mask 52 _ (by decide) (by decide) i
@[simp] theorem gl_exp64 (i : Nat) : (2047#64).getLsbD i = decide (i < 11) :=
  getLsbD_lit_mask 11 _ (by decide) (by decide) i
@[simp] theorem gl_implicit64 (i : Nat) : (4503599627370496#64).getLsbD i = decide (i = 52) :=
  getLsbD_lit_pow 52 _ (by decide) (by decide) i

theorem neg_sign64 (f : BitVec 64) :
    (f ^^^ 9223372036854775808#64) &&& 9223372036854775808#64 = (f &&& 9223372036854775808#64) ^^^ 9223372036854775808#64 := by
  ext i hi; simp; grind
theorem neg_mant64 (f : BitVec 64) :
    (f ^^^ 9223372036854775808#64) &&& 4503599627370495#64 = f &&& 4503599627370495#64 := by
  ext i hi; simp; grind
theorem neg_exp64 (f : BitVec 64) :
    ((f ^^^ 9223372036854775808#64) >>> 52) &&& 2047#64 = (f >>> 52) &&& 2047#64 := by
  ext i hi; simp; grind

theorem fneg64_involutive (f : BitVec 64) : fneg64 (fneg64 f) = f := by
  simp [fneg64, BitVec.xor_assoc]

theorem funpack64_fneg64 (f : BitVec 64) :
    funpack64 (fneg64 f) =
      ((funpack64 f).1 ^^^ 9223372036854775808#64, (funpack64 f).2.1, (funpack64 f).2.2.1,
       (funpack64 f).2.2.2.1, (funpack64 f).2.2.2.2) := by
  unfold fneg64 funpack64
  simp only [neg_sign64, neg_mant64, neg_exp64]
  split
  · split <;> rfl
  · rfl

end GnoVerif.C05.L
