import GnoVerif.Proofs.C04Int
/-!
Helper lemmas for C04: division, remainder, shifts, conversions and
comparisons of the integer layer against the mathematical integers.
-/
namespace GnoVerif.C04
open GnoVerif GnoVerif.GoInt

/-- the value a bit pattern of an in-range integer denotes -/
theorem unbits_bits_of_inRange {t : ITy} {a : Int} (h : t.inRange a = true) : unbits t (bits t a) = a :=
  wrap_of_inRange h

theorem bits_eq_zero_iff {t : ITy} {b : Int} (hb : t.inRange b = true) :
    (bits t b == 0#t.width) = true ↔ b = 0 := by
  rw [beq_iff_eq]
  constructor
  · intro h
    have := unbits_bits_of_inRange hb
    rw [h] at this
    rw [← this]
    cases t.signed <;> simp [unbits, toInt]
  · rintro rfl; simp [bits]

theorem toInt_bits_signed {t : ITy} (hs : t.signed = true) {a : Int} (h : t.inRange a = true) :
    (bits t a).toInt = a := by
  have := unbits_bits_of_inRange h
  simpa [unbits, toInt, hs] using this

theorem toNat_bits_unsigned {t : ITy} (hs : t.signed = false) {a : Int} (h : t.inRange a = true) :
    ((bits t a).toNat : Int) = a := by
  have := unbits_bits_of_inRange h
  simpa [unbits, toInt, hs] using this

theorem nonneg_of_unsigned {t : ITy} (hs : t.signed = false) {a : Int} (h : t.inRange a = true) : 0 ≤ a := by
  rw [inRange_iff] at h
  simp only [ITy.min, minVal, hs, Bool.false_eq_true, if_false] at h
  exact h.1

/-- a zero divisor panics -/
theorem arith_quo_zero (t : ITy) (a : Int) : arith t .quo a 0 = .error .divzero := by
  simp [arith, GoInt.div, bits]; rfl

theorem arith_rem_zero (t : ITy) (a : Int) : arith t .rem a 0 = .error .divzero := by
  simp [arith, GoInt.rem, bits]; rfl

/-- `/` is the quotient truncated toward zero (reduced into the type: only
`MinInt / -1` is not representable, and wraps to `MinInt`) -/
theorem arith_quo {t : ITy} {a b : Int} (ha : t.inRange a = true) (hb : t.inRange b = true) (hb0 : b ≠ 0) :
    arith t .quo a b = .ok (wrap t (Int.tdiv a b)) := by
  have hz : (bits t b == 0#t.width) = false := by
    rw [Bool.eq_false_iff]; intro h; exact hb0 ((bits_eq_zero_iff hb).1 h)
  cases hs : t.signed
  · -- unsigned: the natural-number quotient
    have ha0 := nonneg_of_unsigned hs ha
    have hb0' := nonneg_of_unsigned hs hb
    have hq : t.inRange (Int.tdiv a b) = true := by
      rw [inRange_iff] at ha ⊢
      simp only [ITy.min, minVal, hs, Bool.false_eq_true, if_false] at ha ⊢
      have h1 : 0 ≤ Int.tdiv a b := Int.tdiv_nonneg ha0 hb0'
      have h2 : Int.tdiv a b ≤ a := by
        rw [Int.tdiv_eq_ediv_of_nonneg ha0]
        exact Int.ediv_le_self _ ha0
      omega
    rw [wrap_of_inRange hq]
    simp only [arith, GoInt.div, hz, Bool.false_eq_true, if_false, hs, pure, Except.pure]
    congr 1
    simp only [unbits, toInt, hs, Bool.false_eq_true, if_false]
    have : (bits t a).udiv (bits t b) = bits t a / bits t b := rfl
    rw [this, BitVec.toNat_udiv, Int.natCast_ediv, toNat_bits_unsigned hs ha, toNat_bits_unsigned hs hb,
      Int.tdiv_eq_ediv_of_nonneg ha0]
  · simp only [arith, GoInt.div, hz, Bool.false_eq_true, if_false, hs, if_true, pure, Except.pure]
    congr 1
    simp only [unbits, toInt, hs, if_true]
    rw [BitVec.toInt_sdiv, toInt_bits_signed hs ha, toInt_bits_signed hs hb, wrap_signed hs]

/-- the quotient is exact except for `MinInt / -1` -/
theorem quo_exact {t : ITy} {a b : Int} (ha : t.inRange a = true) (hb : t.inRange b = true) (hb0 : b ≠ 0)
    (hov : ¬ (t.signed = true ∧ a = t.min ∧ b = -1)) : wrap t (Int.tdiv a b) = Int.tdiv a b := by
  apply wrap_of_inRange
  rw [inRange_iff] at ha hb ⊢
  have hp := two_pow_pos' t.width
  have habs : (Int.tdiv a b).natAbs ≤ a.natAbs := by
    rw [Int.natAbs_tdiv]; exact Nat.div_le_self _ _
  cases hs : t.signed
  · simp only [ITy.min, minVal, hs, Bool.false_eq_true, if_false] at ha hb ⊢
    have h1 : 0 ≤ Int.tdiv a b := Int.tdiv_nonneg ha.1 hb.1
    omega
  · simp only [ITy.min, minVal, hs, if_true] at ha hb ⊢
    have e := two_pow_half t.width_pos
    by_cases hmin : a = -2 ^ (t.width - 1)
    · -- a = MinInt: |a / b| ≤ |a| / |b| with |b| ≥ 2 unless b = ±1; b = 1 is fine, b = -1 excluded
      have hb1 : b ≠ -1 := fun h => hov ⟨hs, by simp [ITy.min, minVal, hs, hmin], h⟩
      have h2 : (Int.tdiv a b).natAbs = a.natAbs / b.natAbs := Int.natAbs_tdiv a b
      by_cases hbo : b = 1
      · subst hbo; simp; omega
      · have hb2 : 2 ≤ b.natAbs := by omega
        have : a.natAbs / b.natAbs ≤ a.natAbs / 2 := Nat.div_le_div_left hb2 (by decide)
        omega
    · omega

/-- `%` has the sign of the dividend: `a = (a / b) * b + a % b` with truncated division -/
theorem arith_rem {t : ITy} {a b : Int} (ha : t.inRange a = true) (hb : t.inRange b = true) (hb0 : b ≠ 0) :
    arith t .rem a b = .ok (Int.tmod a b) := by
  have hz : (bits t b == 0#t.width) = false := by
    rw [Bool.eq_false_iff]; intro h; exact hb0 ((bits_eq_zero_iff hb).1 h)
  cases hs : t.signed
  · have ha0 := nonneg_of_unsigned hs ha
    have hb0' := nonneg_of_unsigned hs hb
    simp only [arith, GoInt.rem, hz, Bool.false_eq_true, if_false, hs, pure, Except.pure]
    congr 1
    simp only [unbits, toInt, hs, Bool.false_eq_true, if_false]
    have : (bits t a).umod (bits t b) = bits t a % bits t b := rfl
    rw [this, BitVec.toNat_umod, Int.natCast_emod, toNat_bits_unsigned hs ha, toNat_bits_unsigned hs hb,
      Int.tmod_eq_emod_of_nonneg ha0]
  · simp only [arith, GoInt.rem, hz, Bool.false_eq_true, if_false, hs, if_true, pure, Except.pure]
    congr 1
    simp only [unbits, toInt, hs, if_true]
    rw [BitVec.toInt_srem, toInt_bits_signed hs ha, toInt_bits_signed hs hb]

/-! ### conversions -/

/-- `T(x)` keeps the value modulo `2^width(T)`: truncation when narrowing,
sign- or zero-extension (value preserved) when widening -/
theorem convInt_eq {s t : ITy} {a : Int} (ha : s.inRange a = true) : convInt s t a = wrap t a := by
  have hu := unbits_inRange t (GoInt.conv s.signed t.width (bits s a))
  cases hs : s.signed
  · -- zero-extension / truncation of the natural number
    have ha0 := nonneg_of_unsigned hs ha
    have hn : ((bits s a).toNat : Int) = a := toNat_bits_unsigned hs ha
    have hb : GoInt.conv s.signed t.width (bits s a) = bits t a := by
      apply BitVec.eq_of_toNat_eq
      simp only [GoInt.conv, hs, Bool.false_eq_true, if_false, BitVec.toNat_setWidth, bits, BitVec.toNat_ofInt]
      have : a = ((bits s a).toNat : Int) := hn.symm
      conv_rhs => rw [this]
      rw [← Int.natCast_emod, Int.toNat_natCast]
      simp [bits, BitVec.toNat_ofInt]
    simp [convInt, hb, wrap]
  · have hi : (bits s a).toInt = a := toInt_bits_signed hs ha
    have hb : GoInt.conv s.signed t.width (bits s a) = bits t a := by
      apply BitVec.eq_of_toInt_eq
      simp only [GoInt.conv, hs, if_true, bits, BitVec.toInt_ofInt]
      rw [BitVec.toInt_signExtend, BitVec.toInt_ofInt]
      by_cases hle : t.width ≤ s.width
      · rw [Nat.min_eq_left hle]
        have hdvd : (2 ^ t.width : Nat) ∣ 2 ^ s.width := Nat.pow_dvd_pow 2 hle
        rw [Int.bmod_bmod_of_dvd hdvd]
      · have hlt : s.width ≤ t.width := by omega
        rw [Nat.min_eq_right hlt, Int.bmod_bmod]
        have hi' : (BitVec.ofInt s.width a).toInt = a := hi
        rw [BitVec.toInt_ofInt] at hi'
        rw [hi']
        -- a is in the range of s, hence of the wider t
        have hra := (inRange_iff s a).1 ha
        simp only [ITy.min, minVal, hs, if_true] at hra
        have e := two_pow_half s.width_pos
        have hmono : (2 : Int) ^ s.width ≤ 2 ^ t.width := by
          have := Nat.pow_le_pow_right (by decide : 1 ≤ 2) hlt
          exact_mod_cast this
        symm
        apply Int.bmod_eq_of_le_mul_two
        · rw [natCast_two_pow]; omega
        · rw [natCast_two_pow]; omega
    simp [convInt, hb, wrap]

/-! ### comparisons -/

theorem cmpInt_eq {t : ITy} {a b : Int} (ha : t.inRange a = true) (hb : t.inRange b = true) :
    cmpInt t .eq a b = decide (a = b) := by
  simp only [cmpInt]
  rw [Bool.eq_iff_iff]
  simp only [beq_iff_eq, decide_eq_true_eq]
  constructor
  · intro h
    have h1 := unbits_bits_of_inRange ha
    have h2 := unbits_bits_of_inRange hb
    rw [h] at h1; rw [← h1, h2]
  · rintro rfl; rfl

theorem cmpInt_lt {t : ITy} {a b : Int} (ha : t.inRange a = true) (hb : t.inRange b = true) :
    cmpInt t .lt a b = decide (a < b) := by
  cases hs : t.signed
  · simp only [cmpInt, GoInt.lt, hs, Bool.false_eq_true, if_false, BitVec.ult_eq_decide]
    have h1 := toNat_bits_unsigned hs ha
    have h2 := toNat_bits_unsigned hs hb
    have : (bits t a).toNat < (bits t b).toNat ↔ a < b := by constructor <;> intro h <;> omega
    exact decide_eq_decide.mpr this
  · simp only [cmpInt, GoInt.lt, hs, if_true, BitVec.slt_eq_decide]
    rw [toInt_bits_signed hs ha, toInt_bits_signed hs hb]

theorem cmpInt_le {t : ITy} {a b : Int} (ha : t.inRange a = true) (hb : t.inRange b = true) :
    cmpInt t .le a b = decide (a ≤ b) := by
  cases hs : t.signed
  · simp only [cmpInt, GoInt.le, hs, Bool.false_eq_true, if_false, BitVec.ule_eq_decide]
    have h1 := toNat_bits_unsigned hs ha
    have h2 := toNat_bits_unsigned hs hb
    have : (bits t a).toNat ≤ (bits t b).toNat ↔ a ≤ b := by constructor <;> intro h <;> omega
    exact decide_eq_decide.mpr this
  · simp only [cmpInt, GoInt.le, hs, if_true, BitVec.sle_eq_decide]
    rw [toInt_bits_signed hs ha, toInt_bits_signed hs hb]

end GnoVerif.C04
