import GnoVerif.Proofs.C46B64
import GnoVerif.Proofs.C46Num
/-! Proofs.C46Lines — `ReadLine` on well-formed lines, `TrimSpace`, 64-column chunking of base64. -/
namespace GnoVerif.C46

/-! ### ReadLine -/

theorem scanNL_line (n : Nat) (l rest : Bytes) (hnl : ∀ b ∈ l, (b == 10) = false) (hlen : l.length < n) :
    scanNL n (l ++ 10 :: rest) = some (l, rest) := by
  induction l generalizing n with
  | nil =>
    cases n with
    | zero => omega
    | succ n => simp [scanNL]
  | cons b t ih =>
    cases n with
    | zero => simp at hlen
    | succ n =>
      have hb : (b == 10) = false := hnl b (by simp)
      simp only [List.cons_append, scanNL, hb, Bool.false_eq_true, if_false]
      rw [ih n (fun x hx => hnl x (by simp [hx])) (by simpa using hlen)]

theorem scanNL_none (n : Nat) (l : Bytes) (hnl : ∀ b ∈ l, (b == 10) = false) : scanNL n l = none := by
  induction l generalizing n with
  | nil => cases n <;> simp [scanNL]
  | cons b t ih =>
    cases n with
    | zero => simp [scanNL]
    | succ n =>
      have hb : (b == 10) = false := hnl b (by simp)
      simp only [scanNL, hb, Bool.false_eq_true, if_false]
      rw [ih n (fun x hx => hnl x (by simp [hx]))]

/-- a line for `ReadLine`: no '\n', at most 99 bytes, not ending in '\r' -/
structure GoodLine (l : Bytes) : Prop where
  nl : ∀ b ∈ l, (b == 10) = false
  short : l.length < 100
  cr : (l.getLast? == some 13) = false

theorem readLines_line (l rest : Bytes) (h : GoodLine l) :
    readLines (l ++ 10 :: rest) = (l, false) :: readLines rest := by
  rw [readLines]
  have hne : l ++ 10 :: rest ≠ [] := by simp
  simp only [hne, dite_false]
  have h1 : readLine1 (l ++ 10 :: rest) = (l, false, rest) := by
    unfold readLine1
    rw [scanNL_line bufSize l rest h.nl h.short]
    simp [stripCR, h.cr]
  rw [h1]

theorem readLines_last (l : Bytes) (h : GoodLine l) (hne : l ≠ []) : readLines l = [(l, false)] := by
  rw [readLines]
  simp only [hne, dite_false]
  have h1 : readLine1 l = (l, false, []) := by
    unfold readLine1
    rw [scanNL_none bufSize l h.nl]
    have : ¬ l.length ≥ bufSize := by have := h.short; simp only [bufSize]; omega
    simp [this]
  rw [h1]
  rw [readLines]
  simp

theorem readLines_blank (rest : Bytes) : readLines (10 :: rest) = ([], false) :: readLines rest := by
  have := readLines_line [] rest ⟨by simp, by simp, by simp⟩
  simpa using this

/-! ### TrimSpace -/

theorem trimSpace_id (s : Bytes) (hf : ∀ c, s.head? = some c → isSpace c = false)
    (hl : ∀ c, s.getLast? = some c → isSpace c = false) : trimSpace s = s := by
  unfold trimSpace
  cases s with
  | nil => rfl
  | cons a t =>
    have ha : isSpace a = false := hf a rfl
    have h1 : (a :: t).dropWhile isSpace = a :: t := by simp [List.dropWhile, ha]
    rw [h1]
    have hr : (a :: t).reverse ≠ [] := by simp
    obtain ⟨z, zs, hz⟩ := List.exists_cons_of_ne_nil hr
    have hzl : (a :: t).getLast? = some z := by
      rw [← List.head?_reverse, hz]; rfl
    have hzs : isSpace z = false := hl z hzl
    rw [hz]
    simp only [List.dropWhile, hzs]
    rw [← hz]; simp

/-! ### chunks -/

theorem chunksOf_nil (n : Nat) : chunksOf n [] = [] := by
  rw [chunksOf]; simp

theorem chunksOf_cons (n : Nat) (s : Bytes) (hn : n ≠ 0) (hs : s ≠ []) :
    chunksOf n s = s.take n :: chunksOf n (s.drop n) := by
  rw [chunksOf]
  have : ¬ (n = 0 ∨ s = []) := by simp [hn, hs]
  simp only [this, dite_false]

theorem chunksOf_flatten (n : Nat) (hn : n ≠ 0) (s : Bytes) : (chunksOf n s).flatten = s := by
  induction hl : s.length using Nat.strongRecOn generalizing s with
  | _ k ih =>
    by_cases hs : s = []
    · subst hs; rw [chunksOf_nil]; rfl
    · rw [chunksOf_cons n s hn hs, List.flatten_cons]
      have hlt : (s.drop n).length < k := by
        have : 0 < s.length := List.length_pos_iff.mpr hs
        simp only [List.length_drop]; omega
      rw [ih _ hlt (s.drop n) rfl, List.take_append_drop]

theorem chunksOf_mem (n : Nat) (hn : n ≠ 0) (s c : Bytes) (hc : c ∈ chunksOf n s) : c ≠ [] ∧ c.length ≤ n := by
  induction hl : s.length using Nat.strongRecOn generalizing s with
  | _ k ih =>
    by_cases hs : s = []
    · subst hs; rw [chunksOf_nil] at hc; cases hc
    · rw [chunksOf_cons n s hn hs] at hc
      rcases List.mem_cons.mp hc with rfl | hc
      · refine ⟨?_, by simp [List.length_take]; omega⟩
        intro e
        have : (s.take n).length = 0 := by rw [e]; rfl
        have h0 : 0 < s.length := List.length_pos_iff.mpr hs
        simp only [List.length_take] at this
        omega
      · have hlt : (s.drop n).length < k := by
          have : 0 < s.length := List.length_pos_iff.mpr hs
          simp only [List.length_drop]; omega
        exact ih _ hlt (s.drop n) hc rfl

theorem b64enc_length (d : Bytes) : (b64enc d).length = (d.length + 2) / 3 * 4 := by
  fun_induction b64enc d with
  | case1 a b c r ih => simp only [List.length_cons, ih]; omega
  | case2 a b => simp
  | case3 a => simp
  | case4 => rfl

theorem b64enc_append (a b : Bytes) (h : a.length % 3 = 0) : b64enc (a ++ b) = b64enc a ++ b64enc b := by
  induction hl : a.length using Nat.strongRecOn generalizing a with
  | _ k ih =>
    match a, hl with
    | [], _ => simp [b64enc]
    | [x], hl => simp at h
    | [x, y], hl => simp at h
    | x :: y :: z :: r, hl =>
      simp only [List.cons_append, b64enc]
      have hr : r.length % 3 = 0 := by simp only [List.length_cons] at h; omega
      rw [ih r.length (by simp only [List.length_cons] at hl; omega) r hr rfl]

/-- the 64-column lines of the base64 text are the encodings of the 48-byte pieces of the data -/
theorem chunks64_enc (d : Bytes) : chunksOf 64 (b64enc d) = (chunksOf 48 d).map b64enc := by
  induction hl : d.length using Nat.strongRecOn generalizing d with
  | _ k ih =>
    by_cases hd : d = []
    · subst hd; simp [b64enc, chunksOf_nil]
    · rw [chunksOf_cons 48 d (by decide) hd, List.map_cons]
      have hpos : 0 < d.length := List.length_pos_iff.mpr hd
      have hne : b64enc d ≠ [] := by
        intro e
        have := b64enc_length d
        rw [e] at this
        simp only [List.length_nil] at this
        omega
      rw [chunksOf_cons 64 _ (by decide) hne]
      by_cases h48 : 48 ≤ d.length
      · have htl : (d.take 48).length = 48 := by simp [List.length_take]; omega
        have hsplit : b64enc d = b64enc (d.take 48) ++ b64enc (d.drop 48) := by
          rw [← b64enc_append _ _ (by rw [htl]), List.take_append_drop]
        have hel : (b64enc (d.take 48)).length = 64 := by rw [b64enc_length, htl]
        rw [hsplit, List.take_left' hel, List.drop_left' hel]
        have hlt : (d.drop 48).length < k := by simp only [List.length_drop]; omega
        rw [ih _ hlt (d.drop 48) rfl]
      · have ht : d.take 48 = d := List.take_of_length_le (by omega)
        have hdr : d.drop 48 = [] := List.drop_of_length_le (by omega)
        have hel : (b64enc d).length ≤ 64 := by rw [b64enc_length]; omega
        rw [ht, hdr, chunksOf_nil, List.take_of_length_le hel, List.drop_of_length_le hel, chunksOf_nil]
        rfl

/-- characters of an encoded line: never '\n' '\r' '-'; the first one is a digit -/
theorem b64enc_chars (d : Bytes) : ∀ c ∈ b64enc d, (c != 10 && c != 13 && c != 45) = true := by
  fun_induction b64enc d with
  | case1 a b c r ih =>
    have ha := UInt8.toNat_lt a
    have hb := UInt8.toNat_lt b
    have hc := UInt8.toNat_lt c
    intro x hx
    simp only [List.mem_cons] at hx
    have p := fun n (h : n < 64) => b64char_plain ⟨n, h⟩
    rcases hx with rfl | rfl | rfl | rfl | hx
    · have := p (a.toNat / 4) (by omega); simp_all
    · have := p (a.toNat % 4 * 16 + b.toNat / 16) (by omega); simp_all
    · have := p (b.toNat % 16 * 4 + c.toNat / 64) (by omega); simp_all
    · have := p (c.toNat % 64) (by omega); simp_all
    · exact ih x hx
  | case2 a b =>
    have ha := UInt8.toNat_lt a
    have hb := UInt8.toNat_lt b
    intro x hx
    simp only [List.mem_cons, List.not_mem_nil, or_false] at hx
    have p := fun n (h : n < 64) => b64char_plain ⟨n, h⟩
    rcases hx with rfl | rfl | rfl | rfl
    · have := p (a.toNat / 4) (by omega); simp_all
    · have := p (a.toNat % 4 * 16 + b.toNat / 16) (by omega); simp_all
    · have := p (b.toNat % 16 * 4) (by omega); simp_all
    · decide
  | case3 a =>
    have ha := UInt8.toNat_lt a
    intro x hx
    simp only [List.mem_cons, List.not_mem_nil, or_false] at hx
    have p := fun n (h : n < 64) => b64char_plain ⟨n, h⟩
    rcases hx with rfl | rfl | rfl | rfl
    · have := p (a.toNat / 4) (by omega); simp_all
    · have := p (a.toNat % 4 * 16) (by omega); simp_all
    · decide
    · decide
  | case4 => simp

theorem b64enc_head (d : Bytes) : ∀ c, (b64enc d).head? = some c → (c != 45 && c != 61) = true := by
  intro c hc
  have p := fun n (h : n < 64) => b64char_plain ⟨n, h⟩
  match d with
  | [] => simp [b64enc] at hc
  | [a] =>
    have ha := UInt8.toNat_lt a
    simp only [b64enc, List.head?_cons, Option.some.injEq] at hc
    subst hc
    have := p (a.toNat / 4) (by omega); simp_all
  | [a, b] =>
    have ha := UInt8.toNat_lt a
    simp only [b64enc, List.head?_cons, Option.some.injEq] at hc
    subst hc
    have := p (a.toNat / 4) (by omega); simp_all
  | a :: b :: c' :: r =>
    have ha := UInt8.toNat_lt a
    simp only [b64enc, List.head?_cons, Option.some.injEq] at hc
    subst hc
    have := p (a.toNat / 4) (by omega); simp_all

end GnoVerif.C46
