import GnoVerif.Model.C08
/-! C08 — the one induction over the interpreter: a predicate on the running state that
every primitive instruction and every call plan preserves is preserved by `exec`. -/
namespace GnoVerif.C08

theorem bind_ok {ε α β : Type} {x : Except ε α} {f : α → Except ε β} {b : β}
    (h : (x >>= f) = .ok b) : ∃ a, x = .ok a ∧ f a = .ok b := by
  cases x with
  | error e => simp [bind, Except.bind] at h
  | ok a => exact ⟨a, rfl, by simpa [bind, Except.bind] using h⟩

theorem exec_preserves (env : Env) (P : St → Prop)
    (hPrim : ∀ cx b i st b' st', prim env cx b i st = .ok (b', st') → P st → P st')
    (hPlan : ∀ st cx b mode tgt cx' st', planCall env st cx b mode tgt = .ok (cx', st') → P st → P st') :
    ∀ f cx b prog st st', exec env f cx b prog st = .ok st' → P st → P st' := by
  intro f
  induction f with
  | zero => intro cx b prog st st' h; simp [exec] at h
  | succ f ih =>
    intro cx b prog st st' h hp
    cases prog with
    | nil =>
      simp only [exec] at h
      cases h; exact hp
    | cons i rest =>
      have prim_case : ∀ (hx : (do let (b', st) ← prim env cx b i st; exec env f cx b' rest st) = Except.ok st'), P st' := by
        intro hx
        obtain ⟨⟨b', st1⟩, h1, h2⟩ := bind_ok hx
        exact ih _ _ _ _ _ h2 (hPrim _ _ _ _ _ _ h1 hp)
      cases i with
      | cb =>
        simp only [exec] at h
        cases hcb : cx.cb with
        | none => simp [hcb] at h
        | some clo =>
          simp only [hcb] at h
          obtain ⟨st1, h1, h2⟩ := bind_ok h
          exact ih _ _ _ _ _ h2 (ih _ _ _ _ _ h1 hp)
      | x mode tgt prog =>
        simp only [exec] at h
        obtain ⟨⟨cx', st1⟩, h1, h2⟩ := bind_ok h
        obtain ⟨st2, h3, h4⟩ := bind_ok h2
        exact ih _ _ _ _ _ h4 (ih _ _ _ _ _ h3 (hPlan _ _ _ _ _ _ _ h1 hp))
      | nb _ _ => exact prim_case (by simpa only [exec] using h)
      | ro => exact prim_case (by simpa only [exec] using h)
      | ld _ => exact prim_case (by simpa only [exec] using h)
      | lg _ => exact prim_case (by simpa only [exec] using h)
      | ub => exact prim_case (by simpa only [exec] using h)
      | sd _ _ _ => exact prim_case (by simpa only [exec] using h)
      | is _ _ _ => exact prim_case (by simpa only [exec] using h)
      | rm _ _ _ => exact prim_case (by simpa only [exec] using h)
      | ps _ _ => exact prim_case (by simpa only [exec] using h)
      | bad => exact prim_case (by simpa only [exec] using h)

end GnoVerif.C08
