import GnoVerif.Proofs.C50Avl
/-! C50 helper lemmas: the read operations (Has, Get, GetByIndex) agree with the sorted list. -/
namespace GnoVerif.C50
open OMap
namespace Node
variable {α : Type}

theorem has_spec {n : Node α} (key : Key) (hi : n.Inv) (hs : Sorted n.toList) :
    n.has key = contains key n.toList := by
  induction n with
  | leaf nk nv =>
    simp only [has, contains, toList_leaf, lookup]
    by_cases h : nk = key
    · simp [h]
    · have : ¬ key = nk := fun e => h e.symm
      simp [h, this]
  | inner nk h s l r ihl ihr =>
    obtain ⟨hsl, hsr, hbl, hbr, hmem⟩ := bounds hi hs
    rw [inv_inner] at hi
    obtain ⟨hil, hir, hk, -⟩ := hi
    simp only [has, toList_inner]
    have hc : ∀ (L : List (Key × α)), contains key L = true ↔ key ∈ keys L := fun L => lookup_isSome
    split
    · rename_i heq; subst heq
      symm; rw [hc, keys_append]; simp [hmem]
    · split
      · rename_i hne hlt
        have hnr : key ∉ keys r.toList := fun hy => by have := hbr key hy; grind
        rw [ihl hil hsl]
        simp only [contains, lookup_append_left hnr]
      · rename_i hne hnlt
        have hnl : key ∉ keys l.toList := fun hx => by have := hbl key hx; grind
        rw [ihr hir hsr]
        simp only [contains, lookup_append_right hnl]

theorem get_spec {n : Node α} (key : Key) (hi : n.Inv) (hs : Sorted n.toList) :
    n.get key = (((rank key n.toList : Nat) : Int), lookup key n.toList, contains key n.toList) := by
  induction n with
  | leaf nk nv =>
    simp only [get, toList_leaf, contains, lookup, rank, List.filter_cons, List.filter_nil]
    by_cases h : nk = key
    · subst h
      have : ¬ nk < nk := by grind
      simp [this]
    · have h' : ¬ key = nk := fun e => h e.symm
      by_cases hlt : nk < key <;> simp [h, h', hlt]
  | inner nk h s l r ihl ihr =>
    obtain ⟨hsl, hsr, hbl, hbr, hmem⟩ := bounds hi hs
    rw [inv_inner] at hi
    obtain ⟨hil, hir, hk, hh, hsz, -⟩ := hi
    simp only [get, toList_inner, rank_append]
    split
    · rename_i hlt
      have hnr : key ∉ keys r.toList := fun hy => by have := hbr key hy; grind
      have hr0 : rank key r.toList = 0 := rank_eq_zero (fun x hx => by have := hbr x hx; grind)
      rw [ihl hil hsl]
      simp [contains, lookup_append_left hnr, hr0]
    · rename_i hnlt
      have hnl : key ∉ keys l.toList := fun hx => by have := hbl key hx; grind
      have hl0 : rank key l.toList = l.toList.length := rank_eq_length (fun x hx => by have := hbl x hx; grind)
      rw [ihr hir hsr]
      have := size_eq_length hil
      simp only [contains, lookup_append_right hnl, hl0, Prod.mk.injEq, and_true]
      omega

theorem getByIndex_neg (n : Node α) {i : Int} (h : i < 0) : n.getByIndex i = .error .neg := by
  cases n <;> simp [getByIndex, h]

theorem getByIndex_oob {n : Node α} (hi : n.Inv) {i : Int} (h : n.size ≤ i) :
    n.getByIndex i = .error .idx := by
  induction n generalizing i with
  | leaf nk nv =>
    simp only [size_leaf] at h
    have h1 : ¬ i < 0 := by omega
    have h2 : i ≠ 0 := by omega
    simp [getByIndex, h1, h2]
  | inner nk ht s l r ihl ihr =>
    rw [inv_inner] at hi
    obtain ⟨hil, hir, hk, hh, hsz, -⟩ := hi
    have := size_eq_length hil
    have := size_eq_length hir
    simp only [size_inner] at h
    have h1 : ¬ i < 0 := by omega
    have h2 : ¬ i < l.size := by omega
    simp only [getByIndex, h1, h2, if_false]
    exact ihr hir (by omega)

theorem getByIndex_spec {n : Node α} (hi : n.Inv) {i : Nat} (h : i < n.toList.length) :
    n.getByIndex (i : Int) = .ok (n.toList[i]) := by
  induction n generalizing i with
  | leaf nk nv =>
    simp only [toList_leaf, List.length_singleton] at h
    have : i = 0 := by omega
    subst this
    simp [getByIndex]
  | inner nk ht s l r ihl ihr =>
    rw [inv_inner] at hi
    obtain ⟨hil, hir, hk, hh, hsz, -⟩ := hi
    have hsl := size_eq_length hil
    have hsr := size_eq_length hir
    simp only [toList_inner, List.length_append] at h
    have h1 : ¬ ((i : Int) < 0) := by omega
    simp only [getByIndex, h1, if_false, toList_inner]
    split
    · rename_i hlt
      have hlt' : i < l.toList.length := by omega
      rw [ihl hil hlt', List.getElem_append_left hlt']
    · rename_i hge
      have hge' : l.toList.length ≤ i := by omega
      have hr : i - l.toList.length < r.toList.length := by omega
      have hcast : (i : Int) - l.size = ((i - l.toList.length : Nat) : Int) := by omega
      rw [hcast, ihr hir hr, List.getElem_append_right hge']

end Node
end GnoVerif.C50
