import GnoVerif.Proofs.C20RT
/-! Top-level round trip: `unmarshal (marshal v) = v` on the proved fragment (C20). -/
namespace GnoVerif.C20

theorem fuelFor_eq (env : Env) (bz : Bytes) :
    fuelFor env bz = (bz.length + sumFields env + 16) * (bz.length + 16) := rfl

theorem fuelFor_ge (env : Env) (bz : Bytes) (F : Nat) (hF : F ≤ sumFields env) :
    F + 2 + budget env bz.length ≤ fuelFor env bz := by
  rw [fuelFor_eq]
  unfold budget
  have : (bz.length + sumFields env + 16) * (bz.length + 16) =
      (sumFields env + 2) * (bz.length + 1) +
        (bz.length * bz.length + 30 * bz.length + 15 * sumFields env + 254) := by ring
  rw [this]
  omega

theorem writeMaybeBare_true (buf : Bytes) : writeMaybeBare buf true = buf := by
  unfold writeMaybeBare
  cases buf <;> simp

theorem isStructOrUnpacked_ref {env : Env} {name : Bytes} (h : aliasOf env name = none) :
    isStructOrUnpacked env (.ref name) = true := by
  simp [isStructOrUnpacked, repr_ref h]

/-- **round trip, registered struct types** (any fuel at least the budget). -/
theorem roundtrip_struct_fuel (env : Env) (hE : envOK env) (name : Bytes) (v : Val) (d : Nat)
    (hwf : wf env d (.ref name) v = true) (hd : d ≤ env.length + 4) (hd64 : d ≤ maxAnyDepth) (bz : Bytes)
    (hm : marshal env name v = .ok bz) (hlen : bz.length < 2 ^ 64)
    (k : Nat) (hk : sumFields env + 2 + budget env bz.length ≤ k) :
    unmarshalF k env name bz = some v := by
  rcases wf_cases hwf with ⟨hpv, hprim⟩ | ⟨vs, rfl⟩ | ⟨es, rfl⟩ | ⟨_, _, h⟩ | ⟨_, _, _, _, h⟩
  · cases v <;> simp [isPrimVal] at hpv <;> simp [primOK] at hprim
  rotate_left
  · obtain ⟨_, _, htd, _⟩ := wf_list_inv hwf
    cases htd
  · cases h
  · cases h
  obtain ⟨name', n, ifs, fs, rs, d', htd, hfind, rfl, hwfs⟩ := wf_struct_inv hwf
  cases htd
  have ha := aliasOf_struct hfind
  unfold marshal at hm
  simp only [hfind, ctdOf, isStructOrUnpacked_ref ha, Bool.not_true, Bool.false_eq_true, if_false] at hm
  rw [enc_struct env name n ifs fs rs vs 1 true false hfind] at hm
  cases hbuf : encFields env fs vs with
  | error e => rw [hbuf] at hm; cases hm
  | ok buf =>
    rw [hbuf] at hm
    simp only [bind, Except.bind, pure, Except.pure, Except.ok.injEq, writeMaybeBare_true] at hm
    subst hm
    have hF := fields_le_sum hfind
    have hs : fieldsSorted 0 fs = true := by
      have := hE name _ hfind
      simpa using this
    cases k with
    | zero => omega
    | succ k' =>
      unfold unmarshalF
      simp only [hfind, ctdOf, isStructOrUnpacked_ref ha, Bool.not_true, Bool.and_false, Bool.false_eq_true, if_false,
        List.drop_zero]
      rw [dec_ref env k' name n ifs fs rs _ 1 true false 0 hfind]
      have := rt_fields env hE vs d' fs buf k' 0 0 [] 0 hwfs ⟨by omega, by omega⟩ hs hbuf hlen (by omega)
      simp [decMaybeBare, this]

/-- **round trip, registered struct types**: `UnmarshalReflect(MarshalReflect(v)) = v`
for every value of the fragment, with the decoder's own fuel. -/
theorem roundtrip_struct (env : Env) (hE : envOK env) (name : Bytes) (v : Val) (d : Nat)
    (hwf : wf env d (.ref name) v = true) (hd : d ≤ env.length + 4) (hd64 : d ≤ maxAnyDepth) (bz : Bytes)
    (hm : marshal env name v = .ok bz) (hlen : bz.length < 2 ^ 64) :
    unmarshal env name bz = some v := by
  unfold unmarshal
  apply roundtrip_struct_fuel env hE name v d hwf hd hd64 bz hm hlen
  have := fuelFor_ge env bz (sumFields env) (Nat.le_refl _)
  omega

end GnoVerif.C20

namespace GnoVerif.C20

/-- a decidable sufficient condition for `envOK`. -/
def envOKb (env : Env) : Bool :=
  env.all fun e => match e.defn with
    | .struct fs _ => fieldsSorted 0 fs
    | .alias _ => true

theorem envOK_of_b {env : Env} (h : envOKb env = true) : envOK env := by
  intro name ent hfind
  have hmem : ent ∈ env := List.mem_of_find?_eq_some hfind
  unfold envOKb at h
  rw [List.all_eq_true] at h
  have := h ent hmem
  cases hd : ent.defn
  · simp only [hd] at this ⊢; exact this
  · trivial

/-- the struct decoder rejects whatever is left after the last declared field
("unknown field number … / trailing bytes"). -/
theorem decFields_trailing_rejected (env : Env) (k : Nat) (b : UInt8) (bz : Bytes) (last depth : Nat)
    (acc : List Val) (n : Nat) : decFields env (k + 1) [] (b :: bz) last depth acc n = none := by
  simp [decFields]

/-- the struct decoder rejects a field number that does not increase (duplicate or
out-of-order field), for a non-list field that the key matches. -/
theorem decFields_out_of_order_rejected (env : Env) (k : Nat) (f : FieldD) (fs : List FieldD) (bz : Bytes)
    (last depth : Nat) (acc : List Val) (n : Nat) (t kn : Nat)
    (hnl : isUnpackedList env f.td = false) (hne : bz ≠ [])
    (hkey : decKeyRaw bz = some (f.num, t, kn)) (hlast : f.num ≤ last) :
    decFields env (k + 1) (f :: fs) bz last depth acc n = none := by
  have hemp : bz.isEmpty = false := by
    cases bz with
    | nil => exact absurd rfl hne
    | cons _ _ => rfl
  simp [decFields, hemp, hnl, hkey, hlast]

/-- … and a lower-numbered (skipped) wire field that does not increase either. -/
theorem decFields_skipped_out_of_order_rejected (env : Env) (k : Nat) (f : FieldD) (fs : List FieldD) (bz : Bytes)
    (last depth : Nat) (acc : List Val) (n : Nat) (num t kn : Nat)
    (hnl : isUnpackedList env f.td = false) (hne : bz ≠ [])
    (hkey : decKeyRaw bz = some (num, t, kn)) (hlt : num < f.num) (hlast : num ≤ last) :
    decFields env (k + 1) (f :: fs) bz last depth acc n = none := by
  have hemp : bz.isEmpty = false := by
    cases bz with
    | nil => exact absurd rfl hne
    | cons _ _ => rfl
  have h1 : ¬ f.num < num := by omega
  simp [decFields, hemp, hnl, hkey, h1, hlt, hlast]

end GnoVerif.C20
