import GnoVerif.Proofs.C20RT
/-! Top-level round trip: `unmarshal (marshal v) = v` on the proved fragment (C20). -/
namespace GnoVerif.C20

theorem fuelFor_eq (env : Env) (bz : Bytes) :
    fuelFor env bz = (bz.length + sumFields env + 16) * (bz.length + 16) := rfl

theorem fuelFor_ge (env : Env) (bz : Bytes) (F : Nat) (hF : F ≤ sumFields env) :
    F + 2 + budget env bz.length ≤ fuelFor env bz := by
  rw [fuelFor_eq]
  unfold budget
  have : (bz.length + sumFields env + 16) * (bz.length + 16) =
      (sumFields env + 2) * (bz.length + 1) +
        (bz.length * bz.length + 30 * bz.length + 15 * sumFields env + 254) := by ring
  rw [this]
  omega

theorem writeMaybeBare_true (buf : Bytes) : writeMaybeBare buf true = buf := by
  unfold writeMaybeBare
  cases buf <;> simp

theorem isStructOrUnpacked_ref {env : Env} {name : Bytes} (h : aliasOf env name = none) :
    isStructOrUnpacked env (.ref name) = true := by
  simp [isStructOrUnpacked, repr_ref h]

/-- **round trip, registered struct types** (any fuel at least the budget). -/
theorem roundtrip_struct_fuel (env : Env) (hE : envOK env) (name : Bytes) (v : Val) (d : Nat)
    (hwf : wf env d (.ref name) v = true) (hd : d ≤ env.length + 4) (bz : Bytes)
    (hm : marshal env name v = .ok bz) (hlen : bz.length < 2 ^ 64)
    (k : Nat) (hk : sumFields env + 2 + budget env bz.length ≤ k) :
    unmarshalF k env name bz = some v := by
  rcases wf_cases hwf with ⟨hpv, hprim⟩ | ⟨vs, rfl⟩
  · cases v <;> simp [isPrimVal] at hpv <;> simp [primOK] at hprim
  obtain ⟨name', n, ifs, fs, rs, d', htd, hfind, rfl, hwfs⟩ := wf_struct_inv hwf
  cases htd
  have ha := aliasOf_struct hfind
  unfold marshal at hm
  simp only [hfind, isStructOrUnpacked_ref ha, Bool.not_true, Bool.false_eq_true, if_false] at hm
  rw [enc_struct env name n ifs fs rs vs 1 true false hfind] at hm
  cases hbuf : encFields env fs vs with
  | error e => rw [hbuf] at hm; cases hm
  | ok buf =>
    rw [hbuf] at hm
    simp only [bind, Except.bind, pure, Except.pure, Except.ok.injEq, writeMaybeBare_true] at hm
    subst hm
    have hF := fields_le_sum hfind
    have hs : fieldsSorted 0 fs = true := by
      have := hE name _ hfind
      simpa using this
    cases k with
    | zero => omega
    | succ k' =>
      unfold unmarshalF
      simp only [hfind, isStructOrUnpacked_ref ha, Bool.not_true, Bool.and_false, Bool.false_eq_true, if_false,
        List.drop_zero]
      rw [dec_ref env k' name n ifs fs rs _ 1 true false 0 hfind]
      have := rt_fields env hE vs d' fs buf k' 0 0 [] 0 hwfs (by omega) hs hbuf hlen (by omega)
      simp [decMaybeBare, this]

/-- **round trip, registered struct types**: `UnmarshalReflect(MarshalReflect(v)) = v`
for every value of the fragment, with the decoder's own fuel. -/
theorem roundtrip_struct (env : Env) (hE : envOK env) (name : Bytes) (v : Val) (d : Nat)
    (hwf : wf env d (.ref name) v = true) (hd : d ≤ env.length + 4) (bz : Bytes)
    (hm : marshal env name v = .ok bz) (hlen : bz.length < 2 ^ 64) :
    unmarshal env name bz = some v := by
  unfold unmarshal
  apply roundtrip_struct_fuel env hE name v d hwf hd bz hm hlen
  have := fuelFor_ge env bz (sumFields env) (Nat.le_refl _)
  omega

end GnoVerif.C20
