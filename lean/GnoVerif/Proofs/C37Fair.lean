/-
C37 fairness: the rotation without rescaling/clipping, from the all-zero start.
Closed form, lower bound, return to zero after T rounds, periodicity, windows.
-/
import GnoVerif.Proofs.C37Basic
import Mathlib.Tactic.Ring
import Mathlib.Tactic.Linarith
namespace GnoVerif.C37

/-! ### shapes (addresses and powers, which no priority operation touches) -/

def shape (vs : List Val) : List (Nat × Int) := vs.map fun v => (v.addr, v.power)

theorem shape_map_setPrio (vs : List Val) (g : Val → Int) :
    shape (vs.map fun v => setPrio v (g v)) = shape vs := by
  simp [shape, List.map_map, Function.comp_def]

theorem shape_length {a b : List Val} (h : shape a = shape b) : a.length = b.length := by
  have := congrArg List.length h
  simpa [shape] using this

theorem sortedAddr_iff_shape (vs : List Val) :
    SortedAddr vs ↔ (shape vs).Pairwise (fun a b => a.1 < b.1) := by
  simp [SortedAddr, shape, List.pairwise_map]

theorem pos_iff_shape (vs : List Val) :
    (∀ v ∈ vs, 1 ≤ v.power) ↔ ∀ x ∈ shape vs, 1 ≤ x.2 := by
  simp [shape]

theorem sumPower_shape (vs : List Val) : sumPower vs = ((shape vs).map (·.2)).sum := by
  simp [sumPower_eq_sum, shape, List.map_map, Function.comp_def]

theorem mem_shape_of_mem {vs : List Val} {v : Val} (h : v ∈ vs) : (v.addr, v.power) ∈ shape vs := by
  simp only [shape, List.mem_map]; exact ⟨v, h, rfl⟩

theorem eq_of_shape_of_zero {a b : List Val} (h : shape a = shape b)
    (ha : ∀ v ∈ a, v.prio = 0) (hb : ∀ v ∈ b, v.prio = 0) : a = b := by
  induction a generalizing b with
  | nil => cases b with
    | nil => rfl
    | cons y ys => simp [shape] at h
  | cons x xs ih =>
    cases b with
    | nil => simp [shape] at h
    | cons y ys =>
      simp only [shape, List.map_cons, List.cons.injEq, Prod.mk.injEq] at h
      have hx := ha x (by simp)
      have hy := hb y (by simp)
      have : x = y := by
        cases x; cases y; simp_all
      rw [this, ih (b := ys) h.2 (fun v hv => ha v (by simp [hv])) (fun v hv => hb v (by simp [hv]))]

/-! ### one round without clipping -/

/-- add the power; the chosen address additionally loses `T` -/
def bump (a : Nat) (T : Int) (v : Val) : Val :=
  setPrio v (v.prio + v.power - (if v.addr = a then T else 0))

theorem shape_map_bump (a : Nat) (T : Int) (vs : List Val) : shape (vs.map (bump a T)) = shape vs :=
  shape_map_setPrio vs _

theorem sumPrio_map_bump (a : Nat) (T : Int) (vs : List Val) :
    sumPrio (vs.map (bump a T)) = sumPrio vs + sumPower vs - T * cntAddr a vs := by
  induction vs with
  | nil => simp [sumPrio, sumPower, cntAddr]
  | cons x xs ih =>
    simp only [List.map_cons, sumPrio, sumPower, cntAddr, ih, bump, setPrio_prio]
    by_cases h : x.addr = a <;> simp [h] <;> ring

theorem sum_add_power (vs : List Val) :
    (vs.map fun v => v.prio + v.power).sum = sumPrio vs + sumPower vs := by
  induction vs with
  | nil => simp [sumPrio, sumPower]
  | cons x xs ih => simp only [List.map_cons, List.sum_cons, sumPrio, sumPower, ih]; ring

/-- `stepOnce` when neither adder clips: the chosen validator has the largest `prio + power`. -/
theorem stepOnce_pure {T : Int} {vs : List Val} (hne : vs ≠ [])
    (h1 : ∀ v ∈ vs, minInt64 ≤ v.prio + v.power ∧ v.prio + v.power ≤ maxInt64)
    (h2 : ∀ v ∈ vs, minInt64 ≤ v.prio + v.power - T ∧ v.prio + v.power - T ≤ maxInt64) :
    ∃ m ∈ vs, (∀ v ∈ vs, v.prio + v.power ≤ m.prio + m.power) ∧
      stepOnce T vs = (vs.map (bump m.addr T), some m.addr) := by
  have hadd : addPowers vs = vs.map fun v => setPrio v (v.prio + v.power) := by
    unfold addPowers
    apply List.map_congr_left
    intro v hv
    rw [clip_id (h1 v hv).1 (h1 v hv).2]
  have hne' : addPowers vs ≠ [] := by
    rw [hadd]; simpa using hne
  obtain ⟨m', hm'⟩ := most_isSome hne'
  obtain ⟨hmem, hmax⟩ := most_spec hm'
  rw [hadd, List.mem_map] at hmem
  obtain ⟨m, hm, rfl⟩ := hmem
  refine ⟨m, hm, ?_, ?_⟩
  · intro v hv
    have := hmax (setPrio v (v.prio + v.power)) (by rw [hadd]; exact List.mem_map.2 ⟨v, hv, rfl⟩)
    simpa using this
  · unfold stepOnce
    simp only [hm', setPrio_addr]
    congr 1
    rw [hadd]
    unfold subAt
    rw [List.map_map]
    apply List.map_congr_left
    intro v hv
    simp only [Function.comp, setPrio_addr, setPrio_prio, bump]
    by_cases h : v.addr = m.addr
    · simp only [h, if_true]
      rw [clip_id (h2 v hv).1 (h2 v hv).2]
      rfl
    · simp only [h, if_false]
      simp [setPrio]

/-! ### `incOne` on a centred, in-window state is the pure round -/

theorem exists_nonpos_of_sum_zero {vs : List Val} (hne : vs ≠ []) (h : sumPrio vs = 0) :
    ∃ w ∈ vs, w.prio ≤ 0 := by
  by_contra hc
  simp only [not_exists, not_and, Int.not_le] at hc
  have h1 : ∀ x ∈ vs.map (fun v => -v.prio), x ≤ -1 := by
    intro x hx
    simp only [List.mem_map] at hx
    obtain ⟨v, hv, rfl⟩ := hx
    have := hc v hv; omega
  have h2 := sum_le_of_forall_le _ _ h1
  have h3 : (vs.map (fun v => -v.prio)).sum = - sumPrio vs := by
    clear h1 h2 hc h hne
    induction vs with
    | nil => simp [sumPrio]
    | cons a as ih => simp [sumPrio, ih]; omega
  have hl : 0 < vs.length := List.length_pos_iff.2 hne
  simp only [List.length_map] at h2
  omega

/-- Conditions under which a call `IncrementProposerPriority(1)` neither rescales, nor shifts, nor clips. -/
structure Calm (s : VSet) : Prop where
  ne : s.vals ≠ []
  sorted : SortedAddr s.vals
  pos : ∀ v ∈ s.vals, 1 ≤ v.power
  total_eq : s.total = sumPower s.vals
  total_le : s.total ≤ maxTotal
  sum0 : sumPrio s.vals = 0
  lower : ∀ v ∈ s.vals, -s.total < v.prio
  spread : SpreadLe s.vals (2 * s.total)

theorem sumPower_pos {vs : List Val} (hne : vs ≠ []) (hpos : ∀ v ∈ vs, 1 ≤ v.power) :
    1 ≤ sumPower vs := by
  cases vs with
  | nil => exact absurd rfl hne
  | cons x xs =>
    have hx := hpos x (by simp)
    have : 0 ≤ sumPower xs := by
      have h := sum_nonpos_of_forall_nonpos (xs.map fun v => -v.power) (by
        intro y hy; simp only [List.mem_map] at hy; obtain ⟨v, hv, rfl⟩ := hy
        have := hpos v (by simp [hv]); omega)
      have h3 : (xs.map (fun v => -v.power)).sum = - sumPower xs := by
        clear h hpos hx hne
        induction xs with
        | nil => simp [sumPower]
        | cons a as ih => simp [sumPower, ih]; omega
      omega
    simp only [sumPower]; omega

theorem Calm.upper {s : VSet} (c : Calm s) : ∀ v ∈ s.vals, v.prio ≤ 2 * s.total := by
  obtain ⟨w, hw, hw0⟩ := exists_nonpos_of_sum_zero c.ne c.sum0
  intro v hv
  have := c.spread v hv w hw
  omega

theorem Calm.total_pos {s : VSet} (c : Calm s) : 1 ≤ s.total := by
  rw [c.total_eq]; exact sumPower_pos c.ne c.pos

theorem Calm.rescale_id {s : VSet} (c : Calm s) :
    prioDiff s.vals ≤ windowFactor * s.total := by
  have hT := c.total_pos
  have hTle := c.total_le
  have hb : PrioBound s.vals (2 * s.total) := fun v hv =>
    ⟨by have := c.lower v hv; omega, c.upper v hv⟩
  obtain ⟨u, hu, w, hw, hd, _, _⟩ := prioDiff_spec c.ne (by unfold maxTotal at hTle; omega) hb
  rw [hd]
  have := c.spread u hu w hw
  unfold windowFactor; omega

theorem Calm.shift_id {s : VSet} (c : Calm s) : shiftByAvg s.vals = s.vals := by
  unfold shiftByAvg avgPrio
  rw [c.sum0]
  simp only [Int.zero_ediv, Int.sub_zero]
  have hT := c.total_pos
  have hTle := c.total_le
  conv => rhs; rw [← List.map_id s.vals]
  apply List.map_congr_left
  intro v hv
  have h1 := c.lower v hv
  have h2 := c.upper v hv
  rw [clip_id (by unfold minInt64; unfold maxTotal at hTle; omega) (by unfold maxInt64; unfold maxTotal at hTle; omega)]
  rfl

/-- the result of `IncrementProposerPriority(1)` on a calm state -/
theorem Calm.incOne_eq {s : VSet} (c : Calm s) :
    ∃ m ∈ s.vals, (∀ v ∈ s.vals, v.prio + v.power ≤ m.prio + m.power) ∧
      opInc 1 s = .ok ⟨s.vals.map (bump m.addr s.total), s.total, some m.addr⟩ := by
  have hT := c.total_pos
  have hTle := c.total_le
  have hpow : ∀ v ∈ s.vals, v.power ≤ s.total := by
    intro v hv
    rw [c.total_eq]
    clear hT hTle
    have hpos := c.pos
    generalize s.vals = vs at hv hpos
    induction vs with
    | nil => simp at hv
    | cons x xs ih =>
      simp only [List.mem_cons] at hv
      simp only [sumPower]
      rcases hv with rfl | hv
      · have : 0 ≤ sumPower xs := by
          by_cases hx : xs = []
          · simp [hx, sumPower]
          · have := sumPower_pos hx (fun v hv => hpos v (by simp [hv])); omega
        omega
      · have := ih hv (fun v hv => hpos v (by simp [hv]))
        have := hpos x (by simp); omega
  obtain ⟨m, hm, hmax, hstep⟩ := stepOnce_pure (T := s.total) c.ne
    (fun v hv => by
      have h1 := c.lower v hv; have h2 := c.upper v hv; have h3 := c.pos v hv; have h4 := hpow v hv
      unfold minInt64 maxInt64; unfold maxTotal at hTle; omega)
    (fun v hv => by
      have h1 := c.lower v hv; have h2 := c.upper v hv; have h3 := c.pos v hv; have h4 := hpow v hv
      unfold minInt64 maxInt64; unfold maxTotal at hTle; omega)
  refine ⟨m, hm, hmax, ?_⟩
  have htot : totalVP s = s.total := by
    unfold totalVP; rw [if_neg (by omega)]
  have hresc : rescale (windowFactor * s.total) s.vals = s.vals := by
    unfold rescale
    have := c.rescale_id
    rw [if_neg (by unfold windowFactor; omega), if_neg (by omega)]
  unfold opInc
  have hne : s.vals.isEmpty = false := by
    cases h : s.vals with
    | nil => exact absurd h c.ne
    | cons _ _ => rfl
  have hpan : rescalePanics (windowFactor * totalVP s) s.vals = false := by
    unfold rescalePanics
    rw [htot]
    have := c.rescale_id
    have h2 : decide (prioDiff s.vals > windowFactor * s.total) = false := by
      simp only [decide_eq_false_iff_not]; omega
    simp [h2]
  have hz : (s.total = 0) = False := by
    simp only [eq_iff_iff, iff_false]; omega
  simp only [hne, hpan, hz, Bool.false_eq_true, if_false, decide_false, Bool.false_and,
    show ¬ ((1 : Int) ≤ 0) by omega]
  unfold incTimes
  simp only [htot, hresc, c.shift_id]
  show Except.ok _ = _
  congr 1
  simp only [show (1 : Int).toNat = 1 by rfl, stepN, hstep]

/-! ### iteration, counting -/

theorem iter_succ' {σ : Type} (f : σ → σ) (k : Nat) (s : σ) : iter f (k + 1) s = f (iter f k s) := by
  induction k generalizing s with
  | zero => rfl
  | succ k ih => rw [iter, ih]; rfl

theorem iter_add {σ : Type} (f : σ → σ) (a b : Nat) (s : σ) :
    iter f (a + b) s = iter f b (iter f a s) := by
  induction a generalizing s with
  | zero => simp [iter]
  | succ a ih => rw [Nat.add_right_comm, iter, ih]; rfl

theorem countIn_succ_front (f : Nat → Option Nat) (a : Option Nat) (j n : Nat) :
    countIn f a j (n + 1) = (if f j = a then 1 else 0) + countIn f a (j + 1) n := by
  induction n with
  | zero => simp [countIn]
  | succ n ih =>
    rw [countIn, ih, countIn]
    have : j + 1 + n = j + (n + 1) := by omega
    rw [this]; omega

/-- windows of length `T` of a `T`-periodic sequence all have the same counts -/
theorem countIn_periodic (f : Nat → Option Nat) (a : Option Nat) (T : Nat)
    (hper : ∀ i, f (i + T) = f i) (j : Nat) : countIn f a j T = countIn f a 0 T := by
  induction j with
  | zero => rfl
  | succ j ih =>
    have h1 := countIn_succ_front f a j T
    have h2 : countIn f a j (T + 1) = countIn f a j T + (if f (j + T) = a then 1 else 0) := rfl
    rw [hper j] at h2
    omega

/-! ### the run from the all-zero state -/

/-- the context: a well-formed, non-empty, all-zero start with total power `T` -/
structure ZeroStart (z : VSet) : Prop where
  ne : z.vals ≠ []
  sorted : SortedAddr z.vals
  pos : ∀ v ∈ z.vals, 1 ≤ v.power
  total_eq : z.total = sumPower z.vals
  total_le : z.total ≤ maxTotal
  zero : ∀ v ∈ z.vals, v.prio = 0

/-- invariant of the run `S k = iter incOne k z` while no rescale happens -/
structure RunInv (z : VSet) (pick : Nat → Option Nat) (k : Nat) (s : VSet) : Prop where
  total : s.total = z.total
  shape : shape s.vals = shape z.vals
  sum0 : sumPrio s.vals = 0
  lower : ∀ v ∈ s.vals, -z.total < v.prio
  closed : ∀ v ∈ s.vals, v.prio = k * v.power - z.total * (countIn pick (some v.addr) 0 k : Nat)

theorem sumPrio_zero {vs : List Val} (h : ∀ v ∈ vs, v.prio = 0) : sumPrio vs = 0 := by
  induction vs with
  | nil => rfl
  | cons x xs ih =>
    simp [sumPrio, h x (by simp), ih (fun v hv => h v (by simp [hv]))]

theorem ZeroStart.total_pos {z : VSet} (hz : ZeroStart z) : 1 ≤ z.total := by
  rw [hz.total_eq]; exact sumPower_pos hz.ne hz.pos

theorem RunInv.init {z : VSet} (hz : ZeroStart z) (pick : Nat → Option Nat) : RunInv z pick 0 z where
  total := rfl
  shape := rfl
  sum0 := sumPrio_zero hz.zero
  lower := fun v hv => by rw [hz.zero v hv]; have := hz.total_pos; omega
  closed := fun v hv => by rw [hz.zero v hv]; simp [countIn]

theorem RunInv.calm {z s : VSet} {pick : Nat → Option Nat} {k : Nat} (hz : ZeroStart z)
    (h : RunInv z pick k s) (hs : SpreadLe s.vals (2 * z.total)) : Calm s where
  ne := by
    intro hc
    have := shape_length h.shape
    rw [hc] at this
    exact hz.ne (List.length_eq_zero_iff.1 this.symm)
  sorted := by rw [sortedAddr_iff_shape, h.shape, ← sortedAddr_iff_shape]; exact hz.sorted
  pos := by rw [pos_iff_shape, h.shape, ← pos_iff_shape]; exact hz.pos
  total_eq := by rw [h.total, sumPower_shape, h.shape, ← sumPower_shape]; exact hz.total_eq
  total_le := by rw [h.total]; exact hz.total_le
  sum0 := h.sum0
  lower := by rw [h.total]; exact h.lower
  spread := by rw [h.total]; exact hs

/-- one more round keeps the invariant, provided the spread was within `2T` (no rescale) -/
theorem RunInv.step {z s : VSet} {pick : Nat → Option Nat} {k : Nat} (hz : ZeroStart z)
    (h : RunInv z pick k s) (hs : SpreadLe s.vals (2 * z.total))
    (hpick : pick k = (incOne s).proposer) : RunInv z pick (k + 1) (incOne s) := by
  have c := h.calm hz hs
  obtain ⟨m, hm, hmax, hop⟩ := c.incOne_eq
  have hinc : incOne s = ⟨s.vals.map (bump m.addr s.total), s.total, some m.addr⟩ := by
    unfold incOne; rw [hop]
  rw [hinc] at hpick ⊢
  simp only at hpick
  have hT := hz.total_pos
  have hcnt : cntAddr m.addr s.vals = 1 := cntAddr_one c.sorted ⟨m, hm, rfl⟩
  refine ⟨h.total, ?_, ?_, ?_, ?_⟩
  · simp only [shape_map_bump]; exact h.shape
  · simp only [sumPrio_map_bump, hcnt, h.sum0, ← c.total_eq]; ring
  · intro v' hv'
    simp only [List.mem_map] at hv'
    obtain ⟨v, hv, rfl⟩ := hv'
    simp only [bump, setPrio_prio]
    by_cases ha : v.addr = m.addr
    · have hvm : v = m := addr_inj c.sorted hv hm ha
      subst hvm
      simp only [if_true]
      -- the maximum of prio+power is positive because the sum is T > 0
      have hsum : (s.vals.map fun v => v.prio + v.power).sum = s.total := by
        rw [sum_add_power, h.sum0, ← c.total_eq]; ring
      have hM : 1 ≤ v.prio + v.power := by
        by_contra hc
        have := sum_nonpos_of_forall_nonpos (s.vals.map fun v => v.prio + v.power) (by
          intro x hx
          simp only [List.mem_map] at hx
          obtain ⟨w, hw, rfl⟩ := hx
          have := hmax w hw; omega)
        have := c.total_pos
        omega
      rw [h.total]; omega
    · simp only [ha, if_false]
      have := h.lower v hv
      have := c.pos v hv
      omega
  · intro v' hv'
    simp only [List.mem_map] at hv'
    obtain ⟨v, hv, rfl⟩ := hv'
    have hcl := h.closed v hv
    simp only [bump, setPrio_prio, setPrio_addr, setPrio_power, countIn, Nat.zero_add, hpick,
      Option.some.injEq]
    rw [hcl, h.total]
    by_cases ha : v.addr = m.addr
    · simp only [ha, if_true]; push_cast; ring
    · have : ¬ m.addr = v.addr := fun h => ha h.symm
      simp only [ha, this, if_false]; push_cast; ring

/-- proposer chosen by the `(i+1)`-th call from `z` -/
def pickOf (z : VSet) (i : Nat) : Option Nat := (iter incOne (i + 1) z).proposer

theorem run_inv {z : VSet} (hz : ZeroStart z) (K : Nat)
    (hG : ∀ k < K, SpreadLe (iter incOne k z).vals (2 * z.total)) :
    ∀ k ≤ K, RunInv z (pickOf z) k (iter incOne k z) := by
  intro k
  induction k with
  | zero => intro _; exact RunInv.init hz _
  | succ k ih =>
    intro hk
    rw [iter_succ']
    exact (ih (by omega)).step hz (hG k (by omega)) (by unfold pickOf; rw [iter_succ'])

theorem opInc_one_congr {s s' : VSet} (hv : s.vals = s'.vals) (ht : s.total = s'.total) :
    opInc 1 s = opInc 1 s' := by
  cases s; cases s'
  simp only at hv ht
  subst hv ht
  simp [opInc, incTimes, totalVP, stepN]

theorem incOne_congr {s s' : VSet} (c : Calm s) (hv : s.vals = s'.vals) (ht : s.total = s'.total) :
    incOne s = incOne s' := by
  obtain ⟨m, _, _, hop⟩ := c.incOne_eq
  unfold incOne
  rw [← opInc_one_congr hv ht, hop]

theorem ZeroStart.calm {z : VSet} (hz : ZeroStart z) : Calm z :=
  (RunInv.init hz (fun _ => none)).calm hz (by
    intro u hu w hw
    rw [hz.zero u hu, hz.zero w hw]
    have := hz.total_pos; omega)

/-- after `T` calm rounds every priority is back to 0 and validator `v` was chosen `v.power` times -/
theorem run_at_T {z : VSet} (hz : ZeroStart z)
    (hG : ∀ k < z.total.toNat, SpreadLe (iter incOne k z).vals (2 * z.total)) :
    (iter incOne z.total.toNat z).vals = z.vals ∧ (iter incOne z.total.toNat z).total = z.total ∧
    ∀ v ∈ z.vals, (countIn (pickOf z) (some v.addr) 0 z.total.toNat : Int) = v.power := by
  have hT := hz.total_pos
  have inv := run_inv hz z.total.toNat hG z.total.toNat (Nat.le_refl _)
  generalize hS : iter incOne z.total.toNat z = s at inv
  have hTn : ((z.total.toNat : Nat) : Int) = z.total := Int.toNat_of_nonneg (by omega)
  -- every priority is T * (power - count) > -T, hence ≥ 0; they sum to 0, hence all are 0
  have hform : ∀ v ∈ s.vals, v.prio =
      z.total * (v.power - (countIn (pickOf z) (some v.addr) 0 z.total.toNat : Nat)) := by
    intro v hv
    have := inv.closed v hv
    rw [hTn] at this
    rw [this]; ring
  have hnn : ∀ v ∈ s.vals, 0 ≤ v.prio := by
    intro v hv
    have h1 := inv.lower v hv
    have h2 := hform v hv
    by_contra hneg
    have hlt : v.power - (countIn (pickOf z) (some v.addr) 0 z.total.toNat : Nat) ≤ -1 := by
      by_contra hc
      have : 0 ≤ v.power - (countIn (pickOf z) (some v.addr) 0 z.total.toNat : Nat) := by omega
      have := Int.mul_nonneg (show 0 ≤ z.total by omega) this
      omega
    have : z.total * (v.power - (countIn (pickOf z) (some v.addr) 0 z.total.toNat : Nat)) ≤ z.total * (-1) :=
      Int.mul_le_mul_of_nonneg_left hlt (by omega)
    omega
  have hzero : ∀ v ∈ s.vals, v.prio = 0 := by
    intro v hv
    have := all_zero_of_nonneg_sum_zero (s.vals.map (·.prio))
      (by intro x hx; simp only [List.mem_map] at hx; obtain ⟨w, hw, rfl⟩ := hx; exact hnn w hw)
      (by rw [← sumPrio_eq_sum]; exact inv.sum0)
    exact this v.prio (List.mem_map.2 ⟨v, hv, rfl⟩)
  have hvals : s.vals = z.vals := eq_of_shape_of_zero inv.shape hzero hz.zero
  refine ⟨hvals, inv.total, ?_⟩
  intro v hv
  rw [← hvals] at hv
  have h1 := hform v hv
  rw [hzero v hv] at h1
  have := Int.mul_eq_zero.1 h1.symm
  omega

/-- the picks are `T`-periodic -/
theorem pickOf_periodic {z : VSet} (hz : ZeroStart z)
    (hG : ∀ k < z.total.toNat, SpreadLe (iter incOne k z).vals (2 * z.total)) (i : Nat) :
    pickOf z (i + z.total.toNat) = pickOf z i := by
  obtain ⟨hv, ht, _⟩ := run_at_T hz hG
  unfold pickOf
  have : i + z.total.toNat + 1 = z.total.toNat + (i + 1) := by omega
  have hc : Calm (iter incOne z.total.toNat z) := by
    have := hz.calm
    exact ⟨by rw [hv]; exact this.ne, by rw [hv]; exact this.sorted, by rw [hv]; exact this.pos,
      by rw [hv, ht]; exact this.total_eq, by rw [ht]; exact this.total_le, by rw [hv]; exact this.sum0,
      by rw [hv, ht]; exact this.lower, by rw [hv, ht]; exact this.spread⟩
  rw [this, iter_add, iter, iter, incOne_congr hc hv ht]

/-- **Fairness of the calm rotation**: in every window of `T` consecutive rounds each validator is
chosen exactly `power` times. -/
theorem window_counts {z : VSet} (hz : ZeroStart z)
    (hG : ∀ k < z.total.toNat, SpreadLe (iter incOne k z).vals (2 * z.total))
    (j : Nat) (v : Val) (hv : v ∈ z.vals) :
    (countIn (pickOf z) (some v.addr) j z.total.toNat : Int) = v.power := by
  rw [countIn_periodic (pickOf z) (some v.addr) z.total.toNat (pickOf_periodic hz hG) j]
  exact (run_at_T hz hG).2.2 v hv

/-! ### one-pass counting (used to evaluate the counterexample) -/

theorem countIn_shift (f : Nat → Option Nat) (a : Option Nat) (j n : Nat) :
    countIn f a (j + 1) n = countIn (fun i => f (i + 1)) a j n := by
  induction n with
  | zero => rfl
  | succ n ih =>
    simp only [countIn, ih]
    have : j + 1 + n = j + n + 1 := by omega
    rw [this]

theorem countIn_eq_trace {σ : Type} (f : σ → σ) (obs : σ → Option Nat) (s : σ) (a : Option Nat)
    (n : Nat) : countIn (fun h => obs (iter f h s)) a 0 n = cnt a (trace f obs n s) := by
  induction n generalizing s with
  | zero => rfl
  | succ n ih =>
    rw [countIn_succ_front, countIn_shift]
    simp only [trace, cnt, iter]
    rw [ih (f s)]
    by_cases h : obs s = a <;> simp [h]

end GnoVerif.C37
