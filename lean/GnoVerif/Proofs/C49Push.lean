import GnoVerif.Proofs.C49Basic
/-! C49: what `PushBack` does to a state satisfying the invariant. -/
namespace GnoVerif.C49
set_option linter.unusedSimpArgs false

/-- the tail has no successor and its next wait group is armed. -/
theorem tail_next_none {s : State} (hI : Inv s) {t : Nat} (ht : s.tail = some t) :
    (s.elems t).next = none ∧ (s.elems t).nextClosed = false := by
  obtain ⟨hts, htl, hg⟩ := hI.list.tail_some t ht
  have hT := hI.elem t hts
  have hn : (s.elems t).next = none := by
    rcases hn : (s.elems t).next with _ | n
    · rfl
    · obtain ⟨htn, hns, _, hl⟩ := hT.next_some n hn
      have := hg n htn hns
      rw [hl htl] at this; cases this
  refine ⟨hn, ?_⟩
  rw [hT.nclosed, hn, htl]; rfl

/-- a live element without successor is the tail. -/
theorem eq_tail_of_next_none {s : State} (hI : Inv s) {i : Nat} (hi : i < s.size) (hr : s.rem i = false)
    (hn : (s.elems i).next = none) : s.tail = some i := by
  have hg := (hI.elem i hi).next_none hn hr
  rcases ht : s.tail with _ | t
  · have := hI.list.tail_none ht i hi; rw [hr] at this; cases this
  · obtain ⟨hts, htl, hgt⟩ := hI.list.tail_some t ht
    rcases Nat.lt_trichotomy i t with h | h | h
    · have := hg t h hts; rw [htl] at this; cases this
    · rw [h]
    · have := hgt i h hi; rw [hr] at this; cases this

theorem head_isSome_iff_tail {s : State} (hI : Inv s) : s.head.isSome = s.tail.isSome := by
  rcases hh : s.head with _ | h <;> rcases ht : s.tail with _ | t
  · rfl
  · obtain ⟨hts, htl, _⟩ := hI.list.tail_some t ht
    have := hI.list.head_none hh t hts; rw [htl] at this; cases this
  · obtain ⟨hhs, hhl, _⟩ := hI.list.head_some h hh
    have := hI.list.tail_none ht h hhs; rw [hhl] at this; cases this
  · rfl

theorem len_zero_iff {s : State} (hI : Inv s) : s.len = 0 ↔ s.head = none := by
  have hL := hI.list
  constructor
  · intro h0
    rcases hh : s.head with _ | h
    · rfl
    · obtain ⟨hhs, hhl, _⟩ := hL.head_some h hh
      have := cnt_pos (r := s.rem) hhs hhl
      have := hL.len_eq; unfold liveCount at this; omega
  · intro hh
    have : liveCount s = 0 := cnt_zero_iff.2 (hL.head_none hh)
    rw [hL.len_eq, this]; rfl

/-- the effect of `pushCore` on every field. -/
structure PushSpec (s s' : State) : Prop where
  size : s'.size = s.size + 1
  rem : ∀ j, s'.rem j = if j = s.size then false else s.rem j
  next : ∀ j, (s'.elems j).next =
    if j = s.size then none else if s.tail = some j then some s.size else (s.elems j).next
  prev : ∀ j, (s'.elems j).prev = if j = s.size then s.tail else (s.elems j).prev
  nclosed : ∀ j, (s'.elems j).nextClosed =
    if j = s.size then false else if s.tail = some j then true else (s.elems j).nextClosed
  pclosed : ∀ j, (s'.elems j).prevClosed = if j = s.size then s.tail.isSome else (s.elems j).prevClosed
  nstale : ∀ j, (s'.elems j).nextStale = if j = s.size then [] else (s.elems j).nextStale
  pstale : ∀ j, (s'.elems j).prevStale = if j = s.size then [] else (s.elems j).prevStale
  head : s'.head = if s.tail = none then some s.size else s.head
  tail : s'.tail = some s.size
  len : s'.len = s.len + 1
  closed : s'.closed = true
  stale : s'.stale = s.stale
  travs : s'.travs = s.travs
  alive : s'.poisoned = false

theorem pushCore_spec {s : State} (hI : Inv s) : ∃ s', pushCore s = some s' ∧ PushSpec s s' := by
  have hL := hI.list
  have hal := hI.alive
  have hguard : ¬ (s.len = 0 ∧ s.closed = true) := by
    rintro ⟨h0, hc⟩
    rw [hL.closed_eq, (len_zero_iff hI).1 h0] at hc; cases hc
  have hclosed : (if s.len = 0 then true else s.closed) = true := by
    split
    · rfl
    · rename_i h0
      rw [hL.closed_eq]
      rcases hh : s.head with _ | h
      · exact absurd ((len_zero_iff hI).2 hh) h0
      · rfl
  have hclosed' : s.len = 0 ∨ s.closed = true := by
    by_cases h0 : s.len = 0
    · exact Or.inl h0
    · right; simpa [h0] using hclosed
  rcases ht : s.tail with _ | t
  · refine ⟨_, by simp [pushCore, State.setElem, hguard, ht]; rfl, ?_⟩
    constructor <;> simp [State.rem, State.setElem, ht, hclosed, Elem.blank]
    all_goals first
      | exact hal
      | exact hclosed'
      | (intro j; by_cases hj : j = s.size <;> simp [hj])
  · obtain ⟨hts, htl, hg⟩ := hL.tail_some t ht
    obtain ⟨htn, htc⟩ := tail_next_none hI ht
    have h1 : t ≠ s.size := by omega
    have h2 : s.size ≠ t := by omega
    refine ⟨_, by simp [pushCore, State.setElem, hguard, ht, setPrev, setNext, Elem.blank, h1, h2, htn, htc]; rfl, ?_⟩
    constructor <;> simp [State.rem, State.setElem, ht, hclosed, Elem.blank]
    all_goals first
      | exact hal
      | exact hclosed'
      | (intro j; by_cases hj : j = s.size <;> by_cases hj' : j = t <;>
          simp [hj, hj', h1, h2, htn, htc, @eq_comm _ t j] <;> omega)

namespace PushSpec
variable {s s' : State}

theorem rem_old (h : PushSpec s s') {j : Nat} (hj : j < s.size) : s'.rem j = s.rem j := by
  rw [h.rem]; simp [Nat.ne_of_lt hj]

theorem rem_new (h : PushSpec s s') : s'.rem s.size = false := by
  rw [h.rem]; simp

/-- gaps below the old size are unchanged. -/
theorem gap_old (h : PushSpec s s') {a b : Nat} (hb : b ≤ s.size) (hg : GapRem s a b) : GapRem s' a b :=
  fun j h1 h2 => by rw [h.rem_old (by omega)]; exact hg j h1 h2

end PushSpec

theorem elemOK_push {s s' : State} (hI : Inv s) (hS : PushSpec s s') (i : Nat) (hi : i < s.size + 1) :
    ElemOK s' i := by
  have hL := hI.list
  by_cases hin : i = s.size
  · -- the new element
    subst hin
    constructor
    · intro m hm; rw [hS.next] at hm; simp at hm
    · intro _ _ j h1 h2; rw [hS.size] at h2; omega
    · intro p hp
      rw [hS.prev] at hp; simp at hp
      obtain ⟨hts, htl, hg⟩ := hL.tail_some p hp
      exact ⟨hts, hS.gap_old (Nat.le_refl _) hg, fun _ => by rw [hS.rem_old hts]; exact htl⟩
    · intro hp _ j hj
      rw [hS.prev] at hp; simp at hp
      rw [hS.rem_old hj]; exact hL.tail_none hp j hj
    · rw [hS.nclosed, hS.next, hS.rem_new]; simp
    · rw [hS.pclosed, hS.prev, hS.rem_new]; simp
    · intro b hb; rw [hS.nstale] at hb; simp at hb
    · intro b hb; rw [hS.pstale] at hb; simp at hb
  · have hi' : i < s.size := by omega
    have hIi := hI.elem i hi'
    constructor
    · -- next_some
      intro m hm
      rw [hS.next] at hm
      simp only [hin, if_false] at hm
      split at hm
      · rename_i ht
        obtain ⟨hts, htl, hg⟩ := hL.tail_some i ht
        cases hm
        exact ⟨hi', by rw [hS.size]; omega, hS.gap_old (Nat.le_refl _) hg, fun _ => hS.rem_new⟩
      · obtain ⟨him, hms, hg, hl⟩ := hIi.next_some m hm
        refine ⟨him, by rw [hS.size]; omega, hS.gap_old (by omega) hg, ?_⟩
        rw [hS.rem_old hi', hS.rem_old hms]; exact hl
    · -- next_none
      intro hm hri
      rw [hS.next] at hm
      simp only [hin, if_false] at hm
      split at hm
      · cases hm
      · rename_i ht
        rw [hS.rem_old hi'] at hri
        exact absurd (eq_tail_of_next_none hI hi' hri hm) ht
    · -- prev_some
      intro p hp
      rw [hS.prev] at hp
      simp only [hin, if_false] at hp
      obtain ⟨hpi, hg, hl⟩ := hIi.prev_some p hp
      refine ⟨hpi, hS.gap_old (by omega) hg, ?_⟩
      rw [hS.rem_old hi', hS.rem_old (by omega)]; exact hl
    · -- prev_none
      intro hp hri j hj
      rw [hS.prev] at hp
      simp only [hin, if_false] at hp
      rw [hS.rem_old hi'] at hri
      rw [hS.rem_old (by omega)]; exact hIi.prev_none hp hri j hj
    · rw [hS.nclosed, hS.next, hS.rem_old hi']
      simp only [hin, if_false]
      split
      · simp
      · exact hIi.nclosed
    · rw [hS.pclosed, hS.prev, hS.rem_old hi']
      simp only [hin, if_false]
      exact hIi.pclosed
    · intro b hb; rw [hS.nstale] at hb; simp only [hin, if_false] at hb; exact hIi.nstale b hb
    · intro b hb; rw [hS.pstale] at hb; simp only [hin, if_false] at hb; exact hIi.pstale b hb

theorem listOK_push {s s' : State} (hI : Inv s) (hS : PushSpec s s') : ListOK s' := by
  have hL := hI.list
  constructor
  · -- head_some
    intro h hh
    rw [hS.head] at hh
    rw [hS.size]
    split at hh
    · rename_i ht
      cases hh
      exact ⟨by omega, hS.rem_new, fun j hj => by rw [hS.rem_old hj]; exact hL.tail_none ht j hj⟩
    · obtain ⟨hhs, hhl, hall⟩ := hL.head_some h hh
      exact ⟨by omega, by rw [hS.rem_old hhs]; exact hhl,
        fun j hj => by rw [hS.rem_old (by omega)]; exact hall j hj⟩
  · -- head_none
    intro hh
    rw [hS.head] at hh
    split at hh
    · cases hh
    · rename_i ht
      have h1 := head_isSome_iff_tail hI
      rw [hh] at h1
      rcases ht' : s.tail with _ | t
      · exact absurd ht' ht
      · rw [ht'] at h1; cases h1
  · -- tail_some
    intro t ht
    rw [hS.tail] at ht; cases ht
    rw [hS.size]
    exact ⟨by omega, hS.rem_new, fun j h1 h2 => by omega⟩
  · intro ht; rw [hS.tail] at ht; cases ht
  · -- len_eq
    rw [hS.len, hL.len_eq]
    unfold liveCount
    rw [hS.size, cnt_succ_live hS.rem_new, cnt_congr (r' := s.rem) (fun j hj => hS.rem_old hj)]
    omega
  · -- closed_eq
    rw [hS.closed, hS.head]
    split
    · rfl
    · rename_i ht
      have h1 := head_isSome_iff_tail hI
      rcases ht' : s.tail with _ | t
      · exact absurd ht' ht
      · rw [ht'] at h1; rw [h1]; rfl
  · rw [hS.stale]; exact hL.stale_ok

theorem travOK_push {s s' : State} (hI : Inv s) (hS : PushSpec s s') (t : Nat) : TravOK s' t := by
  have hT := hI.trav t
  constructor
  · rw [hS.travs]; exact hT.sorted
  · rw [hS.travs, hS.size]; intro x hx; have := hT.bound x hx; omega
  · rw [hS.travs]; intro x hx j hj
    rcases hT.cover x hx j hj with h | h
    · exact Or.inl h
    · right; rw [hS.rem_old (by have := hT.bound x hx; omega)]; exact h
  · rw [hS.travs]; exact hT.st_at
  · rw [hS.travs]; intro e' w hw
    obtain ⟨h1, h2, h3⟩ := hT.st_wn e' w hw
    refine ⟨h1, h2, fun g hg => ?_⟩
    rw [hS.nstale]
    have : e' ≠ s.size := Nat.ne_of_lt (hT.bound e' h1)
    simp only [this, if_false]; exact h3 g hg
  · rw [hS.travs, hS.stale]; exact hT.st_wf
  · rw [hS.travs]; exact hT.st_idle

theorem inv_push {s s' : State} (hI : Inv s) (hS : PushSpec s s') : Inv s' :=
  ⟨hS.alive, listOK_push hI hS, fun i hi => elemOK_push hI hS i (by rw [← hS.size]; exact hi),
   travOK_push hI hS⟩

end GnoVerif.C49
