import GnoVerif.Spec.C50OMap
/-! Lemmas about the sorted-association-list spec (C50). -/
namespace GnoVerif.C50.OMap
variable {α : Type}

theorem keys_append (l1 l2 : List (Key × α)) : keys (l1 ++ l2) = keys l1 ++ keys l2 := by
  simp [keys]

theorem mem_keys {k : Key} {l : List (Key × α)} : k ∈ keys l ↔ ∃ v, (k, v) ∈ l := by
  simp [keys]

theorem keys_cons (p : Key × α) (l : List (Key × α)) : keys (p :: l) = p.1 :: keys l := by
  simp [keys]

theorem sorted_append {l1 l2 : List (Key × α)} :
    Sorted (l1 ++ l2) ↔ Sorted l1 ∧ Sorted l2 ∧ ∀ x ∈ keys l1, ∀ y ∈ keys l2, x < y := by
  simp only [Sorted, List.pairwise_append, keys, List.mem_map]
  constructor
  · rintro ⟨h1, h2, h3⟩
    refine ⟨h1, h2, ?_⟩
    rintro x ⟨a, ha, rfl⟩ y ⟨b, hb, rfl⟩
    exact h3 a ha b hb
  · rintro ⟨h1, h2, h3⟩
    exact ⟨h1, h2, fun a ha b hb => h3 _ ⟨a, ha, rfl⟩ _ ⟨b, hb, rfl⟩⟩

theorem sorted_cons {p : Key × α} {l : List (Key × α)} :
    Sorted (p :: l) ↔ (∀ y ∈ keys l, p.1 < y) ∧ Sorted l := by
  simp only [Sorted, List.pairwise_cons, keys, List.mem_map]
  constructor
  · rintro ⟨h1, h2⟩
    refine ⟨?_, h2⟩
    rintro y ⟨b, hb, rfl⟩
    exact h1 b hb
  · rintro ⟨h1, h2⟩
    exact ⟨fun b hb => h1 _ ⟨b, hb, rfl⟩, h2⟩

/-! ### insert -/

theorem insert_append_left {k : Key} {v : α} {l1 l2 : List (Key × α)}
    (h : ∀ y ∈ keys l2, k < y) : insert k v (l1 ++ l2) = insert k v l1 ++ l2 := by
  induction l1 with
  | nil =>
    cases l2 with
    | nil => rfl
    | cons p t =>
      have : k < p.1 := h p.1 (by simp [keys])
      simp [insert, this]
  | cons p t ih =>
    simp only [List.cons_append, insert]
    split
    · rfl
    · split
      · rfl
      · simp [ih]

theorem insert_append_right {k : Key} {v : α} {l1 l2 : List (Key × α)}
    (h : ∀ x ∈ keys l1, x < k) : insert k v (l1 ++ l2) = l1 ++ insert k v l2 := by
  induction l1 with
  | nil => rfl
  | cons p t ih =>
    have hp : p.1 < k := h p.1 (by simp [keys])
    have h1 : ¬ k < p.1 := by grind
    have h2 : k ≠ p.1 := by grind
    have ih' := ih (fun x hx => h x (by simp [keys] at hx ⊢; grind))
    simp [insert, h1, h2, ih']

theorem keys_insert (k : Key) (v : α) (l : List (Key × α)) :
    ∀ x, x ∈ keys (insert k v l) ↔ x = k ∨ x ∈ keys l := by
  induction l with
  | nil => simp [insert, keys]
  | cons p t ih =>
    intro x
    simp only [insert]
    split
    · simp [keys]
    · split
      · rename_i h; subst h; simp [keys]
      · simp only [keys_cons, List.mem_cons, ih x]; grind

theorem sorted_insert {k : Key} {v : α} {l : List (Key × α)} (h : Sorted l) :
    Sorted (insert k v l) := by
  induction l with
  | nil => simp [insert, Sorted]
  | cons p t ih =>
    rw [sorted_cons] at h
    simp only [insert]
    split
    · rename_i hlt
      rw [sorted_cons]; refine ⟨?_, sorted_cons.2 h⟩
      intro y hy; simp only [keys_cons, List.mem_cons] at hy
      rcases hy with rfl | hy
      · exact hlt
      · have := h.1 y hy; grind
    · split
      · rename_i heq; subst heq
        rw [sorted_cons]; exact ⟨h.1, h.2⟩
      · rw [sorted_cons]; refine ⟨?_, ih h.2⟩
        intro y hy
        rcases (keys_insert k v t y).1 hy with rfl | hy
        · grind
        · exact h.1 y hy

theorem length_insert {k : Key} {v : α} {l : List (Key × α)} (h : Sorted l) :
    (insert k v l).length = if k ∈ keys l then l.length else l.length + 1 := by
  induction l with
  | nil => simp [insert, keys]
  | cons p t ih =>
    rw [sorted_cons] at h
    simp only [insert, keys_cons, List.mem_cons]
    split
    · rename_i hlt
      have : ¬ (k = p.1 ∨ k ∈ keys t) := by
        rintro (rfl | hk)
        · grind
        · have := h.1 k hk; grind
      simp [this]
    · split
      · rename_i heq; simp [heq]
      · rename_i hne
        simp only [List.length_cons, ih h.2, hne, false_or]
        split <;> rfl

/-! ### erase -/

theorem erase_append (k : Key) (l1 l2 : List (Key × α)) :
    erase k (l1 ++ l2) = erase k l1 ++ erase k l2 := by
  simp [erase]

theorem erase_of_not_mem {k : Key} {l : List (Key × α)} (h : k ∉ keys l) : erase k l = l := by
  simp only [erase, List.filter_eq_self]
  intro p hp
  have : p.1 ≠ k := by
    rintro rfl
    exact h (by simp only [keys, List.mem_map]; exact ⟨p, hp, rfl⟩)
  simp [this]

theorem sorted_erase {k : Key} {l : List (Key × α)} (h : Sorted l) : Sorted (erase k l) :=
  List.Pairwise.filter _ h

theorem keys_erase (k : Key) (l : List (Key × α)) :
    ∀ x, x ∈ keys (erase k l) ↔ x ≠ k ∧ x ∈ keys l := by
  intro x
  simp only [keys, erase, List.mem_map, List.mem_filter]
  constructor
  · rintro ⟨p, ⟨hp, hne⟩, rfl⟩
    exact ⟨by simpa using hne, p, hp, rfl⟩
  · rintro ⟨hne, p, hp, rfl⟩
    exact ⟨p, ⟨hp, by simpa using hne⟩, rfl⟩

theorem erase_cons_self {k : Key} {v : α} {l : List (Key × α)} (h : Sorted ((k, v) :: l)) :
    erase k ((k, v) :: l) = l := by
  rw [sorted_cons] at h
  have : k ∉ keys l := fun hk => by have := h.1 k hk; grind
  simp [erase]
  simpa [erase] using erase_of_not_mem this

/-! ### lookup -/

theorem lookup_eq_none {k : Key} {l : List (Key × α)} (h : k ∉ keys l) : lookup k l = none := by
  induction l with
  | nil => rfl
  | cons p t ih =>
    simp only [keys_cons, List.mem_cons, not_or] at h
    simp [lookup, h.1, ih h.2]

theorem lookup_isSome {k : Key} {l : List (Key × α)} : (lookup k l).isSome ↔ k ∈ keys l := by
  induction l with
  | nil => simp [lookup, keys]
  | cons p t ih =>
    simp only [lookup, keys_cons, List.mem_cons]
    split
    · simp_all
    · simp_all

theorem lookup_append_left {k : Key} {l1 l2 : List (Key × α)} (h : k ∉ keys l2) :
    lookup k (l1 ++ l2) = lookup k l1 := by
  induction l1 with
  | nil => simpa [lookup] using lookup_eq_none h
  | cons p t ih => simp [lookup, ih]

theorem lookup_append_right {k : Key} {l1 l2 : List (Key × α)} (h : k ∉ keys l1) :
    lookup k (l1 ++ l2) = lookup k l2 := by
  induction l1 with
  | nil => rfl
  | cons p t ih =>
    simp only [keys_cons, List.mem_cons, not_or] at h
    simp [lookup, h.1, ih h.2]

/-! ### rank -/

theorem rank_append (k : Key) (l1 l2 : List (Key × α)) :
    rank k (l1 ++ l2) = rank k l1 + rank k l2 := by
  simp [rank]

theorem rank_eq_length {k : Key} {l : List (Key × α)} (h : ∀ x ∈ keys l, x < k) :
    rank k l = l.length := by
  simp only [rank]
  rw [List.filter_eq_self.2]
  intro p hp
  have := h p.1 (by simp only [keys, List.mem_map]; exact ⟨p, hp, rfl⟩)
  simpa using this

theorem rank_eq_zero {k : Key} {l : List (Key × α)} (h : ∀ x ∈ keys l, k ≤ x) :
    rank k l = 0 := by
  simp only [rank, List.length_eq_zero_iff, List.filter_eq_nil_iff]
  intro p hp
  have := h p.1 (by simp only [keys, List.mem_map]; exact ⟨p, hp, rfl⟩)
  simp; grind

end GnoVerif.C50.OMap
