import GnoVerif.Model.C20Wire
import Mathlib.Tactic.Ring
import Mathlib.Tactic.Linarith
/-! Lemmas about amino's wire primitives (property C20). -/
namespace GnoVerif.C20

theorem encUvarintF_fuel2 (f : Nat) : ∀ (g n : Nat), n ≤ f → n ≤ g → encUvarintF f n = encUvarintF g n := by
  induction f with
  | zero =>
    intro g n h _
    have : n = 0 := by omega
    subst this
    cases g <;> simp [encUvarintF]
  | succ f ih =>
    intro g n hf hg
    cases g with
    | zero =>
      have : n = 0 := by omega
      subst this
      simp [encUvarintF]
    | succ g =>
      simp only [encUvarintF]
      split
      · rfl
      · rw [ih g (n / 128) (by omega) (by omega)]

/-- the fuel of `encUvarintF` is irrelevant once it is at least `n`. -/
theorem encUvarintF_fuel (f n : Nat) (h : n ≤ f) : encUvarintF f n = encUvarintF n n :=
  encUvarintF_fuel2 f n n h (Nat.le_refl n)

theorem encUvarint_unfold (n : Nat) :
    encUvarint n = if n < 128 then [UInt8.ofNat n] else UInt8.ofNat (n % 128 + 128) :: encUvarint (n / 128) := by
  unfold encUvarint
  cases n with
  | zero => simp [encUvarintF]
  | succ n =>
    simp only [encUvarintF]
    split
    · rfl
    · rw [encUvarintF_fuel n ((n + 1) / 128) (by omega)]

theorem encUvarint_small {n : Nat} (h : n < 128) : encUvarint n = [UInt8.ofNat n] := by
  rw [encUvarint_unfold]; simp [h]

theorem encUvarint_big {n : Nat} (h : ¬ n < 128) :
    encUvarint n = UInt8.ofNat (n % 128 + 128) :: encUvarint (n / 128) := by
  rw [encUvarint_unfold]; simp [h]

theorem encUvarint_ne_nil (n : Nat) : encUvarint n ≠ [] := by
  rw [encUvarint_unfold]; split <;> simp

theorem encUvarint_length_pos (n : Nat) : 0 < (encUvarint n).length := by
  have := encUvarint_ne_nil n
  exact List.length_pos_iff.mpr this

end GnoVerif.C20

namespace GnoVerif.C20

theorem u8_toNat_ofNat_lt {n : Nat} (h : n < 256) : (UInt8.ofNat n).toNat = n := by
  simp [UInt8.toNat_ofNat, Nat.mod_eq_of_lt h]

/-- the decoding loop inverts the encoder from any loop state. -/
theorem decUvarintAux_enc (n : Nat) : ∀ (i s x : Nat) (rest : Bytes), i ≤ 9 → n < 2 ^ (64 - 7 * i) →
    decUvarintAux i s x (encUvarint n ++ rest) = some (x + n * 2 ^ s, i + (encUvarint n).length) := by
  induction n using Nat.strongRecOn with
  | _ n ih =>
    intro i s x rest hi hn
    by_cases hlt : n < 128
    · rw [encUvarint_small hlt]
      simp only [List.singleton_append, decUvarintAux, List.length_singleton]
      have hb : (UInt8.ofNat n).toNat = n := u8_toNat_ofNat_lt (by omega)
      rw [hb]
      have h10 : ¬ i = 10 := by omega
      simp only [h10, if_false, hlt, if_true]
      have : ¬ (i = 9 ∧ n > 1) := by
        intro ⟨h9, h1⟩
        subst h9
        simp at hn
        omega
      simp [this]
    · rw [encUvarint_big hlt]
      simp only [List.cons_append, decUvarintAux, List.length_cons]
      have hb : (UInt8.ofNat (n % 128 + 128)).toNat = n % 128 + 128 := u8_toNat_ofNat_lt (by omega)
      rw [hb]
      have h10 : ¬ i = 10 := by omega
      have hge : ¬ (n % 128 + 128 < 128) := by omega
      simp only [h10, if_false, hge]
      have hi8 : i ≤ 8 := by
        by_cases h9 : i = 9
        · subst h9
          simp at hn
          omega
        · omega
      have hdiv : n / 128 < 2 ^ (64 - 7 * (i + 1)) := by
        have e : 64 - 7 * i = (64 - 7 * (i + 1)) + 7 := by omega
        rw [e, Nat.pow_add] at hn
        exact Nat.div_lt_of_lt_mul (by simpa [Nat.mul_comm] using hn)
      rw [ih (n / 128) (by omega) (i + 1) (s + 7) _ rest (by omega) hdiv]
      have hmod : (n % 128 + 128) % 128 = n % 128 := by omega
      rw [hmod]
      have key : x + n % 128 * 2 ^ s + n / 128 * 2 ^ (s + 7) = x + n * 2 ^ s := by
        have hdm := Nat.div_add_mod n 128
        have : 2 ^ (s + 7) = 128 * 2 ^ s := by rw [Nat.pow_add]; ring
        rw [this]
        calc x + n % 128 * 2 ^ s + n / 128 * (128 * 2 ^ s)
            = x + (128 * (n / 128) + n % 128) * 2 ^ s := by ring
          _ = x + n * 2 ^ s := by rw [hdm]
      rw [key]
      have : i + 1 + (encUvarint (n / 128)).length = i + ((encUvarint (n / 128)).length + 1) := by omega
      rw [this]

/-- **uvarint round trip** (for every uint64). -/
theorem decUvarint_encUvarint (n : Nat) (h : n < 2 ^ 64) (rest : Bytes) :
    decUvarint (encUvarint n ++ rest) = some (n, (encUvarint n).length) := by
  unfold decUvarint
  rw [decUvarintAux_enc n 0 0 0 rest (by omega) (by simpa using h)]
  simp

end GnoVerif.C20

namespace GnoVerif.C20

/-- what an accepted uvarint looks like: at least one byte, at most 10, within the buffer. -/
theorem decUvarintAux_bounds : ∀ (bz : Bytes) (i s x v n : Nat), i ≤ 10 →
    decUvarintAux i s x bz = some (v, n) → i < n ∧ n ≤ i + bz.length ∧ n ≤ 10 := by
  intro bz
  induction bz with
  | nil => intro i s x v n _ h; simp [decUvarintAux] at h
  | cons b rest ih =>
    intro i s x v n hi h
    simp only [decUvarintAux] at h
    split at h
    · simp at h
    · rename_i h10
      split at h
      · split at h
        · simp at h
        · simp only [Option.some.injEq, Prod.mk.injEq] at h
          obtain ⟨_, rfl⟩ := h
          simp only [List.length_cons]
          omega
      · have := ih (i + 1) (s + 7) _ v n (by omega) h
        simp only [List.length_cons]
        omega

theorem decUvarint_bounds {bz : Bytes} {v n : Nat} (h : decUvarint bz = some (v, n)) :
    0 < n ∧ n ≤ bz.length ∧ n ≤ 10 := by
  have := decUvarintAux_bounds bz 0 0 0 v n (by omega) h
  omega

/-- **overlong varints are rejected**: ten continuation bytes (a value that needs more
than 64 bits) never decode, whatever follows. -/
theorem decUvarintAux_overlong : ∀ (bz : Bytes) (i s x : Nat), i ≤ 10 → 10 - i ≤ bz.length →
    (∀ b ∈ bz.take (10 - i), 128 ≤ b.toNat) → decUvarintAux i s x bz = none := by
  intro bz
  induction bz with
  | nil => intro i s x _ _ _; simp [decUvarintAux]
  | cons b rest ih =>
    intro i s x hi hlen hall
    simp only [decUvarintAux]
    by_cases h10 : i = 10
    · simp [h10]
    · simp only [h10, if_false]
      have hpos : 10 - i = (10 - (i + 1)) + 1 := by omega
      have hb : 128 ≤ b.toNat := by
        apply hall
        rw [hpos]; simp
      have : ¬ b.toNat < 128 := by omega
      simp only [this, if_false]
      apply ih (i + 1) (s + 7) _ (by omega)
      · simp only [List.length_cons] at hlen; omega
      · intro c hc
        apply hall
        rw [hpos]
        simp only [List.take_succ_cons, List.mem_cons]
        exact Or.inr hc

theorem decUvarint_overlong (bz : Bytes) (hlen : 10 ≤ bz.length)
    (hall : ∀ b ∈ bz.take 10, 128 ≤ b.toNat) : decUvarint bz = none :=
  decUvarintAux_overlong bz 0 0 0 (by omega) (by simpa using hlen) (by simpa using hall)

/-- a buffer that ends inside a varint is rejected. -/
theorem decUvarintAux_truncated : ∀ (bz : Bytes) (i s x : Nat),
    (∀ b ∈ bz, 128 ≤ b.toNat) → decUvarintAux i s x bz = none := by
  intro bz
  induction bz with
  | nil => intro i s x _; simp [decUvarintAux]
  | cons b rest ih =>
    intro i s x hall
    simp only [decUvarintAux]
    split
    · rfl
    · have hb : 128 ≤ b.toNat := hall b (by simp)
      have : ¬ b.toNat < 128 := by omega
      simp only [this, if_false]
      exact ih _ _ _ (fun c hc => hall c (by simp [hc]))

theorem decUvarint_truncated (bz : Bytes) (hall : ∀ b ∈ bz, 128 ≤ b.toNat) : decUvarint bz = none :=
  decUvarintAux_truncated bz 0 0 0 hall

end GnoVerif.C20

namespace GnoVerif.C20

/-! ### signed conversions -/

theorem zigzag_lt {z : Int} (h1 : -(2 ^ 63 : Int) ≤ z) (h2 : z < (2 ^ 63 : Int)) : zigzag z < 2 ^ 64 := by
  unfold zigzag
  split <;> omega

theorem unzigzag_zigzag (z : Int) : unzigzag (zigzag z) = z := by
  unfold zigzag unzigzag
  split
  · rename_i h
    have e : (2 * z).toNat = 2 * z.toNat := by omega
    rw [e]
    have : (2 * z.toNat) % 2 = 0 := by omega
    simp only [this, if_true]
    have : 2 * z.toNat / 2 = z.toNat := by omega
    rw [this]; omega
  · rename_i h
    have hz : z < 0 := by omega
    have e : (-2 * z - 1).toNat = 2 * (-z - 1).toNat + 1 := by omega
    rw [e]
    have : (2 * (-z - 1).toNat + 1) % 2 ≠ 0 := by omega
    simp only [this, if_false]
    have : (2 * (-z - 1).toNat + 1) / 2 = (-z - 1).toNat := by omega
    rw [this]; omega

theorem two64_cast : ((2 ^ 64 : Nat) : Int) = 18446744073709551616 := by norm_num
theorem two32_cast : ((2 ^ 32 : Nat) : Int) = 4294967296 := by norm_num

theorem ofU64_toU64 {z : Int} (h1 : -(2 ^ 63 : Int) ≤ z) (h2 : z < (2 ^ 63 : Int)) : ofU64 (toU64 z) = z := by
  unfold ofU64 toU64 two63 two64
  rw [two64_cast]
  have e63 : (2 ^ 63 : Nat) = 9223372036854775808 := by norm_num
  rw [e63]
  norm_num at h1 h2
  split <;> omega

theorem toU64_lt (z : Int) : toU64 z < 2 ^ 64 := by
  unfold toU64 two64
  rw [two64_cast]
  have : (2 ^ 64 : Nat) = 18446744073709551616 := by norm_num
  rw [this]
  omega

theorem ofU32_toU32 {z : Int} (h1 : -(2 ^ 31 : Int) ≤ z) (h2 : z < (2 ^ 31 : Int)) : ofU32 (toU32 z) = z := by
  unfold ofU32 toU32 two31 two32
  rw [two32_cast]
  have e31 : (2 ^ 31 : Nat) = 2147483648 := by norm_num
  rw [e31]
  norm_num at h1 h2
  split <;> omega

theorem toU32_lt (z : Int) : toU32 z < 2 ^ 32 := by
  unfold toU32 two32
  rw [two32_cast]
  have : (2 ^ 32 : Nat) = 4294967296 := by norm_num
  rw [this]
  omega

/-! ### fixed width -/

theorem leNat_leBytes : ∀ (k n : Nat), n < 256 ^ k → leNat (leBytes k n) = n := by
  intro k
  induction k with
  | zero => intro n h; simp at h; subst h; rfl
  | succ k ih =>
    intro n h
    simp only [leBytes, leNat]
    rw [ih (n / 256) (by
      rw [Nat.pow_succ] at h
      exact Nat.div_lt_of_lt_mul (by rw [Nat.mul_comm]; exact h))]
    rw [u8_toNat_ofNat_lt (Nat.mod_lt n (by omega))]
    omega

theorem leBytes_length (k n : Nat) : (leBytes k n).length = k := by
  induction k generalizing n with
  | zero => rfl
  | succ k ih => simp [leBytes, ih]

theorem decFixed_enc (k n : Nat) (h : n < 256 ^ k) (rest : Bytes) :
    decFixed k (leBytes k n ++ rest) = some (n, k) := by
  unfold decFixed
  have hl : ¬ (leBytes k n ++ rest).length < k := by simp [leBytes_length]
  simp only [hl, if_false]
  have : (leBytes k n ++ rest).take k = leBytes k n := by
    rw [List.take_append_of_le_length (by simp [leBytes_length])]
    rw [List.take_of_length_le (by simp [leBytes_length])]
  rw [this, leNat_leBytes k n h]

/-! ### byte strings and keys -/

theorem decBytes_encBytes (bs rest : Bytes) (h : bs.length < 2 ^ 64) :
    decBytes (encBytes bs ++ rest) = some (bs, (encBytes bs).length) := by
  unfold decBytes encBytes
  rw [List.append_assoc, decUvarint_encUvarint bs.length h]
  simp

theorem encKey_lt {num : Nat} (t : Typ3) (h : num < 2 ^ 29) : num * 8 + t.code < 2 ^ 64 := by
  have : t.code < 8 := by cases t <;> simp [Typ3.code]
  have : (2:Nat) ^ 29 * 8 < 2 ^ 64 := by norm_num
  omega

theorem decKeyRaw_encKey (num : Nat) (t : Typ3) (h0 : 0 < num) (h : num < 2 ^ 29) (rest : Bytes) :
    decKeyRaw (encKey num t ++ rest) = some (num, t.code, (encKey num t).length) := by
  unfold decKeyRaw encKey
  rw [decUvarint_encUvarint _ (encKey_lt t h)]
  have hc : t.code < 8 := by cases t <;> simp [Typ3.code]
  have h1 : (num * 8 + t.code) / 8 = num := by omega
  have h2 : (num * 8 + t.code) % 8 = t.code := by omega
  simp only [h1, h2]
  have : ¬ num = 0 := by omega
  have h29 : ¬ num > 2 ^ 29 - 1 := by omega
  simp only [this, h29, if_false]

end GnoVerif.C20
