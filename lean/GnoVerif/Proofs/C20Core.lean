import GnoVerif.Proofs.C20Wire
import GnoVerif.Proofs.C20Val
/-!
The "wire-format core" fragment of amino for which the round trip is PROVED
(property C20): primitives (uvarint / zig-zag / plain varint, fixed32/64, bool,
strings, byte slices, byte arrays) and structs of such fields, nested to any
depth through non-pointer and pointer fields, with amino's zero-value omission.

`wf env d td v` — the value `v` fits descriptor `td`; `d` bounds the struct
nesting depth (needed because the decoder's zero values come from a fuelled
walk of the environment).  Lists: packed lists of non-ByteLength primitives,
unpacked lists of strings / byte slices / byte arrays / structs / struct pointers /
interfaces.  Interfaces (google.protobuf.Any) hold registered STRUCT types.
-/
namespace GnoVerif.C20

/-- primitive descriptors of the fragment, with the value in range. -/
def primOK : TD → Val → Bool
  | .uvar bits, .u n => (bits == 8 || bits == 16 || bits == 32 || bits == 64) && decide (n < 2 ^ bits)
  | .svar bits, .i z => (bits == 8 || bits == 16 || bits == 32 || bits == 64) && inRangeI bits z
  | .pvar bits, .i z => (bits == 32 || bits == 64) && inRangeI bits z
  | .fix32 true, .i z => inRangeI 32 z
  | .fix32 false, .u n => decide (n < 2 ^ 32)
  | .fix64 true, .i z => inRangeI 64 z
  | .fix64 false, .u n => decide (n < 2 ^ 64)
  | .bool, .b _ => true
  | .str, .x bs => decide (bs.length < 2 ^ 64)
  | .bytes, .x bs => decide (bs.length < 2 ^ 64)
  | .barr n, .x bs => bs.length == n && decide (n < 2 ^ 64)
  | _, _ => false

def isPrimTD : TD → Bool
  | .uvar _ | .svar _ | .pvar _ | .fix32 _ | .fix64 _ | .bool | .str | .bytes | .barr _ => true
  | _ => false

def isRefTD : TD → Bool
  | .ref _ => true
  | _ => false

def isListTD : TD → Bool
  | .list _ _ _ => true
  | _ => false

def isIfaceTD : TD → Bool
  | .iface _ => true
  | _ => false

/-- a registered name usable in a type URL: printable ASCII without '/', so that
`"/" ++ name` passes `IsASCIIText` and `typeURLtoFullname` gives the name back. -/
def nameOK (name : Bytes) : Bool :=
  name.all (fun b => decide (32 ≤ b.toNat) && decide (b.toNat ≤ 126) && b != 47) &&
    decide (name.length + 1 < 2 ^ 64)

/-- element descriptors of PACKED lists: primitives whose typ3 is not ByteLength
(and not the raw-byte element case). -/
def isPackedElem : TD → Bool
  | .uvar b => b != 8
  | .svar _ | .pvar _ | .fix32 _ | .fix64 _ | .bool => true
  | _ => false

/-- primitive element descriptors of UNPACKED lists (ByteLength typ3). -/
def isBLElemPrim : TD → Bool
  | .str | .bytes | .barr _ => true
  | _ => false

/-- list element descriptors of the fragment: packed primitives, ByteLength
primitives, or structs (the only ones that may be pointers). -/
def listElemOK (env : Env) (ptr : Bool) (e : TD) : Bool :=
  ((isPackedElem e || isBLElemPrim e || isIfaceTD e) && !ptr) || (isRefTD e && isStructKind env e)

mutual
/-- `v` is a value of descriptor `td` inside the proved fragment. -/
def wf (env : Env) (d : Nat) (td : TD) (v : Val) : Bool :=
  match v with
  | .u n => primOK td (.u n)
  | .i z => primOK td (.i z)
  | .b x => primOK td (.b x)
  | .x bs => primOK td (.x bs)
  | .struct vs =>
    match td with
    | .ref name =>
      match env.find? name with
      | some ⟨_, _, .struct fs _⟩ =>
        match d with
        | 0 => false
        | d' + 1 => wfFields env d' fs vs
      | _ => false
    | _ => false
  | .list vs =>
    match td with
    | .list ptr ne e => !ne && listElemOK env ptr e && wfElems env d e vs
    | _ => false
  | .nil =>
    match td with
    | .iface _ => d != 0   -- nil interface (a decoder visit costs one Any level)
    | _ => false
  | .any name cv =>
    match td with
    | .iface id =>
      match env.find? name with
      | some ⟨_, ifs, .struct _ _⟩ => ifs.contains id && nameOK name && wf env d (.ref name) cv
      | _ => false
    | _ => false
  | _ => false
/-- list elements (never nil in the fragment). -/
def wfElems (env : Env) (d : Nat) (e : TD) (vs : List Val) : Bool :=
  match vs with
  | [] => true
  | v :: vs' => wf env d e v && wfElems env d e vs'
/-- field values: non-pointer fields hold a primitive, a struct or a list; pointer
fields point to structs (`.nil` = nil pointer); no `write_empty`. -/
def wfFields (env : Env) (d : Nat) (fs : List FieldD) (vs : List Val) : Bool :=
  match vs, fs with
  | [], [] => true
  | v :: vs', f :: fs' =>
    (!f.writeEmpty &&
      (if f.ptr then isRefTD f.td && isStructKind env f.td &&
          (match v with | .nil => true | _ => wf env d f.td v)
       else (isPrimTD f.td || isRefTD f.td || isListTD f.td || isIfaceTD f.td) && wf env d f.td v)) &&
    wfFields env d fs' vs'
  | _, _ => false
end

mutual
/-- decoder fuel that suffices for a value. -/
def fuelVal : Val → Nat
  | .struct vs => fuelFields vs + 1
  | _ => 1
def fuelFields : List Val → Nat
  | [] => 1
  | v :: vs => fuelVal v + fuelFields vs + 1
end

/-- field numbers strictly increasing, above `last`, inside amino's range. -/
def fieldsSorted : Nat → List FieldD → Bool
  | _, [] => true
  | last, f :: fs => decide (last < f.num) && decide (f.num < 2 ^ 29) && fieldsSorted f.num fs

/-- every struct of the environment has well-ordered field numbers (amino assigns
1, 2, 3, … in declaration order) and entries are found under their own name. -/
def envOK (env : Env) : Prop :=
  ∀ name ent, env.find? name = some ent →
    match ent.defn with
    | .struct fs _ => fieldsSorted 0 fs = true
    | .alias _ => True

end GnoVerif.C20
