import GnoVerif.Model.C51
/-! Helper lemmas for C51: the association-list map (`find`/`set`/`erase`/`total`)
    and the int64 arithmetic of `Model/C51.lean`.  Core only. -/
namespace GnoVerif.C51
set_option linter.unusedVariables false
set_option linter.unusedSectionVars false

/-! ### int64 -/

theorem wrap64_of_isI64 {x : Int} (h : isI64 x) : wrap64 x = x := by
  unfold isI64 minInt64 maxInt64 at h
  unfold wrap64
  omega

theorem add64p_some {a b : Int} (ha : isI64 a) (hb : isI64 b) (h : isI64 (a + b)) :
    add64p a b = some (a + b) := by
  unfold add64p add64
  simp only [wrap64_of_isI64 h]
  unfold isI64 minInt64 maxInt64 at *
  by_cases hb0 : b > 0
  · have : a + b > a := by omega
    simp [hb0, this]
  · have : ¬ (a + b > a) := by omega
    simp [hb0, this]

theorem add64p_none {a b : Int} (ha : isI64 a) (hb : isI64 b) (h : ¬ isI64 (a + b)) :
    add64p a b = none := by
  unfold add64p add64 wrap64
  unfold isI64 minInt64 maxInt64 at *
  by_cases hb0 : b > 0
  · have : ¬ ((a + b + 9223372036854775808) % 18446744073709551616 - 9223372036854775808 > a) := by omega
    simp [hb0, this]
  · have : (a + b + 9223372036854775808) % 18446744073709551616 - 9223372036854775808 > a := by omega
    simp [hb0, this]

theorem sub64p_some {a b : Int} (ha : isI64 a) (hb : isI64 b) (h : isI64 (a - b)) :
    sub64p a b = some (a - b) := by
  unfold sub64p sub64
  simp only [wrap64_of_isI64 h]
  unfold isI64 minInt64 maxInt64 at *
  by_cases hb0 : b > 0
  · have : a - b < a := by omega
    simp [hb0, this]
  · have : ¬ (a - b < a) := by omega
    simp [hb0, this]

theorem sub64p_none {a b : Int} (ha : isI64 a) (hb : isI64 b) (h : ¬ isI64 (a - b)) :
    sub64p a b = none := by
  unfold sub64p sub64 wrap64
  unfold isI64 minInt64 maxInt64 at *
  by_cases hb0 : b > 0
  · have : ¬ ((a - b + 9223372036854775808) % 18446744073709551616 - 9223372036854775808 < a) := by omega
    simp [hb0, this]
  · have : (a - b + 9223372036854775808) % 18446744073709551616 - 9223372036854775808 < a := by omega
    simp [hb0, this]

/-! ### maps -/

section Map
variable {κ : Type} [DecidableEq κ]

@[simp] theorem find_nil (k : κ) : find ([] : List (κ × Int)) k = none := rfl

theorem find_cons (e : κ × Int) (m : List (κ × Int)) (k : κ) :
    find (e :: m) k = if e.1 = k then some e.2 else find m k := by
  obtain ⟨k', v⟩ := e; rfl

theorem mem_erase {m : List (κ × Int)} {k : κ} {e : κ × Int} :
    e ∈ erase m k ↔ e ∈ m ∧ e.1 ≠ k := by
  simp [erase]

theorem mem_set {m : List (κ × Int)} {k : κ} {v : Int} {e : κ × Int} :
    e ∈ set m k v ↔ e = (k, v) ∨ (e ∈ m ∧ e.1 ≠ k) := by
  simp [set, mem_erase]

theorem find_erase_self (m : List (κ × Int)) (k : κ) : find (erase m k) k = none := by
  induction m with
  | nil => rfl
  | cons e m ih =>
    by_cases h : e.1 = k
    · simpa [erase, h] using ih
    · have : erase (e :: m) k = e :: erase m k := by simp [erase, h]
      rw [this, find_cons]; simp [h, ih]

theorem find_erase_ne (m : List (κ × Int)) {k k' : κ} (hne : k' ≠ k) :
    find (erase m k) k' = find m k' := by
  induction m with
  | nil => rfl
  | cons e m ih =>
    by_cases h : e.1 = k
    · have h1 : erase (e :: m) k = erase m k := by simp [erase, h]
      have h2 : e.1 ≠ k' := by rw [h]; exact fun h' => hne h'.symm
      rw [h1, ih, find_cons]; simp [h2]
    · have : erase (e :: m) k = e :: erase m k := by simp [erase, h]
      rw [this, find_cons, find_cons, ih]

theorem find_set_self (m : List (κ × Int)) (k : κ) (v : Int) : find (set m k v) k = some v := by
  simp [set, find]

theorem find_set_ne (m : List (κ × Int)) {k k' : κ} (v : Int) (hne : k' ≠ k) :
    find (set m k v) k' = find m k' := by
  have : k ≠ k' := fun h => hne h.symm
  simp [set, find, this, find_erase_ne m hne]

theorem getD0_erase_self (m : List (κ × Int)) (k : κ) : getD0 (erase m k) k = 0 := by
  simp [getD0, find_erase_self]

theorem getD0_erase_ne (m : List (κ × Int)) {k k' : κ} (hne : k' ≠ k) :
    getD0 (erase m k) k' = getD0 m k' := by
  simp [getD0, find_erase_ne m hne]

theorem getD0_set_self (m : List (κ × Int)) (k : κ) (v : Int) : getD0 (set m k v) k = v := by
  simp [getD0, find_set_self]

theorem getD0_set_ne (m : List (κ × Int)) {k k' : κ} (v : Int) (hne : k' ≠ k) :
    getD0 (set m k v) k' = getD0 m k' := by
  simp [getD0, find_set_ne m v hne]

theorem find_some_mem {m : List (κ × Int)} {k : κ} {v : Int} (h : find m k = some v) : (k, v) ∈ m := by
  induction m with
  | nil => simp at h
  | cons e m ih =>
    rw [find_cons] at h
    by_cases h0 : e.1 = k
    · simp [h0] at h
      have : e = (k, v) := by cases e; simp_all
      simp [this]
    · simp [h0] at h
      exact List.mem_cons_of_mem _ (ih h)

theorem find_none_of_not_mem_keys {m : List (κ × Int)} {k : κ} (h : k ∉ keys m) : find m k = none := by
  induction m with
  | nil => rfl
  | cons e m ih =>
    simp [keys] at h
    rw [find_cons]
    have h1 : e.1 ≠ k := fun h' => h.1 h'.symm
    simp [h1]
    exact ih (by simpa [keys] using h.2)

theorem keys_erase_nodup {m : List (κ × Int)} (k : κ) (h : (keys m).Nodup) : (keys (erase m k)).Nodup := by
  unfold keys erase at *
  induction m with
  | nil => simp
  | cons e m ih =>
    simp only [List.map_cons, List.nodup_cons] at h
    by_cases hk : e.1 = k
    · simpa [List.filter_cons, hk] using ih h.2
    · simp only [List.filter_cons, ne_eq, hk, not_false_eq_true, decide_true, ite_true,
        List.map_cons, List.nodup_cons]
      refine ⟨?_, ih h.2⟩
      intro hmem
      apply h.1
      simp only [List.mem_map, List.mem_filter] at hmem ⊢
      obtain ⟨a, ⟨ha, _⟩, hae⟩ := hmem
      exact ⟨a, ha, hae⟩

theorem not_mem_keys_erase (m : List (κ × Int)) (k : κ) : k ∉ keys (erase m k) := by
  simp [keys, erase]

theorem keys_set_nodup {m : List (κ × Int)} (k : κ) (v : Int) (h : (keys m).Nodup) :
    (keys (set m k v)).Nodup := by
  have h1 := keys_erase_nodup k h
  have h2 := not_mem_keys_erase m k
  simp only [set, keys, List.map_cons, List.nodup_cons] at *
  exact ⟨h2, h1⟩

@[simp] theorem total_nil : total ([] : List (κ × Int)) = 0 := rfl

theorem total_cons (e : κ × Int) (m : List (κ × Int)) : total (e :: m) = e.2 + total m := by
  simp [total]

/-- removing a key removes exactly its value from the sum (keys are unique) -/
theorem total_erase {m : List (κ × Int)} (k : κ) (h : (keys m).Nodup) :
    total (erase m k) = total m - getD0 m k := by
  induction m with
  | nil => simp [erase, getD0]
  | cons e m ih =>
    have hn : (keys m).Nodup := by
      simp only [keys, List.map_cons, List.nodup_cons] at h ⊢; exact h.2
    by_cases hk : e.1 = k
    · have h1 : erase (e :: m) k = erase m k := by simp [erase, hk]
      have hnot : k ∉ keys m := by
        simp only [keys, List.map_cons, List.nodup_cons] at h
        rw [← hk]; exact h.1
      have h2 : getD0 m k = 0 := by simp [getD0, find_none_of_not_mem_keys hnot]
      rw [h1, ih hn, total_cons, h2]
      simp only [getD0, find_cons, hk, ite_true, Option.getD_some]
      omega
    · have h1 : erase (e :: m) k = e :: erase m k := by simp [erase, hk]
      rw [h1, total_cons, total_cons, ih hn]
      simp only [getD0, find_cons, hk, ite_false]
      omega

theorem total_set {m : List (κ × Int)} (k : κ) (v : Int) (h : (keys m).Nodup) :
    total (set m k v) = total m - getD0 m k + v := by
  simp only [set, total_cons, total_erase k h]; omega

theorem total_nonneg {m : List (κ × Int)} (h : ∀ e ∈ m, 0 ≤ e.2) : 0 ≤ total m := by
  induction m with
  | nil => simp
  | cons e m ih =>
    rw [total_cons]
    have := h e (by simp)
    have := ih (fun e' he' => h e' (List.mem_cons_of_mem _ he'))
    omega

theorem getD0_nonneg {m : List (κ × Int)} (h : ∀ e ∈ m, 0 ≤ e.2) (k : κ) : 0 ≤ getD0 m k := by
  unfold getD0
  cases hf : find m k with
  | none => simp
  | some v => simpa using h _ (find_some_mem hf)

theorem getD0_le_total {m : List (κ × Int)} (hn : (keys m).Nodup) (h : ∀ e ∈ m, 0 ≤ e.2) (k : κ) :
    getD0 m k ≤ total m := by
  have h1 := total_erase k hn
  have h2 : 0 ≤ total (erase m k) := total_nonneg (fun e he => h e (mem_erase.1 he).1)
  omega

/-- two different accounts together hold at most the total -/
theorem getD0_add_le_total {m : List (κ × Int)} (hn : (keys m).Nodup) (h : ∀ e ∈ m, 0 ≤ e.2)
    {k k' : κ} (hne : k' ≠ k) : getD0 m k + getD0 m k' ≤ total m := by
  have h1 := total_erase k hn
  have h2 : getD0 (erase m k) k' ≤ total (erase m k) :=
    getD0_le_total (keys_erase_nodup k hn) (fun e he => h e (mem_erase.1 he).1) k'
  rw [getD0_erase_ne m hne] at h2
  omega

theorem getD0_of_mem {m : List (κ × Int)} (hn : (keys m).Nodup) {e : κ × Int} (he : e ∈ m) :
    getD0 m e.1 = e.2 := by
  induction m with
  | nil => simp at he
  | cons e' m ih =>
    simp only [keys, List.map_cons, List.nodup_cons] at hn
    rcases List.mem_cons.1 he with h | h
    · subst h; simp [getD0, find_cons]
    · have hne : e'.1 ≠ e.1 := by
        intro hk
        apply hn.1
        rw [hk]
        exact List.mem_map_of_mem h
      have := ih (by simpa [keys] using hn.2) h
      simpa [getD0, find_cons, hne] using this

/-- `if v == 0 { tree.Remove(k) } else { tree.Set(k, v) }` -/
def put (m : List (κ × Int)) (k : κ) (v : Int) : List (κ × Int) :=
  if v = 0 then erase m k else set m k v

theorem getD0_put_self (m : List (κ × Int)) (k : κ) (v : Int) : getD0 (put m k v) k = v := by
  unfold put
  by_cases h : v = 0
  · simp [h, getD0_erase_self]
  · simp [h, getD0_set_self]

theorem getD0_put_ne (m : List (κ × Int)) {k k' : κ} (v : Int) (hne : k' ≠ k) :
    getD0 (put m k v) k' = getD0 m k' := by
  unfold put
  by_cases h : v = 0
  · simp [h, getD0_erase_ne m hne]
  · simp [h, getD0_set_ne m v hne]

theorem keys_put_nodup {m : List (κ × Int)} (k : κ) (v : Int) (h : (keys m).Nodup) :
    (keys (put m k v)).Nodup := by
  unfold put
  by_cases hv : v = 0
  · simp [hv, keys_erase_nodup k h]
  · simp [hv, keys_set_nodup k v h]

theorem total_put {m : List (κ × Int)} (k : κ) (v : Int) (h : (keys m).Nodup) :
    total (put m k v) = total m - getD0 m k + v := by
  unfold put
  by_cases hv : v = 0
  · simp [hv, total_erase k h]
  · simp [hv, total_set k v h]

theorem mem_put {m : List (κ × Int)} {k : κ} {v : Int} {e : κ × Int} (h : e ∈ put m k v) :
    e = (k, v) ∨ (e ∈ m ∧ e.1 ≠ k) := by
  unfold put at h
  by_cases hv : v = 0
  · simp only [hv, ite_true] at h
    exact Or.inr (mem_erase.1 h)
  · simp only [hv, ite_false] at h
    exact mem_set.1 h

end Map

end GnoVerif.C51
